package wgen

import (
	"fmt"
	"strings"
)

// F5: interface programs (never executed). Each program comes with an interface model: expected
// resource bindings, address spaces, access modes, stage data and per-entry-point static use.

type F5Resource struct {
	Shared  bool // shares its (group, binding) with another resource (used by different entry points)
	Name    string
	Kind    string // uniform, storage_ro, storage_rw, texture, sampler, depth_texture, comparison_sampler, storage_texture
	Group   int
	Binding int
}

type F5IO struct {
	Name     string
	Location int    // -1 if builtin
	Builtin  string // WGSL builtin name
	Type     string
	Interp   string // "", "flat", "linear", "perspective" (+ sampling after comma)
	Sampling string // "", "center", "centroid", "sample"
	Invariant bool
}

type F5Entry struct {
	Name      string
	Stage     string // compute, vertex, fragment
	Workgroup [3]int
	Uses      []string // names of resources statically used (directly or through the helper)
	Inputs    []F5IO
	Outputs   []F5IO
}

type F5Program struct {
	Sig       string
	Src       string
	Resources []F5Resource
	Entries   []F5Entry
}

var f5Kinds = []string{"uniform", "storage_ro", "storage_rw", "texture", "sampler", "depth_texture", "comparison_sampler", "storage_texture"}

func f5Decl(r F5Resource) string {
	at := fmt.Sprintf("@group(%d) @binding(%d) ", r.Group, r.Binding)
	switch r.Kind {
	case "uniform":
		return at + "var<uniform> " + r.Name + ": vec4<f32>;"
	case "storage_ro":
		return at + "var<storage, read> " + r.Name + ": array<vec4<f32>>;"
	case "storage_rw":
		return at + "var<storage, read_write> " + r.Name + ": array<vec4<f32>>;"
	case "texture":
		return at + "var " + r.Name + ": texture_2d<f32>;"
	case "sampler":
		return at + "var " + r.Name + ": sampler;"
	case "depth_texture":
		return at + "var " + r.Name + ": texture_depth_2d;"
	case "comparison_sampler":
		return at + "var " + r.Name + ": sampler_comparison;"
	case "storage_texture":
		return at + "var " + r.Name + ": texture_storage_2d<rgba8unorm, write>;"
	}
	return ""
}

// f5Use returns a statement using resource r that accumulates into `acc: vec4<f32>`.
func f5Use(r F5Resource, stage string) string {
	switch r.Kind {
	case "uniform":
		return "acc += " + r.Name + ";"
	case "storage_ro":
		return "acc += " + r.Name + "[0];"
	case "storage_rw":
		return r.Name + "[1] = acc; acc += " + r.Name + "[0];"
	case "texture":
		return "acc += textureLoad(" + r.Name + ", vec2<i32>(0, 0), 0);"
	case "sampler":
		return "" // used together with a texture below
	case "depth_texture":
		return "acc.x += textureLoad(" + r.Name + ", vec2<i32>(0, 0), 0);"
	case "comparison_sampler":
		return ""
	case "storage_texture":
		return "textureStore(" + r.Name + ", vec2<i32>(0, 0), acc);"
	}
	return ""
}

func f5Allowed(kind, stage string) bool {
	if stage == "vertex" && (kind == "storage_rw" || kind == "storage_texture") {
		return false
	}
	return true
}

var f5IOVariants = map[string][]struct {
	in, out []F5IO
	structIn, structOut bool
}{
	"vertex": {
		{in: []F5IO{{Name: "a", Location: 0, Type: "vec4<f32>"}, {Name: "vi", Location: -1, Builtin: "vertex_index", Type: "u32"}},
			out: []F5IO{{Name: "pos", Location: -1, Builtin: "position", Type: "vec4<f32>"}}},
		{in: []F5IO{{Name: "a", Location: 1, Type: "vec2<f32>"}, {Name: "b", Location: 15, Type: "vec4<u32>"}, {Name: "ii", Location: -1, Builtin: "instance_index", Type: "u32"}}, structIn: true,
			out: []F5IO{{Name: "pos", Location: -1, Builtin: "position", Type: "vec4<f32>", Invariant: true}, {Name: "uv", Location: 0, Type: "vec2<f32>"}, {Name: "id", Location: 1, Type: "u32", Interp: "flat"},
				{Name: "c", Location: 15, Type: "vec4<f32>", Interp: "linear", Sampling: "centroid"}, {Name: "d", Location: 2, Type: "f32", Interp: "perspective", Sampling: "sample"}}, structOut: true},
	},
	"fragment": {
		{in: []F5IO{{Name: "uv", Location: 0, Type: "vec2<f32>"}}, out: []F5IO{{Name: "col", Location: 0, Type: "vec4<f32>"}}},
		{in: []F5IO{{Name: "pos", Location: -1, Builtin: "position", Type: "vec4<f32>"}, {Name: "uv", Location: 0, Type: "vec2<f32>"}, {Name: "id", Location: 1, Type: "u32", Interp: "flat"},
			{Name: "c", Location: 15, Type: "vec4<f32>", Interp: "linear", Sampling: "centroid"}, {Name: "ff", Location: -1, Builtin: "front_facing", Type: "bool"},
			{Name: "si", Location: -1, Builtin: "sample_index", Type: "u32"}, {Name: "sm", Location: -1, Builtin: "sample_mask", Type: "u32"}}, structIn: true,
			out: []F5IO{{Name: "col", Location: 0, Type: "vec4<f32>"}, {Name: "col1", Location: 1, Type: "vec4<f32>"}, {Name: "depth", Location: -1, Builtin: "frag_depth", Type: "f32"}, {Name: "mask", Location: -1, Builtin: "sample_mask", Type: "u32"}}, structOut: true},
	},
	"compute": {
		{in: []F5IO{{Name: "gid", Location: -1, Builtin: "global_invocation_id", Type: "vec3<u32>"}}},
		{in: []F5IO{{Name: "lid", Location: -1, Builtin: "local_invocation_id", Type: "vec3<u32>"}, {Name: "li", Location: -1, Builtin: "local_invocation_index", Type: "u32"},
			{Name: "wid", Location: -1, Builtin: "workgroup_id", Type: "vec3<u32>"}, {Name: "nw", Location: -1, Builtin: "num_workgroups", Type: "vec3<u32>"}}},
	},
}

func ioAttr(io F5IO) string {
	var a []string
	if io.Builtin != "" {
		a = append(a, "@builtin("+io.Builtin+")")
		if io.Invariant {
			a = append(a, "@invariant")
		}
	} else {
		a = append(a, fmt.Sprintf("@location(%d)", io.Location))
		if io.Interp != "" {
			if io.Sampling != "" {
				a = append(a, "@interpolate("+io.Interp+", "+io.Sampling+")")
			} else {
				a = append(a, "@interpolate("+io.Interp+")")
			}
		}
	}
	return strings.Join(a, " ")
}

func zeroOf(t string) string { return t + "()" }

// BuildF5 assembles one program. uses[e] is a bitmask over resources for entry e; viaHelper routes
// the use of resource 0 through a helper function.
func BuildF5(kinds []string, stages []string, uses []int, ioVar []int, shareBinding bool, viaHelper bool) *F5Program {
	p := &F5Program{}
	var sb strings.Builder
	gb := [][2]int{{0, 0}, {0, 3}, {1, 1}}
	for i, k := range kinds {
		r := F5Resource{Name: fmt.Sprintf("res%d", i), Kind: k, Group: gb[i][0], Binding: gb[i][1]}
		p.Resources = append(p.Resources, r)
	}
	if shareBinding && len(p.Resources) >= 2 {
		// resources 0 and 1 share one (group, binding): valid when no entry point uses both
		for _, u := range uses {
			if u&3 == 3 {
				return nil
			}
		}
		// the two must be distinguishable by the kind of object (the interface model identifies a
		// variable by its binding and kind)
		cls := func(k string) string {
			switch k {
			case "storage_ro", "storage_rw":
				return "storage"
			case "texture", "depth_texture", "storage_texture":
				return "image"
			case "sampler", "comparison_sampler":
				return "sampler"
			}
			return k
		}
		if cls(kinds[0]) == cls(kinds[1]) {
			return nil
		}
		p.Resources[1].Group, p.Resources[1].Binding = p.Resources[0].Group, p.Resources[0].Binding
		p.Resources[0].Shared, p.Resources[1].Shared = true, true
	}
	for _, r := range p.Resources {
		sb.WriteString(f5Decl(r) + "\n")
	}
	helperUsed := false
	for ei, st := range stages {
		v := f5IOVariants[st][ioVar[ei]%len(f5IOVariants[st])]
		e := F5Entry{Name: fmt.Sprintf("ep%d_%s", ei, st), Stage: st, Inputs: v.in, Outputs: v.out}
		if st == "compute" {
			e.Workgroup = [3]int{1 + ei, 2, 1}
		}
		var body strings.Builder
		body.WriteString("  var acc = vec4<f32>(0.0);\n")
		for ri, r := range p.Resources {
			if uses[ei]&(1<<ri) == 0 {
				continue
			}
			if !f5Allowed(r.Kind, st) {
				return nil
			}
			if (r.Kind == "sampler" || r.Kind == "comparison_sampler") && st != "fragment" {
				// samplers are only used by textureSample* which needs fragment stage (implicit derivatives) - use Level variants elsewhere
			}
			switch r.Kind {
			case "sampler":
				// needs a sampled texture in the same entry point
				tex := ""
				for rj, r2 := range p.Resources {
					if r2.Kind == "texture" && uses[ei]&(1<<rj) != 0 {
						tex = r2.Name
					}
				}
				if tex == "" {
					return nil
				}
				body.WriteString("  acc += textureSampleLevel(" + tex + ", " + r.Name + ", vec2<f32>(0.5), 0.0);\n")
			case "comparison_sampler":
				tex := ""
				for rj, r2 := range p.Resources {
					if r2.Kind == "depth_texture" && uses[ei]&(1<<rj) != 0 {
						tex = r2.Name
					}
				}
				if tex == "" {
					return nil
				}
				body.WriteString("  acc.y += textureSampleCompareLevel(" + tex + ", " + r.Name + ", vec2<f32>(0.5), 0.5);\n")
			default:
				if ri == 0 && viaHelper && (r.Kind == "uniform" || r.Kind == "storage_ro") {
					body.WriteString("  acc += helper0();\n")
					helperUsed = true
				} else {
					body.WriteString("  " + f5Use(r, st) + "\n")
				}
			}
			e.Uses = append(e.Uses, r.Name)
		}
		// signature
		var params []string
		var pre strings.Builder
		if v.structIn {
			sn := fmt.Sprintf("In%d", ei)
			pre.WriteString("struct " + sn + " {\n")
			for _, io := range v.in {
				pre.WriteString("  " + ioAttr(io) + " " + io.Name + ": " + io.Type + ",\n")
			}
			pre.WriteString("}\n")
			params = append(params, "inp: "+sn)
		} else {
			for _, io := range v.in {
				params = append(params, ioAttr(io)+" "+io.Name+": "+io.Type)
			}
		}
		ret := ""
		retStmt := ""
		if len(v.out) > 0 {
			if v.structOut {
				sn := fmt.Sprintf("Out%d", ei)
				pre.WriteString("struct " + sn + " {\n")
				for _, io := range v.out {
					pre.WriteString("  " + ioAttr(io) + " " + io.Name + ": " + io.Type + ",\n")
				}
				pre.WriteString("}\n")
				ret = " -> " + sn
				body.WriteString("  var outv: " + sn + ";\n")
				for _, io := range v.out {
					val := zeroOf(io.Type)
					if io.Type == "vec4<f32>" {
						val = "acc"
					}
					body.WriteString("  outv." + io.Name + " = " + val + ";\n")
				}
				retStmt = "  return outv;\n"
			} else {
				io := v.out[0]
				ret = " -> " + ioAttr(io) + " " + io.Type
				retStmt = "  return acc;\n"
			}
		} else if st == "compute" {
			// make acc observable so that nothing is trivially dead: write through a storage_rw resource if used
		}
		sb.WriteString(pre.String())
		attr := "@" + st
		if st == "compute" {
			attr += fmt.Sprintf(" @workgroup_size(%d, %d, %d)", e.Workgroup[0], e.Workgroup[1], e.Workgroup[2])
		}
		sb.WriteString(attr + "\nfn " + e.Name + "(" + strings.Join(params, ", ") + ")" + ret + " {\n" + body.String() + retStmt + "}\n")
		p.Entries = append(p.Entries, e)
	}
	if helperUsed {
		r := p.Resources[0]
		use := r.Name
		if r.Kind == "storage_ro" {
			use += "[0]"
		}
		p.Src = sb.String()
		p.Src = strings.Replace(p.Src, "@"+stages[0], "fn helper0() -> vec4<f32> { return "+use+"; }\n@"+stages[0], 1)
	} else {
		p.Src = sb.String()
	}
	p.Sig = fmt.Sprintf("F5/%s/%s/uses=%v/io=%v/share=%v/helper=%v", strings.Join(kinds, ","), strings.Join(stages, ","), uses, ioVar, shareBinding, viaHelper)
	return p
}

// F5Programs enumerates the interface family: all resource-kind triples (ordered selection of 3
// of 8 kinds with index increasing) x stage pairs x all use-subsets per entry point x IO variants.
func F5Programs(thorough bool) []*F5Program {
	var out []*F5Program
	stagePairs := [][]string{{"compute", "compute"}, {"vertex", "fragment"}, {"fragment", "compute"}, {"compute"}, {"vertex", "fragment", "compute", "compute"}}
	for a := 0; a < len(f5Kinds); a++ {
		for b := a; b < len(f5Kinds); b++ {
			for c := b; c < len(f5Kinds); c++ {
				kinds := []string{f5Kinds[a], f5Kinds[b], f5Kinds[c]}
				for si, stages := range stagePairs {
					nsub := 8
					// all use-subsets for every entry point (entries beyond the second reuse the first two masks rotated)
					for u0 := 0; u0 < nsub; u0++ {
						for u1 := 0; u1 < nsub; u1++ {
							if len(stages) == 1 && u1 != 0 {
								continue
							}
							if !thorough && (u0*8+u1+si)%3 != 0 && u0 != 7 && u1 != 7 && u0 != 0 {
								continue // quick: a fixed third of the subset pairs plus the all/none rows
							}
							uses := []int{u0, u1, u1, u0}[:len(stages)]
							for io := 0; io < 2; io++ {
								for _, share := range []bool{false, true} {
									if share && (io == 1 || !thorough && (u0+u1)%2 == 1) {
										continue
									}
									helper := (u0+u1+io)%2 == 0
									if p := BuildF5(kinds, stages, uses, []int{io, io, io, 1 - io}[:len(stages)], share, helper); p != nil {
										out = append(out, p)
									}
								}
							}
						}
					}
				}
			}
		}
	}
	return out
}
