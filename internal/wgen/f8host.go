package wgen

// F8h — forward references from every host position. A helper function `host` contains exactly ONE
// reference to a module-scope entity (a function, const, private var, struct or alias) that is declared
// LATER in the text; the reference sits in every expression / statement position the grammar offers
// (declaration initialisers, both sides of assignments, conditions of if / else-if / while / for /
// break-if, for-initialiser and update, loop body and continuing block, switch selector, case selector,
// case bodies, return values, arguments of user and builtin calls, indices on either side, constructor
// arguments, conversions, bitcast operands, unary / binary / short-circuit operands, bases of member and
// swizzle accesses, nested blocks, pointer stores), plus positions that exist only for one kind of entity
// (a variable that is only stored to, incremented or pointed at; a void function called as a statement,
// in a for header or a continuing block; struct / alias names in local variable types, pointer types,
// array element types, zero-value constructors, bitcast / vector template arguments; a const as array
// count). Nothing else in `host` mentions the entity, so whatever orders the module's declarations must
// find the reference in that one position. Each program is printed with the entity right after `host`,
// at the very end of the module, and (control) before everything else.

import "fmt"

// f8hx is what a host sees.
type f8hx struct {
	b      *f8b
	acc, a Expr
	h      func() Expr // a fresh copy of the reference (an i32 expression of value 4)
	ty     *Type       // struct / alias entity: the type it names, as this mode sees it
	SJ     *Type
	ret    Stmt // replaces the final `return acc;`
}

type f8Host struct {
	name  string
	cst   bool     // the position requires a const-expression
	noex  bool     // a statement form the reference evaluator does not model: compile-only
	needs []string // support declarations: inc, add2, SJ, sink
	build func(x *f8hx) []Stmt
}

func f8acc(x *f8hx, e Expr) Stmt { return f8upd(x.acc, "+=", e) }

var f8Arr8 = Array(TI32, 8)

func f8arr8Decl() Stmt {
	var args []Expr
	for i := 1; i <= 8; i++ {
		args = append(args, f8i(i))
	}
	return f8var("arr", f8cons(f8Arr8, args...))
}

func f8nDecl() (Stmt, Expr) { return f8var("n", f8i(0)), V("n", TI32) }

func f8forI(init Stmt, cond Expr, upd Stmt, body ...Stmt) Stmt {
	return &For{Init: init, Cond: cond, Upd: upd, Body: body}
}

var f8HostsGeneric = []f8Host{
	{name: "let", build: func(x *f8hx) []Stmt { return []Stmt{f8let("t", x.h()), f8acc(x, L("t", TI32))} }},
	{name: "let-typed", build: func(x *f8hx) []Stmt { return []Stmt{f8letT("t", TI32, x.h()), f8acc(x, L("t", TI32))} }},
	{name: "var", build: func(x *f8hx) []Stmt {
		return []Stmt{f8var("t", x.h()), f8upd(V("t", TI32), "+=", f8i(1)), f8acc(x, V("t", TI32))}
	}},
	{name: "var-typed", build: func(x *f8hx) []Stmt { return []Stmt{f8varT("t", TI32, x.h()), f8acc(x, V("t", TI32))} }},
	{name: "const", cst: true, build: func(x *f8hx) []Stmt { return []Stmt{f8const("t", x.h()), f8acc(x, L("t", TI32))} }},
	{name: "const-typed", cst: true, build: func(x *f8hx) []Stmt {
		return []Stmt{&VarDecl{Kind: "const", Name: "t", Ty: TI32, Init: x.h(), Explicit: true}, f8acc(x, L("t", TI32))}
	}},
	{name: "assign", build: func(x *f8hx) []Stmt { return []Stmt{f8set(x.acc, x.h())} }},
	{name: "compound-add", build: func(x *f8hx) []Stmt { return []Stmt{f8acc(x, x.h())} }},
	{name: "compound-mul", build: func(x *f8hx) []Stmt { return []Stmt{f8upd(x.acc, "*=", x.h())} }},
	{name: "phony", noex: true, build: func(x *f8hx) []Stmt { return []Stmt{f8set(&Ref{Name: "_", Ty: TI32}, x.h())} }},
	{name: "paren", build: func(x *f8hx) []Stmt { return []Stmt{f8acc(x, &Paren{X: x.h()})} }},
	{name: "if-cond", build: func(x *f8hx) []Stmt {
		return []Stmt{&If{Cond: f8cmp(">", x.h(), f8i(3)), Then: []Stmt{f8acc(x, f8i(10))}}}
	}},
	{name: "if-cond-else", build: func(x *f8hx) []Stmt {
		return []Stmt{&If{Cond: f8cmp("<", x.h(), f8i(3)), Then: []Stmt{f8acc(x, f8i(10))}, Else: []Stmt{f8acc(x, f8i(20))}, HasElse: true}}
	}},
	{name: "elseif-cond", build: func(x *f8hx) []Stmt {
		return []Stmt{&If{Cond: f8cmp(">", x.a, f8i(100)), Then: []Stmt{f8acc(x, f8i(10))}, HasElse: true, Else: []Stmt{
			&If{Cond: f8cmp(">", x.h(), f8i(3)), Then: []Stmt{f8acc(x, f8i(20))}, Else: []Stmt{f8acc(x, f8i(30))}, HasElse: true}}}}
	}},
	{name: "if-body", build: func(x *f8hx) []Stmt {
		return []Stmt{&If{Cond: f8cmp("<", x.a, f8i(100)), Then: []Stmt{f8acc(x, x.h())}}}
	}},
	{name: "else-body", build: func(x *f8hx) []Stmt {
		return []Stmt{&If{Cond: f8cmp(">", x.a, f8i(100)), Then: []Stmt{f8acc(x, f8i(1))}, Else: []Stmt{f8acc(x, x.h())}, HasElse: true}}
	}},
	{name: "elseif-body", build: func(x *f8hx) []Stmt {
		return []Stmt{&If{Cond: f8cmp(">", x.a, f8i(100)), Then: []Stmt{f8acc(x, f8i(1))}, HasElse: true, Else: []Stmt{
			&If{Cond: f8cmp("<", x.a, f8i(100)), Then: []Stmt{f8acc(x, x.h())}}}}}
	}},
	{name: "while-cond", build: func(x *f8hx) []Stmt {
		d, n := f8nDecl()
		return []Stmt{d, &While{Cond: f8cmp("<", n, x.h()), Body: []Stmt{f8upd(n, "+=", f8i(1)), f8acc(x, f8i(2))}}}
	}},
	{name: "while-body", build: func(x *f8hx) []Stmt {
		d, n := f8nDecl()
		return []Stmt{d, &While{Cond: f8cmp("<", n, f8i(2)), Body: []Stmt{f8upd(n, "+=", f8i(1)), f8acc(x, x.h())}}}
	}},
	{name: "for-init", build: func(x *f8hx) []Stmt {
		i := V("i", TI32)
		return []Stmt{f8forI(f8var("i", x.h()), f8cmp("<", i, f8i(7)), &IncDec{LHS: i, Inc: true}, f8acc(x, i))}
	}},
	{name: "for-init-assign", build: func(x *f8hx) []Stmt {
		i := V("i", TI32)
		return []Stmt{&VarDecl{Kind: "var", Name: "i", Ty: TI32}, f8forI(f8set(i, x.h()), f8cmp("<", i, f8i(7)), &IncDec{LHS: i, Inc: true}, f8acc(x, i))}
	}},
	{name: "for-cond", build: func(x *f8hx) []Stmt {
		i := V("i", TI32)
		return []Stmt{f8forI(f8var("i", f8i(0)), f8cmp("<", i, x.h()), &IncDec{LHS: i, Inc: true}, f8acc(x, i))}
	}},
	{name: "for-update", build: func(x *f8hx) []Stmt {
		i := V("i", TI32)
		return []Stmt{f8forI(f8var("i", f8i(0)), f8cmp("<", i, f8i(9)), f8upd(i, "+=", x.h()), f8acc(x, f8i(1)))}
	}},
	{name: "for-body", build: func(x *f8hx) []Stmt {
		i := V("i", TI32)
		return []Stmt{f8forI(f8var("i", f8i(0)), f8cmp("<", i, f8i(2)), &IncDec{LHS: i, Inc: true}, f8acc(x, x.h()))}
	}},
	{name: "loop-body", build: func(x *f8hx) []Stmt {
		d, n := f8nDecl()
		return []Stmt{d, &Loop{Body: []Stmt{&If{Cond: f8cmp(">=", n, f8i(2)), Then: []Stmt{&Break{}}}, f8acc(x, x.h()), f8upd(n, "+=", f8i(1))}}}
	}},
	{name: "loop-break-cond", build: func(x *f8hx) []Stmt {
		d, n := f8nDecl()
		return []Stmt{d, &Loop{Body: []Stmt{&If{Cond: f8cmp(">=", n, x.h()), Then: []Stmt{&Break{}}}, f8upd(n, "+=", f8i(1)), f8acc(x, f8i(3))}}}
	}},
	{name: "continuing", build: func(x *f8hx) []Stmt {
		d, n := f8nDecl()
		return []Stmt{d, &Loop{Body: []Stmt{&If{Cond: f8cmp(">=", n, f8i(8)), Then: []Stmt{&Break{}}}},
			Continuing: []Stmt{f8upd(n, "+=", x.h()), f8acc(x, f8i(1))}, HasCont: true}}
	}},
	{name: "break-if", build: func(x *f8hx) []Stmt {
		d, n := f8nDecl()
		return []Stmt{d, &Loop{Body: []Stmt{f8upd(n, "+=", f8i(1)), f8acc(x, f8i(1))}, HasCont: true, BreakIf: f8cmp(">=", n, x.h())}}
	}},
	{name: "switch-selector", build: func(x *f8hx) []Stmt {
		return []Stmt{&Switch{Sel: x.h(), Cases: []SwCase{{Sels: []Expr{f8i(4)}, Body: []Stmt{f8acc(x, f8i(10))}},
			{Sels: []Expr{f8i(5), f8i(6)}, Body: []Stmt{f8acc(x, f8i(20))}}, {Default: true, Body: []Stmt{f8acc(x, f8i(30))}}}}}
	}},
	{name: "case-selector", cst: true, build: func(x *f8hx) []Stmt {
		return []Stmt{&Switch{Sel: x.a, Cases: []SwCase{{Sels: []Expr{x.h()}, Body: []Stmt{f8acc(x, f8i(10))}}, {Default: true, Body: []Stmt{f8acc(x, f8i(20))}}}}}
	}},
	{name: "case-selector-list", cst: true, build: func(x *f8hx) []Stmt {
		return []Stmt{&Switch{Sel: x.a, Cases: []SwCase{{Sels: []Expr{f8i(7), x.h()}, Default: true, DefaultPos: 2, Body: []Stmt{f8acc(x, f8i(10))}},
			{Sels: []Expr{f8i(1)}, Body: []Stmt{f8acc(x, f8i(20))}}}}}
	}},
	{name: "case-body", build: func(x *f8hx) []Stmt {
		return []Stmt{&Switch{Sel: x.a, Cases: []SwCase{{Sels: []Expr{f8i(1)}, Body: []Stmt{f8acc(x, x.h())}}, {Default: true, Body: []Stmt{f8acc(x, f8i(20))}}}}}
	}},
	{name: "default-body", build: func(x *f8hx) []Stmt {
		return []Stmt{&Switch{Sel: x.a, Cases: []SwCase{{Sels: []Expr{f8i(1)}, Body: []Stmt{f8acc(x, f8i(20))}}, {Default: true, Body: []Stmt{f8acc(x, x.h())}}}}}
	}},
	{name: "return", build: func(x *f8hx) []Stmt { x.ret = f8ret(f8add(x.acc, x.h())); return nil }},
	{name: "early-return", build: func(x *f8hx) []Stmt {
		return []Stmt{&If{Cond: f8cmp(">", x.a, f8i(3)), Then: []Stmt{f8ret(x.h())}}}
	}},
	{name: "call-arg", needs: []string{"inc"}, build: func(x *f8hx) []Stmt { return []Stmt{f8acc(x, f8call("inc", x.h()))} }},
	{name: "call-arg-nested", needs: []string{"inc"}, build: func(x *f8hx) []Stmt {
		return []Stmt{f8acc(x, f8call("inc", f8call("inc", x.h())))}
	}},
	{name: "call-arg-first", needs: []string{"add2"}, build: func(x *f8hx) []Stmt { return []Stmt{f8acc(x, f8call("add2", x.h(), x.a))} }},
	{name: "call-arg-second", needs: []string{"add2"}, build: func(x *f8hx) []Stmt { return []Stmt{f8acc(x, f8call("add2", x.a, x.h()))} }},
	{name: "stmt-call-arg", needs: []string{"sink"}, build: func(x *f8hx) []Stmt {
		return []Stmt{&ExprStmt{X: &Call{Fn: "sink", Args: []Expr{x.h()}, User: true}}}
	}},
	{name: "builtin-arg", build: func(x *f8hx) []Stmt { return []Stmt{f8acc(x, f8built("max", TI32, x.h(), x.a))} }},
	{name: "builtin-arg-nested", build: func(x *f8hx) []Stmt {
		return []Stmt{f8acc(x, f8built("min", TI32, f8built("max", TI32, x.h(), f8i(0)), f8i(9)))}
	}},
	{name: "builtin-arg-third", build: func(x *f8hx) []Stmt { return []Stmt{f8acc(x, f8built("clamp", TI32, x.a, f8i(0), x.h()))} }},
	{name: "select-arg", build: func(x *f8hx) []Stmt {
		return []Stmt{f8acc(x, f8built("select", TI32, f8i(1), x.h(), f8cmp(">", x.a, f8i(0))))}
	}},
	{name: "select-cond", build: func(x *f8hx) []Stmt {
		return []Stmt{f8acc(x, f8built("select", TI32, f8i(1), f8i(2), f8cmp(">", x.h(), f8i(3))))}
	}},
	{name: "index", build: func(x *f8hx) []Stmt { return []Stmt{f8arr8Decl(), f8acc(x, f8idx(V("arr", f8Arr8), x.h(), TI32))} }},
	{name: "index-lhs", build: func(x *f8hx) []Stmt {
		arr := V("arr", f8Arr8)
		return []Stmt{f8arr8Decl(), f8set(f8idx(arr, x.h(), TI32), f8i(9)), f8acc(x, f8idx(arr, f8i(4), TI32))}
	}},
	{name: "index-compound-lhs", build: func(x *f8hx) []Stmt {
		arr := V("arr", f8Arr8)
		return []Stmt{f8arr8Decl(), f8upd(f8idx(arr, x.h(), TI32), "+=", f8i(2)), f8acc(x, f8idx(arr, f8i(4), TI32))}
	}},
	{name: "index-increment", build: func(x *f8hx) []Stmt {
		arr := V("arr", f8Arr8)
		return []Stmt{f8arr8Decl(), &IncDec{LHS: f8idx(arr, x.h(), TI32), Inc: true}, f8acc(x, f8idx(arr, f8i(4), TI32))}
	}},
	{name: "vec-index", build: func(x *f8hx) []Stmt {
		v4 := Vec(I32, 4)
		return []Stmt{f8var("v", f8cons(v4, f8i(1), f8i(2), f8i(3), f8i(4))), f8acc(x, f8idx(V("v", v4), f8op("-", x.h(), f8i(1)), TI32))}
	}},
	{name: "cons-vec", build: func(x *f8hx) []Stmt {
		v2 := Vec(I32, 2)
		return []Stmt{f8let("v", f8cons(v2, x.h(), f8i(1))), f8acc(x, f8add(&Swz{X: L("v", v2), Pat: "x", Ty: TI32}, &Swz{X: L("v", v2), Pat: "y", Ty: TI32}))}
	}},
	{name: "cons-vec-splat", build: func(x *f8hx) []Stmt {
		v3 := Vec(I32, 3)
		return []Stmt{f8let("v", f8cons(v3, x.h())), f8acc(x, &Swz{X: L("v", v3), Pat: "z", Ty: TI32})}
	}},
	{name: "cons-struct", needs: []string{"SJ"}, build: func(x *f8hx) []Stmt {
		return []Stmt{f8let("s", f8cons(x.SJ, x.h(), f8i(2))), f8acc(x, f8fld(L("s", x.SJ), "p", TI32))}
	}},
	{name: "cons-array", build: func(x *f8hx) []Stmt {
		a2 := Array(TI32, 2)
		return []Stmt{f8var("r", f8cons(a2, x.h(), f8i(1))), f8acc(x, f8idx(V("r", a2), f8i(0), TI32))}
	}},
	{name: "conv-f32", build: func(x *f8hx) []Stmt {
		return []Stmt{f8acc(x, f8cons(TI32, &Bin{Op: "*", L: f8cons(TF32, x.h()), R: &Lit{Ty: TF32, Bits: 0x40000000, Bare: true}, Ty: TF32}))}
	}},
	{name: "conv-u32", build: func(x *f8hx) []Stmt {
		return []Stmt{f8acc(x, f8cons(TI32, &Bin{Op: "+", L: f8cons(TU32, x.h()), R: LitU(1), Ty: TU32}))}
	}},
	{name: "conv-i32", build: func(x *f8hx) []Stmt { return []Stmt{f8acc(x, f8cons(TI32, x.h()))} }},
	{name: "bitcast", build: func(x *f8hx) []Stmt { return []Stmt{f8acc(x, f8cons(TI32, &Bitcast{Ty: TU32, X: x.h()}))} }},
	{name: "bitcast-same", build: func(x *f8hx) []Stmt { return []Stmt{f8acc(x, &Bitcast{Ty: TI32, X: x.h()})} }},
	{name: "unary-neg", build: func(x *f8hx) []Stmt { return []Stmt{f8acc(x, &Un{Op: "-", X: x.h(), Ty: TI32})} }},
	{name: "unary-compl", build: func(x *f8hx) []Stmt { return []Stmt{f8acc(x, &Un{Op: "~", X: x.h(), Ty: TI32})} }},
	{name: "unary-not", build: func(x *f8hx) []Stmt {
		return []Stmt{&If{Cond: &Un{Op: "!", X: f8cmp(">", x.h(), f8i(3)), Ty: TBool}, Then: []Stmt{f8acc(x, f8i(10))}, Else: []Stmt{f8acc(x, f8i(20))}, HasElse: true}}
	}},
	{name: "binary-left", build: func(x *f8hx) []Stmt { return []Stmt{f8set(x.acc, f8op("-", x.h(), x.acc))} }},
	{name: "binary-right", build: func(x *f8hx) []Stmt { return []Stmt{f8set(x.acc, f8op("-", x.acc, x.h()))} }},
	{name: "binary-both", build: func(x *f8hx) []Stmt { return []Stmt{f8acc(x, f8mul(x.h(), x.h()))} }},
	{name: "shift-amount", build: func(x *f8hx) []Stmt { return []Stmt{f8set(x.acc, f8op("<<", x.acc, f8cons(TU32, x.h())))} }},
	{name: "logical-and-rhs", build: func(x *f8hx) []Stmt {
		return []Stmt{&If{Cond: f8cmp("&&", f8cmp(">", x.a, f8i(0)), f8cmp(">", x.h(), f8i(3))), Then: []Stmt{f8acc(x, f8i(10))}}}
	}},
	{name: "logical-or-rhs", build: func(x *f8hx) []Stmt {
		return []Stmt{&If{Cond: f8cmp("||", f8cmp(">", x.a, f8i(100)), f8cmp(">", x.h(), f8i(3))), Then: []Stmt{f8acc(x, f8i(10))}}}
	}},
	{name: "compare-let", build: func(x *f8hx) []Stmt {
		return []Stmt{f8let("c", f8cmp("==", x.h(), f8i(4))), &If{Cond: L("c", TBool), Then: []Stmt{f8acc(x, f8i(10))}}}
	}},
	{name: "member-base", needs: []string{"SJ"}, build: func(x *f8hx) []Stmt {
		return []Stmt{f8acc(x, f8fld(f8cons(x.SJ, x.h(), f8i(2)), "p", TI32))}
	}},
	{name: "swizzle-base", build: func(x *f8hx) []Stmt {
		v2 := Vec(I32, 2)
		return []Stmt{f8acc(x, &Swz{X: &Swz{X: f8cons(v2, x.h(), f8i(1)), Pat: "yx", Ty: v2}, Pat: "y", Ty: TI32})}
	}},
	{name: "nested-block", build: func(x *f8hx) []Stmt { return []Stmt{&Block{Body: []Stmt{&Block{Body: []Stmt{f8acc(x, x.h())}}}}} }},
	{name: "deep-nest", build: func(x *f8hx) []Stmt {
		i := V("i", TI32)
		sw := &Switch{Sel: x.a, Cases: []SwCase{{Sels: []Expr{f8i(1)}, Body: []Stmt{f8acc(x, x.h())}}, {Default: true, Body: []Stmt{f8acc(x, f8i(3))}}}}
		return []Stmt{f8forI(f8var("i", f8i(0)), f8cmp("<", i, f8i(2)), &IncDec{LHS: i, Inc: true}, &If{Cond: f8cmp("==", i, f8i(1)), Then: []Stmt{sw}})}
	}},
	{name: "deref-store", build: func(x *f8hx) []Stmt {
		pt := Ptr("function", TI32)
		return []Stmt{f8let("p", &AddrOf{X: x.acc, Ty: pt}), f8upd(&Deref{X: L("p", pt), Ty: TI32}, "+=", x.h())}
	}},
	{name: "addr-of-local", build: func(x *f8hx) []Stmt {
		pt := Ptr("function", TI32)
		return []Stmt{f8var("t", x.h()), f8let("q", &AddrOf{X: V("t", TI32), Ty: pt}), f8acc(x, &Deref{X: L("q", pt), Ty: TI32})}
	}},
	{name: "const-assert", cst: true, build: func(x *f8hx) []Stmt {
		return []Stmt{&ConstAssert{X: f8cmp("==", x.h(), f8i(4))}, f8acc(x, f8i(1))}
	}},
}

// hosts that exist for one kind of entity only
var f8HostsSpecific = map[string][]f8Host{
	"var": {
		{name: "store-only", build: func(x *f8hx) []Stmt { return []Stmt{f8set(V("gp", TI32), f8add(x.a, f8i(8)))} }},
		{name: "compound-only", build: func(x *f8hx) []Stmt { return []Stmt{f8upd(V("gp", TI32), "+=", x.a)} }},
		{name: "increment-only", build: func(x *f8hx) []Stmt { return []Stmt{&IncDec{LHS: V("gp", TI32), Inc: true}} }},
		{name: "decrement-in-for-update", build: func(x *f8hx) []Stmt {
			i := V("i", TI32)
			return []Stmt{f8forI(f8var("i", f8i(0)), f8cmp("<", i, f8i(2)), &IncDec{LHS: V("gp", TI32)}, &IncDec{LHS: i, Inc: true})}
		}},
		{name: "address-of", build: func(x *f8hx) []Stmt {
			pt := Ptr("private", TI32)
			p := &Deref{X: L("p", pt), Ty: TI32}
			return []Stmt{f8let("p", &AddrOf{X: V("gp", TI32), Ty: pt}), f8set(p, f8add(p, x.a))}
		}},
		{name: "pointer-argument", needs: []string{"bumpp"}, build: func(x *f8hx) []Stmt {
			return []Stmt{&ExprStmt{X: &Call{Fn: "bumpp", Args: []Expr{&AddrOf{X: V("gp", TI32), Ty: Ptr("private", TI32)}}, User: true}}}
		}},
	},
	"fnv": {
		{name: "stmt-call", build: func(x *f8hx) []Stmt { return []Stmt{f8fv(x.a)} }},
		{name: "stmt-call-in-block", build: func(x *f8hx) []Stmt { return []Stmt{&Block{Body: []Stmt{f8fv(x.a)}}} }},
		{name: "stmt-call-in-if", build: func(x *f8hx) []Stmt {
			return []Stmt{&If{Cond: f8cmp("<", x.a, f8i(100)), Then: []Stmt{f8fv(x.a)}}}
		}},
		{name: "stmt-call-in-else", build: func(x *f8hx) []Stmt {
			return []Stmt{&If{Cond: f8cmp(">", x.a, f8i(100)), Then: []Stmt{f8acc(x, f8i(1))}, Else: []Stmt{f8fv(x.a)}, HasElse: true}}
		}},
		{name: "stmt-call-in-loop", build: func(x *f8hx) []Stmt {
			d, n := f8nDecl()
			return []Stmt{d, &Loop{Body: []Stmt{&If{Cond: f8cmp(">=", n, f8i(2)), Then: []Stmt{&Break{}}}, f8fv(x.a), f8upd(n, "+=", f8i(1))}}}
		}},
		{name: "stmt-call-in-continuing", build: func(x *f8hx) []Stmt {
			d, n := f8nDecl()
			return []Stmt{d, &Loop{Body: []Stmt{&If{Cond: f8cmp(">=", n, f8i(2)), Then: []Stmt{&Break{}}}}, Continuing: []Stmt{f8fv(x.a), f8upd(n, "+=", f8i(1))}, HasCont: true}}
		}},
		{name: "stmt-call-in-case", build: func(x *f8hx) []Stmt {
			return []Stmt{&Switch{Sel: x.a, Cases: []SwCase{{Sels: []Expr{f8i(1)}, Body: []Stmt{f8fv(x.a)}}, {Default: true, Body: []Stmt{f8acc(x, f8i(1))}}}}}
		}},
		{name: "stmt-call-in-while", build: func(x *f8hx) []Stmt {
			d, n := f8nDecl()
			return []Stmt{d, &While{Cond: f8cmp("<", n, f8i(2)), Body: []Stmt{f8fv(x.a), f8upd(n, "+=", f8i(1))}}}
		}},
		{name: "stmt-call-as-for-init", build: func(x *f8hx) []Stmt {
			d, n := f8nDecl()
			return []Stmt{d, f8forI(f8fv(x.a), f8cmp("<", n, f8i(2)), f8upd(n, "+=", f8i(1)), f8acc(x, f8i(1)))}
		}},
		{name: "stmt-call-as-for-update", build: func(x *f8hx) []Stmt {
			d, n := f8nDecl()
			return []Stmt{d, f8forI(nil, f8cmp("<", n, f8i(2)), f8fv(x.a), f8upd(n, "+=", f8i(1)))}
		}},
	},
	"struct": {
		{name: "local-var-type", build: func(x *f8hx) []Stmt {
			t := V("t", x.ty)
			return []Stmt{&VarDecl{Kind: "var", Name: "t", Ty: x.ty}, f8set(f8fld(t, "a", TI32), f8i(4)), f8acc(x, f8add(f8fld(t, "a", TI32), f8fld(t, "b", TI32)))}
		}},
		{name: "zero-value", build: func(x *f8hx) []Stmt {
			return []Stmt{f8let("t", f8cons(x.ty)), f8acc(x, f8add(f8fld(L("t", x.ty), "a", TI32), f8i(4)))}
		}},
		{name: "array-element-type", build: func(x *f8hx) []Stmt {
			at := Array(x.ty, 2)
			e := f8fld(f8idx(V("r", at), f8i(1), x.ty), "a", TI32)
			return []Stmt{&VarDecl{Kind: "var", Name: "r", Ty: at}, f8set(e, f8i(4)), f8acc(x, e)}
		}},
		{name: "array-constructor-type", build: func(x *f8hx) []Stmt {
			at := Array(x.ty, 2)
			return []Stmt{f8var("r", f8cons(at)), f8acc(x, f8add(f8fld(f8idx(V("r", at), f8i(0), x.ty), "b", TI32), f8i(4)))}
		}},
		{name: "pointer-type", build: func(x *f8hx) []Stmt {
			pt := Ptr("function", x.ty)
			t := V("t", x.ty)
			return []Stmt{&VarDecl{Kind: "var", Name: "t", Ty: x.ty}, &VarDecl{Kind: "let", Name: "p", Ty: pt, Init: &AddrOf{X: t, Ty: pt}, Explicit: true},
				f8set(f8fld(&Deref{X: L("p", pt), Ty: x.ty}, "a", TI32), f8i(4)), f8acc(x, f8fld(t, "a", TI32))}
		}},
	},
	"alias": {
		{name: "local-var-type", build: func(x *f8hx) []Stmt { return []Stmt{f8varT("t", x.ty, f8i(4)), f8acc(x, V("t", TI32))} }},
		{name: "local-var-type-noinit", build: func(x *f8hx) []Stmt {
			return []Stmt{&VarDecl{Kind: "var", Name: "t", Ty: x.ty}, f8set(V("t", TI32), f8i(4)), f8acc(x, V("t", TI32))}
		}},
		{name: "let-type", build: func(x *f8hx) []Stmt { return []Stmt{f8letT("t", x.ty, f8i(4)), f8acc(x, L("t", TI32))} }},
		{name: "zero-value", build: func(x *f8hx) []Stmt { return []Stmt{f8acc(x, f8add(f8cons(x.ty), f8i(4)))} }},
		{name: "array-element-type", build: func(x *f8hx) []Stmt {
			at := Array(x.ty, 2)
			e := f8idx(V("r", at), f8i(1), TI32)
			return []Stmt{&VarDecl{Kind: "var", Name: "r", Ty: at}, f8set(e, f8i(4)), f8acc(x, e)}
		}},
		{name: "array-constructor-type", build: func(x *f8hx) []Stmt {
			at := Array(x.ty, 2)
			return []Stmt{f8var("r", f8cons(at, f8i(4), f8i(1))), f8acc(x, f8idx(V("r", at), f8i(0), TI32))}
		}},
		{name: "vector-component-type", build: func(x *f8hx) []Stmt {
			vt := x.b.named("vec2<AI>", Vec(I32, 2))
			return []Stmt{f8let("v", f8cons(vt, f8i(4), f8i(1))), f8acc(x, &Swz{X: L("v", vt), Pat: "x", Ty: TI32})}
		}},
		{name: "bitcast-type", build: func(x *f8hx) []Stmt { return []Stmt{f8acc(x, &Bitcast{Ty: x.ty, X: LitU(4)})} }},
		{name: "pointer-type", build: func(x *f8hx) []Stmt {
			pt := Ptr("function", x.ty)
			return []Stmt{f8var("t", f8i(3)), &VarDecl{Kind: "let", Name: "p", Ty: pt, Init: &AddrOf{X: V("t", TI32), Ty: pt}, Explicit: true},
				f8upd(&Deref{X: L("p", pt), Ty: TI32}, "+=", f8i(1)), f8acc(x, V("t", TI32))}
		}},
	},
	"const": {
		{name: "array-count", build: func(x *f8hx) []Stmt {
			at := x.b.arrN(TI32, 4, "KC")
			e := f8idx(V("r", at), f8i(3), TI32)
			return []Stmt{&VarDecl{Kind: "var", Name: "r", Ty: at}, f8set(e, f8i(4)), f8acc(x, e)}
		}},
		{name: "array-count-constructor", build: func(x *f8hx) []Stmt {
			at := x.b.arrN(TI32, 4, "KC")
			return []Stmt{f8var("r", f8cons(at, f8i(1), f8i(2), f8i(3), f8i(4))), f8acc(x, f8idx(V("r", at), f8i(3), TI32))}
		}},
		{name: "array-count-expression", build: func(x *f8hx) []Stmt {
			at := x.b.arrN(TI32, 5, "KC + 1")
			e := f8idx(V("r", at), f8i(4), TI32)
			return []Stmt{&VarDecl{Kind: "var", Name: "r", Ty: at}, f8set(e, f8i(4)), f8acc(x, e)}
		}},
	},
}

func f8fv(arg Expr) Stmt { return &ExprStmt{X: &Call{Fn: "fv", Args: []Expr{arg}, User: true}} }

var f8hEntities = []string{"fn", "const", "var", "struct", "alias", "fnv"}
var f8hPos = []string{"entity-after-host", "entity-last", "entity-first"}

type f8hEnt struct {
	ent  string
	host *f8Host
	spec bool
	pos  int
}

func f8hEnts() []f8hEnt {
	var out []f8hEnt
	for _, en := range f8hEntities {
		cst := en == "const" || en == "struct" || en == "alias"
		var hs []f8hEnt
		if en != "fnv" {
			for i := range f8HostsGeneric {
				h := &f8HostsGeneric[i]
				if h.cst && !cst {
					continue
				}
				hs = append(hs, f8hEnt{ent: en, host: h})
			}
		}
		sp := f8HostsSpecific[en]
		for i := range sp {
			hs = append(hs, f8hEnt{ent: en, host: &sp[i], spec: true})
		}
		for _, h := range hs {
			for p := range f8hPos {
				h.pos = p
				out = append(out, h)
			}
		}
	}
	return out
}

var f8hEntName = map[string]string{"fn": "f1", "const": "KC", "var": "gp", "struct": "SI", "alias": "AI", "fnv": "fv"}

func f8hProg(e f8hEnt) (*f8Prog, []string) {
	needs := map[string]bool{}
	for _, n := range e.host.needs {
		needs[n] = true
	}
	if e.ent == "fnv" {
		needs["sunk"] = true
	}
	if needs["sink"] {
		needs["sunk"] = true
	}
	var support []string
	p := &f8Prog{name: "host", build: func(b *f8b) {
		support = support[:0]
		x := &f8hx{b: b, acc: V("acc", TI32), a: L("a", TI32)}
		xx, yy := L("x", TI32), L("y", TI32)
		if needs["inc"] {
			b.fn(&Func{Name: "inc", Params: []Param{f8p("x", TI32)}, Ret: TI32, Body: []Stmt{f8ret(f8add(xx, f8i(1)))}})
			support = append(support, "inc")
		}
		if needs["add2"] {
			b.fn(&Func{Name: "add2", Params: []Param{f8p("x", TI32), f8p("y", TI32)}, Ret: TI32, Body: []Stmt{f8ret(f8add(f8mul(xx, f8i(2)), yy))}})
			support = append(support, "add2")
		}
		if needs["SJ"] {
			x.SJ = b.strct("SJ", Member{Name: "p", T: TI32}, Member{Name: "q", T: TI32})
			support = append(support, "SJ")
		}
		if needs["sunk"] {
			b.gvar("private", "sunk", TI32, nil)
			support = append(support, "sunk")
		}
		if needs["sink"] {
			b.fn(&Func{Name: "sink", Params: []Param{f8p("x", TI32)}, Body: []Stmt{f8set(V("sunk", TI32), f8add(V("sunk", TI32), xx))}})
			support = append(support, "sink")
		}
		if needs["bumpp"] {
			pt := Ptr("private", TI32)
			b.fn(&Func{Name: "bumpp", Params: []Param{f8p("p", pt)}, Body: []Stmt{f8upd(&Deref{X: L("p", pt), Ty: TI32}, "+=", f8i(3))}})
			support = append(support, "bumpp")
		}
		// the entity (value 4 wherever it is read)
		switch e.ent {
		case "fn":
			b.fn(&Func{Name: "f1", Params: []Param{f8p("x", TI32)}, Ret: TI32, Body: []Stmt{f8ret(f8add(xx, f8i(3)))}})
			x.h = func() Expr { return f8call("f1", f8i(1)) }
		case "fnv":
			b.fn(&Func{Name: "fv", Params: []Param{f8p("x", TI32)}, Body: []Stmt{f8upd(V("sunk", TI32), "+=", f8add(xx, f8i(3)))}})
		case "const":
			b.konst("KC", TI32, f8i(4))
			x.h = func() Expr { return L("KC", TI32) }
		case "var":
			b.gvar("private", "gp", TI32, f8i(4))
			x.h = func() Expr { return V("gp", TI32) }
		case "struct":
			x.ty = b.strct("SI", Member{Name: "a", T: TI32}, Member{Name: "b", T: TI32})
			x.h = func() Expr { return f8fld(f8cons(x.ty, f8i(4), f8i(2)), "a", TI32) }
		case "alias":
			x.ty = b.alias("AI", TI32)
			x.h = func() Expr { return f8cons(x.ty, f8i(4)) }
		}
		body := append([]Stmt{f8var("acc", x.a)}, e.host.build(x)...)
		if x.ret != nil {
			body = append(body, x.ret)
		} else {
			body = append(body, f8ret(x.acc))
		}
		b.fn(&Func{Name: "host", Params: []Param{f8p("a", TI32)}, Ret: TI32, Body: body})
		b.out(3)
		var main []Stmt
		if e.ent == "var" {
			main = append(main, f8reinit(V("gp", TI32), f8i(4)))
		}
		main = append(main, f8setO(0, f8call("host", f8i(1))), f8setO(1, f8call("host", f8i(4))))
		switch {
		case e.ent == "var":
			main = append(main, f8setO(2, V("gp", TI32)))
		case needs["sunk"]:
			main = append(main, f8setO(2, V("sunk", TI32)))
		}
		b.entry(main...)
	}}
	p.run(true) // fills support
	sup := append([]string{}, support...)
	en := f8hEntName[e.ent]
	var names []string
	switch f8hPos[e.pos] {
	case "entity-after-host":
		names = append(append(names, sup...), "host", en, "o", "main")
	case "entity-last":
		names = append(append(names, sup...), "host", "o", "main", en)
	default:
		names = append(append([]string{en}, sup...), "host", "o", "main")
	}
	return p, names
}

// F8Hosts: every (entity kind, host position, placement of the entity) combination.
func F8Hosts() *Family {
	ents := f8hEnts()
	return &Family{Name: "F8h", Count: len(ents), At: func(i int) *Case {
		e := ents[i]
		p, names := f8hProg(e)
		c := f8Case(p, f8OrderByName(p, names))
		c.Family, c.Index = "F8h", i
		c.NoExec = e.host.noex
		g := "any"
		if e.spec {
			g = "only"
		}
		c.Sig = fmt.Sprintf("F8h/%s/%s/%s/%s", e.ent, g, e.host.name, f8hPos[e.pos])
		return c
	}}
}
