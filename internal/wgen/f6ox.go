package wgen

import (
	"fmt"
	"math"
	"sort"
	"strconv"
	"strings"

	"verif/internal/xrt"
)

// F6o, general form: a program with any number of pipeline-overridable constants. The module is
// kept as an ordinary wgen AST in which overrides are *referenced* as named values (Ref, Var=false);
// the declarations live beside it. Two renderings exist:
//   Source()  - the WGSL text with `override` declarations (what naga sees), and
//   Subst(m)  - the "substituted program" of property C14: every override replaced by a module
//               constant holding the supplied value converted to the override's type, or by its
//               initialiser expression when no value is supplied (the reference evaluator's input).

// OvDecl declares one override.
type OvDecl struct {
	Name string
	Ty   *Type
	ID   int  // @id(ID); negative = none
	Init Expr // default initialiser; nil = none
}

// Key is the pipeline-constant map key that addresses the override: its @id in decimal when it has
// one, its name otherwise.
func (d *OvDecl) Key() string {
	if d.ID >= 0 {
		return strconv.Itoa(d.ID)
	}
	return d.Name
}

// OvMap is one assignment of pipeline-constant values (by override name; Key() gives the map key).
type OvMap struct {
	Label string
	Vals  map[string]float64
}

// OvProg is one override program with the value maps it is to be resolved under.
type OvProg struct {
	Part  string // sub-family: ops, chain, cf, inj, shape, spell, hist
	Sig   string // full stable signature
	Class string // construct class used in violation keys
	Ovs   []OvDecl // in dependency order
	Rev   bool     // print the override declarations in reverse order (use before declaration at module scope)
	Mod   *Module
	Bufs   xrt.Buffers
	Groups [3]uint32
	BufTypes map[xrt.Binding]*Type
	Approx bool
	Maps   []OvMap
	// Keep, when non-nil, filters value maps by the resolved bits of every override (after
	// defaults and derived initialisers have been evaluated): false = outside the operator's
	// defined domain, not asserted.
	Keep func(env map[string]uint32) bool
}

// OvConvert converts a pipeline-constant value to the bits of the override's type (the value is
// assumed representable; callers only supply representable values).
func OvConvert(t *Type, v float64) uint32 {
	switch t.S {
	case I32:
		return uint32(int32(v))
	case U32:
		return uint32(v)
	case F32:
		return math.Float32bits(float32(v))
	}
	if v != 0 {
		return 1
	}
	return 0
}

// OvValue is the inverse of OvConvert for alphabet bits.
func OvValue(t *Type, bits uint32) float64 {
	switch t.S {
	case I32:
		return float64(int32(bits))
	case U32:
		return float64(bits)
	case F32:
		return float64(math.Float32frombits(bits))
	}
	return float64(bits)
}

// PC renders a value map as naga's pipeline-constant map.
func (p *OvProg) PC(m OvMap) map[string]float64 {
	out := map[string]float64{}
	for i := range p.Ovs {
		if v, ok := m.Vals[p.Ovs[i].Name]; ok {
			out[p.Ovs[i].Key()] = v
		}
	}
	return out
}

// Source is the WGSL text with override declarations.
func (p *OvProg) Source() string {
	var sb strings.Builder
	n := len(p.Ovs)
	for k := 0; k < n; k++ {
		i := k
		if p.Rev {
			i = n - 1 - k
		}
		d := &p.Ovs[i]
		if d.ID >= 0 {
			fmt.Fprintf(&sb, "@id(%d) ", d.ID)
		}
		fmt.Fprintf(&sb, "override %s: %s", d.Name, d.Ty)
		if d.Init != nil {
			sb.WriteString(" = " + ExprString(d.Init))
		}
		sb.WriteString(";\n")
	}
	sb.WriteString(Print(p.Mod))
	return sb.String()
}

// Subst returns the substituted program for a value map. missing names an override that has
// neither a value nor a default (resolution must then be an error); c is nil in that case.
func (p *OvProg) Subst(m OvMap) (c *Case, missing string) {
	mod := *p.Mod
	var cs []ConstDecl
	for i := range p.Ovs {
		d := &p.Ovs[i]
		if v, ok := m.Vals[d.Name]; ok {
			cs = append(cs, ConstDecl{Name: d.Name, Ty: d.Ty, Init: &Lit{Ty: d.Ty, Bits: OvConvert(d.Ty, v)}, Explicit: true})
			continue
		}
		if d.Init == nil {
			return nil, d.Name
		}
		cs = append(cs, ConstDecl{Name: d.Name, Ty: d.Ty, Init: d.Init, Explicit: true})
	}
	// ordinary module constants first: override initialisers may reference them, never the reverse
	mod.Consts = append(append([]ConstDecl(nil), p.Mod.Consts...), cs...)
	return &Case{Family: "F6o" + p.Part, Sig: p.Sig, Mod: &mod, Bufs: p.Bufs, Groups: p.Groups, BufTypes: p.BufTypes, Approx: p.Approx}, ""
}

func ovMapLabel(ovs []OvDecl, vals map[string]float64) string {
	if len(vals) == 0 {
		return "absent"
	}
	var ks []string
	for k := range vals {
		ks = append(ks, k)
	}
	sort.Strings(ks)
	var parts []string
	for _, k := range ks {
		key := k
		for i := range ovs {
			if ovs[i].Name == k {
				key = ovs[i].Key()
			}
		}
		parts = append(parts, fmt.Sprintf("%s=%v", key, vals[k]))
	}
	return strings.Join(parts, ",")
}

// ---------------------------------------------------------------- frame shared by the scalar programs

// outElem is the storage element type that holds a scalar of type t (bool -> u32).
func outElem(t *Type) *Type {
	if t.S == Bool {
		return TU32
	}
	return t
}

// ovFrame builds: o: array<E> at binding 0 with n elements, and an entry point with the given body.
func ovFrame(p *OvProg, elem *Type, n int, globals []Global, funcs []*Func, body []Stmt) {
	m := &Module{}
	oT := Array(elem, 0)
	m.Globals = append(m.Globals, Global{Name: "o", Space: "storage", RW: true, Ty: oT, Group: 0, Binding: 0})
	m.Globals = append(m.Globals, globals...)
	m.Funcs = append(m.Funcs, funcs...)
	m.Funcs = append(m.Funcs, &Func{Name: "main", Stage: "compute", WG: [3]int{1, 0, 0}, Body: body})
	p.Mod = m
	k := xrt.Binding{Group: 0, Binding: 0}
	ob := make([]byte, 4*n)
	for i := range ob {
		ob[i] = 0xCD
	}
	p.Bufs = xrt.Buffers{k: ob}
	p.Groups = [3]uint32{1, 1, 1}
	p.BufTypes = map[xrt.Binding]*Type{k: Array(elem, n)}
}

func outAt(elem *Type, k int) Expr { return Idx(V("o", Array(elem, 0)), LitU(uint32(k))) }

// sentinel literal of the element type (a later statement whose value must survive resolution)
func sentinel(elem *Type) Expr {
	switch elem.S {
	case I32:
		return LitI(42)
	case F32:
		return &Lit{Ty: TF32, Bits: math.Float32bits(42)}
	}
	return LitU(42)
}

// ---------------------------------------------------------------- F6o-ops: every scalar F1 operator on an override

// scalarSpecs are the F1 specs whose operands and result are all scalars of bool/i32/u32/f32.
func scalarSpecs() []*opSpec {
	var out []*opSpec
	for i := range f1Specs {
		s := &f1Specs[i]
		ok := s.ret.K == TScalar
		for _, a := range s.args {
			ok = ok && a.K == TScalar
		}
		if ok {
			out = append(out, s)
		}
	}
	return out
}

var ovSites = []string{"fn", "derived", "ginit", "helper"}

// preferred literal operands (variant 0 / variant 1) per scalar kind
var ovLitPref = [2]map[SK][]uint32{
	{I32: {2, 3, 1}, U32: {2, 3, 1}, F32: fbits(0.5, 2, 1), Bool: {1}},
	{I32: {0xFFFFFFF9, 7, 5, 31}, U32: {7, 5, 31}, F32: fbits(16777216, 2.5, 7.5, 3, -1.5), Bool: {0}},
}

// pickLit chooses the literal for one operand from the spec's alphabet.
func pickLit(alpha []uint32, k SK, variant int) uint32 {
	for _, want := range ovLitPref[variant][k] {
		for _, a := range alpha {
			if a == want {
				return a
			}
		}
	}
	if variant == 0 {
		return alpha[1%len(alpha)]
	}
	return alpha[len(alpha)-1]
}

// ovLit is a literal operand; bare (abstract) spelling when the surrounding operation fixes its type.
func ovLit(t *Type, bits uint32, bare bool) Expr {
	l := &Lit{Ty: t, Bits: bits}
	if bare && t.S != Bool && !(t.S == I32 && bits == 0x80000000) {
		l.Bare = true
	}
	return l
}

func goodF32(b uint32) bool {
	e := b & 0x7F800000
	return e != 0x7F800000 && !(e == 0 && b&0x007FFFFF != 0)
}

// opsProgram builds one F6o-ops program: spec s with override(s) in the positions of mask (bit i =
// argument i is an override), literals of the given variant elsewhere, used at the given site.
func opsProgram(s *opSpec, mask int, variant int, site string, withID bool, bareLits bool) *OvProg {
	n := len(s.args)
	lits := make([]uint32, n)
	var xs []Expr
	p := &OvProg{Part: "ops"}
	var ovPos []int
	for i, at := range s.args {
		if mask&(1<<i) != 0 {
			name := fmt.Sprintf("X%d", i)
			ovPos = append(ovPos, i)
			xs = append(xs, L(name, at))
			continue
		}
		lits[i] = pickLit(s.alpha[i], at.S, variant)
		// bare spelling only when an override operand of the same type takes part in the operation
		bare := false
		if bareLits {
			for j, bt := range s.args {
				if mask&(1<<j) != 0 && bt.S == at.S {
					bare = true
				}
			}
		}
		xs = append(xs, ovLit(at, lits[i], bare))
	}
	// values of the override operands: the spec's alphabet for that operand, filtered by the spec's
	// domain filter against the chosen literals (for several overrides: a strided subset of the product)
	tuple := func(vals []uint32) []uint32 {
		t := append([]uint32(nil), lits...)
		for k, i := range ovPos {
			t[i] = vals[k]
		}
		return t
	}
	valid := func(vals []uint32) bool {
		for k, i := range ovPos {
			if s.args[i].S == F32 && !goodF32(vals[k]) {
				return false
			}
		}
		return s.keep == nil || s.keep(tuple(vals))
	}
	var combos [][]uint32
	cur := make([]uint32, len(ovPos))
	var rec func(k int)
	rec = func(k int) {
		if k == len(ovPos) {
			if valid(cur) {
				combos = append(combos, append([]uint32(nil), cur...))
			}
			return
		}
		for _, v := range s.alpha[ovPos[k]] {
			cur[k] = v
			rec(k + 1)
		}
	}
	rec(0)
	if len(combos) == 0 {
		return nil
	}
	if len(ovPos) > 1 && len(combos) > 14 {
		// strided subset that still visits the whole alphabet of every operand (stride coprime to the alphabet sizes)
		var sub [][]uint32
		step := len(combos)/14 + 1
		for step%2 == 0 || step%3 == 0 || step%7 == 0 {
			step++
		}
		for i := 0; len(sub) < 14; i += step {
			sub = append(sub, combos[i%len(combos)])
		}
		combos = sub
	}
	// defaults: the first valid combination that is not all zero (else the first)
	def := combos[0]
	for _, c := range combos {
		nz := false
		for _, v := range c {
			nz = nz || v != 0
		}
		if nz {
			def = c
			break
		}
	}
	for k, i := range ovPos {
		d := OvDecl{Name: fmt.Sprintf("X%d", i), Ty: s.args[i], ID: -1, Init: ovLit(s.args[i], def[k], true)}
		if withID {
			d.ID = 7 + i
		}
		p.Ovs = append(p.Ovs, d)
	}
	e := s.build(xs)
	elem := outElem(s.ret)
	var globals []Global
	var funcs []*Func
	var body []Stmt
	switch site {
	case "fn":
		body = []Stmt{&Assign{LHS: outAt(elem, 0), Op: "=", RHS: toStorage(e, s.ret)}}
	case "derived":
		p.Ovs = append(p.Ovs, OvDecl{Name: "D", Ty: s.ret, ID: -1, Init: e})
		body = []Stmt{&Assign{LHS: outAt(elem, 0), Op: "=", RHS: toStorage(L("D", s.ret), s.ret)}}
	case "ginit":
		globals = []Global{{Name: "g", Space: "private", Ty: s.ret, Init: e}}
		body = []Stmt{&Assign{LHS: outAt(elem, 0), Op: "=", RHS: toStorage(V("g", s.ret), s.ret)}}
	case "helper":
		// the use sits in a helper function, followed by further statements of the helper
		globals = []Global{{Name: "acc", Space: "private", Ty: elem}, {Name: "last", Space: "private", Ty: elem}}
		funcs = []*Func{{Name: "helper", Params: []Param{{Name: "x", Ty: elem}}, Body: []Stmt{
			&Assign{LHS: V("acc", elem), Op: "=", RHS: toStorage(e, s.ret)},
			&Assign{LHS: V("last", elem), Op: "=", RHS: L("x", elem)},
		}}}
		body = []Stmt{&ExprStmt{X: &Call{Fn: "helper", Args: []Expr{sentinel(elem)}, User: true}},
			&Assign{LHS: outAt(elem, 0), Op: "=", RHS: V("acc", elem)},
			&Assign{LHS: outAt(elem, 1), Op: "=", RHS: V("last", elem)}}
	}
	if site != "helper" {
		body = append(body, &Assign{LHS: outAt(elem, 1), Op: "=", RHS: sentinel(elem)})
	}
	ovFrame(p, elem, 2, globals, funcs, body)
	p.Approx = s.approx
	shape := "ov"
	if len(ovPos) > 1 {
		shape = "ovov"
	} else if n > 1 {
		shape = fmt.Sprintf("ov@%d", ovPos[0])
	}
	sp := "bare"
	if !bareLits {
		sp = "suffixed"
	}
	p.Class = site + "/" + specClass(s.sig)
	p.Sig = fmt.Sprintf("F6o-ops/%s/%s/%s/lit%d/%s/id=%v", site, s.sig, shape, variant, sp, withID)
	p.Maps = []OvMap{{Label: "absent", Vals: map[string]float64{}}}
	for _, c := range combos {
		vals := map[string]float64{}
		for k, i := range ovPos {
			vals[fmt.Sprintf("X%d", i)] = OvValue(s.args[i], c[k])
		}
		p.Maps = append(p.Maps, OvMap{Label: ovMapLabel(p.Ovs, vals), Vals: vals})
	}
	return p
}

// F6oOps enumerates: every scalar F1 spec x every single operand position holding the override
// (other operands literal, two literal variants) and all operands overrides x site
// {fn, derived, ginit, helper} x value maps {absent, every alphabet value of the spec}.
// @id / name addressing alternates with the program index.
func F6oOps(thorough bool) []*OvProg {
	var out []*OvProg
	idx := 0
	for _, s := range scalarSpecs() {
		n := len(s.args)
		var masks []int
		for i := 0; i < n; i++ {
			masks = append(masks, 1<<i)
		}
		if n > 1 {
			masks = append(masks, 1<<n-1)
		}
		for _, mask := range masks {
			variants := 2
			if mask == 1<<n-1 {
				variants = 1 // no literal operands
			}
			for v := 0; v < variants; v++ {
				for _, site := range ovSites {
					if site == "helper" && !thorough && v == 1 {
						continue
					}
					idx++
					ids := []bool{idx%2 == 0}
					if thorough {
						ids = []bool{false, true}
					}
					for _, id := range ids {
						if p := opsProgram(s, mask, v, site, id, true); p != nil {
							out = append(out, p)
						}
					}
				}
			}
		}
	}
	return out
}

// ---------------------------------------------------------------- F6o-chain: depth-2 chains of core operators

// ovForm is an expression with one hole: op(x [, literal]).
type ovForm struct {
	sig     string
	in, out *Type
	approx  bool
	build   func(x Expr, variant int, bare bool) Expr
}

func coreForms() []ovForm {
	var out []ovForm
	for _, s := range scalarSpecs() {
		s := s
		sig := s.sig
		core := strings.HasPrefix(sig, "bin/") || strings.HasPrefix(sig, "un/") || strings.HasPrefix(sig, "conv/") || strings.HasPrefix(sig, "bitcast/")
		if !core || strings.Contains(sig, "nonneg") || strings.Contains(sig, "inrange") {
			continue
		}
		if strings.HasPrefix(sig, "conv/") && s.args[0].S == s.ret.S {
			continue // identity conversion
		}
		if strings.HasPrefix(sig, "bitcast/") && s.args[0].S == s.ret.S {
			continue
		}
		for pos := range s.args {
			pos := pos
			if len(s.args) == 2 && pos == 1 {
				// literal on the left only for the non-commutative operators
				op := strings.Split(sig, "/")[1]
				switch op {
				case "-", "/", "%", "<<", ">>", "<", "<=", ">", ">=":
				default:
					continue
				}
			}
			f := ovForm{sig: fmt.Sprintf("%s@%d", sig, pos), in: s.args[pos], out: s.ret, approx: s.approx}
			f.build = func(x Expr, variant int, bare bool) Expr {
				xs := make([]Expr, len(s.args))
				for i, at := range s.args {
					if i == pos {
						xs[i] = x
						continue
					}
					alpha := s.alpha[i]
					if strings.HasPrefix(sig, "bin/<<") || strings.HasPrefix(sig, "bin/>>") {
						alpha = []uint32{1, 5}
					}
					b := pickLit(alpha, at.S, variant)
					xs[i] = ovLit(at, b, bare && at.S == s.args[pos].S)
				}
				return s.build(xs)
			}
			out = append(out, f)
		}
	}
	return out
}

// chain value alphabets (pipeline-constant values; all representable in the override's type)
var ovChainVals = map[SK][]float64{
	I32:  {0, 1, -1, 7, -7, 9, 2147483647, -2147483648},
	U32:  {0, 1, 7, 9, 2147483648, 4294967295},
	F32:  {0, 1, -1, 2.5, -0.5, 7, 16777216, 3e9, 0.1},
	Bool: {0, 1, 2.5, -1},
}

var ovChainDefault = map[SK]uint32{I32: 3, U32: 3, F32: math.Float32bits(1.5), Bool: 1}

// F6oChains enumerates outer(inner(X)) for every type-compatible pair of core forms (binary
// operators with a literal on either side, unary operators, conversions, bitcasts) at site fn,
// and (arithmetic/bit/shift/comparison pairs only, or all pairs when thorough) in a derived
// override initialiser; two literal variants each.
func F6oChains(thorough bool) []*OvProg {
	forms := coreForms()
	var out []*OvProg
	idx := 0
	for _, f1 := range forms {
		for _, f2 := range forms {
			if !f2.in.Equal(f1.out) {
				continue
			}
			for _, site := range []string{"fn", "derived"} {
				if site == "derived" && !thorough && !(strings.HasPrefix(f1.sig, "bin/") && strings.HasPrefix(f2.sig, "bin/")) {
					continue
				}
				for v := 0; v < 2; v++ {
					idx++
					t := f1.in
					p := &OvProg{Part: "chain", Approx: f1.approx || f2.approx}
					d := OvDecl{Name: "X", Ty: t, ID: -1, Init: ovLit(t, ovChainDefault[t.S], true)}
					if idx%2 == 0 {
						d.ID = 7
					}
					p.Ovs = []OvDecl{d}
					e := f2.build(&Paren{X: f1.build(L("X", t), v, true)}, v, true)
					elem := outElem(f2.out)
					var body []Stmt
					if site == "fn" {
						body = []Stmt{&Assign{LHS: outAt(elem, 0), Op: "=", RHS: toStorage(e, f2.out)}}
					} else {
						p.Ovs = append(p.Ovs, OvDecl{Name: "D", Ty: f2.out, ID: -1, Init: e})
						body = []Stmt{&Assign{LHS: outAt(elem, 0), Op: "=", RHS: toStorage(L("D", f2.out), f2.out)}}
					}
					body = append(body, &Assign{LHS: outAt(elem, 1), Op: "=", RHS: sentinel(elem)})
					ovFrame(p, elem, 2, nil, nil, body)
					p.Class = fmt.Sprintf("%s/%s:%s>%s", site, t, formGroup(f1.sig), formGroup(f2.sig))
					p.Sig = fmt.Sprintf("F6o-chain/%s/%s>%s/lit%d/id=%v", site, f1.sig, f2.sig, v, d.ID >= 0)
					p.Maps = []OvMap{{Label: "absent", Vals: map[string]float64{}}}
					for _, val := range ovChainVals[t.S] {
						vals := map[string]float64{"X": val}
						p.Maps = append(p.Maps, OvMap{Label: ovMapLabel(p.Ovs, vals), Vals: vals})
					}
					out = append(out, p)
				}
			}
		}
	}
	return out
}

// ---------------------------------------------------------------- F6o-shape: dependency shapes over <= 3 overrides

type ovShape struct {
	name string
	// deps[i] lists the overrides (indices < i) that override i's initialiser references
	deps [3][]int
	n    int
}

var ovShapes = []ovShape{
	{name: "single", n: 1},
	{name: "pair", n: 2, deps: [3][]int{nil, {0}}},
	{name: "independent", n: 2},
	{name: "chain", n: 3, deps: [3][]int{nil, {0}, {1}}},
	{name: "fan-in", n: 3, deps: [3][]int{nil, nil, {0, 1}}},
	{name: "fan-out", n: 3, deps: [3][]int{nil, {0}, {0}}},
	{name: "diamond-edge", n: 3, deps: [3][]int{nil, {0}, {0, 1}}},
}

// type assignments: all of one type, and mixed (conversions at the dependency edges)
var ovShapeTypes = [][3]*Type{{TI32, TI32, TI32}, {TU32, TU32, TU32}, {TF32, TF32, TF32}, {TBool, TBool, TBool}, {TI32, TF32, TU32}, {TF32, TI32, TBool}}

var ovShapeRootDefault = map[SK][]uint32{I32: {5, 0xFFFFFFFD}, U32: {5, 9}, F32: fbits(2, -1.5), Bool: {1, 0}}
var ovShapeVals = map[SK][]float64{I32: {7, -2}, U32: {7, 4000000000}, F32: {1.5, -3}, Bool: {0, 2.5}}

// ovShapeOps: operator applied at a dependency edge, per result kind
var ovShapeOps = map[SK][]string{I32: {"+", "*", "-"}, U32: {"+", "*", "-"}, F32: {"*", "+", "-"}, Bool: {"!=", "=="}}

// conv brings e to type t with an explicit value conversion when needed.
func ovConv(e Expr, t *Type) Expr {
	if e.T().Equal(t) {
		return e
	}
	return &Cons{Ty: t, Args: []Expr{e}}
}

// F6oShapes enumerates every dependency shape over <= 3 overrides x type assignment x operator x
// which roots have defaults x @id placement x declaration order x every subset of supplied
// overrides (two values each for the first, one for the others).
func F6oShapes(thorough bool) []*OvProg {
	var out []*OvProg
	for _, sh := range ovShapes {
		for ti, tys := range ovShapeTypes {
			nops := len(ovShapeOps[tys[sh.n-1].S])
			if !thorough && ti >= 4 {
				nops = 1
			}
			for oi := 0; oi < nops; oi++ {
				var roots []int
				for i := 0; i < sh.n; i++ {
					if len(sh.deps[i]) == 0 {
						roots = append(roots, i)
					}
				}
				for dm := 0; dm < 1<<len(roots); dm++ { // bit k: root k has a default
					for idm := 0; idm < 3; idm++ { // 0: names only, 1: every override has an @id, 2: alternate
						for rev := 0; rev < 2; rev++ {
							if rev == 1 && sh.n == 1 {
								continue
							}
							p := &OvProg{Part: "shape", Rev: rev == 1}
							hasDef := make([]bool, sh.n)
							for i := 0; i < sh.n; i++ {
								t := tys[i]
								d := OvDecl{Name: string(rune('A' + i)), Ty: t, ID: -1}
								switch idm {
								case 1:
									d.ID = 10 + i
								case 2:
									if i%2 == 0 {
										d.ID = 20 + i
									}
								}
								if len(sh.deps[i]) == 0 {
									k := 0
									for kk, r := range roots {
										if r == i {
											k = kk
										}
									}
									if dm&(1<<k) != 0 {
										d.Init = ovLit(t, ovShapeRootDefault[t.S][i%2], true)
										hasDef[i] = true
									}
								} else {
									op := ovShapeOps[t.S][oi%len(ovShapeOps[t.S])]
									var e Expr
									for _, j := range sh.deps[i] {
										x := ovConv(L(string(rune('A'+j)), tys[j]), t)
										if e == nil {
											e = x
										} else {
											e = &Bin{Op: op, L: e, R: x, Ty: binTypeOf(op, t, t)}
										}
									}
									if len(sh.deps[i]) == 1 {
										var lit Expr
										switch t.S {
										case Bool:
											lit = LitB(true)
										case F32:
											lit = ovLit(t, math.Float32bits(3), true)
										default:
											lit = ovLit(t, 3, true)
										}
										e = &Bin{Op: op, L: e, R: lit, Ty: binTypeOf(op, t, t)}
									}
									d.Init = e
									hasDef[i] = true
								}
								p.Ovs = append(p.Ovs, d)
							}
							// all outputs as u32 words
							var body []Stmt
							for i := 0; i < sh.n; i++ {
								body = append(body, &Assign{LHS: outAt(TU32, i), Op: "=", RHS: toU32Expr(L(p.Ovs[i].Name, tys[i]))})
							}
							body = append(body, &Assign{LHS: outAt(TU32, sh.n), Op: "=", RHS: LitU(42)})
							ovFrame(p, TU32, sh.n+1, nil, nil, body)
							defs := ""
							for i := 0; i < sh.n; i++ {
								if hasDef[i] {
									defs += "d"
								} else {
									defs += "-"
								}
							}
							tn := fmt.Sprintf("%s,%s,%s", tys[0], tys[1], tys[2])
							opn := ovShapeOps[tys[sh.n-1].S][oi%len(ovShapeOps[tys[sh.n-1].S])]
							p.Class = fmt.Sprintf("%s/%s/%s", sh.name, tn, opn)
							p.Sig = fmt.Sprintf("F6o-shape/%s/%s/%s/defaults=%s/ids=%d/rev=%v", sh.name, tn, opn, defs, idm, p.Rev)
							// value maps: every subset of supplied overrides
							for sm := 0; sm < 1<<sh.n; sm++ {
								nv := 1
								if sm&1 != 0 {
									nv = 2
								}
								for vi := 0; vi < nv; vi++ {
									vals := map[string]float64{}
									for i := 0; i < sh.n; i++ {
										if sm&(1<<i) != 0 {
											av := ovShapeVals[tys[i].S]
											k := (i + vi) % len(av)
											vals[p.Ovs[i].Name] = av[k]
										}
									}
									p.Maps = append(p.Maps, OvMap{Label: ovMapLabel(p.Ovs, vals), Vals: vals})
								}
							}
							out = append(out, p)
						}
					}
				}
			}
		}
	}
	return out
}

// ---------------------------------------------------------------- F6o-spell: spellings of defaults and literals in initialisers

// F6oSpell: one override per type whose default is spelled bare / suffixed / as a conversion call /
// negated / parenthesised, and a derived override whose literal operand is spelled likewise.
func F6oSpell() []*OvProg {
	var out []*OvProg
	type sp struct {
		name string
		mk   func(t *Type, bits uint32) Expr
	}
	spells := []sp{
		{"bare", func(t *Type, b uint32) Expr { return ovLit(t, b, true) }},
		{"suffixed", func(t *Type, b uint32) Expr { return ovLit(t, b, false) }},
		{"conversion", func(t *Type, b uint32) Expr { return &Cons{Ty: t, Args: []Expr{ovLit(t, b, true)}} }},
		{"paren", func(t *Type, b uint32) Expr { return &Paren{X: ovLit(t, b, true)} }},
	}
	vals := map[SK][]uint32{I32: {3, 0xFFFFFFFB}, U32: {3, 0x80000001}, F32: fbits(1.5, -2), Bool: {1, 0}}
	for _, t := range []*Type{TI32, TU32, TF32, TBool} {
		for _, s := range spells {
			if t.S == Bool && s.name == "suffixed" {
				continue
			}
			for vi, b := range vals[t.S] {
				for _, where := range []string{"default", "operand", "second-entry-point"} {
					if where == "second-entry-point" && s.name != "bare" {
						continue
					}
					p := &OvProg{Part: "spell"}
					var y Expr
					op := "*"
					if t.S == Bool {
						op = "!="
					}
					if where != "operand" {
						p.Ovs = []OvDecl{{Name: "X", Ty: t, ID: -1, Init: s.mk(t, b)}}
						var two Expr = ovLit(t, 2, true)
						if t.S == F32 {
							two = ovLit(t, math.Float32bits(2), true)
						} else if t.S == Bool {
							two = LitB(false)
						}
						y = &Bin{Op: op, L: L("X", t), R: two, Ty: t}
					} else {
						p.Ovs = []OvDecl{{Name: "X", Ty: t, ID: -1, Init: ovLit(t, vals[t.S][0], true)}}
						y = &Bin{Op: op, L: L("X", t), R: s.mk(t, b), Ty: t}
					}
					if t.S == Bool {
						y.(*Bin).Ty = TBool
					}
					p.Ovs = append(p.Ovs, OvDecl{Name: "Y", Ty: t, ID: -1, Init: y})
					body := []Stmt{
						&Assign{LHS: outAt(TU32, 0), Op: "=", RHS: toU32Expr(L("X", t))},
						&Assign{LHS: outAt(TU32, 1), Op: "=", RHS: toU32Expr(L("Y", t))},
						&Assign{LHS: outAt(TU32, 2), Op: "=", RHS: LitU(42)},
					}
					ovFrame(p, TU32, 4, nil, nil, body)
					if where == "second-entry-point" {
						// a second compute entry point (declared after main) that uses both overrides
						p.Mod.Funcs = append(p.Mod.Funcs, &Func{Name: "aux", Stage: "compute", WG: [3]int{1, 0, 0}, Body: []Stmt{
							&Assign{LHS: outAt(TU32, 3), Op: "=", RHS: toU32Expr(L("Y", t))},
							&Assign{LHS: outAt(TU32, 2), Op: "=", RHS: toU32Expr(L("X", t))},
						}})
					}
					p.Class = fmt.Sprintf("%s/%s/%s", where, s.name, t)
					p.Sig = fmt.Sprintf("F6o-spell/%s/%s/%s/v%d", where, s.name, t, vi)
					p.Maps = []OvMap{{Label: "absent", Vals: map[string]float64{}}}
					for _, v := range ovChainVals[t.S][:min(4, len(ovChainVals[t.S]))] {
						vm := map[string]float64{"X": v}
						p.Maps = append(p.Maps, OvMap{Label: ovMapLabel(p.Ovs, vm), Vals: vm})
					}
					out = append(out, p)
				}
			}
		}
	}
	return out
}

// formGroup reduces a form signature to its operator group.
func formGroup(sig string) string {
	sig = strings.Replace(sig, "bin///", "bin/div/", 1)
	p := strings.Split(sig, "/")
	switch p[0] {
	case "bin":
		switch p[1] {
		case "+", "-", "*":
			return "arith"
		case "div", "%":
			return "div"
		case "&", "|", "^":
			if strings.HasPrefix(p[2], "bool") {
				return "logic"
			}
			return "bit"
		case "<<", ">>":
			return "shift"
		case "&&", "||":
			return "logic"
		}
		return "cmp"
	case "un":
		return "un" + p[1]
	case "conv":
		return "conv:" + p[1]
	case "bitcast":
		return "bitcast:" + p[1]
	}
	return p[0]
}

// ---------------------------------------------------------------- F6o-comp: composite values and named constants

// F6oComp: overrides inside composite constructors (vector, splat, array, struct) in module-scope
// initialisers and in function bodies, component access / swizzle / dynamic indexing of such values,
// and initialisers that combine overrides with named module constants. One program per
// (numeric type, form).
func F6oComp() []*OvProg {
	var out []*OvProg
	for ti, t := range []*Type{TI32, TU32, TF32} {
		lit := func(v int) Expr {
			if t.S == F32 {
				return ovLit(t, math.Float32bits(float32(v)), false)
			}
			return ovLit(t, uint32(v), false)
		}
		v3 := Vec(t.S, 3)
		v2 := Vec(t.S, 2)
		a3 := Array(t, 3)
		st := Struct("S", Member{Name: "a", T: t}, Member{Name: "b", T: v2})
		X, Y := L("X", t), L("Y", t)
		mul := func(a, b Expr) Expr { return &Bin{Op: "*", L: a, R: b, Ty: a.T()} }
		add := func(a, b Expr) Expr { return &Bin{Op: "+", L: a, R: b, Ty: a.T()} }
		type form struct {
			name    string
			consts  []ConstDecl
			structs []*Type
			globals []Global
			yInit   Expr // initialiser of Y (nil: a literal)
			outs    func() []Expr
			locals  []Stmt
		}
		gv := func(ty *Type) Expr { return V("g", ty) }
		dynIdx := &Bin{Op: "&", L: Idx(V("o", Array(TU32, 0)), LitU(7)), R: LitU(1), Ty: TU32} // o[7] holds the 0xCDCDCDCD sentinel: index 1
		forms := []form{
			{name: "global-vec", globals: []Global{{Name: "g", Space: "private", Ty: v3, Init: &Cons{Ty: v3, Args: []Expr{X, lit(2), Y}}}},
				outs: func() []Expr { return []Expr{Swizzle(gv(v3), "x"), Swizzle(gv(v3), "y"), Swizzle(gv(v3), "z")} }},
			{name: "global-splat", globals: []Global{{Name: "g", Space: "private", Ty: v3, Init: &Cons{Ty: v3, Args: []Expr{add(X, Y)}}}},
				outs: func() []Expr { return []Expr{Swizzle(gv(v3), "x"), Swizzle(gv(v3), "z")} }},
			{name: "global-array", globals: []Global{{Name: "g", Space: "private", Ty: a3, Init: &Cons{Ty: a3, Args: []Expr{Y, X, lit(5)}}}},
				outs: func() []Expr { return []Expr{Idx(gv(a3), LitU(0)), Idx(gv(a3), LitU(1)), Idx(gv(a3), dynIdx)} }},
			{name: "global-struct", structs: []*Type{st}, globals: []Global{{Name: "g", Space: "private", Ty: st, Init: &Cons{Ty: st, Args: []Expr{X, &Cons{Ty: v2, Args: []Expr{Y, lit(4)}}}}}},
				outs: func() []Expr { return []Expr{Fld(gv(st), "a"), Swizzle(Fld(gv(st), "b"), "x"), Swizzle(Fld(gv(st), "b"), "y")} }},
			{name: "fn-vec", locals: []Stmt{&VarDecl{Kind: "let", Name: "v", Ty: v3, Init: mul(&Cons{Ty: v3, Args: []Expr{X, Y, lit(2)}}, &Cons{Ty: v3, Args: []Expr{lit(3)}})}},
				outs: func() []Expr { return []Expr{Swizzle(L("v", v3), "x"), Swizzle(L("v", v3), "y"), Swizzle(L("v", v3), "z")} }},
			{name: "fn-splat-swizzle", locals: []Stmt{&VarDecl{Kind: "let", Name: "v", Ty: v2, Init: Swizzle(add(&Cons{Ty: v3, Args: []Expr{X}}, &Cons{Ty: v3, Args: []Expr{lit(1), Y, lit(2)}}), "zy")}},
				outs: func() []Expr { return []Expr{Swizzle(L("v", v2), "x"), Swizzle(L("v", v2), "y")} }},
			{name: "fn-array-dynamic", locals: []Stmt{&VarDecl{Kind: "var", Name: "a", Ty: a3, Init: &Cons{Ty: a3, Args: []Expr{X, Y, lit(6)}}}},
				outs: func() []Expr { return []Expr{Idx(V("a", a3), dynIdx), Idx(V("a", a3), LitU(2)), Idx(V("a", a3), LitU(0))} }},
			{name: "fn-struct", structs: []*Type{st}, locals: []Stmt{&VarDecl{Kind: "var", Name: "s", Ty: st, Init: &Cons{Ty: st, Args: []Expr{Y, &Cons{Ty: v2, Args: []Expr{X, lit(4)}}}}}},
				outs: func() []Expr { return []Expr{Fld(V("s", st), "a"), Swizzle(Fld(V("s", st), "b"), "x")} }},
			{name: "fn-select-vec", locals: []Stmt{&VarDecl{Kind: "let", Name: "v", Ty: v2, Init: &Call{Fn: "select", Args: []Expr{&Cons{Ty: v2, Args: []Expr{X, lit(1)}}, &Cons{Ty: v2, Args: []Expr{lit(2), Y}}, &Bin{Op: ">", L: X, R: lit(4), Ty: TBool}}, Ty: v2}}},
				outs: func() []Expr { return []Expr{Swizzle(L("v", v2), "x"), Swizzle(L("v", v2), "y")} }},
			{name: "const-operand", consts: []ConstDecl{{Name: "C", Ty: t, Init: lit(3), Explicit: true}}, yInit: mul(X, L("C", t)),
				outs: func() []Expr { return []Expr{add(X, L("C", t))} }},
			{name: "const-default", consts: []ConstDecl{{Name: "C", Ty: t, Init: lit(3), Explicit: true}},
				outs: func() []Expr { return []Expr{mul(Y, L("C", t))} }},
		}
		for _, f := range forms {
			p := &OvProg{Part: "comp"}
			xInit := Expr(ovLit(t, 5, true))
			if t.S == F32 {
				xInit = ovLit(t, math.Float32bits(1.5), true)
			}
			if f.name == "const-default" {
				xInit = L("C", t)
			}
			yInit := f.yInit
			if yInit == nil { // Y is an independent override unless the form is about derived initialisers
				yInit = ovLit(t, 4, true)
				if t.S == F32 {
					yInit = ovLit(t, math.Float32bits(2.5), true)
				}
			}
			p.Ovs = []OvDecl{{Name: "X", Ty: t, ID: -1, Init: xInit}, {Name: "Y", Ty: t, ID: -1, Init: yInit}}
			if ti%2 == 1 {
				p.Ovs[0].ID = 3
			}
			body := append([]Stmt(nil), f.locals...)
			outs := f.outs()
			body = append(body, &Assign{LHS: outAt(TU32, 0), Op: "=", RHS: toU32Expr(X)}, &Assign{LHS: outAt(TU32, 1), Op: "=", RHS: toU32Expr(Y)})
			for i, e := range outs {
				body = append(body, &Assign{LHS: outAt(TU32, 2+i), Op: "=", RHS: toU32Expr(e)})
			}
			body = append(body, &Assign{LHS: outAt(TU32, 6), Op: "=", RHS: LitU(42)})
			ovFrame(p, TU32, 8, f.globals, nil, body)
			p.Mod.Structs = f.structs
			p.Mod.Consts = f.consts
			p.Class = fmt.Sprintf("%s/%s", f.name, t)
			p.Sig = fmt.Sprintf("F6o-comp/%s/%s", f.name, t)
			p.Maps = []OvMap{{Label: "absent", Vals: map[string]float64{}}}
			xv := map[SK][]float64{I32: {7, -2}, U32: {7, 9}, F32: {2.5, -0.5}}[t.S]
			for _, v := range xv {
				vm := map[string]float64{"X": v}
				p.Maps = append(p.Maps, OvMap{Label: ovMapLabel(p.Ovs, vm), Vals: vm})
			}
			vm := map[string]float64{"X": xv[0], "Y": xv[1]}
			p.Maps = append(p.Maps, OvMap{Label: ovMapLabel(p.Ovs, vm), Vals: vm})
			vm2 := map[string]float64{"Y": xv[0]}
			p.Maps = append(p.Maps, OvMap{Label: ovMapLabel(p.Ovs, vm2), Vals: vm2})
			out = append(out, p)
		}
	}
	return out
}
