package wgen

import (
	"fmt"
	"math"
	"strconv"
	"strings"
)

// Extent is the byte range [Start,End) of one module-scope declaration in the printed source.
type Extent struct {
	Kind       string // struct, alias, const, var, fn, raw
	Name       string
	Start, End int
}

type printer struct {
	sb  strings.Builder
	ind int
	ext []Extent
}

// Print renders the module as WGSL.
func Print(m *Module) string { s, _ := PrintExt(m); return s }

// PrintExt also returns the extents of module-scope declarations.
func PrintExt(m *Module) (string, []Extent) {
	p := &printer{}
	decl := func(kind, name string, f func()) {
		st := p.sb.Len()
		f()
		p.ext = append(p.ext, Extent{kind, name, st, p.sb.Len()})
		p.sb.WriteString("\n")
	}
	for _, s := range m.Structs {
		s := s
		decl("struct", s.Name, func() {
			p.f("struct %s {\n", s.Name)
			for _, mb := range s.Members {
				p.sb.WriteString("  ")
				if mb.Align != 0 {
					p.f("@align(%d) ", mb.Align)
				}
				if mb.Size != 0 {
					p.f("@size(%d) ", mb.Size)
				}
				p.f("%s: %s,\n", mb.Name, mb.T)
			}
			p.sb.WriteString("}")
		})
	}
	for _, a := range m.Aliases {
		a := a
		decl("alias", a.Name, func() { p.f("alias %s = %s;", a.Name, a.Ty) })
	}
	for _, c := range m.Consts {
		c := c
		decl("const", c.Name, func() {
			if c.Explicit {
				p.f("const %s: %s = %s;", c.Name, c.Ty, p.expr(c.Init))
			} else {
				p.f("const %s = %s;", c.Name, p.expr(c.Init))
			}
		})
	}
	for _, g := range m.Globals {
		g := g
		decl("var", g.Name, func() {
			switch g.Space {
			case "storage":
				acc := "read"
				if g.RW {
					acc = "read_write"
				}
				p.f("@group(%d) @binding(%d) var<storage, %s> %s: %s;", g.Group, g.Binding, acc, g.Name, g.Ty)
			case "uniform":
				p.f("@group(%d) @binding(%d) var<uniform> %s: %s;", g.Group, g.Binding, g.Name, g.Ty)
			default:
				if g.Init != nil {
					p.f("var<%s> %s: %s = %s;", g.Space, g.Name, g.Ty, p.expr(g.Init))
				} else {
					p.f("var<%s> %s: %s;", g.Space, g.Name, g.Ty)
				}
			}
		})
	}
	if m.Raw != "" {
		decl("raw", "", func() { p.sb.WriteString(strings.TrimRight(m.Raw, "\n")) })
	}
	for _, fn := range m.Funcs {
		fn := fn
		decl("fn", fn.Name, func() { p.fn(fn) })
	}
	return p.sb.String(), p.ext
}

func (p *printer) f(format string, a ...any) { fmt.Fprintf(&p.sb, format, a...) }
func (p *printer) nl()                       { p.sb.WriteString(strings.Repeat("  ", p.ind)) }

func (p *printer) fn(fn *Func) {
	if fn.MustUse {
		p.sb.WriteString("@must_use\n")
	}
	switch fn.Stage {
	case "compute":
		wg := fn.WG
		if wg[1] == 0 && wg[2] == 0 {
			p.f("@compute @workgroup_size(%d)\n", wg[0])
		} else {
			p.f("@compute @workgroup_size(%d, %d, %d)\n", wg[0], wg[1], wg[2])
		}
	case "vertex", "fragment":
		p.f("@%s\n", fn.Stage)
	}
	ps := make([]string, len(fn.Params))
	for i, pa := range fn.Params {
		a := pa.Attr
		if a != "" {
			a += " "
		}
		ps[i] = fmt.Sprintf("%s%s: %s", a, pa.Name, pa.Ty)
	}
	p.f("fn %s(%s)", fn.Name, join(ps, ", "))
	if fn.Ret != nil {
		ra := fn.RetAttr
		if ra != "" {
			ra += " "
		}
		p.f(" -> %s%s", ra, fn.Ret)
	}
	p.sb.WriteString(" ")
	p.block(fn.Body)
	p.sb.WriteString("\n")
}

func (p *printer) block(b []Stmt) {
	p.sb.WriteString("{\n")
	p.ind++
	for _, s := range b {
		p.stmt(s)
	}
	p.ind--
	p.nl()
	p.sb.WriteString("}")
}

func (p *printer) simple(s Stmt) string {
	switch s := s.(type) {
	case nil:
		return ""
	case *VarDecl:
		t := ""
		if s.Explicit || s.Init == nil {
			t = ": " + s.Ty.String()
		}
		if s.Init == nil {
			return fmt.Sprintf("%s %s%s", s.Kind, s.Name, t)
		}
		return fmt.Sprintf("%s %s%s = %s", s.Kind, s.Name, t, p.expr(s.Init))
	case *Assign:
		return fmt.Sprintf("%s %s %s", p.expr(s.LHS), s.Op, p.expr(s.RHS))
	case *IncDec:
		if s.Inc {
			return p.expr(s.LHS) + "++"
		}
		return p.expr(s.LHS) + "--"
	case *ExprStmt:
		return p.expr(s.X)
	}
	panic(fmt.Sprintf("not a simple statement: %T", s))
}

func (p *printer) stmt(s Stmt) {
	switch s := s.(type) {
	case *VarDecl, *Assign, *IncDec, *ExprStmt:
		p.nl()
		p.sb.WriteString(p.simple(s))
		p.sb.WriteString(";\n")
	case *If:
		p.nl()
		p.ifChain(s)
		p.sb.WriteString("\n")
	case *Switch:
		p.nl()
		p.f("switch %s {\n", p.expr(s.Sel))
		p.ind++
		for _, c := range s.Cases {
			p.nl()
			var sels []string
			for i, e := range c.Sels {
				if c.Default && c.DefaultPos == i {
					sels = append(sels, "default")
				}
				sels = append(sels, p.expr(e))
			}
			if c.Default && c.DefaultPos >= len(c.Sels) {
				sels = append(sels, "default")
			}
			if len(sels) == 1 && sels[0] == "default" {
				p.sb.WriteString("default: ")
			} else {
				p.f("case %s: ", join(sels, ", "))
			}
			p.block(c.Body)
			p.sb.WriteString("\n")
		}
		p.ind--
		p.nl()
		p.sb.WriteString("}\n")
	case *Loop:
		p.nl()
		p.sb.WriteString("loop {\n")
		p.ind++
		for _, b := range s.Body {
			p.stmt(b)
		}
		if s.HasCont || s.BreakIf != nil {
			p.nl()
			p.sb.WriteString("continuing {\n")
			p.ind++
			for _, b := range s.Continuing {
				p.stmt(b)
			}
			if s.BreakIf != nil {
				p.nl()
				p.f("break if %s;\n", p.expr(s.BreakIf))
			}
			p.ind--
			p.nl()
			p.sb.WriteString("}\n")
		}
		p.ind--
		p.nl()
		p.sb.WriteString("}\n")
	case *For:
		p.nl()
		c := ""
		if s.Cond != nil {
			c = p.expr(s.Cond)
		}
		p.f("for (%s; %s; %s) ", p.simple(s.Init), c, p.simple(s.Upd))
		p.block(s.Body)
		p.sb.WriteString("\n")
	case *While:
		p.nl()
		p.f("while %s ", p.expr(s.Cond))
		p.block(s.Body)
		p.sb.WriteString("\n")
	case *Break:
		p.nl()
		p.sb.WriteString("break;\n")
	case *Continue:
		p.nl()
		p.sb.WriteString("continue;\n")
	case *Discard:
		p.nl()
		p.sb.WriteString("discard;\n")
	case *Return:
		p.nl()
		if s.X == nil {
			p.sb.WriteString("return;\n")
		} else {
			p.f("return %s;\n", p.expr(s.X))
		}
	case *Block:
		p.nl()
		p.block(s.Body)
		p.sb.WriteString("\n")
	case *Barrier:
		p.nl()
		p.f("%s();\n", s.Kind)
	case *ConstAssert:
		p.nl()
		p.f("const_assert %s;\n", p.expr(s.X))
	default:
		panic(fmt.Sprintf("stmt %T", s))
	}
}

func (p *printer) ifChain(s *If) {
	p.f("if %s ", p.expr(s.Cond))
	p.block(s.Then)
	if s.HasElse || len(s.Else) > 0 {
		if len(s.Else) == 1 {
			if ei, ok := s.Else[0].(*If); ok {
				p.sb.WriteString(" else ")
				p.ifChain(ei)
				return
			}
		}
		p.sb.WriteString(" else ")
		p.block(s.Else)
	}
}

// ExprString prints one expression.
func ExprString(e Expr) string { return (&printer{}).expr(e) }

func (p *printer) sub(e Expr) string {
	switch e.(type) {
	case *Bin:
		return "(" + p.expr(e) + ")"
	case *Un:
		return "(" + p.expr(e) + ")"
	case *Lit:
		s := p.expr(e)
		if strings.HasPrefix(s, "-") {
			return "(" + s + ")"
		}
		return s
	}
	return p.expr(e)
}

// postfix base: things that need parens before . or [
func (p *printer) base(e Expr) string {
	switch e.(type) {
	case *Bin, *Un, *AddrOf, *Deref, *Lit:
		return "(" + p.expr(e) + ")"
	}
	return p.expr(e)
}

func (p *printer) expr(e Expr) string {
	switch e := e.(type) {
	case *Lit:
		return LitString(e)
	case *Ref:
		return e.Name
	case *Bin:
		return p.sub(e.L) + " " + e.Op + " " + p.sub(e.R)
	case *Un:
		return e.Op + p.sub(e.X)
	case *Call:
		return e.Fn + "(" + p.args(e.Args) + ")"
	case *Cons:
		if e.Infer {
			switch e.Ty.K {
			case TVec:
				return fmt.Sprintf("vec%d(%s)", e.Ty.N, p.args(e.Args))
			case TMat:
				return fmt.Sprintf("mat%dx%d(%s)", e.Ty.C, e.Ty.N, p.args(e.Args))
			case TArray:
				return fmt.Sprintf("array(%s)", p.args(e.Args))
			}
		}
		return e.Ty.String() + "(" + p.args(e.Args) + ")"
	case *Bitcast:
		return "bitcast<" + e.Ty.String() + ">(" + p.expr(e.X) + ")"
	case *Index:
		return p.base(e.X) + "[" + p.expr(e.I) + "]"
	case *Field:
		return p.base(e.X) + "." + e.Name
	case *Swz:
		return p.base(e.X) + "." + e.Pat
	case *AddrOf:
		return "&" + p.base(e.X)
	case *Deref:
		return "*" + p.base(e.X)
	case *Paren:
		return "(" + p.expr(e.X) + ")"
	}
	panic(fmt.Sprintf("expr %T", e))
}

func (p *printer) args(a []Expr) string {
	s := make([]string, len(a))
	for i, x := range a {
		s[i] = p.expr(x)
	}
	return join(s, ", ")
}

// LitString renders a literal so that WGSL gives it exactly the stated type and bits.
func LitString(l *Lit) string {
	switch l.Ty.S {
	case Bool:
		if l.Bits != 0 {
			return "true"
		}
		return "false"
	case I32:
		v := int32(l.Bits)
		if v == math.MinInt32 {
			return "i32(-2147483648)"
		}
		if l.Bare {
			return strconv.Itoa(int(v))
		}
		if v < 0 {
			return "-" + strconv.Itoa(int(-v)) + "i"
		}
		return strconv.Itoa(int(v)) + "i"
	case U32:
		if l.Bare {
			return strconv.FormatUint(uint64(l.Bits), 10)
		}
		return strconv.FormatUint(uint64(l.Bits), 10) + "u"
	default:
		f := math.Float32frombits(l.Bits)
		return F32String(f, l.Bare)
	}
}

// F32String prints f so that parsing as f32 gives exactly f (finite only).
func F32String(f float32, bare bool) string {
	if f != f || f > math.MaxFloat32 || f < -math.MaxFloat32 {
		panic("non-finite literal")
	}
	if f == 0 && math.Signbit(float64(f)) {
		if bare {
			return "-0.0"
		}
		return "-0.0f"
	}
	s := strconv.FormatFloat(float64(f), 'g', -1, 32)
	if !strings.ContainsAny(s, ".e") {
		s += ".0"
	}
	if strings.Contains(s, "e") && !strings.Contains(s, ".") {
		s = strings.Replace(s, "e", ".0e", 1)
	}
	if bare {
		return s
	}
	return s + "f"
}
