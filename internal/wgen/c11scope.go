package wgen

import (
	"fmt"
	"strings"
)

// Scope pairs of the C11G family (rule: use of an undeclared identifier, where the name exists but is
// out of scope). A skeleton is a function body made of nested control-flow constructs with numbered
// *slots*: statement slots (can hold the declaration of `k`, or a use of it) and expression slots
// (can hold a use). For every ordered pair (declaration slot d, use slot u) the WGSL scoping rule
// decides whether `k` is visible at u:
//
//	visible(d,u)  <=>  the scope that directly contains d is the scope of u or one of its ancestors,
//	                   and d precedes u textually
//
// (a `continuing` block is nested inside the loop body's scope; `break if` belongs to the continuing
// block; the initialiser of a `for` opens a scope that contains the condition, the update and the
// body). Visible pairs are valid controls (must be accepted), all others must be rejected.

type scNode struct {
	kind    byte // 'T' text, 'S' statement slot, 'E' expression slot, 'B' scope
	text    string
	forInit bool
	label   string // slot label
	kids    []*scNode
	id      int
	scope   *scNode // enclosing scope (filled by number)
	parent  *scNode // for 'B': enclosing scope
	order   int
}

func scT(s string) *scNode          { return &scNode{kind: 'T', text: s} }
func scS(label string) *scNode      { return &scNode{kind: 'S', label: label} }
func scE(label string) *scNode      { return &scNode{kind: 'E', label: label} }
func scB(kids ...[]*scNode) *scNode { return &scNode{kind: 'B', kids: scJoin(kids...)} }
func scL(ns ...*scNode) []*scNode   { return ns }
func scJoin(ls ...[]*scNode) []*scNode {
	var o []*scNode
	for _, l := range ls {
		o = append(o, l...)
	}
	return o
}

// C11ScopeKinds: the constructs and the number of child scopes that can be filled.
var C11ScopeKinds = []struct {
	Name   string
	Scopes []string
}{
	{"if", []string{"then", "elif", "else"}},
	{"while", []string{"body"}},
	{"for", []string{"body"}},
	{"loop", []string{"body", "continuing"}},
	{"switch", []string{"case1", "case2", "default", "case-after-default"}},
	{"block", []string{"block"}},
}

// scConstruct builds construct k; fill(i) gives the content of child scope i; pfx prefixes labels.
func scConstruct(k int, pfx string, fill func(i int, label string) []*scNode) []*scNode {
	K := C11ScopeKinds[k]
	lab := func(i int) string { return pfx + K.Name + "." + K.Scopes[i] }
	switch K.Name {
	case "if":
		return scL(scT("if "), scE(pfx+"if.cond"), scT(" > 0 {\n"), scB(fill(0, lab(0))),
			scT("} else if "), scE(pfx+"if.elif-cond"), scT(" > 1 {\n"), scB(fill(1, lab(1))),
			scT("} else {\n"), scB(fill(2, lab(2))), scT("}\n"))
	case "while":
		return scL(scT("while "), scE(pfx+"while.cond"), scT(" < 4 {\n"), scB(fill(0, lab(0))), scT("}\n"))
	case "for":
		init := scS(pfx + "for.init")
		init.forInit = true
		return scL(scB(scL(scT("for ("), init, scT("; acc < 4 + "), scE(pfx+"for.cond"), scT("; acc += 1 + "), scE(pfx+"for.update"), scT(") {\n"),
			scB(fill(0, lab(0))), scT("}\n"))))
	case "loop":
		return scL(scT("loop {\n"), scB(scJoin(fill(0, lab(0)), scL(scT("if acc > 9 {\nbreak;\n}\n")), fill(0, lab(0)+"-after-break"),
			scL(scT("continuing {\n"), scB(scJoin(fill(1, lab(1)), scL(scT("break if "), scE(pfx+"loop.break-if"), scT(" > 9;\n")))), scT("}\n")))), scT("}\n"))
	case "switch":
		return scL(scT("switch "), scE(pfx+"switch.selector"), scT(" {\ncase 1: {\n"), scB(fill(0, lab(0))),
			scT("}\ncase 2, 3: {\n"), scB(fill(1, lab(1))), scT("}\ndefault: {\n"), scB(fill(2, lab(2))),
			scT("}\ncase 7: {\n"), scB(fill(3, lab(3))), scT("}\n}\n"))
	case "block":
		return scL(scT("{\n"), scB(fill(0, lab(0))), scT("}\n"))
	}
	return nil
}

// C11Skeleton is one function-body skeleton with its slots.
type C11Skeleton struct {
	Name  string
	root  *scNode
	slots []*scNode
}

func (s *C11Skeleton) number() {
	s.slots = nil
	order := 0
	var walk func(n *scNode, scope *scNode)
	walk = func(n *scNode, scope *scNode) {
		switch n.kind {
		case 'B':
			n.parent = scope
			for _, k := range n.kids {
				walk(k, n)
			}
		case 'S', 'E':
			n.scope = scope
			n.id = len(s.slots)
			n.order = order
			order++
			s.slots = append(s.slots, n)
		}
	}
	walk(s.root, nil)
}

// C11Skeletons enumerates the skeletons: one construct (depth 1), every construct nested in every
// child scope of every construct (depth 2) and, when deep is set, chains of three.
func C11Skeletons(deep bool) []*C11Skeleton {
	var out []*C11Skeleton
	two := func(label string) []*scNode { return scL(scS(label+"[0]"), scS(label+"[1]")) }
	one := func(label string) []*scNode { return scL(scS(label + "[0]")) }
	add := func(name string, mid []*scNode) {
		sk := &C11Skeleton{Name: name, root: scB(scL(scS("fn[0]")), mid, scL(scS("fn[1]")))}
		sk.number()
		out = append(out, sk)
	}
	nk := len(C11ScopeKinds)
	for k := 0; k < nk; k++ {
		add(C11ScopeKinds[k].Name, scConstruct(k, "", func(i int, label string) []*scNode { return two(label) }))
	}
	for o := 0; o < nk; o++ {
		for p := range C11ScopeKinds[o].Scopes {
			for in := 0; in < nk; in++ {
				o, p, in := o, p, in
				name := C11ScopeKinds[o].Name + "." + C11ScopeKinds[o].Scopes[p] + ">" + C11ScopeKinds[in].Name
				add(name, scConstruct(o, "", func(i int, label string) []*scNode {
					if i != p || strings.HasSuffix(label, "-after-break") {
						return one(label)
					}
					return scJoin(scL(scS(label+"[0]")), scConstruct(in, label+">", func(j int, l2 string) []*scNode { return one(l2) }), scL(scS(label+"[1]")))
				}))
			}
		}
	}
	if deep {
		for o := 0; o < nk; o++ {
			for p := range C11ScopeKinds[o].Scopes {
				for m := 0; m < nk; m++ {
					for q := range C11ScopeKinds[m].Scopes {
						for in := 0; in < nk; in++ {
							o, p, m, q, in := o, p, m, q, in
							name := C11ScopeKinds[o].Name + "." + C11ScopeKinds[o].Scopes[p] + ">" + C11ScopeKinds[m].Name + "." + C11ScopeKinds[m].Scopes[q] + ">" + C11ScopeKinds[in].Name
							add(name, scConstruct(o, "", func(i int, label string) []*scNode {
								if i != p || strings.HasSuffix(label, "-after-break") {
									return one(label)
								}
								return scJoin(scL(scS(label+"[0]")), scConstruct(m, label+">", func(j int, l2 string) []*scNode {
									if j != q || strings.HasSuffix(l2, "-after-break") {
										return one(l2)
									}
									return scJoin(scL(scS(l2+"[0]")), scConstruct(in, l2+">", func(j3 int, l3 string) []*scNode { return one(l3) }))
								}), scL(scS(label+"[1]")))
							}))
						}
					}
				}
			}
		}
	}
	return out
}

// C11ScopePair is one (declaration slot, use slot) pair of a skeleton. U == -1 / -2: the use is in
// another function declared before / after the host function.
type C11ScopePair struct{ D, U int }

// Pairs lists every ordered pair (d a statement slot, u any other slot or a peer function).
func (s *C11Skeleton) Pairs() []C11ScopePair {
	var ps []C11ScopePair
	for _, d := range s.slots {
		if d.kind != 'S' {
			continue
		}
		for _, u := range s.slots {
			if u != d {
				ps = append(ps, C11ScopePair{d.id, u.id})
			}
		}
		ps = append(ps, C11ScopePair{d.id, -1}, C11ScopePair{d.id, -2})
	}
	return ps
}

func (s *C11Skeleton) NumSlots() int { return len(s.slots) }

// Visible applies the WGSL scoping rule to the pair.
func (s *C11Skeleton) Visible(p C11ScopePair) bool {
	if p.U < 0 {
		return false
	}
	d, u := s.slots[p.D], s.slots[p.U]
	if d.order >= u.order {
		return false
	}
	for sc := u.scope; sc != nil; sc = sc.parent {
		if sc == d.scope {
			return true
		}
	}
	return false
}

func (s *C11Skeleton) SlotLabel(i int) string {
	switch i {
	case -1:
		return "peer-fn-before"
	case -2:
		return "peer-fn-after"
	}
	return s.slots[i].label
}

// SlotIsStmt reports whether slot i is a statement slot that is not a for-initialiser.
func (s *C11Skeleton) SlotIsStmt(i int) bool {
	return i >= 0 && s.slots[i].kind == 'S' && !s.slots[i].forInit
}

// SlotIsForInit reports whether slot i is the initialiser of a `for` (it always declares with `var`).
func (s *C11Skeleton) SlotIsForInit(i int) bool { return i >= 0 && s.slots[i].forInit }

var C11DeclKindNames = []string{"let", "var", "const"}
var C11UseKindNames = []string{"value", "store"}

// Render writes the program for pair p: declaration kind dk (0 let, 1 var, 2 const), use kind uk
// (0 value use `acc = k;`, 1 store `k = 2;` — only for statement slots), function kind fnk. With
// p.D < 0 no declaration and no use are placed (the skeleton's own control). useAcc replaces the
// use of `k` by a use of `acc` (the pair's control: everything but the offending name).
func (s *C11Skeleton) Render(p C11ScopePair, dk, uk, fnk int, useAcc bool) C11Prog {
	name := "k"
	if useAcc {
		name = "acc"
	}
	var b strings.Builder
	site := -1
	var walk func(n *scNode)
	walk = func(n *scNode) {
		switch n.kind {
		case 'T':
			b.WriteString(n.text)
		case 'B':
			for _, k := range n.kids {
				walk(k)
			}
		case 'S':
			switch {
			case p.D >= 0 && n.id == p.D:
				if n.forInit {
					b.WriteString("var k = 7")
				} else {
					b.WriteString(C11DeclKindNames[dk] + " k = 7;\n")
				}
			case p.D >= 0 && n.id == p.U:
				if n.forInit {
					b.WriteString("var i = ")
					site = b.Len()
					b.WriteString(name)
				} else if uk == 1 {
					site = b.Len()
					b.WriteString(name + " = 2;\n")
				} else {
					b.WriteString("acc = ")
					site = b.Len()
					b.WriteString(name + ";\n")
				}
			default:
				if n.forInit {
					b.WriteString("var i = 0")
				} else {
					b.WriteString(fmt.Sprintf("acc += %d;\n", 1+n.id%5))
				}
			}
		case 'E':
			if p.D >= 0 && n.id == p.U {
				site = b.Len()
				b.WriteString(name)
			} else {
				b.WriteString("acc")
			}
		}
	}
	walk(s.root)
	body := b.String()
	var head, tail string
	if fnk == C11FnEntry {
		head = "@compute @workgroup_size(1)\nfn main() {\nvar acc = 1;\n"
		tail = "}"
	} else {
		head = "fn host(x: i32) -> i32 {\nvar acc = x;\n"
		tail = "return acc;\n}"
	}
	host := head + body + tail
	var decls []string
	hostIdx := 0
	mainDecl := "@compute @workgroup_size(1)\nfn main() {\n_ = host(1);\n}"
	switch fnk {
	case C11FnEntry:
		decls = []string{host}
	case C11FnHelperBefore:
		decls = []string{host, mainDecl}
	default:
		decls = []string{mainDecl, host}
		hostIdx = 1
	}
	siteDecl, siteOff := hostIdx, len(head)+site
	if p.D >= 0 && p.U < 0 {
		peerHead := "fn peer() -> i32 {\nvar pacc = 1;\npacc = "
		peer := peerHead + name + ";\nreturn pacc;\n}"
		if useAcc {
			peer = peerHead + "pacc;\nreturn pacc;\n}"
		}
		if p.U == -1 {
			decls = append([]string{peer}, decls...)
			siteDecl = 0
		} else {
			decls = append(decls, peer)
			siteDecl = len(decls) - 1
		}
		siteOff = len(peerHead)
	}
	return c11Assemble(decls, siteDecl, siteOff)
}
