package wgen

import (
	"fmt"
	"strings"
)

// C19 template-adjacency family: small valid modules in which every kind of template-list close is
// followed by every token that can legally follow it (`=`, `>`, `,`, `)`, `(`, `;`, `{`, `}`, an
// identifier), at nesting depths 1..3, in every declaration kind that takes a type, together with
// the genuine `>`, `>=`, `>>`, `>>=`, `<`, `<=`, `<<` operators next to parenthesised and templated
// expressions. The whitespace edits of C19WhitespaceEdits then produce every `>=`, `>>`, `>>=`,
// `>>>`, `>>>=` ... adjacency (and every split of it) the token sequence allows.

type C19TmplSeed struct {
	Name string
	Src  string
}

// module-scope snippets: each becomes a seed of its own (with a trivial entry point that uses `use`)
var c19TmplDecls = []struct{ name, decl, use string }{
	{"const-vec", "const c1: vec2<f32> = vec2<f32>(1.0, 2.0);", "let t = c1;"},
	{"const-array-vec", "const c2: array<vec3<f32>, 2> = array<vec3<f32>, 2>(vec3<f32>(1.0), vec3<f32>(2.0));", "let t = c2;"},
	{"const-array-array", "const c3: array<array<i32, 2>, 2> = array<array<i32, 2>, 2>(array<i32, 2>(1, 2), array<i32, 2>(3, 4));", "let t = c3;"},
	{"const-array-array-vec", "const c4: array<array<vec2<u32>, 2>, 1> = array<array<vec2<u32>, 2>, 1>(array<vec2<u32>, 2>(vec2<u32>(1u), vec2<u32>(2u)));", "let t = c4;"},
	{"const-mat", "const c5: mat2x2<f32> = mat2x2<f32>(1.0, 0.0, 0.0, 1.0);", "let t = c5;"},
	{"const-array-mat", "const c6: array<mat2x2<f32>, 1> = array<mat2x2<f32>, 1>(mat2x2<f32>(1.0, 0.0, 0.0, 1.0));", "let t = c6;"},
	{"private-vec-init", "var<private> p1: vec4<u32> = vec4<u32>(1u);", "let t = p1;"},
	{"private-array-vec-init", "var<private> p2: array<vec2<u32>, 2> = array<vec2<u32>, 2>(vec2<u32>(1u), vec2<u32>(2u));", "let t = p2;"},
	{"private-array-array-noinit", "var<private> p3: array<array<vec2<f32>, 2>, 2>;", "let t = p3;"},
	{"private-mat-init", "var<private> p4: mat3x3<f32> = mat3x3<f32>(vec3<f32>(1.0), vec3<f32>(2.0), vec3<f32>(3.0));", "let t = p4;"},
	{"workgroup-array-atomic", "var<workgroup> w1: array<atomic<i32>, 4>;", "atomicStore(&w1[0], 1);"},
	{"workgroup-atomic", "var<workgroup> w2: atomic<u32>;", "atomicStore(&w2, 1u);"},
	{"struct-members", "struct S1 {\n    a: atomic<u32>,\n    b: array<vec4<f32>, 2>,\n    c: array<array<f32, 2>, 2>,\n    d: vec2<f32>\n}\n@group(0) @binding(0)\nvar<storage, read_write> s1: S1;", "s1.d = vec2<f32>(1.0);"},
	{"struct-last-member-nested", "struct S2 {\n    a: f32,\n    b: array<vec2<f32>, 2>\n}\nvar<private> s2: S2;", "let t = s2;"},
	{"storage-array-vec", "@group(0) @binding(0)\nvar<storage, read_write> b1: array<vec4<f32>>;", "b1[0] = vec4<f32>(1.0);"},
	{"storage-array-array", "@group(0) @binding(0)\nvar<storage, read> b2: array<array<vec2<u32>, 2>, 3>;", "let t = b2[0][1];"},
	{"uniform-mat", "@group(0) @binding(0)\nvar<uniform> u1: mat4x4<f32>;", "let t = u1;"},
	{"alias-array-vec", "alias A1 = array<vec2<f32>, 3>;\nvar<private> a1: A1;", "let t = a1;"},
	{"alias-array-array", "alias A2 = array<array<vec3<i32>, 2>, 2>;\nvar<private> a2: A2;", "let t = a2;"},
	{"override-then-array", "override o1: f32 = 1.5;\nvar<private> a3: array<vec2<f32>, 2>;", "a3[0] = vec2<f32>(o1);"},
	{"fn-params-return", "fn f1(a: vec2<f32>, b: array<vec2<f32>, 2>) -> vec2<f32> {\n    return a + b[1];\n}", "let t = f1(vec2<f32>(1.0), array<vec2<f32>, 2>(vec2<f32>(1.0), vec2<f32>(2.0)));"},
	{"fn-return-array", "fn f2(a: array<array<i32, 2>, 2>) -> array<vec2<i32>, 2> {\n    return array<vec2<i32>, 2>(vec2<i32>(a[0][0], a[0][1]), vec2<i32>(a[1][0], a[1][1]));\n}", "let t = f2(array<array<i32, 2>, 2>(array<i32, 2>(1, 2), array<i32, 2>(3, 4)));"},
	{"fn-ptr-param", "fn f3(p: ptr<function, vec2<f32>>) -> f32 {\n    return (*p).x;\n}", "var v = vec2<f32>(1.0, 2.0);\n    let t = f3(&v);"},
	{"fn-ptr-params-nested", "var<private> pv: vec4<u32>;\nfn f4(p: ptr<function, array<vec2<f32>, 2>>, q: ptr<private, vec4<u32>>) {\n    (*p)[0] = vec2<f32>(f32((*q).x));\n}", "var v: array<vec2<f32>, 2>;\n    f4(&v, &pv);"},
	{"texture-sampled", "@group(0) @binding(0)\nvar t1: texture_2d<f32>;", "let t = textureLoad(t1, vec2<i32>(0, 0), 0);"},
	{"texture-storage", "@group(0) @binding(0)\nvar t2: texture_storage_2d<rgba8unorm, write>;", "textureStore(t2, vec2<i32>(0, 0), vec4<f32>(1.0));"},
}

var c19TmplGlobals = []struct{ name, decl string }{
	{"tp", "var<private> tp: array<vec2<f32>, 2>;"},
	{"tr", "@group(0) @binding(0)\nvar<storage, read> tr: array<vec4<f32>>;"},
	{"tw", "@group(0) @binding(0)\nvar<storage, read_write> tw: array<vec4<f32>>;"},
	{"ta", "var<workgroup> ta: array<atomic<u32>, 2>;"},
}

// function-scope snippets: each becomes a seed (statements inside a compute entry point)
var c19TmplStmts = []struct{ name, stmts string }{
	{"let-ptr-function-vec", "var v = vec2<f32>(1.0, 2.0);\n    let q: ptr<function, vec2<f32>> = &v;\n    (*q).x = 3.0;"},
	{"let-ptr-function-array", "var v: array<vec2<f32>, 2>;\n    let q: ptr<function, array<vec2<f32>, 2>> = &v;\n    (*q)[1] = vec2<f32>(3.0);"},
	{"let-ptr-function-array-array", "var v: array<array<vec2<i32>, 2>, 2>;\n    let q: ptr<function, array<array<vec2<i32>, 2>, 2>> = &v;\n    (*q)[1][0] = vec2<i32>(3);"},
	{"let-ptr-function-mat", "var v: mat2x2<f32>;\n    let q: ptr<function, mat2x2<f32>> = &v;\n    (*q)[1] = vec2<f32>(3.0);"},
	{"let-ptr-private-array", "let q: ptr<private, array<vec2<f32>, 2>> = &tp;\n    (*q)[1] = vec2<f32>(3.0);"},
	{"let-ptr-storage-runtime-array", "let q: ptr<storage, array<vec4<f32>>> = &tr;\n    let a = (*q)[1];"},
	{"let-ptr-storage-rw-runtime-array", "let q: ptr<storage, array<vec4<f32>>, read_write> = &tw;\n    (*q)[1] = vec4<f32>(3.0);"},
	{"let-ptr-workgroup-atomic", "let q: ptr<workgroup, array<atomic<u32>, 2>> = &ta;\n    atomicStore(&(*q)[1], 3u);"},
	{"let-vec", "let a: vec3<f32> = vec3<f32>(1.0, 2.0, 3.0);\n    var b: vec3<f32> = a;\n    b.x = 2.0;"},
	{"var-array-vec", "var a: array<vec3<f32>, 2> = array<vec3<f32>, 2>(vec3<f32>(1.0), vec3<f32>(2.0));\n    a[0] = a[1];"},
	{"var-array-array", "var a: array<array<i32, 2>, 2> = array<array<i32, 2>, 2>(array<i32, 2>(1, 2), array<i32, 2>(3, 4));\n    a[0][1] = a[1][0];"},
	{"const-local-array-vec", "const a: array<vec2<u32>, 2> = array<vec2<u32>, 2>(vec2<u32>(1u), vec2<u32>(2u));\n    var b = a[1];"},
	{"let-vec-bool-ge", "let v = vec2<f32>(1.0, 2.0);\n    let c: vec2<bool> = v >= vec2<f32>(0.0);\n    let d: vec2<bool> = vec2<f32>(0.0) > v;\n    let e = all(c) || any(d);"},
	{"shift-vec", "let a = vec2<u32>(3u) >> vec2<u32>(1u);\n    let b: vec2<u32> = vec2<u32>(3u) << vec2<u32>(1u);\n    var c = a + b;"},
	{"bitcast-nested", "let v = vec2<f32>(1.0, 2.0);\n    let a = bitcast<vec2<u32>>(v);\n    let b: vec2<u32> = bitcast<vec2<u32>>(v) >> vec2<u32>(1u);\n    let c = bitcast<u32>(v.x) >= 1u;"},
	{"shift-assign", "var a = 8u;\n    a >>= 1u;\n    a <<= 2u;\n    let b = a >> 1u;\n    let c = a >= b;\n    let d = (a > b) != (a < b);\n    let e = a <= b;"},
	{"array-size-paren-shift", "var a = array<i32, (8 >> 2)>(1, 2);\n    var b: array<i32, (1 << 1)> = a;\n    b[0] = 3;"},
	{"ctor-args-compare", "let a = array<bool, 2>((1 > 0), (2 >= 1));\n    let b = vec2<bool>((1 < 2), (2 <= 1));\n    let c = a[0] && b.x;"},
	{"ctor-member-compare", "let a = vec2<f32>(1.0).x > 0.5;\n    let b = vec2<f32>(1.0).y >= 0.5;\n    let c = vec2<u32>(4u).x >> 1u;\n    var d = a == b;"},
	{"select-vecs", "let a = select(vec3<f32>(0.0), vec3<f32>(1.0), vec3<bool>(true));\n    var b = a;"},
	{"compare-and-chain", "let x = 1;\n    let y = 2;\n    let a = x < y && y > x;\n    let b = (x < y) || (y >= x);\n    var c = a != b;"},
	{"index-compare", "var a = array<i32, 2>(1, 2);\n    let b = a[0] > a[1];\n    let c = a[0] >= a[1];\n    let d = a[0] >> u32(a[1]);\n    a[1] >>= 1u;"},
	{"for-loop-compare", "var s = 0;\n    for (var i: i32 = 0; i < 4; i++) {\n        s += i;\n    }\n    for (var j: vec2<i32> = vec2<i32>(4); j.x >= 1; j.x >>= 1u) {\n        s += j.y;\n    }"},
}

// C19TmplSeeds builds the seed programs.
func C19TmplSeeds() []C19TmplSeed {
	var out []C19TmplSeed
	for _, d := range c19TmplDecls {
		out = append(out, C19TmplSeed{"tmpl/decl/" + d.name, fmt.Sprintf("%s\n\n@compute @workgroup_size(1)\nfn main() {\n    %s\n}\n", d.decl, d.use)})
	}
	for _, s := range c19TmplStmts {
		head := ""
		for _, g := range c19TmplGlobals { // module-scope variables a snippet refers to
			if strings.Contains(s.stmts, "&"+g.name+";") {
				head += g.decl + "\n"
			}
		}
		out = append(out, C19TmplSeed{"tmpl/stmt/" + s.name, fmt.Sprintf("%s@compute @workgroup_size(1)\nfn main() {\n    %s\n}\n", head, s.stmts)})
	}
	return out
}

// ---------------------------------------------------------------- whitespace edits judged by the reference tokenizer

// C19WsEdit is one edited text together with a description of the edit.
type C19WsEdit struct {
	Kind string
	Site int // token boundary (index of the token after it)
	Src  string
}

// c19Assemble rebuilds a text from tokens and separators (sep[i] precedes token i; sep[n] is the tail).
func c19AssembleToks(toks []C19Tok, sep []string) string {
	var sb strings.Builder
	for i, t := range toks {
		sb.WriteString(sep[i])
		sb.WriteString(t.Text)
	}
	sb.WriteString(sep[len(toks)])
	return sb.String()
}

// C19WhitespaceForms returns the token list of src and two normal forms: `spaced` (exactly one blank,
// or the original separator if it contains a comment or a line break, between any two tokens) and
// `minimal` (every separator removed that the reference tokenizer allows to be removed, decided
// greedily left to right on the whole text). ok=false if src does not lex.
func C19WhitespaceForms(src string) (toks []C19Tok, spaced, minimal []string, ok bool) {
	toks, ok = C19Lex(src)
	if !ok || len(toks) == 0 {
		return nil, nil, nil, false
	}
	n := len(toks)
	spaced = make([]string, n+1)
	for i := 0; i <= n; i++ {
		from, to := 0, len(src)
		if i > 0 {
			from = toks[i-1].End
		}
		if i < n {
			to = toks[i].Start
		}
		orig := src[from:to]
		switch {
		case i == 0 || i == n:
			spaced[i] = orig
		case strings.ContainsAny(orig, "/\n\r"):
			spaced[i] = orig
		default:
			spaced[i] = " "
		}
	}
	minimal = append([]string(nil), spaced...)
	for i := 1; i < n; i++ {
		if strings.Contains(minimal[i], "/") {
			continue
		}
		old := minimal[i]
		minimal[i] = ""
		if t2, ok2 := C19Lex(c19AssembleToks(toks, minimal)); !ok2 || !C19SameTokens(toks, t2) {
			minimal[i] = old
		}
	}
	return toks, spaced, minimal, true
}

// C19Debug, if set, is told every discarded candidate (authoring aid).
var C19Debug func(kind, src string)

var c19WsFillers = []struct{ name, text string }{{"none", ""}, {"space", " "}, {"comment", "/**/"}, {"lf", "\n"}, {"line-comment", "//\n"}}

func c19Angle(t C19Tok) bool { return strings.ContainsAny(t.Text, "<>") }

// C19WhitespaceEdits enumerates, for the text src:
//   (1) from the spaced form: removal of every single separator;
//   (2) from the minimal form: insertion of a blank / `/**/` / LF / `//`+LF at every single boundary;
//   (3) for every window of `window` consecutive boundaries that touches a token containing `<` or
//       `>`: every assignment of {nothing, blank, `/**/`} to the window's boundaries, once with all
//       other boundaries spaced and once with all other boundaries minimal;
// keeping exactly those candidates whose reference token sequence equals that of src (so `> =`
// is joined to `>=` only where `>` closes a template list, `a - -b` is never joined, a `/**/` is
// never put directly after a `/`, ...). discarded counts the candidates that were not neutral.
func C19WhitespaceEdits(src string, window int, emit func(e C19WsEdit)) (discarded int) {
	toks, spaced, minimal, ok := C19WhitespaceForms(src)
	if !ok {
		return 0
	}
	n := len(toks)
	seen := map[string]bool{src: true}
	try := func(kind string, site int, sep []string) {
		s := c19AssembleToks(toks, sep)
		if seen[s] {
			return
		}
		seen[s] = true
		if t2, ok2 := C19Lex(s); !ok2 || !C19SameTokens(toks, t2) {
			discarded++
			if C19Debug != nil {
				C19Debug(kind, s)
			}
			return
		}
		emit(C19WsEdit{kind, site, s})
	}
	try("ws-spaced-form", 0, spaced)
	try("ws-minimal-form", 0, minimal)
	tmp := make([]string, n+1)
	for i := 1; i < n; i++ {
		copy(tmp, spaced)
		tmp[i] = ""
		try("ws-spaced-remove-one", i, tmp)
	}
	for i := 1; i < n; i++ {
		for _, f := range c19WsFillers[1:] {
			copy(tmp, minimal)
			tmp[i] = f.text
			try("ws-minimal-insert-"+f.name, i, tmp)
		}
	}
	combos := 1
	for w := 0; w < window; w++ {
		combos *= 3
	}
	for i := 1; i+window <= n; i++ { // boundaries i .. i+window-1, tokens i-1 .. i+window-1
		touches := false
		for t := i - 1; t <= i+window-1; t++ {
			if c19Angle(toks[t]) {
				touches = true
			}
		}
		if !touches {
			continue
		}
		for bi, base := range [][]string{spaced, minimal} {
			for c := 0; c < combos; c++ {
				copy(tmp, base)
				x := c
				for w := 0; w < window; w++ {
					tmp[i+w] = c19WsFillers[x%3].text
					x /= 3
				}
				try(fmt.Sprintf("ws-window%d-%s", window, []string{"spaced", "minimal"}[bi]), i, tmp)
			}
		}
	}
	return discarded
}
