package wgen

import (
	"fmt"

	"verif/internal/xrt"
)

// F2L: the control-flow trees of F2 with *function-local* accumulators. Markers with an odd id fold
// into `a` (declared with an initialiser), markers with an even id into `b` (declared without one,
// so it must read as zero); both are ordinary `var`s of the function that holds the tree, so every
// tree puts stores to promotable locals under every control-flow construct of the alphabet (the
// shapes register promotion, scalar replacement, dead-store elimination and the backends' handling
// of function variables have to get right). Positions: "entrylocal" (locals of the entry point; a
// return first publishes the accumulators) and "calleelocal" (locals of a helper that returns them).

var f2lPositions = []string{"entrylocal", "calleelocal"}

func BuildF2L(tree []*cf, pos string) *Case {
	m := &Module{}
	inT := Array(Vec(U32, 2), 0)
	outT := Array(TU32, 0)
	m.Globals = append(m.Globals,
		Global{Name: "inp", Space: "storage", Ty: inT, Group: 0, Binding: 0},
		Global{Name: "out", Space: "storage", RW: true, Ty: outT, Group: 0, Binding: 1},
		Global{Name: "acc", Space: "private", Ty: TU32},
		Global{Name: "hcalls", Space: "private", Ty: TU32},
	)
	gi := L("gi", TU32)
	b := &f2b{pos: pos}
	accPriv := func() Expr { return V("acc", TU32) }
	accOut := func() Expr { return Idx(V("out", outT), gi) }
	la, lb := func() Expr { return V("a", TU32) }, func() Expr { return V("b", TU32) }
	b.acc = la
	b.markAcc = func(id uint32) Expr {
		if id%2 == 1 {
			return la()
		}
		return lb()
	}
	// combined value of both locals: a * 31 + b * 17
	comb := func() Expr {
		return &Bin{Op: "+", L: &Bin{Op: "*", L: la(), R: LitU(31), Ty: TU32}, R: &Bin{Op: "*", L: lb(), R: LitU(17), Ty: TU32}, Ty: TU32}
	}
	// h also keeps a counter of its own in a private variable that nothing else names: the only static path to
	// that global is the call of h, wherever the tree places it
	hx := func() Expr { return V("hcalls", TU32) }
	h := &Func{Name: "h", Params: []Param{{Name: "x", Ty: TU32}}, Body: []Stmt{
		&Assign{LHS: hx(), Op: "=", RHS: &Bin{Op: "+", L: hx(), R: LitU(1), Ty: TU32}},
		&Assign{LHS: accPriv(), Op: "=", RHS: &Bin{Op: "+", L: accPriv(), R: hx(), Ty: TU32}},
		&If{Cond: &Bin{Op: "==", L: L("x", TU32), R: LitU(1), Ty: TBool}, Then: []Stmt{
			&Assign{LHS: accPriv(), Op: "=", RHS: &Bin{Op: "+", L: &Bin{Op: "*", L: accPriv(), R: LitU(31), Ty: TU32}, R: LitU(1000), Ty: TU32}},
			&Return{},
		}},
		&Assign{LHS: accPriv(), Op: "=", RHS: &Bin{Op: "+", L: &Bin{Op: "*", L: accPriv(), R: LitU(31), Ty: TU32}, R: LitU(2000), Ty: TU32}},
	}}
	m.Funcs = append(m.Funcs, h)
	load := []Stmt{
		&VarDecl{Kind: "let", Name: "gi", Ty: TU32, Init: Swizzle(L("gid", Vec(U32, 3)), "x")},
		&VarDecl{Kind: "let", Name: "c0", Ty: TU32, Init: Swizzle(Idx(V("inp", inT), gi), "x")},
		&VarDecl{Kind: "let", Name: "c1", Ty: TU32, Init: Swizzle(Idx(V("inp", inT), gi), "y")},
	}
	decls := []Stmt{
		&VarDecl{Kind: "var", Name: "a", Ty: TU32, Init: LitU(7)},
		&VarDecl{Kind: "var", Name: "b", Ty: TU32},
	}
	endsInReturn := len(tree) > 0 && tree[len(tree)-1].kind == cfReturn
	params := []Param{{Name: "gid", Ty: Vec(U32, 3), Attr: "@builtin(global_invocation_id)"}}
	var mainBody []Stmt
	switch pos {
	case "entrylocal":
		b.retSeq = func() []Stmt {
			return []Stmt{&Assign{LHS: accOut(), Op: "=", RHS: &Bin{Op: "^", L: comb(), R: accPriv(), Ty: TU32}}, &Return{}}
		}
		mainBody = append(mainBody, load...)
		mainBody = append(mainBody, &Assign{LHS: accOut(), Op: "=", RHS: LitU(5)})
		mainBody = append(mainBody, decls...)
		mainBody = append(mainBody, b.list(tree)...)
		if !endsInReturn {
			mainBody = append(mainBody, &Assign{LHS: accOut(), Op: "=", RHS: &Bin{Op: "^", L: comb(), R: accPriv(), Ty: TU32}})
		}
	case "calleelocal":
		b.retSeq = func() []Stmt { return []Stmt{&Return{X: comb()}} }
		f := &Func{Name: "f", Params: []Param{{Name: "c0", Ty: TU32}, {Name: "c1", Ty: TU32}}, Ret: TU32}
		f.Body = append(f.Body, decls...)
		f.Body = append(f.Body, b.list(tree)...)
		if !endsInReturn {
			f.Body = append(f.Body, &Return{X: comb()})
		}
		m.Funcs = append(m.Funcs, f)
		mainBody = append(mainBody, load...)
		mainBody = append(mainBody, &Assign{LHS: accPriv(), Op: "=", RHS: LitU(7)})
		mainBody = append(mainBody, &VarDecl{Kind: "let", Name: "r", Ty: TU32, Init: &Call{Fn: "f", Args: []Expr{L("c0", TU32), L("c1", TU32)}, Ty: TU32, User: true}})
		mainBody = append(mainBody, &Assign{LHS: accOut(), Op: "=", RHS: &Bin{Op: "+", L: &Bin{Op: "*", L: L("r", TU32), R: LitU(31), Ty: TU32}, R: accPriv(), Ty: TU32}})
	}
	m.Funcs = append(m.Funcs, &Func{Name: "main", Stage: "compute", WG: [3]int{1, 0, 0}, Params: params, Body: mainBody})
	in := make([]byte, f2Inputs*8)
	for i := 0; i < f2Inputs; i++ {
		PutU32(in, i*8, uint32(i%4))
		PutU32(in, i*8+4, uint32(i/4))
	}
	out := make([]byte, f2Inputs*4)
	for i := range out {
		out[i] = 0xCD
	}
	k0, k1 := xrt.Binding{Group: 0, Binding: 0}, xrt.Binding{Group: 0, Binding: 1}
	return &Case{Sig: "F2L/" + pos + "/" + cfString(tree), Mod: m, Bufs: xrt.Buffers{k0: in, k1: out}, Groups: [3]uint32{f2Inputs, 1, 1},
		BufTypes: map[xrt.Binding]*Type{k0: Array(Vec(U32, 2), f2Inputs), k1: Array(TU32, f2Inputs)}}
}

// F2L returns the local-accumulator control-flow family with node budget k.
func F2L(k int, core bool) *Family {
	trees := F2Trees(k, core)
	name := fmt.Sprintf("F2Lk%d", k)
	if core {
		name += "core"
	}
	return &Family{Name: name, Count: len(trees) * len(f2lPositions), At: func(i int) *Case {
		c := BuildF2L(trees[i/len(f2lPositions)], f2lPositions[i%len(f2lPositions)])
		c.Family, c.Index = name, i
		return c
	}}
}

// F2LMini: F2L over a reduced alphabet (see F2TreesMini) with a larger node budget.
func F2LMini(k, mini int) *Family {
	trees := F2TreesMini(k, mini)
	name := fmt.Sprintf("F2Lm%dk%d", mini, k)
	return &Family{Name: name, Count: len(trees) * len(f2lPositions), At: func(i int) *Case {
		c := BuildF2L(trees[i/len(f2lPositions)], f2lPositions[i%len(f2lPositions)])
		c.Family, c.Index = name, i
		return c
	}}
}
