package wgen

// F3x shape enumeration. Every sub-family is an exhaustive product with a stated bound; the order is
// fixed (index-based enumeration, simplest first).
//
//   X0  bare buffer types: every leaf, array<leaf, 1..3>, array<leaf>                      (no attributes)
//   X1  struct {T}: T over leaves, array<leaf,1..3>, array<leaf> x every permitted @align in
//       {none, natural, 2x, 16, 32, 256} x @size in {none, natural, +4, +16}
//   X2  struct {A, B}: all ordered pairs of leaves x 20 attribute placements (each @align value on
//       either member, each @size value on either member, three two-attribute placements);
//       (array<leaf,1..3>, leaf), (leaf, array<leaf,1..3>), (leaf, array<leaf>) x 4 placements
//   X3  struct {A, B, C}: all triples over the medium alphabet x (none + one attribute from
//       {@align 2x/16/32, @size +4/+16} on one member)          [thorough: all triples of leaves]
//   X4  struct {A, B, C, D}: all quadruples over the small alphabet x (none + @align(16) / @size(+4)
//       on one member)                                          [thorough: medium alphabet; 5 and 6
//       members over the tiny alphabet]
//   X5  nesting: inner structs of 1-2 members over the nesting alphabet x 4 inner attribute placements,
//       placed after a lead, before a trail, between both, in array<I,2>, in a member array and in a
//       runtime-sized tail; plus @align(32) / @size(+16) on the struct-typed member
//   XO  declaration order: {f32, I, f16} and array<I,2> for every inner struct of X5, and a struct
//       carrying spelled attributes on an inner and an outer member (5 spellings, incl. the constant
//       spellings), each with the structs declared outermost first, and with the whole module
//       reversed (entry point, variables, structs, constants)
//   XS  spellings: 3-member structs with the attribute(s) on the member at position 0/1/2, the
//       attributed member over 7 types, every @align / @size value (the bound's values plus 4096 and
//       65536 for @align, +252 and +65532 for @size) and the align+size pair in both orders x every
//       spelling of XSpellings(); @size on a member of an inner struct x every spelling
//
// Each shape is presented in up to three placements ("modes"): storage (one read-only and one
// read_write global; read_write only when the type holds atomics), uniform (only when WGSL permits the
// type there) and workgroup (+ a read-only storage global, so that the struct also has a host-visible
// use; every fourth shape in the quick tier).



func xLeaves() []*XT {
	out := []*XT{XS("f16"), XV("f16", 2), XV("f16", 3), XV("f16", 4), XS("f32"), XV("f32", 2), XV("f32", 3), XV("f32", 4), XS("i32"),
		XAt("u32"), XAt("i32")}
	for c := 2; c <= 4; c++ {
		for r := 2; r <= 4; r++ {
			out = append(out, XMt("f16", c, r))
		}
	}
	return append(out, XMt("f32", 2, 2), XMt("f32", 3, 3), XMt("f32", 4, 2), XMt("f32", 2, 3))
}

func xMedium() []*XT {
	return []*XT{XS("f16"), XV("f16", 2), XV("f16", 3), XV("f16", 4), XS("f32"), XV("f32", 2), XV("f32", 3), XAt("u32"),
		XMt("f16", 3, 3), XMt("f16", 2, 2), XArr(XS("f16"), 3), XArr(XV("f16", 3), 2)}
}

func xSmall() []*XT {
	return []*XT{XS("f16"), XV("f16", 2), XV("f16", 3), XS("f32"), XV("f32", 3), XAt("u32")}
}

func xTiny() []*XT { return []*XT{XS("f16"), XV("f16", 3), XS("f32"), XV("f32", 3)} }

func xNest() []*XT { return []*XT{XS("f16"), XV("f16", 2), XV("f16", 3), XS("f32"), XV("f32", 3)} }

// xAligns: every permitted @align value of the bound for a member of type t (a power of two that is
// a multiple of AlignOf(t)).
func xAligns(t *XT) []int {
	nat := XAlignOf(t)
	var out []int
	for _, v := range []int{nat, 2 * nat, 16, 32, 256} {
		if v < nat {
			continue
		}
		dup := false
		for _, w := range out {
			dup = dup || w == v
		}
		if !dup {
			out = append(out, v)
		}
	}
	return out
}

// xSizes: @size values of the bound (not permitted on runtime-sized arrays).
func xSizes(t *XT) []int {
	if XHasRuntime(t) {
		return nil
	}
	s := XSizeOf(t)
	return []int{s, s + 4, s + 16}
}

// xAttr is one attribute placement: member index, @align value (0 none), @size *delta* (-1 none).
type xAttr struct {
	i      int
	align  int
	dsize  int
	asp    XSpell
	ssp    XSpell
	szFrst bool
}

func xMk(name string, ts []*XT, attrs ...xAttr) *XT {
	ms := make([]XM, len(ts))
	for i, t := range ts {
		ms[i] = XM{Name: "m" + string(rune('a'+i)), T: t}
	}
	for _, a := range attrs {
		m := &ms[a.i]
		if a.align != 0 {
			m.Align, m.ASp = a.align, a.asp
		}
		if a.dsize >= 0 {
			m.Size, m.SSp = XSizeOf(m.T)+a.dsize, a.ssp
		}
		m.SizeFirst = a.szFrst
	}
	return XSt(name, ms...)
}

func al(i, v int) xAttr { return xAttr{i: i, align: v, dsize: -1} }
func sz(i, d int) xAttr { return xAttr{i: i, dsize: d} }

type xShape struct {
	sub   string
	t     *XT
	order int
}

func xShapes(thorough bool) []xShape {
	var out []xShape
	add := func(sub string, t *XT) { out = append(out, xShape{sub: sub, t: t}) }
	L := xLeaves()

	// X0
	for _, l := range L {
		add("X0", l)
	}
	for _, l := range L {
		for n := 1; n <= 3; n++ {
			add("X0", XArr(l, n))
		}
		add("X0", XArr(l, 0))
	}

	// X1
	var singles []*XT
	singles = append(singles, L...)
	for _, l := range L {
		for n := 1; n <= 3; n++ {
			singles = append(singles, XArr(l, n))
		}
		singles = append(singles, XArr(l, 0))
	}
	for _, t := range singles {
		as := append([]int{0}, xAligns(t)...)
		ss := []int{-1}
		if !XHasRuntime(t) {
			ss = append(ss, 0, 4, 16)
		}
		for _, a := range as {
			for _, s := range ss {
				add("X1", xMk("SX", []*XT{t}, xAttr{i: 0, align: a, dsize: s}))
			}
		}
	}

	// X2: leaf pairs
	for _, a := range L {
		for _, b := range L {
			ts := []*XT{a, b}
			add("X2", xMk("SX", ts))
			for i := 0; i < 2; i++ {
				for _, v := range xAligns(ts[i]) {
					add("X2", xMk("SX", ts, al(i, v)))
				}
				for _, d := range []int{0, 4, 16} {
					add("X2", xMk("SX", ts, sz(i, d)))
				}
			}
			add("X2", xMk("SX", ts, sz(0, 4), al(1, 16)))
			add("X2", xMk("SX", ts, al(0, 32), al(1, 16)))
			add("X2", xMk("SX", ts, sz(0, 16), sz(1, 4)))
		}
	}
	// X2: arrays first / second / runtime tail
	for _, l := range L {
		for n := 1; n <= 3; n++ {
			for _, b := range L {
				ts := []*XT{XArr(l, n), b}
				add("X2", xMk("SX", ts))
				add("X2", xMk("SX", ts, sz(0, 4)))
				add("X2", xMk("SX", ts, al(1, 2*XAlignOf(b))))
				add("X2", xMk("SX", ts, al(1, 16)))
				ts = []*XT{b, XArr(l, n)}
				add("X2", xMk("SX", ts))
				add("X2", xMk("SX", ts, sz(0, 4)))
				add("X2", xMk("SX", ts, al(1, 16)))
				add("X2", xMk("SX", ts, sz(1, 16)))
			}
		}
		for _, b := range L {
			ts := []*XT{b, XArr(l, 0)}
			add("X2", xMk("SX", ts))
			add("X2", xMk("SX", ts, sz(0, 4)))
			add("X2", xMk("SX", ts, al(1, 16)))
			add("X2", xMk("SX", ts, al(1, 2*XAlignOf(l))))
		}
	}

	// X3
	tri := xMedium()
	if thorough {
		tri = L
	}
	for _, a := range tri {
		for _, b := range tri {
			for _, c := range tri {
				ts := []*XT{a, b, c}
				add("X3", xMk("SX", ts))
				for i := 0; i < 3; i++ {
					nat := XAlignOf(ts[i])
					for _, v := range []int{2 * nat, 16, 32} {
						if v > nat && !(v == 16 && 2*nat == 16) {
							add("X3", xMk("SX", ts, al(i, v)))
						}
					}
					add("X3", xMk("SX", ts, sz(i, 4)))
					add("X3", xMk("SX", ts, sz(i, 16)))
				}
			}
		}
	}

	// X4 (+ X5m/X6m in thorough)
	quad := xSmall()
	if thorough {
		quad = xMedium()
	}
	var rec func(alpha []*XT, k int, cur []*XT, sub string)
	rec = func(alpha []*XT, k int, cur []*XT, sub string) {
		if len(cur) == k {
			ts := append([]*XT(nil), cur...)
			add(sub, xMk("SX", ts))
			for i := range ts {
				if XAlignOf(ts[i]) < 16 {
					add(sub, xMk("SX", ts, al(i, 16)))
				} else {
					add(sub, xMk("SX", ts, al(i, 32)))
				}
				add(sub, xMk("SX", ts, sz(i, 4)))
			}
			return
		}
		for _, a := range alpha {
			rec(alpha, k, append(cur, a), sub)
		}
	}
	rec(quad, 4, nil, "X4")
	if thorough {
		rec(xTiny(), 5, nil, "X4")
		rec(xTiny(), 6, nil, "X4")
	}

	// X5: nesting
	ns := xNest()
	var inner []*XT
	for _, a := range ns {
		inner = append(inner, xMk("IX", []*XT{a}))
		if XAlignOf(a) < 16 {
			inner = append(inner, xMk("IX", []*XT{a}, al(0, 16)))
		}
		inner = append(inner, xMk("IX", []*XT{a}, al(0, 32)), xMk("IX", []*XT{a}, sz(0, 4)))
		for _, b := range ns {
			ts := []*XT{a, b}
			inner = append(inner, xMk("IX", ts), xMk("IX", ts, al(0, 16)), xMk("IX", ts, al(1, 32)), xMk("IX", ts, sz(1, 4)))
		}
	}
	ends := []*XT{XS("f16"), XS("f32"), XV("f16", 3)}
	for _, in := range inner {
		add("X5", XArr(in, 2))
		add("X5", XArr(in, 0))
		for _, lead := range ends {
			add("X5", xMk("SX", []*XT{lead, in}))
			add("X5", xMk("SX", []*XT{in, lead}))
			add("X5", xMk("SX", []*XT{lead, XArr(in, 2)}))
			add("X5", xMk("SX", []*XT{lead, XArr(in, 0)}))
			for _, trail := range ends {
				ts := []*XT{lead, in, trail}
				add("X5", xMk("SX", ts))
				if thorough || lead == trail {
					add("X5", xMk("SX", ts, al(1, 32)))
					add("X5", xMk("SX", ts, sz(1, 16)))
				}
			}
		}
	}

	// XO: declaration order
	for _, in := range inner {
		for _, order := range []int{XOrderOuterFirst, XOrderReversed} {
			out = append(out, xShape{"XO", xMk("SX", []*XT{XS("f32"), in, XS("f16")}), order})
			out = append(out, xShape{"XO", XArr(in, 2), order})
		}
	}
	for _, sp := range []XSpell{SpDec, SpDecU, SpConst, SpConstAfter, SpConstExpr} {
		for _, order := range []int{XOrderOuterFirst, XOrderReversed} {
			in := xMk("IX", []*XT{XS("f32"), XS("f16")}, xAttr{i: 0, dsize: 4, ssp: sp})
			out = append(out, xShape{"XO", xMk("SX", []*XT{XS("f32"), in, XS("f32")}, xAttr{i: 2, align: 16, dsize: -1, asp: sp}), order})
		}
	}

	// XS: spellings
	targets := []*XT{XS("f32"), XV("f32", 2), XV("f32", 3), XS("f16"), XV("f16", 3), XArr(XS("f32"), 2), xMk("IX", []*XT{XS("f32"), XS("f16")})}
	for _, sp := range XSpellings() {
		for pos := 0; pos < 3; pos++ {
			for _, tg := range targets {
				ts := []*XT{XS("f32"), XS("f32"), XS("f32")}
				ts[pos] = tg
				for _, v := range append(xAligns(tg), 4096, 65536) {
					add("XS", xMk("SX", ts, xAttr{i: pos, align: v, dsize: -1, asp: sp}))
				}
				for _, d := range []int{0, 4, 16, 252, 65532} {
					add("XS", xMk("SX", ts, xAttr{i: pos, dsize: d, ssp: sp}))
				}
				// both attributes on one member, in both orders, and on two different members
				add("XS", xMk("SX", ts, xAttr{i: pos, align: 32, dsize: 4, asp: sp, ssp: sp}))
				add("XS", xMk("SX", ts, xAttr{i: pos, align: 32, dsize: 4, asp: sp, ssp: sp, szFrst: true}))
				add("XS", xMk("SX", ts, xAttr{i: pos, align: 16, dsize: -1, asp: sp}, xAttr{i: (pos + 1) % 3, dsize: 16, ssp: sp}))
			}
		}
	}
	// XS: the spelled attribute on a member of an inner struct (as a member and as an array element)
	for _, sp := range XSpellings() {
		for ipos := 0; ipos < 2; ipos++ {
			in := xMk("IX", []*XT{XS("f32"), XS("f16")}, xAttr{i: ipos, dsize: 4, ssp: sp})
			add("XS", xMk("SX", []*XT{XS("f32"), in, XS("f32")}))
			add("XS", XArr(in, 2))
		}
	}
	// XN: nested arrays (two and three levels, a runtime-sized outer level) of every leaf, bare, as the only
	// member of a struct and after a scalar member — matrix majorness/stride and array strides must be
	// carried through every array level
	for _, l := range L {
		nests := []*XT{XArr(XArr(l, 2), 2), XArr(XArr(l, 3), 2), XArr(XArr(XArr(l, 2), 2), 2), XArr(XArr(l, 2), 0)}
		for _, nt := range nests {
			add("XN", nt)
			add("XN", xMk("SX", []*XT{nt}))
			add("XN", xMk("SX", []*XT{XS("f32"), nt}))
		}
	}
	return out
}

// XCase is one F3x program.
type XCase struct {
	Sig     string
	Sub     string
	Mode    string // "storage", "uniform", "workgroup"
	T       *XT
	Order   int // XOrderNormal, XOrderOuterFirst, XOrderReversed
	Globals []XGlobal
	Src     string
}

type xEnt struct {
	sh   int
	mode string
}

type xFamily struct {
	shapes []xShape
	ents   []xEnt
}

var xFamCache = map[bool]*xFamily{}

func xFam(thorough bool) *xFamily {
	if f := xFamCache[thorough]; f != nil {
		return f
	}
	f := &xFamily{shapes: xShapes(thorough)}
	for i, sh := range f.shapes {
		f.ents = append(f.ents, xEnt{i, "storage"})
		if !XHasRuntime(sh.t) && !sh.t.HasAtomic() && XUniformValid(sh.t) {
			f.ents = append(f.ents, xEnt{i, "uniform"})
		}
		if !XHasRuntime(sh.t) && (thorough || i%4 == 0) {
			f.ents = append(f.ents, xEnt{i, "workgroup"})
		}
	}
	xFamCache[thorough] = f
	return f
}

// F3xShapeAt returns program i without its text.
func F3xShapeAt(thorough bool, i int) *XCase {
	f := xFam(thorough)
	e := f.ents[i]
	sh := f.shapes[e.sh]
	c := &XCase{Sub: sh.sub, Mode: e.mode, T: sh.t, Order: sh.order}
	switch e.mode {
	case "storage":
		if !sh.t.HasAtomic() {
			c.Globals = append(c.Globals, XGlobal{Name: "src", Space: "storage", T: sh.t, Binding: 0})
		}
		c.Globals = append(c.Globals, XGlobal{Name: "dst", Space: "storage", RW: true, T: sh.t, Binding: 1})
	case "uniform":
		c.Globals = append(c.Globals, XGlobal{Name: "src", Space: "uniform", T: sh.t, Binding: 0})
	case "workgroup":
		c.Globals = append(c.Globals, XGlobal{Name: "wv", Space: "workgroup", T: sh.t})
		if sh.t.HasAtomic() {
			c.Globals = append(c.Globals, XGlobal{Name: "dst", Space: "storage", RW: true, T: sh.t, Binding: 1})
		} else {
			c.Globals = append(c.Globals, XGlobal{Name: "src", Space: "storage", T: sh.t, Binding: 0})
		}
	}
	c.Sig = "F3x/" + sh.sub + "/" + e.mode + "/" + sh.t.Sig()
	if sh.order != XOrderNormal {
		c.Sig += "#" + XOrderNames[sh.order]
	}
	return c
}

// F3xAt returns program i of the family (same index space as F3x(thorough).At).
func F3xAt(thorough bool, i int) *XCase {
	c := F3xShapeAt(thorough, i)
	c.Src = XPrintOrder(c.Globals, c.Order)
	return c
}

// F3x returns the family as structural-only cases (NoExec; the program text is carried in Mod.Raw).
func F3x(thorough bool) *Family {
	f := xFam(thorough)
	name := "F3x"
	if thorough {
		name = "F3xt"
	}
	return &Family{Name: name, Count: len(f.ents), At: func(i int) *Case {
		xc := F3xAt(thorough, i)
		return &Case{Family: name, Index: i, Sig: xc.Sig, Mod: &Module{Raw: xc.Src}, NoExec: true}
	}}
}
