package wgen

import (
	"fmt"
	"sync"

	"verif/internal/xrt"
)

// F2: all control-flow statement trees up to a node budget. Conditions read control inputs so
// every path is reachable; every marker folds a unique id into a wrapping u32 accumulator, so the
// executed path is observable. Loops own a counter that bounds them by construction.

type cfKind byte

const (
	cfMark cfKind = iota
	cfBreak
	cfContinue
	cfReturn
	cfCall
	cfShadow
	cfUnused
	cfIf     // kids[0]=then
	cfIfElse // kids[0]=then kids[1]=else
	cfElif   // kids[0],kids[1] ; variant 1: + kids[2] final else
	cfSwitch // variant = shape; kids = bodies
	cfLoop   // variant: 0 none,1 cont{M},2 cont{break if},3 cont{M; break if}
	cfFor
	cfWhile
	cfBlock
)

type cf struct {
	kind    cfKind
	variant int
	kids    [][]*cf
}

type cfCtx struct {
	loop, sw, shadow bool
	core             bool // core alphabet only
	mini             int  // 0: no further restriction; 1: {M, R, if, if/else}; 2: {M, R, B, C, if/else, loop+continuing}; 3: {M, B, C, plain loop, single-clause switch}; 4: {M, H (helper call), B, C, if, if/else, loop whose continuing block is itself a statement list, followed by break-if}
}

func (c cfCtx) key(n int) int {
	k := n
	k = k*2 + b2i(c.loop)
	k = k*2 + b2i(c.sw)
	k = k*2 + b2i(c.shadow)
	k = k*2 + b2i(c.core)
	k = k*8 + c.mini
	return k
}
func b2i(b bool) int {
	if b {
		return 1
	}
	return 0
}

type cfEnum struct {
	mu    sync.Mutex
	lists map[int][][]*cf
	stmts map[int][]*cf
}

var cfE = &cfEnum{lists: map[int][][]*cf{}, stmts: map[int][]*cf{}}

var leafMark = &cf{kind: cfMark}
var leafBreak = &cf{kind: cfBreak}
var leafContinue = &cf{kind: cfContinue}
var leafReturn = &cf{kind: cfReturn}
var leafCall = &cf{kind: cfCall}
var leafShadow = &cf{kind: cfShadow}
var leafUnused = &cf{kind: cfUnused}

func isTerm(s *cf) bool { return s.kind == cfBreak || s.kind == cfContinue || s.kind == cfReturn }

// switch shapes: number of bodies
var swBodies = []int{2, 2, 2, 3}

func (e *cfEnum) listsOf(n int, c cfCtx) [][]*cf {
	if n == 0 {
		return [][]*cf{nil}
	}
	k := c.key(n)
	if l, ok := e.lists[k]; ok {
		return l
	}
	var out [][]*cf
	for a := 1; a <= n; a++ {
		for _, s := range e.stmtsOf(a, c) {
			if isTerm(s) && a < n {
				continue // terminators only in last position (no unreachable code by construction)
			}
			c2 := c
			if s.kind == cfShadow {
				c2.shadow = false
			}
			for _, rest := range e.listsOf(n-a, c2) {
				l := make([]*cf, 0, 1+len(rest))
				l = append(l, s)
				l = append(l, rest...)
				out = append(out, l)
			}
		}
	}
	e.lists[k] = out
	return out
}

// splits enumerates all ways to write total as an ordered sum of k non-negative parts.
func splits(total, k int) [][]int {
	if k == 1 {
		return [][]int{{total}}
	}
	var out [][]int
	for a := 0; a <= total; a++ {
		for _, r := range splits(total-a, k-1) {
			out = append(out, append([]int{a}, r...))
		}
	}
	return out
}

func (e *cfEnum) compound(kind cfKind, variant int, budget int, ctxs []cfCtx) []*cf {
	var out []*cf
	for _, sp := range splits(budget, len(ctxs)) {
		// cartesian product of body lists
		cur := [][][]*cf{nil}
		for i, sz := range sp {
			ls := e.listsOf(sz, ctxs[i])
			var next [][][]*cf
			for _, pre := range cur {
				for _, l := range ls {
					n := make([][]*cf, len(pre), len(pre)+1)
					copy(n, pre)
					next = append(next, append(n, l))
				}
			}
			cur = next
		}
		for _, kids := range cur {
			out = append(out, &cf{kind: kind, variant: variant, kids: kids})
		}
	}
	return out
}

func (e *cfEnum) stmtsOf(a int, c cfCtx) []*cf {
	k := c.key(a)
	if s, ok := e.stmts[k]; ok {
		return s
	}
	var out []*cf
	inner := cfCtx{loop: c.loop, sw: c.sw, shadow: true, core: c.core, mini: c.mini}
	if c.mini != 0 {
		if c.mini == 4 {
			if a == 1 {
				out = append(out, leafMark, leafCall)
				if c.loop {
					out = append(out, leafBreak, leafContinue)
				}
			}
			if a >= 1 {
				out = append(out, e.compound(cfIf, 0, a-1, []cfCtx{inner})...)
				out = append(out, e.compound(cfIfElse, 0, a-1, []cfCtx{inner, inner})...)
				// loop body (break/continue allowed) and continuing block (a statement list of its own: no break or
				// continue of this loop at any depth outside a nested loop, as WGSL requires)
				lc := cfCtx{loop: true, shadow: true, core: c.core, mini: 4}
				cc := cfCtx{loop: false, shadow: true, core: c.core, mini: 4}
				out = append(out, e.compound(cfLoop, 4, a-1, []cfCtx{lc, cc})...)
			}
			e.stmts[k] = out
			return out
		}
		if c.mini == 3 {
			if a == 1 {
				out = append(out, leafMark)
				if c.loop || c.sw {
					out = append(out, leafBreak)
				}
				if c.loop {
					out = append(out, leafContinue)
				}
			}
			if a >= 1 {
				swc := cfCtx{loop: c.loop, sw: true, shadow: true, core: c.core, mini: 3}
				out = append(out, e.compound(cfSwitch, 4, a-1, []cfCtx{swc})...)
				lc := cfCtx{loop: true, shadow: true, core: c.core, mini: 3}
				out = append(out, e.compound(cfLoop, 0, a-1, []cfCtx{lc})...)
			}
			e.stmts[k] = out
			return out
		}
		if a == 1 {
			out = append(out, leafMark, leafReturn)
			if c.mini == 2 && c.loop {
				out = append(out, leafBreak, leafContinue)
			}
		}
		if a >= 1 {
			b := a - 1
			if c.mini == 1 {
				out = append(out, e.compound(cfIf, 0, b, []cfCtx{inner})...)
			}
			out = append(out, e.compound(cfIfElse, 0, b, []cfCtx{inner, inner})...)
			if c.mini == 2 {
				lc := cfCtx{loop: true, shadow: true, core: c.core, mini: c.mini}
				out = append(out, e.compound(cfLoop, 3, b, []cfCtx{lc})...)
			}
		}
		e.stmts[k] = out
		return out
	}
	if a == 1 {
		out = append(out, leafMark)
		if c.loop || c.sw {
			out = append(out, leafBreak)
		}
		if c.loop {
			out = append(out, leafContinue)
		}
		out = append(out, leafReturn)
		if !c.core {
			out = append(out, leafCall, leafUnused)
			if c.shadow {
				out = append(out, leafShadow)
			}
		}
	}
	if a >= 1 {
		b := a - 1
		if !c.core {
			out = append(out, e.compound(cfIf, 0, b, []cfCtx{inner})...)
		}
		out = append(out, e.compound(cfIfElse, 0, b, []cfCtx{inner, inner})...)
		swc := cfCtx{loop: c.loop, sw: true, shadow: true, core: c.core}
		nshapes := len(swBodies)
		if c.core {
			nshapes = 1
		}
		for sh := 0; sh < nshapes; sh++ {
			ctxs := make([]cfCtx, swBodies[sh])
			for i := range ctxs {
				ctxs[i] = swc
			}
			out = append(out, e.compound(cfSwitch, sh, b, ctxs)...)
		}
		lc := cfCtx{loop: true, sw: false, shadow: true, core: c.core}
		if c.core {
			out = append(out, e.compound(cfLoop, 3, b, []cfCtx{lc})...)
		} else {
			for v := 0; v < 4; v++ {
				out = append(out, e.compound(cfLoop, v, b, []cfCtx{lc})...)
			}
			out = append(out, e.compound(cfFor, 0, b, []cfCtx{lc})...)
			out = append(out, e.compound(cfWhile, 0, b, []cfCtx{lc})...)
		}
		out = append(out, e.compound(cfBlock, 0, b, []cfCtx{inner})...)
	}
	if a >= 2 && !c.core {
		b := a - 2
		out = append(out, e.compound(cfElif, 0, b, []cfCtx{inner, inner})...)
		out = append(out, e.compound(cfElif, 1, b, []cfCtx{inner, inner, inner})...)
	}
	e.stmts[k] = out
	return out
}

// F2Trees returns all top-level statement lists with 1..k nodes.
func F2Trees(k int, core bool) [][]*cf {
	cfE.mu.Lock()
	defer cfE.mu.Unlock()
	var out [][]*cf
	for n := 1; n <= k; n++ {
		out = append(out, cfE.listsOf(n, cfCtx{core: core})...)
	}
	return out
}

// F2TreesMini returns all top-level statement lists with 1..k nodes over a reduced alphabet
// (mini 1: marker, return, if, if/else; mini 2: marker, return, break, continue, if/else, loop with continuing;
// mini 3: marker, break, continue, plain loop, single-clause switch).
func F2TreesMini(k, mini int) [][]*cf {
	cfE.mu.Lock()
	defer cfE.mu.Unlock()
	var out [][]*cf
	for n := 1; n <= k; n++ {
		out = append(out, cfE.listsOf(n, cfCtx{core: true, mini: mini})...)
	}
	return out
}

// ---------------------------------------------------------------- materialisation

var f2Positions = []string{"entry", "callee", "calleeval"}

type f2b struct {
	nextID  uint32
	nextVar int
	pos     string
	acc     func() Expr // accumulator lvalue
	condN   int
	// optional overrides used by F2L (function-local accumulators)
	markAcc func(id uint32) Expr // accumulator lvalue for the marker with this id
	retSeq  func() []Stmt        // statements that make up a `return`
	// loopMarks: every loop body starts (after its bound check) with an implicit marker, so that the number of
	// iterations begun is observable without spending node budget on it
	loopMarks bool
}

func (b *f2b) id() uint32 { b.nextID++; return b.nextID }

func (b *f2b) mark() Stmt {
	// acc = acc * 31u + id
	if b.markAcc != nil {
		id := b.id()
		return &Assign{LHS: b.markAcc(id), Op: "=", RHS: &Bin{Op: "+", L: &Bin{Op: "*", L: b.markAcc(id), R: LitU(31), Ty: TU32}, R: LitU(id), Ty: TU32}}
	}
	return &Assign{LHS: b.acc(), Op: "=", RHS: &Bin{Op: "+", L: &Bin{Op: "*", L: b.acc(), R: LitU(31), Ty: TU32}, R: LitU(b.id()), Ty: TU32}}
}

func (b *f2b) cond() Expr {
	c0, c1 := L("c0", TU32), L("c1", TU32)
	b.condN++
	switch b.condN % 6 {
	case 0:
		return &Bin{Op: "==", L: c0, R: LitU(0), Ty: TBool}
	case 1:
		return &Bin{Op: ">", L: c1, R: LitU(1), Ty: TBool}
	case 2:
		return &Bin{Op: "!=", L: c0, R: c1, Ty: TBool}
	case 3:
		return &Bin{Op: "==", L: &Bin{Op: "&", L: c0, R: LitU(1), Ty: TU32}, R: LitU(1), Ty: TBool}
	case 4:
		return &Bin{Op: ">=", L: c1, R: LitU(2), Ty: TBool}
	}
	return &Bin{Op: "<", L: c0, R: LitU(2), Ty: TBool}
}

func (b *f2b) ret() Stmt {
	if b.pos == "calleeval" {
		return &Return{X: b.acc()}
	}
	return &Return{}
}

func (b *f2b) list(l []*cf) []Stmt {
	var out []Stmt
	for _, s := range l {
		out = append(out, b.stmt(s)...)
	}
	return out
}

func (b *f2b) stmt(s *cf) []Stmt {
	switch s.kind {
	case cfMark:
		return []Stmt{b.mark()}
	case cfBreak:
		return []Stmt{&Break{}}
	case cfContinue:
		return []Stmt{&Continue{}}
	case cfReturn:
		if b.retSeq != nil {
			return b.retSeq()
		}
		return []Stmt{b.ret()}
	case cfCall:
		return []Stmt{&ExprStmt{X: &Call{Fn: "h", Args: []Expr{L("c0", TU32)}, User: true}}}
	case cfShadow:
		// shadows c0 in the enclosing (nested) block: later conditions see the new value
		return []Stmt{&VarDecl{Kind: "let", Name: "c0", Ty: TU32, Init: &Bin{Op: "+", L: L("c1", TU32), R: LitU(1), Ty: TU32}}}
	case cfUnused:
		b.nextVar++
		return []Stmt{&VarDecl{Kind: "let", Name: fmt.Sprintf("u%d", b.nextVar), Ty: TU32, Init: L("c0", TU32)}}
	case cfIf:
		c := b.cond()
		return []Stmt{&If{Cond: c, Then: b.list(s.kids[0])}}
	case cfIfElse:
		c := b.cond()
		return []Stmt{&If{Cond: c, Then: b.list(s.kids[0]), Else: b.list(s.kids[1]), HasElse: true}}
	case cfElif:
		c1 := b.cond()
		t := b.list(s.kids[0])
		c2 := b.cond()
		inner := &If{Cond: c2, Then: b.list(s.kids[1])}
		if s.variant == 1 {
			inner.Else = b.list(s.kids[2])
			inner.HasElse = true
		}
		return []Stmt{&If{Cond: c1, Then: t, Else: []Stmt{inner}, HasElse: true}}
	case cfSwitch:
		b.condN++
		var sel Expr = L("c0", TU32)
		lit := func(v uint32) Expr { return LitU(v) }
		if b.condN%2 == 1 {
			sel = &Cons{Ty: TI32, Args: []Expr{L("c1", TU32)}}
			lit = func(v uint32) Expr { return LitI(int32(v)) }
		}
		sw := &Switch{Sel: sel}
		bodies := make([][]Stmt, len(s.kids))
		for i := range s.kids {
			bodies[i] = b.list(s.kids[i])
		}
		switch s.variant {
		case 0:
			sw.Cases = []SwCase{{Sels: []Expr{lit(0)}, Body: bodies[0]}, {Default: true, Body: bodies[1]}}
		case 1:
			sw.Cases = []SwCase{{Default: true, Body: bodies[0]}, {Sels: []Expr{lit(1), lit(2)}, Body: bodies[1]}}
		case 2:
			sw.Cases = []SwCase{{Sels: []Expr{lit(0)}, Default: true, DefaultPos: 1, Body: bodies[0]}, {Sels: []Expr{lit(3)}, Body: bodies[1]}}
		case 3:
			sw.Cases = []SwCase{{Sels: []Expr{lit(1)}, Body: bodies[0]}, {Sels: []Expr{lit(2)}, Body: bodies[1]}, {Default: true, Body: bodies[2]}}
		case 4: // a single clause: `switch x { default: { ... } }`
			sw.Cases = []SwCase{{Default: true, Body: bodies[0]}}
		}
		return []Stmt{sw}
	case cfLoop:
		b.nextVar++
		k := fmt.Sprintf("k%d", b.nextVar)
		kv := V(k, TU32)
		pre := &VarDecl{Kind: "var", Name: k, Ty: TU32, Init: LitU(0)}
		body := []Stmt{&IncDec{LHS: kv, Inc: true}, &If{Cond: &Bin{Op: ">", L: kv, R: LitU(2), Ty: TBool}, Then: []Stmt{&Break{}}}}
		if b.loopMarks {
			body = append(body, b.mark())
		}
		body = append(body, b.list(s.kids[0])...)
		lp := &Loop{Body: body}
		if s.variant == 4 {
			lp.HasCont = true
			lp.Continuing = b.list(s.kids[1])
			lp.BreakIf = b.cond()
		} else {
			if s.variant&1 != 0 {
				lp.HasCont = true
				lp.Continuing = []Stmt{b.mark()}
			}
			if s.variant&2 != 0 {
				lp.HasCont = true
				lp.BreakIf = b.cond()
			}
		}
		return []Stmt{pre, lp}
	case cfFor:
		b.nextVar++
		k := fmt.Sprintf("k%d", b.nextVar)
		kv := V(k, TU32)
		return []Stmt{&For{Init: &VarDecl{Kind: "var", Name: k, Ty: TU32, Init: LitU(0)}, Cond: &Bin{Op: "<", L: kv, R: LitU(2), Ty: TBool},
			Upd: &IncDec{LHS: kv, Inc: true}, Body: b.list(s.kids[0])}}
	case cfWhile:
		b.nextVar++
		k := fmt.Sprintf("k%d", b.nextVar)
		kv := V(k, TU32)
		pre := &VarDecl{Kind: "var", Name: k, Ty: TU32, Init: LitU(0)}
		body := []Stmt{&IncDec{LHS: kv, Inc: true}}
		body = append(body, b.list(s.kids[0])...)
		return []Stmt{pre, &While{Cond: &Bin{Op: "<", L: kv, R: LitU(2), Ty: TBool}, Body: body}}
	case cfBlock:
		return []Stmt{&Block{Body: b.list(s.kids[0])}}
	}
	panic("cf kind")
}

var cfLetters = map[cfKind]byte{cfIf: 'i', cfIfElse: 'e', cfElif: 'q', cfSwitch: 's', cfLoop: 'l', cfFor: 'f', cfWhile: 'w', cfBlock: 'b'}

func cfString(l []*cf) string {
	s := ""
	for _, x := range l {
		switch x.kind {
		case cfMark:
			s += "M"
		case cfBreak:
			s += "B"
		case cfContinue:
			s += "C"
		case cfReturn:
			s += "R"
		case cfCall:
			s += "H"
		case cfShadow:
			s += "S"
		case cfUnused:
			s += "U"
		default:
			// compound: kind letter + variant + (kids)
			s += fmt.Sprintf("%c%d", cfLetters[x.kind], x.variant)
			for _, k := range x.kids {
				s += "(" + cfString(k) + ")"
			}
		}
	}
	return s
}

// controlInputs: 16 pairs (c0,c1) in {0,1,2,3}^2, one workgroup each.
const f2Inputs = 16

// BuildF2 materialises one tree in one position.
func BuildF2(tree []*cf, pos string) *Case { return buildF2(tree, pos, false) }

func buildF2(tree []*cf, pos string, loopMarks bool) *Case {
	m := &Module{}
	inT := Array(Vec(U32, 2), 0)
	outT := Array(TU32, 0)
	m.Globals = append(m.Globals,
		Global{Name: "inp", Space: "storage", Ty: inT, Group: 0, Binding: 0},
		Global{Name: "out", Space: "storage", RW: true, Ty: outT, Group: 0, Binding: 1},
		Global{Name: "acc", Space: "private", Ty: TU32},
		Global{Name: "hcalls", Space: "private", Ty: TU32},
	)
	gi := L("gi", TU32)
	b := &f2b{pos: pos, nextID: 0, loopMarks: loopMarks}
	accPriv := func() Expr { return V("acc", TU32) }
	accOut := func() Expr { return Idx(V("out", outT), gi) }
	// helper h: touches acc (private) in all positions
	// h also keeps a counter of its own in a private variable that nothing else names: the only static path to
	// that global is the call of h, wherever the tree places it
	hx := func() Expr { return V("hcalls", TU32) }
	h := &Func{Name: "h", Params: []Param{{Name: "x", Ty: TU32}}, Body: []Stmt{
		&Assign{LHS: hx(), Op: "=", RHS: &Bin{Op: "+", L: hx(), R: LitU(1), Ty: TU32}},
		&Assign{LHS: accPriv(), Op: "=", RHS: &Bin{Op: "+", L: accPriv(), R: hx(), Ty: TU32}},
		&If{Cond: &Bin{Op: "==", L: L("x", TU32), R: LitU(1), Ty: TBool}, Then: []Stmt{
			&Assign{LHS: accPriv(), Op: "=", RHS: &Bin{Op: "+", L: &Bin{Op: "*", L: accPriv(), R: LitU(31), Ty: TU32}, R: LitU(1000), Ty: TU32}},
			&Return{},
		}},
		&Assign{LHS: accPriv(), Op: "=", RHS: &Bin{Op: "+", L: &Bin{Op: "*", L: accPriv(), R: LitU(31), Ty: TU32}, R: LitU(2000), Ty: TU32}},
	}}
	m.Funcs = append(m.Funcs, h)
	load := []Stmt{
		&VarDecl{Kind: "let", Name: "gi", Ty: TU32, Init: Swizzle(L("gid", Vec(U32, 3)), "x")},
		&VarDecl{Kind: "let", Name: "c0", Ty: TU32, Init: Swizzle(Idx(V("inp", inT), gi), "x")},
		&VarDecl{Kind: "let", Name: "c1", Ty: TU32, Init: Swizzle(Idx(V("inp", inT), gi), "y")},
	}
	params := []Param{{Name: "gid", Ty: Vec(U32, 3), Attr: "@builtin(global_invocation_id)"}}
	var mainBody []Stmt
	switch pos {
	case "entry":
		// accumulator is the storage cell itself; helper results are folded in after the tree is
		// not possible on early return, so h()'s private acc is folded at each call site instead.
		b.acc = accOut
		mainBody = append(mainBody, load...)
		mainBody = append(mainBody, &Assign{LHS: accOut(), Op: "=", RHS: LitU(7)})
		mainBody = append(mainBody, b.list(tree)...)
		// fold private acc (changed by h) at the end if reached (not after a top-level return: the
		// generator never produces statically unreachable code)
		if len(tree) == 0 || tree[len(tree)-1].kind != cfReturn {
			mainBody = append(mainBody, &Assign{LHS: accOut(), Op: "=", RHS: &Bin{Op: "^", L: accOut(), R: accPriv(), Ty: TU32}})
		}
	case "callee":
		b.acc = accPriv
		f := &Func{Name: "f", Params: []Param{{Name: "c0", Ty: TU32}, {Name: "c1", Ty: TU32}}}
		f.Body = b.list(tree)
		m.Funcs = append(m.Funcs, f)
		mainBody = append(mainBody, load...)
		mainBody = append(mainBody, &Assign{LHS: accPriv(), Op: "=", RHS: LitU(7)})
		mainBody = append(mainBody, &ExprStmt{X: &Call{Fn: "f", Args: []Expr{L("c0", TU32), L("c1", TU32)}, User: true}})
		mainBody = append(mainBody, b2mark(accPriv, 3000))
		mainBody = append(mainBody, &Assign{LHS: accOut(), Op: "=", RHS: accPriv()})
	case "calleeval":
		b.acc = accPriv
		f := &Func{Name: "f", Params: []Param{{Name: "c0", Ty: TU32}, {Name: "c1", Ty: TU32}}, Ret: TU32}
		f.Body = b.list(tree)
		if len(tree) == 0 || !isTerm(tree[len(tree)-1]) || tree[len(tree)-1].kind != cfReturn {
			f.Body = append(f.Body, &Return{X: accPriv()})
		}
		m.Funcs = append(m.Funcs, f)
		mainBody = append(mainBody, load...)
		mainBody = append(mainBody, &Assign{LHS: accPriv(), Op: "=", RHS: LitU(7)})
		mainBody = append(mainBody, &VarDecl{Kind: "let", Name: "r", Ty: TU32, Init: &Call{Fn: "f", Args: []Expr{L("c0", TU32), L("c1", TU32)}, Ty: TU32, User: true}})
		mainBody = append(mainBody, &Assign{LHS: accOut(), Op: "=", RHS: &Bin{Op: "+", L: &Bin{Op: "*", L: L("r", TU32), R: LitU(31), Ty: TU32}, R: accPriv(), Ty: TU32}})
	}
	m.Funcs = append(m.Funcs, &Func{Name: "main", Stage: "compute", WG: [3]int{1, 0, 0}, Params: params, Body: mainBody})
	in := make([]byte, f2Inputs*8)
	for i := 0; i < f2Inputs; i++ {
		PutU32(in, i*8, uint32(i%4))
		PutU32(in, i*8+4, uint32(i/4))
	}
	out := make([]byte, f2Inputs*4)
	for i := range out {
		out[i] = 0xCD
	}
	k0, k1 := xrt.Binding{Group: 0, Binding: 0}, xrt.Binding{Group: 0, Binding: 1}
	return &Case{Sig: "F2/" + pos + "/" + cfString(tree), Mod: m, Bufs: xrt.Buffers{k0: in, k1: out}, Groups: [3]uint32{f2Inputs, 1, 1},
		BufTypes: map[xrt.Binding]*Type{k0: Array(Vec(U32, 2), f2Inputs), k1: Array(TU32, f2Inputs)}}
}

func b2mark(acc func() Expr, id uint32) Stmt {
	return &Assign{LHS: acc(), Op: "=", RHS: &Bin{Op: "+", L: &Bin{Op: "*", L: acc(), R: LitU(31), Ty: TU32}, R: LitU(id), Ty: TU32}}
}

// F2Mini: F2 (three positions) over a reduced alphabet (see F2TreesMini) with a larger node budget.
func F2Mini(k, mini int) *Family {
	trees := F2TreesMini(k, mini)
	name := fmt.Sprintf("F2m%dk%d", mini, k)
	return &Family{Name: name, Count: len(trees) * len(f2Positions), At: func(i int) *Case {
		c := buildF2(trees[i/len(f2Positions)], f2Positions[i%len(f2Positions)], mini >= 3)
		c.Family, c.Index = name, i
		return c
	}}
}

// F2 returns the control-flow family with node budget k (core alphabet if core).
func F2(k int, core bool) *Family {
	trees := F2Trees(k, core)
	name := fmt.Sprintf("F2k%d", k)
	if core {
		name += "core"
	}
	return &Family{Name: name, Count: len(trees) * len(f2Positions), At: func(i int) *Case {
		c := BuildF2(trees[i/len(f2Positions)], f2Positions[i%len(f2Positions)])
		c.Family, c.Index = name, i
		return c
	}}
}
