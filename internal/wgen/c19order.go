package wgen

import (
	"fmt"
	"strings"
)

// C19 order family: modules with k user-declared entities (types, functions, constants, variables)
// that reference each other in BOTH directions of source order, parameterised by the k names.
//
// A member of the family is (kind, k, dependency DAG over the source positions 0..k-1, reference
// order inside a declaration, position of the entry point). Instantiating it with different
// injective name assignments gives programs that are alpha-equivalent by construction: the only
// thing that changes is the spelling — and therefore the relative lexicographic (or length) order —
// of the k names. WGSL gives module-scope declarations no order, and gives names no meaning, so the
// generated code must be the same up to the renaming whatever the assignment.
//
// Bounds: every labelled DAG on 3 nodes (25); on 4 nodes every out-star, in-star and Hamiltonian
// path (32) in the quick tier and every labelled DAG (543) in the thorough tier.

type C19OrderKind int

const (
	C19OrderStructs C19OrderKind = iota // k struct types, members of the other struct types
	C19OrderTypes                       // aliases / arrays / structs mixed
	C19OrderFuncs                       // k functions calling each other
	C19OrderConsts                      // k constants defined in terms of each other
	C19OrderMixed0                      // struct, fn, const, var rotated over the positions
	C19OrderMixed1
	C19OrderMixed2
	C19OrderMixed3
	// flat kinds: k independent names of one scope (only the empty dependency graph)
	C19OrderGlobalsMixed   // storage / uniform / private / workgroup variables
	C19OrderGlobalsStorage // k storage buffers
	C19OrderLocals         // k function-scope var/let declarations
	C19OrderParams         // k formal parameters
	C19OrderMembers        // k members of one struct
	c19OrderKinds
)

var c19OrderKindNames = []string{"structs", "types", "funcs", "consts", "mixed0", "mixed1", "mixed2", "mixed3", "globals-mixed", "globals-storage", "locals", "params", "members"}

// C19OrderCase is one member of the family.
type C19OrderCase struct {
	Name      string
	Kind      C19OrderKind
	K         int
	Deps      [][]int // Deps[i]: the positions entity i refers to, in the order the references are written
	MainFirst bool    // entry point declared before (true) or after (false) the k entities
}

// c19DAGs enumerates the edge sets (bitmask over ordered pairs i->j, i != j, bit i*k+j) of every
// labelled DAG on k nodes, in increasing mask order.
func c19DAGs(k int) []uint32 {
	var out []uint32
	var pairs []int
	for i := 0; i < k; i++ {
		for j := 0; j < k; j++ {
			if i != j {
				pairs = append(pairs, i*k+j)
			}
		}
	}
	for sub := 0; sub < 1<<len(pairs); sub++ {
		var m uint32
		for b, p := range pairs {
			if sub>>b&1 == 1 {
				m |= 1 << p
			}
		}
		if c19Acyclic(m, k) {
			out = append(out, m)
		}
	}
	return out
}

func c19Acyclic(m uint32, k int) bool {
	removed := make([]bool, k)
	left := k
	for left > 0 {
		progress := false
		for i := 0; i < k; i++ {
			if removed[i] {
				continue
			}
			hasOut := false
			for j := 0; j < k; j++ {
				if !removed[j] && i != j && m>>(i*k+j)&1 == 1 {
					hasOut = true
				}
			}
			if !hasOut {
				removed[i] = true
				left--
				progress = true
			}
		}
		if !progress {
			return false
		}
	}
	return true
}

// c19StarsAndPaths: for k nodes, every out-star (one hub referring to all others), every in-star
// (all others referring to one hub), every directed Hamiltonian path, the empty graph and (k = 4)
// every diamond.
func c19StarsAndPaths(k int) []uint32 {
	seen := map[uint32]bool{}
	var out []uint32
	add := func(m uint32) {
		if !seen[m] {
			seen[m] = true
			out = append(out, m)
		}
	}
	for h := 0; h < k; h++ {
		var o, in uint32
		for j := 0; j < k; j++ {
			if j != h {
				o |= 1 << (h*k + j)
				in |= 1 << (j*k + h)
			}
		}
		add(o)
		add(in)
	}
	for _, p := range C19Perms(k) {
		var m uint32
		for x := 0; x+1 < k; x++ {
			m |= 1 << (p[x]*k + p[x+1])
		}
		add(m)
	}
	add(0) // k independent declarations
	if k == 4 {
		for _, p := range C19Perms(k) { // diamonds: p0 -> p1, p0 -> p2, p1 -> p3, p2 -> p3
			add(1<<(p[0]*k+p[1]) | 1<<(p[0]*k+p[2]) | 1<<(p[1]*k+p[3]) | 1<<(p[2]*k+p[3]))
		}
	}
	return out
}

// C19Perms lists the permutations of 0..k-1 in lexicographic order (the identity first).
func C19Perms(k int) [][]int {
	var out [][]int
	cur := make([]int, 0, k)
	used := make([]bool, k)
	var rec func()
	rec = func() {
		if len(cur) == k {
			out = append(out, append([]int(nil), cur...))
			return
		}
		for i := 0; i < k; i++ {
			if !used[i] {
				used[i] = true
				cur = append(cur, i)
				rec()
				cur = cur[:len(cur)-1]
				used[i] = false
			}
		}
	}
	rec()
	return out
}

// C19OrderCases enumerates the family. full4: every labelled DAG on 4 nodes instead of stars and paths.
func C19OrderCases(full4 bool) []C19OrderCase {
	var out []C19OrderCase
	for k := 3; k <= 4; k++ {
		dags := c19DAGs(k)
		if k == 4 && !full4 {
			dags = c19StarsAndPaths(k)
		}
		for kind := C19OrderKind(0); kind < c19OrderKinds; kind++ {
			for _, m := range dags {
				for rev := 0; rev < 2; rev++ {
					deps := make([][]int, k)
					multi := false
					for i := 0; i < k; i++ {
						for j := 0; j < k; j++ {
							jj := j
							if rev == 1 {
								jj = k - 1 - j
							}
							if i != jj && m>>(i*k+jj)&1 == 1 {
								deps[i] = append(deps[i], jj)
							}
						}
						if len(deps[i]) > 1 {
							multi = true
						}
					}
					if rev == 1 && !multi {
						continue // reversing the reference order changes nothing
					}
					for mf := 0; mf < 2; mf++ {
						c := C19OrderCase{Kind: kind, K: k, Deps: deps, MainFirst: mf == 1}
						c.Name = fmt.Sprintf("order/%s/k%d/dag%03x/ref%d/main%d", c19OrderKindNames[kind], k, m, rev, mf)
						if c.valid() {
							out = append(out, c)
						}
					}
				}
			}
		}
	}
	return out
}

// entity kinds inside a mixed case
const (
	c19EStruct = iota
	c19EFn
	c19EConst
	c19EVar
)

func (c *C19OrderCase) ekind(i int) int {
	switch c.Kind {
	case C19OrderStructs, C19OrderTypes:
		return c19EStruct
	case C19OrderFuncs:
		return c19EFn
	case C19OrderConsts:
		return c19EConst
	}
	return (i + int(c.Kind-C19OrderMixed0)) % 4
}

// valid: every reference is one WGSL allows between the two entity kinds.
func (c *C19OrderCase) valid() bool {
	if c.Kind < C19OrderMixed0 {
		return true
	}
	if c.Kind >= C19OrderGlobalsMixed {
		for _, ds := range c.Deps {
			if len(ds) > 0 {
				return false
			}
		}
		return !c.MainFirst || c.Kind == C19OrderGlobalsMixed || c.Kind == C19OrderGlobalsStorage || c.Kind == C19OrderParams || c.Kind == C19OrderMembers
	}
	for i, ds := range c.Deps {
		for _, j := range ds {
			a, b := c.ekind(i), c.ekind(j)
			switch a {
			case c19EStruct:
				if b != c19EStruct && b != c19EConst {
					return false
				}
			case c19EConst:
				if b != c19EConst {
					return false
				}
			case c19EVar:
				if (b != c19EStruct && b != c19EConst) || len(ds) > 1 {
					return false
				}
			}
		}
	}
	return true
}

var c19Leaf = []string{"f32", "i32", "u32", "vec2<f32>"}
var c19LeafVec = []string{"vec2<f32>", "vec3<i32>", "vec4<u32>", "vec2<u32>"}

// Source instantiates the case with the given names (names[i] names the entity at source position i).
func (c *C19OrderCase) Source(names []string) string {
	var decls []string
	var body []string // statements of main
	k := c.K
	switch c.Kind {
	case C19OrderStructs, C19OrderTypes:
		for i := 0; i < k; i++ {
			ds := c.Deps[i]
			switch {
			case c.Kind == C19OrderTypes && len(ds) == 0:
				decls = append(decls, fmt.Sprintf("alias %s = %s;", names[i], c19LeafVec[i]))
			case c.Kind == C19OrderTypes && len(ds) == 1:
				decls = append(decls, fmt.Sprintf("alias %s = array<%s, %d>;", names[i], names[ds[0]], 2+i))
			default:
				var sb strings.Builder
				fmt.Fprintf(&sb, "struct %s {\n    v%d: %s,\n", names[i], i, c19Leaf[i])
				for _, j := range ds {
					fmt.Fprintf(&sb, "    m%d: %s,\n", j, names[j])
				}
				sb.WriteString("}")
				decls = append(decls, sb.String())
			}
		}
		for i := 0; i < k; i++ {
			decls = append(decls, fmt.Sprintf("@group(0) @binding(%d)\nvar<storage, read_write> s%d: %s;", i, i, names[i]))
			decls = append(decls, fmt.Sprintf("var<private> g%d: %s;", i, names[i]))
			body = append(body, fmt.Sprintf("s%d = g%d;", i, i))
		}
	case C19OrderFuncs:
		for i := 0; i < k; i++ {
			expr := fmt.Sprintf("x * %d", i+2)
			for n, j := range c.Deps[i] {
				expr += fmt.Sprintf(" + %s(x + %d)", names[j], n+1)
			}
			decls = append(decls, fmt.Sprintf("fn %s(x: i32) -> i32 {\n    return %s;\n}", names[i], expr))
			body = append(body, fmt.Sprintf("out[%d] = %s(%d);", i, names[i], i+1))
		}
	case C19OrderConsts:
		for i := 0; i < k; i++ {
			expr := fmt.Sprintf("%d", i+2)
			for n, j := range c.Deps[i] {
				expr += fmt.Sprintf(" + %s * %d", names[j], 2*n+3)
			}
			decls = append(decls, fmt.Sprintf("const %s: i32 = %s;", names[i], expr))
			body = append(body, fmt.Sprintf("out[%d] = %s;", i, names[i]))
		}
	case C19OrderGlobalsMixed, C19OrderGlobalsStorage:
		body = append(body, "var acc = 0;")
		for i := 0; i < k; i++ {
			form := i
			if c.Kind == C19OrderGlobalsStorage {
				form = 0
			}
			switch form {
			case 0:
				decls = append(decls, fmt.Sprintf("@group(0) @binding(%d)\nvar<storage, read_write> %s: array<i32, %d>;", i+1, names[i], i+2))
				body = append(body, fmt.Sprintf("acc += %s[1];", names[i]), fmt.Sprintf("%s[0] = acc;", names[i]))
			case 1:
				decls = append(decls, fmt.Sprintf("@group(0) @binding(%d)\nvar<uniform> %s: vec4<i32>;", i+1, names[i]))
				body = append(body, fmt.Sprintf("acc += %s.y;", names[i]))
			case 2:
				decls = append(decls, fmt.Sprintf("var<private> %s: i32 = 3;", names[i]))
				body = append(body, fmt.Sprintf("acc += %s;", names[i]), fmt.Sprintf("%s = acc;", names[i]))
			default:
				decls = append(decls, fmt.Sprintf("var<workgroup> %s: array<i32, 2>;", names[i]))
				body = append(body, fmt.Sprintf("acc += %s[1];", names[i]), fmt.Sprintf("%s[0] = acc;", names[i]))
			}
		}
		body = append(body, "out[0] = acc;")
	case C19OrderLocals:
		for i := 0; i < k; i++ {
			prev := "1"
			if i > 0 {
				prev = names[i-1]
				if i-1 == 3 {
					prev += "[0]"
				}
			}
			switch i {
			case 0:
				body = append(body, fmt.Sprintf("var %s = out[1];", names[i]))
			case 1:
				body = append(body, fmt.Sprintf("let %s = %s + 2;", names[i], prev))
			case 2:
				body = append(body, fmt.Sprintf("var %s: i32 = %s * 3;", names[i], prev))
			default:
				body = append(body, fmt.Sprintf("var %s = array<i32, 2>(%s, 4);", names[i], prev))
			}
		}
		for i := 0; i < k; i++ {
			if i == 3 {
				body = append(body, fmt.Sprintf("out[%d] = %s[1];", i+2, names[i]))
			} else {
				body = append(body, fmt.Sprintf("out[%d] = %s;", i+2, names[i]))
			}
		}
	case C19OrderParams:
		ptypes := []string{"i32", "f32", "u32", "vec2<i32>"}
		reads := []string{"%s", "i32(%s)", "i32(%s)", "%s.y"}
		args := []string{"out[1]", "2.5", "3u", "vec2<i32>(4, 5)"}
		var ps, rs []string
		for i := 0; i < k; i++ {
			ps = append(ps, names[i]+": "+ptypes[i])
			rs = append(rs, fmt.Sprintf(reads[i], names[i]))
		}
		decls = append(decls, fmt.Sprintf("fn helper(%s) -> i32 {\n    return %s;\n}", strings.Join(ps, ", "), strings.Join(rs, " + ")))
		body = append(body, fmt.Sprintf("out[0] = helper(%s);", strings.Join(args[:k], ", ")))
	case C19OrderMembers:
		mtypes := []string{"i32", "f32", "u32", "vec2<i32>"}
		vals := []string{"1", "2.5", "3u", "vec2<i32>(4, 5)"}
		var ms []string
		for i := 0; i < k; i++ {
			ms = append(ms, fmt.Sprintf("    %s: %s,", names[i], mtypes[i]))
		}
		decls = append(decls, "struct Holder {\n"+strings.Join(ms, "\n")+"\n}", "@group(0) @binding(1)\nvar<storage, read_write> holder: Holder;")
		body = append(body, "var local: Holder;")
		for i := 0; i < k; i++ {
			body = append(body, fmt.Sprintf("local.%s = %s;", names[i], vals[i]))
		}
		body = append(body, "holder = local;", fmt.Sprintf("out[0] = holder.%s;", names[0]))
	default:
		// the type of a variable entity: "" = i32, otherwise the position of the struct it is declared with
		varStruct := make([]int, k)
		for i := 0; i < k; i++ {
			varStruct[i] = -1
			if c.ekind(i) == c19EVar {
				for _, j := range c.Deps[i] {
					if c.ekind(j) == c19EStruct {
						varStruct[i] = j
					}
				}
			}
		}
		readVar := func(i int) string {
			if varStruct[i] >= 0 {
				return fmt.Sprintf("i32(%s.v%d)", names[i], varStruct[i])
			}
			return names[i]
		}
		for i := 0; i < k; i++ {
			ds := c.Deps[i]
			switch c.ekind(i) {
			case c19EStruct:
				var sb strings.Builder
				fmt.Fprintf(&sb, "struct %s {\n    v%d: f32,\n", names[i], i)
				for _, j := range ds {
					if c.ekind(j) == c19EStruct {
						fmt.Fprintf(&sb, "    m%d: %s,\n", j, names[j])
					} else {
						fmt.Fprintf(&sb, "    a%d: array<f32, %s>,\n", j, names[j])
					}
				}
				sb.WriteString("}")
				decls = append(decls, sb.String())
				body = append(body, fmt.Sprintf("var t%d: %s;", i, names[i]), fmt.Sprintf("out[%d] = i32(t%d.v%d);", i, i, i))
			case c19EFn:
				var sb strings.Builder
				fmt.Fprintf(&sb, "fn %s(x: i32) -> i32 {\n    var r = x * %d;\n", names[i], i+2)
				for n, j := range ds {
					switch c.ekind(j) {
					case c19EStruct:
						fmt.Fprintf(&sb, "    var t%d: %s;\n    r += i32(t%d.v%d);\n", j, names[j], j, j)
					case c19EFn:
						fmt.Fprintf(&sb, "    r += %s(x + %d);\n", names[j], n+1)
					case c19EConst:
						fmt.Fprintf(&sb, "    r += %s;\n", names[j])
					case c19EVar:
						fmt.Fprintf(&sb, "    r += %s;\n", readVar(j))
					}
				}
				sb.WriteString("    return r;\n}")
				decls = append(decls, sb.String())
				body = append(body, fmt.Sprintf("out[%d] = %s(%d);", i, names[i], i+1))
			case c19EConst:
				expr := fmt.Sprintf("%d", i+2)
				for n, j := range ds {
					expr += fmt.Sprintf(" + %s * %d", names[j], 2*n+3)
				}
				decls = append(decls, fmt.Sprintf("const %s: i32 = %s;", names[i], expr))
				body = append(body, fmt.Sprintf("out[%d] = %s;", i, names[i]))
			case c19EVar:
				switch {
				case len(ds) == 0:
					decls = append(decls, fmt.Sprintf("var<private> %s: i32 = %d;", names[i], i+2))
				case varStruct[i] >= 0:
					decls = append(decls, fmt.Sprintf("var<private> %s: %s;", names[i], names[ds[0]]))
				default:
					decls = append(decls, fmt.Sprintf("var<private> %s: i32 = %s;", names[i], names[ds[0]]))
				}
				body = append(body, fmt.Sprintf("out[%d] = %s;", i, readVar(i)))
			}
		}
	}
	var head string
	if c.Kind != C19OrderStructs && c.Kind != C19OrderTypes {
		head = "@group(0) @binding(0)\nvar<storage, read_write> out: array<i32, 8>;\n\n"
	}
	main := "@compute @workgroup_size(1)\nfn main() {\n    " + strings.Join(body, "\n    ") + "\n}"
	if c.MainFirst {
		return head + main + "\n\n" + strings.Join(decls, "\n\n") + "\n"
	}
	return head + strings.Join(decls, "\n\n") + "\n\n" + main + "\n"
}

// C19NameStyles: ways of spelling k names so that their lexicographic order is a given ranking.
//   0: equal length (n0, n1, ...); 1: later names are longer and each is an extension of a common
//   stem (nq, nqq, ...), so lexicographic order = length order; 2: later names are shorter, so
//   lexicographic order is the reverse of length order.
const C19NameStyleCount = 3

// C19Names returns the names for entities at source positions 0..k-1 when the entity at position i
// is to have lexicographic rank perm[i] among the k names.
func C19Names(perm []int, style int) []string {
	k := len(perm)
	out := make([]string, k)
	for i, r := range perm {
		switch style {
		case 0:
			out[i] = fmt.Sprintf("n%d", r)
		case 1:
			out[i] = "nq" + strings.Repeat("q", r)
		default:
			out[i] = fmt.Sprintf("n%d", r) + strings.Repeat("z", k-1-r)
		}
	}
	return out
}
