package wgen

import (
	"fmt"
	"strings"
)

// F1sMany — "many types / many functions" modules: N distinct constructible types and, for each
// type T_i, the functions  p_i(x: T_i),  r_i() -> T_i,  pr_i_j(x: T_i) -> T_j  for a band of j,
// p2_i(x: T_i, y: T_i+1), pointer-parameter functions for the function and private address spaces,
// one module-scope variable per type in the private and workgroup address spaces and one function
// local — all reached from one entry point. The purpose is the id space: result ids span one, two and
// three decimal digits, and every table a backend keys by ids or handles (function types, pointer
// types per storage class, array types, constants, composite constants) is filled with many
// near-colliding keys. Plain WGSL (functions, structs, arrays, matrices): valid for every backend.

type f1sManyType struct {
	name string // WGSL spelling
	decl string // struct declaration, if any
	num  bool   // host-shareable (no bool)
	one  string // a non-zero value of the type
	io   bool   // usable as a @location input/output (numeric scalar or vector)
	uni  bool   // usable as the store type of a uniform variable without layout attributes (scalar, vector, matCx3/matCx4)
}

func f1sManyTypes() []f1sManyType {
	var scal, vecs, mats, arrs, strs []f1sManyType
	ones := map[string]string{"f32": "1.5", "i32": "-2", "u32": "3u", "bool": "true"}
	for _, k := range []string{"f32", "i32", "u32", "bool"} {
		scal = append(scal, f1sManyType{name: k, num: k != "bool", one: ones[k], io: k != "bool", uni: k != "bool"})
	}
	for n := 2; n <= 4; n++ {
		for _, k := range []string{"f32", "i32", "u32", "bool"} {
			t := fmt.Sprintf("vec%d<%s>", n, k)
			var cs []string
			for i := 0; i < n; i++ {
				cs = append(cs, ones[k]) // written out: the splat form is a separate (F1s/const) program
			}
			vecs = append(vecs, f1sManyType{name: t, num: k != "bool", one: t + "(" + strings.Join(cs, ", ") + ")", io: k != "bool", uni: k != "bool"})
		}
	}
	for c := 2; c <= 4; c++ {
		for r := 2; r <= 4; r++ {
			t := fmt.Sprintf("mat%dx%d<f32>", c, r)
			var cols []string
			for i := 0; i < c; i++ {
				var cs []string
				for j := 0; j < r; j++ {
					cs = append(cs, fmt.Sprintf("%d.0", i+j+1))
				}
				cols = append(cols, fmt.Sprintf("vec%d<f32>(%s)", r, strings.Join(cs, ", ")))
			}
			mats = append(mats, f1sManyType{name: t, num: true, one: t + "(" + strings.Join(cols, ", ") + ")", uni: r != 2})
		}
	}
	elems := []f1sManyType{scal[0], scal[2], vecs[0], vecs[9], scal[1], vecs[4], mats[0], vecs[2], mats[4]}
	for ln := 2; len(arrs) < 44; ln++ {
		for _, e := range elems {
			t := fmt.Sprintf("array<%s, %d>", e.name, ln)
			var xs []string
			for i := 0; i < ln; i++ {
				xs = append(xs, e.one)
			}
			arrs = append(arrs, f1sManyType{name: t, num: true, one: t + "(" + strings.Join(xs, ", ") + ")"})
		}
		// nested arrays of the previous length
		t := fmt.Sprintf("array<array<f32, %d>, %d>", ln, ln+1)
		var is []string
		for i := 0; i < ln; i++ {
			is = append(is, fmt.Sprintf("%d.5", i))
		}
		inner := fmt.Sprintf("array<f32, %d>(%s)", ln, strings.Join(is, ", "))
		var xs []string
		for i := 0; i <= ln; i++ {
			xs = append(xs, inner)
		}
		arrs = append(arrs, f1sManyType{name: t, num: true, one: t + "(" + strings.Join(xs, ", ") + ")"})
	}
	// structs over the numeric types built so far (two members, drawn round-robin)
	var pool []f1sManyType
	for _, l := range [][]f1sManyType{scal, vecs, mats, arrs} {
		for _, t := range l {
			if t.num {
				pool = append(pool, t)
			}
		}
	}
	for i := 0; i < 60; i++ {
		a, b := pool[(i*7)%len(pool)], pool[(i*11+3)%len(pool)]
		name := fmt.Sprintf("S%d", i)
		strs = append(strs, f1sManyType{name: name, decl: fmt.Sprintf("struct %s { a: %s, b: %s }\n", name, a.name, b.name), num: true, one: name + "(" + a.one + ", " + b.one + ")"})
	}
	// interleave the categories so that every prefix holds every kind of type
	var out []f1sManyType
	lists := [][]f1sManyType{scal, vecs, mats, arrs, strs}
	for i := 0; ; i++ {
		more := false
		for _, l := range lists {
			if i < len(l) {
				out = append(out, l[i])
				more = true
			}
		}
		if !more {
			break
		}
	}
	return out
}

type F1sManyProgram struct {
	Sig string
	Src string
}

// f1sManySrc builds the module for the first n types. order: "fwd" (declarations and calls in
// index order), "rev" (functions declared and called in reverse order), "fnfirst" (all functions of
// one kind before the next kind, so that the function types are requested kind by kind).
func f1sManySrc(n int, order string) string {
	ts := f1sManyTypes()[:n]
	var sb strings.Builder
	for _, t := range ts {
		sb.WriteString(t.decl)
	}
	sb.WriteString("var<private> sink: u32;\nvar<private> si: i32;\nvar<private> sf: f32;\nvar<private> su2: vec2<u32>;\nvar<private> si2: vec2<i32>;\nvar<private> sf2: vec2<f32>;\nvar<private> su3: vec3<u32>;\nvar<private> si4: vec4<i32>;\n")
	sb.WriteString("@group(0) @binding(0) var<storage, read_write> out: array<u32, 4>;\n")
	for i, t := range ts {
		fmt.Fprintf(&sb, "var<private> g%d: %s;\n", i, t.name)
	}
	for i, t := range ts {
		if i%3 == 0 {
			fmt.Fprintf(&sb, "var<workgroup> w%d: %s;\n", i, t.name)
		}
	}
	for i, t := range ts {
		if i%4 == 1 {
			fmt.Fprintf(&sb, "const k%d: %s = %s;\n", i, t.name, t.one)
		}
	}
	// one variable per host-shareable type in the storage address space, one per eligible type in the uniform
	// address space (pointer types of every storage class over the same pointee ids)
	for i, t := range ts {
		if t.num && i%2 == 0 {
			fmt.Fprintf(&sb, "@group(1) @binding(%d) var<storage, read_write> sb%d: %s;\n", i, i, t.name)
		}
		if t.uni {
			fmt.Fprintf(&sb, "@group(2) @binding(%d) var<uniform> ub%d: %s;\n", i, i, t.name)
		}
	}
	band := func(i int) []int {
		var js []int
		for _, d := range []int{1, 2, 5} { // distinct modulo every n >= 6
			js = append(js, (i+d)%n)
		}
		return js
	}
	type fn struct{ kind, decl, call string }
	var fns []fn
	for i, t := range ts {
		fns = append(fns, fn{"p", fmt.Sprintf("fn p%d(x: %s) { sink += %du; }\n", i, t.name, i+1), fmt.Sprintf("  p%d(g%d);\n", i, i)})
		fns = append(fns, fn{"r", fmt.Sprintf("fn r%d() -> %s { sink += 1u; return %s; }\n", i, t.name, t.one), fmt.Sprintf("  g%d = r%d();\n", i, i)})
		for _, j := range band(i) {
			fns = append(fns, fn{"pr", fmt.Sprintf("fn pr%d_%d(x: %s) -> %s { sink += 2u; return g%d; }\n", i, j, t.name, ts[j].name, j), fmt.Sprintf("  g%d = pr%d_%d(g%d);\n", j, i, j, i)})
		}
		j := (i + 1) % n
		fns = append(fns, fn{"p2", fmt.Sprintf("fn p2_%d(x: %s, y: %s) { sink += 3u; }\n", i, t.name, ts[j].name), fmt.Sprintf("  p2_%d(g%d, g%d);\n", i, i, j)})
		fns = append(fns, fn{"qf", fmt.Sprintf("fn qf%d(p: ptr<function, %s>) { *p = g%d; }\n", i, t.name, i), fmt.Sprintf("  var l%d: %s;\n  qf%d(&l%d);\n  g%d = l%d;\n", i, t.name, i, i, i, i)})
		fns = append(fns, fn{"qp", fmt.Sprintf("fn qp%d(p: ptr<private, %s>) -> %s { return *p; }\n", i, t.name, t.name), fmt.Sprintf("  g%d = qp%d(&g%d);\n", i, i, i)})
		if i%3 == 0 {
			fns = append(fns, fn{"w", "", fmt.Sprintf("  w%d = g%d;\n  g%d = w%d;\n", i, i, i, i)})
		}
		if i%4 == 1 {
			fns = append(fns, fn{"k", "", fmt.Sprintf("  g%d = k%d;\n", i, i)})
		}
		if t.num && i%2 == 0 {
			fns = append(fns, fn{"sb", "", fmt.Sprintf("  sb%d = g%d;\n  g%d = sb%d;\n", i, i, i, i)})
		}
		if t.uni {
			fns = append(fns, fn{"ub", "", fmt.Sprintf("  g%d = ub%d;\n", i, i)})
		}
	}
	switch order {
	case "rev":
		for a, b := 0, len(fns)-1; a < b; a, b = a+1, b-1 {
			fns[a], fns[b] = fns[b], fns[a]
		}
	case "fnfirst":
		var byKind []fn
		for _, k := range []string{"pr", "r", "p", "p2", "qp", "qf", "w", "k", "ub", "sb"} {
			for _, f := range fns {
				if f.kind == k {
					byKind = append(byKind, f)
				}
			}
		}
		fns = byKind
	}
	for _, f := range fns {
		sb.WriteString(f.decl)
	}
	sb.WriteString("@compute @workgroup_size(1)\nfn main() {\n")
	for _, f := range fns {
		sb.WriteString(f.call)
	}
	// scalar and composite constants of equal values / equal words in different types (constant tables)
	for i := 0; i < n; i++ {
		v := i*3 + 1
		fmt.Fprintf(&sb, "  sink += %du;\n  si += %d;\n  sf += %d.0;\n", v, v, v)
		fmt.Fprintf(&sb, "  su2 += vec2<u32>(%du, %du);\n  si2 += vec2<i32>(%d, %d);\n  sf2 += vec2<f32>(%d.0, %d.0);\n", v, v+1, v, v+1, v, v+1)
		fmt.Fprintf(&sb, "  su3 += vec3<u32>(%du, %du, %du);\n  si4 += vec4<i32>(%d, %d, %d, %d);\n", v, v+1, v+2, v, v+1, v+2, v+3)
	}
	for _, bits := range []uint32{0x3f800000, 0x40000000, 0x40400000, 0x40800000} { // the words of 1.0, 2.0, 3.0, 4.0 as integers
		fmt.Fprintf(&sb, "  sink += %du;\n  si += %d;\n", bits, bits)
	}
	sb.WriteString("  out[0] = sink + u32(si) + u32(sf) + su2.x + u32(si2.y) + u32(sf2.x) + su3.z + u32(si4.w);\n}\n")
	// a vertex and a fragment entry point whose @location inputs / outputs run over every numeric scalar and
	// vector type among the first n (Input and Output pointer types over the same pointee ids)
	var ins, mem, body, fin, fsum []string
	loc := 0
	for _, t := range ts {
		if !t.io || loc >= 12 {
			continue
		}
		flat := ""
		if !strings.Contains(t.name, "f32") {
			flat = " @interpolate(flat)"
		}
		ins = append(ins, fmt.Sprintf("@location(%d) a%d: %s", loc, loc, t.name))
		mem = append(mem, fmt.Sprintf("@location(%d)%s m%d: %s", loc, flat, loc, t.name))
		body = append(body, fmt.Sprintf("  o.m%d = a%d;\n", loc, loc))
		fin = append(fin, fmt.Sprintf("@location(%d)%s a%d: %s", loc, flat, loc, t.name))
		k, nn := f1sScalarOf(t.name)
		x := fmt.Sprintf("a%d", loc)
		if nn > 1 {
			x += ".x"
		}
		if k != "f32" {
			x = "f32(" + x + ")"
		}
		fsum = append(fsum, x)
		loc++
	}
	fmt.Fprintf(&sb, "struct VOut { @builtin(position) pos: vec4<f32>, %s }\n@vertex\nfn vs(%s) -> VOut {\n  var o: VOut;\n  o.pos = vec4<f32>(0.0, 0.0, 0.0, 1.0);\n%s  return o;\n}\n", strings.Join(mem, ", "), strings.Join(ins, ", "), strings.Join(body, ""))
	fmt.Fprintf(&sb, "@fragment\nfn fs(%s) -> @location(0) vec4<f32> {\n  return vec4<f32>(%s);\n}\n", strings.Join(fin, ", "), strings.Join(fsum, " + "))
	return sb.String()
}

var F1sManySizes = []int{8, 24, 40, 110}

func F1sManyPrograms() []*F1sManyProgram {
	var out []*F1sManyProgram
	for _, n := range F1sManySizes {
		for _, order := range []string{"fwd", "rev", "fnfirst"} {
			out = append(out, &F1sManyProgram{Sig: fmt.Sprintf("F1sMany/n=%d/%s", n, order), Src: f1sManySrc(n, order)})
		}
	}
	return out
}

func F1sMany() *Family {
	ps := F1sManyPrograms()
	return &Family{Name: "F1sMany", Count: len(ps), At: func(i int) *Case {
		return &Case{Family: "F1sMany", Index: i, Sig: ps[i].Sig, Mod: &Module{Raw: ps[i].Src}, NoExec: true}
	}}
}

// F1sImages: one module that declares every sampled, depth and storage texture type and uses each of
// them (size query; sampling where the type allows it), so that the image / sampled-image / pointer
// type tables hold all of them at once.
func F1sImages() *F1sManyProgram {
	var sb, body strings.Builder
	var texs []f1sTex
	for _, ch := range []string{"f32", "i32", "u32"} {
		texs = append(texs, f1sSampledTex(ch)...)
	}
	texs = append(texs, f1sDepthTex()...)
	for i, f := range F1sFormats {
		acc := []string{"write", "read", "read_write"}[i%3]
		texs = append(texs, f1sStorageTex(f[0], f[1], acc)...)
	}
	sb.WriteString("@group(0) @binding(0) var s: sampler;\n@group(0) @binding(1) var sc: sampler_comparison;\n")
	body.WriteString("  var acc = vec4<f32>(0.0);\n  var dim = 0u;\n")
	for i, t := range texs {
		fmt.Fprintf(&sb, "@group(1) @binding(%d) var t%d: %s;\n", i, i, t.ty)
		switch t.dim {
		case 1:
			fmt.Fprintf(&body, "  dim += textureDimensions(t%d);\n", i)
		default:
			fmt.Fprintf(&body, "  dim += textureDimensions(t%d).x;\n", i)
		}
		co := map[int]string{1: "uv.x", 2: "uv", 3: "uv.xyx"}[t.dim]
		ai := ""
		if t.arr {
			ai = ", 1"
		}
		switch {
		case t.storage || t.ms:
		case t.depth:
			fmt.Fprintf(&body, "  acc.x += textureSample(t%d, s, %s%s);\n  acc.y += textureSampleCompare(t%d, sc, %s%s, 0.5);\n", i, co, ai, i, co, ai)
		case t.ch == "f32":
			fmt.Fprintf(&body, "  acc += textureSample(t%d, s, %s%s);\n", i, co, ai)
		}
	}
	sb.WriteString("@fragment\nfn main(@location(0) uv: vec2<f32>) -> @location(0) vec4<f32> {\n")
	sb.WriteString(body.String())
	sb.WriteString("  return acc + vec4<f32>(f32(dim));\n}\n")
	return &F1sManyProgram{Sig: "F1sMany/images", Src: sb.String()}
}
