package wgen

import (
	"fmt"
	"math"
	"strings"

	"verif/internal/xrt"
)

// F15: hostile-data programs for C15 — hardened operators on hostile operands, every dynamic
// access form with every representative of the index partition, and reads of variables that have
// no initialiser.

// ---------------------------------------------------------------- (a) hardened operators

var hostileI32 = []uint32{0, 1, 0xFFFFFFFF, 0x80000000, 0x7FFFFFFF, 7, 0xFFFFFFF9}
var hostileU32 = []uint32{0, 1, 0xFFFFFFFF, 0x80000000, 0x7FFFFFFF, 7}

func hostileF32() []uint32 {
	return []uint32{0x7FC00000, 0x7F800000, 0xFF800000, // NaN, +inf, -inf
		math.Float32bits(2147483648.0), math.Float32bits(-2147483904.0), math.Float32bits(4294967296.0), math.Float32bits(-1),
		math.Float32bits(1e30), math.Float32bits(-1e30), math.Float32bits(3e9), math.Float32bits(0.5), math.Float32bits(-0.5), math.Float32bits(2147483520.0)}
}

// F15Ops: the operators the property names, on hostile operand tuples, all shapes and sources.
func F15Ops() *Family {
	var specs []opSpec
	for _, k := range []SK{I32, U32} {
		al := hostileU32
		if k == I32 {
			al = hostileI32
		}
		for _, op := range []string{"/", "%"} {
			for _, sh := range shapes(k) {
				combos := [][2]*Type{{sh, sh}}
				if sh.K == TVec {
					combos = append(combos, [2]*Type{sh, Scalar(k)}, [2]*Type{Scalar(k), sh})
				}
				for _, c := range combos {
					s := opSpec{sig: fmt.Sprintf("bin/%s/%s/%s", op, c[0], c[1]), args: []*Type{c[0], c[1]}, ret: binTypeOf(op, c[0], c[1]), build: bin(op), compound: op, alpha: [][]uint32{al, al}}
					if c[0].K == TScalar && c[1].K == TVec {
						s.compound = ""
					}
					specs = append(specs, s)
				}
			}
		}
	}
	un := func(op string) func(xs []Expr) Expr {
		return func(xs []Expr) Expr { return &Un{Op: op, X: xs[0], Ty: xs[0].T()} }
	}
	for _, sh := range shapes(I32) {
		specs = append(specs, opSpec{sig: fmt.Sprintf("un/-/%s", sh), args: []*Type{sh}, ret: sh, build: un("-"), alpha: [][]uint32{hostileI32}})
		specs = append(specs, opSpec{sig: fmt.Sprintf("call/abs/%s", sh), args: []*Type{sh}, ret: sh, build: call("abs", sh), alpha: [][]uint32{hostileI32}})
	}
	for _, to := range []SK{I32, U32} {
		for w := 1; w <= 4; w++ {
			ft, tt := VecOrScalar(F32, w), VecOrScalar(to, w)
			specs = append(specs, opSpec{sig: fmt.Sprintf("conv/%s/%s", tt, ft), args: []*Type{ft}, ret: tt,
				build: func(xs []Expr) Expr { return &Cons{Ty: tt, Args: []Expr{xs[0]}} }, alpha: [][]uint32{hostileF32()}})
		}
	}
	type ent struct {
		s   int
		src string
	}
	var ents []ent
	for si, s := range specs {
		for _, src := range []string{"buf", "fn", "asg"} {
			if src == "asg" && (s.compound == "" || !s.args[0].Equal(s.ret)) {
				continue
			}
			ents = append(ents, ent{si, src})
		}
	}
	return &Family{Name: "F15ops", Count: len(ents), At: func(i int) *Case {
		c := buildF1(&specs[ents[i].s], ents[i].src)
		c.Sig = "F15ops/" + specs[ents[i].s].sig + "/" + ents[i].src
		c.Family, c.Index = "F15ops", i
		return c
	}}
}

// ---------------------------------------------------------------- (b) dynamic accesses

// IndexAlphabet returns the representatives of the index partition for an object of length n.
func IndexAlphabet(n int) []uint32 {
	return []uint32{0, uint32(n - 1), uint32(n), uint32(n + 1), 0x7FFFFFFF, 0x80000000, 0xFFFFFFFF}
}

type accForm struct {
	name  string
	n     int  // length of the indexed object
	write bool // the form writes through the index
	build func(b *accB) []Stmt
	twoIdx bool
}

type accB struct {
	i, j Expr // index expressions (typed u32 or i32)
	m    *Module
}

var accStruct = Struct("S",
	Member{Name: "a", T: Array(TU32, 4)},
	Member{Name: "v", T: Vec(U32, 4)},
	Member{Name: "m", T: Mat(3, 2)},
	Member{Name: "aa", T: Array(Array(TU32, 3), 2)},
	Member{Name: "at", T: Array(Atomic(U32), 3)},
	Member{Name: "tail", T: Array(TU32, 0)},
)
var accUniform = Struct("U", Member{Name: "a", T: Array(Vec(U32, 4), 4)}, Member{Name: "v", T: Vec(U32, 3)})

const accTailN = 3

func oAt(k int) Expr { return Idx(V("o", Array(TU32, 0)), LitU(uint32(k))) }
func bufF(name string) Expr { return Fld(V("buf", accStruct), name) }
func arr4(vals ...uint32) Expr {
	a := make([]Expr, len(vals))
	for i, v := range vals {
		a[i] = LitU(v)
	}
	return &Cons{Ty: Array(TU32, len(vals)), Args: a}
}
func setO(k int, e Expr) Stmt { return &Assign{LHS: oAt(k), Op: "=", RHS: e} }
func dumpArr(name string, t *Type, from int) []Stmt {
	var out []Stmt
	for k := 0; k < t.Len; k++ {
		out = append(out, setO(from+k, Idx(V(name, t), LitU(uint32(k)))))
	}
	return out
}

var accForms = []accForm{
	{name: "read/storage-array-member", n: 4, build: func(b *accB) []Stmt { return []Stmt{setO(0, Idx(bufF("a"), b.i))} }},
	{name: "read/storage-vector-component", n: 4, build: func(b *accB) []Stmt { return []Stmt{setO(0, Idx(bufF("v"), b.i))} }},
	{name: "read/storage-matrix-column", n: 3, build: func(b *accB) []Stmt {
		return []Stmt{setO(0, &Bitcast{Ty: TU32, X: Swizzle(Idx(bufF("m"), b.i), "y")})}
	}},
	{name: "read/storage-runtime-array", n: accTailN, build: func(b *accB) []Stmt { return []Stmt{setO(0, Idx(bufF("tail"), b.i))} }},
	{name: "read/storage-nested-outer", n: 2, build: func(b *accB) []Stmt { return []Stmt{setO(0, Idx(Idx(bufF("aa"), b.i), LitU(1)))} }},
	{name: "read/storage-nested-inner", n: 3, build: func(b *accB) []Stmt { return []Stmt{setO(0, Idx(Idx(bufF("aa"), LitU(1)), b.i))} }},
	{name: "read/uniform-array", n: 4, build: func(b *accB) []Stmt {
		return []Stmt{setO(0, Swizzle(Idx(Fld(V("ub", accUniform), "a"), b.i), "z"))}
	}},
	{name: "read/uniform-vector-component", n: 3, build: func(b *accB) []Stmt { return []Stmt{setO(0, Idx(Fld(V("ub", accUniform), "v"), b.i))} }},
	{name: "read/private-array", n: 4, build: func(b *accB) []Stmt {
		b.m.Globals = append(b.m.Globals, Global{Name: "pa", Space: "private", Ty: Array(TU32, 4)})
		return []Stmt{&Assign{LHS: V("pa", Array(TU32, 4)), Op: "=", RHS: arr4(11, 12, 13, 14)}, setO(0, Idx(V("pa", Array(TU32, 4)), b.i))}
	}},
	{name: "read/workgroup-array", n: 4, build: func(b *accB) []Stmt {
		b.m.Globals = append(b.m.Globals, Global{Name: "wa", Space: "workgroup", Ty: Array(TU32, 4)})
		return []Stmt{&Assign{LHS: V("wa", Array(TU32, 4)), Op: "=", RHS: arr4(21, 22, 23, 24)}, &Barrier{Kind: "workgroupBarrier"}, setO(0, Idx(V("wa", Array(TU32, 4)), b.i))}
	}},
	{name: "read/function-array", n: 4, build: func(b *accB) []Stmt {
		return []Stmt{&VarDecl{Kind: "var", Name: "la", Ty: Array(TU32, 4), Init: arr4(31, 32, 33, 34)}, setO(0, Idx(V("la", Array(TU32, 4)), b.i))}
	}},
	{name: "read/value-array", n: 4, build: func(b *accB) []Stmt {
		return []Stmt{&VarDecl{Kind: "let", Name: "va", Ty: Array(TU32, 4), Init: arr4(41, 42, 43, 44)}, setO(0, Idx(L("va", Array(TU32, 4)), b.i))}
	}},
	{name: "read/value-vector", n: 4, build: func(b *accB) []Stmt {
		vv := &Cons{Ty: Vec(U32, 4), Args: []Expr{LitU(51), LitU(52), LitU(53), Idx(bufF("a"), LitU(0))}}
		return []Stmt{&VarDecl{Kind: "let", Name: "vv", Ty: Vec(U32, 4), Init: vv}, setO(0, Idx(L("vv", Vec(U32, 4)), b.i))}
	}},
	{name: "read/function-vector", n: 3, build: func(b *accB) []Stmt {
		return []Stmt{&VarDecl{Kind: "var", Name: "lv", Ty: Vec(U32, 3), Init: &Cons{Ty: Vec(U32, 3), Args: []Expr{LitU(61), LitU(62), LitU(63)}}}, setO(0, Idx(V("lv", Vec(U32, 3)), b.i))}
	}},
	{name: "read/pointer-argument", n: 4, build: func(b *accB) []Stmt {
		at := Array(TU32, 4)
		pt := Ptr("function", at)
		b.m.Funcs = append(b.m.Funcs, &Func{Name: "rd", Params: []Param{{Name: "p", Ty: pt}, {Name: "k", Ty: b.i.T()}}, Ret: TU32,
			Body: []Stmt{&Return{X: Idx(&Deref{X: L("p", pt), Ty: at}, L("k", b.i.T()))}}})
		return []Stmt{&VarDecl{Kind: "var", Name: "la", Ty: at, Init: arr4(71, 72, 73, 74)},
			setO(0, &Call{Fn: "rd", Args: []Expr{&AddrOf{X: V("la", at), Ty: pt}, b.i}, Ty: TU32, User: true})}
	}},
	{name: "read/atomic-load", n: 3, build: func(b *accB) []Stmt {
		return []Stmt{setO(0, &Call{Fn: "atomicLoad", Args: []Expr{&AddrOf{X: Idx(bufF("at"), b.i), Ty: Ptr("storage", Atomic(U32))}}, Ty: TU32})}
	}},
	// ---- writes
	{name: "write/storage-array-member", n: 4, write: true, build: func(b *accB) []Stmt { return []Stmt{&Assign{LHS: Idx(bufF("a"), b.i), Op: "=", RHS: LitU(777)}} }},
	{name: "write/storage-vector-component", n: 4, write: true, build: func(b *accB) []Stmt { return []Stmt{&Assign{LHS: Idx(bufF("v"), b.i), Op: "=", RHS: LitU(777)}} }},
	{name: "write/storage-matrix-column", n: 3, write: true, build: func(b *accB) []Stmt {
		return []Stmt{&Assign{LHS: Idx(bufF("m"), b.i), Op: "=", RHS: &Cons{Ty: Vec(F32, 2), Args: []Expr{&Lit{Ty: TF32, Bits: math.Float32bits(7)}, &Lit{Ty: TF32, Bits: math.Float32bits(8)}}}}}
	}},
	{name: "write/storage-runtime-array", n: accTailN, write: true, build: func(b *accB) []Stmt { return []Stmt{&Assign{LHS: Idx(bufF("tail"), b.i), Op: "=", RHS: LitU(777)}} }},
	{name: "write/storage-nested-inner", n: 3, write: true, build: func(b *accB) []Stmt {
		return []Stmt{&Assign{LHS: Idx(Idx(bufF("aa"), LitU(0)), b.i), Op: "=", RHS: LitU(777)}}
	}},
	{name: "write/storage-compound", n: 4, write: true, build: func(b *accB) []Stmt { return []Stmt{&Assign{LHS: Idx(bufF("a"), b.i), Op: "+=", RHS: LitU(5)}} }},
	{name: "write/private-array", n: 4, write: true, build: func(b *accB) []Stmt {
		t := Array(TU32, 4)
		b.m.Globals = append(b.m.Globals, Global{Name: "pa", Space: "private", Ty: t})
		s := []Stmt{&Assign{LHS: V("pa", t), Op: "=", RHS: arr4(11, 12, 13, 14)}, &Assign{LHS: Idx(V("pa", t), b.i), Op: "=", RHS: LitU(777)}}
		return append(s, dumpArr("pa", t, 0)...)
	}},
	{name: "write/workgroup-array", n: 4, write: true, build: func(b *accB) []Stmt {
		t := Array(TU32, 4)
		b.m.Globals = append(b.m.Globals, Global{Name: "wa", Space: "workgroup", Ty: t})
		s := []Stmt{&Assign{LHS: V("wa", t), Op: "=", RHS: arr4(21, 22, 23, 24)}, &Assign{LHS: Idx(V("wa", t), b.i), Op: "=", RHS: LitU(777)}}
		return append(s, dumpArr("wa", t, 0)...)
	}},
	{name: "write/function-array", n: 4, write: true, build: func(b *accB) []Stmt {
		t := Array(TU32, 4)
		s := []Stmt{&VarDecl{Kind: "var", Name: "la", Ty: t, Init: arr4(31, 32, 33, 34)}, &Assign{LHS: Idx(V("la", t), b.i), Op: "=", RHS: LitU(777)}}
		return append(s, dumpArr("la", t, 0)...)
	}},
	{name: "write/function-vector", n: 3, write: true, build: func(b *accB) []Stmt {
		t := Vec(U32, 3)
		return []Stmt{&VarDecl{Kind: "var", Name: "lv", Ty: t, Init: &Cons{Ty: t, Args: []Expr{LitU(61), LitU(62), LitU(63)}}},
			&Assign{LHS: Idx(V("lv", t), b.i), Op: "=", RHS: LitU(777)}, setO(0, Swizzle(V("lv", t), "x")), setO(1, Swizzle(V("lv", t), "y")), setO(2, Swizzle(V("lv", t), "z"))}
	}},
	{name: "write/atomic-add", n: 3, write: true, build: func(b *accB) []Stmt {
		return []Stmt{setO(0, &Call{Fn: "atomicAdd", Args: []Expr{&AddrOf{X: Idx(bufF("at"), b.i), Ty: Ptr("storage", Atomic(U32))}, LitU(5)}, Ty: TU32})}
	}},
}

// BuildF15Access: one access form, one index value, index typed u32 or i32.
func BuildF15Access(f accForm, idx uint32, signed bool) *Case {
	m := &Module{Structs: []*Type{accStruct, accUniform}}
	idxT := Array(TU32, 0)
	m.Globals = append(m.Globals,
		Global{Name: "idx", Space: "storage", Ty: idxT, Group: 0, Binding: 0},
		Global{Name: "buf", Space: "storage", RW: true, Ty: accStruct, Group: 0, Binding: 1},
		Global{Name: "o", Space: "storage", RW: true, Ty: Array(TU32, 0), Group: 0, Binding: 2},
		Global{Name: "ub", Space: "uniform", Ty: accUniform, Group: 0, Binding: 3},
	)
	b := &accB{m: m}
	var pre []Stmt
	if signed {
		pre = append(pre, &VarDecl{Kind: "let", Name: "i", Ty: TI32, Init: &Bitcast{Ty: TI32, X: Idx(V("idx", idxT), LitU(0))}})
		b.i = L("i", TI32)
	} else {
		pre = append(pre, &VarDecl{Kind: "let", Name: "i", Ty: TU32, Init: Idx(V("idx", idxT), LitU(0))})
		b.i = L("i", TU32)
	}
	body := append(pre, f.build(b)...)
	m.Funcs = append(m.Funcs, &Func{Name: "main", Stage: "compute", WG: [3]int{1, 0, 0}, Body: body})
	ft := Fix(accStruct, accTailN)
	size := SizeOf(ft)
	buf := make([]byte, size)
	for w := 0; w*4 < size; w++ {
		PutU32(buf, w*4, 0x3F800000+uint32(w+1)*0x111)
	}
	ub := make([]byte, SizeOf(accUniform))
	for w := 0; w*4 < len(ub); w++ {
		PutU32(ub, w*4, 0x5000+uint32(w))
	}
	ib := make([]byte, 8)
	PutU32(ib, 0, idx)
	ob := make([]byte, 16)
	for i := range ob {
		ob[i] = 0xCD
	}
	k := func(n uint32) xrt.Binding { return xrt.Binding{Group: 0, Binding: n} }
	sg := "u32"
	if signed {
		sg = "i32"
	}
	return &Case{Sig: fmt.Sprintf("F15acc/%s/%s/idx=%#x", f.name, sg, idx), Mod: m,
		Bufs:     xrt.Buffers{k(0): ib, k(1): buf, k(2): ob, k(3): ub},
		Groups:   [3]uint32{1, 1, 1},
		BufTypes: map[xrt.Binding]*Type{k(0): Array(TU32, 2), k(1): ft, k(2): Array(TU32, 4), k(3): accUniform}}
}

// F15Access: every access form x every index representative x {u32, i32} index type.
func F15Access() *Family {
	type ent struct {
		f      int
		idx    uint32
		signed bool
	}
	var ents []ent
	for fi, f := range accForms {
		for _, ix := range IndexAlphabet(f.n) {
			ents = append(ents, ent{fi, ix, false}, ent{fi, ix, true})
		}
	}
	return &Family{Name: "F15acc", Count: len(ents), At: func(i int) *Case {
		e := ents[i]
		c := BuildF15Access(accForms[e.f], e.idx, e.signed)
		c.Family, c.Index = "F15acc", i
		return c
	}}
}

// F4Access: the same access forms with in-bounds indices only (u32 and i32 index types) — part of
// the ordinary semantic program space of C01/C03-C05.
func F4Access() *Family {
	type ent struct {
		f      int
		idx    uint32
		signed bool
	}
	var ents []ent
	for fi, f := range accForms {
		for ix := 0; ix < f.n; ix++ {
			ents = append(ents, ent{fi, uint32(ix), false}, ent{fi, uint32(ix), true})
		}
	}
	return &Family{Name: "F4acc", Count: len(ents), At: func(i int) *Case {
		e := ents[i]
		c := BuildF15Access(accForms[e.f], e.idx, e.signed)
		c.Sig = strings.Replace(c.Sig, "F15acc/", "F4acc/", 1)
		c.Family, c.Index = "F4acc", i
		return c
	}}
}

// ---------------------------------------------------------------- (c) zero initialisation

// F15Zero: variables without initialiser in function, private and workgroup space must read as zero.
func F15Zero() *Family {
	inner := Struct("Z", Member{Name: "a", T: TU32}, Member{Name: "v", T: Vec(F32, 3)}, Member{Name: "arr", T: Array(TI32, 2)})
	types := []*Type{TU32, TF32, Vec(I32, 3), Mat(2, 2), Array(TU32, 3), inner, Array(inner, 2)}
	spaces := []string{"function", "private", "workgroup", "workgroup-second"}
	type ent struct {
		t  int
		sp string
	}
	var ents []ent
	for ti := range types {
		for _, sp := range spaces {
			ents = append(ents, ent{ti, sp})
		}
	}
	return &Family{Name: "F15zero", Count: len(ents), At: func(i int) *Case {
		e := ents[i]
		t := types[e.t]
		m := &Module{}
		structsOf(t, map[string]bool{}, &m.Structs)
		m.Globals = append(m.Globals, Global{Name: "o", Space: "storage", RW: true, Ty: Array(TU32, 0), Group: 0, Binding: 0})
		var body []Stmt
		var ref Expr
		switch e.sp {
		case "function":
			body = append(body, &VarDecl{Kind: "var", Name: "x", Ty: t})
			ref = V("x", t)
		case "private":
			m.Globals = append(m.Globals, Global{Name: "x", Space: "private", Ty: t})
			ref = V("x", t)
		case "workgroup":
			m.Globals = append(m.Globals, Global{Name: "x", Space: "workgroup", Ty: t})
			ref = V("x", t)
		case "workgroup-second":
			m.Globals = append(m.Globals, Global{Name: "w0", Space: "workgroup", Ty: TU32}, Global{Name: "x", Space: "workgroup", Ty: t})
			body = append(body, &Assign{LHS: V("w0", TU32), Op: "=", RHS: LitU(9)})
			ref = V("x", t)
		}
		var reads []Expr
		leafPaths(ref, t, &reads)
		for k, r := range reads {
			var val Expr = r
			if r.T().S != U32 {
				val = &Bitcast{Ty: TU32, X: r}
			}
			body = append(body, setO(k, val))
		}
		m.Funcs = append(m.Funcs, &Func{Name: "main", Stage: "compute", WG: [3]int{1, 0, 0}, Body: body})
		ob := make([]byte, 4*len(reads))
		for i := range ob {
			ob[i] = 0xCD
		}
		k0 := xrt.Binding{Group: 0, Binding: 0}
		return &Case{Family: "F15zero", Index: i, Sig: fmt.Sprintf("F15zero/%s/%s", e.sp, t), Mod: m, Bufs: xrt.Buffers{k0: ob}, Groups: [3]uint32{1, 1, 1},
			BufTypes: map[xrt.Binding]*Type{k0: Array(TU32, len(reads))}}
	}}
}
