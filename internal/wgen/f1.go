package wgen

import (
	"fmt"
	"math"

	"verif/internal/xrt"
)

// F1: operator tables — one operator/builtin per program, every legal operand shape, several
// operand sources. Invocation j (dispatch of N workgroups of size 1) computes o[j] = OP(a[j], b[j], ...).

type opSpec struct {
	sig    string  // stable signature
	args   []*Type // operand value types
	ret    *Type
	build  func(xs []Expr) Expr
	alpha  [][]uint32 // per-argument scalar alphabet
	keep   func(s []uint32) bool // filter over one scalar tuple (one value per argument), nil = all
	approx bool
	compound string // non-empty: also valid as compound assignment operator
}

func bin(op string) func(xs []Expr) Expr {
	return func(xs []Expr) Expr { return &Bin{Op: op, L: xs[0], R: xs[1], Ty: binTypeOf(op, xs[0].T(), xs[1].T())} }
}

func binTypeOf(op string, l, r *Type) *Type {
	switch op {
	case "==", "!=", "<", "<=", ">", ">=":
		if l.K == TVec {
			return Vec(Bool, l.N)
		}
		return TBool
	case "&&", "||":
		return TBool
	case "<<", ">>":
		return l
	case "*":
		switch {
		case l.K == TMat && r.K == TMat:
			return Mat(r.C, l.N)
		case l.K == TMat && r.K == TVec:
			return Vec(F32, l.N)
		case l.K == TVec && r.K == TMat:
			return Vec(F32, r.C)
		}
	}
	if l.K == TScalar && r.K != TScalar {
		return r
	}
	return l
}

func call(name string, ret *Type) func(xs []Expr) Expr {
	return func(xs []Expr) Expr { return &Call{Fn: name, Args: append([]Expr(nil), xs...), Ty: ret} }
}

func alphaFor(t *Type) []uint32 { return Alpha(t.S) }

var f1Specs []opSpec

func addSpec(s opSpec) {
	if s.alpha == nil {
		for _, a := range s.args {
			s.alpha = append(s.alpha, alphaFor(a))
		}
	}
	f1Specs = append(f1Specs, s)
}

func intDivOK(k SK) func(s []uint32) bool {
	return func(s []uint32) bool {
		if s[1] == 0 {
			return false
		}
		if k == I32 && s[0] == 0x80000000 && s[1] == 0xFFFFFFFF {
			return false
		}
		return true
	}
}

func shapes(k SK) []*Type {
	return []*Type{Scalar(k), Vec(k, 2), Vec(k, 3), Vec(k, 4)}
}

func init() {
	// ---- arithmetic
	for _, k := range []SK{I32, U32, F32} {
		for _, op := range []string{"+", "-", "*", "/", "%"} {
			for _, sh := range shapes(k) {
				combos := [][2]*Type{{sh, sh}}
				if sh.K == TVec {
					combos = append(combos, [2]*Type{sh, Scalar(k)}, [2]*Type{Scalar(k), sh})
				}
				for _, c := range combos {
					s := opSpec{sig: fmt.Sprintf("bin/%s/%s/%s", op, c[0], c[1]), args: []*Type{c[0], c[1]}, ret: binTypeOf(op, c[0], c[1]), build: bin(op), compound: op}
					if c[0].K == TScalar && c[1].K == TVec {
						s.compound = ""
					}
					if k != F32 && (op == "/" || op == "%") {
						s.keep = intDivOK(k)
					}
					if k == F32 && (op == "/" || op == "%") {
						s.approx = true
						s.keep = func(s []uint32) bool { return s[1]&0x7FFFFFFF != 0 }
					}
					if k == F32 && op == "%" {
						// WGSL defines e1 % e2 as e1 - e2*trunc(e1/e2) evaluated in floating point: keep to
						// operands for which that formula is exact, so the oracle demands no more than WGSL.
						nice := fbits(0.5, -0.5, 1, -1, 1.5, -1.5, 2.5, -2.5, 7.5, -7.5, 3, 6, -6)
						s.alpha = [][]uint32{append([]uint32{0}, nice...), nice}
					}
					addSpec(s)
					if k != F32 && op == "%" {
						// second variant confined to what every target language defines (non-negative operands)
						nn := opSpec{sig: fmt.Sprintf("bin/%%nonneg/%s/%s", c[0], c[1]), args: s.args, ret: s.ret, build: s.build, compound: s.compound, keep: s.keep,
							alpha: [][]uint32{{0, 1, 2, 7, 31, 32, 33, 0x7FFFFFFF, 0x55555555}, {1, 2, 7, 31, 32, 33, 0x7FFFFFFF, 0x55555555}}}
						addSpec(nn)
					}
				}
			}
		}
	}
	// ---- bitwise
	for _, k := range []SK{I32, U32} {
		for _, op := range []string{"&", "|", "^"} {
			for _, sh := range shapes(k) {
				addSpec(opSpec{sig: fmt.Sprintf("bin/%s/%s/%s", op, sh, sh), args: []*Type{sh, sh}, ret: sh, build: bin(op), compound: op})
			}
		}
		for _, op := range []string{"<<", ">>"} {
			for _, sh := range shapes(k) {
				r := VecOrScalar(U32, sh.Width())
				addSpec(opSpec{sig: fmt.Sprintf("bin/%s/%s/%s", op, sh, r), args: []*Type{sh, r}, ret: sh, build: bin(op), compound: op,
					alpha: [][]uint32{Alpha(k), {0, 1, 5, 31, 32, 33, 63, 0xFFFFFFFF}}})
				// variant with in-range counts only (defined in every target language)
				addSpec(opSpec{sig: fmt.Sprintf("bin/%sinrange/%s/%s", op, sh, r), args: []*Type{sh, r}, ret: sh, build: bin(op), compound: op,
					alpha: [][]uint32{Alpha(k), {0, 1, 5, 16, 31}}})
			}
		}
	}
	for _, op := range []string{"&", "|"} {
		for _, sh := range shapes(Bool) {
			addSpec(opSpec{sig: fmt.Sprintf("bin/%s/%s/%s", op, sh, sh), args: []*Type{sh, sh}, ret: sh, build: bin(op)})
		}
	}
	for _, op := range []string{"&&", "||"} {
		addSpec(opSpec{sig: fmt.Sprintf("bin/%s/bool/bool", op), args: []*Type{TBool, TBool}, ret: TBool, build: bin(op)})
	}
	// ---- comparisons
	for _, k := range []SK{Bool, I32, U32, F32} {
		ops := []string{"==", "!=", "<", "<=", ">", ">="}
		if k == Bool {
			ops = ops[:2]
		}
		for _, op := range ops {
			for _, sh := range shapes(k) {
				addSpec(opSpec{sig: fmt.Sprintf("bin/%s/%s/%s", op, sh, sh), args: []*Type{sh, sh}, ret: binTypeOf(op, sh, sh), build: bin(op)})
			}
		}
	}
	// ---- unary
	un := func(op string) func(xs []Expr) Expr {
		return func(xs []Expr) Expr { return &Un{Op: op, X: xs[0], Ty: xs[0].T()} }
	}
	for _, sh := range append(shapes(I32), shapes(F32)...) {
		s := opSpec{sig: fmt.Sprintf("un/-/%s", sh), args: []*Type{sh}, ret: sh, build: un("-")}
		if sh.S == F32 {
			s.alpha = [][]uint32{AlphaF32Bits}
		}
		addSpec(s)
	}
	for _, sh := range shapes(Bool) {
		addSpec(opSpec{sig: fmt.Sprintf("un/!/%s", sh), args: []*Type{sh}, ret: sh, build: un("!")})
	}
	for _, sh := range append(shapes(I32), shapes(U32)...) {
		addSpec(opSpec{sig: fmt.Sprintf("un/~/%s", sh), args: []*Type{sh}, ret: sh, build: un("~")})
	}
	// ---- conversions T(x) and bitcast
	for _, from := range []SK{Bool, I32, U32, F32} {
		for _, to := range []SK{Bool, I32, U32, F32} {
			for w := 1; w <= 4; w++ {
				ft, tt := VecOrScalar(from, w), VecOrScalar(to, w)
				s := opSpec{sig: fmt.Sprintf("conv/%s/%s", tt, ft), args: []*Type{ft}, ret: tt,
					build: func(xs []Expr) Expr { return &Cons{Ty: tt, Args: []Expr{xs[0]}} }}
				if from == F32 && (to == I32 || to == U32) {
					s.alpha = [][]uint32{AlphaF32Conv}
					if to == I32 {
						s.keep = func(s []uint32) bool {
							v := math.Float32frombits(s[0])
							return v >= -2147483648 && v <= 2147483520
						}
					} else {
						s.keep = func(s []uint32) bool {
							v := math.Float32frombits(s[0])
							return v > -1 && v <= 4294967040
						}
					}
				}
				if (from == I32 || from == U32) && to == F32 {
					// inexact int->float may round either way: keep exactly representable values
					s.keep = func(s []uint32) bool {
						if from == I32 {
							v := int64(int32(s[0]))
							return int64(float32(v)) == v
						}
						v := uint64(s[0])
						return float32(v) < 4294967296.0 && uint64(float32(v)) == v
					}
				}
				addSpec(s)
			}
		}
	}
	for _, from := range []SK{I32, U32, F32} {
		for _, to := range []SK{I32, U32, F32} {
			for w := 1; w <= 4; w++ {
				ft, tt := VecOrScalar(from, w), VecOrScalar(to, w)
				s := opSpec{sig: fmt.Sprintf("bitcast/%s/%s", tt, ft), args: []*Type{ft}, ret: tt,
					build: func(xs []Expr) Expr { return &Bitcast{Ty: tt, X: xs[0]} }}
				if from == F32 {
					s.alpha = [][]uint32{AlphaF32Bits}
				}
				if to == F32 && from != F32 {
					// avoid NaN / Inf bit patterns as results
					s.keep = func(s []uint32) bool { return s[0]&0x7F800000 != 0x7F800000 }
				}
				addSpec(s)
			}
		}
	}
	// ---- select
	for _, k := range []SK{Bool, I32, U32, F32} {
		for w := 1; w <= 4; w++ {
			vt := VecOrScalar(k, w)
			conds := []*Type{TBool}
			if w > 1 {
				conds = append(conds, Vec(Bool, w))
			}
			for _, ct := range conds {
				s := opSpec{sig: fmt.Sprintf("call/select/%s/%s", vt, ct), args: []*Type{vt, vt, ct}, ret: vt, build: call("select", vt)}
				if k == F32 {
					s.alpha = [][]uint32{AlphaF32Bits[:8], AlphaF32Bits[10:], AlphaBool}
				} else if k != Bool {
					s.alpha = [][]uint32{Alpha(k)[:6], Alpha(k)[6:], AlphaBool}
				}
				addSpec(s)
			}
		}
	}
	// ---- component-wise builtins
	type bf struct {
		name   string
		kinds  []SK
		nargs  int
		approx bool
		alpha  func(k SK) [][]uint32
		keep   func(k SK) func(s []uint32) bool
	}
	rep := func(a []uint32, n int) [][]uint32 {
		out := make([][]uint32, n)
		for i := range out {
			out[i] = a
		}
		return out
	}
	fAlpha := func(a []uint32, n int) func(SK) [][]uint32 { return func(SK) [][]uint32 { return rep(a, n) } }
	small := func(k SK) []uint32 {
		switch k {
		case I32:
			return []uint32{0, 1, 0xFFFFFFFF, 7, 0xFFFFFFF9, 0x7FFFFFFF, 0x80000000}
		case U32:
			return []uint32{0, 1, 7, 0x7FFFFFFF, 0x80000000, 0xFFFFFFFF}
		}
		return fbits(0, 0.5, -0.5, 1, -1.5, 2.5, -7.5, 100.25)
	}
	bfs := []bf{
		{name: "abs", kinds: []SK{I32, U32, F32}, nargs: 1},
		{name: "min", kinds: []SK{I32, U32, F32}, nargs: 2},
		{name: "max", kinds: []SK{I32, U32, F32}, nargs: 2},
		{name: "clamp", kinds: []SK{I32, U32, F32}, nargs: 3, alpha: func(k SK) [][]uint32 { return rep(small(k), 3) },
			keep: func(k SK) func(s []uint32) bool {
				return func(s []uint32) bool { // low <= high required for a defined result
					switch k {
					case I32:
						return int32(s[1]) <= int32(s[2])
					case U32:
						return s[1] <= s[2]
					}
					return math.Float32frombits(s[1]) <= math.Float32frombits(s[2])
				}
			}},
		{name: "saturate", kinds: []SK{F32}, nargs: 1},
		{name: "sign", kinds: []SK{I32, F32}, nargs: 1, keep: func(k SK) func(s []uint32) bool {
			return func(s []uint32) bool { return k != F32 || s[0] != 0x80000000 } // sign(-0.0): sign of zero result is not pinned
		}},
		{name: "floor", kinds: []SK{F32}, nargs: 1},
		{name: "ceil", kinds: []SK{F32}, nargs: 1},
		{name: "trunc", kinds: []SK{F32}, nargs: 1},
		{name: "round", kinds: []SK{F32}, nargs: 1},
		{name: "fract", kinds: []SK{F32}, nargs: 1},
		{name: "sqrt", kinds: []SK{F32}, nargs: 1, approx: true, alpha: fAlpha(AlphaF32Pos, 1)},
		{name: "inverseSqrt", kinds: []SK{F32}, nargs: 1, approx: true, alpha: fAlpha(AlphaF32Pos, 1)},
		{name: "sin", kinds: []SK{F32}, nargs: 1, approx: true, alpha: fAlpha(fbits(0, 0.5, -0.5, 1, -1, 1.5, 2.5, -2.5, 3), 1)},
		{name: "cos", kinds: []SK{F32}, nargs: 1, approx: true, alpha: fAlpha(fbits(0, 0.5, -0.5, 1, -1, 1.5, 2.5, -2.5, 3), 1)},
		{name: "tan", kinds: []SK{F32}, nargs: 1, approx: true, alpha: fAlpha(fbits(0, 0.5, -0.5, 1, -1, 0.25), 1)},
		{name: "asin", kinds: []SK{F32}, nargs: 1, approx: true, alpha: fAlpha(AlphaF32Unit, 1)},
		{name: "acos", kinds: []SK{F32}, nargs: 1, approx: true, alpha: fAlpha(AlphaF32Unit, 1)},
		{name: "atan", kinds: []SK{F32}, nargs: 1, approx: true, alpha: fAlpha(fbits(0, 0.5, -0.5, 1, -1, 2.5, -7.5, 100.25), 1)},
		{name: "sinh", kinds: []SK{F32}, nargs: 1, approx: true, alpha: fAlpha(fbits(0, 0.5, -0.5, 1, -1, 2.5), 1)},
		{name: "cosh", kinds: []SK{F32}, nargs: 1, approx: true, alpha: fAlpha(fbits(0, 0.5, -0.5, 1, -1, 2.5), 1)},
		{name: "tanh", kinds: []SK{F32}, nargs: 1, approx: true, alpha: fAlpha(fbits(0, 0.5, -0.5, 1, -1, 2.5), 1)},
		{name: "asinh", kinds: []SK{F32}, nargs: 1, approx: true, alpha: fAlpha(fbits(0, 0.5, -0.5, 1, -1, 2.5, 7.5), 1)},
		{name: "acosh", kinds: []SK{F32}, nargs: 1, approx: true, alpha: fAlpha(fbits(1.5, 2, 2.5, 7.5, 100.25), 1)},
		{name: "atanh", kinds: []SK{F32}, nargs: 1, approx: true, alpha: fAlpha(AlphaF32Unit, 1)},
		{name: "exp", kinds: []SK{F32}, nargs: 1, approx: true, alpha: fAlpha(fbits(0, 0.5, -0.5, 1, -1, 2.5, -7.5), 1)},
		{name: "exp2", kinds: []SK{F32}, nargs: 1, approx: true, alpha: fAlpha(fbits(0, 0.5, -0.5, 1, -1, 2.5, -7.5, 3), 1)},
		{name: "log", kinds: []SK{F32}, nargs: 1, approx: true, alpha: fAlpha(AlphaF32Pos, 1)},
		{name: "log2", kinds: []SK{F32}, nargs: 1, approx: true, alpha: fAlpha(AlphaF32Pos, 1)},
		{name: "degrees", kinds: []SK{F32}, nargs: 1, approx: true},
		{name: "radians", kinds: []SK{F32}, nargs: 1, approx: true},
		{name: "atan2", kinds: []SK{F32}, nargs: 2, approx: true, alpha: fAlpha(fbits(0.5, -0.5, 1, -1, 2.5, -7.5), 2)},
		{name: "pow", kinds: []SK{F32}, nargs: 2, approx: true, alpha: func(SK) [][]uint32 { return [][]uint32{AlphaF32Pos, fbits(0, 0.5, 1, 2, -1, 2.5)} }},
		{name: "step", kinds: []SK{F32}, nargs: 2},
		{name: "fma", kinds: []SK{F32}, nargs: 3, approx: true, alpha: func(k SK) [][]uint32 { return rep(small(k), 3) }},
		{name: "mix", kinds: []SK{F32}, nargs: 3, approx: true, alpha: func(k SK) [][]uint32 {
			return [][]uint32{small(k), small(k), fbits(0, 0.25, 0.5, 1)}
		}},
		{name: "smoothstep", kinds: []SK{F32}, nargs: 3, approx: true, alpha: func(k SK) [][]uint32 {
			return [][]uint32{fbits(0, 0.5, -1), fbits(1, 2.5, 7.5), small(k)}
		}},
		{name: "countOneBits", kinds: []SK{I32, U32}, nargs: 1},
		{name: "countLeadingZeros", kinds: []SK{I32, U32}, nargs: 1},
		{name: "countTrailingZeros", kinds: []SK{I32, U32}, nargs: 1},
		{name: "reverseBits", kinds: []SK{I32, U32}, nargs: 1},
		{name: "firstLeadingBit", kinds: []SK{I32, U32}, nargs: 1},
		{name: "firstTrailingBit", kinds: []SK{I32, U32}, nargs: 1},
	}
	for _, b := range bfs {
		for _, k := range b.kinds {
			for w := 1; w <= 4; w++ {
				t := VecOrScalar(k, w)
				args := make([]*Type, b.nargs)
				for i := range args {
					args[i] = t
				}
				s := opSpec{sig: fmt.Sprintf("call/%s/%s", b.name, t), args: args, ret: t, build: call(b.name, t), approx: b.approx}
				if b.alpha != nil {
					s.alpha = b.alpha(k)
				}
				if b.keep != nil {
					s.keep = b.keep(k)
				}
				addSpec(s)
			}
		}
	}
	// ---- bit-field builtins (scalar offset/count)
	oc := []uint32{0, 1, 5, 31, 32, 33, 0xFFFFFFFF}
	for _, k := range []SK{I32, U32} {
		for w := 1; w <= 4; w++ {
			t := VecOrScalar(k, w)
			addSpec(opSpec{sig: fmt.Sprintf("call/extractBits/%s", t), args: []*Type{t, TU32, TU32}, ret: t, build: call("extractBits", t),
				alpha: [][]uint32{small(k), oc, oc}})
			addSpec(opSpec{sig: fmt.Sprintf("call/insertBits/%s", t), args: []*Type{t, t, TU32, TU32}, ret: t, build: call("insertBits", t),
				alpha: [][]uint32{{0, 0xFFFFFFFF, 0x55555555}, {0, 0xFFFFFFFF, 0xAAAAAAAA, 1}, oc, oc}})
		}
	}
	// ---- geometric / reductions
	for w := 2; w <= 4; w++ {
		vt := Vec(F32, w)
		sm := small(F32)
		addSpec(opSpec{sig: fmt.Sprintf("call/dot/%s", vt), args: []*Type{vt, vt}, ret: TF32, build: call("dot", TF32), approx: true, alpha: [][]uint32{sm, sm}})
		addSpec(opSpec{sig: fmt.Sprintf("call/length/%s", vt), args: []*Type{vt}, ret: TF32, build: call("length", TF32), approx: true, alpha: [][]uint32{sm}})
		addSpec(opSpec{sig: fmt.Sprintf("call/distance/%s", vt), args: []*Type{vt, vt}, ret: TF32, build: call("distance", TF32), approx: true, alpha: [][]uint32{sm, sm}})
		addSpec(opSpec{sig: fmt.Sprintf("call/normalize/%s", vt), args: []*Type{vt}, ret: vt, build: call("normalize", vt), approx: true, alpha: [][]uint32{fbits(0.5, -0.5, 1, -1.5, 2.5, -7.5)}})
		addSpec(opSpec{sig: fmt.Sprintf("call/reflect/%s", vt), args: []*Type{vt, vt}, ret: vt, build: call("reflect", vt), approx: true, alpha: [][]uint32{sm, sm}})
		addSpec(opSpec{sig: fmt.Sprintf("call/faceForward/%s", vt), args: []*Type{vt, vt, vt}, ret: vt, build: call("faceForward", vt), alpha: [][]uint32{fbits(0.5, -1.5, 2.5), fbits(1, -1, 2.5, 0.5), fbits(1, -1, -7.5)},
			approx: true})
		for _, k := range []SK{I32, U32} {
			it := Vec(k, w)
			addSpec(opSpec{sig: fmt.Sprintf("call/dot/%s", it), args: []*Type{it, it}, ret: Scalar(k), build: call("dot", Scalar(k)), alpha: [][]uint32{small(k), small(k)}})
		}
		for _, k := range []SK{Bool} {
			bt := Vec(k, w)
			addSpec(opSpec{sig: fmt.Sprintf("call/all/%s", bt), args: []*Type{bt}, ret: TBool, build: call("all", TBool)})
			addSpec(opSpec{sig: fmt.Sprintf("call/any/%s", bt), args: []*Type{bt}, ret: TBool, build: call("any", TBool)})
		}
	}
	addSpec(opSpec{sig: "call/cross/vec3<f32>", args: []*Type{Vec(F32, 3), Vec(F32, 3)}, ret: Vec(F32, 3), build: call("cross", Vec(F32, 3)), approx: true, alpha: [][]uint32{small(F32), small(F32)}})
	addSpec(opSpec{sig: "call/dot4U8Packed", args: []*Type{TU32, TU32}, ret: TU32, build: call("dot4U8Packed", TU32), alpha: [][]uint32{{0, 1, 0xFF, 0x01020304, 0xFFFFFFFF, 0x80FF7F01}, {0, 1, 0xFF, 0x04030201, 0xFFFFFFFF, 0x7F80FF02}}})
	addSpec(opSpec{sig: "call/dot4I8Packed", args: []*Type{TU32, TU32}, ret: TI32, build: call("dot4I8Packed", TI32), alpha: [][]uint32{{0, 1, 0xFF, 0x01020304, 0xFFFFFFFF, 0x80FF7F01}, {0, 1, 0xFF, 0x04030201, 0xFFFFFFFF, 0x7F80FF02}}})
	addSpec(opSpec{sig: "call/pack4xU8", args: []*Type{Vec(U32, 4)}, ret: TU32, build: call("pack4xU8", TU32), alpha: [][]uint32{{0, 1, 0xFF, 0x100, 0xFFFFFFFF, 0x7F}}})
	addSpec(opSpec{sig: "call/pack4xI8", args: []*Type{Vec(I32, 4)}, ret: TU32, build: call("pack4xI8", TU32), alpha: [][]uint32{{0, 1, 0xFF, 0x100, 0xFFFFFFFF, 0x7F, 0xFFFFFF80}}})
	addSpec(opSpec{sig: "call/pack4xU8Clamp", args: []*Type{Vec(U32, 4)}, ret: TU32, build: call("pack4xU8Clamp", TU32), alpha: [][]uint32{{0, 1, 0xFF, 0x100, 0xFFFFFFFF, 0x7F}}})
	addSpec(opSpec{sig: "call/pack4xI8Clamp", args: []*Type{Vec(I32, 4)}, ret: TU32, build: call("pack4xI8Clamp", TU32), alpha: [][]uint32{{0, 1, 0xFF, 0x100, 0xFFFFFFFF, 0x7F, 0xFFFFFF80, 0xFFFFFF00}}})
	addSpec(opSpec{sig: "call/unpack4xU8", args: []*Type{TU32}, ret: Vec(U32, 4), build: call("unpack4xU8", Vec(U32, 4)), alpha: [][]uint32{{0, 1, 0xFF, 0x01020304, 0xFFFFFFFF, 0x80FF7F01}}})
	addSpec(opSpec{sig: "call/unpack4xI8", args: []*Type{TU32}, ret: Vec(I32, 4), build: call("unpack4xI8", Vec(I32, 4)), alpha: [][]uint32{{0, 1, 0xFF, 0x01020304, 0xFFFFFFFF, 0x80FF7F01}}})
	// ---- matrices
	mAlpha := fbits(0, 0.5, -0.5, 1, -1.5, 2.5, 3, -7.5)
	for c := 2; c <= 4; c++ {
		for r := 2; r <= 4; r++ {
			mt := Mat(c, r)
			addSpec(opSpec{sig: fmt.Sprintf("bin/+/%s/%s", mt, mt), args: []*Type{mt, mt}, ret: mt, build: bin("+"), alpha: [][]uint32{mAlpha, mAlpha}, compound: "+"})
			addSpec(opSpec{sig: fmt.Sprintf("bin/-/%s/%s", mt, mt), args: []*Type{mt, mt}, ret: mt, build: bin("-"), alpha: [][]uint32{mAlpha, mAlpha}, compound: "-"})
			addSpec(opSpec{sig: fmt.Sprintf("bin/*/%s/f32", mt), args: []*Type{mt, TF32}, ret: mt, build: bin("*"), alpha: [][]uint32{mAlpha, mAlpha}, compound: "*"})
			addSpec(opSpec{sig: fmt.Sprintf("bin/*/f32/%s", mt), args: []*Type{TF32, mt}, ret: mt, build: bin("*"), alpha: [][]uint32{mAlpha, mAlpha}})
			addSpec(opSpec{sig: fmt.Sprintf("bin/*/%s/%s", mt, Vec(F32, c)), args: []*Type{mt, Vec(F32, c)}, ret: Vec(F32, r), build: bin("*"), alpha: [][]uint32{mAlpha, mAlpha}, approx: true})
			addSpec(opSpec{sig: fmt.Sprintf("bin/*/%s/%s", Vec(F32, r), mt), args: []*Type{Vec(F32, r), mt}, ret: Vec(F32, c), build: bin("*"), alpha: [][]uint32{mAlpha, mAlpha}, approx: true})
			for k := 2; k <= 4; k++ {
				rt := Mat(k, c) // (c x r) * (k cols, c rows) -> k cols, r rows
				addSpec(opSpec{sig: fmt.Sprintf("bin/*/%s/%s", mt, rt), args: []*Type{mt, rt}, ret: Mat(k, r), build: bin("*"), alpha: [][]uint32{mAlpha, mAlpha}, approx: true})
			}
			addSpec(opSpec{sig: fmt.Sprintf("call/transpose/%s", mt), args: []*Type{mt}, ret: Mat(r, c), build: call("transpose", Mat(r, c)), alpha: [][]uint32{mAlpha}})
			addSpec(opSpec{sig: fmt.Sprintf("un/-/%s", mt), args: []*Type{mt}, ret: mt, build: un("-"), alpha: [][]uint32{mAlpha}})
			if c == r {
				addSpec(opSpec{sig: fmt.Sprintf("call/determinant/%s", mt), args: []*Type{mt}, ret: TF32, build: call("determinant", TF32), alpha: [][]uint32{mAlpha}, approx: true})
			}
		}
	}
}

// Operand sources.
var f1Sources = []string{"buf", "let", "var", "fn", "asg"}

// F1Count returns the number of F1 programs.
func f1Index() [][2]int {
	var idx [][2]int
	for si, s := range f1Specs {
		for src := range f1Sources {
			if f1Sources[src] == "asg" && (s.compound == "" || !s.args[0].Equal(s.ret)) {
				continue
			}
			idx = append(idx, [2]int{si, src})
		}
	}
	return idx
}

var f1Idx [][2]int

// F1 returns the operator-table family. quick restricts the operand sources to buf+fn+asg.
func F1() *Family {
	if f1Idx == nil {
		f1Idx = f1Index()
	}
	return &Family{Name: "F1", Count: len(f1Idx), At: func(i int) *Case {
		c := buildF1(&f1Specs[f1Idx[i][0]], f1Sources[f1Idx[i][1]])
		c.Family, c.Index = "F1", i
		return c
	}}
}

// tuples enumerates the cartesian product of the per-argument scalar alphabets, filtered.
func tuples(s *opSpec) [][]uint32 {
	var out [][]uint32
	cur := make([]uint32, len(s.alpha))
	var rec func(i int)
	rec = func(i int) {
		if i == len(s.alpha) {
			if s.keep == nil || s.keep(cur) {
				out = append(out, append([]uint32(nil), cur...))
			}
			return
		}
		for _, v := range s.alpha[i] {
			cur[i] = v
			rec(i + 1)
		}
	}
	rec(0)
	return out
}

func buildF1(s *opSpec, src string) *Case {
	m := &Module{}
	tup := tuples(s)
	n := len(tup)
	if n == 0 {
		panic("no tuples for " + s.sig)
	}
	bufs := xrt.Buffers{}
	btypes := map[xrt.Binding]*Type{}
	var loads []Expr
	// mixOK[j]: the rotated component scheme keeps every effective scalar tuple inside the filter.
	mixOK := make([]bool, n)
	maxW := 1
	for _, at := range s.args {
		if k := at.NumScalars(); k > maxW {
			maxW = k
		}
	}
	for j := range mixOK {
		mixOK[j] = true
		if s.keep == nil {
			continue
		}
		eff := make([]uint32, len(s.args))
		for c := 0; c < maxW && mixOK[j]; c++ {
			for ai, at := range s.args {
				if at.NumScalars() > 1 {
					eff[ai] = tup[(j+7*c)%n][ai]
				} else {
					eff[ai] = tup[j][ai]
				}
			}
			mixOK[j] = s.keep(eff)
		}
	}
	gid := L("gid", Vec(U32, 3))
	iref := L("i", TU32)
	for ai, at := range s.args {
		st := storageType(at)
		name := fmt.Sprintf("a%d", ai)
		arr := Array(st, 0)
		m.Globals = append(m.Globals, Global{Name: name, Space: "storage", Ty: arr, Group: 0, Binding: ai})
		stride := Stride(arr)
		buf := make([]byte, n*stride)
		lo := LeafOffsets(st, 0, nil)
		for j := 0; j < n; j++ {
			for c, off := range lo {
				// component c of invocation j takes tuple (j + 7c) mod n: every component position sees
				// every tuple (unless that would pair operands the filter excludes: then tuple j).
				t := tup[j]
				if mixOK[j] {
					t = tup[(j+7*c)%n]
				}
				PutU32(buf, j*stride+off, t[ai])
			}
		}
		key := xrt.Binding{Group: 0, Binding: uint32(ai)}
		bufs[key] = buf
		btypes[key] = Array(st, n)
		loads = append(loads, fromStorage(Idx(V(name, arr), iref), at))
	}
	// NOTE on multi-argument vector ops: component c of every argument uses the same tuple, so
	// filters over scalar tuples remain valid per component. For ops that mix all components
	// (dot, matrix products, cross, length) filters are not used.
	ost := storageType(s.ret)
	oarr := Array(ost, 0)
	ob := len(s.args)
	m.Globals = append(m.Globals, Global{Name: "o", Space: "storage", RW: true, Ty: oarr, Group: 0, Binding: ob})
	okey := xrt.Binding{Group: 0, Binding: uint32(ob)}
	obuf := make([]byte, n*Stride(oarr))
	for i := range obuf {
		obuf[i] = 0xCD
	}
	bufs[okey] = obuf
	btypes[okey] = Array(ost, n)
	out := Idx(V("o", oarr), iref)

	body := []Stmt{&VarDecl{Kind: "let", Name: "i", Ty: TU32, Init: Swizzle(gid, "x")}}
	switch src {
	case "buf":
		body = append(body, &Assign{LHS: out, Op: "=", RHS: toStorage(s.build(loads), s.ret)})
	case "let", "var":
		var xs []Expr
		for ai, at := range s.args {
			nm := fmt.Sprintf("x%d", ai)
			body = append(body, &VarDecl{Kind: src, Name: nm, Ty: at, Init: loads[ai]})
			if src == "var" {
				xs = append(xs, V(nm, at))
			} else {
				xs = append(xs, L(nm, at))
			}
		}
		body = append(body, &Assign{LHS: out, Op: "=", RHS: toStorage(s.build(xs), s.ret)})
	case "fn":
		h := &Func{Name: "h", Ret: s.ret}
		var xs []Expr
		for ai, at := range s.args {
			nm := fmt.Sprintf("p%d", ai)
			h.Params = append(h.Params, Param{Name: nm, Ty: at})
			xs = append(xs, L(nm, at))
		}
		h.Body = []Stmt{&Return{X: s.build(xs)}}
		m.Funcs = append(m.Funcs, h)
		body = append(body, &Assign{LHS: out, Op: "=", RHS: toStorage(&Call{Fn: "h", Args: loads, Ty: s.ret, User: true}, s.ret)})
	case "asg":
		body = append(body, &VarDecl{Kind: "var", Name: "x0", Ty: s.args[0], Init: loads[0]})
		body = append(body, &Assign{LHS: V("x0", s.args[0]), Op: s.compound + "=", RHS: loads[1]})
		body = append(body, &Assign{LHS: out, Op: "=", RHS: toStorage(V("x0", s.args[0]), s.ret)})
	}
	m.Funcs = append(m.Funcs, &Func{Name: "main", Stage: "compute", WG: [3]int{1, 0, 0},
		Params: []Param{{Name: "gid", Ty: Vec(U32, 3), Attr: "@builtin(global_invocation_id)"}}, Body: body})
	return &Case{Sig: "F1/" + s.sig + "/" + src, Mod: m, Bufs: bufs, Groups: [3]uint32{uint32(n), 1, 1}, Approx: s.approx, BufTypes: btypes}
}
