package wgen

import "strings"

// C19 reference tokenizer: WGSL tokenization *with template-list disambiguation*, written from the
// WGSL specification (§3 "Textual structure": blankspace, comments, tokens, and the "template list
// discovery" algorithm of §3.9). It is the independent judge of whether a textual edit is
// meaning-neutral: an edit that only touches trivia is neutral iff the reference token sequence
// (token texts plus which `<`/`>` are template delimiters) is unchanged.
//
// The tokenizer never looks at naga; it is deliberately written separately from wgen.Tokenize
// (which lexes greedily and knows nothing about template lists).

// C19Tok is one reference token.
type C19Tok struct {
	Text       string
	Start, End int
	Kind       byte // 'i' identifier/keyword, 'n' numeric literal, 'p' punctuation, 't' template delimiter
}

// c19SkipTrivia advances past blankspace and comments. ok=false: unterminated block comment.
func c19SkipTrivia(s string, i int) (int, bool) {
	n := len(s)
	for i < n {
		if k := c19BlankLen(s, i); k > 0 {
			i += k
			continue
		}
		if s[i] == '/' && i+1 < n && s[i+1] == '/' {
			i += 2
			for i < n && c19LineBreakLen(s, i) == 0 {
				i++
			}
			continue
		}
		if s[i] == '/' && i+1 < n && s[i+1] == '*' {
			depth := 1
			i += 2
			for depth > 0 {
				if i+1 >= n {
					return n, false
				}
				switch {
				case s[i] == '/' && s[i+1] == '*':
					depth++
					i += 2
				case s[i] == '*' && s[i+1] == '/':
					depth--
					i += 2
				default:
					i++
				}
			}
			continue
		}
		break
	}
	return i, true
}

func c19IdentLen(s string, i int) int {
	if i >= len(s) || !isIdentStart(s[i]) {
		return 0
	}
	// (bytes >= 0x80 are taken as identifier characters except the multi-byte blankspace, which the
	// caller has already skipped at token starts; inside an identifier they end it)
	j := i
	for j < len(s) && isIdentChar(s[j]) && (s[j] < 0x80 || c19BlankLen(s, j) == 0) {
		j++
	}
	return j - i
}

// c19NumberLen: length of the numeric literal at i (0 if none). Decimal/hex integers and floats with
// optional exponent and suffix (i u f h, and the 64-bit lf li lu some dialects accept).
func c19NumberLen(s string, i int) int {
	n := len(s)
	if i >= n {
		return 0
	}
	if !(isDigit(s[i]) || (s[i] == '.' && i+1 < n && isDigit(s[i+1]))) {
		return 0
	}
	j := i
	hex := s[j] == '0' && j+1 < n && (s[j+1] == 'x' || s[j+1] == 'X')
	if hex {
		j += 2
	}
	isHexDigit := func(c byte) bool { return isDigit(c) || (c >= 'a' && c <= 'f') || (c >= 'A' && c <= 'F') }
	for j < n {
		c := s[j]
		switch {
		case isDigit(c) || c == '.' || (hex && isHexDigit(c)):
			j++
		case (!hex && (c == 'e' || c == 'E')) || (hex && (c == 'p' || c == 'P')):
			j++
			if j < n && (s[j] == '+' || s[j] == '-') {
				j++
			}
		case c == 'l' && j+1 < n && (s[j+1] == 'f' || s[j+1] == 'i' || s[j+1] == 'u'):
			return j + 2 - i
		case c == 'u' || c == 'i' || c == 'f' || c == 'h':
			return j + 1 - i
		default:
			return j - i
		}
	}
	return j - i
}

// c19TemplateDelims runs the specification's template list discovery and returns the set of byte
// positions of `<` and `>` that delimit template lists.
func c19TemplateDelims(s string) map[int]bool {
	type cand struct{ pos, depth int }
	out := map[int]bool{}
	var pending []cand
	depth := 0
	i, n := 0, len(s)
	popDeeper := func() {
		for len(pending) > 0 && pending[len(pending)-1].depth >= depth {
			pending = pending[:len(pending)-1]
		}
	}
	for {
		var ok bool
		i, ok = c19SkipTrivia(s, i)
		if !ok || i >= n {
			return out
		}
		if k := c19NumberLen(s, i); k > 0 {
			i += k
			continue
		}
		if k := c19IdentLen(s, i); k > 0 {
			i += k
			i, ok = c19SkipTrivia(s, i)
			if !ok || i >= n {
				return out
			}
			if s[i] == '<' {
				pending = append(pending, cand{i, depth})
				i++
				if i < n && (s[i] == '<' || s[i] == '=') { // `<<` or `<=`: not a template list
					pending = pending[:len(pending)-1]
					i++
				}
			}
			continue
		}
		switch c := s[i]; c {
		case '>':
			if len(pending) > 0 && pending[len(pending)-1].depth == depth {
				out[pending[len(pending)-1].pos] = true
				out[i] = true
				pending = pending[:len(pending)-1]
				i++
			} else {
				i++
				if i < n && s[i] == '=' {
					i++
				}
			}
		case '(', '[':
			depth++
			i++
		case ')', ']':
			popDeeper()
			if depth > 0 {
				depth--
			}
			i++
		case '!':
			i++
			if i < n && s[i] == '=' {
				i++
			}
		case '=':
			i++
			if i < n && s[i] == '=' {
				i++
			} else {
				depth = 0
				pending = pending[:0]
			}
		case ';', '{', ':':
			depth = 0
			pending = pending[:0]
			i++
		case '&', '|':
			if i+1 < n && s[i+1] == c {
				popDeeper()
				i += 2
			} else {
				i++
			}
		default:
			i++
		}
	}
}

var c19Puncts = []string{ // longest first
	">>=", "<<=",
	"&&", "->", "==", "!=", ">=", ">>", "<=", "<<", "--", "++", "||", "+=", "-=", "*=", "/=", "%=", "&=", "|=", "^=",
}

// C19Lex tokenizes s. ok=false if the text has an unterminated block comment.
func C19Lex(s string) (toks []C19Tok, ok bool) {
	tmpl := c19TemplateDelims(s)
	i, n := 0, len(s)
	for {
		i, ok = c19SkipTrivia(s, i)
		if !ok {
			return toks, false
		}
		if i >= n {
			return toks, true
		}
		if k := c19NumberLen(s, i); k > 0 {
			toks = append(toks, C19Tok{s[i : i+k], i, i + k, 'n'})
			i += k
			continue
		}
		if k := c19IdentLen(s, i); k > 0 {
			toks = append(toks, C19Tok{s[i : i+k], i, i + k, 'i'})
			i += k
			continue
		}
		if tmpl[i] {
			toks = append(toks, C19Tok{s[i : i+1], i, i + 1, 't'})
			i++
			continue
		}
		l := 1
		for _, p := range c19Puncts {
			if strings.HasPrefix(s[i:], p) {
				l = len(p)
				break
			}
		}
		// a multi-character operator never extends over a template delimiter
		for k := 1; k < l; k++ {
			if tmpl[i+k] {
				l = k
				break
			}
		}
		if l == 1 && s[i] >= 0x80 { // stray non-ASCII byte sequence: keep the whole rune together
			for i+l < n && s[i+l]&0xC0 == 0x80 {
				l++
			}
		}
		toks = append(toks, C19Tok{s[i : i+l], i, i + l, 'p'})
		i += l
	}
}

// C19SameTokens reports whether two reference token sequences are equal (texts and kinds).
func C19SameTokens(a, b []C19Tok) bool {
	if len(a) != len(b) {
		return false
	}
	for i := range a {
		if a[i].Text != b[i].Text || a[i].Kind != b[i].Kind {
			return false
		}
	}
	return true
}
