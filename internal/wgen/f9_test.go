package wgen

import "testing"

// The family is a pure function of the index: same index, same program; signatures are unique.
func TestF9Deterministic(t *testing.T) {
	for _, th := range []bool{false, true} {
		f := F9(th)
		if f.Count == 0 {
			t.Fatal("empty family")
		}
		step := f.Count/5000 + 1
		seen := map[string]int{}
		for i := 0; i < f.Count; i += step {
			a, b := f.At(i), f.At(i)
			if a.Sig != b.Sig || Print(a.Mod) != Print(b.Mod) {
				t.Fatalf("%s[%d] is not deterministic", f.Name, i)
			}
			if j, dup := seen[a.Sig]; dup {
				t.Fatalf("%s: indices %d and %d share the signature %s", f.Name, j, i, a.Sig)
			}
			seen[a.Sig] = i
			if !a.NoExec || a.Index != i || a.Family != f.Name {
				t.Fatalf("%s[%d]: case header %+v", f.Name, i, a)
			}
		}
		t.Logf("%s: %d programs, dimensions %v", f.Name, f.Count, F9Stats(th))
	}
	if l := F9Lite(); l.Count == 0 || l.At(0).Family != "F9lite" {
		t.Fatal("F9lite")
	}
}
