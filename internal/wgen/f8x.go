package wgen

import (
	"fmt"

	"verif/internal/xrt"
)

// F8x: one name, two functions. Function f1 binds the name N as one kind of local entity and function f2 binds the same
// name as another kind and reads it; every ordered pair of kinds x both declaration orders of f1 and f2 x a third
// function that binds N yet another way. Whatever a compiler remembers about N while lowering one function (that it
// is a pointer, a constant, a variable...) must not survive into the next function.

var f8xKinds = []string{"ptrlet", "let", "var", "const", "param", "forvar"}

// f8xBody returns statements that bind N in the given way and fold its value into `acc`; seed is a distinct constant.
func f8xBody(kind string, seed uint32) []Stmt {
	acc := func() Expr { return V("acc", TU32) }
	mix := func(x Expr) Stmt {
		return &Assign{LHS: acc(), Op: "=", RHS: &Bin{Op: "+", L: &Bin{Op: "*", L: acc(), R: LitU(31), Ty: TU32}, R: x, Ty: TU32}}
	}
	x := L("x", TU32)
	switch kind {
	case "ptrlet":
		pt := Ptr("function", TU32)
		return []Stmt{
			&VarDecl{Kind: "var", Name: "cell", Ty: TU32, Init: &Bin{Op: "+", L: x, R: LitU(seed), Ty: TU32}},
			&VarDecl{Kind: "let", Name: "n", Ty: pt, Init: &AddrOf{X: V("cell", TU32), Ty: pt}},
			&Assign{LHS: &Deref{X: L("n", pt), Ty: TU32}, Op: "=", RHS: &Bin{Op: "*", L: &Deref{X: L("n", pt), Ty: TU32}, R: LitU(3), Ty: TU32}},
			mix(&Deref{X: L("n", pt), Ty: TU32}),
		}
	case "let":
		return []Stmt{&VarDecl{Kind: "let", Name: "n", Ty: TU32, Init: &Bin{Op: "+", L: x, R: LitU(seed), Ty: TU32}}, mix(&Bin{Op: "*", L: L("n", TU32), R: LitU(5), Ty: TU32})}
	case "var":
		return []Stmt{&VarDecl{Kind: "var", Name: "n", Ty: TU32, Init: &Bin{Op: "+", L: x, R: LitU(seed), Ty: TU32}},
			&Assign{LHS: V("n", TU32), Op: "=", RHS: &Bin{Op: "+", L: V("n", TU32), R: LitU(1), Ty: TU32}}, mix(&Bin{Op: "*", L: V("n", TU32), R: LitU(7), Ty: TU32})}
	case "const":
		return []Stmt{&VarDecl{Kind: "const", Name: "n", Ty: TU32, Init: LitU(seed), Explicit: true}, mix(&Bin{Op: "+", L: L("n", TU32), R: x, Ty: TU32})}
	case "forvar":
		nv := V("n", TU32)
		return []Stmt{&For{Init: &VarDecl{Kind: "var", Name: "n", Ty: TU32, Init: LitU(0)}, Cond: &Bin{Op: "<", L: nv, R: LitU(2), Ty: TBool},
			Upd: &IncDec{LHS: nv, Inc: true}, Body: []Stmt{mix(&Bin{Op: "+", L: nv, R: LitU(seed), Ty: TU32})}}}
	}
	panic("f8x kind")
}

func f8xFunc(name, kind string, seed uint32) *Func {
	f := &Func{Name: name, Ret: TU32}
	if kind == "param" {
		f.Params = []Param{{Name: "n", Ty: TU32}}
		f.Body = []Stmt{&VarDecl{Kind: "var", Name: "acc", Ty: TU32, Init: LitU(seed)},
			&Assign{LHS: V("acc", TU32), Op: "=", RHS: &Bin{Op: "+", L: &Bin{Op: "*", L: V("acc", TU32), R: LitU(31), Ty: TU32}, R: &Bin{Op: "*", L: L("n", TU32), R: LitU(11), Ty: TU32}, Ty: TU32}},
			&Return{X: V("acc", TU32)}}
		return f
	}
	f.Params = []Param{{Name: "x", Ty: TU32}}
	f.Body = append([]Stmt{&VarDecl{Kind: "var", Name: "acc", Ty: TU32, Init: LitU(seed)}}, f8xBody(kind, seed)...)
	f.Body = append(f.Body, &Return{X: V("acc", TU32)})
	return f
}

func buildF8x(k1, k2, k3 string, swap bool) *Case {
	m := &Module{}
	inT := Array(TU32, 0)
	outT := Array(TU32, 0)
	m.Globals = append(m.Globals,
		Global{Name: "inp", Space: "storage", Ty: inT, Group: 0, Binding: 0},
		Global{Name: "out", Space: "storage", RW: true, Ty: outT, Group: 0, Binding: 1})
	f1, f2, f3 := f8xFunc("f1", k1, 101), f8xFunc("f2", k2, 211), f8xFunc("f3", k3, 307)
	if swap {
		m.Funcs = append(m.Funcs, f2, f1, f3)
	} else {
		m.Funcs = append(m.Funcs, f1, f2, f3)
	}
	gi := L("gi", TU32)
	in := func() Expr { return Idx(V("inp", inT), gi) }
	call := func(fn string) Expr { return &Call{Fn: fn, Args: []Expr{in()}, Ty: TU32, User: true} }
	sum := &Bin{Op: "+", L: &Bin{Op: "+", L: &Bin{Op: "*", L: call("f1"), R: LitU(3), Ty: TU32}, R: &Bin{Op: "*", L: call("f2"), R: LitU(5), Ty: TU32}, Ty: TU32}, R: call("f3"), Ty: TU32}
	m.Funcs = append(m.Funcs, &Func{Name: "main", Stage: "compute", WG: [3]int{1, 0, 0},
		Params: []Param{{Name: "gid", Ty: Vec(U32, 3), Attr: "@builtin(global_invocation_id)"}},
		Body: []Stmt{&VarDecl{Kind: "let", Name: "gi", Ty: TU32, Init: Swizzle(L("gid", Vec(U32, 3)), "x")}, &Assign{LHS: Idx(V("out", outT), gi), Op: "=", RHS: sum}}})
	const n = 3
	ib := make([]byte, 4*n)
	for i := 0; i < n; i++ {
		PutU32(ib, 4*i, uint32(i*7+1))
	}
	ob := make([]byte, 4*n)
	for i := range ob {
		ob[i] = 0xCD
	}
	k0, kk1 := xrt.Binding{Group: 0, Binding: 0}, xrt.Binding{Group: 0, Binding: 1}
	ord := "f1f2"
	if swap {
		ord = "f2f1"
	}
	return &Case{Sig: fmt.Sprintf("F8x/%s/%s/%s/%s", k1, k2, k3, ord), Mod: m, Bufs: xrt.Buffers{k0: ib, kk1: ob}, Groups: [3]uint32{n, 1, 1},
		BufTypes: map[xrt.Binding]*Type{k0: Array(TU32, n), kk1: Array(TU32, n)}}
}

// F8x returns the cross-function name-reuse family.
func F8x() *Family {
	nk := len(f8xKinds)
	return &Family{Name: "F8x", Count: nk * nk * nk * 2, At: func(i int) *Case {
		c := buildF8x(f8xKinds[i/(2*nk*nk)%nk], f8xKinds[i/(2*nk)%nk], f8xKinds[i/2%nk], i%2 == 1)
		c.Family, c.Index = "F8x", i
		return c
	}}
}
