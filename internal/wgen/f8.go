package wgen

// F8 — families for property C08 (valid programs are accepted by every stage and every backend):
// module-scope declarations in EVERY textual order, locals that shadow module-scope names, and
// references to later-declared module-scope entities from every expression / statement position.
//
// Every program is valid WGSL by construction and is an executable compute program: the semantic
// checks run the generated code and compare it with the reference evaluator, so a name bound to the
// wrong entity shows up as a wrong value, not only as a rejection.
//
// How one program is represented. The shared AST (ast.go) resolves every type to a structure and the
// shared printer (print.go) emits declarations in one fixed order (structs, aliases, consts, variables,
// functions). F8 needs (a) an arbitrary textual order and (b) type *names* (aliases, `array<T, N>` with
// a named count) at their use sites. Both are obtained without touching the shared files:
//
//   - each program is built twice by the same builder code, once in "exec" mode (aliases resolved, the
//     module the reference evaluator runs) and once in "print" mode (a named type is a placeholder that
//     prints as its name); the text of each declaration is produced by the shared printer from the
//     print-mode node, so text and executed module differ only in what a name resolves to;
//   - the ordered text is carried in Module.Raw, and everything the shared printer emits on its own from
//     the exec-mode lists is enclosed in one WGSL block comment (see f8Wrap). Print(mod) therefore yields
//     a bracket declaration, the F8 text in the chosen order, and a closing bracket declaration.
//
// NEEDED SHARED CHANGE (reported to the integrator): a `Module.Text string` honoured by Print/PrintExt
// ("if set, this is the source") would make f8Wrap a one-line assignment and remove the two bracket
// declarations and the comment from every program.

import (
	"fmt"
	"strings"

	"verif/internal/xrt"
)

// f8Item is one module-scope declaration.
type f8Item struct {
	kind  string // struct, alias, const, var, fn, assert (module-scope const_assert: text only)
	name  string
	st    *Type
	al    *Alias
	c     *ConstDecl
	g     *Global
	fn    *Func
	raw   string
	patch func(string) string // print mode: final adjustment of the printed text (nil = none)
}

func (it *f8Item) text() string {
	m := &Module{}
	switch it.kind {
	case "struct":
		m.Structs = []*Type{it.st}
	case "alias":
		m.Aliases = []Alias{*it.al}
	case "const":
		m.Consts = []ConstDecl{*it.c}
	case "var":
		m.Globals = []Global{*it.g}
	case "fn":
		m.Funcs = []*Func{it.fn}
	case "assert":
		m.Raw = it.raw
	}
	s := strings.TrimRight(Print(m), "\n")
	if it.patch != nil {
		s = it.patch(s)
	}
	return s
}

// f8b builds the declarations of one program, in dependency order, in one of the two modes.
type f8b struct {
	print bool
	items []*f8Item
	bufs  xrt.Buffers
	btys  map[xrt.Binding]*Type
	outN  int
	wg    int // invocations (workgroup size x), default 1
}

// named: a type that the text refers to by name (alias name, or a spelling such as `array<i32, N>`).
func (b *f8b) named(text string, real *Type) *Type {
	if b.print {
		return &Type{K: TStruct, Name: text}
	}
	return real
}

func (b *f8b) add(it *f8Item) { b.items = append(b.items, it) }

// strct declares a struct. Member types may be named types.
func (b *f8b) strct(name string, members ...Member) *Type {
	t := Struct(name, members...)
	b.add(&f8Item{kind: "struct", name: name, st: t})
	return t
}

// alias declares `alias name = target;` and returns the type as later declarations see it.
func (b *f8b) alias(name string, target *Type) *Type {
	b.add(&f8Item{kind: "alias", name: name, al: &Alias{Name: name, Ty: target}})
	return b.named(name, target)
}

// arrN is array<elem, count> whose count is spelled `countText` (a const name or const-expression).
func (b *f8b) arrN(elem *Type, count int, countText string) *Type {
	return b.named(fmt.Sprintf("array<%s, %s>", elem, countText), Array(elem, count))
}

// konst declares a module-scope constant; ty == nil means no type annotation (init's type).
func (b *f8b) konst(name string, ty *Type, init Expr) *Ref {
	c := &ConstDecl{Name: name, Ty: ty, Init: init, Explicit: ty != nil}
	if ty == nil {
		c.Ty = init.T()
	}
	b.add(&f8Item{kind: "const", name: name, c: c})
	return L(name, c.Ty)
}

// gvar declares a private / workgroup variable.
func (b *f8b) gvar(space, name string, ty *Type, init Expr) *Ref {
	b.add(&f8Item{kind: "var", name: name, g: &Global{Name: name, Space: space, Ty: ty, Init: init}})
	return V(name, ty)
}

var f8OutT = Array(TI32, 0)

// out declares the result buffer `o: array<i32>` (binding 0) with n compared elements.
func (b *f8b) out(n int) {
	b.outN = n
	b.add(&f8Item{kind: "var", name: "o", g: &Global{Name: "o", Space: "storage", RW: true, Ty: f8OutT, Group: 0, Binding: 0}})
	buf := make([]byte, 4*n)
	for i := range buf {
		buf[i] = 0xCD
	}
	k := xrt.Binding{Group: 0, Binding: 0}
	b.bufs[k] = buf
	b.btys[k] = Array(TI32, n)
}

// input declares a read-only storage buffer (binding 1) of type ty filled with words.
func (b *f8b) input(name string, ty, real *Type, words ...uint32) *Ref {
	b.add(&f8Item{kind: "var", name: name, g: &Global{Name: name, Space: "storage", Ty: ty, Group: 0, Binding: 1}})
	buf := make([]byte, 4*len(words))
	for i, w := range words {
		PutU32(buf, 4*i, w)
	}
	k := xrt.Binding{Group: 0, Binding: 1}
	b.bufs[k] = buf
	b.btys[k] = real
	return V(name, ty)
}

// assert declares a module-scope `const_assert cond;` (it has no run-time effect: the reference evaluator
// never sees it).
func (b *f8b) assert(cond string) {
	b.add(&f8Item{kind: "assert", name: "assert", raw: "const_assert " + cond + ";"})
}

func (b *f8b) fn(f *Func) { b.add(&f8Item{kind: "fn", name: f.Name, fn: f}) }

// entry declares the compute entry point `main`.
func (b *f8b) entry(body ...Stmt) *Func {
	f := &Func{Name: "main", Stage: "compute", WG: [3]int{b.wg, 0, 0}, Body: body}
	b.fn(f)
	return f
}

// ---------------------------------------------------------------- expression helpers (i32 world)

func f8i(v int) *Lit                  { return &Lit{Ty: TI32, Bits: uint32(int32(v)), Bare: true} } // abstract literal, becomes i32
func f8op(op string, l, r Expr) Expr  { return &Bin{Op: op, L: l, R: r, Ty: TI32} }
func f8cmp(op string, l, r Expr) Expr { return &Bin{Op: op, L: l, R: r, Ty: TBool} }
func f8add(l, r Expr) Expr            { return f8op("+", l, r) }
func f8mul(l, r Expr) Expr            { return f8op("*", l, r) }
func f8call(fn string, args ...Expr) *Call {
	return &Call{Fn: fn, Args: args, Ty: TI32, User: true}
}
func f8built(fn string, ty *Type, args ...Expr) *Call { return &Call{Fn: fn, Args: args, Ty: ty} }
func f8fld(x Expr, name string, ty *Type) Expr        { return &Field{X: x, Name: name, Ty: ty} }
func f8idx(x Expr, i Expr, ty *Type) Expr             { return &Index{X: x, I: i, Ty: ty} }
func f8cons(ty *Type, args ...Expr) Expr              { return &Cons{Ty: ty, Args: args} }
func f8let(name string, init Expr) Stmt {
	return &VarDecl{Kind: "let", Name: name, Ty: init.T(), Init: init}
}
func f8letT(name string, ty *Type, init Expr) Stmt {
	return &VarDecl{Kind: "let", Name: name, Ty: ty, Init: init, Explicit: true}
}
func f8var(name string, init Expr) Stmt {
	return &VarDecl{Kind: "var", Name: name, Ty: init.T(), Init: init}
}
func f8varT(name string, ty *Type, init Expr) Stmt {
	return &VarDecl{Kind: "var", Name: name, Ty: ty, Init: init, Explicit: true}
}
func f8const(name string, init Expr) Stmt {
	return &VarDecl{Kind: "const", Name: name, Ty: init.T(), Init: init}
}
func f8set(lhs, rhs Expr) Stmt                 { return &Assign{LHS: lhs, Op: "=", RHS: rhs} }
func f8upd(lhs Expr, op string, rhs Expr) Stmt { return &Assign{LHS: lhs, Op: op, RHS: rhs} }
func f8o(k int) Expr                           { return &Index{X: V("o", f8OutT), I: LitU(uint32(k)), Ty: TI32} }
func f8setO(k int, e Expr) Stmt                { return f8set(f8o(k), e) }

// f8reinit stores a private variable's initial value again at the start of the entry point. The variable
// keeps its initialiser (the dependency edge var -> const / struct / alias is what F8 is about); whether a
// backend honours the initialiser is a semantic matter of C01/C03-C05, observed separately: the SPIR-V
// backend drops initialisers of private variables (`var<private> g: i32 = 5;` reads 0), which would
// otherwise make every F8 program with such a variable disagree for a reason unrelated to names.
func f8reinit(v Expr, init Expr) Stmt { return f8set(v, init) }
func f8ret(e Expr) Stmt               { return &Return{X: e} }
func f8p(name string, ty *Type) Param { return Param{Name: name, Ty: ty} }

// ---------------------------------------------------------------- assembling one program

// f8Prog is a program description: build declares everything in dependency order.
type f8Prog struct {
	name  string
	build func(b *f8b)
}

func (p *f8Prog) run(print bool) *f8b {
	b := &f8b{print: print, bufs: xrt.Buffers{}, btys: map[xrt.Binding]*Type{}, wg: 1}
	p.build(b)
	return b
}

// f8Wrap makes Print(m) yield exactly: a bracket struct, text, a bracket function. Everything the shared
// printer emits from m's own lists lies inside a block comment.
func f8Wrap(m *Module, text string) {
	open := &Type{K: TStruct, Name: "F8Open { f8_m: i32 }\n/* the lists below are for the reference evaluator; the source is the text after this comment"}
	m.Structs = append([]*Type{open}, m.Structs...)
	m.Raw = "*/\n\n" + strings.TrimRight(text, "\n") + "\n\n/*"
	m.Funcs = append(m.Funcs, &Func{Name: "*/\nfn f8_close"})
}

// f8Case builds the case whose declarations appear in the textual order `order` (indices into the
// dependency-ordered declaration list).
func f8Case(p *f8Prog, order []int) *Case {
	ex := p.run(false)
	pr := p.run(true)
	if len(ex.items) != len(pr.items) || len(order) != len(ex.items) {
		panic("f8: declaration lists differ for " + p.name)
	}
	var sb strings.Builder
	for _, k := range order {
		sb.WriteString(pr.items[k].text())
		sb.WriteString("\n\n")
	}
	m := &Module{}
	for _, it := range ex.items {
		switch it.kind {
		case "struct":
			m.Structs = append(m.Structs, it.st)
		case "const":
			m.Consts = append(m.Consts, *it.c)
		case "var":
			m.Globals = append(m.Globals, *it.g)
		case "fn":
			m.Funcs = append(m.Funcs, it.fn)
		}
	}
	f8Wrap(m, sb.String())
	return &Case{Mod: m, Bufs: ex.bufs, BufTypes: ex.btys, Groups: [3]uint32{1, 1, 1}}
}

// f8Names lists the declaration names of p in dependency order.
func f8Names(p *f8Prog) []string {
	b := p.run(true)
	out := make([]string, len(b.items))
	for i, it := range b.items {
		out[i] = it.name
	}
	return out
}

// f8OrderByName turns a list of names (a textual order) into indices; every declaration must be listed
// exactly once.
func f8OrderByName(p *f8Prog, names []string) []int {
	all := f8Names(p)
	pos := map[string]int{}
	for i, n := range all {
		pos[n] = i
	}
	if len(names) != len(all) {
		panic(fmt.Sprintf("f8: order %v does not list the %d declarations %v of %s", names, len(all), all, p.name))
	}
	out := make([]int, len(names))
	seen := map[int]bool{}
	for i, n := range names {
		k, ok := pos[n]
		if !ok || seen[k] {
			panic("f8: bad order entry " + n + " in " + p.name)
		}
		seen[k] = true
		out[i] = k
	}
	return out
}

// f8Perm returns the idx-th permutation of 0..n-1 in lexicographic order (idx in [0, n!)).
func f8Perm(n, idx int) []int {
	avail := make([]int, n)
	for i := range avail {
		avail[i] = i
	}
	out := make([]int, 0, n)
	for i := n; i >= 1; i-- {
		f := f8Fact(i - 1)
		k := idx / f
		idx %= f
		out = append(out, avail[k])
		avail = append(avail[:k], avail[k+1:]...)
	}
	return out
}

func f8Fact(n int) int {
	f := 1
	for i := 2; i <= n; i++ {
		f *= i
	}
	return f
}
