// Package wgen is the bounded WGSL program space: a small typed AST (valid by construction), a
// printer, and indexed finite program families. It knows nothing about naga.
package wgen

import (
	"fmt"
	"strings"
)

// ---------------------------------------------------------------- types

type SK int // scalar kind

const (
	Bool SK = iota
	I32
	U32
	F32
)

func (k SK) String() string { return [...]string{"bool", "i32", "u32", "f32"}[k] }

type TK int

const (
	TScalar TK = iota
	TVec
	TMat
	TArray
	TStruct
	TAtomic
	TPtr
)

type Type struct {
	K       TK
	S       SK     // scalar kind (Scalar/Vec/Mat/Atomic)
	N       int    // vector size / matrix rows
	C       int    // matrix columns
	Elem    *Type  // array element / pointee
	Len     int    // array length; 0 = runtime-sized
	Name    string // struct name
	Members []Member
	Space   string // ptr address space: function, private, workgroup, storage, uniform
	RW      bool   // ptr<storage, T, read_write>
}

type Member struct {
	Name  string
	T     *Type
	Align int // @align attribute, 0 = none
	Size  int // @size attribute, 0 = none
}

var (
	TBool = &Type{K: TScalar, S: Bool}
	TI32  = &Type{K: TScalar, S: I32}
	TU32  = &Type{K: TScalar, S: U32}
	TF32  = &Type{K: TScalar, S: F32}
)

func Scalar(k SK) *Type {
	switch k {
	case Bool:
		return TBool
	case I32:
		return TI32
	case U32:
		return TU32
	}
	return TF32
}

// (initialised by functions so that package-level values built from Vec/Mat see filled caches)
var vecCache = buildVecCache()
var matCache = buildMatCache()

func buildVecCache() (c [4][5]*Type) {
	for k := Bool; k <= F32; k++ {
		for n := 2; n <= 4; n++ {
			c[k][n] = &Type{K: TVec, S: k, N: n}
		}
	}
	return
}

func buildMatCache() (c [5][5]*Type) {
	for cc := 2; cc <= 4; cc++ {
		for r := 2; r <= 4; r++ {
			c[cc][r] = &Type{K: TMat, S: F32, C: cc, N: r}
		}
	}
	return
}

func Vec(k SK, n int) *Type { return vecCache[k][n] }

// VecOrScalar returns the scalar for n==1.
func VecOrScalar(k SK, n int) *Type {
	if n == 1 {
		return Scalar(k)
	}
	return Vec(k, n)
}
func Mat(c, r int) *Type                { return matCache[c][r] }
func Array(e *Type, n int) *Type        { return &Type{K: TArray, Elem: e, Len: n} }
func Atomic(k SK) *Type                 { return &Type{K: TAtomic, S: k} }
func Ptr(space string, e *Type) *Type   { return &Type{K: TPtr, Space: space, Elem: e} }
func Struct(name string, m ...Member) *Type { return &Type{K: TStruct, Name: name, Members: m} }

func (t *Type) String() string {
	switch t.K {
	case TScalar:
		return t.S.String()
	case TVec:
		return fmt.Sprintf("vec%d<%s>", t.N, t.S)
	case TMat:
		return fmt.Sprintf("mat%dx%d<%s>", t.C, t.N, t.S)
	case TArray:
		if t.Len == 0 {
			return fmt.Sprintf("array<%s>", t.Elem)
		}
		return fmt.Sprintf("array<%s, %d>", t.Elem, t.Len)
	case TStruct:
		return t.Name
	case TAtomic:
		return fmt.Sprintf("atomic<%s>", t.S)
	case TPtr:
		if t.Space == "storage" && t.RW {
			return fmt.Sprintf("ptr<storage, %s, read_write>", t.Elem)
		}
		return fmt.Sprintf("ptr<%s, %s>", t.Space, t.Elem)
	}
	return "?"
}

// Equal is structural equality (structs by name).
func (t *Type) Equal(o *Type) bool {
	if t == o {
		return true
	}
	if t == nil || o == nil || t.K != o.K {
		return false
	}
	switch t.K {
	case TScalar, TAtomic:
		return t.S == o.S
	case TVec:
		return t.S == o.S && t.N == o.N
	case TMat:
		return t.S == o.S && t.N == o.N && t.C == o.C
	case TArray:
		return t.Len == o.Len && t.Elem.Equal(o.Elem)
	case TStruct:
		return t.Name == o.Name
	case TPtr:
		return t.Space == o.Space && t.Elem.Equal(o.Elem)
	}
	return false
}

// NumScalars is the number of leaf scalars of a fixed-size type (runtime arrays: one element).
func (t *Type) NumScalars() int {
	switch t.K {
	case TScalar, TAtomic:
		return 1
	case TVec:
		return t.N
	case TMat:
		return t.N * t.C
	case TArray:
		n := t.Len
		if n == 0 {
			n = 1
		}
		return n * t.Elem.NumScalars()
	case TStruct:
		s := 0
		for _, m := range t.Members {
			s += m.T.NumScalars()
		}
		return s
	}
	return 1
}

// Leaf returns the scalar kind of the i-th leaf scalar.
func (t *Type) Leaf(i int) SK {
	switch t.K {
	case TScalar, TAtomic, TVec, TMat:
		return t.S
	case TArray:
		return t.Elem.Leaf(i % t.Elem.NumScalars())
	case TStruct:
		for _, m := range t.Members {
			n := m.T.NumScalars()
			if i < n {
				return m.T.Leaf(i)
			}
			i -= n
		}
	}
	return U32
}

func (t *Type) IsNumericScalar() bool { return t.K == TScalar && t.S != Bool }
func (t *Type) IsInt() bool           { return (t.K == TScalar || t.K == TVec) && (t.S == I32 || t.S == U32) }
func (t *Type) IsFloat() bool         { return (t.K == TScalar || t.K == TVec || t.K == TMat) && t.S == F32 }
func (t *Type) Width() int {
	if t.K == TVec {
		return t.N
	}
	return 1
}

// ---------------------------------------------------------------- expressions

type Expr interface{ T() *Type }

// Lit is a concrete scalar literal. Bare prints without suffix (abstract literal that WGSL
// concretises to the same type in the context the generator places it in).
type Lit struct {
	Ty   *Type
	Bits uint32
	Bare bool
}

// Ref names a let/const/param value, or a var/global (then it denotes the *reference*; the
// evaluator applies the load rule where a value is needed).
type Ref struct {
	Name string
	Ty   *Type // value type (store type for variables)
	Var  bool  // true: memory reference (var / global var / pointer-typed let deref'd implicitly no)
}
type Bin struct {
	Op   string
	L, R Expr
	Ty   *Type
}
type Un struct {
	Op string
	X  Expr
	Ty *Type
}

// Call is a builtin or user function call. User marks a user function.
type Call struct {
	Fn   string
	Args []Expr
	Ty   *Type // nil for void
	User bool
}

// Cons is T(args...): conversion, constructor or zero value (no args).
type Cons struct {
	Ty   *Type
	Args []Expr
	// Infer prints the constructor without template args (vec3(…) instead of vec3<f32>(…)).
	Infer bool
}
type Bitcast struct {
	Ty *Type
	X  Expr
}
type Index struct {
	X, I Expr
	Ty   *Type
}
type Field struct {
	X    Expr
	Name string
	Ty   *Type
}
type Swz struct {
	X   Expr
	Pat string // xyzw or rgba letters
	Ty  *Type
}
type AddrOf struct {
	X  Expr
	Ty *Type // ptr type
}
type Deref struct {
	X  Expr
	Ty *Type
}
type Paren struct{ X Expr } // explicit redundant parentheses

func (e *Lit) T() *Type     { return e.Ty }
func (e *Ref) T() *Type     { return e.Ty }
func (e *Bin) T() *Type     { return e.Ty }
func (e *Un) T() *Type      { return e.Ty }
func (e *Call) T() *Type    { return e.Ty }
func (e *Cons) T() *Type    { return e.Ty }
func (e *Bitcast) T() *Type { return e.Ty }
func (e *Index) T() *Type   { return e.Ty }
func (e *Field) T() *Type   { return e.Ty }
func (e *Swz) T() *Type     { return e.Ty }
func (e *AddrOf) T() *Type  { return e.Ty }
func (e *Deref) T() *Type   { return e.Ty }
func (e *Paren) T() *Type   { return e.X.T() }

// ---------------------------------------------------------------- statements

type Stmt interface{}

type VarDecl struct {
	Kind    string // "var", "let", "const"
	Name    string
	Ty      *Type // declared type; printed when Explicit
	Init    Expr  // may be nil for var
	Explicit bool
}
type Assign struct {
	LHS Expr
	Op  string // "=", "+=", ...
	RHS Expr
}
type IncDec struct {
	LHS Expr
	Inc bool
}
type If struct {
	Cond Expr
	Then []Stmt
	Else []Stmt // nil = none; a single *If element prints as else-if
	HasElse bool
}
type SwCase struct {
	Sels    []Expr // literal selectors; Default may be mixed in at position DefaultPos
	Default bool   // this clause contains `default`
	DefaultPos int // position of `default` among the selectors (0..len(Sels))
	Body    []Stmt
}
type Switch struct {
	Sel   Expr
	Cases []SwCase
}
type Loop struct {
	Body       []Stmt
	Continuing []Stmt // nil = no continuing block
	HasCont    bool
	BreakIf    Expr // nil = none
}
type For struct {
	Init Stmt // *VarDecl, *Assign, *IncDec or nil
	Cond Expr
	Upd  Stmt
	Body []Stmt
}
type While struct {
	Cond Expr
	Body []Stmt
}
type Break struct{}
type Continue struct{}
type Return struct{ X Expr }
type Block struct{ Body []Stmt }
type ExprStmt struct{ X *Call }
type Barrier struct{ Kind string } // workgroupBarrier / storageBarrier
type ConstAssert struct{ X Expr }
type Discard struct{}

// ---------------------------------------------------------------- module

type Global struct {
	Name    string
	Space   string // private, workgroup, storage, uniform
	RW      bool   // storage read_write
	Ty      *Type
	Group   int
	Binding int
	Init    Expr
}
type Param struct {
	Name string
	Ty   *Type
	Attr string // e.g. "@builtin(global_invocation_id)"
}
type Func struct {
	Name   string
	Params []Param
	Ret    *Type
	RetAttr string
	Body   []Stmt
	Stage  string // "", "compute", "vertex", "fragment"
	WG     [3]int // workgroup size for compute
	MustUse bool
}
type ConstDecl struct {
	Name string
	Ty   *Type
	Init Expr
	Explicit bool
}
type Alias struct {
	Name string
	Ty   *Type
}

type Module struct {
	Structs []*Type
	Aliases []Alias
	Consts  []ConstDecl
	Globals []Global
	Funcs   []*Func
	// Raw is extra module-scope text emitted verbatim before functions (for features the AST
	// does not model; such modules are never executed by the reference).
	Raw string
}

func (m *Module) Func(name string) *Func {
	for _, f := range m.Funcs {
		if f.Name == name {
			return f
		}
	}
	return nil
}
func (m *Module) Global(name string) *Global {
	for i := range m.Globals {
		if m.Globals[i].Name == name {
			return &m.Globals[i]
		}
	}
	return nil
}
func (m *Module) Entry() *Func {
	for _, f := range m.Funcs {
		if f.Stage != "" {
			return f
		}
	}
	return nil
}

// ---------------------------------------------------------------- helpers for building

func LitI(v int32) *Lit   { return &Lit{Ty: TI32, Bits: uint32(v)} }
func LitU(v uint32) *Lit  { return &Lit{Ty: TU32, Bits: v} }
func LitB(v bool) *Lit {
	if v {
		return &Lit{Ty: TBool, Bits: 1}
	}
	return &Lit{Ty: TBool}
}
func V(name string, t *Type) *Ref   { return &Ref{Name: name, Ty: t, Var: true} }
func L(name string, t *Type) *Ref   { return &Ref{Name: name, Ty: t} }
func Idx(x Expr, i Expr) *Index {
	xt := x.T()
	var et *Type
	switch xt.K {
	case TArray:
		et = xt.Elem
	case TVec:
		et = Scalar(xt.S)
	case TMat:
		et = Vec(xt.S, xt.N)
	case TPtr:
		panic("index through pointer: deref first")
	default:
		panic("index of " + xt.String())
	}
	return &Index{X: x, I: i, Ty: et}
}
func Fld(x Expr, name string) *Field {
	for _, m := range x.T().Members {
		if m.Name == name {
			return &Field{X: x, Name: name, Ty: m.T}
		}
	}
	panic("no member " + name + " in " + x.T().String())
}
func Swizzle(x Expr, pat string) *Swz {
	return &Swz{X: x, Pat: pat, Ty: VecOrScalar(x.T().S, len(pat))}
}

func join(xs []string, sep string) string { return strings.Join(xs, sep) }
