package wgen

import (
	"fmt"
	"strings"
)

// F1s — "every feature alone": one module per overload of every WGSL builtin function / builtin
// value / type feature that needs something declared at module level in a target (a capability, an
// extension, an extended-instruction import, an execution mode, an interface variable), so that no
// other construct of the module can declare it on its behalf. The overload lists are written from
// the WGSL specification (§17 "Built-in Functions", §13.3.1.1 "Built-in Inputs and Outputs"); the
// programs are text (Module.Raw) and are never executed by the reference evaluator.
//
// Every program has the same skeleton per stage:
//   compute : operands are members of a read-only storage struct, the result is stored to a storage variable
//   fragment: operands are @location inputs, the result is the @location(0) output
//   vertex  : operands are @location inputs, the result is folded into the position
// so that the only feature-bearing construct is the one named by the signature.

type F1sProgram struct {
	Sig    string
	Src    string
	Shared bool // only features the repository's README lists as supported (offered to C08/C09 too)
	Image  bool // has a texel load/store: the image bounds-check policies apply
}

type f1sSpec struct {
	sig     string
	enable  string          // directives
	decls   string          // module-scope declarations (resources, workgroup variables, structs)
	ops     []string        // operand types ($0, $1, ... in pre/expr)
	params  map[byte]string // extra entry-point parameters per stage ('c','f','v')
	pre     string          // statements before the result (one per line, already terminated)
	expr    string          // result expression ("" = statements only)
	rty     string          // type of expr
	stages  string          // subset of "cfv"
	wg      string          // workgroup size text (compute), default "1"
	shared  bool
	noShare string // stages of a shared spec that are not offered to the other checks
	image   bool
}

type f1sGen struct{ out []*F1sProgram }

// f1sScalarOf splits "vec3<f32>" into ("f32", 3); "u32" into ("u32", 1).
func f1sScalarOf(t string) (string, int) {
	if strings.HasPrefix(t, "vec") && len(t) > 5 {
		return t[5 : len(t)-1], int(t[3] - '0')
	}
	return t, 1
}

func f1sVec(k string, n int) string {
	if n == 1 {
		return k
	}
	return fmt.Sprintf("vec%d<%s>", n, k)
}

// f1sIO is the interface/storage type that carries a value of type t (bool -> u32).
func f1sIO(t string) string {
	k, n := f1sScalarOf(t)
	if k == "bool" {
		return f1sVec("u32", n)
	}
	return t
}

func f1sFromIO(e, t string) string {
	k, n := f1sScalarOf(t)
	if k != "bool" {
		return e
	}
	if n == 1 {
		return "(" + e + " != 0u)"
	}
	return fmt.Sprintf("(%s != vec%d<u32>(0u))", e, n)
}

func f1sToIO(e, t string) string {
	k, n := f1sScalarOf(t)
	if k != "bool" {
		return e
	}
	return f1sVec("u32", n) + "(" + e + ")"
}

func f1sIsLoc(t string) bool {
	k, _ := f1sScalarOf(f1sIO(t))
	return k == "f32" || k == "i32" || k == "u32" || k == "f16"
}

func f1sToV4(e, t string) string {
	t = f1sIO(t)
	k, n := f1sScalarOf(t)
	f := e
	if k != "f32" {
		f = f1sVec("f32", n) + "(" + e + ")"
	}
	switch n {
	case 1:
		return "vec4<f32>(" + f + ")"
	case 2:
		return "vec4<f32>(" + f + ", 0.0, 1.0)"
	case 3:
		return "vec4<f32>(" + f + ", 1.0)"
	}
	return f
}

func (g *f1sGen) add(s f1sSpec) {
	if s.stages == "" {
		s.stages = "cfv"
	}
	for _, st := range []byte(s.stages) {
		g.render(s, st)
	}
}

func (g *f1sGen) render(s f1sSpec, st byte) {
	var sb strings.Builder
	sb.WriteString(s.enable)
	sb.WriteString(s.decls)
	sub := func(text string, acc func(i int) string) string {
		for i := len(s.ops) - 1; i >= 0; i-- {
			text = strings.ReplaceAll(text, fmt.Sprintf("$%d", i), f1sFromIO(acc(i), s.ops[i]))
		}
		return text
	}
	var params []string
	if p := s.params[st]; p != "" {
		params = append(params, p)
	}
	stage := map[byte]string{'c': "compute", 'f': "fragment", 'v': "vertex"}[st]
	switch st {
	case 'c':
		acc := func(i int) string { return fmt.Sprintf("f1s_in.a%d", i) }
		if len(s.ops) > 0 {
			sb.WriteString("struct F1sIn {")
			for i, t := range s.ops {
				fmt.Fprintf(&sb, " a%d: %s,", i, f1sIO(t))
			}
			sb.WriteString(" }\n@group(0) @binding(6) var<storage, read> f1s_in: F1sIn;\n")
		}
		if s.expr != "" {
			fmt.Fprintf(&sb, "@group(0) @binding(7) var<storage, read_write> f1s_out: %s;\n", f1sIO(s.rty))
		}
		wg := s.wg
		if wg == "" {
			wg = "1"
		}
		fmt.Fprintf(&sb, "@compute @workgroup_size(%s)\nfn main(%s) {\n%s", wg, strings.Join(params, ", "), sub(s.pre, acc))
		if s.expr != "" {
			fmt.Fprintf(&sb, "  f1s_out = %s;\n", f1sToIO(sub(s.expr, acc), s.rty))
		}
		sb.WriteString("}\n")
	case 'f', 'v':
		acc := func(i int) string { return fmt.Sprintf("a%d", i) }
		for i, t := range s.ops {
			io := f1sIO(t)
			k, _ := f1sScalarOf(io)
			flat := ""
			if st == 'f' && (k == "i32" || k == "u32") {
				flat = " @interpolate(flat)"
			}
			params = append(params, fmt.Sprintf("@location(%d)%s a%d: %s", i, flat, i, io))
		}
		if st == 'f' {
			if s.expr != "" {
				fmt.Fprintf(&sb, "@fragment\nfn main(%s) -> @location(0) %s {\n%s  return %s;\n}\n", strings.Join(params, ", "), f1sIO(s.rty), sub(s.pre, acc), f1sToIO(sub(s.expr, acc), s.rty))
			} else {
				fmt.Fprintf(&sb, "@fragment\nfn main(%s) {\n%s}\n", strings.Join(params, ", "), sub(s.pre, acc))
			}
		} else {
			if s.expr != "" {
				fmt.Fprintf(&sb, "@vertex\nfn main(%s) -> @builtin(position) vec4<f32> {\n%s  let f1s_r = %s;\n  return %s;\n}\n", strings.Join(params, ", "), sub(s.pre, acc), f1sToIO(sub(s.expr, acc), s.rty), f1sToV4("f1s_r", s.rty))
			} else {
				fmt.Fprintf(&sb, "@vertex\nfn main(%s) -> @builtin(position) vec4<f32> {\n%s  return vec4<f32>(0.0, 0.0, 0.0, 1.0);\n}\n", strings.Join(params, ", "), sub(s.pre, acc))
			}
		}
	}
	g.out = append(g.out, &F1sProgram{Sig: "F1s/" + s.sig + "/" + stage, Src: sb.String(), Shared: s.shared && !strings.Contains(s.noShare, string(st)), Image: s.image})
}

// ---------------------------------------------------------------- texture types

type f1sTex struct {
	ty      string // WGSL type
	cls     string // signature text
	dim     int    // coordinate components
	kind    string // "1d","2d","3d","cube"
	arr     bool
	ms      bool
	depth   bool
	storage bool
	ch      string // channel type
	access  string
	format  string
}

func f1sSampledTex(ch string) []f1sTex {
	mk := func(name, kind string, dim int, arr, ms bool) f1sTex {
		return f1sTex{ty: "texture_" + name + "<" + ch + ">", cls: name + "<" + ch + ">", dim: dim, kind: kind, arr: arr, ms: ms, ch: ch}
	}
	return []f1sTex{mk("1d", "1d", 1, false, false), mk("2d", "2d", 2, false, false), mk("2d_array", "2d", 2, true, false), mk("3d", "3d", 3, false, false),
		mk("cube", "cube", 3, false, false), mk("cube_array", "cube", 3, true, false), mk("multisampled_2d", "2d", 2, false, true)}
}

func f1sDepthTex() []f1sTex {
	mk := func(name, kind string, dim int, arr, ms bool) f1sTex {
		return f1sTex{ty: "texture_depth_" + name, cls: "depth_" + name, dim: dim, kind: kind, arr: arr, ms: ms, depth: true, ch: "f32"}
	}
	return []f1sTex{mk("2d", "2d", 2, false, false), mk("2d_array", "2d", 2, true, false), mk("cube", "cube", 3, false, false), mk("cube_array", "cube", 3, true, false),
		mk("multisampled_2d", "2d", 2, false, true)}
}

// F1sFormats: the storage texel formats of the WGSL specification with their channel types.
var F1sFormats = [][2]string{
	{"rgba8unorm", "f32"}, {"r32uint", "u32"}, {"rgba16sint", "i32"}, {"rg32float", "f32"}, {"bgra8unorm", "f32"},
	{"rgba8snorm", "f32"}, {"rgba8uint", "u32"}, {"rgba8sint", "i32"}, {"rgba16uint", "u32"}, {"rgba16float", "f32"}, {"r32sint", "i32"}, {"r32float", "f32"},
	{"rg32uint", "u32"}, {"rg32sint", "i32"}, {"rgba32uint", "u32"}, {"rgba32sint", "i32"}, {"rgba32float", "f32"},
}

// f1sFullFormats: formats crossed with every coordinate/index type; the others see the canonical types only.
const f1sFullFormats = 5

func f1sStorageTex(format, ch, access string) []f1sTex {
	mk := func(name, kind string, dim int, arr bool) f1sTex {
		return f1sTex{ty: fmt.Sprintf("texture_storage_%s<%s, %s>", name, format, access), cls: fmt.Sprintf("storage_%s<%s,%s>", name, format, access), dim: dim, kind: kind, arr: arr,
			storage: true, ch: ch, access: access, format: format}
	}
	return []f1sTex{mk("1d", "1d", 1, false), mk("2d", "2d", 2, false), mk("2d_array", "2d", 2, true), mk("3d", "3d", 3, false)}
}

func f1sOffset(dim int) string {
	switch dim {
	case 2:
		return "vec2<i32>(1, -2)"
	case 3:
		return "vec3<i32>(1, -2, 3)"
	}
	return "1"
}

// f1sTexShared: the texture types the README names.
func f1sTexShared(t f1sTex) bool {
	switch t.ty {
	case "texture_2d<f32>", "texture_3d<f32>", "texture_cube<f32>", "texture_depth_2d_array", "texture_depth_2d":
		return true
	}
	return t.storage && t.kind == "2d" && !t.arr && t.access == "write" && (t.format == "rgba8unorm" || t.format == "r32float")
}

var f1sIdx = []string{"i32", "u32"}

func (g *f1sGen) textures(thorough bool) {
	var sampledF, sampledAll, depth, storage []f1sTex
	sampledF = f1sSampledTex("f32")
	for _, ch := range []string{"f32", "i32", "u32"} {
		sampledAll = append(sampledAll, f1sSampledTex(ch)...)
	}
	depth = f1sDepthTex()
	for fi, f := range F1sFormats {
		_ = fi
		for _, acc := range []string{"write", "read", "read_write"} {
			storage = append(storage, f1sStorageTex(f[0], f[1], acc)...)
		}
	}
	fullFormat := func(t f1sTex) bool {
		if thorough {
			return true
		}
		for i := 0; i < f1sFullFormats; i++ {
			if F1sFormats[i][0] == t.format {
				return true
			}
		}
		return false
	}
	texDecl := func(t f1sTex) string { return "@group(0) @binding(0) var t: " + t.ty + ";\n" }
	sampDecl := "@group(0) @binding(1) var s: sampler;\n"
	cmpDecl := "@group(0) @binding(1) var s: sampler_comparison;\n"
	fco := func(t f1sTex) string { return f1sVec("f32", t.dim) }

	// ---- sampling family: name, allowed (float-sampled, depth), extra operands, offset rule, stages
	type sampler struct {
		name     string
		sampled  bool   // on sampled<f32> textures
		depth    bool   // on depth textures
		stages   string // "f" for implicit derivatives
		cmp      bool
		dims1d   bool // 1d allowed
		offset3d bool // offset on 3d allowed (never on cube)
	}
	for _, sm := range []sampler{
		{"textureSample", true, true, "f", false, true, true},
		{"textureSampleBias", true, false, "f", false, false, true},
		{"textureSampleLevel", true, true, "cfv", false, true, true},
		{"textureSampleGrad", true, false, "cfv", false, false, true},
		{"textureSampleCompare", false, true, "f", true, false, false},
		{"textureSampleCompareLevel", false, true, "cfv", true, false, false},
	} {
		var texs []f1sTex
		if sm.sampled {
			texs = append(texs, sampledF...)
		}
		if sm.depth {
			texs = append(texs, depth...)
		}
		for _, t := range texs {
			if t.ms || (t.kind == "1d" && (!sm.dims1d || t.depth)) {
				continue
			}
			offs := []bool{false}
			if t.kind == "2d" || (t.kind == "3d" && sm.offset3d) {
				offs = []bool{false, true}
			}
			ais := []string{""}
			if t.arr {
				ais = f1sIdx
			}
			lvls := []string{""}
			if sm.name == "textureSampleLevel" {
				lvls = []string{"f32"}
				if t.depth {
					lvls = f1sIdx
				}
			}
			for _, off := range offs {
				for _, ai := range ais {
					for _, lv := range lvls {
						ops := []string{fco(t)}
						args := []string{"t", "s", "$0"}
						sig := sm.name + "/" + t.cls
						if ai != "" {
							args = append(args, fmt.Sprintf("$%d", len(ops)))
							ops = append(ops, ai)
							sig += "/ai=" + ai
						}
						switch sm.name {
						case "textureSampleBias":
							args = append(args, fmt.Sprintf("$%d", len(ops)))
							ops = append(ops, "f32")
						case "textureSampleLevel":
							args = append(args, fmt.Sprintf("$%d", len(ops)))
							ops = append(ops, lv)
							sig += "/lvl=" + lv
						case "textureSampleGrad":
							args = append(args, fmt.Sprintf("$%d", len(ops)), fmt.Sprintf("$%d", len(ops)+1))
							ops = append(ops, fco(t), fco(t))
						case "textureSampleCompare", "textureSampleCompareLevel":
							args = append(args, fmt.Sprintf("$%d", len(ops)))
							ops = append(ops, "f32")
						}
						if off {
							args = append(args, f1sOffset(t.dim))
							sig += "/offset"
						}
						rty := "vec4<f32>"
						if t.depth {
							rty = "f32"
						}
						sd := sampDecl
						if sm.cmp {
							sd = cmpDecl
						}
						shared := f1sTexShared(t) && (sm.name == "textureSample" || sm.name == "textureSampleCompare") && ai != "u32"
						g.add(f1sSpec{sig: sig, decls: texDecl(t) + sd, ops: ops, expr: sm.name + "(" + strings.Join(args, ", ") + ")", rty: rty, stages: sm.stages, shared: shared})
					}
				}
			}
		}
	}
	// textureSampleBaseClampToEdge
	g.add(f1sSpec{sig: "textureSampleBaseClampToEdge/2d<f32>", decls: texDecl(sampledF[1]) + sampDecl, ops: []string{"vec2<f32>"}, expr: "textureSampleBaseClampToEdge(t, s, $0)", rty: "vec4<f32>"})

	// ---- gather
	for _, t := range sampledAll {
		if t.ms || t.kind == "1d" || t.kind == "3d" {
			continue
		}
		offs := []bool{false}
		if t.kind == "2d" {
			offs = []bool{false, true}
		}
		ais := []string{""}
		if t.arr {
			ais = f1sIdx
		}
		for _, comp := range []string{"0", "1", "2", "3", "0u", "3u"} {
			for _, off := range offs {
				for _, ai := range ais {
					ops := []string{fco(t)}
					args := []string{comp, "t", "s", "$0"}
					sig := "textureGather/" + t.cls + "/c=" + comp
					if ai != "" {
						args = append(args, "$1")
						ops = append(ops, ai)
						sig += "/ai=" + ai
					}
					if off {
						args = append(args, f1sOffset(t.dim))
						sig += "/offset"
					}
					g.add(f1sSpec{sig: sig, decls: texDecl(t) + sampDecl, ops: ops, expr: "textureGather(" + strings.Join(args, ", ") + ")", rty: "vec4<" + t.ch + ">",
						shared: f1sTexShared(t) && !strings.HasSuffix(comp, "u")})
				}
			}
		}
	}
	for _, cmp := range []bool{false, true} {
		for _, t := range depth {
			if t.ms {
				continue
			}
			offs := []bool{false}
			if t.kind == "2d" {
				offs = []bool{false, true}
			}
			ais := []string{""}
			if t.arr {
				ais = f1sIdx
			}
			for _, off := range offs {
				for _, ai := range ais {
					name := "textureGather"
					sd := sampDecl
					if cmp {
						name = "textureGatherCompare"
						sd = cmpDecl
					}
					ops := []string{fco(t)}
					args := []string{"t", "s", "$0"}
					sig := name + "/" + t.cls
					if ai != "" {
						args = append(args, fmt.Sprintf("$%d", len(ops)))
						ops = append(ops, ai)
						sig += "/ai=" + ai
					}
					if cmp {
						args = append(args, fmt.Sprintf("$%d", len(ops)))
						ops = append(ops, "f32")
					}
					if off {
						args = append(args, f1sOffset(t.dim))
						sig += "/offset"
					}
					g.add(f1sSpec{sig: sig, decls: texDecl(t) + sd, ops: ops, expr: name + "(" + strings.Join(args, ", ") + ")", rty: "vec4<f32>",
						shared: !cmp && f1sTexShared(t) && ai != "u32"})
				}
			}
		}
	}

	// ---- textureLoad
	ico := func(t f1sTex, c string) string { return f1sVec(c, t.dim) }
	var loadable []f1sTex
	for _, t := range sampledAll {
		if t.kind != "cube" {
			loadable = append(loadable, t)
		}
	}
	for _, t := range depth {
		if t.kind != "cube" {
			loadable = append(loadable, t)
		}
	}
	for _, t := range loadable {
		for _, c := range f1sIdx {
			ais := []string{""}
			if t.arr {
				ais = f1sIdx
			}
			for _, ai := range ais {
				for _, lv := range f1sIdx {
					ops := []string{ico(t, c)}
					args := []string{"t", "$0"}
					sig := "textureLoad/" + t.cls + "/co=" + c
					if ai != "" {
						args = append(args, fmt.Sprintf("$%d", len(ops)))
						ops = append(ops, ai)
						sig += "/ai=" + ai
					}
					args = append(args, fmt.Sprintf("$%d", len(ops)))
					ops = append(ops, lv)
					if t.ms {
						sig += "/sample=" + lv
					} else {
						sig += "/lvl=" + lv
					}
					rty := "vec4<" + t.ch + ">"
					if t.depth {
						rty = "f32"
					}
					g.add(f1sSpec{sig: sig, decls: texDecl(t), ops: ops, expr: "textureLoad(" + strings.Join(args, ", ") + ")", rty: rty, image: true,
						shared: f1sTexShared(t) && c == "i32" && lv == "i32" && ai != "u32"})
				}
			}
		}
	}
	for _, t := range storage {
		if t.access == "write" {
			continue
		}
		cs := f1sIdx
		if !fullFormat(t) {
			cs = f1sIdx[:1]
		}
		for _, c := range cs {
			ais := []string{""}
			if t.arr {
				ais = cs
			}
			for _, ai := range ais {
				ops := []string{ico(t, c)}
				args := []string{"t", "$0"}
				sig := "textureLoad/" + t.cls + "/co=" + c
				if ai != "" {
					args = append(args, "$1")
					ops = append(ops, ai)
					sig += "/ai=" + ai
				}
				stages := "cf"
				if t.access == "read" {
					stages = "cfv"
				}
				g.add(f1sSpec{sig: sig, decls: texDecl(t), ops: ops, expr: "textureLoad(" + strings.Join(args, ", ") + ")", rty: "vec4<" + t.ch + ">", stages: stages, image: true})
			}
		}
	}
	// ---- textureStore
	for _, t := range storage {
		if t.access == "read" {
			continue
		}
		cs := f1sIdx
		if !fullFormat(t) {
			cs = f1sIdx[:1]
		}
		for _, c := range cs {
			ais := []string{""}
			if t.arr {
				ais = cs
			}
			for _, ai := range ais {
				ops := []string{ico(t, c)}
				args := []string{"t", "$0"}
				sig := "textureStore/" + t.cls + "/co=" + c
				if ai != "" {
					args = append(args, fmt.Sprintf("$%d", len(ops)))
					ops = append(ops, ai)
					sig += "/ai=" + ai
				}
				args = append(args, fmt.Sprintf("$%d", len(ops)))
				ops = append(ops, "vec4<"+t.ch+">")
				g.add(f1sSpec{sig: sig, decls: texDecl(t), ops: ops, pre: "  textureStore(" + strings.Join(args, ", ") + ");\n", stages: "cf", image: true,
					shared: f1sTexShared(t) && c == "i32"})
			}
		}
	}
	// ---- queries
	var all []f1sTex
	all = append(all, sampledAll...)
	all = append(all, depth...)
	all = append(all, storage...)
	for _, t := range all {
		if t.storage && !fullFormat(t) && t.access != "write" {
			continue
		}
		rty := "vec2<u32>"
		switch {
		case t.kind == "1d":
			rty = "u32"
		case t.kind == "3d":
			rty = "vec3<u32>"
		}
		stages := "cfv"
		if t.storage && t.access != "read" {
			stages = "cf"
		}
		g.add(f1sSpec{sig: "textureDimensions/" + t.cls, decls: texDecl(t), expr: "textureDimensions(t)", rty: rty, stages: stages, shared: f1sTexShared(t)})
		if !t.storage && !t.ms {
			for _, lv := range f1sIdx {
				g.add(f1sSpec{sig: "textureDimensions/" + t.cls + "/lvl=" + lv, decls: texDecl(t), ops: []string{lv}, expr: "textureDimensions(t, $0)", rty: rty, stages: stages,
					shared: f1sTexShared(t) && lv == "i32"})
			}
			g.add(f1sSpec{sig: "textureNumLevels/" + t.cls, decls: texDecl(t), expr: "textureNumLevels(t)", rty: "u32", stages: stages})
		}
		if t.arr {
			g.add(f1sSpec{sig: "textureNumLayers/" + t.cls, decls: texDecl(t), expr: "textureNumLayers(t)", rty: "u32", stages: stages})
		}
		if t.ms {
			g.add(f1sSpec{sig: "textureNumSamples/" + t.cls, decls: texDecl(t), expr: "textureNumSamples(t)", rty: "u32", stages: stages})
		}
	}
}

// ---------------------------------------------------------------- derivatives, packing, subgroups, atomics, barriers

func (g *f1sGen) derivatives() {
	for _, fn := range []string{"dpdx", "dpdy", "fwidth", "dpdxCoarse", "dpdyCoarse", "fwidthCoarse", "dpdxFine", "dpdyFine", "fwidthFine"} {
		for n := 1; n <= 4; n++ {
			t := f1sVec("f32", n)
			g.add(f1sSpec{sig: fn + "/" + t, ops: []string{t}, expr: fn + "($0)", rty: t, stages: "f", shared: true})
			// the same call inside a helper function (the capability must not depend on where the call sits)
			g.add(f1sSpec{sig: fn + "/" + t + "/helper", decls: fmt.Sprintf("fn helper(x: %s) -> %s { return %s(x); }\n", t, t, fn), ops: []string{t}, expr: "helper($0)", rty: t, stages: "f", shared: n == 1})
		}
	}
}

func (g *f1sGen) packing() {
	type pk struct{ fn, arg, ret string }
	for _, p := range []pk{
		{"pack4x8snorm", "vec4<f32>", "u32"}, {"pack4x8unorm", "vec4<f32>", "u32"}, {"pack2x16snorm", "vec2<f32>", "u32"}, {"pack2x16unorm", "vec2<f32>", "u32"},
		{"pack2x16float", "vec2<f32>", "u32"}, {"pack4xI8", "vec4<i32>", "u32"}, {"pack4xU8", "vec4<u32>", "u32"}, {"pack4xI8Clamp", "vec4<i32>", "u32"},
		{"pack4xU8Clamp", "vec4<u32>", "u32"}, {"unpack4x8snorm", "u32", "vec4<f32>"}, {"unpack4x8unorm", "u32", "vec4<f32>"}, {"unpack2x16snorm", "u32", "vec2<f32>"},
		{"unpack2x16unorm", "u32", "vec2<f32>"}, {"unpack2x16float", "u32", "vec2<f32>"}, {"unpack4xI8", "u32", "vec4<i32>"}, {"unpack4xU8", "u32", "vec4<u32>"},
	} {
		g.add(f1sSpec{sig: p.fn, ops: []string{p.arg}, expr: p.fn + "($0)", rty: p.ret, shared: true})
	}
	g.add(f1sSpec{sig: "dot4I8Packed", ops: []string{"u32", "u32"}, expr: "dot4I8Packed($0, $1)", rty: "i32"})
	g.add(f1sSpec{sig: "dot4U8Packed", ops: []string{"u32", "u32"}, expr: "dot4U8Packed($0, $1)", rty: "u32"})
	for n := 1; n <= 4; n++ {
		t := f1sVec("f32", n)
		g.add(f1sSpec{sig: "quantizeToF16/" + t, ops: []string{t}, expr: "quantizeToF16($0)", rty: t, shared: true})
	}
}

func (g *f1sGen) subgroups() {
	en := "enable subgroups;\n"
	num := []string{"i32", "u32", "f32"}
	ints := []string{"i32", "u32"}
	one := func(fn string, kinds []string, extra string, extraOps []string, stages string, sigx string) {
		for _, k := range kinds {
			for n := 1; n <= 4; n++ {
				t := f1sVec(k, n)
				ops := append([]string{t}, extraOps...)
				// (an abstract-int literal id stays abstract in the IR, which C09 reports: those variants are checked here only)
				g.add(f1sSpec{sig: fn + "/" + t + sigx, enable: en, ops: ops, expr: fn + "($0" + extra + ")", rty: t, stages: stages,
					shared: (n == 1 || n == 4) && sigx != "/id=0" && sigx != "/id=3"})
			}
		}
	}
	for _, fn := range []string{"subgroupAdd", "subgroupExclusiveAdd", "subgroupInclusiveAdd", "subgroupMul", "subgroupExclusiveMul", "subgroupInclusiveMul", "subgroupMin", "subgroupMax"} {
		one(fn, num, "", nil, "cf", "")
	}
	for _, fn := range []string{"subgroupAnd", "subgroupOr", "subgroupXor"} {
		one(fn, ints, "", nil, "cf", "")
	}
	one("subgroupBroadcastFirst", num, "", nil, "cf", "")
	for _, id := range []string{"0", "3", "1u"} {
		one("subgroupBroadcast", num, ", "+id, nil, "cf", "/id="+id)
		one("quadBroadcast", num, ", "+id, nil, "cf", "/id="+id)
	}
	for _, id := range ints {
		one("subgroupShuffle", num, ", $1", []string{id}, "cf", "/id="+id)
	}
	for _, fn := range []string{"subgroupShuffleXor", "subgroupShuffleUp", "subgroupShuffleDown"} {
		one(fn, num, ", $1", []string{"u32"}, "cf", "")
	}
	for _, fn := range []string{"quadSwapX", "quadSwapY", "quadSwapDiagonal"} {
		one(fn, num, "", nil, "cf", "")
	}
	g.add(f1sSpec{sig: "subgroupAll", enable: en, ops: []string{"bool"}, expr: "subgroupAll($0)", rty: "bool", stages: "cf"})
	g.add(f1sSpec{sig: "subgroupAny", enable: en, ops: []string{"bool"}, expr: "subgroupAny($0)", rty: "bool", stages: "cf"})
	g.add(f1sSpec{sig: "subgroupBallot", enable: en, ops: []string{"bool"}, expr: "subgroupBallot($0)", rty: "vec4<u32>", stages: "cf", shared: true})
	g.add(f1sSpec{sig: "subgroupElect", enable: en, expr: "subgroupElect()", rty: "bool", stages: "cf"})
	g.add(f1sSpec{sig: "subgroupBarrier", enable: en, pre: "  subgroupBarrier();\n", stages: "c", shared: true})
	// subgroup builtin values, alone and unused
	for _, b := range []struct{ name, stages string }{{"subgroup_invocation_id", "cf"}, {"subgroup_size", "cf"}, {"num_subgroups", "c"}, {"subgroup_id", "c"}} {
		p := "@builtin(" + b.name + ") b: u32"
		g.add(f1sSpec{sig: "builtin/" + b.name, enable: en, params: map[byte]string{'c': p, 'f': p}, expr: "b", rty: "u32", stages: b.stages})
		g.add(f1sSpec{sig: "builtin/" + b.name + "/unused", enable: en, params: map[byte]string{'c': p, 'f': p}, ops: []string{"u32"}, expr: "$0", rty: "u32", stages: b.stages})
	}
}

func (g *f1sGen) atomics() {
	for _, space := range []string{"storage", "workgroup"} {
		for _, k := range []string{"u32", "i32"} {
			for _, shape := range []string{"bare", "array", "member", "nested"} {
				var ty, ref, decl string
				switch shape {
				case "bare":
					ty, ref = "atomic<"+k+">", "&at"
				case "array":
					ty, ref = "array<atomic<"+k+">, 4>", "&at[1]"
				case "member":
					decl = "struct AtS { pad: u32, a: atomic<" + k + "> }\n"
					ty, ref = "AtS", "&at.a"
				case "nested":
					decl = "struct AtI { a: array<atomic<" + k + ">, 2> }\nstruct AtS { pad: vec2<u32>, i: array<AtI, 2> }\n"
					ty, ref = "AtS", "&at.i[1].a[1]"
				}
				stages := "cf"
				if space == "storage" {
					decl += "@group(0) @binding(0) var<storage, read_write> at: " + ty + ";\n"
				} else {
					decl += "var<workgroup> at: " + ty + ";\n"
					stages = "c"
				}
				base := "atomic/" + space + "/" + k + "/" + shape + "/"
				sh := shape == "bare" || shape == "member"
				g.add(f1sSpec{sig: base + "atomicLoad", decls: decl, expr: "atomicLoad(" + ref + ")", rty: k, stages: stages, shared: sh})
				g.add(f1sSpec{sig: base + "atomicStore", decls: decl, ops: []string{k}, pre: "  atomicStore(" + ref + ", $0);\n", stages: stages}) // (its IR fails C09's emit rule: checked here only)
				for _, fn := range []string{"atomicAdd", "atomicSub", "atomicMax", "atomicMin", "atomicAnd", "atomicOr", "atomicXor", "atomicExchange"} {
					g.add(f1sSpec{sig: base + fn, decls: decl, ops: []string{k}, expr: fn + "(" + ref + ", $0)", rty: k, stages: stages, shared: sh})
					if shape == "bare" {
						g.add(f1sSpec{sig: base + fn + "/stmt", decls: decl, ops: []string{k}, pre: "  " + fn + "(" + ref + ", $0);\n", stages: stages, shared: true})
					}
				}
				g.add(f1sSpec{sig: base + "atomicCompareExchangeWeak/old", decls: decl, ops: []string{k, k}, expr: "atomicCompareExchangeWeak(" + ref + ", $0, $1).old_value", rty: k, stages: stages, shared: sh})
				g.add(f1sSpec{sig: base + "atomicCompareExchangeWeak/exchanged", decls: decl, ops: []string{k, k}, expr: "atomicCompareExchangeWeak(" + ref + ", $0, $1).exchanged", rty: "bool", stages: stages, shared: sh})
			}
		}
	}
}

func (g *f1sGen) barriers() {
	for _, b := range []string{"workgroupBarrier", "storageBarrier", "textureBarrier"} {
		g.add(f1sSpec{sig: b, pre: "  " + b + "();\n", stages: "c", shared: true})
		g.add(f1sSpec{sig: b + "/helper", decls: "fn helper() { " + b + "(); }\n", pre: "  helper();\n", stages: "c", shared: true})
	}
	for _, t := range []string{"u32", "i32", "f32", "vec2<f32>", "vec3<u32>", "vec4<i32>", "array<u32, 4>", "mat2x2<f32>"} {
		decl := "var<workgroup> w: " + t + ";\n"
		rty, expr := t, "workgroupUniformLoad(&w)"
		switch t {
		case "array<u32, 4>":
			rty, expr = "u32", "workgroupUniformLoad(&w)[1]"
		case "mat2x2<f32>":
			rty, expr = "vec2<f32>", "workgroupUniformLoad(&w)[1]"
		}
		g.add(f1sSpec{sig: "workgroupUniformLoad/" + t, decls: decl, expr: expr, rty: rty, stages: "c", shared: t == "u32" || t == "vec2<f32>"})
	}
	g.add(f1sSpec{sig: "workgroupUniformLoad/atomic<u32>", decls: "var<workgroup> w: atomic<u32>;\n", expr: "workgroupUniformLoad(&w)", rty: "u32", stages: "c"})
	for _, t := range []string{"u32", "vec4<f32>"} {
		g.add(f1sSpec{sig: "arrayLength/" + t, decls: "@group(0) @binding(0) var<storage, read> rt: array<" + t + ">;\n", expr: "arrayLength(&rt)", rty: "u32", shared: true})
		g.add(f1sSpec{sig: "arrayLength/member/" + t, decls: "struct RtS { n: u32, d: array<" + t + "> }\n@group(0) @binding(0) var<storage, read_write> rt: RtS;\n", expr: "arrayLength(&rt.d)", rty: "u32", stages: "cf", shared: true})
	}
}

// ---------------------------------------------------------------- builtin values

func (g *f1sGen) builtinValues() {
	emit := func(sig, src string, shared bool) {
		g.out = append(g.out, &F1sProgram{Sig: "F1s/builtin/" + sig, Src: src, Shared: shared})
	}
	outBuf := func(t string) string { return "@group(0) @binding(7) var<storage, read_write> f1s_out: " + t + ";\n" }
	// compute inputs
	for _, b := range []struct{ name, ty string }{{"local_invocation_id", "vec3<u32>"}, {"local_invocation_index", "u32"}, {"global_invocation_id", "vec3<u32>"},
		{"workgroup_id", "vec3<u32>"}, {"num_workgroups", "vec3<u32>"}} {
		sh := b.name == "global_invocation_id"
		for _, wg := range []string{"1", "2, 3", "2, 3, 4"} {
			sfx := "/wg=" + strings.ReplaceAll(wg, ", ", "x")
			emit(b.name+"/param"+sfx+"/compute", outBuf(b.ty)+fmt.Sprintf("@compute @workgroup_size(%s)\nfn main(@builtin(%s) b: %s) {\n  f1s_out = b;\n}\n", wg, b.name, b.ty), sh)
		}
		emit(b.name+"/struct/compute", outBuf(b.ty)+fmt.Sprintf("struct CIn { @builtin(%s) b: %s }\n@compute @workgroup_size(1)\nfn main(i: CIn) {\n  f1s_out = i.b;\n}\n", b.name, b.ty), sh)
		emit(b.name+"/unused/compute", outBuf("u32")+fmt.Sprintf("@compute @workgroup_size(1)\nfn main(@builtin(%s) b: %s) {\n  f1s_out = 1u;\n}\n", b.name, b.ty), sh)
		emit(b.name+"/helper/compute", outBuf(b.ty)+fmt.Sprintf("fn helper(x: %s) { f1s_out = x; }\n@compute @workgroup_size(1)\nfn main(@builtin(%s) b: %s) {\n  helper(b);\n}\n", b.ty, b.name, b.ty), sh)
	}
	emit("none/compute", outBuf("u32")+"@compute @workgroup_size(1)\nfn main() {\n  f1s_out = 1u;\n}\n", true)
	emit("none/empty/compute", "@compute @workgroup_size(1)\nfn main() {\n}\n", true)
	// vertex inputs
	for _, b := range []string{"vertex_index", "instance_index"} {
		emit(b+"/param/vertex", fmt.Sprintf("@vertex\nfn main(@builtin(%s) b: u32) -> @builtin(position) vec4<f32> {\n  return vec4<f32>(f32(b));\n}\n", b), true)
		emit(b+"/struct/vertex", fmt.Sprintf("struct VIn { @builtin(%s) b: u32, @location(0) p: vec4<f32> }\n@vertex\nfn main(i: VIn) -> @builtin(position) vec4<f32> {\n  return i.p * f32(i.b);\n}\n", b), true)
		emit(b+"/unused/vertex", fmt.Sprintf("@vertex\nfn main(@builtin(%s) b: u32) -> @builtin(position) vec4<f32> {\n  return vec4<f32>(1.0);\n}\n", b), true)
	}
	emit("vertex_index+instance_index/vertex", "@vertex\nfn main(@builtin(vertex_index) v: u32, @builtin(instance_index) i: u32) -> @builtin(position) vec4<f32> {\n  return vec4<f32>(f32(v), f32(i), 0.0, 1.0);\n}\n", true)
	// vertex outputs
	emit("position/bare/vertex", "@vertex\nfn main() -> @builtin(position) vec4<f32> {\n  return vec4<f32>(0.0, 0.0, 0.0, 1.0);\n}\n", true)
	emit("position/invariant/vertex", "@vertex\nfn main(@location(0) p: vec4<f32>) -> @builtin(position) @invariant vec4<f32> {\n  return p;\n}\n", false)
	for _, order := range []string{"pos-first", "pos-last", "pos-middle"} {
		var mem string
		switch order {
		case "pos-first":
			mem = "@builtin(position) p: vec4<f32>, @location(0) a: vec2<f32>, @location(1) @interpolate(flat) c: u32"
		case "pos-last":
			mem = "@location(0) a: vec2<f32>, @location(1) @interpolate(flat) c: u32, @builtin(position) p: vec4<f32>"
		case "pos-middle":
			mem = "@location(0) a: vec2<f32>, @builtin(position) p: vec4<f32>, @location(1) @interpolate(flat) c: u32"
		}
		emit("position/struct/"+order+"/vertex", "struct VOut { "+mem+" }\n@vertex\nfn main(@location(0) q: vec4<f32>) -> VOut {\n  var o: VOut;\n  o.p = q;\n  o.a = q.xy;\n  o.c = 7u;\n  return o;\n}\n", true)
	}
	for _, n := range []int{1, 4, 8} {
		emit(fmt.Sprintf("clip_distances/%d/vertex", n), fmt.Sprintf("enable clip_distances;\nstruct VOut { @builtin(position) p: vec4<f32>, @builtin(clip_distances) cd: array<f32, %d> }\n@vertex\nfn main(@location(0) q: vec4<f32>) -> VOut {\n  var o: VOut;\n  o.p = q;\n  o.cd[0] = q.x;\n  return o;\n}\n", n), false)
	}
	// fragment inputs
	for _, b := range []struct{ name, ty, conv, en string }{{"position", "vec4<f32>", "b", ""}, {"front_facing", "bool", "vec4<f32>(f32(b))", ""}, {"sample_index", "u32", "vec4<f32>(f32(b))", ""},
		{"sample_mask", "u32", "vec4<f32>(f32(b))", ""}, {"primitive_index", "u32", "vec4<f32>(f32(b))", "enable primitive_index;\n"}, {"view_index", "i32", "vec4<f32>(f32(b))", ""},
		{"view_index", "u32", "vec4<f32>(f32(b))", ""}} {
		sh := b.name == "position"
		sig := b.name
		if b.name == "view_index" {
			sig += "/" + b.ty
		}
		emit(sig+"/param/fragment", b.en+fmt.Sprintf("@fragment\nfn main(@builtin(%s) b: %s) -> @location(0) vec4<f32> {\n  return %s;\n}\n", b.name, b.ty, b.conv), sh)
		emit(sig+"/struct/fragment", b.en+fmt.Sprintf("struct FIn { @location(0) c: vec4<f32>, @builtin(%s) b: %s }\n@fragment\nfn main(i: FIn) -> @location(0) vec4<f32> {\n  let b = i.b;\n  return i.c + %s;\n}\n", b.name, b.ty, b.conv), sh)
		emit(sig+"/unused/fragment", b.en+fmt.Sprintf("@fragment\nfn main(@builtin(%s) b: %s) -> @location(0) vec4<f32> {\n  return vec4<f32>(1.0);\n}\n", b.name, b.ty), sh)
	}
	// fragment outputs
	emit("none/fragment", "@fragment\nfn main() {\n}\n", false)
	emit("location/bare/fragment", "@fragment\nfn main() -> @location(0) vec4<f32> {\n  return vec4<f32>(1.0);\n}\n", true)
	emit("frag_depth/bare/fragment", "@fragment\nfn main(@builtin(position) p: vec4<f32>) -> @builtin(frag_depth) f32 {\n  return p.z;\n}\n", false)
	emit("frag_depth/const/fragment", "@fragment\nfn main() -> @builtin(frag_depth) f32 {\n  return 0.5;\n}\n", false)
	emit("sample_mask/bare/fragment", "@fragment\nfn main() -> @builtin(sample_mask) u32 {\n  return 5u;\n}\n", false)
	for _, set := range [][]string{{"frag_depth"}, {"sample_mask"}, {"frag_depth", "sample_mask"}, {"sample_mask", "frag_depth"}} {
		for _, locFirst := range []bool{true, false} {
			var mem, body []string
			if locFirst {
				mem = append(mem, "@location(0) c: vec4<f32>")
			}
			for _, b := range set {
				if b == "frag_depth" {
					mem = append(mem, "@builtin(frag_depth) d: f32")
					body = append(body, "  o.d = 0.25;\n")
				} else {
					mem = append(mem, "@builtin(sample_mask) m: u32")
					body = append(body, "  o.m = 3u;\n")
				}
			}
			if !locFirst {
				mem = append(mem, "@location(0) c: vec4<f32>")
			}
			emit(strings.Join(set, "+")+fmt.Sprintf("/struct/locfirst=%v/fragment", locFirst), "struct FOut { "+strings.Join(mem, ", ")+" }\n@fragment\nfn main() -> FOut {\n  var o: FOut;\n  o.c = vec4<f32>(1.0);\n"+strings.Join(body, "")+"  return o;\n}\n", false)
		}
	}
	emit("sample_mask/in+out/fragment", "@fragment\nfn main(@builtin(sample_mask) i: u32) -> @builtin(sample_mask) u32 {\n  return i & 1u;\n}\n", false)
	emit("discard/fragment", "@fragment\nfn main(@location(0) a: f32) -> @location(0) vec4<f32> {\n  if a < 0.0 { discard; }\n  return vec4<f32>(a);\n}\n", true)
	emit("discard/helper/fragment", "fn helper(a: f32) { if a < 0.0 { discard; } }\n@fragment\nfn main(@location(0) a: f32) -> @location(0) vec4<f32> {\n  helper(a);\n  return vec4<f32>(a);\n}\n", true)
	// interpolation: every (type, sampling) pair of the specification, as fragment input and as vertex output
	for _, it := range []string{"perspective", "linear", "flat"} {
		samps := []string{"", "center", "centroid", "sample"}
		if it == "flat" {
			samps = []string{"", "first", "either"}
		}
		for _, sp := range samps {
			attr := "@interpolate(" + it
			if sp != "" {
				attr += ", " + sp
			}
			attr += ")"
			sig := "interpolate/" + it + "/" + sp
			emit(sig+"/fragment", fmt.Sprintf("@fragment\nfn main(@location(0) %s a: vec4<f32>) -> @location(0) vec4<f32> {\n  return a;\n}\n", attr), false)
			emit(sig+"/vertex", fmt.Sprintf("struct VOut { @builtin(position) p: vec4<f32>, @location(0) %s a: vec4<f32> }\n@vertex\nfn main(@location(0) q: vec4<f32>) -> VOut {\n  var o: VOut;\n  o.p = q;\n  o.a = q;\n  return o;\n}\n", attr), false)
		}
	}
	// every location type, alone, in every direction
	for _, k := range []string{"f32", "i32", "u32"} {
		for n := 1; n <= 4; n++ {
			t := f1sVec(k, n)
			flat := ""
			if k != "f32" {
				flat = " @interpolate(flat)"
			}
			emit("location/"+t+"/fragment", fmt.Sprintf("@fragment\nfn main(@location(0)%s a: %s) -> @location(0) %s {\n  return a;\n}\n", flat, t, t), true)
			emit("location/"+t+"/vertex", fmt.Sprintf("struct VOut { @builtin(position) p: vec4<f32>, @location(0)%s a: %s }\n@vertex\nfn main(@location(0) a: %s) -> VOut {\n  var o: VOut;\n  o.p = vec4<f32>(1.0);\n  o.a = a;\n  return o;\n}\n", flat, t, t), true)
		}
	}
}

// ---------------------------------------------------------------- types that need capabilities

func (g *f1sGen) typeFeatures() {
	emit := func(sig, src string) {
		g.out = append(g.out, &F1sProgram{Sig: "F1s/type/" + sig, Src: src})
	}
	type ext struct{ k, en, one string }
	for _, e := range []ext{{"f16", "enable f16;\n", "1.0h"}, {"i64", "", "1li"}, {"u64", "", "1lu"}, {"f64", "", "1.0lf"}} {
		shapes := []string{e.k, "vec2<" + e.k + ">", "vec3<" + e.k + ">", "vec4<" + e.k + ">"}
		if e.k == "f16" {
			shapes = append(shapes, "mat2x2<f16>", "mat3x4<f16>", "mat4x3<f16>")
		}
		for _, t := range shapes {
			sig := e.k + "/" + t + "/"
			emit(sig+"storage/compute", e.en+fmt.Sprintf("@group(0) @binding(0) var<storage, read_write> b: %s;\n@compute @workgroup_size(1)\nfn main() {\n  b = b + b;\n}\n", t))
			emit(sig+"storage-array/compute", e.en+fmt.Sprintf("@group(0) @binding(0) var<storage, read_write> b: array<%s>;\n@compute @workgroup_size(1)\nfn main() {\n  b[1] = b[0];\n}\n", t))
			emit(sig+"storage-member/compute", e.en+fmt.Sprintf("struct S { pad: u32, m: %s }\n@group(0) @binding(0) var<storage, read_write> b: S;\n@compute @workgroup_size(1)\nfn main() {\n  b.m = b.m + b.m;\n}\n", t))
			emit(sig+"uniform/compute", e.en+fmt.Sprintf("struct S { m: %s }\n@group(0) @binding(0) var<uniform> u: S;\n@group(0) @binding(1) var<storage, read_write> o: u32;\n@compute @workgroup_size(1)\nfn main() {\n  let v = u.m;\n  o = 1u;\n}\n", t))
			emit(sig+"private/compute", e.en+fmt.Sprintf("var<private> p: %s;\n@group(0) @binding(1) var<storage, read_write> o: u32;\n@compute @workgroup_size(1)\nfn main() {\n  p = p + p;\n  o = 1u;\n}\n", t))
			emit(sig+"workgroup/compute", e.en+fmt.Sprintf("var<workgroup> w: %s;\n@group(0) @binding(1) var<storage, read_write> o: u32;\n@compute @workgroup_size(1)\nfn main() {\n  w = w + w;\n  o = 1u;\n}\n", t))
			emit(sig+"local/compute", e.en+fmt.Sprintf("@group(0) @binding(1) var<storage, read_write> o: u32;\n@compute @workgroup_size(1)\nfn main() {\n  var l: %s;\n  l = l + l;\n  o = 1u;\n}\n", t))
			emit(sig+"param/compute", e.en+fmt.Sprintf("@group(0) @binding(1) var<storage, read_write> o: u32;\nfn helper(x: %s) -> %s { return x + x; }\n@compute @workgroup_size(1)\nfn main() {\n  let r = helper(%s());\n  o = 1u;\n}\n", t, t, t))
			if !strings.HasPrefix(t, "mat") && e.k == "f16" {
				emit(sig+"location/fragment", e.en+fmt.Sprintf("@fragment\nfn main(@location(0) a: %s) -> @location(0) %s {\n  return a + a;\n}\n", t, t))
				emit(sig+"location/vertex", e.en+fmt.Sprintf("struct VOut { @builtin(position) p: vec4<f32>, @location(0) a: %s }\n@vertex\nfn main(@location(0) a: %s) -> VOut {\n  var o: VOut;\n  o.p = vec4<f32>(1.0);\n  o.a = a;\n  return o;\n}\n", t, t))
				emit(sig+"convert/compute", e.en+fmt.Sprintf("@group(0) @binding(0) var<storage, read_write> b: %s;\n@compute @workgroup_size(1)\nfn main() {\n  b = %s(%s(b));\n}\n", strings.Replace(t, "f16", "f32", 1), strings.Replace(t, "f16", "f32", 1), t))
			}
		}
	}
	for _, k := range []string{"i64", "u64"} {
		for _, space := range []string{"storage", "workgroup"} {
			decl := "@group(0) @binding(0) var<storage, read_write> at: atomic<" + k + ">;\n"
			if space == "workgroup" {
				decl = "var<workgroup> at: atomic<" + k + ">;\n"
			}
			for _, fn := range []string{"atomicAdd", "atomicMax", "atomicMin", "atomicAnd", "atomicExchange"} {
				emit("atomic64/"+k+"/"+space+"/"+fn+"/compute", decl+"@group(0) @binding(1) var<storage, read_write> v: "+k+";\n@compute @workgroup_size(1)\nfn main() {\n  "+fn+"(&at, v);\n}\n")
			}
			emit("atomic64/"+k+"/"+space+"/atomicLoad/compute", decl+"@group(0) @binding(1) var<storage, read_write> v: "+k+";\n@compute @workgroup_size(1)\nfn main() {\n  v = atomicLoad(&at);\n}\n")
			emit("atomic64/"+k+"/"+space+"/atomicStore/compute", decl+"@group(0) @binding(1) var<storage, read_write> v: "+k+";\n@compute @workgroup_size(1)\nfn main() {\n  atomicStore(&at, v);\n}\n")
		}
	}
	for _, fn := range []string{"atomicAdd", "atomicSub", "atomicExchange", "atomicMax", "atomicMin", "atomicLoad", "atomicStore"} {
		call := fn + "(&at, 1.0);"
		switch fn {
		case "atomicLoad":
			call = "o = atomicLoad(&at);"
		}
		emit("atomicf32/storage/"+fn+"/compute", "@group(0) @binding(0) var<storage, read_write> at: atomic<f32>;\n@group(0) @binding(1) var<storage, read_write> o: f32;\n@compute @workgroup_size(1)\nfn main() {\n  "+call+"\n}\n")
	}
	// resources that need descriptor-indexing / ray-query capabilities
	emit("binding_array/sized/fragment", "@group(0) @binding(0) var ts: binding_array<texture_2d<f32>, 4>;\n@group(0) @binding(1) var s: sampler;\n@fragment\nfn main(@location(0) uv: vec2<f32>) -> @location(0) vec4<f32> {\n  return textureSample(ts[1], s, uv);\n}\n")
	emit("binding_array/sized-dynamic/fragment", "@group(0) @binding(0) var ts: binding_array<texture_2d<f32>, 4>;\n@group(0) @binding(1) var s: sampler;\n@fragment\nfn main(@location(0) uv: vec2<f32>, @location(1) @interpolate(flat) i: u32) -> @location(0) vec4<f32> {\n  return textureSampleLevel(ts[i], s, uv, 0.0);\n}\n")
	emit("binding_array/buffers/compute", "struct B { v: u32 }\n@group(0) @binding(0) var<storage, read_write> bs: binding_array<B, 3>;\n@compute @workgroup_size(1)\nfn main(@builtin(local_invocation_index) i: u32) {\n  bs[i].v = bs[0].v;\n}\n")
	emit("binding_array/samplers/fragment", "@group(0) @binding(0) var t: texture_2d<f32>;\n@group(0) @binding(1) var ss: binding_array<sampler, 2>;\n@fragment\nfn main(@location(0) uv: vec2<f32>) -> @location(0) vec4<f32> {\n  return textureSample(t, ss[1], uv);\n}\n")
	emit("ray_query/compute", "@group(0) @binding(0) var acc: acceleration_structure;\n@group(0) @binding(1) var<storage, read_write> o: u32;\n@compute @workgroup_size(1)\nfn main() {\n  var rq: ray_query;\n  rayQueryInitialize(&rq, acc, RayDesc(0u, 0xFFu, 0.1, 100.0, vec3<f32>(0.0), vec3<f32>(0.0, 1.0, 0.0)));\n  while (rayQueryProceed(&rq)) {}\n  let i = rayQueryGetCommittedIntersection(&rq);\n  o = i.kind;\n}\n")
	emit("ray_query/candidate/compute", "@group(0) @binding(0) var acc: acceleration_structure;\n@group(0) @binding(1) var<storage, read_write> o: f32;\n@compute @workgroup_size(1)\nfn main() {\n  var rq: ray_query;\n  rayQueryInitialize(&rq, acc, RayDesc(0u, 0xFFu, 0.1, 100.0, vec3<f32>(0.0), vec3<f32>(0.0, 1.0, 0.0)));\n  rayQueryProceed(&rq);\n  let i = rayQueryGetCandidateIntersection(&rq);\n  o = i.t;\n  rayQueryTerminate(&rq);\n}\n")
	emit("ray_query/fragment", "@group(0) @binding(0) var acc: acceleration_structure;\n@fragment\nfn main(@location(0) d: vec3<f32>) -> @location(0) vec4<f32> {\n  var rq: ray_query;\n  rayQueryInitialize(&rq, acc, RayDesc(0u, 0xFFu, 0.1, 100.0, vec3<f32>(0.0), d));\n  rayQueryProceed(&rq);\n  let i = rayQueryGetCommittedIntersection(&rq);\n  return vec4<f32>(i.t);\n}\n")
	emit("push_constant/f16/compute", "enable f16;\nstruct PC { a: f16, b: vec2<f16> }\nvar<push_constant> pc: PC;\n@group(0) @binding(1) var<storage, read_write> o: f32;\n@compute @workgroup_size(1)\nfn main() {\n  o = f32(pc.a) + f32(pc.b.y);\n}\n")
	emit("barycentric/fragment", "@fragment\nfn main(@builtin(barycentric) b: vec3<f32>) -> @location(0) vec4<f32> {\n  return vec4<f32>(b, 1.0);\n}\n")
	emit("barycentric/per_vertex/fragment", "@fragment\nfn main(@builtin(barycentric) b: vec3<f32>, @location(0) @interpolate(per_vertex) v: array<f32, 3>) -> @location(0) vec4<f32> {\n  return vec4<f32>(b * v[1], 1.0);\n}\n")
	emit("push_constant/compute", "struct PC { a: u32, b: vec2<f32> }\nvar<push_constant> pc: PC;\n@group(0) @binding(1) var<storage, read_write> o: u32;\n@compute @workgroup_size(1)\nfn main() {\n  o = pc.a;\n}\n")
	emit("push_constant/vertex", "struct PC { m: mat4x4<f32> }\nvar<push_constant> pc: PC;\n@vertex\nfn main(@location(0) p: vec4<f32>) -> @builtin(position) vec4<f32> {\n  return pc.m * p;\n}\n")
	emit("dual_source_blending/fragment", "enable dual_source_blending;\nstruct FOut { @location(0) @blend_src(0) a: vec4<f32>, @location(0) @blend_src(1) b: vec4<f32> }\n@fragment\nfn main() -> FOut {\n  return FOut(vec4<f32>(1.0), vec4<f32>(0.5));\n}\n")
	// workgroup memory shapes (zero-initialisation polyfill, copies by value)
	for _, t := range []string{"u32", "vec4<f32>", "array<u32, 4>", "array<vec3<f32>, 3>", "mat3x3<f32>"} {
		emit("workgroup/"+t+"/copy/compute", fmt.Sprintf("var<workgroup> w: %s;\n@group(0) @binding(0) var<storage, read_write> o: %s;\n@compute @workgroup_size(2)\nfn main() {\n  w = o;\n  workgroupBarrier();\n  o = w;\n}\n", t, t))
	}
	emit("workgroup/struct/copy/compute", "struct WS { a: array<f32, 4>, n: u32 }\nvar<workgroup> w: WS;\n@group(0) @binding(0) var<storage, read_write> o: WS;\n@compute @workgroup_size(2)\nfn main() {\n  w = o;\n  workgroupBarrier();\n  o = w;\n}\n")
	emit("workgroup/nested/copy/compute", "struct WI { v: vec3<f32>, a: array<u32, 2> }\nstruct WS { i: array<WI, 2>, m: mat2x2<f32> }\nvar<workgroup> w: WS;\n@group(0) @binding(0) var<storage, read_write> o: WS;\n@compute @workgroup_size(2)\nfn main() {\n  w = o;\n  workgroupBarrier();\n  o = w;\n}\n")
	emit("uniform/struct/copy/compute", "struct US { a: array<vec4<f32>, 4>, n: u32 }\n@group(0) @binding(0) var<uniform> u: US;\n@group(0) @binding(1) var<storage, read_write> o: US;\n@compute @workgroup_size(1)\nfn main() {\n  o = u;\n}\n")
	emit("private/struct/copy/compute", "struct PS { a: array<f32, 4>, n: u32 }\nvar<private> p: PS;\n@group(0) @binding(1) var<storage, read_write> o: PS;\n@compute @workgroup_size(1)\nfn main() {\n  p = o;\n  o = p;\n}\n")
}

// constants: every vector/matrix/array constructor form as a module-scope constant, a function-scope constant
// and a run-time let, each alone (composite-constant emission and its cache).
func (g *f1sGen) constants() {
	lit := map[string][]string{"f32": {"1.5", "2.5", "3.5", "4.5"}, "i32": {"-1", "2", "-3", "4"}, "u32": {"1u", "2u", "3u", "4u"}, "bool": {"true", "false", "true", "true"}}
	type form struct{ name, expr string }
	for _, k := range []string{"f32", "i32", "u32", "bool"} {
		for n := 2; n <= 4; n++ {
			t := f1sVec(k, n)
			forms := []form{{"splat", t + "(" + lit[k][0] + ")"}, {"full", t + "(" + strings.Join(lit[k][:n], ", ") + ")"}, {"zero", t + "()"}}
			if n > 2 {
				forms = append(forms, form{"vec2+rest", t + "(" + f1sVec(k, 2) + "(" + lit[k][0] + ", " + lit[k][1] + "), " + strings.Join(lit[k][2:n], ", ") + ")"})
				forms = append(forms, form{"splat2+rest", t + "(" + f1sVec(k, 2) + "(" + lit[k][0] + "), " + strings.Join(lit[k][2:n], ", ") + ")"})
			}
			for _, f := range forms {
				for _, pos := range []string{"module", "function", "let"} {
					spec := f1sSpec{sig: "const/" + t + "/" + f.name + "/" + pos, rty: t, stages: "c"}
					switch pos {
					case "module":
						spec.decls = "const k: " + t + " = " + f.expr + ";\n"
						spec.expr = "k"
					case "function":
						spec.pre = "  const k = " + f.expr + ";\n"
						spec.expr = "k"
					case "let":
						spec.pre = "  let k = " + f.expr + ";\n"
						spec.expr = "k"
					}
					g.add(spec)
				}
			}
		}
	}
	for _, m := range []struct{ t, splat, full string }{
		{"mat2x2<f32>", "mat2x2<f32>(vec2<f32>(1.0), vec2<f32>(2.0))", "mat2x2<f32>(1.0, 2.0, 3.0, 4.0)"},
		{"mat3x3<f32>", "mat3x3<f32>(vec3<f32>(1.0), vec3<f32>(2.0), vec3<f32>(3.0))", "mat3x3<f32>(1.0, 2.0, 3.0, 4.0, 5.0, 6.0, 7.0, 8.0, 9.0)"},
		{"mat4x2<f32>", "mat4x2<f32>(vec2<f32>(1.0), vec2<f32>(2.0), vec2<f32>(3.0), vec2<f32>(4.0))", "mat4x2<f32>(1.0, 2.0, 3.0, 4.0, 5.0, 6.0, 7.0, 8.0)"},
	} {
		for _, f := range []form{{"splat-columns", m.splat}, {"scalars", m.full}, {"zero", m.t + "()"}} {
			g.add(f1sSpec{sig: "const/" + m.t + "/" + f.name + "/module", decls: "const k: " + m.t + " = " + f.expr + ";\n", expr: "k[1]", rty: "vec" + m.t[5:6] + "<f32>", stages: "c"})
			g.add(f1sSpec{sig: "const/" + m.t + "/" + f.name + "/let", pre: "  let k = " + f.expr + ";\n", expr: "k[1]", rty: "vec" + m.t[5:6] + "<f32>", stages: "c"})
		}
	}
	for _, a := range []struct{ t, e, r string }{
		{"array<f32, 3>", "array<f32, 3>(1.0, 2.0, 3.0)", "f32"}, {"array<f32, 3>/zero", "array<f32, 3>()", "f32"},
		{"array<vec3<f32>, 2>/splat", "array<vec3<f32>, 2>(vec3<f32>(1.0), vec3<f32>(2.0))", "vec3<f32>"},
		{"array<vec3<f32>, 2>/zero-elems", "array<vec3<f32>, 2>(vec3<f32>(), vec3<f32>())", "vec3<f32>"},
		{"array<array<u32, 2>, 2>", "array<array<u32, 2>, 2>(array<u32, 2>(1u, 2u), array<u32, 2>(3u, 4u))", "array<u32, 2>"},
		{"array<array<u32, 2>, 2>/zero-elems", "array<array<u32, 2>, 2>(array<u32, 2>(), array<u32, 2>())", "array<u32, 2>"},
	} {
		ty := a.t
		if i := strings.Index(ty, "/"); i > 0 {
			ty = ty[:i]
		}
		g.add(f1sSpec{sig: "const/" + a.t + "/module", decls: "const k: " + ty + " = " + a.e + ";\n", expr: "k[1]", rty: a.r, stages: "c"})
		g.add(f1sSpec{sig: "const/" + a.t + "/let", pre: "  let k = " + a.e + ";\n", expr: "k[1]", rty: a.r, stages: "c"})
	}
	for _, st := range []struct{ name, e string }{
		{"scalars", "CS(1.0, 2u)"}, {"zero", "CS()"},
	} {
		g.add(f1sSpec{sig: "const/struct/" + st.name + "/module", decls: "struct CS { a: f32, b: u32 }\nconst k: CS = " + st.e + ";\n", expr: "k.b", rty: "u32", stages: "c"})
	}
	for _, st := range []struct{ name, e string }{
		{"array-member", "CS(array<f32, 2>(1.0, 2.0), 2u)"}, {"array-member-zero", "CS(array<f32, 2>(), 2u)"}, {"vec-member-splat", "CS(array<f32, 2>(vec2<f32>(1.0).x, 2.0), 2u)"},
	} {
		g.add(f1sSpec{sig: "const/struct/" + st.name + "/module", decls: "struct CS { a: array<f32, 2>, b: u32 }\nconst k: CS = " + st.e + ";\n", expr: "k.b", rty: "u32", stages: "c"})
	}
}

// texturePairs: two texture variables of different (or differently spelled) types in one module, both queried:
// the image-type table must give each SPIR-V image type exactly one declaration.
func (g *f1sGen) texturePairs() {
	var texs []f1sTex
	for _, ch := range []string{"f32", "i32", "u32"} {
		texs = append(texs, f1sSampledTex(ch)...)
	}
	texs = append(texs, f1sDepthTex()...)
	for _, f := range [][2]string{{"rgba8unorm", "f32"}, {"bgra8unorm", "f32"}, {"r32float", "f32"}, {"r32uint", "u32"}} {
		for _, acc := range []string{"write", "read", "read_write"} {
			texs = append(texs, f1sStorageTex(f[0], f[1], acc)[1]) // 2d
		}
	}
	q := func(name string, t f1sTex) string {
		if t.dim == 1 {
			return "textureDimensions(" + name + ")"
		}
		return "textureDimensions(" + name + ").x"
	}
	for i, a := range texs {
		for j, b := range texs {
			if j < i || (j == i && !a.storage) {
				continue // unordered pairs; a type paired with itself only for storage textures (two variables, one type)
			}
			if a.storage != b.storage && !(a.kind == "2d" && b.kind == "2d") {
				continue
			}
			g.add(f1sSpec{sig: "texpair/" + a.cls + "+" + b.cls, decls: "@group(0) @binding(0) var ta: " + a.ty + ";\n@group(0) @binding(1) var tb: " + b.ty + ";\n",
				expr: q("ta", a) + " + " + q("tb", b), rty: "u32", stages: "f"})
		}
	}
}

var f1sCache [2][]*F1sProgram

// F1sPrograms returns the "feature alone" programs (deterministic order).
func F1sPrograms(thorough bool) []*F1sProgram {
	k := 0
	if thorough {
		k = 1
	}
	if f1sCache[k] != nil {
		return f1sCache[k]
	}
	g := &f1sGen{}
	g.derivatives()
	g.packing()
	g.barriers()
	g.builtinValues()
	g.atomics()
	g.subgroups()
	g.typeFeatures()
	g.constants()
	g.textures(thorough)
	g.texturePairs()
	seen := map[string]bool{}
	for _, p := range g.out {
		if seen[p.Sig] {
			panic("F1s: duplicate signature " + p.Sig)
		}
		seen[p.Sig] = true
	}
	f1sCache[k] = g.out
	return g.out
}

func f1sFamily(name string, ps []*F1sProgram) *Family {
	return &Family{Name: name, Count: len(ps), At: func(i int) *Case {
		return &Case{Family: name, Index: i, Sig: ps[i].Sig, Mod: &Module{Raw: ps[i].Src}, NoExec: true}
	}}
}

// F1sShared: the F1s programs that use only features the repository's README lists as supported.
func F1sShared() *Family {
	var ps []*F1sProgram
	for _, p := range F1sPrograms(false) {
		if p.Shared {
			ps = append(ps, p)
		}
	}
	return f1sFamily("F1sShared", ps)
}

// F1sRest: the F1s programs outside F1sShared (structural validity of SPIR-V only).
func F1sRest(thorough bool) *Family {
	var ps []*F1sProgram
	for _, p := range F1sPrograms(thorough) {
		if !p.Shared {
			ps = append(ps, p)
		}
	}
	name := "F1sRest"
	if thorough {
		name = "F1sRestT"
	}
	return f1sFamily(name, ps)
}
