package wgen

import "strings"

// Module-scope hosts of the C11G family: a declaration with one hole (a const-expression of type i32,
// or a type), optionally two *users* of the declared name, written in every order relative to the
// users. The offending construct is always inside the host declaration, whatever the order.

type C11ModHost struct {
	Name   string
	Kind   byte   // 'e' const-expression hole, 't' type hole
	Decl   string // '§' hole
	U1, U2 string // declarations that use the declared name ("" = none)
	Entry  bool   // Decl is itself a compute entry point
	Needs  []string
}

// Order variants of a module-scope host relative to its users.
var C11ModOrderNames = []string{"alone-first", "before-users", "between-users", "after-users", "alone-last"}

var C11ModHosts = []C11ModHost{
	{Name: "const-init", Kind: 'e', Decl: "const HK = §;", U1: "fn use_hk() -> i32 {\n    return HK;\n}", U2: "const HK2 = HK + 1;"},
	{Name: "const-typed-init", Kind: 'e', Decl: "const HK: i32 = §;", U1: "fn use_hk() -> i32 {\n    return HK;\n}", U2: "const HK2: i32 = HK + 1;"},
	{Name: "const-init-operand", Kind: 'e', Decl: "const HK = 1 + §;", U1: "fn use_hk() -> i32 {\n    return HK;\n}", U2: "var<private> hk2: i32 = HK;"},
	{Name: "private-init", Kind: 'e', Decl: "var<private> hp = §;", U1: "fn use_hp() -> i32 {\n    return hp;\n}", U2: "fn set_hp() {\n    hp = 2;\n}"},
	{Name: "private-typed-init", Kind: 'e', Decl: "var<private> hp: i32 = §;", U1: "fn use_hp() -> i32 {\n    return hp;\n}", U2: "fn set_hp() {\n    hp = 2;\n}"},
	{Name: "override-init", Kind: 'e', Decl: "override ho: i32 = §;", U1: "fn use_ho() -> i32 {\n    return ho;\n}", U2: "fn use_ho2() -> i32 {\n    return ho + 1;\n}"},
	{Name: "override-untyped-init", Kind: 'e', Decl: "override ho = §;", U1: "fn use_ho() -> i32 {\n    return ho;\n}", U2: "fn use_ho2() -> i32 {\n    return ho + 1;\n}"},
	{Name: "alias-array-size", Kind: 'e', Decl: "alias HA = array<i32, §>;", U1: "fn use_ha() -> i32 {\n    var t: HA;\n    return t[0];\n}", U2: "struct HAS { m: HA }"},
	{Name: "private-array-size", Kind: 'e', Decl: "var<private> hg: array<i32, §>;", U1: "fn use_hg() -> i32 {\n    return hg[0];\n}", U2: "fn set_hg() {\n    hg[0] = 1;\n}"},
	{Name: "workgroup-array-size", Kind: 'e', Decl: "var<workgroup> hw: array<i32, §>;", U1: "fn use_hw() -> i32 {\n    return hw[0];\n}", U2: "fn set_hw() {\n    hw[0] = 1;\n}"},
	{Name: "struct-member-array-size", Kind: 'e', Decl: "struct HS {\n    k: i32,\n    m: array<i32, §>,\n}", U1: "fn use_hs() -> i32 {\n    var t: HS;\n    return t.k;\n}", U2: "var<private> ghs: HS;"},
	{Name: "param-array-size", Kind: 'e', Decl: "fn hpa(a: array<i32, §>) -> i32 {\n    return a[0];\n}"},
	{Name: "const-assert-module", Kind: 'e', Decl: "const_assert § > 0;"},
	{Name: "const-assert-module-eq", Kind: 'e', Decl: "const_assert 4 == §;"},
	{Name: "workgroup-size-x", Kind: 'e', Decl: "@compute @workgroup_size(§)\nfn hmain() {\n}", U1: "@compute @workgroup_size(1)\nfn other_main() {\n}", Entry: true},
	{Name: "workgroup-size-y", Kind: 'e', Decl: "@compute @workgroup_size(1, §)\nfn hmain() {\n}", U1: "@compute @workgroup_size(1)\nfn other_main() {\n}", Entry: true},
	{Name: "workgroup-size-z", Kind: 'e', Decl: "@compute @workgroup_size(1, 1, §)\nfn hmain() {\n}", U1: "@compute @workgroup_size(1)\nfn other_main() {\n}", Entry: true},
	{Name: "binding-attr", Kind: 'e', Decl: "@group(0) @binding(§)\nvar<storage, read_write> hb: array<i32, 4>;", U1: "@compute @workgroup_size(1)\nfn use_hb() {\n    hb[0] = 1;\n}", U2: "@compute @workgroup_size(1)\nfn use_hb2() {\n    hb[1] = 2;\n}"},
	{Name: "group-attr", Kind: 'e', Decl: "@group(§) @binding(0)\nvar<storage, read_write> hb: array<i32, 4>;", U1: "@compute @workgroup_size(1)\nfn use_hb() {\n    hb[0] = 1;\n}", U2: "@compute @workgroup_size(1)\nfn use_hb2() {\n    hb[1] = 2;\n}"},
	{Name: "location-attr", Kind: 'e', Decl: "@fragment\nfn hfrag() -> @location(§) vec4<f32> {\n    return vec4<f32>(1.0);\n}"},
	{Name: "align-attr", Kind: 'e', Decl: "struct HAL {\n    @align(§) m: i32,\n    n: i32,\n}", U1: "fn use_hal() -> i32 {\n    var t: HAL;\n    return t.n;\n}", U2: "var<private> ghal: HAL;"},
	{Name: "size-attr", Kind: 'e', Decl: "struct HSZ {\n    @size(§) m: i32,\n    n: i32,\n}", U1: "fn use_hsz() -> i32 {\n    var t: HSZ;\n    return t.n;\n}", U2: "var<private> ghsz: HSZ;"},

	{Name: "module-const-assert", Kind: 's', Decl: "§", U1: "fn between_a() -> i32 {\n    return 1;\n}", U2: "fn between_b() -> i32 {\n    return 2;\n}"},

	{Name: "alias-type", Kind: 't', Decl: "alias HT = §;", U1: "fn use_ht() -> i32 {\n    var t: HT;\n    return 1;\n}", U2: "struct HTS { m: HT }"},
	{Name: "struct-member-type", Kind: 't', Decl: "struct HT {\n    k: i32,\n    m: §,\n}", U1: "fn use_ht() -> i32 {\n    var t: HT;\n    return t.k;\n}", U2: "var<private> ght: HT;"},
	{Name: "private-var-type", Kind: 't', Decl: "var<private> ht: §;", U1: "fn use_ht() -> i32 {\n    let t = ht;\n    return 1;\n}", U2: "fn use_ht2() -> i32 {\n    let t2 = ht;\n    return 2;\n}"},
	{Name: "workgroup-var-type", Kind: 't', Decl: "var<workgroup> ht: §;", U1: "fn use_ht() -> i32 {\n    let t = ht;\n    return 1;\n}", U2: "fn use_ht2() -> i32 {\n    let t2 = ht;\n    return 2;\n}"},
	{Name: "storage-var-type", Kind: 't', Decl: "@group(0) @binding(0)\nvar<storage, read_write> ht: §;", U1: "@compute @workgroup_size(1)\nfn use_ht() {\n    let t = ht;\n}", U2: "@compute @workgroup_size(1)\nfn use_ht2() {\n    let t2 = ht;\n}"},
	{Name: "param-type", Kind: 't', Decl: "fn ht_p(a: §) -> i32 {\n    return 1;\n}"},
	{Name: "param-2nd-type", Kind: 't', Decl: "fn ht_p(k: i32, a: §) -> i32 {\n    return k;\n}"},
	{Name: "return-type", Kind: 't', Decl: "fn ht_r() -> § {\n    var t: array<i32, 4>;\n    return t;\n}"},
	{Name: "pointer-param-type", Kind: 't', Decl: "fn ht_q(p: ptr<function, §>) -> i32 {\n    return 1;\n}"},
	{Name: "pointer-private-param-type", Kind: 't', Decl: "fn ht_q(p: ptr<private, §>) -> i32 {\n    return 1;\n}"},
	{Name: "const-ctor-type", Kind: 't', Decl: "const HTC = §();", U1: "fn use_htc() -> i32 {\n    let t = HTC;\n    return 1;\n}", U2: "const HTC2 = HTC;"},
	{Name: "array-element-type", Kind: 't', Decl: "alias HTA = array<§, 2>;", U1: "fn use_hta() -> i32 {\n    var t: HTA;\n    return 1;\n}", U2: "struct HTAS { m: HTA }"},
	{Name: "private-init-ctor-type", Kind: 't', Decl: "var<private> hti = §();", U1: "fn use_hti() -> i32 {\n    let t = hti;\n    return 1;\n}", U2: "fn use_hti2() -> i32 {\n    let t2 = hti;\n    return 2;\n}"},
}

const c11TrivialMain = "@compute @workgroup_size(1)\nfn main() {\n}"

// C11ModOrders lists the order variants that exist for host h.
func C11ModOrders(h *C11ModHost) []int {
	switch {
	case h.U1 == "":
		return []int{0, 4}
	case h.U2 == "":
		return []int{0, 1, 3}
	}
	return []int{0, 1, 2, 3}
}

// c11Assemble joins declarations and returns the program with the extent of decls[hostIdx] and the
// site at hostIdx's offset + siteInHost.
func c11Assemble(decls []string, hostIdx, siteInHost int) C11Prog {
	var sb strings.Builder
	var p C11Prog
	for i, d := range decls {
		if i == hostIdx {
			p.Lo = sb.Len()
			p.Site = p.Lo + siteInHost
			p.Hi = p.Lo + len(d)
		}
		sb.WriteString(d)
		sb.WriteString("\n\n")
	}
	p.Src = sb.String()
	return p
}

// C11RenderMod assembles a module-scope host program. Support declarations needed by the group go
// first, except in order 3 (after-users) where they follow the host (reversed), so that the
// offending declaration also precedes what it depends on.
func C11RenderMod(h *C11ModHost, ord int, g *C11Group, text string) C11Prog {
	hole := strings.Index(h.Decl, "§")
	decl := h.Decl[:hole] + text + h.Decl[hole+len("§"):]
	needs := append(append([]string{}, h.Needs...), g.Needs...)
	var body []string
	hostIdx := 0
	switch ord {
	case 0:
		body = []string{decl}
	case 1:
		body = []string{decl, h.U1}
		if h.U2 != "" {
			body = append(body, h.U2)
		}
	case 2:
		body = []string{h.U1, decl, h.U2}
		hostIdx = 1
	case 3:
		body = []string{h.U1}
		if h.U2 != "" {
			body = append(body, h.U2)
		}
		hostIdx = len(body)
		body = append(body, decl)
	case 4:
		body = []string{decl}
	}
	var decls []string
	switch ord {
	case 3:
		decls = append(decls, c11TrivialMain)
		hostIdx++
		decls = append(decls, body...)
		decls = append(decls, c11SupportList(needs, true)...)
	case 4:
		sup := c11SupportList(needs, false)
		decls = append(decls, sup...)
		decls = append(decls, c11TrivialMain)
		hostIdx += len(sup) + 1
		decls = append(decls, body...)
	default:
		sup := c11SupportList(needs, false)
		decls = append(decls, sup...)
		hostIdx += len(sup)
		decls = append(decls, body...)
		decls = append(decls, c11TrivialMain)
	}
	return c11Assemble(decls, hostIdx, hole)
}

// ---------------------------------------------------------------- @group / @binding pairing

// C11Resource is one resource kind with a use of it inside an entry point.
type C11Resource struct {
	Name  string
	Decl  string // after the attributes; declares `res`
	Extra string // another (complete) resource declaration the use needs
	Use   string // statement(s) using res
}

var C11Resources = []C11Resource{
	{Name: "uniform-buffer", Decl: "var<uniform> res: vec4<f32>;", Use: "let t = res.x;"},
	{Name: "storage-buffer-rw", Decl: "var<storage, read_write> res: array<i32, 4>;", Use: "res[0] = 1;"},
	{Name: "storage-buffer-ro", Decl: "var<storage, read> res: array<i32, 4>;", Use: "let t = res[0];"},
	{Name: "storage-buffer-default-access", Decl: "var<storage> res: array<i32, 4>;", Use: "let t = res[0];"},
	{Name: "texture", Decl: "var res: texture_2d<f32>;", Use: "let t = textureLoad(res, vec2<i32>(0, 0), 0);"},
	{Name: "sampler", Decl: "var res: sampler;", Extra: "@group(1) @binding(7)\nvar tex_for_sampler: texture_2d<f32>;", Use: "let t = textureSampleLevel(tex_for_sampler, res, vec2<f32>(0.5, 0.5), 0.0);"},
	{Name: "storage-texture", Decl: "var res: texture_storage_2d<rgba8unorm, write>;", Use: "textureStore(res, vec2<i32>(0, 0), vec4<f32>(1.0, 0.0, 0.0, 1.0));"},
	{Name: "depth-texture", Decl: "var res: texture_depth_2d;", Use: "let t = textureLoad(res, vec2<i32>(0, 0), 0);"},
	{Name: "comparison-sampler", Decl: "var res: sampler_comparison;", Extra: "@group(1) @binding(7)\nvar tex_for_sampler: texture_depth_2d;", Use: "let t = textureSampleCompareLevel(tex_for_sampler, res, vec2<f32>(0.5, 0.5), 0.5);"},
}

// attribute variants: index 0 and 1 are valid controls.
var C11BindingAttrs = []struct {
	Name, Text string
	Valid      bool
}{
	{"group-binding", "@group(0) @binding(1)", true},
	{"binding-group", "@binding(1) @group(0)", true},
	{"group-only", "@group(0)", false},
	{"binding-only", "@binding(1)", false},
	{"group-only-nonzero", "@group(2)", false},
	{"binding-only-zero", "@binding(0)", false},
}

var C11BindingOrderNames = []string{"unused", "before-user", "after-user", "between-users", "after-both-users"}

// C11RenderBinding: resource r with attribute variant a in order variant ord.
func C11RenderBinding(r *C11Resource, a, ord int) C11Prog {
	attr := C11BindingAttrs[a].Text
	decl := attr + "\n" + r.Decl
	user := func(name string) string {
		return "@compute @workgroup_size(1)\nfn " + name + "() {\n    " + r.Use + "\n}"
	}
	var decls []string
	if r.Extra != "" && ord != 0 {
		decls = append(decls, r.Extra)
	}
	hostIdx := 0
	switch ord {
	case 0:
		hostIdx = len(decls)
		decls = append(decls, decl, c11TrivialMain)
	case 1:
		hostIdx = len(decls)
		decls = append(decls, decl, user("main"))
	case 2:
		decls = append(decls, user("main"))
		hostIdx = len(decls)
		decls = append(decls, decl)
	case 3:
		decls = append(decls, user("main"))
		hostIdx = len(decls)
		decls = append(decls, decl, user("main2"))
	case 4:
		decls = append(decls, user("main"), user("main2"))
		hostIdx = len(decls)
		decls = append(decls, decl)
	}
	return c11Assemble(decls, hostIdx, 0)
}

// ---------------------------------------------------------------- compute entry point without @workgroup_size

// C11WorkgroupCase: entry-point layouts; the hole '§' receives "@workgroup_size(1)" (control) or nothing.
var C11WorkgroupCases = []struct {
	Name  string
	Decls []string // exactly one contains '§'
}{
	{"alone", []string{"@compute §\nfn main() {\n}"}},
	{"alone-attr-first", []string{"§ @compute\nfn main() {\n}"}},
	{"alone-with-body", []string{"@compute §\nfn main() {\n    var acc = 1;\n    acc += 1;\n}"}},
	{"second-of-two", []string{"@compute @workgroup_size(2)\nfn first() {\n}", "@compute §\nfn main() {\n}"}},
	{"first-of-two", []string{"@compute §\nfn main() {\n}", "@compute @workgroup_size(2)\nfn second() {\n}"}},
	{"middle-of-three", []string{"@compute @workgroup_size(2)\nfn first() {\n}", "@compute §\nfn main() {\n}", "@compute @workgroup_size(2, 2)\nfn third() {\n}"}},
	{"after-fragment", []string{"@fragment\nfn frag() -> @location(0) vec4<f32> {\n    return vec4<f32>(1.0);\n}", "@compute §\nfn main() {\n}"}},
	{"before-fragment", []string{"@compute §\nfn main() {\n}", "@fragment\nfn frag() -> @location(0) vec4<f32> {\n    return vec4<f32>(1.0);\n}"}},
	{"after-helper", []string{"fn helper(a: i32) -> i32 {\n    return a;\n}", "@compute §\nfn main() {\n    _ = helper(1);\n}"}},
	{"before-helper", []string{"@compute §\nfn main() {\n    _ = helper(1);\n}", "fn helper(a: i32) -> i32 {\n    return a;\n}"}},
	{"with-resource", []string{"@group(0) @binding(0)\nvar<storage, read_write> out: array<i32, 4>;", "@compute §\nfn main() {\n    out[0] = 1;\n}"}},
	{"with-builtin-param", []string{"@compute §\nfn main(@builtin(global_invocation_id) gid: vec3<u32>) {\n    var acc = gid.x;\n    acc += 1u;\n}"}},
}

func C11RenderWorkgroup(i int, control bool) C11Prog {
	c := C11WorkgroupCases[i]
	fill := ""
	if control {
		fill = "@workgroup_size(1)"
	}
	decls := make([]string, len(c.Decls))
	hostIdx, site := 0, 0
	for k, d := range c.Decls {
		if h := strings.Index(d, "§"); h >= 0 {
			hostIdx, site = k, h
			d = d[:h] + fill + d[h+len("§"):]
		}
		decls[k] = d
	}
	return c11Assemble(decls, hostIdx, site)
}
