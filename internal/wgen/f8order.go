package wgen

// F8o — declaration order. Small modules (4-6 module-scope declarations including the result buffer
// and the entry point) whose declarations depend on one another through every kind of edge WGSL has
// (fn->fn, fn->const, fn->var, fn->struct, fn->alias, entry attribute->const, const->const,
// const->alias, const->struct, alias->struct, alias->alias, alias->array with a named count,
// struct->struct, struct->alias, struct member array count->const, var->struct / alias / const in
// type, initialiser and array count), printed in EVERY permutation of their textual order. WGSL gives
// module-scope declarations module-wide scope, so all N! texts are the same program.

import (
	"fmt"
	"strings"
)

func f8S2(b *f8b, name string) *Type {
	return b.strct(name, Member{Name: "a", T: TI32}, Member{Name: "b", T: TI32})
}

var f8OrderProgs = []*f8Prog{
	// const->const, fn->const, fn->fn, fn->var
	{name: "const-chain", build: func(b *f8b) {
		A := b.konst("A", TI32, f8i(3))
		B := b.konst("B", TI32, f8add(f8mul(A, f8i(2)), f8i(1)))
		b.fn(&Func{Name: "f", Params: []Param{f8p("x", TI32)}, Ret: TI32, Body: []Stmt{f8ret(f8mul(L("x", TI32), B))}})
		b.out(2)
		b.entry(f8setO(0, f8call("f", A)), f8setO(1, B))
	}},
	// fn->fn->fn
	{name: "fn-chain", build: func(b *f8b) {
		x := L("x", TI32)
		b.fn(&Func{Name: "fc", Params: []Param{f8p("x", TI32)}, Ret: TI32, Body: []Stmt{f8ret(f8op("-", x, f8i(3)))}})
		b.fn(&Func{Name: "fb", Params: []Param{f8p("x", TI32)}, Ret: TI32, Body: []Stmt{f8ret(f8mul(f8call("fc", x), f8i(2)))}})
		b.fn(&Func{Name: "fa", Params: []Param{f8p("x", TI32)}, Ret: TI32, Body: []Stmt{f8ret(f8add(f8call("fb", x), f8i(1)))}})
		b.out(2)
		b.entry(f8setO(0, f8call("fa", f8i(10))), f8setO(1, f8call("fc", f8i(1))))
	}},
	// alias->struct, fn->alias (return type, constructor), fn->struct (local type)
	{name: "struct-alias-fn", build: func(b *f8b) {
		S := f8S2(b, "S")
		T := b.alias("T", S)
		x := L("x", TI32)
		b.fn(&Func{Name: "mk", Params: []Param{f8p("x", TI32)}, Ret: T, Body: []Stmt{f8ret(f8cons(T, x, f8add(x, f8i(1))))}})
		b.out(2)
		s := L("s", S)
		b.entry(f8letT("s", S, &Call{Fn: "mk", Args: []Expr{f8i(4)}, Ty: T, User: true}), f8setO(0, f8fld(s, "a", TI32)), f8setO(1, f8fld(s, "b", TI32)))
	}},
	// alias->alias->scalar, const->alias, fn->alias (local type, conversion)
	{name: "alias-chain", build: func(b *f8b) {
		A1 := b.alias("A1", TI32)
		A2 := b.alias("A2", A1)
		C := b.konst("C", A2, f8i(5))
		b.out(1)
		v := V("v", A2)
		b.entry(f8varT("v", A2, C), f8upd(v, "+=", f8cons(A1, f8i(2))), f8setO(0, v))
	}},
	// struct->struct, struct->alias
	{name: "struct-nest", build: func(b *f8b) {
		AI := b.alias("AI", TI32)
		In := b.strct("In", Member{Name: "v", T: AI}, Member{Name: "w", T: TI32})
		Out := b.strct("Out", Member{Name: "i", T: In}, Member{Name: "k", T: AI})
		b.out(1)
		x := V("x", Out)
		xi := f8fld(x, "i", In)
		b.entry(f8varT("x", Out, f8cons(Out, f8cons(In, f8i(5), f8i(6)), f8i(7))),
			f8upd(f8fld(xi, "w", TI32), "+=", f8i(1)),
			f8setO(0, f8add(f8add(f8fld(xi, "v", TI32), f8fld(xi, "w", TI32)), f8fld(x, "k", TI32))))
	}},
	// var->alias (type), var->const (initialiser), fn->var, fn->const
	{name: "var-init", build: func(b *f8b) {
		K := b.konst("K", TI32, f8i(7))
		AI := b.alias("AI", TI32)
		g := b.gvar("private", "g", AI, f8add(K, f8i(1)))
		b.out(2)
		b.entry(f8reinit(g, f8add(K, f8i(1))), f8setO(0, g), f8set(g, f8add(g, K)), f8setO(1, g))
	}},
	// var->struct (type and constructor in the initialiser), fn->struct (parameter type), fn->var
	{name: "var-struct", build: func(b *f8b) {
		P := f8S2(b, "P")
		gp := b.gvar("private", "gp", P, f8cons(P, f8i(2), f8i(3)))
		p := L("p", P)
		b.fn(&Func{Name: "rd", Params: []Param{f8p("p", P)}, Ret: TI32, Body: []Stmt{f8ret(f8add(f8mul(f8fld(p, "a", TI32), f8i(10)), f8fld(p, "b", TI32)))}})
		b.out(2)
		b.entry(f8reinit(gp, f8cons(P, f8i(2), f8i(3))), f8setO(0, f8call("rd", gp)), f8set(f8fld(gp, "a", TI32), f8i(9)), f8setO(1, f8call("rd", gp)))
	}},
	// alias->array whose count is a const, var->alias
	{name: "array-count-alias", build: func(b *f8b) {
		b.konst("N", TU32, LitU(3))
		Arr := b.alias("Arr", b.arrN(TI32, 3, "N"))
		ga := b.gvar("workgroup", "ga", Arr, nil)
		b.out(1)
		at := func(k int) Expr { return f8idx(ga, f8i(k), TI32) }
		b.entry(f8set(at(2), f8i(5)), f8set(at(0), f8i(1)), f8setO(0, f8add(f8add(at(0), at(1)), at(2))))
	}},
	// struct member array count->const, fn->struct (parameter)
	{name: "array-count-member", build: func(b *f8b) {
		b.konst("N", TI32, f8i(2))
		D := b.arrN(TI32, 2, "N")
		SA := b.strct("SA", Member{Name: "d", T: D}, Member{Name: "t", T: TI32})
		s := L("s", SA)
		d := func(x Expr, k int) Expr { return f8idx(f8fld(x, "d", D), f8i(k), TI32) }
		b.fn(&Func{Name: "sum", Params: []Param{f8p("s", SA)}, Ret: TI32, Body: []Stmt{f8ret(f8add(f8add(d(s, 0), d(s, 1)), f8fld(s, "t", TI32)))}})
		b.out(1)
		v := V("v", SA)
		b.entry(&VarDecl{Kind: "var", Name: "v", Ty: SA}, f8set(d(v, 1), f8i(4)), f8set(f8fld(v, "t", TI32), f8i(3)), f8setO(0, f8call("sum", v)))
	}},
	// const->const (untyped), var array count->const, workgroup variable
	{name: "array-count-var", build: func(b *f8b) {
		N := b.konst("N", nil, f8i(2))
		b.konst("M", nil, f8add(N, f8i(1)))
		w := b.gvar("workgroup", "w", b.arrN(TI32, 3, "M"), nil)
		b.out(1)
		at := func(k int) Expr { return f8idx(w, f8i(k), TI32) }
		b.entry(f8set(at(2), f8i(8)), f8set(at(0), f8i(1)), f8setO(0, f8add(f8add(at(0), at(1)), at(2))))
	}},
	// resource var->struct, fn->var (storage, read)
	{name: "storage-struct", build: func(b *f8b) {
		P := f8S2(b, "P")
		inp := b.input("inp", P, P, 40, 2)
		b.fn(&Func{Name: "rd", Ret: TI32, Body: []Stmt{f8ret(f8op("-", f8fld(inp, "a", TI32), f8fld(inp, "b", TI32)))}})
		b.out(1)
		b.entry(f8setO(0, f8call("rd")))
	}},
	// fn->struct as return type, parameter type, local variable type
	{name: "fn-struct-types", build: func(b *f8b) {
		S := f8S2(b, "S")
		x, t, s := L("x", TI32), V("t", S), L("s", S)
		b.fn(&Func{Name: "mk", Params: []Param{f8p("x", TI32)}, Ret: S, Body: []Stmt{
			&VarDecl{Kind: "var", Name: "t", Ty: S}, f8set(f8fld(t, "a", TI32), x), f8set(f8fld(t, "b", TI32), f8mul(x, f8i(2))), f8ret(t)}})
		b.fn(&Func{Name: "get", Params: []Param{f8p("s", S)}, Ret: TI32, Body: []Stmt{f8ret(f8add(f8fld(s, "a", TI32), f8fld(s, "b", TI32)))}})
		b.out(1)
		b.entry(f8setO(0, f8call("get", &Call{Fn: "mk", Args: []Expr{f8i(3)}, Ty: S, User: true})))
	}},
	// entry-point attribute->const (@workgroup_size(WG)), fn->fn
	{name: "workgroup-size-const", build: func(b *f8b) {
		b.konst("WG", TU32, LitU(2))
		i := L("i", TU32)
		b.fn(&Func{Name: "val", Params: []Param{f8p("i", TU32)}, Ret: TI32, Body: []Stmt{f8ret(f8add(f8cons(TI32, i), f8i(10)))}})
		b.out(2)
		b.wg = 2
		li := L("li", TU32)
		f := &Func{Name: "main", Stage: "compute", WG: [3]int{2, 0, 0}, Params: []Param{{Name: "li", Ty: TU32, Attr: "@builtin(local_invocation_index)"}},
			Body: []Stmt{f8set(&Index{X: V("o", f8OutT), I: li, Ty: TI32}, f8call("val", li))}}
		b.add(&f8Item{kind: "fn", name: "main", fn: f, patch: func(s string) string {
			return strings.Replace(s, "@workgroup_size(2)", "@workgroup_size(WG)", 1)
		}})
	}},
	// alias->array of struct, fn->alias (local variable type and constructor)
	{name: "alias-array-struct", build: func(b *f8b) {
		S := f8S2(b, "S")
		AS := b.alias("AS", Array(S, 2))
		g := V("g", AS)
		b.fn(&Func{Name: "f", Ret: TI32, Body: []Stmt{f8varT("g", AS, f8cons(AS, f8cons(S, f8i(1), f8i(2)), f8cons(S, f8i(3), f8i(4)))),
			f8ret(f8add(f8fld(f8idx(g, f8i(1), S), "a", TI32), f8fld(f8idx(g, f8i(0), S), "b", TI32)))}})
		b.out(1)
		b.entry(f8setO(0, f8call("f")))
	}},
	// const->struct (constructor), fn->const of struct type
	{name: "const-struct", build: func(b *f8b) {
		S := f8S2(b, "S")
		CS := b.konst("CS", nil, f8cons(S, f8i(4), f8i(5)))
		b.fn(&Func{Name: "f", Ret: TI32, Body: []Stmt{f8ret(f8add(f8mul(f8fld(CS, "a", TI32), f8i(10)), f8fld(CS, "b", TI32)))}})
		b.out(1)
		b.entry(f8setO(0, f8call("f")))
	}},
	// fn->fn with a pointer parameter, fn->const
	{name: "ptr-param", build: func(b *f8b) {
		K := b.konst("K", TI32, f8i(5))
		pt := Ptr("function", TI32)
		p := L("p", pt)
		b.fn(&Func{Name: "bump", Params: []Param{f8p("p", pt)}, Body: []Stmt{f8upd(&Deref{X: p, Ty: TI32}, "+=", K)}})
		t := V("t", TI32)
		bump := &ExprStmt{X: &Call{Fn: "bump", Args: []Expr{&AddrOf{X: t, Ty: pt}}, User: true}}
		b.fn(&Func{Name: "run", Ret: TI32, Body: []Stmt{f8varT("t", TI32, f8i(1)), bump, bump, f8ret(t)}})
		b.out(1)
		b.entry(f8setO(0, f8call("run")))
	}},
	// struct->array of struct (member type), fn->struct (parameter), constructor of a nested array
	{name: "struct-array-member", build: func(b *f8b) {
		In := b.strct("In", Member{Name: "v", T: TI32})
		items := Array(In, 2)
		Out := b.strct("Out", Member{Name: "items", T: items}, Member{Name: "n", T: TI32})
		x := L("x", Out)
		it := func(k int) Expr { return f8fld(f8idx(f8fld(x, "items", items), f8i(k), In), "v", TI32) }
		b.fn(&Func{Name: "total", Params: []Param{f8p("x", Out)}, Ret: TI32, Body: []Stmt{f8ret(f8add(f8add(it(0), it(1)), f8fld(x, "n", TI32)))}})
		b.out(1)
		b.entry(f8setO(0, f8call("total", f8cons(Out, f8cons(items, f8cons(In, f8i(1)), f8cons(In, f8i(2))), f8i(3)))))
	}},
	// fn->struct inside a pointer parameter type (four declarations: 24 orders)
	{name: "ptr-struct-param", build: func(b *f8b) {
		S := f8S2(b, "S")
		pt := Ptr("function", S)
		b.fn(&Func{Name: "setA", Params: []Param{f8p("p", pt), f8p("v", TI32)}, Body: []Stmt{f8set(f8fld(&Deref{X: L("p", pt), Ty: S}, "a", TI32), L("v", TI32))}})
		b.out(1)
		s := V("s", S)
		b.entry(&VarDecl{Kind: "var", Name: "s", Ty: S}, &ExprStmt{X: &Call{Fn: "setA", Args: []Expr{&AddrOf{X: s, Ty: pt}, f8i(7)}, User: true}},
			f8setO(0, f8add(f8fld(s, "a", TI32), f8fld(s, "b", TI32))))
	}},
	// resource var->struct inside an array type, fn->var
	{name: "var-array-struct", build: func(b *f8b) {
		S := f8S2(b, "S")
		at := Array(S, 2)
		inp := b.input("inp", at, at, 1, 2, 3, 4)
		e := func(k int, f string) Expr { return f8fld(f8idx(inp, f8i(k), S), f, TI32) }
		b.fn(&Func{Name: "pick", Ret: TI32, Body: []Stmt{f8ret(f8add(f8mul(e(1, "a"), f8i(10)), e(0, "b")))}})
		b.out(1)
		b.entry(f8setO(0, f8call("pick")))
	}},
	// struct member attribute->const (@size(KS)), fn->struct
	{name: "member-attr-const", build: func(b *f8b) {
		b.konst("KS", nil, f8i(8))
		S := Struct("S", Member{Name: "a", T: TI32, Size: 8}, Member{Name: "b", T: TI32})
		b.add(&f8Item{kind: "struct", name: "S", st: S, patch: func(s string) string { return strings.Replace(s, "@size(8)", "@size(KS)", 1) }})
		s := L("s", S)
		b.fn(&Func{Name: "f", Params: []Param{f8p("s", S)}, Ret: TI32, Body: []Stmt{f8ret(f8add(f8mul(f8fld(s, "a", TI32), f8i(10)), f8fld(s, "b", TI32)))}})
		b.out(1)
		b.entry(f8setO(0, f8call("f", f8cons(S, f8i(4), f8i(5)))))
	}},
	// module-scope const_assert->const, const->const
	{name: "module-const-assert", build: func(b *f8b) {
		K := b.konst("K", TI32, f8i(2))
		b.konst("K2", TI32, f8mul(K, f8i(3)))
		b.assert("K2 == 6")
		b.out(1)
		b.entry(f8setO(0, f8add(K, f8i(1))))
	}},
	// alias->vector, var->alias (type and constructor in the initialiser), fn->alias (constructor)
	{name: "alias-vector", build: func(b *f8b) {
		v2 := Vec(I32, 2)
		V2 := b.alias("V2", v2)
		gv := b.gvar("private", "gv", V2, f8cons(V2, f8i(1), f8i(2)))
		sw := func(x Expr, c string) Expr { return &Swz{X: x, Pat: c, Ty: TI32} }
		b.fn(&Func{Name: "f", Ret: TI32, Body: []Stmt{f8let("t", f8cons(V2, f8i(5), f8i(6))), f8ret(f8add(sw(L("t", V2), "y"), sw(gv, "x")))}})
		b.out(2)
		b.entry(f8reinit(gv, f8cons(V2, f8i(1), f8i(2))), f8setO(0, f8call("f")), f8setO(1, sw(gv, "y")))
	}},
	// const->alias (conversion through the alias), fn->alias (four declarations: 24 orders)
	{name: "const-alias-conv", build: func(b *f8b) {
		AI := b.alias("AI", TI32)
		C := b.konst("C", nil, f8cons(AI, f8i(4)))
		b.out(2)
		b.entry(f8setO(0, f8add(C, f8i(1))), f8setO(1, f8cons(AI, LitU(7))))
	}},
}

// Six declarations: enumerated completely (720 orders each) in the thorough tier; the quick tier takes the
// 6 rotations of the dependency order and of its reverse.
var f8OrderProgs6 = []*f8Prog{
	// the entry point refers directly to a const, a struct, a var and a function
	{name: "entry-direct", build: func(b *f8b) {
		K := b.konst("K", TI32, f8i(2))
		S := f8S2(b, "S")
		g := b.gvar("private", "g", TI32, f8i(3))
		x := L("x", TI32)
		b.fn(&Func{Name: "f", Params: []Param{f8p("x", TI32)}, Ret: TI32, Body: []Stmt{f8ret(f8add(x, f8i(1)))}})
		b.out(1)
		s := L("s", S)
		b.entry(f8reinit(g, f8i(3)), f8let("s", f8cons(S, K, g)), f8setO(0, f8add(f8call("f", f8fld(s, "a", TI32)), f8fld(s, "b", TI32))))
	}},
	// alias->alias->struct, fn->alias, fn->struct
	{name: "alias-alias-struct-fn", build: func(b *f8b) {
		S := f8S2(b, "S")
		T := b.alias("T", S)
		U := b.alias("U", T)
		x := L("x", TI32)
		b.fn(&Func{Name: "mk", Params: []Param{f8p("x", TI32)}, Ret: U, Body: []Stmt{f8ret(f8cons(T, x, f8add(x, f8i(1))))}})
		b.out(2)
		s := L("s", S)
		b.entry(f8letT("s", S, &Call{Fn: "mk", Args: []Expr{f8i(4)}, Ty: U, User: true}), f8setO(0, f8fld(s, "a", TI32)), f8setO(1, f8fld(s, "b", TI32)))
	}},
	// const->const, array count->const, struct->array, var->struct, fn->var
	{name: "const-array-struct-var", build: func(b *f8b) {
		N := b.konst("N", TI32, f8i(2))
		b.konst("M", TI32, f8add(N, f8i(1)))
		D := b.arrN(TI32, 3, "M")
		SA := b.strct("SA", Member{Name: "d", T: D})
		g := b.gvar("private", "g", SA, nil)
		b.out(1)
		at := func(k int) Expr { return f8idx(f8fld(g, "d", D), f8i(k), TI32) }
		b.entry(f8set(at(2), f8i(6)), f8setO(0, f8add(at(2), at(1))))
	}},
}

type f8OrderEnt struct {
	p     *f8Prog
	order []int
}

func f8OrderEnts(thorough bool) []f8OrderEnt {
	var out []f8OrderEnt
	for _, p := range f8OrderProgs {
		n := len(f8Names(p))
		for k := 0; k < f8Fact(n); k++ {
			out = append(out, f8OrderEnt{p, f8Perm(n, k)})
		}
	}
	for _, p := range f8OrderProgs6 {
		n := len(f8Names(p))
		if thorough {
			for k := 0; k < f8Fact(n); k++ {
				out = append(out, f8OrderEnt{p, f8Perm(n, k)})
			}
			continue
		}
		for rev := 0; rev < 2; rev++ {
			for r := 0; r < n; r++ {
				o := make([]int, n)
				for i := range o {
					o[i] = (i + r) % n
					if rev == 1 {
						o[i] = n - 1 - o[i]
					}
				}
				out = append(out, f8OrderEnt{p, o})
			}
		}
	}
	return out
}

// F8Order: every order module x every permutation of its declarations.
func F8Order(thorough bool) *Family {
	name := "F8o"
	if thorough {
		name = "F8ot"
	}
	ents := f8OrderEnts(thorough)
	return &Family{Name: name, Count: len(ents), At: func(i int) *Case {
		e := ents[i]
		c := f8Case(e.p, e.order)
		names := f8Names(e.p)
		seq := make([]string, len(e.order))
		for k, d := range e.order {
			seq[k] = names[d]
		}
		c.Family, c.Index = name, i
		c.Sig = fmt.Sprintf("F8o/%s/%s", e.p.name, strings.Join(seq, ">"))
		return c
	}}
}
