package wgen

import (
	"fmt"

	"verif/internal/xrt"
)

// F3: memory shapes. Every host-shareable type tree within the bounds below is placed in a
// buffer and probed: every leaf scalar is read individually into o[], and the whole value is
// copied to a second buffer (directly, through a function variable, a private variable or a
// workgroup variable). The source buffer carries a distinct sentinel in every 32-bit word, so a
// wrong offset, stride or size changes the observation.

// UniformValid reports whether t may be the store type of a uniform buffer (WGSL §14.4.1: array
// strides and struct-typed member offsets are multiples of 16; a member after a struct member
// starts at or after roundUp(16, end of the struct)).
func UniformValid(t *Type) bool {
	switch t.K {
	case TScalar, TVec, TMat:
		return true
	case TArray:
		if t.Len == 0 || Stride(t)%16 != 0 {
			return false
		}
		return UniformValid(t.Elem)
	case TStruct:
		offs := Offsets(t)
		for i, m := range t.Members {
			if !UniformValid(m.T) {
				return false
			}
			if m.T.K == TStruct && offs[i]%16 != 0 {
				return false
			}
			if i > 0 && t.Members[i-1].T.K == TStruct {
				end := offs[i-1] + SizeOf(t.Members[i-1].T)
				if offs[i] < roundUp(16, end) {
					return false
				}
			}
		}
		return true
	}
	return false
}

// f3Leaves: leaf types of type trees.
func f3Leaves() []*Type {
	out := []*Type{TF32, TI32, TU32, Vec(F32, 2), Vec(F32, 3), Vec(F32, 4), Vec(U32, 3), Vec(I32, 2)}
	for c := 2; c <= 4; c++ {
		for r := 2; r <= 4; r++ {
			out = append(out, Mat(c, r))
		}
	}
	return out
}

// f3MemberAlphabet: member types of enumerated structs.
func f3MemberAlphabet() []*Type {
	return []*Type{TF32, TU32, Vec(F32, 2), Vec(F32, 3), Vec(F32, 4), Vec(U32, 3), Mat(2, 2), Mat(3, 3), Mat(4, 2), Mat(2, 3)}
}

func f3Small() []*Type {
	return []*Type{TF32, Vec(F32, 2), Vec(F32, 3), Vec(F32, 4), Mat(2, 2), Mat(3, 3)}
}

type f3Shape struct {
	t       *Type
	structs []*Type // struct declarations needed, innermost first
	sig     string
}

var f3Names = 0

func mkStruct(name string, members []*Type, attrIdx int, attr string, val int) *Type {
	ms := make([]Member, len(members))
	for i, mt := range members {
		ms[i] = Member{Name: fmt.Sprintf("m%d", i), T: mt}
		if i == attrIdx {
			if attr == "align" {
				ms[i].Align = val
			} else if attr == "size" {
				ms[i].Size = val
			}
		}
	}
	return Struct(name, ms...)
}

func structsOf(t *Type, seen map[string]bool, out *[]*Type) {
	switch t.K {
	case TArray:
		structsOf(t.Elem, seen, out)
	case TStruct:
		for _, m := range t.Members {
			structsOf(m.T, seen, out)
		}
		if !seen[t.Name] {
			seen[t.Name] = true
			*out = append(*out, t)
		}
	}
}

// f3Shapes enumerates the type trees. depth 2 = quick, 3 = thorough.
func f3Shapes(thorough bool) []f3Shape {
	var out []f3Shape
	add := func(t *Type, sig string) { out = append(out, f3Shape{t: t, sig: sig}) }
	leaves := f3Leaves()
	// level 0: bare leaves as the buffer type
	for _, l := range leaves {
		add(l, "leaf/"+l.String())
	}
	// level 1: arrays of leaves (fixed n=1,2,3 and runtime-sized)
	for _, l := range leaves {
		for _, n := range []int{1, 2, 3} {
			add(Array(l, n), fmt.Sprintf("array%d/%s", n, l))
		}
		add(Array(l, 0), "rtarray/"+l.String())
	}
	// level 1: structs with 1..3 members over the member alphabet, each with no attribute and with one
	// @align / @size attribute on one member
	alpha := f3MemberAlphabet()
	var combos [][]*Type
	for _, a := range alpha {
		combos = append(combos, []*Type{a})
		for _, b := range alpha {
			combos = append(combos, []*Type{a, b})
			if thorough {
				for _, c := range alpha {
					combos = append(combos, []*Type{a, b, c})
				}
			}
		}
	}
	if !thorough {
		// quick: triples over the small alphabet only
		sm := f3Small()
		for _, a := range sm {
			for _, b := range sm {
				for _, c := range sm {
					combos = append(combos, []*Type{a, b, c})
				}
			}
		}
	}
	sigOf := func(ms []*Type) string {
		s := ""
		for i, m := range ms {
			if i > 0 {
				s += ","
			}
			s += m.String()
		}
		return s
	}
	for _, ms := range combos {
		add(mkStruct("S0", ms, -1, "", 0), "struct/{"+sigOf(ms)+"}")
		for i := range ms {
			nat := AlignOf(ms[i])
			for _, al := range []int{16, 32} {
				if al >= nat && (thorough || al == 32 || nat < 16) {
					add(mkStruct("S0", ms, i, "align", al), fmt.Sprintf("struct/{%s}@align(%d)#%d", sigOf(ms), al, i))
				}
			}
			sz := SizeOf(ms[i])
			for _, extra := range []int{4, 16} {
				if thorough || extra == 4 || i == len(ms)-1 {
					add(mkStruct("S0", ms, i, "size", sz+extra), fmt.Sprintf("struct/{%s}@size(+%d)#%d", sigOf(ms), extra, i))
				}
			}
		}
	}
	// level 2: nesting over the small alphabet
	sm := f3Small()
	var inner []*Type
	for _, a := range sm {
		inner = append(inner, mkStruct("I0", []*Type{a}, -1, "", 0))
		for _, b := range sm {
			inner = append(inner, mkStruct("I0", []*Type{a, b}, -1, "", 0))
		}
	}
	for _, l := range sm {
		inner = append(inner, Array(l, 2))
	}
	for _, in := range inner {
		isig := in.String()
		if in.K == TStruct {
			isig = "I0{" + sigOf(memberTypes(in)) + "}"
		}
		add(Array(in, 2), "array2/"+isig)
		add(Array(in, 0), "rtarray/"+isig)
		for _, lead := range []*Type{TF32, Vec(F32, 3)} {
			add(mkStruct("S0", []*Type{lead, in}, -1, "", 0), fmt.Sprintf("struct/{%s,%s}", lead, isig))
			add(mkStruct("S0", []*Type{in, lead}, -1, "", 0), fmt.Sprintf("struct/{%s,%s}", isig, lead))
			add(mkStruct("S0", []*Type{lead, Array(in, 0)}, -1, "", 0), fmt.Sprintf("struct/{%s,rtarray<%s>}", lead, isig))
		}
		if in.K == TStruct {
			add(mkStruct("S0", []*Type{TF32, in}, 1, "align", 32), fmt.Sprintf("struct/{f32,%s}@align(32)#1", isig))
			add(mkStruct("S0", []*Type{in, TF32}, 0, "size", SizeOf(in)+16), fmt.Sprintf("struct/{%s,f32}@size(+16)#0", isig))
		}
	}
	// inner structs that themselves carry @align/@size, placed in an outer struct and in an array
	for _, a := range []*Type{TF32, TU32, Vec(F32, 2), Vec(F32, 3)} {
		for _, al := range []int{16, 32} {
			in := mkStruct("I0", []*Type{a}, 0, "align", al)
			add(mkStruct("S0", []*Type{TU32, in, TU32}, -1, "", 0), fmt.Sprintf("struct/{u32,I0{%s@align(%d)},u32}", a, al))
			add(Array(in, 2), fmt.Sprintf("array2/I0{%s@align(%d)}", a, al))
		}
		in := mkStruct("I0", []*Type{a, TF32}, 0, "size", SizeOf(a)+12)
		add(mkStruct("S0", []*Type{TU32, in, TU32}, -1, "", 0), fmt.Sprintf("struct/{u32,I0{%s@size(+12),f32},u32}", a))
	}
	if thorough {
		// level 3: array of struct containing array of struct
		for _, a := range sm {
			i0 := mkStruct("I0", []*Type{a, TF32}, -1, "", 0)
			i1 := mkStruct("I1", []*Type{TU32, Array(i0, 2)}, -1, "", 0)
			add(Array(i1, 2), fmt.Sprintf("array2/I1{u32,array2<I0{%s,f32}>}", a))
			add(mkStruct("S0", []*Type{Vec(F32, 3), i1, a}, -1, "", 0), fmt.Sprintf("struct/{vec3<f32>,I1{u32,array2<I0{%s,f32}>},%s}", a, a))
		}
	}
	return out
}

func memberTypes(t *Type) []*Type {
	out := make([]*Type, len(t.Members))
	for i, m := range t.Members {
		out[i] = m.T
	}
	return out
}

// leafPaths returns, for every leaf scalar of t (runtime arrays fixed to n elements), an
// expression reading it from base.
func leafPaths(base Expr, t *Type, out *[]Expr) {
	switch t.K {
	case TScalar:
		*out = append(*out, base)
	case TVec:
		for i := 0; i < t.N; i++ {
			*out = append(*out, Swizzle(base, string("xyzw"[i])))
		}
	case TMat:
		for c := 0; c < t.C; c++ {
			col := Idx(base, LitU(uint32(c)))
			for r := 0; r < t.N; r++ {
				*out = append(*out, Idx(col, LitI(int32(r))))
			}
		}
	case TArray:
		for i := 0; i < t.Len; i++ {
			leafPaths(&Index{X: base, I: LitU(uint32(i)), Ty: t.Elem}, t.Elem, out)
		}
	case TStruct:
		for _, m := range t.Members {
			leafPaths(&Field{X: base, Name: m.Name, Ty: m.T}, m.T, out)
		}
	}
}

var f3Variants = []string{"direct", "viaFunction", "viaPrivate", "viaWorkgroup", "memberwise", "uniform"}

// BuildF3 materialises one shape in one variant. Returns nil if the variant does not apply.
func BuildF3(sh f3Shape, variant string) *Case {
	t := sh.t
	rt := HasRuntimeArray(t)
	const rtN = 2
	if variant == "uniform" && (!UniformValid(t) || rt) {
		return nil
	}
	if rt && variant != "direct" && variant != "memberwise" {
		return nil // runtime-sized values cannot be copied through variables
	}
	m := &Module{}
	seen := map[string]bool{}
	structsOf(t, seen, &m.Structs)
	srcSpace := "storage"
	if variant == "uniform" {
		srcSpace = "uniform"
	}
	m.Globals = append(m.Globals,
		Global{Name: "src", Space: srcSpace, Ty: t, Group: 0, Binding: 0},
		Global{Name: "dst", Space: "storage", RW: true, Ty: t, Group: 0, Binding: 1},
		Global{Name: "o", Space: "storage", RW: true, Ty: Array(TU32, 0), Group: 0, Binding: 2},
	)
	ft := t
	if rt {
		ft = Fix(t, rtN)
	}
	size := SizeOf(ft)
	srcBuf := make([]byte, size)
	for w := 0; w*4 < size; w++ {
		// distinct sentinel per word; as f32 these are small positive normal numbers (no NaN/Inf/subnormal)
		PutU32(srcBuf, w*4, 0x3F800000+uint32(w+1)*0x111)
	}
	dstBuf := make([]byte, size)
	for i := range dstBuf {
		dstBuf[i] = 0xEE
	}
	srcRef := V("src", ft)
	dstRef := V("dst", ft)
	var reads []Expr
	leafPaths(srcRef, ft, &reads)
	oT := Array(TU32, 0)
	var body []Stmt
	for i, e := range reads {
		var val Expr = e
		if e.T().S != U32 {
			val = &Bitcast{Ty: TU32, X: e}
		}
		body = append(body, &Assign{LHS: Idx(V("o", oT), LitU(uint32(i))), Op: "=", RHS: val})
	}
	nOut := len(reads)
	if rt {
		// arrayLength of the runtime array
		var arr Expr = V("src", t)
		tt := t
		for tt.K == TStruct {
			last := tt.Members[len(tt.Members)-1]
			arr = &Field{X: arr, Name: last.Name, Ty: last.T}
			tt = last.T
		}
		body = append(body, &Assign{LHS: Idx(V("o", oT), LitU(uint32(nOut))), Op: "=", RHS: &Call{Fn: "arrayLength", Args: []Expr{&AddrOf{X: arr, Ty: Ptr("storage", tt)}}, Ty: TU32}})
		nOut++
	}
	switch variant {
	case "direct", "uniform":
		if !rt {
			body = append(body, &Assign{LHS: dstRef, Op: "=", RHS: srcRef})
		} else {
			variant = "memberwise"
		}
	case "viaFunction":
		body = append(body, &VarDecl{Kind: "var", Name: "tmp", Ty: t, Init: srcRef}, &Assign{LHS: dstRef, Op: "=", RHS: V("tmp", t)})
	case "viaPrivate":
		m.Globals = append(m.Globals, Global{Name: "pv", Space: "private", Ty: t})
		body = append(body, &Assign{LHS: V("pv", t), Op: "=", RHS: srcRef}, &Assign{LHS: dstRef, Op: "=", RHS: V("pv", t)})
	case "viaWorkgroup":
		m.Globals = append(m.Globals, Global{Name: "wv", Space: "workgroup", Ty: t})
		body = append(body, &Assign{LHS: V("wv", t), Op: "=", RHS: srcRef}, &Barrier{Kind: "workgroupBarrier"}, &Assign{LHS: dstRef, Op: "=", RHS: V("wv", t)})
	}
	if variant == "memberwise" {
		// copy leaf by leaf (exercises single-component and single-column stores at every level)
		var dsts []Expr
		leafPaths(dstRef, ft, &dsts)
		for i := range dsts {
			body = append(body, &Assign{LHS: dsts[i], Op: "=", RHS: reads[i]})
		}
	}
	m.Funcs = append(m.Funcs, &Func{Name: "main", Stage: "compute", WG: [3]int{1, 0, 0}, Body: body})
	oBuf := make([]byte, nOut*4)
	for i := range oBuf {
		oBuf[i] = 0xCD
	}
	k0, k1, k2 := xrt.Binding{Group: 0, Binding: 0}, xrt.Binding{Group: 0, Binding: 1}, xrt.Binding{Group: 0, Binding: 2}
	return &Case{Sig: "F3/" + sh.sig + "/" + variant, Mod: m, Bufs: xrt.Buffers{k0: srcBuf, k1: dstBuf, k2: oBuf}, Groups: [3]uint32{1, 1, 1},
		BufTypes: map[xrt.Binding]*Type{k0: ft, k1: ft, k2: Array(TU32, nOut)}}
}

var f3Cache = map[bool][]*Case{}

// F3 returns the memory-shape family.
func F3(thorough bool) *Family {
	shapes := f3Shapes(thorough)
	type ent struct {
		sh int
		v  string
	}
	var ents []ent
	for i, sh := range shapes {
		for _, v := range f3Variants {
			if !thorough && (v == "viaPrivate" || v == "viaWorkgroup") && i%4 != 0 {
				continue // quick: the indirect copies for every fourth shape
			}
			if c := BuildF3(sh, v); c != nil {
				ents = append(ents, ent{i, v})
			}
		}
	}
	name := "F3"
	if thorough {
		name = "F3t"
	}
	return &Family{Name: name, Count: len(ents), At: func(i int) *Case {
		c := BuildF3(shapes[ents[i].sh], ents[i].v)
		c.Family, c.Index = name, i
		return c
	}}
}
