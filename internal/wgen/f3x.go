package wgen

// F3x: host-shareable type trees with 16-bit floats, atomics and *spelled* layout attributes.
//
// F3 (f3.go) is built on the shared mini-AST, which has neither f16 nor attribute spellings, and its
// probe programs are executed. F3x is the static companion: it has its own small type tree (XT), its
// own printer, and its cases are only compiled (never executed); the C07 check compares the layout
// naga assigns (IR, SPIR-V decorations, struct declarations in MSL/HLSL/GLSL text) with the reference
// WGSL layout (internal/wref/layoutx.go).
//
// This file: the type tree, the generator-side layout (used only to decide which attribute values
// and which address spaces are *permitted* for a shape; the oracle is wref.Layout, written
// separately, and the check asserts that the two agree), attribute spellings, and the printer.

import (
	"fmt"
	"strings"
)

type XK uint8

const (
	XScalar XK = iota
	XVec
	XMat
	XAtomic
	XArray
	XStruct
)

// XT is a host-shareable WGSL type.
type XT struct {
	K       XK
	S       string // scalar kind: "f16", "f32", "i32", "u32"
	N       int    // vector size / matrix rows
	C       int    // matrix columns
	Elem    *XT    // array element
	Len     int    // array length, 0 = runtime-sized
	Name    string // struct name
	Members []XM
}

// XM is a struct member with optional @align / @size attributes and the way each is spelled.
type XM struct {
	Name      string
	T         *XT
	Align     int    // 0 = no attribute
	Size      int    // 0 = no attribute
	ASp, SSp  XSpell // spelling of the @align / @size argument
	SizeFirst bool   // print @size before @align
}

func XS(s string) *XT               { return &XT{K: XScalar, S: s} }
func XV(s string, n int) *XT        { return &XT{K: XVec, S: s, N: n} }
func XMt(s string, c, r int) *XT    { return &XT{K: XMat, S: s, C: c, N: r} }
func XAt(s string) *XT              { return &XT{K: XAtomic, S: s} }
func XArr(e *XT, n int) *XT         { return &XT{K: XArray, Elem: e, Len: n} }
func XSt(name string, m ...XM) *XT  { return &XT{K: XStruct, Name: name, Members: m} }
func xScalarBytes(s string) int {
	if s == "f16" {
		return 2
	}
	return 4
}

func (t *XT) String() string {
	switch t.K {
	case XScalar:
		return t.S
	case XVec:
		return fmt.Sprintf("vec%d<%s>", t.N, t.S)
	case XMat:
		return fmt.Sprintf("mat%dx%d<%s>", t.C, t.N, t.S)
	case XAtomic:
		return fmt.Sprintf("atomic<%s>", t.S)
	case XArray:
		if t.Len == 0 {
			return fmt.Sprintf("array<%s>", t.Elem)
		}
		return fmt.Sprintf("array<%s, %d>", t.Elem, t.Len)
	case XStruct:
		return t.Name
	}
	return "?"
}

// Sig is the structural signature (struct bodies spelled out, attributes with their spelling class).
func (t *XT) Sig() string {
	switch t.K {
	case XArray:
		if t.Len == 0 {
			return "array<" + t.Elem.Sig() + ">"
		}
		return fmt.Sprintf("array<%s,%d>", t.Elem.Sig(), t.Len)
	case XStruct:
		var sb strings.Builder
		sb.WriteString(t.Name + "{")
		for i, m := range t.Members {
			if i > 0 {
				sb.WriteString(",")
			}
			sb.WriteString(m.sig())
		}
		sb.WriteString("}")
		return sb.String()
	}
	return t.String()
}

func (m XM) sig() string {
	a, s := "", ""
	if m.Align != 0 {
		a = fmt.Sprintf("@align(%d:%s)", m.Align, m.ASp)
	}
	if m.Size != 0 {
		s = fmt.Sprintf("@size(+%d:%s)", m.Size-XSizeOf(m.T), m.SSp)
	}
	if m.SizeFirst {
		return s + a + m.T.Sig()
	}
	return a + s + m.T.Sig()
}

// UsesF16 / HasAtomic / XHasRuntime: features that restrict where a type may be placed.
func (t *XT) UsesF16() bool {
	switch t.K {
	case XArray:
		return t.Elem.UsesF16()
	case XStruct:
		for _, m := range t.Members {
			if m.T.UsesF16() {
				return true
			}
		}
		return false
	}
	return t.S == "f16"
}

func (t *XT) HasAtomic() bool {
	switch t.K {
	case XAtomic:
		return true
	case XArray:
		return t.Elem.HasAtomic()
	case XStruct:
		for _, m := range t.Members {
			if m.T.HasAtomic() {
				return true
			}
		}
	}
	return false
}

func XHasRuntime(t *XT) bool {
	switch t.K {
	case XArray:
		return t.Len == 0
	case XStruct:
		return len(t.Members) > 0 && XHasRuntime(t.Members[len(t.Members)-1].T)
	}
	return false
}

// ---------------------------------------------------------------- generator-side layout (WGSL "Memory Layout")

func XAlignOf(t *XT) int {
	switch t.K {
	case XScalar, XAtomic:
		return xScalarBytes(t.S)
	case XVec:
		if t.N == 2 {
			return 2 * xScalarBytes(t.S)
		}
		return 4 * xScalarBytes(t.S)
	case XMat:
		return XAlignOf(XV(t.S, t.N))
	case XArray:
		return XAlignOf(t.Elem)
	case XStruct:
		a := 1
		for _, m := range t.Members {
			if x := XMemberAlign(m); x > a {
				a = x
			}
		}
		return a
	}
	panic("XAlignOf")
}

func XMemberAlign(m XM) int {
	if m.Align != 0 {
		return m.Align
	}
	return XAlignOf(m.T)
}

func XMemberSize(m XM) int {
	if m.Size != 0 {
		return m.Size
	}
	return XSizeOf(m.T)
}

// XSizeOf: a runtime-sized array counts one element.
func XSizeOf(t *XT) int {
	switch t.K {
	case XScalar, XAtomic:
		return xScalarBytes(t.S)
	case XVec:
		return t.N * xScalarBytes(t.S)
	case XMat:
		return t.C * XMatColStride(t)
	case XArray:
		n := t.Len
		if n == 0 {
			n = 1
		}
		return n * XStride(t)
	case XStruct:
		offs := XOffsets(t)
		last := len(t.Members) - 1
		return roundUp(XAlignOf(t), offs[last]+XMemberSize(t.Members[last]))
	}
	panic("XSizeOf")
}

func XStride(t *XT) int { return roundUp(XAlignOf(t.Elem), XSizeOf(t.Elem)) }

func XMatColStride(t *XT) int {
	v := XV(t.S, t.N)
	return roundUp(XAlignOf(v), XSizeOf(v))
}

func XOffsets(t *XT) []int {
	offs := make([]int, len(t.Members))
	cur := 0
	for i, m := range t.Members {
		cur = roundUp(XMemberAlign(m), cur)
		offs[i] = cur
		cur += XMemberSize(m)
	}
	return offs
}

// XUniformValid: may t be the store type of a uniform buffer (WGSL "Address Space Layout
// Constraints": array strides and struct-typed member offsets are multiples of 16; a member that
// follows a struct-typed member starts at least roundUp(16, SizeOf(struct)) after it began).
func XUniformValid(t *XT) bool {
	switch t.K {
	case XScalar, XVec, XMat:
		return true
	case XArray:
		if t.Len == 0 || XStride(t)%16 != 0 {
			return false
		}
		return XUniformValid(t.Elem)
	case XStruct:
		offs := XOffsets(t)
		for i, m := range t.Members {
			if !XUniformValid(m.T) {
				return false
			}
			if (m.T.K == XStruct || m.T.K == XArray) && offs[i]%16 != 0 {
				return false // RequiredAlignOf(struct | array, uniform) = roundUp(16, AlignOf)
			}
			if i > 0 && t.Members[i-1].T.K == XStruct {
				if offs[i]-offs[i-1] < roundUp(16, XSizeOf(t.Members[i-1].T)) {
					return false
				}
			}
		}
		return true
	}
	return false
}

// ---------------------------------------------------------------- attribute spellings

// XSpell is one way of writing the const-expression argument of @align / @size. Every spelling of
// one value denotes the same attribute (WGSL: the argument is a const-expression of type i32 or u32).
type XSpell uint8

const (
	SpDec        XSpell = iota // 16
	SpDecU                     // 16u
	SpDecI                     // 16i
	SpHex                      // 0x10
	SpHexU                     // 0x10u
	SpHexUpper                 // 0X10
	SpParen                    // (16)
	SpMul                      // 8 * 2
	SpAdd                      // 15 + 1
	SpShift                    // 8 << 1u
	SpConv                     // u32(16)
	SpTrailComma               // 16,
	SpSpaces                   // @align( 16 )
	SpComment                  // @align(/* c */ 16)
	SpConst                    // K      with `const K = 16;` declared before the struct
	SpConstAfter               // K      with the const declared after the struct
	SpConstU32                 // K      with `const K: u32 = 16u;`
	SpConstI32                 // K      with `const K: i32 = 16;`
	SpConstExpr                // K * 2  with `const K = 8;`
	xSpellCount
)

var xSpellNames = [...]string{"dec", "dec-u", "dec-i", "hex", "hex-u", "hex-upper", "paren", "mul", "add", "shift", "conv", "trailing-comma", "spaces", "comment",
	"const", "const-after", "const-u32", "const-i32", "const-expr"}

func (s XSpell) String() string { return xSpellNames[s] }

// XSpellings lists every spelling, simplest first.
func XSpellings() []XSpell {
	out := make([]XSpell, xSpellCount)
	for i := range out {
		out[i] = XSpell(i)
	}
	return out
}

// spell renders value v (always even and > 0 here). constName is the module constant to use for the
// const spellings; the returned decl is its declaration ("" if none) and after tells where it goes.
func (s XSpell) spell(v int, constName string) (arg, decl string, after bool) {
	switch s {
	case SpDec:
		return fmt.Sprintf("%d", v), "", false
	case SpDecU:
		return fmt.Sprintf("%du", v), "", false
	case SpDecI:
		return fmt.Sprintf("%di", v), "", false
	case SpHex:
		return fmt.Sprintf("0x%x", v), "", false
	case SpHexU:
		return fmt.Sprintf("0x%xu", v), "", false
	case SpHexUpper:
		return fmt.Sprintf("0X%X", v), "", false
	case SpParen:
		return fmt.Sprintf("(%d)", v), "", false
	case SpMul:
		return fmt.Sprintf("%d * 2", v/2), "", false
	case SpAdd:
		return fmt.Sprintf("%d + 1", v-1), "", false
	case SpShift:
		return fmt.Sprintf("%d << 1u", v/2), "", false
	case SpConv:
		return fmt.Sprintf("u32(%d)", v), "", false
	case SpTrailComma:
		return fmt.Sprintf("%d,", v), "", false
	case SpSpaces:
		return fmt.Sprintf(" %d ", v), "", false
	case SpComment:
		return fmt.Sprintf("/* c */ %d", v), "", false
	case SpConst:
		return constName, fmt.Sprintf("const %s = %d;", constName, v), false
	case SpConstAfter:
		return constName, fmt.Sprintf("const %s = %d;", constName, v), true
	case SpConstU32:
		return constName, fmt.Sprintf("const %s: u32 = %du;", constName, v), false
	case SpConstI32:
		return constName, fmt.Sprintf("const %s: i32 = %d;", constName, v), false
	case SpConstExpr:
		return constName + " * 2", fmt.Sprintf("const %s = %d;", constName, v/2), false
	}
	panic("spell")
}

// ---------------------------------------------------------------- printer

func xStructsOf(t *XT, seen map[string]bool, out *[]*XT) {
	switch t.K {
	case XArray:
		xStructsOf(t.Elem, seen, out)
	case XStruct:
		for _, m := range t.Members {
			xStructsOf(m.T, seen, out)
		}
		if !seen[t.Name] {
			seen[t.Name] = true
			*out = append(*out, t)
		}
	}
}

// XGlobal is one module-scope variable of an F3x program.
type XGlobal struct {
	Name    string
	Space   string // "storage", "uniform", "workgroup"
	RW      bool
	T       *XT
	Binding int
}

// XProbe is one leaf read the probe body performs: the WGSL access path below a global, and the
// byte offset / byte width the WGSL layout gives that leaf.
type XProbe struct {
	Path   string
	Off    int
	Width  int
	Atomic bool
	S      string
}

// xCorners appends the "corner" leaves of t at base offset off: for every aggregate the first and
// the last component (and the second one where the stride matters), recursively.
func xCorners(t *XT, path string, off int, out *[]XProbe) {
	switch t.K {
	case XScalar:
		*out = append(*out, XProbe{Path: path, Off: off, Width: xScalarBytes(t.S), S: t.S})
	case XAtomic:
		*out = append(*out, XProbe{Path: path, Off: off, Width: 4, Atomic: true, S: t.S})
	case XVec:
		w := xScalarBytes(t.S)
		*out = append(*out, XProbe{Path: path + ".x", Off: off, Width: w, S: t.S})
		*out = append(*out, XProbe{Path: path + "." + string("xyzw"[t.N-1]), Off: off + (t.N-1)*w, Width: w, S: t.S})
	case XMat:
		w := xScalarBytes(t.S)
		cs := XMatColStride(t)
		*out = append(*out, XProbe{Path: path + "[0].x", Off: off, Width: w, S: t.S})
		*out = append(*out, XProbe{Path: path + "[1].y", Off: off + cs + w, Width: w, S: t.S})
		*out = append(*out, XProbe{Path: fmt.Sprintf("%s[%d].%s", path, t.C-1, string("xyzw"[t.N-1])), Off: off + (t.C-1)*cs + (t.N-1)*w, Width: w, S: t.S})
	case XArray:
		st := XStride(t)
		xCorners(t.Elem, path+"[0]", off, out)
		n := t.Len
		if n == 0 {
			n = 2 // a runtime-sized array is probed at elements 0 and 1
		}
		if n > 1 {
			xCorners(t.Elem, fmt.Sprintf("%s[%d]", path, n-1), off+(n-1)*st, out)
		}
	case XStruct:
		offs := XOffsets(t)
		for i, m := range t.Members {
			xCorners(m.T, path+"."+m.Name, off+offs[i], out)
		}
	}
}

// XProbes returns the leaf reads performed on a global of type t named name.
func XProbes(name string, t *XT) []XProbe {
	var out []XProbe
	xCorners(t, name, 0, &out)
	return out
}

// XAllLeaves returns every leaf scalar of a global of type t (a runtime-sized array contributes the
// two elements the probes touch).
func XAllLeaves(name string, t *XT) []XProbe {
	var out []XProbe
	var walk func(t *XT, path string, off int)
	walk = func(t *XT, path string, off int) {
		w := xScalarBytes(t.S)
		switch t.K {
		case XScalar:
			out = append(out, XProbe{Path: path, Off: off, Width: w, S: t.S})
		case XAtomic:
			out = append(out, XProbe{Path: path, Off: off, Width: 4, Atomic: true, S: t.S})
		case XVec:
			for i := 0; i < t.N; i++ {
				out = append(out, XProbe{Path: path + "." + string("xyzw"[i]), Off: off + i*w, Width: w, S: t.S})
			}
		case XMat:
			cs := XMatColStride(t)
			for c := 0; c < t.C; c++ {
				for r := 0; r < t.N; r++ {
					out = append(out, XProbe{Path: fmt.Sprintf("%s[%d].%s", path, c, string("xyzw"[r])), Off: off + c*cs + r*w, Width: w, S: t.S})
				}
			}
		case XArray:
			n := t.Len
			if n == 0 {
				n = 2
			}
			for i := 0; i < n; i++ {
				walk(t.Elem, fmt.Sprintf("%s[%d]", path, i), off+i*XStride(t))
			}
		case XStruct:
			offs := XOffsets(t)
			for i, m := range t.Members {
				walk(m.T, path+"."+m.Name, off+offs[i])
			}
		}
	}
	walk(t, name, 0)
	return out
}

// Declaration orders of an F3x program (WGSL module-scope declarations are order-independent).
const (
	XOrderNormal     = iota // constants, structs innermost first, variables, entry point
	XOrderOuterFirst        // structs outermost first
	XOrderReversed          // entry point, variables, structs outermost first, constants
)

var XOrderNames = [...]string{"normal", "outer-first", "reversed"}

// XPrint renders an F3x program in the normal declaration order.
func XPrint(globals []XGlobal) string { return XPrintOrder(globals, XOrderNormal) }

// XPrintOrder renders an F3x program: `enable f16;` when needed, module constants used by attribute
// spellings, the struct declarations (innermost first), the globals, an output buffer `o`, and a
// compute entry point that reads the corner leaves of every global into `o` and then writes the
// corner leaves of every read_write storage global.
func XPrintOrder(globals []XGlobal, order int) string {
	var sb strings.Builder
	f16 := false
	var structs []*XT
	seen := map[string]bool{}
	for _, g := range globals {
		if g.T.UsesF16() {
			f16 = true
		}
		xStructsOf(g.T, seen, &structs)
	}
	if f16 {
		sb.WriteString("enable f16;\n")
	}
	var before, after []string
	type key struct {
		s string
		i int
		a bool
	}
	args := map[key]string{}
	for _, s := range structs {
		for i, m := range s.Members {
			if m.Align != 0 {
				arg, decl, aft := m.ASp.spell(m.Align, fmt.Sprintf("KA%s%s", s.Name, m.Name))
				args[key{s.Name, i, true}] = arg
				if decl != "" {
					if aft {
						after = append(after, decl)
					} else {
						before = append(before, decl)
					}
				}
			}
			if m.Size != 0 {
				arg, decl, aft := m.SSp.spell(m.Size, fmt.Sprintf("KS%s%s", s.Name, m.Name))
				args[key{s.Name, i, false}] = arg
				if decl != "" {
					if aft {
						after = append(after, decl)
					} else {
						before = append(before, decl)
					}
				}
			}
		}
	}
	head := sb.String()
	sb.Reset()
	if order != XOrderNormal {
		for i, j := 0, len(structs)-1; i < j; i, j = i+1, j-1 {
			structs[i], structs[j] = structs[j], structs[i]
		}
	}
	for _, s := range structs {
		fmt.Fprintf(&sb, "struct %s {\n", s.Name)
		for i, m := range s.Members {
			sb.WriteString("  ")
			al, sz := "", ""
			if m.Align != 0 {
				al = "@align(" + args[key{s.Name, i, true}] + ") "
			}
			if m.Size != 0 {
				sz = "@size(" + args[key{s.Name, i, false}] + ") "
			}
			if m.SizeFirst {
				sb.WriteString(sz + al)
			} else {
				sb.WriteString(al + sz)
			}
			fmt.Fprintf(&sb, "%s: %s,\n", m.Name, m.T)
		}
		sb.WriteString("}\n")
	}
	secStructs := sb.String()
	sb.Reset()
	ob := 0
	for _, g := range globals {
		switch g.Space {
		case "storage":
			acc := "read"
			if g.RW {
				acc = "read_write"
			}
			fmt.Fprintf(&sb, "@group(0) @binding(%d) var<storage, %s> %s: %s;\n", g.Binding, acc, g.Name, g.T)
		case "uniform":
			fmt.Fprintf(&sb, "@group(0) @binding(%d) var<uniform> %s: %s;\n", g.Binding, g.Name, g.T)
		default:
			fmt.Fprintf(&sb, "var<%s> %s: %s;\n", g.Space, g.Name, g.T)
		}
		if g.Binding >= ob {
			ob = g.Binding + 1
		}
	}
	fmt.Fprintf(&sb, "@group(0) @binding(%d) var<storage, read_write> o: array<u32>;\n", ob)
	secVars := sb.String()
	sb.Reset()
	sb.WriteString("@compute @workgroup_size(1)\nfn main() {\n")
	k := 0
	for _, g := range globals {
		for _, p := range XProbes(g.Name, g.T) {
			var rd string
			switch {
			case p.Atomic && (g.Space == "workgroup" || g.RW):
				rd = "atomicLoad(&" + p.Path + ")"
				if p.S == "i32" {
					rd = "u32(" + rd + ")"
				}
			case p.Atomic:
				continue
			case p.S == "u32":
				rd = p.Path
			default:
				rd = "u32(" + p.Path + ")"
			}
			fmt.Fprintf(&sb, "  o[%d] = %s;\n", k, rd)
			k++
		}
	}
	// every corner leaf of a read_write storage global is also written (one store per leaf)
	for _, g := range globals {
		if g.Space != "storage" || !g.RW {
			continue
		}
		for _, p := range XProbes(g.Name, g.T) {
			one := map[string]string{"f16": "1.0h", "f32": "1.0", "i32": "1i", "u32": "1u"}[p.S]
			if p.Atomic {
				fmt.Fprintf(&sb, "  atomicStore(&%s, %s);\n", p.Path, one)
			} else {
				fmt.Fprintf(&sb, "  %s = %s;\n", p.Path, one)
			}
		}
	}
	// whole-value copies from the read-only to the read_write storage global: every fixed-size
	// top-level member (or the whole value when it is not a struct)
	var src, dst *XGlobal
	for i := range globals {
		if globals[i].Space == "storage" && globals[i].RW {
			dst = &globals[i]
		} else if globals[i].Space == "storage" {
			src = &globals[i]
		}
	}
	if src != nil && dst != nil {
		if t := src.T; t.K == XStruct {
			for _, m := range t.Members {
				if !XHasRuntime(m.T) {
					fmt.Fprintf(&sb, "  %s.%s = %s.%s;\n", dst.Name, m.Name, src.Name, m.Name)
				}
			}
		} else if !XHasRuntime(t) {
			fmt.Fprintf(&sb, "  %s = %s;\n", dst.Name, src.Name)
		}
	}
	sb.WriteString("}\n")
	secMain := sb.String()
	sb.Reset()
	join := func(xs []string) string {
		if len(xs) == 0 {
			return ""
		}
		return strings.Join(xs, "\n") + "\n"
	}
	sb.WriteString(head)
	if order == XOrderReversed {
		sb.WriteString(secMain + secVars + secStructs + join(after) + join(before))
	} else {
		sb.WriteString(join(before) + secStructs + join(after) + secVars + secMain)
	}
	return sb.String()
}
