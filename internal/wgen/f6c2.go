package wgen

import (
	"fmt"
	"math"
	"strings"
	"sync"

	"verif/internal/xrt"
)

// F6c2 "chains": compile-time evaluation through NAMED constants. The result of a first foldable
// scalar operation op1 (on literal operands) is bound to a named constant A, and a second operation
// op2 consumes A by name. What matters is the stored representation of the intermediate result
// (sign/zero extension of 32-bit integers, float width, bool encoding, abstract vs concrete) and the
// path by which each kind of binding is read back in each compile-time context.
//
// Enumerated: every type-compatible triple (op1, op2, operand position of A in op2) over the scalar,
// exactly specified F1 operators/builtins/conversions (i32, u32, f32, bool; abstract literals as a
// second literal style), with operand tuples chosen so that A falls in every reachable value class
// (ValClass) and the remaining operands of op2 range over a small boundary alphabet. The placement of
// A and of the consumer (the "layout") is chosen by the caller (internal/checks/c06x.go).

// ConstEval evaluates a scalar constant expression with the reference evaluator (bool as 0/1).
type ConstEval func(e Expr) (uint32, bool)

// CItem is one compile-time evaluation: optional named intermediates and a result expression that
// refers to them by name. Names are unique within a batch (the generator is given a suffix).
type CItem struct {
	Class   string      // construct class (violation-key component)
	VClass  string      // value class of the named intermediate (key component), "" if none
	Binds   []ConstDecl // named intermediates in dependency order (placement decided by the layout)
	Structs []*Type     // struct declarations the item needs
	Result  Expr        // scalar or vector typed
}

// ValClass partitions the values of a scalar type into the classes whose stored representation or
// read-back path can differ.
func ValClass(k SK, b uint32) string {
	switch k {
	case Bool:
		if b != 0 {
			return "true"
		}
		return "false"
	case I32:
		v := int32(b)
		switch {
		case v == 0:
			return "0"
		case v == 1:
			return "1"
		case v == -1:
			return "-1"
		case v == math.MinInt32:
			return "imin"
		case v == math.MaxInt32:
			return "imax"
		case v < -0x10000:
			return "neg-large"
		case v < 0:
			return "neg"
		case v > 0x10000:
			return "pos-large"
		}
		return "pos"
	case U32:
		switch {
		case b == 0:
			return "0"
		case b == 1:
			return "1"
		case b == 0xFFFFFFFF:
			return "umax"
		case b == 0x80000000:
			return "2^31"
		case b > 0x80000000:
			return "above-2^31"
		case b > 0x10000:
			return "large"
		}
		return "small"
	}
	f := float64(math.Float32frombits(b))
	switch {
	case f == 0:
		return "0"
	case math.Abs(f) >= 16777216:
		if f < 0 {
			return "neg-huge"
		}
		return "huge"
	case f == math.Trunc(f):
		if f < 0 {
			return "neg-int"
		}
		return "int"
	case f < 0:
		return "neg-frac"
	}
	return "frac"
}

// shortSig is the construct name used in keys: kind/op/operand types (the division operator is
// spelled "div" so that keys split on '/').
func shortSig(s *opSpec) string {
	sig := s.sig
	if strings.HasPrefix(sig, "bin///") {
		sig = "bin/div/" + sig[len("bin///"):]
	}
	p := strings.Split(sig, "/")
	switch p[0] {
	case "bin":
		if len(p) >= 4 && p[2] == p[3] {
			return "bin/" + p[1] + "/" + p[2]
		}
		return strings.Join(p, "/")
	}
	return sig
}

// ChainGroup is one (op1, op2, position, literal style) triple of F6c2.
type ChainGroup struct {
	Index    int
	Bare     bool
	Pos      int
	op1, op2 *opSpec
	Sig      string // F6c2/<op2>@<pos>/<op1>/<style>
	Op1, Op2 string // short signatures
	Approx   bool
}

// ChainItem: one operand valuation of a group.
type ChainItem struct {
	T1     []uint32 // operands of op1
	T2     []uint32 // operands of op2 (entry Pos holds the value of A)
	AClass string
	Rep    int // index of the op1 valuation among Link1's items
}

func chainSpecs(bare bool) []opSpec {
	var out []opSpec
	for _, s := range constSpecs(bare) {
		if s.ret.K != TScalar || strings.Contains(s.sig, "nonneg") {
			continue
		}
		ok := true
		for _, a := range s.args {
			if a.K != TScalar {
				ok = false
			}
		}
		if ok {
			out = append(out, s)
		}
	}
	return out
}

var chainSpecCache [2][]opSpec
var chainSpecOnce sync.Once

func chainSpecsCached(bare bool) []opSpec {
	chainSpecOnce.Do(func() {
		chainSpecCache[0] = chainSpecs(false)
		chainSpecCache[1] = chainSpecs(true)
	})
	if bare {
		return chainSpecCache[1]
	}
	return chainSpecCache[0]
}

// F6c2Groups enumerates the groups. approx2: also admit approximately specified operations (f32
// division, transcendental builtins) as the consumer op2 (compared with tolerance); they are never
// used as op1, so that no oracle depends on an approximated intermediate.
func F6c2Groups(approx2 bool) []*ChainGroup {
	var out []*ChainGroup
	for _, bare := range []bool{false, true} {
		specs := chainSpecsCached(bare)
		style := "suffixed"
		if bare {
			style = "abstract"
		}
		for i2 := range specs {
			s2 := &specs[i2]
			if s2.approx && !approx2 {
				continue
			}
			for p, at := range s2.args {
				for i1 := range specs {
					s1 := &specs[i1]
					if s1.approx || !s1.ret.Equal(at) {
						continue
					}
					g := &ChainGroup{Index: len(out), Bare: bare, Pos: p, op1: s1, op2: s2, Op1: shortSig(s1), Op2: shortSig(s2), Approx: s2.approx}
					g.Sig = fmt.Sprintf("F6c2/%s@%d/%s/%s", g.Op2, p, g.Op1, style)
					out = append(out, g)
				}
			}
		}
	}
	return out
}

type chainRep struct {
	tup   []uint32
	val   uint32
	class string
}

var chainRepCache sync.Map // key string -> *chainRepEntry

type chainRepEntry struct {
	once sync.Once
	reps []chainRep
}

// reps: for every value class op1 can reach on its alphabet, the first (simplest) operand tuple that reaches it.
func (g *ChainGroup) reps(ev ConstEval) []chainRep {
	key := fmt.Sprintf("%v|%s", g.Bare, g.op1.sig)
	e, _ := chainRepCache.LoadOrStore(key, &chainRepEntry{})
	ent := e.(*chainRepEntry)
	ent.once.Do(func() {
		seen := map[string]bool{}
		for _, t := range tuples(g.op1) {
			if g.Bare && !bareOperandsOK(g.op1, t) {
				continue
			}
			if !constOperandsOK(g.op1, t) {
				continue
			}
			v, ok := ev(g.buildOp(g.op1, t, nil, -1))
			if !ok {
				continue
			}
			k := g.op1.ret.S
			if k == F32 && (isBadF32(v) || v == 0x80000000) {
				continue // inf/nan/subnormal or -0.0: WGSL leaves latitude
			}
			if g.Bare && k == I32 && !smallInt(v) {
				continue
			}
			c := ValClass(k, v)
			if seen[c] {
				continue
			}
			seen[c] = true
			ent.reps = append(ent.reps, chainRep{append([]uint32(nil), t...), v, c})
		}
	})
	return ent.reps
}

func isBadF32(b uint32) bool {
	e := b & 0x7F800000
	return e == 0x7F800000 || (e == 0 && b&0x007FFFFF != 0)
}

// smallInt: |v| <= 2^15, the bound under which two steps of abstract-integer arithmetic on this
// family's operands cannot leave the i32 range (so abstract and concrete evaluation coincide).
func smallInt(b uint32) bool {
	v := int64(int32(b))
	return v >= -0x8000 && v <= 0x8000
}

func bareOperandsOK(s *opSpec, t []uint32) bool {
	for i, a := range s.args {
		if a.S == I32 && !smallInt(t[i]) {
			return false
		}
	}
	// an abstract integer converted to u32 must be representable
	if strings.HasPrefix(s.sig, "conv/u32/i32") && int32(t[0]) < 0 {
		return false
	}
	return true
}

// constOperandsOK: operand restrictions that WGSL places on *constant* evaluation and that the F1
// alphabets express only through their choice of values (shifts must not overflow, counts < 32).
func constOperandsOK(s *opSpec, t []uint32) bool {
	switch {
	case strings.HasPrefix(s.sig, "bin/<<inrange/"):
		if t[1] >= 32 {
			return false
		}
		if s.args[0].S == U32 {
			return uint64(t[0])<<t[1] <= 0xFFFFFFFF
		}
		v := int64(int32(t[0])) << t[1]
		return v >= math.MinInt32 && v <= math.MaxInt32
	case strings.HasPrefix(s.sig, "bin/>>inrange/"):
		return t[1] < 32
	}
	return true
}

func inAlpha(a []uint32, v uint32) bool {
	for _, x := range a {
		if x == v {
			return true
		}
	}
	return false
}

// othersAlpha: the reduced boundary alphabet for the operands of op2 that are not A.
func othersAlpha(s *opSpec, q int) []uint32 {
	var pref []uint32
	switch s.args[q].S {
	case I32:
		pref = []uint32{2, 0xFFFFFFFF, 7, 0x80000000}
	case U32:
		pref = []uint32{2, 7, 0x80000000, 0xFFFFFFFF}
	case F32:
		pref = fbits(0.5, -1.5, 2.5)
	default:
		return []uint32{0, 1}
	}
	var out []uint32
	for _, v := range pref {
		if inAlpha(s.alpha[q], v) {
			out = append(out, v)
		}
	}
	if len(out) < 2 {
		out = nil
		for i := 0; i < len(s.alpha[q]) && i < 3; i++ {
			out = append(out, s.alpha[q][i])
		}
	}
	return out
}

// buildOp builds s on literal operands; operand pos (if >= 0) is replaced by a.
func (g *ChainGroup) buildOp(s *opSpec, t []uint32, a Expr, pos int) Expr {
	xs := make([]Expr, len(s.args))
	for i, at := range s.args {
		if i == pos {
			xs[i] = a
			continue
		}
		xs[i] = litOf(at, t[i:i+1], g.Bare)
	}
	return s.build(xs)
}

// Items enumerates the operand valuations of the group (deterministic; at most maxOthers
// valuations of the other operands per value class of A).
func (g *ChainGroup) Items(ev ConstEval, maxOthers int) []ChainItem {
	reps := g.reps(ev)
	s2 := g.op2
	// product of the reduced alphabets of the other operands
	var oth [][]uint32
	cur := make([]uint32, len(s2.args))
	var rec func(i int)
	rec = func(i int) {
		if i == len(s2.args) {
			oth = append(oth, append([]uint32(nil), cur...))
			return
		}
		if i == g.Pos {
			rec(i + 1)
			return
		}
		for _, v := range othersAlpha(s2, i) {
			cur[i] = v
			rec(i + 1)
		}
	}
	rec(0)
	var out []ChainItem
	for ri, rp := range reps {
		if s2.approx && !inAlpha(s2.alpha[g.Pos], rp.val) {
			continue // approximated consumers stay on their own alphabet (no discontinuity is approached)
		}
		n := 0
		for _, o := range oth {
			t2 := append([]uint32(nil), o...)
			t2[g.Pos] = rp.val
			if s2.keep != nil && !s2.keep(t2) {
				continue
			}
			if !constOperandsOK(s2, t2) || (g.Bare && !bareOperandsOK(s2, t2)) {
				continue
			}
			out = append(out, ChainItem{T1: rp.tup, T2: t2, AClass: rp.class, Rep: ri})
			n++
			if n >= maxOthers {
				break
			}
		}
	}
	return out
}

// CItem builds the item: A is bound to the name a<sfx>.
func (g *ChainGroup) CItem(it ChainItem, sfx string) CItem {
	name := "a" + sfx
	a := g.buildOp(g.op1, it.T1, nil, -1)
	res := g.buildOp(g.op2, it.T2, L(name, g.op1.ret), g.Pos)
	return CItem{Class: g.Op2 + "@" + fmt.Sprint(g.Pos) + "|" + g.Op1, VClass: it.AClass,
		Binds: []ConstDecl{{Name: name, Ty: g.op1.ret, Init: a}}, Result: res}
}

// Link1 returns the first link alone, one item per value class of A: `A = op1(literals)` with A
// itself as the result (used to attribute a failing chain to the link that fails on its own).
func (g *ChainGroup) Link1(ev ConstEval) (items []CItem, want [][]uint32) {
	for j, rp := range g.reps(ev) {
		name := fmt.Sprintf("a%d", j)
		items = append(items, CItem{Class: g.Op1, VClass: rp.class,
			Binds: []ConstDecl{{Name: name, Ty: g.op1.ret, Init: g.buildOp(g.op1, rp.tup, nil, -1)}}, Result: L(name, g.op1.ret)})
		want = append(want, []uint32{rp.val})
	}
	return
}

// Link1Key identifies the first link (shared by every group with the same op1 and literal style).
func (g *ChainGroup) Link1Key() string { return fmt.Sprintf("%v|%s", g.Bare, g.op1.sig) }

// Link2 returns the second link alone: op2 with the value of A written as a literal.
func (g *ChainGroup) Link2(it ChainItem) CItem {
	return CItem{Class: g.Op2 + "@" + fmt.Sprint(g.Pos), VClass: it.AClass, Result: g.buildOp(g.op2, it.T2, nil, -1)}
}

// Named returns the chain with A bound to a *literal* of its value instead of op1 (used to tell
// "this kind of named constant cannot be consumed by op2 in this context at all" from a failure that
// needs a computed intermediate).
func (g *ChainGroup) Named(it ChainItem, sfx string) CItem {
	name := "a" + sfx
	res := g.buildOp(g.op2, it.T2, L(name, g.op1.ret), g.Pos)
	return CItem{Class: g.Op2 + "@" + fmt.Sprint(g.Pos), VClass: it.AClass,
		Binds: []ConstDecl{{Name: name, Ty: g.op1.ret, Init: litOf(g.op1.ret, it.T2[g.Pos:g.Pos+1], g.Bare)}}, Result: res}
}

// RetType is the result type of the consumer.
func (g *ChainGroup) RetType() *Type { return g.op2.ret }

// ---------------------------------------------------------------- layouts

// Binding kinds for the named intermediates and contexts for the result (value contexts).
//   bk: inline (no named intermediate), mcT / mc (module const with / without explicit type),
//       fcT / fc (function-scope const), let
//   cc: expr (sub-expression of a statement), modconst / modconstT, fnconst / fnconstT, let
// ConstLayoutOK says whether cc can see a binding of kind bk.
func ConstLayoutOK(bk, cc string) bool {
	switch cc {
	case "modconst", "modconstT":
		return bk == "inline" || bk == "mc" || bk == "mcT"
	case "fnconst", "fnconstT":
		return bk != "let"
	}
	return true
}

// BuildConstBatch places every item's intermediates (bk) and result (cc) in one program; item j is
// written to o[j]. All items must have the same result type.
func BuildConstBatch(items []CItem, bk, cc string) *Case {
	m := &Module{}
	rt := items[0].Result.T()
	ost := storageType(rt)
	oarr := Array(ost, 0)
	m.Globals = append(m.Globals, Global{Name: "o", Space: "storage", RW: true, Ty: oarr, Group: 0, Binding: 0})
	seen := map[string]bool{}
	var body []Stmt
	approx := false
	for j, it := range items {
		for _, st := range it.Structs {
			if !seen[st.Name] {
				seen[st.Name] = true
				m.Structs = append(m.Structs, st)
			}
		}
		for _, b := range it.Binds {
			if seen["bind:"+b.Name] {
				continue // intermediates shared by several items of the batch
			}
			seen["bind:"+b.Name] = true
			switch bk {
			case "inline":
				// the main intermediate is written inline by the generator; what remains are named
				// constructor arguments, placed at module scope
				m.Consts = append(m.Consts, ConstDecl{Name: b.Name, Ty: b.Ty, Init: b.Init})
			case "mcT", "mc":
				m.Consts = append(m.Consts, ConstDecl{Name: b.Name, Ty: b.Ty, Init: b.Init, Explicit: bk == "mcT"})
			case "fcT", "fc":
				body = append(body, &VarDecl{Kind: "const", Name: b.Name, Ty: b.Ty, Init: b.Init, Explicit: bk == "fcT"})
			case "let":
				body = append(body, &VarDecl{Kind: "let", Name: b.Name, Ty: b.Ty, Init: b.Init})
			default:
				panic("BuildConstBatch: item with intermediates in layout " + bk)
			}
		}
		out := Idx(V("o", oarr), LitU(uint32(j)))
		rn := fmt.Sprintf("r%d", j)
		switch cc {
		case "expr":
			body = append(body, &Assign{LHS: out, Op: "=", RHS: toStorage(it.Result, rt)})
		case "modconst", "modconstT":
			m.Consts = append(m.Consts, ConstDecl{Name: rn, Ty: rt, Init: it.Result, Explicit: cc == "modconstT"})
			body = append(body, &Assign{LHS: out, Op: "=", RHS: toStorage(L(rn, rt), rt)})
		case "fnconst", "fnconstT":
			body = append(body, &VarDecl{Kind: "const", Name: rn, Ty: rt, Init: it.Result, Explicit: cc == "fnconstT"})
			body = append(body, &Assign{LHS: out, Op: "=", RHS: toStorage(L(rn, rt), rt)})
		case "let":
			body = append(body, &VarDecl{Kind: "let", Name: rn, Ty: rt, Init: it.Result})
			body = append(body, &Assign{LHS: out, Op: "=", RHS: toStorage(L(rn, rt), rt)})
		default:
			panic("BuildConstBatch: context " + cc)
		}
	}
	m.Funcs = append(m.Funcs, &Func{Name: "main", Stage: "compute", WG: [3]int{1, 0, 0}, Body: body})
	ob := make([]byte, len(items)*Stride(oarr))
	for i := range ob {
		ob[i] = 0xCD
	}
	k0 := xrt.Binding{Group: 0, Binding: 0}
	return &Case{Sig: "constbatch/" + bk + "/" + cc, Mod: m, Bufs: xrt.Buffers{k0: ob}, Groups: [3]uint32{1, 1, 1}, Approx: approx,
		BufTypes: map[xrt.Binding]*Type{k0: Array(ost, len(items))}}
}

// StorageType exposes the buffer type used for values of type t (bool -> u32).
func StorageType(t *Type) *Type { return storageType(t) }
