package wgen

import (
	"fmt"
	"sort"
	"strings"

	"verif/internal/xrt"
)

// F6o-cf / F6o-inj: override uses followed or enclosed by every statement and expression kind.
//
// F6o-cf takes the F2 control-flow trees (every statement tree up to a node budget, in entry,
// callee and value-returning-callee position) and replaces the literals that steer them — loop
// bounds, comparison operands of conditions, initial counter values, marker multipliers, the
// operand of the helper's test, an additive term of switch selectors — by overrides whose default
// is the replaced literal. With no value supplied the program is the F2 program; with values
// supplied the loops run a different number of times and the conditions take other branches.
//
// F6o-inj takes programs of other executable families (F1 operator tables, F4 access shapes) and
// injects a foldable override use at the start of one function, so that every later expression and
// statement kind of the carrier is observed after override resolution has rebuilt the function.

// ---------------------------------------------------------------- generic AST rewriting

func mapExpr(e Expr, f func(Expr) Expr) Expr {
	if e == nil {
		return nil
	}
	var out Expr
	switch e := e.(type) {
	case *Lit, *Ref:
		out = e
	case *Bin:
		c := *e
		c.L, c.R = mapExpr(e.L, f), mapExpr(e.R, f)
		out = &c
	case *Un:
		c := *e
		c.X = mapExpr(e.X, f)
		out = &c
	case *Call:
		c := *e
		c.Args = make([]Expr, len(e.Args))
		for i, a := range e.Args {
			c.Args[i] = mapExpr(a, f)
		}
		out = &c
	case *Cons:
		c := *e
		c.Args = make([]Expr, len(e.Args))
		for i, a := range e.Args {
			c.Args[i] = mapExpr(a, f)
		}
		out = &c
	case *Bitcast:
		c := *e
		c.X = mapExpr(e.X, f)
		out = &c
	case *Index:
		c := *e
		c.X = mapExpr(e.X, f)
		if _, isLit := e.I.(*Lit); !isLit { // a literal index stays a constant index
			c.I = mapExpr(e.I, f)
		}
		out = &c
	case *Field:
		c := *e
		c.X = mapExpr(e.X, f)
		out = &c
	case *Swz:
		c := *e
		c.X = mapExpr(e.X, f)
		out = &c
	case *AddrOf:
		c := *e
		c.X = mapExpr(e.X, f)
		out = &c
	case *Deref:
		c := *e
		c.X = mapExpr(e.X, f)
		out = &c
	case *Paren:
		c := *e
		c.X = mapExpr(e.X, f)
		out = &c
	default:
		panic(fmt.Sprintf("mapExpr %T", e))
	}
	return f(out)
}

// mapStmts rebuilds a statement list, applying f to every expression that may be an
// override-expression (not: case selectors, const declarations, const_assert).
func mapStmts(ss []Stmt, f func(Expr) Expr) []Stmt {
	if ss == nil {
		return nil
	}
	out := make([]Stmt, 0, len(ss))
	for _, s := range ss {
		out = append(out, mapStmt(s, f))
	}
	return out
}

func mapStmt(s Stmt, f func(Expr) Expr) Stmt {
	me := func(e Expr) Expr { return mapExpr(e, f) }
	switch s := s.(type) {
	case nil:
		return nil
	case *VarDecl:
		if s.Kind == "const" {
			return s
		}
		c := *s
		c.Init = me(s.Init)
		return &c
	case *Assign:
		c := *s
		c.LHS, c.RHS = me(s.LHS), me(s.RHS)
		return &c
	case *IncDec:
		c := *s
		c.LHS = me(s.LHS)
		return &c
	case *If:
		c := *s
		c.Cond, c.Then, c.Else = me(s.Cond), mapStmts(s.Then, f), mapStmts(s.Else, f)
		return &c
	case *Switch:
		c := *s
		c.Sel = me(s.Sel)
		c.Cases = make([]SwCase, len(s.Cases))
		for i, k := range s.Cases {
			c.Cases[i] = k
			c.Cases[i].Body = mapStmts(k.Body, f)
		}
		return &c
	case *Loop:
		c := *s
		c.Body, c.Continuing, c.BreakIf = mapStmts(s.Body, f), mapStmts(s.Continuing, f), me(s.BreakIf)
		return &c
	case *For:
		c := *s
		c.Init, c.Cond, c.Upd, c.Body = mapStmt(s.Init, f), me(s.Cond), mapStmt(s.Upd, f), mapStmts(s.Body, f)
		return &c
	case *While:
		c := *s
		c.Cond, c.Body = me(s.Cond), mapStmts(s.Body, f)
		return &c
	case *Return:
		c := *s
		c.X = me(s.X)
		return &c
	case *Block:
		c := *s
		c.Body = mapStmts(s.Body, f)
		return &c
	case *ExprStmt:
		c := *s
		c.X = me(s.X).(*Call)
		return &c
	case *Break, *Continue, *Barrier, *ConstAssert, *Discard:
		return s
	}
	panic(fmt.Sprintf("mapStmt %T", s))
}

// ---------------------------------------------------------------- literal -> override

type ovLitKey struct {
	k    SK
	bits uint32
}

// literals eligible for replacement, with the override that replaces them (name, @id or -1)
type ovLitInfo struct {
	name string
	id   int
}

var ovLitTable = map[ovLitKey]ovLitInfo{
	{U32, 0}: {"K0", -1}, {U32, 1}: {"K1", -1}, {U32, 2}: {"K2", 2}, {U32, 3}: {"K3", -1}, {U32, 31}: {"K31", 31},
	{I32, 0}: {"KI0", -1}, {I32, 1}: {"KI1", 101}, {I32, 2}: {"KI2", -1},
}

var ovCfModes = []string{"direct", "folded", "let"}

// overridify rewrites every function of m. It returns the rewritten module and the override
// declarations it needs.
func overridify(m *Module, mode string) (*Module, []OvDecl) {
	used := map[ovLitKey]bool{}
	out := *m
	out.Funcs = nil
	zero := map[SK]ovLitKey{U32: {U32, 0}, I32: {I32, 0}}
	for _, fn := range m.Funcs {
		fused := map[ovLitKey]bool{}
		repl := func(e Expr) Expr {
			l, ok := e.(*Lit)
			if !ok {
				return e
			}
			key := ovLitKey{l.Ty.S, l.Bits}
			info, ok := ovLitTable[key]
			if !ok {
				return e
			}
			used[key] = true
			fused[key] = true
			switch mode {
			case "folded":
				used[zero[l.Ty.S]] = true
				return &Paren{X: &Bin{Op: "+", L: L(info.name, l.Ty), R: L(ovLitTable[zero[l.Ty.S]].name, l.Ty), Ty: l.Ty}}
			case "let":
				used[zero[l.Ty.S]] = true
				return L("l"+info.name, l.Ty)
			}
			return L(info.name, l.Ty)
		}
		c := *fn
		c.Body = mapStmts(fn.Body, repl)
		// a switch selector gets an additive override term (selectors have no literal of their own)
		c.Body = addSelectorTerm(c.Body, func(t *Type) Expr {
			used[zero[t.S]] = true
			return L(ovLitTable[zero[t.S]].name, t)
		})
		if mode == "let" {
			var keys []ovLitKey
			for k := range fused {
				keys = append(keys, k)
			}
			sort.Slice(keys, func(i, j int) bool {
				if keys[i].k != keys[j].k {
					return keys[i].k < keys[j].k
				}
				return keys[i].bits < keys[j].bits
			})
			var pre []Stmt
			for _, k := range keys {
				t := Scalar(k.k)
				pre = append(pre, &VarDecl{Kind: "let", Name: "l" + ovLitTable[k].name, Ty: t,
					Init: &Bin{Op: "+", L: L(ovLitTable[k].name, t), R: L(ovLitTable[zero[k.k]].name, t), Ty: t}})
			}
			c.Body = append(pre, c.Body...)
		}
		out.Funcs = append(out.Funcs, &c)
	}
	var keys []ovLitKey
	for k := range used {
		keys = append(keys, k)
	}
	sort.Slice(keys, func(i, j int) bool {
		if keys[i].k != keys[j].k {
			return keys[i].k < keys[j].k
		}
		return keys[i].bits < keys[j].bits
	})
	var ovs []OvDecl
	for _, k := range keys {
		info := ovLitTable[k]
		t := Scalar(k.k)
		ovs = append(ovs, OvDecl{Name: info.name, Ty: t, ID: info.id, Init: ovLit(t, k.bits, true)})
	}
	return &out, ovs
}

// addSelectorTerm rewrites `switch sel` to `switch sel + K` for every switch statement.
func addSelectorTerm(ss []Stmt, term func(t *Type) Expr) []Stmt {
	var walk func(ss []Stmt) []Stmt
	walk = func(ss []Stmt) []Stmt {
		if ss == nil {
			return nil
		}
		out := make([]Stmt, len(ss))
		for i, s := range ss {
			switch s := s.(type) {
			case *Switch:
				c := *s
				t := s.Sel.T()
				c.Sel = &Bin{Op: "+", L: s.Sel, R: term(t), Ty: t}
				c.Cases = make([]SwCase, len(s.Cases))
				for j, k := range s.Cases {
					c.Cases[j] = k
					c.Cases[j].Body = walk(k.Body)
				}
				out[i] = &c
			case *If:
				c := *s
				c.Then, c.Else = walk(s.Then), walk(s.Else)
				out[i] = &c
			case *Loop:
				c := *s
				c.Body, c.Continuing = walk(s.Body), walk(s.Continuing)
				out[i] = &c
			case *For:
				c := *s
				c.Body = walk(s.Body)
				out[i] = &c
			case *While:
				c := *s
				c.Body = walk(s.Body)
				out[i] = &c
			case *Block:
				c := *s
				c.Body = walk(s.Body)
				out[i] = &c
			default:
				out[i] = s
			}
		}
		return out
	}
	return walk(ss)
}

// value maps of the cf family (by override name); entries for overrides a program does not declare are dropped
var ovCfMaps = []map[string]float64{
	{},
	{"K2": 3},
	{"K1": 0, "K2": 1},
	{"K0": 1, "K31": 7},
	{"KI0": 1, "K3": 2},
}

func cfMapsFor(ovs []OvDecl, n int) []OvMap {
	var out []OvMap
	seen := map[string]bool{}
	for _, m := range ovCfMaps[:n] {
		vals := map[string]float64{}
		for i := range ovs {
			if v, ok := m[ovs[i].Name]; ok {
				vals[ovs[i].Name] = v
			}
		}
		lab := ovMapLabel(ovs, vals)
		if seen[lab] {
			continue
		}
		seen[lab] = true
		out = append(out, OvMap{Label: lab, Vals: vals})
	}
	return out
}

// cfShape is the set of compound statement kinds of a tree (the construct class of the keys).
func cfShape(l []*cf) string {
	set := map[byte]bool{}
	var walk func(l []*cf)
	walk = func(l []*cf) {
		for _, x := range l {
			switch x.kind {
			case cfMark, cfUnused, cfShadow:
			case cfBreak:
				set['B'] = true
			case cfContinue:
				set['C'] = true
			case cfReturn:
				set['R'] = true
			case cfCall:
				set['H'] = true
			case cfLoop:
				set['l'] = true
				if x.variant&2 != 0 {
					set['k'] = true // continuing { break if }
				}
			default:
				set[cfLetters[x.kind]] = true
			}
			for _, k := range x.kids {
				walk(k)
			}
		}
	}
	walk(l)
	var ks []byte
	for k := range set {
		ks = append(ks, k)
	}
	sort.Slice(ks, func(i, j int) bool { return ks[i] < ks[j] })
	if len(ks) == 0 {
		return "flat"
	}
	return string(ks)
}

// OvFromCase wraps a rewritten carrier case.
func ovFromCase(c *Case, mod *Module, ovs []OvDecl) *OvProg {
	return &OvProg{Ovs: ovs, Mod: mod, Bufs: c.Bufs, Groups: c.Groups, BufTypes: c.BufTypes, Approx: c.Approx}
}

// F6oCf enumerates F2 trees (full alphabet, node budget k; plus the core alphabet up to kcore) x
// position x rewriting mode x value maps.
func F6oCf(k, kcore int, positions []string, modes []string, nmaps int) []*OvProg {
	var out []*OvProg
	seen := map[string]bool{}
	add := func(trees [][]*cf) {
		for _, tr := range trees {
			ts := cfString(tr)
			if seen[ts] {
				continue
			}
			seen[ts] = true
			for _, pos := range positions {
				c := BuildF2(tr, pos)
				for _, mode := range modes {
					mod, ovs := overridify(c.Mod, mode)
					p := ovFromCase(c, mod, ovs)
					p.Part = "cf"
					p.Class = fmt.Sprintf("%s/%s/%s", pos, mode, cfShape(tr))
					p.Sig = fmt.Sprintf("F6o-cf/%s/%s/%s", pos, mode, ts)
					p.Maps = cfMapsFor(ovs, nmaps)
					out = append(out, p)
				}
			}
		}
	}
	add(F2Trees(k, false))
	if kcore > 0 {
		add(F2Trees(kcore, true))
	}
	return out
}

// ---------------------------------------------------------------- injection into carrier programs

// inject adds `override OV: u32 = 3;`, a private sink, and at the start (pos 0) or before top-level
// statement pos of function fname the statements
//     ovsink = ovsink + OV * 2u;          (a foldable use)
// and, in the entry point, a store of the sink to a fresh storage buffer as the last top-level
// statement when the body does not end in a return.
func inject(c *Case, fname string, pos int, withID bool) *OvProg {
	m := *c.Mod
	maxB := 0
	for _, g := range m.Globals {
		if (g.Space == "storage" || g.Space == "uniform") && g.Group == 0 && g.Binding >= maxB {
			maxB = g.Binding + 1
		}
	}
	oT := Array(TU32, 0)
	m.Globals = append(append([]Global(nil), m.Globals...),
		Global{Name: "ovsink", Space: "private", Ty: TU32},
		Global{Name: "ovout", Space: "storage", RW: true, Ty: oT, Group: 0, Binding: maxB})
	use := &Assign{LHS: V("ovsink", TU32), Op: "=", RHS: &Bin{Op: "+", L: V("ovsink", TU32), R: &Bin{Op: "*", L: L("OV", TU32), R: LitU(2), Ty: TU32}, Ty: TU32}}
	m.Funcs = nil
	found := false
	for _, fn := range c.Mod.Funcs {
		f := *fn
		if fn.Name == fname {
			if pos > len(fn.Body) {
				return nil
			}
			found = true
			b := append([]Stmt(nil), fn.Body[:pos]...)
			b = append(b, use)
			f.Body = append(b, fn.Body[pos:]...)
		}
		if fn.Stage != "" {
			// observe the sink first thing in the entry point as well as (when reachable) at its end
			store := &Assign{LHS: Idx(V("ovout", oT), LitU(0)), Op: "=", RHS: &Bin{Op: "+", L: V("ovsink", TU32), R: L("OV", TU32), Ty: TU32}}
			body := append([]Stmt(nil), f.Body...)
			endsInReturn := false
			if n := len(body); n > 0 {
				_, endsInReturn = body[n-1].(*Return)
			}
			if endsInReturn {
				body = append(append(body[:len(body)-1:len(body)-1], store), body[len(body)-1])
			} else {
				body = append(body, store)
			}
			f.Body = body
		}
		m.Funcs = append(m.Funcs, &f)
	}
	if !found {
		return nil
	}
	d := OvDecl{Name: "OV", Ty: TU32, ID: -1, Init: ovLit(TU32, 3, true)}
	if withID {
		d.ID = 9
	}
	p := ovFromCase(c, &m, []OvDecl{d})
	key := xrt.Binding{Group: 0, Binding: uint32(maxB)}
	p.Bufs = c.Bufs.Clone()
	ob := make([]byte, 4)
	for i := range ob {
		ob[i] = 0xCD
	}
	p.Bufs[key] = ob
	p.BufTypes = map[xrt.Binding]*Type{}
	for k, v := range c.BufTypes {
		p.BufTypes[k] = v
	}
	p.BufTypes[key] = Array(TU32, 1)
	p.Maps = []OvMap{{Label: "absent", Vals: map[string]float64{}}, {Label: d.Key() + "=5", Vals: map[string]float64{"OV": 5}}}
	return p
}

// F6oInj enumerates carrier programs x function receiving the use x position.
// carriers: the F1 operator tables with the listed operand sources, and the F4 access shapes.
func F6oInj(sources []string, allPositions bool) []*OvProg {
	var out []*OvProg
	idx := 0
	addCase := func(c *Case, class string) {
		for _, fn := range c.Mod.Funcs {
			npos := 1
			if allPositions {
				npos = len(fn.Body) + 1
				for i, st := range fn.Body { // never after a top-level return (no unreachable code by construction)
					if _, isRet := st.(*Return); isRet {
						npos = i + 1
						break
					}
				}
			}
			for pos := 0; pos < npos; pos++ {
				idx++
				p := inject(c, fn.Name, pos, idx%2 == 0)
				if p == nil {
					continue
				}
				where := "helper"
				if fn.Stage != "" {
					where = "entry"
				}
				p.Part = "inj"
				p.Class = where + "/" + class
				p.Sig = fmt.Sprintf("F6o-inj/%s@%d/%s", fn.Name, pos, c.Sig)
				out = append(out, p)
			}
		}
	}
	if f1Idx == nil {
		f1Idx = f1Index()
	}
	for _, ix := range f1Idx {
		src := f1Sources[ix[1]]
		ok := false
		for _, s := range sources {
			ok = ok || s == src
		}
		if !ok {
			continue
		}
		s := &f1Specs[ix[0]]
		c := buildF1(s, src)
		addCase(c, "F1/"+src+"/"+specClass(s.sig))
	}
	acc := F4Access()
	for i := 0; i < acc.Count; i++ {
		c := acc.At(i)
		if c.NoExec {
			continue
		}
		addCase(c, "F4acc")
	}
	return out
}

// specClass drops the operand shapes from a spec signature: bin/+/vec3<f32>/f32 -> bin/+/f32.
func specClass(sig string) string {
	sig = strings.Replace(sig, "bin///", "bin/div/", 1)
	parts := strings.Split(sig, "/")
	if len(parts) >= 3 {
		return parts[0] + "/" + parts[1] + "/" + scalarOf(parts[2])
	}
	return sig
}

func scalarOf(t string) string {
	for _, k := range []string{"bool", "i32", "u32", "f32"} {
		if t == k || strings.Contains(t, "<"+k+">") {
			return k
		}
	}
	return t
}
