package wgen

import "testing"

func TestF5ReachCounts(t *testing.T) {
	for _, th := range []bool{false, true} {
		f := F5Reach(th)
		t.Logf("thorough=%v count=%d", th, f.Count)
		seen := map[string]bool{}
		for i := 0; i < f.Count; i += 1 {
			if th && i%197 != 0 {
				continue
			}
			c := f.At(i)
			if seen[c.Sig] {
				t.Fatalf("duplicate signature %s", c.Sig)
			}
			seen[c.Sig] = true
			if c.Mod.Entry().Name != "main" {
				t.Fatalf("%s: first entry point is %s", c.Sig, c.Mod.Entry().Name)
			}
		}
	}
	c := BuildReach(&ReachSpec{E: 2, H: 3, Dag: 0b101, Calls: [3]uint8{0, 1}, Touch: [5]uint8{0b10100, 0b00100, 0, 0b01000, 0}, Order: 4})
	if c.Sig != "F5reach/E2H3/mix/d=01.12/c=-.0/t=S@h2+S@ep1+P@h2+U@main" {
		t.Fatalf("signature: %s", c.Sig)
	}
	t.Log(c.Sig + "\n" + Print(c.Mod))
}
