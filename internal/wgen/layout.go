package wgen

// WGSL memory layout (WGSL spec "Memory Layout"): the reference for C07 and for every buffer the
// reference evaluator reads or writes.

import "encoding/binary"

func roundUp(k, n int) int { return (n + k - 1) / k * k }

// AlignOf per WGSL §14.4.1 (all scalars here are 4 bytes).
func AlignOf(t *Type) int {
	switch t.K {
	case TScalar, TAtomic:
		return 4
	case TVec:
		if t.N == 2 {
			return 8
		}
		return 16
	case TMat:
		return AlignOf(Vec(t.S, t.N))
	case TArray:
		return AlignOf(t.Elem)
	case TStruct:
		a := 1
		for _, m := range t.Members {
			if x := MemberAlign(m); x > a {
				a = x
			}
		}
		return a
	}
	panic("AlignOf " + t.String())
}

func MemberAlign(m Member) int {
	if m.Align != 0 {
		return m.Align
	}
	return AlignOf(m.T)
}
func MemberSize(m Member) int {
	if m.Size != 0 {
		return m.Size
	}
	return SizeOf(m.T)
}

// SizeOf per WGSL; a runtime-sized array counts one element.
func SizeOf(t *Type) int {
	switch t.K {
	case TScalar, TAtomic:
		return 4
	case TVec:
		return 4 * t.N
	case TMat:
		return t.C * roundUp(AlignOf(Vec(t.S, t.N)), 4*t.N)
	case TArray:
		n := t.Len
		if n == 0 {
			n = 1
		}
		return n * Stride(t)
	case TStruct:
		offs := Offsets(t)
		last := len(t.Members) - 1
		return roundUp(AlignOf(t), offs[last]+MemberSize(t.Members[last]))
	}
	panic("SizeOf " + t.String())
}

// Stride of an array type.
func Stride(t *Type) int { return roundUp(AlignOf(t.Elem), SizeOf(t.Elem)) }

// Offsets of struct members.
func Offsets(t *Type) []int {
	offs := make([]int, len(t.Members))
	cur := 0
	for i, m := range t.Members {
		cur = roundUp(MemberAlign(m), cur)
		offs[i] = cur
		cur += MemberSize(m)
	}
	return offs
}

// MatColStride is the byte distance between matrix columns.
func MatColStride(t *Type) int { return roundUp(AlignOf(Vec(t.S, t.N)), 4*t.N) }

// HasRuntimeArray reports whether t is or ends in a runtime-sized array.
func HasRuntimeArray(t *Type) bool {
	switch t.K {
	case TArray:
		return t.Len == 0
	case TStruct:
		return len(t.Members) > 0 && HasRuntimeArray(t.Members[len(t.Members)-1].T)
	}
	return false
}

// RuntimeCount is the element count of the runtime-sized array inside a buffer of the given
// byte size holding a value of type t (t is the array or a struct ending in it).
func RuntimeCount(t *Type, bufSize int) int {
	off := 0
	for t.K == TStruct {
		offs := Offsets(t)
		off += offs[len(offs)-1]
		t = t.Members[len(t.Members)-1].T
	}
	n := (bufSize - off) / Stride(t)
	if n < 1 {
		n = 1
	}
	return n
}

// Fix returns t with its trailing runtime array given length n (types without one are returned as is).
func Fix(t *Type, n int) *Type {
	switch t.K {
	case TArray:
		if t.Len == 0 {
			return &Type{K: TArray, Elem: t.Elem, Len: n}
		}
	case TStruct:
		if HasRuntimeArray(t) {
			c := *t
			c.Members = append([]Member(nil), t.Members...)
			last := len(c.Members) - 1
			c.Members[last].T = Fix(c.Members[last].T, n)
			return &c
		}
	}
	return t
}

// LeafOffsets appends the byte offset of every leaf scalar of (fixed-size) t placed at base.
func LeafOffsets(t *Type, base int, out []int) []int {
	switch t.K {
	case TScalar, TAtomic:
		return append(out, base)
	case TVec:
		for i := 0; i < t.N; i++ {
			out = append(out, base+4*i)
		}
	case TMat:
		cs := MatColStride(t)
		for c := 0; c < t.C; c++ {
			for r := 0; r < t.N; r++ {
				out = append(out, base+c*cs+4*r)
			}
		}
	case TArray:
		st := Stride(t)
		for i := 0; i < t.Len; i++ {
			out = LeafOffsets(t.Elem, base+i*st, out)
		}
	case TStruct:
		offs := Offsets(t)
		for i, m := range t.Members {
			out = LeafOffsets(m.T, base+offs[i], out)
		}
	}
	return out
}

// Decode reads the leaf scalars of fixed-size t from buf (missing bytes read as zero).
func Decode(t *Type, buf []byte) []uint32 {
	offs := LeafOffsets(t, 0, nil)
	out := make([]uint32, len(offs))
	for i, o := range offs {
		if o+4 <= len(buf) {
			out[i] = binary.LittleEndian.Uint32(buf[o:])
		}
	}
	return out
}

// Encode writes leaf scalars into buf at the layout positions; bytes not covered (padding) are
// left untouched. It returns the defined-byte mask (true = a leaf byte).
func Encode(t *Type, vals []uint32, buf []byte) {
	offs := LeafOffsets(t, 0, nil)
	for i, o := range offs {
		if o+4 <= len(buf) {
			binary.LittleEndian.PutUint32(buf[o:], vals[i])
		}
	}
}

// Mask returns for a buffer of size n holding t which bytes are leaf bytes.
func Mask(t *Type, n int) []bool {
	m := make([]bool, n)
	for _, o := range LeafOffsets(t, 0, nil) {
		for k := 0; k < 4 && o+k < n; k++ {
			m[o+k] = true
		}
	}
	return m
}
