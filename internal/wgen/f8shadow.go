package wgen

// F8s — shadowing. A module-scope entity named `g` of every kind (typed const, untyped const, private var,
// function, struct, alias) x a local binder of every kind that takes the same name (let, typed let, var, typed var,
// function-scope const, parameter, for-initialiser var, and let/var/const inside every kind of nested
// block) x the binder's initialiser (or type / argument) does or does not refer to the entity it shadows
// (`let g = g * 2;`, `var g: g = g(5, 6);`, `fn host(g: g)`) x other references to the module-scope entity
// in the same function: none, before the shadowing declaration, after the local's scope has ended x the
// entity declared before the function, after it, or last in the file x the function that holds the local is a
// helper or the entry point itself. For a function entity there is also
// the reverse case: the entity calls the function that holds the local (a walker that mistakes the local
// for the function sees a cycle).
//
// WGSL: a local's scope starts after its declaration, so a reference to `g` in its own initialiser or type
// means the module-scope entity; inside nested blocks the local stays visible; after the block (or the for
// statement) ends, `g` is the module-scope entity again.

import "fmt"

var f8sKinds = []string{"const", "aconst", "var", "fn", "struct", "alias"} // aconst: `const g = 5;` (abstract, no type annotation)

// binder: name, nested (its scope ends inside the function), kind of declaration
var f8sBinders = []struct {
	name   string
	nested bool
}{
	{"let", false}, {"let-typed", false}, {"var", false}, {"var-typed", false}, {"const", false}, {"param", false},
	{"for-init", true}, {"blk-let", true}, {"blk-var", true}, {"blk-const", true}, {"if-let", true}, {"else-let", true},
	{"loop-let", true}, {"cont-let", true}, {"case-let", true}, {"default-let", true}, {"while-let", true}, {"forbody-let", true},
}

var f8sRefs = []string{"ref", "noref", "rev"}
var f8sUses = []string{"only", "before", "after"}
var f8sPos = []string{"decl-before", "decl-after", "decl-last"}

var f8sWhere = []string{"helper", "entry"}

type f8sEnt struct{ kind, binder, ref, use, pos, where int }

func (e f8sEnt) valid() bool {
	kind, bd, ref, use := f8sKinds[e.kind], f8sBinders[e.binder], f8sRefs[e.ref], f8sUses[e.use]
	isConst := bd.name == "const" || bd.name == "blk-const"
	if ref == "rev" && (kind != "fn" || use != "only") {
		return false
	}
	if isConst && ref == "ref" && (kind == "var" || kind == "fn") {
		return false // not a const-expression
	}
	if use == "after" && !bd.nested {
		return false
	}
	if use == "before" && bd.name == "param" {
		return false
	}
	if kind == "aconst" && isConst && ref == "ref" && (use != "only" || f8sPos[e.pos] != "decl-before" || f8sWhere[e.where] != "helper") {
		// `const g = 5; fn h() { const g = g * 2; ... g ... }`: the compiler under verification recurses without bound on
		// every one of these (the local's initialiser is re-expanded at each use and finds the local itself), which
		// no in-process check can survive; one representative per binder is kept so that the crash screen of
		// internal/checks/c08x.go keeps announcing it, the other placements are left out.
		return false
	}
	if f8sWhere[e.where] == "entry" && (bd.name == "param" || ref == "rev") {
		return false // an entry point has no such parameter and cannot be called
	}
	return true
}

func f8sEnts() []f8sEnt {
	var out []f8sEnt
	for k := range f8sKinds {
		for b := range f8sBinders {
			for r := range f8sRefs {
				for u := range f8sUses {
					for p := range f8sPos {
						for w := range f8sWhere {
							e := f8sEnt{k, b, r, u, p, w}
							if e.valid() {
								out = append(out, e)
							}
						}
					}
				}
			}
		}
	}
	return out
}

func f8sProg(e f8sEnt) *f8Prog {
	kind, bd, ref, use := f8sKinds[e.kind], f8sBinders[e.binder], f8sRefs[e.ref], f8sUses[e.use]
	inEntry := f8sWhere[e.where] == "entry"
	return &f8Prog{name: "shadow", build: func(b *f8b) {
		acc, a := V("acc", TI32), L("a", TI32)
		var gT *Type // the struct / alias type called g, as this mode sees it
		declEntity := func() {
			switch kind {
			case "const":
				b.konst("g", TI32, f8i(5))
			case "aconst":
				b.konst("g", nil, f8i(5))
			case "var":
				b.gvar("private", "g", TI32, f8i(5))
			case "fn":
				x := L("x", TI32)
				var ret Expr = f8add(x, f8i(5))
				if ref == "rev" {
					args := []Expr{x}
					if bd.name == "param" {
						args = append(args, f8i(7))
					}
					ret = f8add(f8call("host", args...), f8i(5))
				}
				b.fn(&Func{Name: "g", Params: []Param{f8p("x", TI32)}, Ret: TI32, Body: []Stmt{f8ret(ret)}})
			case "struct":
				gT = f8S2(b, "g")
			case "alias":
				gT = b.alias("g", TI32)
			}
		}
		// an i32 expression of value 5 that names the module-scope entity
		entity := func() Expr {
			switch kind {
			case "const", "aconst":
				return L("g", TI32)
			case "var":
				return V("g", TI32)
			case "fn":
				return f8call("g", f8i(0))
			case "struct":
				return f8fld(f8cons(gT, f8i(5), f8i(6)), "a", TI32)
			}
			return f8cons(gT, f8i(5))
		}
		if ref != "rev" {
			declEntity()
		}
		// the local: type, initialiser, how it is read
		typed := bd.name == "let-typed" || bd.name == "var-typed" || bd.name == "param"
		lt := TI32
		var init Expr = f8i(7)
		val := 7
		if ref == "ref" {
			init, val = f8mul(entity(), f8i(2)), 10
			if typed && kind == "struct" {
				lt, init = gT, f8cons(gT, f8i(5), f8i(6))
			}
			if typed && kind == "alias" {
				lt = gT
			}
		}
		var lu Expr = L("g", TI32)
		if lt != TI32 && kind == "struct" {
			lu = f8fld(L("g", lt), "a", TI32)
		}
		useLocal := func() []Stmt {
			return []Stmt{f8upd(acc, "+=", lu), &Block{Body: []Stmt{f8upd(acc, "+=", lu)}}}
		}
		useEntity := func() Stmt { return f8upd(acc, "+=", entity()) }
		n := V("n", TI32)
		with := func(d Stmt, more ...Stmt) []Stmt { return append(append([]Stmt{d}, useLocal()...), more...) }
		bumpN := f8upd(n, "+=", f8i(1))
		stopAt2 := &If{Cond: f8cmp(">=", n, f8i(2)), Then: []Stmt{&Break{}}}
		var shadow []Stmt
		switch bd.name {
		case "let":
			shadow = with(f8let("g", init))
		case "let-typed":
			shadow = with(f8letT("g", lt, init))
		case "var":
			shadow = append([]Stmt{f8var("g", init), f8upd(V("g", TI32), "+=", f8i(1))}, useLocal()...)
		case "var-typed":
			shadow = with(f8varT("g", lt, init))
		case "const":
			shadow = with(f8const("g", init))
		case "param":
			shadow = useLocal()
		case "for-init":
			g := V("g", TI32)
			shadow = []Stmt{&For{Init: f8var("g", init), Cond: f8cmp("<", g, f8i(val+2)), Upd: &IncDec{LHS: g, Inc: true}, Body: useLocal()}}
		case "blk-let":
			shadow = []Stmt{&Block{Body: with(f8let("g", init))}}
		case "blk-var":
			shadow = []Stmt{&Block{Body: append([]Stmt{f8var("g", init), f8upd(V("g", TI32), "+=", f8i(1))}, useLocal()...)}}
		case "blk-const":
			shadow = []Stmt{&Block{Body: with(f8const("g", init))}}
		case "if-let":
			shadow = []Stmt{&If{Cond: f8cmp(">", acc, f8i(-100)), Then: with(f8let("g", init))}}
		case "else-let":
			shadow = []Stmt{&If{Cond: f8cmp("<", acc, f8i(-100)), Then: []Stmt{f8upd(acc, "+=", f8i(1))}, Else: with(f8let("g", init)), HasElse: true}}
		case "loop-let":
			shadow = []Stmt{f8var("n", f8i(0)), &Loop{Body: append([]Stmt{stopAt2}, with(f8let("g", init))...),
				Continuing: []Stmt{bumpN, f8upd(acc, "+=", lu)}, HasCont: true}}
		case "cont-let":
			shadow = []Stmt{f8var("n", f8i(0)), &Loop{Body: []Stmt{stopAt2}, Continuing: with(f8let("g", init), bumpN), HasCont: true}}
		case "case-let":
			shadow = []Stmt{&Switch{Sel: a, Cases: []SwCase{{Sels: []Expr{f8i(1)}, Body: with(f8let("g", init))},
				{Default: true, Body: []Stmt{f8upd(acc, "+=", f8i(100))}}}}}
		case "default-let":
			shadow = []Stmt{&Switch{Sel: a, Cases: []SwCase{{Sels: []Expr{f8i(0)}, Body: []Stmt{f8upd(acc, "+=", f8i(100))}},
				{Default: true, Body: with(f8let("g", init))}}}}
		case "while-let":
			shadow = []Stmt{f8var("n", f8i(0)), &While{Cond: f8cmp("<", n, f8i(2)), Body: with(f8let("g", init), bumpN)}}
		case "forbody-let":
			i := V("i", TI32)
			shadow = []Stmt{&For{Init: f8var("i", f8i(0)), Cond: f8cmp("<", i, f8i(2)), Upd: &IncDec{LHS: i, Inc: true}, Body: with(f8let("g", init))}}
		}
		body := []Stmt{f8var("acc", a)}
		if use == "before" {
			body = append(body, useEntity())
		}
		body = append(body, shadow...)
		if use == "after" {
			body = append(body, useEntity())
		}
		if inEntry {
			// the shadowing happens in the entry point itself; the module-scope entity is observed through `probe`
			b.fn(&Func{Name: "probe", Ret: TI32, Body: []Stmt{f8ret(entity())}})
			var main []Stmt
			if kind == "var" {
				// (stored again by a helper: a store here would be a reference to the entity before the shadow)
				b.fn(&Func{Name: "setup", Body: []Stmt{f8reinit(V("g", TI32), f8i(5))}})
				main = append(main, &ExprStmt{X: &Call{Fn: "setup", User: true}})
			}
			b.out(2)
			main = append(main, f8let("a", f8i(1)))
			main = append(main, body...)
			b.entry(append(main, f8setO(0, acc), f8setO(1, f8call("probe")))...)
			return
		}
		body = append(body, f8ret(acc))
		params := []Param{f8p("a", TI32)}
		args := []Expr{f8i(1)}
		if bd.name == "param" {
			params = append(params, f8p("g", lt))
			args = append(args, init)
		}
		b.fn(&Func{Name: "host", Params: params, Ret: TI32, Body: body})
		if ref == "rev" {
			declEntity()
		}
		b.out(2)
		var main []Stmt
		if kind == "var" {
			main = append(main, f8reinit(V("g", TI32), f8i(5)))
		}
		b.entry(append(main, f8setO(0, f8call("host", args...)), f8setO(1, entity()))...)
	}}
}

func f8sOrder(p *f8Prog, pos string, inEntry bool) []int {
	if inEntry {
		helpers := []string{"probe"}
		if len(f8Names(p)) == 5 {
			helpers = append(helpers, "setup")
		}
		cat := func(parts ...[]string) []int {
			var all []string
			for _, x := range parts {
				all = append(all, x...)
			}
			return f8OrderByName(p, all)
		}
		switch pos {
		case "decl-before":
			return cat([]string{"g"}, helpers, []string{"o", "main"})
		case "decl-after":
			return cat([]string{"o", "main", "g"}, helpers)
		}
		return cat(helpers, []string{"o", "main", "g"})
	}
	switch pos {
	case "decl-before":
		return f8OrderByName(p, []string{"g", "host", "o", "main"})
	case "decl-after":
		return f8OrderByName(p, []string{"host", "g", "o", "main"})
	}
	return f8OrderByName(p, []string{"o", "main", "host", "g"})
}

// F8Shadow: every (entity kind, binder, reference, other use, position) combination that is valid WGSL.
func F8Shadow() *Family {
	ents := f8sEnts()
	return &Family{Name: "F8s", Count: len(ents), At: func(i int) *Case {
		e := ents[i]
		p := f8sProg(e)
		c := f8Case(p, f8sOrder(p, f8sPos[e.pos], f8sWhere[e.where] == "entry"))
		c.Family, c.Index = "F8s", i
		c.Sig = fmt.Sprintf("F8s/%s/%s/%s/%s/%s/in-%s", f8sKinds[e.kind], f8sBinders[e.binder].name, f8sRefs[e.ref], f8sUses[e.use], f8sPos[e.pos], f8sWhere[e.where])
		return c
	}}
}
