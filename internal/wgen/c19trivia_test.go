package wgen

import (
	"strings"
	"testing"
)

// Sanity of the C19 reference scanner / tokenizer on cases whose answer follows directly from the
// WGSL specification's text.
func TestC19ReferenceScanner(t *testing.T) {
	for s, want := range map[string]C19TriviaClass{
		"/**/": C19Trivia, "/*/": C19NotTrivia, "/* a /*/ b */ c */": C19Trivia, "/*/*/ */*/": C19Trivia, "/*/*/*/*/": C19NotTrivia,
		"//\n": C19Trivia, "//": C19TriviaToEOL, "// /*\n": C19Trivia, "/* // */": C19Trivia, "/*//\n*/": C19Trivia, "*/": C19NotTrivia,
		"//\r/**/": C19Trivia, "//   ": C19Trivia, "/* */ a": C19NotTrivia,
	} {
		if got := C19ScanTrivia(s); got != want {
			t.Errorf("C19ScanTrivia(%q) = %d, want %d", s, got, want)
		}
	}
	texts := func(src string) string {
		toks, ok := C19Lex(src)
		if !ok {
			return "<unterminated>"
		}
		var out []string
		for _, k := range toks {
			if k.Kind == 't' {
				out = append(out, "T"+k.Text)
			} else {
				out = append(out, k.Text)
			}
		}
		return strings.Join(out, " ")
	}
	for src, want := range map[string]string{
		"let q:ptr<function,vec2<f32>>=&v;": "let q : ptr T< function , vec2 T< f32 T> T> = & v ;",
		"a>>=1u;b=c>=d;":                    "a >>= 1u ; b = c >= d ;",
		"let a=x<y&&y>x;":                   "let a = x < y && y > x ;",
		"array<i32,(8>>2)>(1,2)":            "array T< i32 , ( 8 >> 2 ) T> ( 1 , 2 )",
		"a/**/</*>*/b//>\n;":                "a < b ;",
		"x=a<<b;y=c<=d;":                    "x = a << b ; y = c <= d ;",
	} {
		if got := texts(src); got != want {
			t.Errorf("C19Lex(%q) = %q, want %q", src, got, want)
		}
	}
	if n := len(c19DAGs(3)); n != 25 {
		t.Errorf("labelled DAGs on 3 nodes: %d, want 25", n)
	}
	if n := len(c19DAGs(4)); n != 543 {
		t.Errorf("labelled DAGs on 4 nodes: %d, want 543", n)
	}
}
