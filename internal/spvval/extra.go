package spvval

import (
	"fmt"
	"sort"
)

// Additional universal / Vulkan rules that do not belong to a single opcode.

const (
	RCallPtr        = "call-pointer-arg"
	RLogicalPtr     = "logical-pointer"
	RDebugString    = "debug-string"
	RExecModelLimit = "execution-model-limit"
	RScope          = "scope-semantics"
	RIOUnique       = "io-unique"
	RCallGraph      = "call-graph-acyclic"
	RSelStructured  = "selection-structured"
)

func init() {
	allRules = append(allRules, RCallPtr, RLogicalPtr, RDebugString, RExecModelLimit, RScope, RIOUnique, RCallGraph, RSelStructured)
}

func (c *ctx) variablePointers() bool { return c.m.caps[4441] || c.m.caps[4442] }

// checkPointers: SPIR-V spec §2.16.1, "Logical addressing model" rules when the
// VariablePointers capabilities are not declared.
func (c *ctx) checkPointers() {
	m := c.m
	if m.addrModel != 0 || c.variablePointers() || m.caps[capPhysicalStorageBuffer] {
		return
	}
	for _, f := range m.fns {
		for _, b := range f.blocks {
			for _, in := range b.insts {
				if in.bad || in.typ == 0 {
					continue
				}
				if _, known := opTable[in.op]; !known {
					continue
				}
				rt := m.types[in.typ]
				if rt != nil && rt.kind == tkPointer {
					switch in.op {
					case 59, 65, 66, 55, 60, 83, 1, 46:
						c.fire(RLogicalPtr)
					default:
						c.check(RLogicalPtr, false, in, "in the Logical addressing model a pointer can only be the result of OpVariable, OpAccessChain, OpInBoundsAccessChain, OpFunctionParameter, OpImageTexelPointer or OpCopyObject")
					}
				}
				if in.op == 57 {
					for i := 1; i < in.nargs(); i++ {
						a := in.arg(i)
						at := m.typeOf(a)
						if at == nil || at.kind != tkPointer {
							continue
						}
						d := m.defs[a]
						if d == nil {
							continue
						}
						ok := d.op == 59 || d.op == 55
						if !ok && (d.op == 65 || d.op == 66) {
							// pointer to an element of an array of samplers / images that is
							// itself a memory object declaration
							if e := m.types[at.elem]; e != nil && (e.kind == tkSampler || e.kind == tkImage || e.kind == tkSampledImage) {
								ok = true
							}
						}
						c.check(RCallPtr, ok, in, "pointer argument %d (%%%d, defined by %s) is not a memory object declaration (OpVariable / OpFunctionParameter)", i-1, a, OpName(d.op))
						switch at.sc {
						case scUniformConstant, scFunction, scPrivate, scWorkgroup, scAtomicCounter:
							c.fire(RCallPtr)
						default:
							c.check(RCallPtr, false, in, "pointer argument %d has storage class %d; without variable pointers only UniformConstant, Function, Private, Workgroup and AtomicCounter are allowed", i-1, at.sc)
						}
					}
				}
			}
		}
	}
}

func (c *ctx) checkDebug() {
	m := c.m
	for _, in := range m.insts {
		if in.bad {
			continue
		}
		switch in.op {
		case 8: // OpLine
			d := m.defs[in.w(1)]
			c.check(RDebugString, d != nil && d.op == 7, in, "File operand %%%d is not the result of an OpString", in.w(1))
		case 3: // OpSource
			if len(in.words) > 3 {
				d := m.defs[in.w(3)]
				c.check(RDebugString, d != nil && d.op == 7, in, "File operand %%%d is not the result of an OpString", in.w(3))
			}
		case 6: // OpMemberName
			t := m.types[in.w(1)]
			if c.check(RDebugString, t != nil && t.kind == tkStruct, in, "OpMemberName target %%%d is not a struct type", in.w(1)) {
				c.check(RDebugString, int(in.w(2)) < len(t.members), in, "OpMemberName member %d out of range (%d members)", in.w(2), len(t.members))
			}
		}
	}
}

// checkCallGraph: entry-point call trees must not contain cycles (§2.16.2), and instructions
// restricted to some execution models may only be reached from entry points of those models.
func (c *ctx) checkCallGraph() {
	m := c.m
	calls := map[*function][]*function{}
	for _, f := range m.fns {
		seen := map[*function]bool{}
		for _, b := range f.blocks {
			for _, in := range b.insts {
				if in.op == 57 && !in.bad {
					if cal := m.fnByID[in.arg(0)]; cal != nil && !seen[cal] {
						seen[cal] = true
						calls[f] = append(calls[f], cal)
					}
				}
			}
		}
	}
	state := map[*function]int{}
	var visit func(f *function) bool
	visit = func(f *function) bool {
		state[f] = 1
		for _, g := range calls[f] {
			if state[g] == 1 {
				return false
			}
			if state[g] == 0 && !visit(g) {
				return false
			}
		}
		state[f] = 2
		return true
	}
	for _, f := range m.fns {
		if state[f] == 0 {
			c.check(RCallGraph, visit(f), f.def, "the static call graph reachable from function %%%d contains a cycle (recursion)", f.id)
		}
	}
	derivGroups := m.caps[5288] || m.caps[5350]
	for _, ep := range m.eps {
		f := m.fnByID[ep.fn]
		if f == nil {
			continue
		}
		fns, _ := m.callTree(f)
		for _, g := range fns {
			for _, b := range g.blocks {
				for _, in := range b.insts {
					switch in.op {
					case 252, 4416: // OpKill, OpTerminateInvocation
						c.check(RExecModelLimit, ep.model == emFragment, in, "%s is reachable from entry point %q of execution model %d; it requires Fragment", OpName(in.op), ep.name, ep.model)
					case 87, 89, 91, 93, 105, 207, 208, 209, 210, 211, 212, 213, 214, 215:
						ok := ep.model == emFragment || derivGroups && (ep.model == emGLCompute || ep.model == emMeshEXT || ep.model == emTaskEXT || ep.model == emMeshNV || ep.model == emTaskNV)
						c.check(RExecModelLimit, ok, in, "%s (implicit derivatives) is reachable from entry point %q of execution model %d; it requires Fragment", OpName(in.op), ep.name, ep.model)
					}
				}
			}
		}
	}
}

// checkScopes: Scope and Memory Semantics operand values (SPIR-V §3.25, §3.27; Vulkan
// VUID-StandaloneSpirv-None-04636/04638, MemorySemantics-04732/04733).
func (c *ctx) checkScopes() {
	m := c.m
	sem := func(in *inst, id uint32, what string) (uint32, bool) {
		v, ok := m.constU32(id)
		if !ok {
			return 0, false
		}
		n := 0
		for _, bit := range []uint32{0x2, 0x4, 0x8, 0x10} {
			if v&bit != 0 {
				n++
			}
		}
		c.check(RScope, n <= 1, in, "%s 0x%x sets more than one of Acquire / Release / AcquireRelease / SequentiallyConsistent", what, v)
		return v, true
	}
	memScope := func(in *inst, id uint32) {
		v, ok := m.constU32(id)
		if !ok {
			return
		}
		c.check(RScope, v >= 1 && v <= 6, in, "memory scope %d is not one of Device, Workgroup, Subgroup, Invocation, QueueFamily, ShaderCallKHR", v)
	}
	for _, f := range m.fns {
		for _, b := range f.blocks {
			for _, in := range b.insts {
				if in.bad {
					continue
				}
				switch in.op {
				case 224:
					if v, ok := m.constU32(in.arg(0)); ok {
						c.check(RScope, v == 2 || v == 3, in, "execution scope %d is not Workgroup or Subgroup", v)
					}
					memScope(in, in.arg(1))
					sem(in, in.arg(2), "Memory Semantics")
				case 225:
					memScope(in, in.arg(0))
					sem(in, in.arg(1), "Memory Semantics")
				case 227:
					memScope(in, in.arg(1))
					if v, ok := sem(in, in.arg(2), "Memory Semantics"); ok {
						c.check(RScope, v&(0x4|0x8|0x10) == 0, in, "OpAtomicLoad memory semantics 0x%x uses Release / AcquireRelease / SequentiallyConsistent", v)
					}
				case 228:
					memScope(in, in.arg(1))
					if v, ok := sem(in, in.arg(2), "Memory Semantics"); ok {
						c.check(RScope, v&(0x2|0x8|0x10) == 0, in, "OpAtomicStore memory semantics 0x%x uses Acquire / AcquireRelease / SequentiallyConsistent", v)
					}
				case 229, 232, 233, 234, 235, 236, 237, 238, 239, 240, 241, 242, 6035, 5614, 5615:
					memScope(in, in.arg(1))
					sem(in, in.arg(2), "Memory Semantics")
				case 230:
					memScope(in, in.arg(1))
					sem(in, in.arg(2), "Equal semantics")
					if v, ok := sem(in, in.arg(3), "Unequal semantics"); ok {
						c.check(RScope, v&(0x4|0x8) == 0, in, "OpAtomicCompareExchange Unequal semantics 0x%x uses Release / AcquireRelease", v)
					}
				}
			}
		}
	}
}

// checkSelectionStructured: a block that ends in a conditional branch or switch and is not a
// header may have at most one target that is not an exit of an enclosing construct.
func (c *ctx) checkSelectionStructured() {
	m := c.m
	if !m.caps[capShader] {
		return
	}
	for _, f := range m.fns {
		// exits: merge blocks / continue targets of headers, loop headers (back edge)
		type hd struct {
			b           *block
			merge, cont int
			loop        bool
		}
		var hs []hd
		for _, b := range f.blocks {
			if b.merge == nil {
				continue
			}
			h := hd{b: b, merge: -1, cont: -1, loop: b.merge.op == 246}
			if i, ok := f.byLabel[b.merge.w(1)]; ok {
				h.merge = i
			}
			if h.loop {
				if i, ok := f.byLabel[b.merge.w(2)]; ok {
					h.cont = i
				}
			}
			hs = append(hs, h)
		}
		for _, b := range f.blocks {
			if !b.reach || b.term == nil || b.term.bad || (b.term.op != 250 && b.term.op != 251) || b.merge != nil {
				continue
			}
			exits := map[int]bool{}
			for _, h := range hs {
				if !h.b.reach || !f.dominates(h.b.idx, b.idx) {
					continue
				}
				if h.merge >= 0 {
					exits[h.merge] = true
				}
				if h.cont >= 0 {
					exits[h.cont] = true
				}
				if h.loop {
					exits[h.b.idx] = true
				}
			}
			n := 0
			for _, s := range b.succs {
				if !exits[s] {
					n++
				}
			}
			c.check(RSelStructured, n <= 1, b.term, "block %%%d ends in %s with %d targets that are not exits of an enclosing construct but has no OpSelectionMerge", b.label, OpName(b.term.op), n)
		}
	}
}

// checkIOUnique: within one entry point, no two Input (Output) interface variables may use the
// same BuiltIn, or overlapping Location / Component (/ Index) assignments.
func (c *ctx) checkIOUnique() {
	m := c.m
	for _, ep := range m.eps {
		type slot struct {
			sc, loc, idx uint32
		}
		used := map[slot]map[uint32]uint32{} // component -> variable
		builtins := map[[2]uint32]uint32{}
		ids := append([]uint32(nil), ep.iface...)
		sort.Slice(ids, func(i, j int) bool { return ids[i] < ids[j] })
		seenVar := map[uint32]bool{}
		for _, id := range ids {
			if seenVar[id] {
				continue
			}
			seenVar[id] = true
			g := m.gvars[id]
			if g == nil || g.bad {
				continue
			}
			pt := m.types[g.typ]
			if pt == nil || pt.kind != tkPointer || (pt.sc != scInput && pt.sc != scOutput) {
				continue
			}
			if bi, ok := m.getDeco(id, decBuiltIn); ok {
				key := [2]uint32{pt.sc, bi}
				prev, dup := builtins[key]
				c.check(RIOUnique, !dup, ep.in, "entry point %q: BuiltIn %d is used by both %%%d and %%%d in storage class %d", ep.name, bi, prev, id, pt.sc)
				builtins[key] = id
				continue
			}
			loc, ok := m.getDeco(id, decLocation)
			if !ok {
				continue
			}
			s := m.shapeOf(pt.elem)
			if !s.ok || s.width != 32 && s.width != 16 {
				continue // arrays, matrices, structs, 64-bit: location consumption not modelled
			}
			comp, _ := m.getDeco(id, decComponent)
			idx, _ := m.getDeco(id, decIndex)
			k := slot{pt.sc, loc, idx}
			if used[k] == nil {
				used[k] = map[uint32]uint32{}
			}
			for i := comp; i < comp+s.n; i++ {
				prev, dup := used[k][i]
				c.check(RIOUnique, !dup, ep.in, "entry point %q: Location %d component %d (storage class %d) is used by both %%%d and %%%d", ep.name, loc, i, pt.sc, prev, id)
				used[k][i] = id
			}
			c.check(RIOUnique, comp+s.n <= 4, ep.in, "entry point %q: variable %%%d at Component %d with %d components exceeds a location", ep.name, id, comp, s.n)
		}
	}
}

// checkBlockNesting: a Block / BufferBlock struct must not be nested in another one; at most one
// PushConstant block per entry point.
func (c *ctx) checkBlockNesting() {
	m := c.m
	isBlock := func(id uint32) bool { return m.hasDeco(id, decBlock) || m.hasDeco(id, decBufferBlock) }
	var contains func(tid uint32, depth int) (uint32, bool)
	contains = func(tid uint32, depth int) (uint32, bool) {
		t := m.types[tid]
		if t == nil || depth > 64 {
			return 0, false
		}
		switch t.kind {
		case tkArray, tkRuntimeArray:
			return contains(t.elem, depth+1)
		case tkStruct:
			if isBlock(tid) {
				return tid, true
			}
			for _, mem := range t.members {
				if id, ok := contains(mem, depth+1); ok {
					return id, true
				}
			}
		}
		return 0, false
	}
	ids := make([]int, 0)
	for id, t := range m.types {
		if t.kind == tkStruct && isBlock(id) {
			ids = append(ids, int(id))
		}
	}
	sort.Ints(ids)
	for _, id := range ids {
		t := m.types[uint32(id)]
		for i, mem := range t.members {
			inner, bad := contains(mem, 0)
			c.check(RBlockDeco, !bad, t.in, "Block-decorated %s nests the Block-decorated %s in member %d", m.describe(uint32(id)), m.describe(inner), i)
		}
	}
	for _, ep := range m.eps {
		f := m.fnByID[ep.fn]
		if f == nil {
			continue
		}
		_, vars := m.callTree(f)
		var pcs []uint32
		for v := range vars {
			if m.gvars[v].arg(0) == scPushConstant {
				pcs = append(pcs, v)
			}
		}
		c.check(RBlockDeco, len(pcs) <= 1, ep.in, "entry point %q statically uses %d PushConstant variables (%s), at most one is allowed", ep.name, len(pcs), fmt.Sprint(pcs))
	}
}
