package spvval

// Logical layout (SPIR-V spec §2.4), id rules (§2.16.1 / SSA form §2.16), block shape (§2.2.5
// "Block" definition) and dominance.

const (
	secCapability = iota
	secExtension
	secExtImport
	secMemoryModel
	secEntryPoint
	secExecMode
	secDebugSource
	secDebugNames
	secModuleProcessed
	secAnnotation
	secTypes
	secFunctions
	secAny = -1
	secBad = -2
)

var secNames = map[int]string{
	secCapability: "capabilities", secExtension: "extensions", secExtImport: "ext-inst imports",
	secMemoryModel: "memory model", secEntryPoint: "entry points", secExecMode: "execution modes",
	secDebugSource: "debug strings/source", secDebugNames: "debug names", secModuleProcessed: "module-processed",
	secAnnotation: "annotations", secTypes: "types/constants/globals", secFunctions: "functions",
}

// globalSection gives the section an instruction belongs to when it appears at module scope.
func globalSection(in *inst) int {
	switch in.op {
	case 17:
		return secCapability
	case 10:
		return secExtension
	case 11:
		return secExtImport
	case 14:
		return secMemoryModel
	case 15:
		return secEntryPoint
	case 16, 331:
		return secExecMode
	case 7, 4, 3, 2:
		return secDebugSource
	case 5, 6:
		return secDebugNames
	case 330:
		return secModuleProcessed
	case 71, 72, 73, 74, 75, 332, 5632, 5633:
		return secAnnotation
	case 1, 59, 39, 12:
		return secTypes
	case 54:
		return secFunctions
	case 0, 8, 317:
		return secAny
	}
	if isTypeOp(in.op) || isConstOp(in.op) {
		return secTypes
	}
	return secBad
}

func (c *ctx) checkLayoutOrder() {
	m := c.m
	cur := secCapability
	inFn := false
	nMem := 0
	for _, in := range m.insts {
		if _, known := opTable[in.op]; !known {
			continue
		}
		if inFn {
			if in.op == 56 {
				inFn = false
			}
			continue
		}
		if in.op == 56 {
			continue // reported by function-layout
		}
		sec := globalSection(in)
		if sec == secAny {
			continue
		}
		if sec == secBad {
			c.check(RLayoutOrder, false, in, "instruction is not allowed at module scope")
			continue
		}
		if in.op == 14 {
			nMem++
		}
		c.check(RLayoutOrder, sec >= cur, in, "instruction of section %q appears after section %q", secNames[sec], secNames[cur])
		if sec > cur {
			cur = sec
		}
		if in.op == 54 {
			inFn = true
		}
	}
	c.check(RMemoryModel, nMem == 1, nil, "module has %d OpMemoryModel instructions, exactly one is required", nMem)
	if m.hasMemModel {
		c.check(RMemoryModel, m.addrModel == 0 || m.addrModel == 1 || m.addrModel == 2 || m.addrModel == 5348, nil, "unknown addressing model %d", m.addrModel)
		c.check(RMemoryModel, m.memModel <= 3, nil, "unknown memory model %d", m.memModel)
	}

	// function-level layout
	seenDef := false
	var open *inst
	for _, in := range m.insts {
		switch in.op {
		case 54:
			c.check(RFunctionLayout, open == nil, in, "OpFunction inside the body of another function")
			if open == nil {
				open = in
			}
		case 56:
			c.check(RFunctionLayout, open != nil, in, "OpFunctionEnd without a matching OpFunction")
			open = nil
		}
	}
	c.check(RFunctionLayout, open == nil, open, "function is not closed by OpFunctionEnd before the end of the module")
	for _, f := range m.fns {
		isDecl := len(f.blocks) == 0
		c.check(RFunctionLayout, !(isDecl && seenDef), f.def, "function declaration (no body) appears after a function definition")
		if !isDecl {
			seenDef = true
		}
		if isDecl {
			c.check(RFunctionLayout, m.caps[5], f.def, "function without a body requires the Linkage capability")
		}
		for _, s := range f.stray {
			switch s.op {
			case 8, 317, 0:
				continue
			case 55:
				c.check(RFunctionLayout, false, s, "OpFunctionParameter after the first block of the function")
				continue
			case 54:
				continue // already reported as nested
			}
			if _, known := opTable[s.op]; !known {
				continue
			}
			c.check(RBlockLabel, false, s, "instruction inside a function but outside any block (a block must start with OpLabel and end at its first terminator)")
		}
		for _, b := range f.blocks {
			c.fire(RBlockLabel)
			for _, in := range b.insts {
				sec := globalSection(in)
				if in.op == 54 || in.op == 55 {
					c.check(RFunctionLayout, false, in, "instruction not allowed inside a block")
					continue
				}
				if sec != secBad && sec != secAny && in.op != 1 && in.op != 59 && in.op != 12 {
					c.check(RFunctionLayout, false, in, "module-scope instruction (section %q) inside a function body", secNames[sec])
				}
			}
		}
	}
}

func (c *ctx) checkIDs() {
	m := c.m
	seen := map[uint32]*inst{}
	for _, in := range m.insts {
		if in.res == 0 {
			continue
		}
		prev := seen[in.res]
		c.check(RDefinedOnce, prev == nil, in, "result id %%%d already defined by instruction %d", in.res, idxOf(prev))
		if prev == nil {
			seen[in.res] = in
		}
	}
	inFn := false
	for _, in := range m.insts {
		if in.op == 54 {
			inFn = true
		}
		for _, u := range in.uses {
			def := m.defs[u.id]
			if !c.check(RDefined, def != nil, in, "operand id %%%d (word %d) is never defined", u.id, u.pos) {
				continue
			}
			if inFn && in.op != 54 {
				continue // checked by the dominance pass
			}
			if u.fwd || m.fwdPtr[u.id] {
				continue
			}
			c.check(RGlobalOrder, def.idx < in.idx, in, "operand id %%%d is defined later (instruction %d); module-scope operands must be declared before use", u.id, def.idx)
		}
		if in.op == 56 {
			inFn = false
		}
	}
}

func idxOf(in *inst) int {
	if in == nil {
		return -1
	}
	return in.idx
}

func (c *ctx) checkBlocks() {
	m := c.m
	for _, f := range m.fns {
		for _, b := range f.blocks {
			last := b.insts[len(b.insts)-1]
			c.check(RBlockTerm, b.term != nil, last, "block %%%d does not end with a termination instruction", b.label)
			// phi placement
			nonPhi := false
			for _, in := range b.insts[1:] {
				switch in.op {
				case 245:
					c.check(RPhiPlacement, !nonPhi, in, "OpPhi after a non-OpPhi instruction in block %%%d", b.label)
				case 8, 317:
				default:
					nonPhi = true
				}
			}
			// branch targets are labels of this function
			for _, in := range b.insts {
				var ts []uint32
				switch in.op {
				case 246:
					ts = []uint32{in.w(1), in.w(2)}
				case 247:
					ts = []uint32{in.w(1)}
				case 249, 250, 251:
					if !in.bad {
						ts = branchTargets(m, in)
					}
				}
				for _, t := range ts {
					_, ok := f.byLabel[t]
					c.check(RBranchTarget, ok, in, "target %%%d is not the label of a block in this function", t)
				}
			}
		}
		if len(f.blocks) > 0 {
			e := f.blocks[0]
			c.check(REntryBlock, len(e.preds) == 0, e.insts[0], "entry block %%%d of function %%%d is the target of a branch", e.label, f.id)
		}
		// variable placement
		for bi, b := range f.blocks {
			onlyVars := true
			for _, in := range b.insts[1:] {
				switch in.op {
				case 59:
					c.check(RVarPlacement, in.arg(0) == scFunction, in, "variable inside a function must have storage class Function, has %d", in.arg(0))
					c.check(RVarPlacement, bi == 0 && onlyVars, in, "function-scope OpVariable must be in the first block, before every other instruction")
				case 8, 317:
				default:
					onlyVars = false
				}
			}
		}
	}
	for _, in := range m.insts {
		if in.op == 59 && !in.bad && m.defFn[in.res] == nil {
			c.check(RVarPlacement, in.arg(0) != scFunction, in, "module-scope variable must not have storage class Function")
		}
	}
}

func (c *ctx) checkDominance() {
	m := c.m
	for _, f := range m.fns {
		for _, b := range f.blocks {
			if b.reach && b.idx != 0 && b.idom >= 0 {
				c.check(RBlockOrder, f.blocks[b.idom].idx < b.idx, b.insts[0], "block %%%d appears before block %%%d which dominates it", b.label, f.blocks[b.idom].label)
			}
			for _, in := range b.insts {
				if in.bad {
					continue
				}
				if in.op == 245 {
					c.checkPhiDominance(f, b, in)
					continue
				}
				for _, u := range in.uses {
					if u.fwd {
						continue
					}
					def := m.defs[u.id]
					if def == nil {
						continue
					}
					df := m.defFn[u.id]
					if df == nil {
						continue // module scope; order guaranteed by the logical layout
					}
					if !c.check(RDomUse, df == f, in, "operand %%%d is defined inside another function (%%%d)", u.id, df.id) {
						continue
					}
					db := m.defBlk[u.id]
					if db == nil {
						c.fire(RDomUse)
						continue // function parameter
					}
					if def.op == 248 {
						continue // labels are not values; non-forward label operands do not exist
					}
					if db == b {
						c.check(RDomUse, def.idx < in.idx, in, "operand %%%d is used before its definition in the same block", u.id)
						continue
					}
					if !c.check(RDomUse, def.idx < in.idx, in, "operand %%%d is used before its definition (instruction %d) in stream order", u.id, def.idx) {
						continue
					}
					if !b.reach {
						continue
					}
					c.check(RDomUse, f.dominates(db.idx, b.idx), in, "definition of %%%d in block %%%d does not dominate its use in block %%%d", u.id, db.label, b.label)
				}
			}
		}
	}
}

func (c *ctx) checkPhiDominance(f *function, b *block, in *inst) {
	m := c.m
	// the result type
	for k := 0; k+1 < in.nargs(); k += 2 {
		v, p := in.arg(k), in.arg(k+1)
		pi, ok := f.byLabel[p]
		if !ok {
			continue
		}
		df := m.defFn[v]
		if m.defs[v] == nil || df == nil {
			continue
		}
		if !c.check(RDomUse, df == f, in, "OpPhi value %%%d is defined inside another function", v) {
			continue
		}
		db := m.defBlk[v]
		if db == nil || m.defs[v].op == 248 {
			continue
		}
		pb := f.blocks[pi]
		if !pb.reach {
			continue
		}
		if db == pb {
			c.fire(RDomUse)
			continue
		}
		c.check(RDomUse, f.dominates(db.idx, pb.idx), in, "OpPhi value %%%d (defined in block %%%d) does not dominate the predecessor %%%d it flows from", v, db.label, p)
	}
}
