package spvval

import (
	"fmt"
	"sort"
)

// Decoration and Vulkan-environment layout rules (SPIR-V spec §2.16.2 "Validation Rules for
// Shader Capabilities", §2.18 "Layout"; Vulkan spec "Shader Resource Interface: Offset and Stride
// Assignment", "Shader Interfaces").

func (c *ctx) checkDecorations() {
	m := c.m
	ids := make([]uint32, 0, len(m.decos))
	for id := range m.decos {
		ids = append(ids, id)
	}
	sort.Slice(ids, func(i, j int) bool { return ids[i] < ids[j] })
	for _, id := range ids {
		seen := map[string]bool{}
		for _, d := range m.decos[id] {
			c.decoTarget(id, d)
			switch d.dec {
			case decFuncParamAttr, decUserSemantic, decUserTypeGOOGLE, decLinkageAttributes:
				continue
			}
			key := fmt.Sprint(d.member, " ", d.dec)
			c.check(RDecoUnique, !seen[key], d.in, "decoration %d applied more than once to %%%d (member %d)", d.dec, id, d.member)
			seen[key] = true
		}
	}

	vars := make([]uint32, 0, len(m.gvars))
	for id, g := range m.gvars {
		if g.fn == nil && !g.bad {
			vars = append(vars, id)
		}
	}
	sort.Slice(vars, func(i, j int) bool { return vars[i] < vars[j] })
	memo := map[string]bool{}
	for _, id := range vars {
		g := m.gvars[id]
		pt := m.types[g.typ]
		if pt == nil || pt.kind != tkPointer {
			continue
		}
		sc := pt.sc
		switch sc {
		case scUniform, scStorageBuffer, scPushConstant:
			tid := pt.elem
			if sc != scPushConstant {
				for t := m.types[tid]; t != nil && (t.kind == tkArray || t.kind == tkRuntimeArray); t = m.types[tid] {
					tid = t.elem
				}
			}
			st := m.types[tid]
			if !c.check(RBlockDeco, st != nil && st.kind == tkStruct, g, "variable in storage class %d must have a struct type (or an array of structs), has %s", sc, m.describe(pt.elem)) {
				break
			}
			blk, bblk := m.hasDeco(tid, decBlock), m.hasDeco(tid, decBufferBlock)
			switch sc {
			case scUniform:
				c.check(RBlockDeco, blk != bblk, g, "struct %s of a Uniform variable must be decorated with exactly one of Block / BufferBlock", m.describe(tid))
			default:
				c.check(RBlockDeco, blk && !bblk, g, "struct %s of a variable in storage class %d must be decorated Block (and not BufferBlock)", m.describe(tid), sc)
			}
			std140 := sc == scUniform && !bblk
			c.layoutStruct(tid, std140, memo, g)
		}
		switch sc {
		case scUniform, scStorageBuffer, scUniformConstant:
			_, hs := m.getDeco(id, decDescriptorSet)
			_, hb := m.getDeco(id, decBinding)
			c.check(RDescriptor, hs && hb, g, "resource variable %%%d (storage class %d) lacks DescriptorSet and/or Binding (set:%v binding:%v)", id, sc, hs, hb)
		}
	}

	// run-time arrays
	for _, in := range m.insts {
		if in.bad || in.fn != nil {
			continue
		}
		t := m.types[in.res]
		if t == nil || t.in != in {
			continue
		}
		if t.kind == tkStruct {
			for i, mem := range t.members {
				mt := m.types[mem]
				if mt == nil || mt.kind != tkRuntimeArray {
					continue
				}
				c.check(RRuntimeArray, i == len(t.members)-1, in, "run-time array is member %d of %d; it may only be the last member", i, len(t.members))
				c.check(RRuntimeArray, m.hasDeco(t.id, decBlock) || m.hasDeco(t.id, decBufferBlock), in, "struct with a run-time array member is not decorated Block / BufferBlock")
			}
		}
	}
	for _, id := range vars {
		g := m.gvars[id]
		pt := m.types[g.typ]
		if pt == nil || pt.kind != tkPointer {
			continue
		}
		// a struct whose last member is a run-time array must be in StorageBuffer (Block) or
		// Uniform (BufferBlock)
		if st := m.types[pt.elem]; st != nil && st.kind == tkStruct && len(st.members) > 0 {
			if lt := m.types[st.members[len(st.members)-1]]; lt != nil && lt.kind == tkRuntimeArray {
				ok := pt.sc == scStorageBuffer && m.hasDeco(st.id, decBlock) || pt.sc == scUniform && m.hasDeco(st.id, decBufferBlock) || pt.sc == scPhysicalStorage
				c.check(RRuntimeArray, ok, g, "struct with a run-time array used for a variable in storage class %d", pt.sc)
			}
		}
	}

	c.checkIO()
}

func (c *ctx) decoTarget(id uint32, d deco) {
	m := c.m
	def := m.defs[id]
	if def == nil {
		return
	}
	t := m.types[id]
	if d.member >= 0 {
		if !c.check(RDecoTarget, t != nil && t.kind == tkStruct, d.in, "OpMemberDecorate target %%%d is not a struct type", id) {
			return
		}
		c.check(RDecoTarget, d.member < len(t.members), d.in, "member index %d out of range for %s with %d members", d.member, m.describe(id), len(t.members))
		switch d.dec {
		case decBlock, decBufferBlock, decArrayStride, decDescriptorSet, decBinding:
			c.check(RDecoTarget, false, d.in, "decoration %d cannot be applied to a structure member", d.dec)
		}
		return
	}
	switch d.dec {
	case decBlock, decBufferBlock:
		c.check(RDecoTarget, t != nil && t.kind == tkStruct, d.in, "Block/BufferBlock applied to %%%d, which is not a struct type", id)
	case decArrayStride:
		c.check(RDecoTarget, t != nil && (t.kind == tkArray || t.kind == tkRuntimeArray || t.kind == tkPointer), d.in, "ArrayStride applied to %%%d, which is not an array or pointer type", id)
	case decOffset, decMatrixStride, decRowMajor, decColMajor:
		c.check(RDecoTarget, false, d.in, "decoration %d is only valid on structure members (OpMemberDecorate)", d.dec)
	case decDescriptorSet, decBinding:
		c.check(RDecoTarget, def.op == 59, d.in, "DescriptorSet/Binding applied to %%%d, which is not a variable", id)
	case decLocation, decFlat, decNoPerspective, decCentroid, decSample, decComponent, decIndex:
		c.check(RDecoTarget, def.op == 59 || def.op == 55, d.in, "interface decoration %d applied to %%%d, which is not a variable", d.dec, id)
	case decBuiltIn:
		c.check(RDecoTarget, def.op == 59 || isConstOp(def.op), d.in, "BuiltIn applied to %%%d, which is not a variable or constant", id)
	case decSpecId:
		c.check(RDecoTarget, def.op == 48 || def.op == 49 || def.op == 50, d.in, "SpecId applied to %%%d, which is not a scalar specialization constant", id)
	default:
		c.fire(RDecoTarget)
	}
	// operand counts
	want := -1
	switch d.dec {
	case decBlock, decBufferBlock, decRowMajor, decColMajor, decFlat, decNoPerspective, decCentroid, decSample, decInvariant, decNonWritable, decNonReadable, decNoContraction, decNonUniform:
		want = 0
	case decArrayStride, decMatrixStride, decBuiltIn, decLocation, decComponent, decIndex, decBinding, decDescriptorSet, decOffset, decSpecId:
		want = 1
	}
	if want >= 0 {
		c.check(RDecoTarget, len(d.args) == want, d.in, "decoration %d takes %d operand(s), %d given", d.dec, want, len(d.args))
	}
}

func roundUp(v, a uint64) uint64 {
	if a == 0 {
		return v
	}
	return (v + a - 1) / a * a
}

// memberInfo carries the matrix decorations of the struct member an (array of) matrix lives in.
type matInfo struct {
	stride   uint64
	rowMajor bool
	ok       bool
}

// scalarAlign: Vulkan "scalar alignment".
func (c *ctx) scalarAlign(tid uint32) uint64 { return c.scalarAlignD(tid, 0) }

func (c *ctx) scalarAlignD(tid uint32, depth int) uint64 {
	m := c.m
	t := m.types[tid]
	if t == nil || depth > 64 {
		return 1
	}
	switch t.kind {
	case tkInt, tkFloat:
		if t.width < 8 {
			return 1
		}
		return uint64(t.width / 8)
	case tkBool:
		return 4
	case tkVector, tkMatrix, tkArray, tkRuntimeArray:
		return c.scalarAlignD(t.elem, depth+1)
	case tkStruct:
		a := uint64(1)
		for _, mem := range t.members {
			if x := c.scalarAlignD(mem, depth+1); x > a {
				a = x
			}
		}
		return a
	}
	return 1
}

// baseAlign: Vulkan "base alignment" (extended alignment when std140).
func (c *ctx) baseAlign(tid uint32, mi matInfo, std140 bool, depth int) uint64 {
	m := c.m
	t := m.types[tid]
	if t == nil || depth > 64 {
		return 1
	}
	switch t.kind {
	case tkInt, tkFloat:
		if t.width < 8 {
			return 1
		}
		return uint64(t.width / 8)
	case tkBool:
		return 4
	case tkVector:
		n := uint64(t.count)
		if n == 3 {
			n = 4
		}
		if n == 0 {
			n = 1
		}
		return n * c.scalarAlign(t.elem)
	case tkMatrix:
		col := m.types[t.elem]
		if col == nil {
			return 1
		}
		n := uint64(col.count)
		if mi.ok && mi.rowMajor {
			n = uint64(t.count)
		}
		if n == 3 {
			n = 4
		}
		if n == 0 {
			n = 1
		}
		a := n * c.scalarAlign(t.elem)
		if std140 {
			a = roundUp(a, 16)
		}
		return a
	case tkArray, tkRuntimeArray:
		a := c.baseAlign(t.elem, mi, std140, depth+1)
		if std140 {
			a = roundUp(a, 16)
		}
		return a
	case tkStruct:
		a := uint64(1)
		for i, mem := range t.members {
			if x := c.baseAlign(mem, c.matInfoOf(tid, i), std140, depth+1); x > a {
				a = x
			}
		}
		if std140 {
			a = roundUp(a, 16)
		}
		return a
	}
	return 1
}

func (c *ctx) matInfoOf(structID uint32, member int) matInfo {
	m := c.m
	s, ok := m.memberDeco(structID, member, decMatrixStride)
	_, rm := m.memberDeco(structID, member, decRowMajor)
	return matInfo{stride: uint64(s), rowMajor: rm, ok: ok}
}

// minSize is the smallest number of bytes the type certainly occupies (used for overlap checks,
// so that under-estimating can only hide findings, never create them).
func (c *ctx) minSize(tid uint32, mi matInfo, depth int) uint64 {
	m := c.m
	t := m.types[tid]
	if t == nil || depth > 64 {
		return 0
	}
	switch t.kind {
	case tkInt, tkFloat:
		return uint64(t.width / 8)
	case tkBool:
		return 4
	case tkVector:
		return uint64(t.count) * c.minSize(t.elem, mi, depth+1)
	case tkMatrix:
		col := m.types[t.elem]
		if col == nil {
			return 0
		}
		comp := c.minSize(col.elem, mi, depth+1)
		if !mi.ok {
			return uint64(t.count) * uint64(col.count) * comp
		}
		if mi.rowMajor {
			return (uint64(col.count)-1)*mi.stride + uint64(t.count)*comp
		}
		return (uint64(t.count)-1)*mi.stride + uint64(col.count)*comp
	case tkArray:
		l, ok := m.arrayLen(t)
		if !ok || l == 0 {
			l = 1
		}
		es := c.minSize(t.elem, mi, depth+1)
		stride, has := m.getDeco(tid, decArrayStride)
		if !has {
			return l * es
		}
		return (l-1)*uint64(stride) + es
	case tkRuntimeArray:
		return 0
	case tkStruct:
		end := uint64(0)
		for i, mem := range t.members {
			off, ok := m.memberDeco(tid, i, decOffset)
			if !ok {
				continue
			}
			if e := uint64(off) + c.minSize(mem, c.matInfoOf(tid, i), depth+1); e > end {
				end = e
			}
		}
		return end
	}
	return 0
}

func (c *ctx) layoutStruct(sid uint32, std140 bool, memo map[string]bool, at *inst) {
	m := c.m
	key := fmt.Sprint(sid, std140)
	if memo[key] {
		return
	}
	memo[key] = true
	st := m.types[sid]
	if st == nil || st.kind != tkStruct {
		return
	}
	in := st.in
	type mem struct {
		i         int
		off, size uint64
		tid       uint32
	}
	var ms []mem
	for i, tid := range st.members {
		off, has := m.memberDeco(sid, i, decOffset)
		if !c.check(RMemberOffset, has, in, "member %d of %s (reachable from a Block in variable %%%d) has no Offset decoration", i, m.describe(sid), at.res) {
			continue
		}
		mi := c.matInfoOf(sid, i)
		// descend through arrays
		inner := tid
		for t := m.types[inner]; t != nil && (t.kind == tkArray || t.kind == tkRuntimeArray); t = m.types[inner] {
			stride, hs := m.getDeco(inner, decArrayStride)
			if c.check(RArrayStride, hs, t.in, "array type %s inside %s (member %d) has no ArrayStride decoration", m.describe(inner), m.describe(sid), i) {
				c.check(RArrayStride, stride != 0, t.in, "ArrayStride of %s is 0", m.describe(inner))
				es := c.minSize(t.elem, mi, 0)
				c.check(RLayoutOverlap, uint64(stride) >= es, t.in, "ArrayStride %d of %s is smaller than its element size %d", stride, m.describe(inner), es)
				a := c.baseAlign(inner, mi, false, 0)
				c.check(RLayoutAlign, a == 0 || uint64(stride)%a == 0, t.in, "ArrayStride %d of %s is not a multiple of the array's base alignment %d", stride, m.describe(inner), a)
				if std140 {
					a := c.baseAlign(inner, mi, true, 0)
					c.check(RLayoutAlign140, uint64(stride)%a == 0, t.in, "ArrayStride %d of %s (in a Uniform Block) is not a multiple of the array's extended alignment %d", stride, m.describe(inner), a)
				}
			}
			inner = t.elem
		}
		it := m.types[inner]
		if it == nil {
			continue
		}
		switch it.kind {
		case tkMatrix:
			_, rm := m.memberDeco(sid, i, decRowMajor)
			_, cm := m.memberDeco(sid, i, decColMajor)
			c.check(RMatrixStride, mi.ok, in, "matrix member %d of %s has no MatrixStride decoration", i, m.describe(sid))
			c.check(RMatrixStride, rm != cm, in, "matrix member %d of %s needs exactly one of RowMajor / ColMajor", i, m.describe(sid))
			if mi.ok {
				col := m.types[it.elem]
				if col != nil {
					n := uint64(col.count)
					if rm {
						n = uint64(it.count)
					}
					vs := n * c.scalarAlign(inner)
					c.check(RLayoutOverlap, mi.stride >= vs, in, "MatrixStride %d of member %d of %s is smaller than the %d bytes of one column/row vector", mi.stride, i, m.describe(sid), vs)
				}
				a := c.baseAlign(inner, mi, false, 0)
				c.check(RLayoutAlign, mi.stride%a == 0, in, "MatrixStride %d of member %d of %s is not a multiple of the matrix's base alignment %d", mi.stride, i, m.describe(sid), a)
				if std140 {
					a := c.baseAlign(inner, mi, true, 0)
					c.check(RLayoutAlign140, mi.stride%a == 0, in, "MatrixStride %d of member %d of %s (in a Uniform Block) is not a multiple of the matrix's extended alignment %d", mi.stride, i, m.describe(sid), a)
				}
			}
		case tkStruct:
			c.layoutStruct(inner, std140, memo, at)
		}
		// member alignment
		t := m.types[tid]
		o := uint64(off)
		if t.kind == tkVector {
			sa := c.scalarAlign(tid)
			size := c.minSize(tid, mi, 0)
			okA := o%sa == 0
			if okA {
				if size <= 16 {
					okA = o/16 == (o+size-1)/16
				} else {
					okA = o%16 == 0
				}
			}
			c.check(RLayoutAlign, okA, in, "vector member %d of %s at Offset %d is not aligned to its scalar alignment %d or improperly straddles a 16-byte boundary", i, m.describe(sid), o, sa)
		} else {
			a := c.baseAlign(tid, mi, false, 0)
			c.check(RLayoutAlign, o%a == 0, in, "member %d (%s) of %s at Offset %d is not a multiple of its base alignment %d", i, m.describe(tid), m.describe(sid), o, a)
			if std140 {
				a := c.baseAlign(tid, mi, true, 0)
				c.check(RLayoutAlign140, o%a == 0, in, "member %d (%s) of %s (in a Uniform Block) at Offset %d is not a multiple of its extended alignment %d", i, m.describe(tid), m.describe(sid), o, a)
			}
		}
		ms = append(ms, mem{i: i, off: o, size: c.minSize(tid, mi, 0), tid: tid})
	}
	sort.SliceStable(ms, func(a, b int) bool { return ms[a].off < ms[b].off })
	for k := 0; k+1 < len(ms); k++ {
		a, b := ms[k], ms[k+1]
		if !c.check(RLayoutOverlap, a.off+a.size <= b.off, in, "members %d (Offset %d, at least %d bytes) and %d (Offset %d) of %s overlap", a.i, a.off, a.size, b.i, b.off, m.describe(sid)) {
			continue
		}
		// a member must not sit between the end of a struct/array and the next multiple of
		// that struct's/array's alignment
		if t := m.types[a.tid]; t != nil && (t.kind == tkStruct || t.kind == tkArray) {
			al := c.baseAlign(a.tid, c.matInfoOf(sid, a.i), false, 0)
			c.check(RLayoutAlign, b.off >= roundUp(a.off+a.size, al), in, "member %d of %s at Offset %d lies between the end of member %d (a struct/array ending at %d) and the next multiple of its alignment %d", b.i, m.describe(sid), b.off, a.i, a.off+a.size, al)
		}
	}
}

type builtinSpec struct {
	name  string
	shape string // "f32", "f32x2", "f32x3", "f32x4", "i32", "i32x3", "i32x4", "bool", "arr-f32", "arr-i32"
	sc    int    // -1 = any, else required storage class
}

var builtinTable = map[uint32]builtinSpec{
	0:    {"Position", "f32x4", -1},
	1:    {"PointSize", "f32", -1},
	3:    {"ClipDistance", "arr-f32", -1},
	4:    {"CullDistance", "arr-f32", -1},
	7:    {"PrimitiveId", "i32", -1},
	8:    {"InvocationId", "i32", scInput},
	9:    {"Layer", "i32", -1},
	10:   {"ViewportIndex", "i32", -1},
	15:   {"FragCoord", "f32x4", scInput},
	16:   {"PointCoord", "f32x2", scInput},
	17:   {"FrontFacing", "bool", scInput},
	18:   {"SampleId", "i32", scInput},
	19:   {"SamplePosition", "f32x2", scInput},
	20:   {"SampleMask", "arr-i32", -1},
	22:   {"FragDepth", "f32", scOutput},
	23:   {"HelperInvocation", "bool", scInput},
	24:   {"NumWorkgroups", "i32x3", scInput},
	26:   {"WorkgroupId", "i32x3", scInput},
	27:   {"LocalInvocationId", "i32x3", scInput},
	28:   {"GlobalInvocationId", "i32x3", scInput},
	29:   {"LocalInvocationIndex", "i32", scInput},
	36:   {"SubgroupSize", "i32", scInput},
	38:   {"NumSubgroups", "i32", scInput},
	40:   {"SubgroupId", "i32", scInput},
	41:   {"SubgroupLocalInvocationId", "i32", scInput},
	42:   {"VertexIndex", "i32", scInput},
	43:   {"InstanceIndex", "i32", scInput},
	4424: {"BaseVertex", "i32", scInput},
	4425: {"BaseInstance", "i32", scInput},
	4426: {"DrawIndex", "i32", scInput},
	4440: {"ViewIndex", "i32", scInput},
	5286: {"BaryCoordKHR", "f32x3", scInput},
	5287: {"BaryCoordNoPerspKHR", "f32x3", scInput},
}

func (c *ctx) builtinShapeOK(tid uint32, want string) bool {
	m := c.m
	t := m.types[tid]
	if t == nil {
		return false
	}
	s := m.shapeOf(tid)
	switch want {
	case "f32":
		return s.isFloat() && s.n == 1 && s.width == 32
	case "f32x2":
		return s.isFloat() && s.n == 2 && s.width == 32
	case "f32x3":
		return s.isFloat() && s.n == 3 && s.width == 32
	case "f32x4":
		return s.isFloat() && s.n == 4 && s.width == 32
	case "i32":
		return s.isInt() && s.n == 1 && s.width == 32
	case "i32x3":
		return s.isInt() && s.n == 3 && s.width == 32
	case "bool":
		return s.isBool() && s.n == 1
	case "arr-f32":
		if t.kind != tkArray {
			return false
		}
		e := m.shapeOf(t.elem)
		return e.isFloat() && e.n == 1 && e.width == 32
	case "arr-i32":
		if t.kind != tkArray {
			return false
		}
		e := m.shapeOf(t.elem)
		return e.isInt() && e.n == 1 && e.width == 32
	}
	return true
}

func (c *ctx) checkIO() {
	m := c.m
	// BuiltIn types (every decorated variable / member, whether or not in an interface)
	ids := make([]uint32, 0, len(m.decos))
	for id := range m.decos {
		ids = append(ids, id)
	}
	sort.Slice(ids, func(i, j int) bool { return ids[i] < ids[j] })
	for _, id := range ids {
		for _, d := range m.decos[id] {
			if d.dec != decBuiltIn || len(d.args) != 1 {
				continue
			}
			spec, ok := builtinTable[d.args[0]]
			if !ok {
				continue
			}
			if d.member >= 0 {
				st := m.types[id]
				if st != nil && st.kind == tkStruct && d.member < len(st.members) {
					c.check(RBuiltinType, c.builtinShapeOK(st.members[d.member], spec.shape), d.in, "BuiltIn %s member has type %s, expected %s", spec.name, m.describe(st.members[d.member]), spec.shape)
				}
				continue
			}
			g := m.gvars[id]
			if g == nil || g.bad {
				continue
			}
			pt := m.types[g.typ]
			if pt == nil || pt.kind != tkPointer {
				continue
			}
			c.check(RBuiltinType, c.builtinShapeOK(pt.elem, spec.shape), g, "BuiltIn %s variable has type %s, expected %s", spec.name, m.describe(pt.elem), spec.shape)
			if spec.sc >= 0 {
				c.check(RBuiltinType, pt.sc == uint32(spec.sc), g, "BuiltIn %s variable has storage class %d, expected %d", spec.name, pt.sc, spec.sc)
			} else {
				c.check(RBuiltinType, pt.sc == scInput || pt.sc == scOutput, g, "BuiltIn %s variable has storage class %d, expected Input or Output", spec.name, pt.sc)
			}
		}
	}
	done := map[string]bool{}
	for _, ep := range m.eps {
		for _, id := range ep.iface {
			g := m.gvars[id]
			if g == nil || g.bad || g.fn != nil {
				continue
			}
			pt := m.types[g.typ]
			if pt == nil || pt.kind != tkPointer || (pt.sc != scInput && pt.sc != scOutput) {
				continue
			}
			key := fmt.Sprint(id, " ", ep.model)
			if done[key] {
				continue
			}
			done[key] = true
			_, hasLoc := m.getDeco(id, decLocation)
			_, hasBI := m.getDeco(id, decBuiltIn)
			ok := hasLoc || hasBI
			if !ok {
				// a struct (or array of structs) whose members all carry BuiltIn or Location
				tid := pt.elem
				for t := m.types[tid]; t != nil && t.kind == tkArray; t = m.types[tid] {
					tid = t.elem
				}
				if st := m.types[tid]; st != nil && st.kind == tkStruct && len(st.members) > 0 {
					ok = true
					for i := range st.members {
						_, l := m.memberDeco(tid, i, decLocation)
						_, b := m.memberDeco(tid, i, decBuiltIn)
						if !l && !b {
							ok = false
						}
					}
				}
			}
			c.check(RIOLocation, ok, g, "interface variable %%%d (storage class %d) of entry point %q has neither Location nor BuiltIn", id, pt.sc, ep.name)
			// VUID-StandaloneSpirv-Flat-04744
			if ep.model == emFragment && pt.sc == scInput && !hasBI {
				s := m.shapeOf(pt.elem)
				if s.ok && (s.isInt() || s.isFloat() && s.width == 64) {
					c.check(RFlat, m.hasDeco(id, decFlat), g, "fragment-shader Input variable %%%d of type %s is not decorated Flat", id, m.describe(pt.elem))
				}
			}
		}
	}
}
