package spvval

import (
	"fmt"
	"runtime"
	"sort"
	"strings"

	"verif/internal/xrt"
)

// Finding is one rule violation.
type Finding struct {
	Rule      string // short stable rule id
	Detail    string
	InstIndex int // index of the offending instruction in the stream, -1 = module level
}

func (f Finding) String() string {
	return fmt.Sprintf("[%s] inst %d: %s", f.Rule, f.InstIndex, f.Detail)
}

// Report is the result of Validate.
type Report struct {
	Findings []Finding
	Fired    map[string]int // rule -> number of times the rule examined something
	Opcodes  map[uint16]int // opcode histogram of the stream
	// Unsupported lists constructs the validator does not know (unknown opcodes, unknown
	// extended instruction sets ...). A non-empty list means "no findings" is not a verdict of
	// validity: rules that need the operand layout of such instructions were skipped for them.
	Unsupported []string
	// Combos counts distinct (opcode, operand type) combinations seen by the typing rules.
	Combos map[string]int
}

// Err maps the report onto the shared error contract: *xrt.Unsupported when the blob contains
// constructs the validator does not know (the verdict is then undecided), *xrt.Malformed carrying
// the first finding when there are findings, nil otherwise.
func (r *Report) Err() error {
	if len(r.Unsupported) > 0 {
		return &xrt.Unsupported{What: "spvval: " + strings.Join(r.Unsupported, ", ")}
	}
	if len(r.Findings) > 0 {
		return &xrt.Malformed{What: fmt.Sprintf("spvval: %d finding(s), first: %s", len(r.Findings), r.Findings[0])}
	}
	return nil
}

// Rule ids.
const (
	RStream          = "stream"
	RHeader          = "header"
	RIDBound         = "id-bound"
	ROperandLayout   = "operand-layout"
	RLayoutOrder     = "layout-order"
	RFunctionLayout  = "function-layout"
	RDefinedOnce     = "id-defined-once"
	RDefined         = "id-defined"
	RGlobalOrder     = "def-before-use-global"
	RDomUse          = "def-dominates-use"
	RBlockOrder      = "block-order-dominance"
	RTypeUnique      = "type-unique"
	RTypeUniquePtr   = "type-unique-pointer"
	RTypeDecl        = "type-declaration"
	RResultType      = "result-type"
	RArith           = "type-arith"
	RCompare         = "type-compare"
	RLogical         = "type-logical"
	RConvert         = "type-convert"
	RBitcast         = "type-bitcast"
	RSelect          = "type-select"
	RBitOps          = "type-bit-ops"
	RConstruct       = "type-composite-construct"
	RExtract         = "type-composite-extract"
	RInsert          = "type-composite-insert"
	RShuffle         = "type-vector-shuffle"
	RVecDynamic      = "type-vector-dynamic"
	RAccessChain     = "type-access-chain"
	RLoad            = "type-load"
	RStore           = "type-store"
	RCopyMemory      = "type-copy-memory"
	RCopyObject      = "type-copy-object"
	RVariable        = "type-variable"
	RVarPlacement    = "variable-placement"
	RFunctionType    = "type-function"
	RCall            = "type-function-call"
	RReturn          = "type-return"
	RPhi             = "type-phi"
	RPhiParents      = "phi-parents"
	RExtInst         = "type-ext-inst"
	RMatrix          = "type-matrix"
	RDot             = "type-dot"
	RAtomic          = "type-atomic"
	RBarrier         = "type-barrier"
	RArrayLength     = "type-array-length"
	RConstant        = "type-constant"
	RDerivative      = "type-derivative"
	RImage           = "type-image"
	RBranchCond      = "type-branch"
	RBlockLabel      = "block-label-first"
	RBlockTerm       = "block-terminator"
	REntryBlock      = "entry-block-not-target"
	RPhiPlacement    = "phi-placement"
	RBranchTarget    = "branch-target"
	RMergePlacement  = "merge-before-terminator"
	RLoopDominates   = "loop-header-dominates"
	RMergeUnique     = "merge-unique"
	RBackEdge        = "back-edge"
	RSwitch          = "switch"
	RHeaderDomMerge  = "header-dominates-merge"
	RNesting         = "construct-nesting"
	REntryFn         = "entry-point-fn"
	REntryUnique     = "entry-point-unique"
	RExecMode        = "execution-mode"
	RIfaceComplete   = "interface-complete"
	RIfaceClass      = "interface-class"
	RIfaceUnique     = "interface-unique"
	RMemoryModel     = "memory-model"
	RBlockDeco       = "block-decoration"
	RMemberOffset    = "member-offset"
	RArrayStride     = "array-stride"
	RMatrixStride    = "matrix-stride"
	RLayoutOverlap   = "layout-overlap"
	RLayoutAlign     = "layout-align"
	RRuntimeArray    = "runtime-array-last"
	RDescriptor      = "descriptor-binding"
	RIOLocation      = "io-location"
	RFlat            = "flat-integer-input"
	RDecoUnique      = "decoration-unique"
	RDecoTarget      = "decoration-target"
	RBuiltinType     = "builtin-type"
	RCapability      = "capability"
	RExtension       = "extension"
	RStorageBufferSC = "storage-buffer-version"
	RLayoutAlign140  = "layout-align-std140"
	REntryPresent    = "entry-point-present"
	RMinVersion      = "min-version"
)

var allRules = []string{
	RStream, RHeader, RIDBound, ROperandLayout, RLayoutOrder, RFunctionLayout, RDefinedOnce, RDefined,
	RGlobalOrder, RDomUse, RBlockOrder, RTypeUnique, RTypeUniquePtr, RTypeDecl, RResultType, RArith, RCompare,
	RLogical, RConvert, RBitcast, RSelect, RBitOps, RConstruct, RExtract, RInsert, RShuffle, RVecDynamic,
	RAccessChain, RLoad, RStore, RCopyMemory, RCopyObject, RVariable, RVarPlacement, RFunctionType, RCall,
	RReturn, RPhi, RPhiParents, RExtInst, RMatrix, RDot, RAtomic, RBarrier, RArrayLength, RConstant,
	RDerivative, RImage, RBranchCond, RBlockLabel, RBlockTerm, REntryBlock, RPhiPlacement, RBranchTarget,
	RMergePlacement, RLoopDominates, RMergeUnique, RBackEdge, RSwitch, RHeaderDomMerge, RNesting, REntryFn,
	REntryUnique, RExecMode, RIfaceComplete, RIfaceClass, RIfaceUnique, RMemoryModel, RBlockDeco,
	RMemberOffset, RArrayStride, RMatrixStride, RLayoutOverlap, RLayoutAlign, RRuntimeArray, RDescriptor,
	RIOLocation, RFlat, RDecoUnique, RDecoTarget, RBuiltinType, RCapability, RExtension, RStorageBufferSC,
	RLayoutAlign140, REntryPresent, RMinVersion,
}

// Rules returns every rule id implemented.
func Rules() []string { return append([]string(nil), allRules...) }

type ctx struct {
	m   *module
	rep *Report
	ver uint32 // (major<<8)|minor
	uns map[string]bool
}

func (c *ctx) fire(rule string) { c.rep.Fired[rule]++ }

func (c *ctx) fail(rule string, in *inst, format string, args ...any) {
	idx := -1
	pre := ""
	if in != nil {
		idx = in.idx
		pre = OpName(in.op)
		if in.res != 0 {
			pre = fmt.Sprintf("%%%d = %s", in.res, pre)
		}
		pre += ": "
	}
	c.rep.Findings = append(c.rep.Findings, Finding{Rule: rule, Detail: pre + fmt.Sprintf(format, args...), InstIndex: idx})
}

// check fires the rule and records a finding when ok is false. Returns ok.
func (c *ctx) check(rule string, ok bool, in *inst, format string, args ...any) bool {
	c.fire(rule)
	if !ok {
		c.fail(rule, in, format, args...)
	}
	return ok
}

func (c *ctx) unsupported(s string) {
	if !c.uns[s] {
		c.uns[s] = true
		c.rep.Unsupported = append(c.rep.Unsupported, s)
	}
}

func (c *ctx) combo(in *inst, ts ...uint32) {
	s := OpName(in.op)
	for _, t := range ts {
		s += " " + c.m.describeShort(t)
	}
	c.rep.Combos[s]++
}

// describeShort is describe without ids, so that combos are comparable across modules.
func (m *module) describeShort(id uint32) string { return m.describeShortD(id, 0) }

func (m *module) describeShortD(id uint32, depth int) string {
	if depth > 8 {
		return "..."
	}
	depth++
	t := m.types[id]
	if t == nil {
		return "?"
	}
	switch t.kind {
	case tkVector:
		return fmt.Sprintf("vec%d<%s>", t.count, m.describeShortD(t.elem, depth))
	case tkMatrix:
		return fmt.Sprintf("mat%d<%s>", t.count, m.describeShortD(t.elem, depth))
	case tkArray:
		return "array"
	case tkRuntimeArray:
		return "rtarray"
	case tkStruct:
		return "struct"
	case tkPointer:
		return fmt.Sprintf("ptr<%d>", t.sc)
	case tkImage:
		return "image"
	case tkSampledImage:
		return "sampledimage"
	case tkFunction:
		return "fn"
	}
	return m.describeD(id, depth)
}

// Validate checks a SPIR-V binary. It never panics; a malformed stream is reported as a finding
// of rule "stream".
func Validate(b []byte) (rep *Report) {
	rep = &Report{Fired: map[string]int{}, Opcodes: map[uint16]int{}, Combos: map[string]int{}}
	defer func() {
		if r := recover(); r != nil {
			rep.Findings = append(rep.Findings, Finding{Rule: RStream, Detail: fmt.Sprintf("validator internal error (treated as malformed stream): %v\n%s", r, panicSite()), InstIndex: -1})
		}
		sort.SliceStable(rep.Findings, func(i, j int) bool { return rep.Findings[i].InstIndex < rep.Findings[j].InstIndex })
	}()
	rep.Fired[RStream]++
	s, msg := decode(b)
	if msg != "" {
		rep.Findings = append(rep.Findings, Finding{Rule: RStream, Detail: msg, InstIndex: -1})
		return rep
	}
	for _, in := range s.insts {
		rep.Opcodes[in.op]++
	}
	c := &ctx{rep: rep, ver: s.version, uns: map[string]bool{}}
	if s.trailing != "" {
		c.fail(RStream, nil, "%s", s.trailing)
	}
	c.checkHeader(s)
	ops := make([]int, 0, len(s.unknown))
	for op := range s.unknown {
		ops = append(ops, int(op))
	}
	sort.Ints(ops)
	for _, op := range ops {
		c.unsupported(fmt.Sprintf("opcode %d", op))
	}
	m := buildModule(s)
	c.m = m
	c.checkOperandLayout()
	c.checkLayoutOrder()
	c.checkIDs()
	c.checkTypeDecls()
	c.checkBlocks()
	c.checkDominance()
	c.checkTyping()
	c.checkStructuredCFG()
	c.checkEntryPoints()
	c.checkDecorations()
	c.checkCapabilities()
	c.checkPointers()
	c.checkDebug()
	c.checkCallGraph()
	c.checkScopes()
	c.checkSelectionStructured()
	c.checkIOUnique()
	c.checkBlockNesting()
	c.checkImageExtra()
	return rep
}

// panicSite returns the first frames of this package on the panicking stack.
func panicSite() string {
	pcs := make([]uintptr, 32)
	n := runtime.Callers(3, pcs)
	fr := runtime.CallersFrames(pcs[:n])
	out := ""
	k := 0
	for {
		f, more := fr.Next()
		if strings.Contains(f.Function, "spvval.") && !strings.Contains(f.Function, "Validate.func") {
			out += fmt.Sprintf("  %s:%d\n", f.Function, f.Line)
			k++
		}
		if !more || k >= 4 {
			break
		}
	}
	return out
}

func (c *ctx) checkHeader(s *stream) {
	c.check(RHeader, s.magicOK, nil, "magic number is not 0x07230203")
	v := s.verWord
	okv := v>>24 == 0 && v&0xff == 0 && (v>>16)&0xff == 1 && (v>>8)&0xff <= 6
	c.check(RHeader, okv, nil, "version word 0x%08x is not 0x00010[0-6]00", v)
	c.check(RHeader, s.schema == 0, nil, "schema word is %d, must be 0", s.schema)
	c.check(RIDBound, s.bound > 0, nil, "bound is 0")
	for _, in := range s.insts {
		if in.res != 0 || hasResult(in.op) {
			c.check(RIDBound, in.res != 0 && in.res < s.bound, in, "result id %d not in (0, bound=%d)", in.res, s.bound)
		}
		for _, u := range in.uses {
			c.check(RIDBound, u.id != 0 && u.id < s.bound, in, "operand id %d (word %d) not in (0, bound=%d)", u.id, u.pos, s.bound)
		}
	}
}

func hasResult(op uint16) bool {
	info, ok := opTable[op]
	if !ok {
		return false
	}
	for i := 0; i < len(info.fmt); i++ {
		if info.fmt[i] == 'r' {
			return true
		}
	}
	return false
}

func hasResultType(op uint16) bool {
	info, ok := opTable[op]
	return ok && len(info.fmt) > 0 && info.fmt[0] == 't'
}

func (c *ctx) checkOperandLayout() {
	for _, in := range c.m.insts {
		if _, ok := opTable[in.op]; !ok {
			continue
		}
		c.check(ROperandLayout, !in.bad, in, "word count %d does not fit the operand layout of the instruction", len(in.words))
	}
}
