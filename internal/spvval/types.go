package spvval

import (
	"fmt"
	"sort"
	"strings"
)

// checkTypeDecls: well-formedness of type declarations and uniqueness of non-aggregate types
// (SPIR-V spec §2.8 "Types and Variables": "It is invalid to declare multiple non-aggregate,
// non-pointer type <id>s having the same opcode and operands").
func (c *ctx) checkTypeDecls() {
	m := c.m
	seen := map[string]*inst{}
	for _, in := range m.insts {
		if !isTypeOp(in.op) || in.bad || m.defFn[in.res] != nil {
			continue
		}
		t := m.types[in.res]
		if t == nil || t.in != in {
			continue
		}
		c.checkTypeDecl(t)
		switch t.kind {
		case tkArray, tkRuntimeArray, tkStruct:
			continue
		}
		key := fmt.Sprint(in.op, in.words[2:])
		rule := RTypeUnique
		if t.kind == tkPointer {
			// The unified specification allows pointer types to be re-declared "to allow for
			// differing decorations"; identical decoration sets make the declarations
			// indistinguishable, which older revisions of the specification disallow. Kept as
			// a separate rule id.
			rule = RTypeUniquePtr
			key += " " + c.decoKey(in.res)
		}
		prev := seen[key]
		c.check(rule, prev == nil, in, "type %s duplicates the declaration %%%d (instruction %d)", m.describe(in.res), resOf(prev), idxOf(prev))
		if prev == nil {
			seen[key] = in
		}
	}
}

func resOf(in *inst) uint32 {
	if in == nil {
		return 0
	}
	return in.res
}

func (c *ctx) decoKey(id uint32) string {
	var ks []string
	for _, d := range c.m.decos[id] {
		ks = append(ks, fmt.Sprint(d.member, d.dec, d.args))
	}
	sort.Strings(ks)
	return strings.Join(ks, ";")
}

func (c *ctx) isType(id uint32) bool { return c.m.types[id] != nil }

func (c *ctx) checkTypeDecl(t *typ) {
	m := c.m
	in := t.in
	numeric := func(id uint32) bool {
		e := m.types[id]
		return e != nil && (e.kind == tkInt || e.kind == tkFloat)
	}
	scalar := func(id uint32) bool {
		e := m.types[id]
		return e != nil && (e.kind == tkInt || e.kind == tkFloat || e.kind == tkBool)
	}
	dataType := func(id uint32) bool {
		e := m.types[id]
		return e != nil && e.kind != tkVoid && e.kind != tkFunction
	}
	switch t.kind {
	case tkInt:
		c.check(RTypeDecl, t.width == 8 || t.width == 16 || t.width == 32 || t.width == 64, in, "integer width %d", t.width)
		c.check(RTypeDecl, in.w(3) <= 1, in, "signedness operand %d is not 0 or 1", in.w(3))
	case tkFloat:
		c.check(RTypeDecl, t.width == 16 || t.width == 32 || t.width == 64, in, "float width %d", t.width)
	case tkVector:
		c.check(RTypeDecl, scalar(t.elem), in, "component type %%%d is not a scalar type", t.elem)
		c.check(RTypeDecl, t.count >= 2 && t.count <= 4, in, "component count %d (Vector16 capability not declared)", t.count)
	case tkMatrix:
		col := m.types[t.elem]
		ok := col != nil && col.kind == tkVector && m.types[col.elem] != nil && m.types[col.elem].kind == tkFloat
		c.check(RTypeDecl, ok, in, "column type %%%d is not a vector of floating-point type", t.elem)
		c.check(RTypeDecl, t.count >= 2 && t.count <= 4, in, "column count %d", t.count)
	case tkArray:
		c.check(RTypeDecl, dataType(t.elem), in, "element type %%%d is not a (non-void, non-function) type", t.elem)
		k := m.consts[t.lenID]
		lt := (*typ)(nil)
		if k != nil {
			lt = m.types[k.typ]
		}
		if c.check(RTypeDecl, k != nil && lt != nil && lt.kind == tkInt, in, "length %%%d is not an integer-type constant instruction", t.lenID) {
			if v, ok := m.constIntAny(t.lenID); ok && !k.spec {
				bad := v == 0 || (lt.signed && lt.width <= 32 && int32(v) < 0)
				c.check(RTypeDecl, !bad, in, "array length constant has value %d, must be at least 1", int64(v))
			}
		}
		if e := m.types[t.elem]; e != nil {
			c.check(RTypeDecl, e.kind != tkRuntimeArray, in, "array of run-time arrays")
		}
	case tkRuntimeArray:
		c.check(RTypeDecl, dataType(t.elem), in, "element type %%%d is not a (non-void, non-function) type", t.elem)
		if e := m.types[t.elem]; e != nil {
			c.check(RTypeDecl, e.kind != tkRuntimeArray, in, "run-time array of run-time arrays")
		}
	case tkStruct:
		for i, mem := range t.members {
			if m.fwdPtr[mem] {
				c.fire(RTypeDecl)
				continue
			}
			c.check(RTypeDecl, dataType(mem) && mem != t.id, in, "member %d type %%%d is not a (non-void, non-function) type", i, mem)
		}
	case tkPointer:
		c.check(RTypeDecl, c.isType(t.elem), in, "pointee %%%d is not a type", t.elem)
	case tkFunction:
		c.check(RTypeDecl, c.isType(t.ret), in, "return type %%%d is not a type", t.ret)
		for i, p := range t.params {
			c.check(RTypeDecl, dataType(p), in, "parameter %d type %%%d is not a (non-void) type", i, p)
		}
	case tkImage:
		e := m.types[t.elem]
		c.check(RTypeDecl, e != nil && (e.kind == tkVoid || numeric(t.elem)), in, "sampled type %%%d is not void or a numeric scalar", t.elem)
		c.check(RTypeDecl, t.depth <= 2 && t.arrayed <= 1 && t.ms <= 1 && t.sampled <= 2, in, "Depth/Arrayed/MS/Sampled operand out of range (%d,%d,%d,%d)", t.depth, t.arrayed, t.ms, t.sampled)
		c.check(RTypeDecl, t.dim <= 6 || t.dim == 4173, in, "unknown Dim %d", t.dim)
		// VUID-StandaloneSpirv-OpTypeImage-04656 / -04657
		if e != nil && e.kind != tkVoid {
			c.check(RTypeDecl, (e.kind == tkFloat && e.width == 32) || (e.kind == tkInt && (e.width == 32 || e.width == 64)), in, "Sampled Type %s is not a 32-bit integer / float or 64-bit integer", m.describe(t.elem))
		}
		c.check(RTypeDecl, t.sampled == 1 || t.sampled == 2, in, "Sampled operand is %d; the Vulkan environment requires 1 or 2", t.sampled)
	case tkSampledImage:
		e := m.types[t.elem]
		if c.check(RTypeDecl, e != nil && e.kind == tkImage, in, "image type operand %%%d is not an OpTypeImage", t.elem) {
			c.check(RTypeDecl, e.sampled != 2 && e.dim != 6, in, "sampled image of a storage or subpass image type")
		}
	}
}

// ---- shape predicates used by the typing rules ----

type shape struct {
	kind  typeKind // tkBool / tkInt / tkFloat
	width uint32
	sign  bool
	n     uint32 // 1 = scalar
	ok    bool
}

func (m *module) shapeOf(tid uint32) shape {
	t := m.types[tid]
	e, n := m.scalarOf(t)
	if e == nil {
		return shape{}
	}
	w := e.width
	if e.kind == tkBool {
		w = 0
	}
	return shape{kind: e.kind, width: w, sign: e.signed, n: n, ok: true}
}

func (s shape) isInt() bool   { return s.ok && s.kind == tkInt }
func (s shape) isFloat() bool { return s.ok && s.kind == tkFloat }
func (s shape) isBool() bool  { return s.ok && s.kind == tkBool }

// arrayLen returns the constant length of an array type when it is a plain OpConstant.
func (m *module) arrayLen(t *typ) (uint64, bool) {
	k := m.consts[t.lenID]
	if k == nil || k.spec {
		return 0, false
	}
	return m.constIntAny(t.lenID)
}
