package spvval

import (
	"fmt"
	"sort"
)

// Capability and extension requirements (SPIR-V spec §3.31 "Capability", the "Enabling
// Capabilities" column of each enumerant / instruction, and the "Missing before version" /
// extension notes).

const (
	capMatrix                     = 0
	capShader                     = 1
	capGeometry                   = 2
	capTessellation               = 3
	capLinkage                    = 5
	capKernel                     = 6
	capFloat16                    = 9
	capFloat64                    = 10
	capInt64                      = 11
	capInt64Atomics               = 12
	capInt16                      = 22
	capImageGatherExtended        = 25
	capStorageImageMultisample    = 27
	capClipDistance               = 32
	capCullDistance               = 33
	capImageCubeArray             = 34
	capSampleRateShading          = 35
	capImageRect                  = 36
	capSampledRect                = 37
	capInt8                       = 39
	capInputAttachment            = 40
	capMinLod                     = 42
	capSampled1D                  = 43
	capImage1D                    = 44
	capSampledCubeArray           = 45
	capSampledBuffer              = 46
	capImageBuffer                = 47
	capImageMSArray               = 48
	capStorageImageExtFormats     = 49
	capImageQuery                 = 50
	capDerivativeControl          = 51
	capStorageImageReadNoFormat   = 55
	capStorageImageWriteNoFormat  = 56
	capMultiViewport              = 57
	capGroupNonUniform            = 61
	capGroupNonUniformVote        = 62
	capGroupNonUniformArithmetic  = 63
	capGroupNonUniformBallot      = 64
	capGroupNonUniformShuffle     = 65
	capGroupNonUniformShuffleRel  = 66
	capGroupNonUniformClustered   = 67
	capGroupNonUniformQuad        = 68
	capShaderLayer                = 69
	capShaderViewportIndex        = 70
	capSubgroupBallotKHR          = 4423
	capDrawParameters             = 4427
	capSubgroupVoteKHR            = 4431
	capStorageBuffer16            = 4433
	capUniformAndStorageBuffer16  = 4434
	capStoragePushConstant16      = 4435
	capStorageInputOutput16       = 4436
	capMultiView                  = 4439
	capStorageBuffer8             = 4448
	capUniformAndStorageBuffer8   = 4449
	capStoragePushConstant8       = 4450
	capRayQueryKHR                = 4472
	capRayTracingKHR              = 4479
	capInt64ImageEXT              = 5016
	capShaderViewportIndexLayer   = 5254
	capMeshShadingNV              = 5266
	capMeshShadingEXT             = 5283
	capFragmentBarycentricKHR     = 5284
	capShaderNonUniform           = 5301
	capRuntimeDescriptorArray     = 5302
	capRayTracingNV               = 5340
	capVulkanMemoryModel          = 5345
	capDemoteToHelper             = 5379
	capDotProductInputAll         = 6016
	capDotProductInput4x8Bit      = 6017
	capDotProductInput4x8BitPack  = 6018
	capDotProduct                 = 6019
	capAtomicFloat32AddEXT        = 6033
	capAtomicFloat64AddEXT        = 6034
	capAtomicFloat32MinMaxEXT     = 5612
	capAtomicFloat64MinMaxEXT     = 5613
	capTessellationPointSize      = 23
	capGeometryPointSize          = 24
	capPhysicalStorageBuffer      = 5347
	capWorkgroupMemExplicitLayout = 4428
)

var capNames = map[uint32]string{
	0: "Matrix", 1: "Shader", 2: "Geometry", 3: "Tessellation", 5: "Linkage", 6: "Kernel", 9: "Float16", 10: "Float64", 11: "Int64",
	12: "Int64Atomics", 22: "Int16", 25: "ImageGatherExtended", 27: "StorageImageMultisample", 32: "ClipDistance",
	33: "CullDistance", 34: "ImageCubeArray", 35: "SampleRateShading", 36: "ImageRect", 37: "SampledRect", 39: "Int8",
	40: "InputAttachment", 42: "MinLod", 43: "Sampled1D", 44: "Image1D", 45: "SampledCubeArray", 46: "SampledBuffer",
	47: "ImageBuffer", 48: "ImageMSArray", 49: "StorageImageExtendedFormats", 50: "ImageQuery", 51: "DerivativeControl",
	55: "StorageImageReadWithoutFormat", 56: "StorageImageWriteWithoutFormat", 57: "MultiViewport", 61: "GroupNonUniform",
	62: "GroupNonUniformVote", 63: "GroupNonUniformArithmetic", 64: "GroupNonUniformBallot", 65: "GroupNonUniformShuffle",
	66: "GroupNonUniformShuffleRelative", 67: "GroupNonUniformClustered", 68: "GroupNonUniformQuad", 69: "ShaderLayer",
	70: "ShaderViewportIndex", 4423: "SubgroupBallotKHR", 4427: "DrawParameters", 4431: "SubgroupVoteKHR",
	4433: "StorageBuffer16BitAccess", 4434: "UniformAndStorageBuffer16BitAccess", 4435: "StoragePushConstant16",
	4436: "StorageInputOutput16", 4439: "MultiView", 4448: "StorageBuffer8BitAccess", 4449: "UniformAndStorageBuffer8BitAccess",
	4450: "StoragePushConstant8", 4472: "RayQueryKHR", 4479: "RayTracingKHR", 5016: "Int64ImageEXT",
	5254: "ShaderViewportIndexLayerEXT", 5266: "MeshShadingNV", 5283: "MeshShadingEXT", 5284: "FragmentBarycentricKHR",
	5301: "ShaderNonUniform", 5302: "RuntimeDescriptorArray", 5340: "RayTracingNV", 5345: "VulkanMemoryModel",
	5379: "DemoteToHelperInvocation", 6016: "DotProductInputAll", 6017: "DotProductInput4x8Bit",
	6018: "DotProductInput4x8BitPacked", 6019: "DotProduct", 6033: "AtomicFloat32AddEXT", 6034: "AtomicFloat64AddEXT",
	5612: "AtomicFloat32MinMaxEXT", 5613: "AtomicFloat64MinMaxEXT", 23: "TessellationPointSize", 24: "GeometryPointSize",
}

func capName(c uint32) string {
	if n, ok := capNames[c]; ok {
		return n
	}
	return fmt.Sprintf("Capability(%d)", c)
}

// capImplies: declaring the key implicitly declares the values ("Implicitly Declares" column).
var capImplies = map[uint32][]uint32{
	capShader: {capMatrix}, capGeometry: {capShader}, capTessellation: {capShader}, capInt64Atomics: {capInt64},
	capImageGatherExtended: {capShader}, capStorageImageMultisample: {capShader}, capClipDistance: {capShader},
	capCullDistance: {capShader}, capImageCubeArray: {capSampledCubeArray}, capSampleRateShading: {capShader},
	capImageRect: {capSampledRect}, capSampledRect: {capShader}, capInputAttachment: {capShader}, capMinLod: {capShader},
	capImage1D: {capSampled1D}, capSampledCubeArray: {capShader}, capImageBuffer: {capSampledBuffer},
	capImageMSArray: {capShader}, capStorageImageExtFormats: {capShader}, capImageQuery: {capShader},
	capDerivativeControl: {capShader}, capStorageImageReadNoFormat: {capShader}, capStorageImageWriteNoFormat: {capShader},
	capMultiViewport: {capGeometry}, capGroupNonUniformVote: {capGroupNonUniform},
	capGroupNonUniformArithmetic: {capGroupNonUniform}, capGroupNonUniformBallot: {capGroupNonUniform},
	capGroupNonUniformShuffle: {capGroupNonUniform}, capGroupNonUniformShuffleRel: {capGroupNonUniform},
	capGroupNonUniformClustered: {capGroupNonUniform}, capGroupNonUniformQuad: {capGroupNonUniform},
	capShaderLayer: {capShader}, capShaderViewportIndex: {capShader}, capDrawParameters: {capShader},
	capUniformAndStorageBuffer16: {capStorageBuffer16}, capMultiView: {capShader},
	capUniformAndStorageBuffer8: {capStorageBuffer8}, capRayQueryKHR: {capShader}, capRayTracingKHR: {capShader},
	capInt64ImageEXT: {capShader}, capMeshShadingNV: {capShader}, capMeshShadingEXT: {capShader},
	capShaderNonUniform: {capShader}, capRuntimeDescriptorArray: {capShader}, capRayTracingNV: {capShader},
	capDemoteToHelper: {capShader}, capDotProductInput4x8Bit: {capInt8}, capAtomicFloat32AddEXT: {capShader},
	capAtomicFloat64AddEXT: {capShader}, capAtomicFloat32MinMaxEXT: {capShader}, capAtomicFloat64MinMaxEXT: {capShader},
	capTessellationPointSize: {capTessellation}, capGeometryPointSize: {capGeometry},
	capPhysicalStorageBuffer: {capShader}, capShaderViewportIndexLayer: {capMultiViewport},
	capFragmentBarycentricKHR: {},
}

// capExt: the extension that must be declared for a capability, and the first version in which
// the capability is core (0 = never core).
var capExt = map[uint32]struct {
	ext  string
	core uint32
}{
	capStorageBuffer16:           {"SPV_KHR_16bit_storage", 0x0103},
	capUniformAndStorageBuffer16: {"SPV_KHR_16bit_storage", 0x0103},
	capStoragePushConstant16:     {"SPV_KHR_16bit_storage", 0x0103},
	capStorageInputOutput16:      {"SPV_KHR_16bit_storage", 0x0103},
	capMultiView:                 {"SPV_KHR_multiview", 0x0103},
	capDrawParameters:            {"SPV_KHR_shader_draw_parameters", 0x0103},
	capStorageBuffer8:            {"SPV_KHR_8bit_storage", 0x0105},
	capUniformAndStorageBuffer8:  {"SPV_KHR_8bit_storage", 0x0105},
	capStoragePushConstant8:      {"SPV_KHR_8bit_storage", 0x0105},
	capShaderNonUniform:          {"SPV_EXT_descriptor_indexing", 0x0105},
	capRuntimeDescriptorArray:    {"SPV_EXT_descriptor_indexing", 0x0105},
	capRayQueryKHR:               {"SPV_KHR_ray_query", 0},
	capAtomicFloat32AddEXT:       {"SPV_EXT_shader_atomic_float_add", 0},
	capAtomicFloat64AddEXT:       {"SPV_EXT_shader_atomic_float_add", 0},
	capDotProduct:                {"SPV_KHR_integer_dot_product", 0x0106},
	capDotProductInputAll:        {"SPV_KHR_integer_dot_product", 0x0106},
	capDotProductInput4x8Bit:     {"SPV_KHR_integer_dot_product", 0x0106},
	capDotProductInput4x8BitPack: {"SPV_KHR_integer_dot_product", 0x0106},
	capFragmentBarycentricKHR:    {"SPV_KHR_fragment_shader_barycentric", 0},
	capSubgroupBallotKHR:         {"SPV_KHR_shader_ballot", 0},
	capInt64ImageEXT:             {"SPV_EXT_shader_image_int64", 0},
	capMeshShadingEXT:            {"SPV_EXT_mesh_shader", 0},
	capDemoteToHelper:            {"SPV_EXT_demote_to_helper_invocation", 0x0106},
}

// capMinVersion: capabilities that do not exist before a version and have no enabling extension.
var capMinVersion = map[uint32]uint32{
	capGroupNonUniform: 0x0103, capGroupNonUniformVote: 0x0103, capGroupNonUniformArithmetic: 0x0103,
	capGroupNonUniformBallot: 0x0103, capGroupNonUniformShuffle: 0x0103, capGroupNonUniformShuffleRel: 0x0103,
	capGroupNonUniformClustered: 0x0103, capGroupNonUniformQuad: 0x0103,
	capShaderLayer: 0x0105, capShaderViewportIndex: 0x0105,
}

// opMinVersion: instructions "missing before version" with no enabling extension.
var opMinVersion = map[uint16]uint32{
	330: 0x0101, 331: 0x0102, 332: 0x0102, 400: 0x0104,
}

func (c *ctx) capClosure() map[uint32]bool {
	have := map[uint32]bool{}
	var add func(x uint32)
	add = func(x uint32) {
		if have[x] {
			return
		}
		have[x] = true
		for _, y := range capImplies[x] {
			add(y)
		}
	}
	for x := range c.m.caps {
		add(x)
	}
	return have
}

func (c *ctx) checkCapabilities() {
	m := c.m
	have := c.capClosure()
	need := func(in *inst, what string, anyOf ...uint32) {
		ok := false
		names := ""
		for i, x := range anyOf {
			if have[x] {
				ok = true
			}
			if i > 0 {
				names += " or "
			}
			names += capName(x)
		}
		c.check(RCapability, ok, in, "%s requires capability %s, which is not declared", what, names)
	}
	extOK := func(ext string, core uint32) bool {
		return m.extStr[ext] || (core != 0 && c.ver >= core)
	}

	// declared capabilities -> extensions / versions
	caps := make([]int, 0, len(m.caps))
	for x := range m.caps {
		caps = append(caps, int(x))
	}
	sort.Ints(caps)
	var capInst = map[uint32]*inst{}
	for _, in := range m.insts {
		if in.op == 17 {
			capInst[in.w(1)] = in
		}
	}
	for _, xi := range caps {
		x := uint32(xi)
		if e, ok := capExt[x]; ok {
			c.check(RExtension, extOK(e.ext, e.core), capInst[x], "capability %s requires OpExtension %q at this version", capName(x), e.ext)
		}
		if v, ok := capMinVersion[x]; ok {
			c.check(RMinVersion, c.ver >= v, capInst[x], "capability %s does not exist before version %d.%d", capName(x), v>>8, v&0xff)
		}
	}
	if m.hasMemModel {
		switch m.memModel {
		case 0, 1:
			need(nil, "memory model Simple/GLSL450", capShader)
		case 3:
			need(nil, "memory model Vulkan", capVulkanMemoryModel)
		}
	}
	for _, ep := range m.eps {
		switch ep.model {
		case emVertex, emFragment, emGLCompute:
			need(ep.in, "execution model Vertex/Fragment/GLCompute", capShader)
		case emGeometry:
			need(ep.in, "execution model Geometry", capGeometry)
		case emTessCtrl, emTessEval:
			need(ep.in, "execution model Tessellation*", capTessellation)
		case emKernel:
			need(ep.in, "execution model Kernel", capKernel)
		case emTaskEXT, emMeshEXT:
			need(ep.in, "execution model TaskEXT/MeshEXT", capMeshShadingEXT)
		case emTaskNV, emMeshNV:
			need(ep.in, "execution model TaskNV/MeshNV", capMeshShadingNV)
		}
	}

	storageClassCap := func(in *inst, sc uint32) {
		switch sc {
		case scUniform, scOutput, scPrivate, scPushConstant, scStorageBuffer:
			need(in, fmt.Sprintf("storage class %d", sc), capShader)
		}
		if sc == scStorageBuffer {
			c.check(RStorageBufferSC, extOK("SPV_KHR_storage_buffer_storage_class", 0x0103), in, "StorageBuffer storage class requires version 1.3 or OpExtension \"SPV_KHR_storage_buffer_storage_class\"")
		}
	}

	for _, in := range m.insts {
		if in.bad {
			continue
		}
		if v, ok := opMinVersion[in.op]; ok {
			c.check(RMinVersion, c.ver >= v, in, "instruction does not exist before version %d.%d", v>>8, v&0xff)
		}
		switch in.op {
		case 21:
			switch in.w(2) {
			case 8:
				need(in, "8-bit integer type", capInt8)
			case 16:
				need(in, "16-bit integer type", capInt16)
			case 64:
				need(in, "64-bit integer type", capInt64)
			}
		case 22:
			switch in.w(2) {
			case 16:
				need(in, "16-bit float type", capFloat16)
			case 64:
				need(in, "64-bit float type", capFloat64)
			}
		case 24:
			need(in, "OpTypeMatrix", capMatrix)
		case 29:
			need(in, "OpTypeRuntimeArray", capShader)
		case 25:
			c.imageTypeCaps(in, need)
		case 32:
			storageClassCap(in, in.w(2))
		case 59:
			storageClassCap(in, in.arg(0))
			c.storage16(in, have, need)
			if pt := m.types[in.typ]; pt != nil && pt.kind == tkPointer && in.fn == nil {
				if e := m.types[pt.elem]; e != nil && e.kind == tkRuntimeArray {
					need(in, "variable whose type is a run-time array (descriptor array)", capRuntimeDescriptorArray)
				}
			}
		case 4472:
			need(in, "OpTypeRayQueryKHR", capRayQueryKHR)
		case 5341:
			need(in, "OpTypeAccelerationStructureKHR", capRayQueryKHR, capRayTracingKHR, capRayTracingNV)
		case 4473, 4474, 4475, 4476, 4477, 4479:
			need(in, OpName(in.op), capRayQueryKHR)
		case 84, 142, 143, 144, 145, 146, 147:
			if in.op != 142 {
				need(in, OpName(in.op), capMatrix)
			}
		case 68:
			need(in, "OpArrayLength", capShader)
		case 103, 104, 105, 106, 107:
			need(in, OpName(in.op), capImageQuery, capKernel)
		case 87, 89, 91, 93:
			need(in, OpName(in.op), capShader)
		case 90, 92, 94, 96, 97:
			need(in, OpName(in.op), capShader)
		case 116:
			need(in, "OpQuantizeToF16", capShader)
		case 201, 202, 203, 204:
			need(in, OpName(in.op), capShader)
		case 207, 208, 209:
			need(in, OpName(in.op), capShader)
		case 210, 211, 212, 213, 214, 215:
			need(in, OpName(in.op), capDerivativeControl)
		case 252:
			need(in, "OpKill", capShader)
		case 4416:
			need(in, "OpTerminateInvocation", capShader)
			c.check(RExtension, extOK("SPV_KHR_terminate_invocation", 0x0106), in, "OpTerminateInvocation requires version 1.6 or OpExtension \"SPV_KHR_terminate_invocation\"")
		case 5380, 5381:
			need(in, OpName(in.op), capDemoteToHelper)
		case 333:
			need(in, OpName(in.op), capGroupNonUniform)
		case 334, 335, 336:
			need(in, OpName(in.op), capGroupNonUniformVote)
		case 337, 338, 339, 340, 341, 342, 343, 344:
			need(in, OpName(in.op), capGroupNonUniformBallot)
		case 345, 346:
			need(in, OpName(in.op), capGroupNonUniformShuffle)
		case 347, 348:
			need(in, OpName(in.op), capGroupNonUniformShuffleRel)
		case 365, 366:
			need(in, OpName(in.op), capGroupNonUniformQuad)
		case 4421, 4422:
			need(in, OpName(in.op), capSubgroupBallotKHR)
		case 4428, 4429, 4430:
			need(in, OpName(in.op), capSubgroupVoteKHR)
		case 4450, 4451, 4452, 4453, 4454, 4455:
			need(in, OpName(in.op), capDotProduct)
			nfix := 2
			if in.op >= 4453 {
				nfix = 3
			}
			if in.nargs() > nfix {
				need(in, "packed-vector-format dot product", capDotProductInput4x8BitPack)
			} else if t := m.typeOf(in.arg(0)); t != nil && t.kind == tkVector {
				if e := m.types[t.elem]; e != nil && e.width == 8 && t.count == 4 {
					need(in, "4x8-bit vector dot product", capDotProductInput4x8Bit)
				} else {
					need(in, "vector dot product", capDotProductInputAll)
				}
			}
		case 6035:
			if t := m.types[in.typ]; t != nil && t.kind == tkFloat {
				switch t.width {
				case 32:
					need(in, "OpAtomicFAddEXT on f32", capAtomicFloat32AddEXT)
				case 64:
					need(in, "OpAtomicFAddEXT on f64", capAtomicFloat64AddEXT)
				}
			}
		case 5614, 5615:
			if t := m.types[in.typ]; t != nil && t.kind == tkFloat && t.width == 32 {
				need(in, OpName(in.op), capAtomicFloat32MinMaxEXT)
			}
		case 71, 72:
			c.decoCaps(in, need)
		}
		if in.op >= 349 && in.op <= 364 {
			switch in.arg(1) {
			case 0, 1, 2:
				need(in, OpName(in.op), capGroupNonUniformArithmetic)
			case 3:
				need(in, OpName(in.op)+" ClusteredReduce", capGroupNonUniformClustered)
			}
		}
		// 64-bit atomics
		switch in.op {
		case 227, 228, 229, 230, 232, 233, 234, 235, 236, 237, 238, 239, 240, 241, 242:
			if pt := m.typeOf(in.arg(0)); pt != nil && pt.kind == tkPointer {
				if e := m.types[pt.elem]; e != nil && e.kind == tkInt && e.width == 64 {
					need(in, "atomic on a 64-bit integer", capInt64Atomics)
				}
			}
		}
		// image operands
		switch in.op {
		case 87, 88, 89, 90, 91, 92, 93, 94, 95, 96, 97, 98, 99:
			k := 2
			switch in.op {
			case 89, 90, 93, 94, 96, 97, 99:
				k = 3
			}
			if in.nargs() > k {
				mask := in.arg(k)
				if mask&0x10 != 0 {
					need(in, "image operand Offset", capImageGatherExtended)
				}
				if mask&0x20 != 0 {
					need(in, "image operand ConstOffsets", capImageGatherExtended)
				}
				if mask&0x80 != 0 {
					need(in, "image operand MinLod", capMinLod)
				}
			}
		}
		if in.op == 98 || in.op == 99 {
			if it := m.typeOf(in.arg(0)); it != nil && it.kind == tkImage && it.format == 0 && it.dim != 6 {
				if in.op == 98 {
					need(in, "OpImageRead of an image with Unknown format", capStorageImageReadNoFormat)
				} else {
					need(in, "OpImageWrite to an image with Unknown format", capStorageImageWriteNoFormat)
				}
			}
		}
	}
}

func (c *ctx) imageTypeCaps(in *inst, need func(*inst, string, ...uint32)) {
	dim, arrayed, ms, sampled, format := in.w(3), in.w(5), in.w(6), in.w(7), in.w(8)
	switch dim {
	case 0: // 1D
		if sampled == 2 {
			need(in, "storage 1D image", capImage1D)
		} else {
			need(in, "1D image", capSampled1D)
		}
	case 3: // Cube
		need(in, "Cube image", capShader)
		if arrayed == 1 {
			if sampled == 2 {
				need(in, "storage cube-array image", capImageCubeArray)
			} else {
				need(in, "cube-array image", capSampledCubeArray)
			}
		}
	case 4:
		if sampled == 2 {
			need(in, "storage Rect image", capImageRect)
		} else {
			need(in, "Rect image", capSampledRect)
		}
	case 5:
		if sampled == 2 {
			need(in, "storage Buffer image", capImageBuffer)
		} else {
			need(in, "Buffer image", capSampledBuffer)
		}
	case 6:
		need(in, "SubpassData image", capInputAttachment)
	}
	if ms == 1 && sampled == 2 && dim != 6 {
		need(in, "multisampled storage image", capStorageImageMultisample)
		if arrayed == 1 {
			need(in, "multisampled storage image array", capImageMSArray)
		}
	}
	switch {
	case format == 0:
	case format >= 1 && format <= 5, format >= 21 && format <= 24, format >= 30 && format <= 33:
		need(in, "image format", capShader)
	case format >= 6 && format <= 20, format >= 25 && format <= 29, format >= 34 && format <= 39:
		need(in, fmt.Sprintf("image format %d", format), capStorageImageExtFormats)
	case format == 40 || format == 41:
		need(in, "64-bit image format", capInt64ImageEXT)
	}
	if t := c.m.types[in.w(2)]; t != nil && t.kind == tkInt && t.width == 64 {
		need(in, "image with 64-bit sampled type", capInt64ImageEXT)
	}
}

func (c *ctx) decoCaps(in *inst, need func(*inst, string, ...uint32)) {
	var dec uint32
	var args []uint32
	if in.op == 71 {
		dec = in.w(2)
		args = in.words[3:]
	} else {
		dec = in.w(3)
		if len(in.words) > 4 {
			args = in.words[4:]
		}
	}
	switch dec {
	case decBlock, decBufferBlock, decRowMajor, decColMajor, decArrayStride, decMatrixStride, decNoPerspective, decFlat,
		decCentroid, decInvariant, decLocation, decComponent, decIndex, decBinding, decDescriptorSet, decOffset, decNoContraction, decSpecId:
		if dec == decSpecId {
			need(in, "decoration SpecId", capShader, capKernel)
		} else {
			need(in, fmt.Sprintf("decoration %d", dec), capShader)
		}
	case decSample:
		need(in, "decoration Sample", capSampleRateShading)
	case decPatch:
		need(in, "decoration Patch", capTessellation)
	case decNonUniform:
		need(in, "decoration NonUniform", capShaderNonUniform)
	case decPerVertexKHR:
		need(in, "decoration PerVertexKHR", capFragmentBarycentricKHR)
	case decPerPrimitiveEXT:
		need(in, "decoration PerPrimitiveEXT", capMeshShadingNV, capMeshShadingEXT)
	case decBuiltIn:
		if len(args) == 0 {
			return
		}
		b := args[0]
		switch b {
		case 0, 1, 15, 16, 17, 20, 22, 23, 42, 43:
			need(in, fmt.Sprintf("BuiltIn %d", b), capShader)
		case 3:
			need(in, "BuiltIn ClipDistance", capClipDistance)
		case 4:
			need(in, "BuiltIn CullDistance", capCullDistance)
		case 7:
			need(in, "BuiltIn PrimitiveId", capGeometry, capTessellation, capRayTracingNV, capRayTracingKHR, capMeshShadingNV, capMeshShadingEXT)
		case 8:
			need(in, "BuiltIn InvocationId", capGeometry, capTessellation)
		case 9:
			need(in, "BuiltIn Layer", capGeometry, capShaderLayer, capShaderViewportIndexLayer, capMeshShadingNV, capMeshShadingEXT)
		case 10:
			need(in, "BuiltIn ViewportIndex", capMultiViewport, capShaderViewportIndex, capShaderViewportIndexLayer, capMeshShadingNV, capMeshShadingEXT)
		case 18, 19:
			need(in, "BuiltIn SampleId/SamplePosition", capSampleRateShading)
		case 36, 41:
			need(in, "BuiltIn SubgroupSize/SubgroupLocalInvocationId", capKernel, capGroupNonUniform, capSubgroupBallotKHR)
		case 38, 40:
			need(in, "BuiltIn NumSubgroups/SubgroupId", capKernel, capGroupNonUniform)
		case 4416, 4417, 4418, 4419, 4420:
			need(in, "BuiltIn Subgroup*Mask", capSubgroupBallotKHR, capGroupNonUniformBallot)
		case 4424, 4425:
			need(in, "BuiltIn BaseVertex/BaseInstance", capDrawParameters)
		case 4426:
			need(in, "BuiltIn DrawIndex", capDrawParameters, capMeshShadingNV, capMeshShadingEXT)
		case 4440:
			need(in, "BuiltIn ViewIndex", capMultiView)
		case 5286, 5287:
			need(in, "BuiltIn BaryCoord*KHR", capFragmentBarycentricKHR)
		}
	}
}

// contains reports whether the type contains a scalar of the given bit width.
func (c *ctx) containsWidth(tid uint32, width uint32, depth int) bool {
	m := c.m
	t := m.types[tid]
	if t == nil || depth > 64 {
		return false
	}
	switch t.kind {
	case tkInt, tkFloat:
		return t.width == width
	case tkVector, tkMatrix, tkArray, tkRuntimeArray:
		return c.containsWidth(t.elem, width, depth+1)
	case tkStruct:
		for _, mem := range t.members {
			if c.containsWidth(mem, width, depth+1) {
				return true
			}
		}
	}
	return false
}

// storage16: SPV_KHR_16bit_storage / SPV_KHR_8bit_storage — a variable in an interface storage
// class that contains 16-bit (8-bit) elements needs the matching storage capability.
func (c *ctx) storage16(in *inst, have map[uint32]bool, need func(*inst, string, ...uint32)) {
	m := c.m
	pt := m.types[in.typ]
	if pt == nil || pt.kind != tkPointer || in.fn != nil {
		return
	}
	if c.containsWidth(pt.elem, 16, 0) {
		switch pt.sc {
		case scStorageBuffer, scPhysicalStorage:
			need(in, "variable containing a 16-bit element in StorageBuffer storage class", capStorageBuffer16)
		case scUniform:
			tid := pt.elem
			for t := m.types[tid]; t != nil && (t.kind == tkArray || t.kind == tkRuntimeArray); t = m.types[tid] {
				tid = t.elem
			}
			if m.hasDeco(tid, decBufferBlock) {
				need(in, "variable containing a 16-bit element in a BufferBlock", capStorageBuffer16)
			} else {
				need(in, "variable containing a 16-bit element in Uniform storage class", capUniformAndStorageBuffer16)
			}
		case scPushConstant:
			need(in, "variable containing a 16-bit element in PushConstant storage class", capStoragePushConstant16)
		case scInput, scOutput:
			need(in, "variable containing a 16-bit element in Input/Output storage class", capStorageInputOutput16)
		}
	}
	if c.containsWidth(pt.elem, 8, 0) {
		switch pt.sc {
		case scStorageBuffer, scPhysicalStorage:
			need(in, "variable containing an 8-bit element in StorageBuffer storage class", capStorageBuffer8)
		case scUniform:
			need(in, "variable containing an 8-bit element in Uniform storage class", capUniformAndStorageBuffer8, capStorageBuffer8)
		case scPushConstant:
			need(in, "variable containing an 8-bit element in PushConstant storage class", capStoragePushConstant8)
		}
	}
}
