package spvval

import "fmt"

// Execution models.
const (
	emVertex    = 0
	emTessCtrl  = 1
	emTessEval  = 2
	emGeometry  = 3
	emFragment  = 4
	emGLCompute = 5
	emKernel    = 6
	emTaskNV    = 5267
	emMeshNV    = 5268
	emTaskEXT   = 5364
	emMeshEXT   = 5365
)

// callTree returns the functions statically reachable from fn and the module-scope variables
// they reference.
func (m *module) callTree(fn *function) (fns []*function, vars map[uint32]bool) {
	vars = map[uint32]bool{}
	seen := map[*function]bool{fn: true}
	work := []*function{fn}
	for len(work) > 0 {
		f := work[len(work)-1]
		work = work[:len(work)-1]
		fns = append(fns, f)
		for _, b := range f.blocks {
			for _, in := range b.insts {
				if in.bad {
					continue
				}
				for _, u := range in.uses {
					if g := m.gvars[u.id]; g != nil && g.fn == nil {
						vars[u.id] = true
					}
				}
				if in.op == 57 {
					if cal := m.fnByID[in.arg(0)]; cal != nil && !seen[cal] {
						seen[cal] = true
						work = append(work, cal)
					}
				}
			}
		}
	}
	return
}

func (c *ctx) checkEntryPoints() {
	m := c.m
	if !m.caps[5] { // Linkage
		c.check(REntryPresent, len(m.eps) > 0, nil, "module has no OpEntryPoint and does not declare the Linkage capability")
	}
	called := map[uint32]*inst{}
	for _, f := range m.fns {
		for _, b := range f.blocks {
			for _, in := range b.insts {
				if in.op == 57 && !in.bad {
					called[in.arg(0)] = in
				}
			}
		}
	}
	names := map[string]bool{}
	epFns := map[uint32]bool{}
	for _, ep := range m.eps {
		in := ep.in
		if in.bad {
			continue
		}
		epFns[ep.fn] = true
		key := fmt.Sprint(ep.model, " ", ep.name)
		c.check(REntryUnique, !names[key], in, "execution model %d / name %q used by more than one OpEntryPoint", ep.model, ep.name)
		names[key] = true
		f := m.fnByID[ep.fn]
		if !c.check(REntryFn, f != nil, in, "entry point %%%d is not the result of an OpFunction", ep.fn) {
			continue
		}
		if ft := m.types[f.def.arg(1)]; ft != nil && ft.kind == tkFunction {
			rt := m.types[ft.ret]
			c.check(REntryFn, rt != nil && rt.kind == tkVoid && len(ft.params) == 0, in, "entry point function %%%d has type %s(%d params), must be void()", ep.fn, m.describe(ft.ret), len(ft.params))
		}
		c.check(REntryFn, called[ep.fn] == nil, in, "entry point function %%%d is the callee of an OpFunctionCall (instruction %d)", ep.fn, idxOf(called[ep.fn]))
		c.check(REntryFn, len(f.blocks) > 0, in, "entry point function %%%d has no body", ep.fn)

		// execution modes required by the execution model
		modes := map[uint32]bool{}
		for _, mi := range m.modes[ep.fn] {
			modes[mi.w(2)] = true
		}
		switch ep.model {
		case emGLCompute:
			ok := modes[17] || modes[38]
			if !ok {
				// a constant decorated BuiltIn WorkgroupSize
				for id, ds := range m.decos {
					for _, d := range ds {
						if d.member < 0 && d.dec == decBuiltIn && len(d.args) > 0 && d.args[0] == 25 && m.consts[id] != nil {
							ok = true
						}
					}
				}
			}
			c.check(RExecMode, ok, in, "GLCompute entry point %q has no LocalSize / LocalSizeId execution mode and no WorkgroupSize constant", ep.name)
		case emFragment:
			c.check(RExecMode, modes[7] || modes[8], in, "Fragment entry point %q has neither OriginUpperLeft nor OriginLowerLeft", ep.name)
			c.check(RExecMode, !(modes[7] && modes[8]), in, "Fragment entry point %q has both OriginUpperLeft and OriginLowerLeft", ep.name)
			c.check(RExecMode, modes[7], in, "Fragment entry point %q must use OriginUpperLeft in the Vulkan environment", ep.name)
			nDepth := 0
			for _, k := range []uint32{14, 15, 16} {
				if modes[k] {
					nDepth++
				}
			}
			c.check(RExecMode, nDepth <= 1, in, "Fragment entry point %q has %d of DepthGreater/DepthLess/DepthUnchanged, at most one allowed", ep.name, nDepth)
		}

		// interface list
		_, vars := m.callTree(f)
		listed := map[uint32]bool{}
		for _, id := range ep.iface {
			g := m.gvars[id]
			if !c.check(RIfaceClass, g != nil && g.fn == nil, in, "interface id %%%d is not a module-scope OpVariable", id) {
				continue
			}
			sc := g.arg(0)
			if c.ver < 0x0104 {
				c.check(RIfaceClass, sc == scInput || sc == scOutput, in, "interface variable %%%d has storage class %d; before version 1.4 only Input and Output are allowed", id, sc)
				c.fire(RIfaceUnique)
			} else {
				c.check(RIfaceUnique, !listed[id], in, "interface variable %%%d listed more than once", id)
			}
			listed[id] = true
		}
		for id := range vars {
			sc := m.gvars[id].arg(0)
			if c.ver < 0x0104 && sc != scInput && sc != scOutput {
				continue
			}
			c.check(RIfaceComplete, listed[id], in, "variable %%%d (storage class %d) is referenced by the call tree of entry point %q but missing from its interface list", id, sc, ep.name)
		}
	}
	// execution modes
	for fn, list := range m.modes {
		seen := map[uint32]bool{}
		for _, mi := range list {
			if mi.bad {
				continue
			}
			c.check(RExecMode, epFns[fn], mi, "execution mode targets %%%d, which is not an entry point", fn)
			mode := mi.w(2)
			models := map[uint32]bool{}
			for _, ep := range m.eps {
				if ep.fn == fn {
					models[ep.model] = true
				}
			}
			only := func(name string, allowed ...uint32) {
				for mod := range models {
					ok := false
					for _, a := range allowed {
						if a == mod {
							ok = true
						}
					}
					c.check(RExecMode, ok, mi, "execution mode %s is not valid with execution model %d", name, mod)
				}
			}
			switch mode {
			case 7:
				only("OriginUpperLeft", emFragment)
			case 8:
				only("OriginLowerLeft", emFragment)
			case 9:
				only("EarlyFragmentTests", emFragment)
			case 6:
				only("PixelCenterInteger", emFragment)
			case 12:
				only("DepthReplacing", emFragment)
			case 14:
				only("DepthGreater", emFragment)
			case 15:
				only("DepthLess", emFragment)
			case 16:
				only("DepthUnchanged", emFragment)
			case 17:
				only("LocalSize", emGLCompute, emKernel, emTaskNV, emMeshNV, emTaskEXT, emMeshEXT)
				c.check(RExecMode, len(mi.words) == 6, mi, "LocalSize needs three literals")
				if len(mi.words) == 6 {
					c.check(RExecMode, mi.w(3) > 0 && mi.w(4) > 0 && mi.w(5) > 0, mi, "LocalSize (%d,%d,%d) has a zero dimension", mi.w(3), mi.w(4), mi.w(5))
				}
			case 38:
				only("LocalSizeId", emGLCompute, emKernel, emTaskNV, emMeshNV, emTaskEXT, emMeshEXT)
			case 26:
				only("OutputVertices", emGeometry, emTessCtrl, emTessEval, emMeshNV, emMeshEXT)
			case 5270:
				only("OutputPrimitivesEXT", emMeshNV, emMeshEXT)
			case 5298:
				only("OutputTrianglesEXT", emMeshNV, emMeshEXT)
			case 5269:
				only("OutputLinesEXT", emMeshNV, emMeshEXT)
			case 0:
				only("Invocations", emGeometry)
			default:
				c.fire(RExecMode)
			}
			seen[mode] = true
		}
	}
}
