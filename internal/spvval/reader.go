// Package spvval is an independent structural validator for SPIR-V binaries: a partial
// re-implementation of the SPIR-V specification's universal validation rules plus the Vulkan
// environment's layout / interface rules. It is written from the specifications and shares no code
// with the compiler under test.
package spvval

import (
	"fmt"
)

const magic = 0x07230203

// inst is one decoded instruction.
type inst struct {
	op    uint16
	words []uint32 // all words, including the opcode word
	idx   int      // instruction index in the stream
	typ   uint32   // result type id (0 = none)
	res   uint32   // result id (0 = none)
	// uses lists every id operand (including the result type), with the word position inside
	// words and whether the slot permits a forward reference.
	uses []idUse
	// opnd is the word position of the first operand after result type / result id.
	opnd int
	bad  bool      // operand layout did not fit the words
	fn   *function // enclosing function (nil at module scope and for OpFunction/OpFunctionEnd)
}

type idUse struct {
	pos int
	id  uint32
	fwd bool // forward reference allowed by the specification in this slot
}

// w returns word i or 0 when out of range.
func (in *inst) w(i int) uint32 {
	if i < 0 || i >= len(in.words) {
		return 0
	}
	return in.words[i]
}

// arg returns operand i counted after result type / result id.
func (in *inst) arg(i int) uint32 { return in.w(in.opnd + i) }

// nargs is the number of operand words after result type / result id.
func (in *inst) nargs() int {
	n := len(in.words) - in.opnd
	if n < 0 {
		return 0
	}
	return n
}

// Operand layout grammar (one token per space separated field):
//
//	t  result type id          r  result id
//	i  id                      f  id, forward reference allowed
//	l  literal word            s  literal string
//	i* f* l*  zero or more to end of instruction
//	i? l? s?  optional
//	a  optional memory-access mask (+ alignment literal, + scope ids)
//	m  optional image-operands mask followed by ids
//	P  (id value, id parent)* pairs of OpPhi (both forward)
//	W  (literal, label)* pairs of OpSwitch; literal width from selector, resolved later
//	X  OpSpecConstantOp tail: literal opcode then operands (treated as ids except for the
//	   literal-index opcodes)
//	D  decoration extra operands (literals)
type opInfo struct {
	name string
	fmt  string
}

var opTable = map[uint16]opInfo{
	0:   {"OpNop", ""},
	1:   {"OpUndef", "t r"},
	2:   {"OpSourceContinued", "s"},
	3:   {"OpSource", "l l i? s?"},
	4:   {"OpSourceExtension", "s"},
	5:   {"OpName", "f s"},
	6:   {"OpMemberName", "f l s"},
	7:   {"OpString", "r s"},
	8:   {"OpLine", "i l l"},
	10:  {"OpExtension", "s"},
	11:  {"OpExtInstImport", "r s"},
	12:  {"OpExtInst", "t r i l i*"},
	14:  {"OpMemoryModel", "l l"},
	15:  {"OpEntryPoint", "l f s f*"},
	16:  {"OpExecutionMode", "f l l*"},
	17:  {"OpCapability", "l"},
	19:  {"OpTypeVoid", "r"},
	20:  {"OpTypeBool", "r"},
	21:  {"OpTypeInt", "r l l"},
	22:  {"OpTypeFloat", "r l l?"},
	23:  {"OpTypeVector", "r i l"},
	24:  {"OpTypeMatrix", "r i l"},
	25:  {"OpTypeImage", "r i l l l l l l l?"},
	26:  {"OpTypeSampler", "r"},
	27:  {"OpTypeSampledImage", "r i"},
	28:  {"OpTypeArray", "r i i"},
	29:  {"OpTypeRuntimeArray", "r i"},
	30:  {"OpTypeStruct", "r i*"},
	32:  {"OpTypePointer", "r l i"},
	33:  {"OpTypeFunction", "r i i*"},
	39:  {"OpTypeForwardPointer", "f l"},
	41:  {"OpConstantTrue", "t r"},
	42:  {"OpConstantFalse", "t r"},
	43:  {"OpConstant", "t r l*"},
	44:  {"OpConstantComposite", "t r i*"},
	46:  {"OpConstantNull", "t r"},
	48:  {"OpSpecConstantTrue", "t r"},
	49:  {"OpSpecConstantFalse", "t r"},
	50:  {"OpSpecConstant", "t r l*"},
	51:  {"OpSpecConstantComposite", "t r i*"},
	52:  {"OpSpecConstantOp", "t r X"},
	54:  {"OpFunction", "t r l i"},
	55:  {"OpFunctionParameter", "t r"},
	56:  {"OpFunctionEnd", ""},
	57:  {"OpFunctionCall", "t r f i*"},
	59:  {"OpVariable", "t r l i?"},
	60:  {"OpImageTexelPointer", "t r i i i"},
	61:  {"OpLoad", "t r i a"},
	62:  {"OpStore", "i i a"},
	63:  {"OpCopyMemory", "i i a a"},
	65:  {"OpAccessChain", "t r i i*"},
	66:  {"OpInBoundsAccessChain", "t r i i*"},
	68:  {"OpArrayLength", "t r i l"},
	71:  {"OpDecorate", "f l D"},
	72:  {"OpMemberDecorate", "f l l D"},
	73:  {"OpDecorationGroup", "r"},
	74:  {"OpGroupDecorate", "f f*"},
	77:  {"OpVectorExtractDynamic", "t r i i"},
	78:  {"OpVectorInsertDynamic", "t r i i i"},
	79:  {"OpVectorShuffle", "t r i i l*"},
	80:  {"OpCompositeConstruct", "t r i*"},
	81:  {"OpCompositeExtract", "t r i l*"},
	82:  {"OpCompositeInsert", "t r i i l*"},
	83:  {"OpCopyObject", "t r i"},
	84:  {"OpTranspose", "t r i"},
	86:  {"OpSampledImage", "t r i i"},
	87:  {"OpImageSampleImplicitLod", "t r i i m"},
	88:  {"OpImageSampleExplicitLod", "t r i i m"},
	89:  {"OpImageSampleDrefImplicitLod", "t r i i i m"},
	90:  {"OpImageSampleDrefExplicitLod", "t r i i i m"},
	91:  {"OpImageSampleProjImplicitLod", "t r i i m"},
	92:  {"OpImageSampleProjExplicitLod", "t r i i m"},
	93:  {"OpImageSampleProjDrefImplicitLod", "t r i i i m"},
	94:  {"OpImageSampleProjDrefExplicitLod", "t r i i i m"},
	95:  {"OpImageFetch", "t r i i m"},
	96:  {"OpImageGather", "t r i i i m"},
	97:  {"OpImageDrefGather", "t r i i i m"},
	98:  {"OpImageRead", "t r i i m"},
	99:  {"OpImageWrite", "i i i m"},
	100: {"OpImage", "t r i"},
	103: {"OpImageQuerySizeLod", "t r i i"},
	104: {"OpImageQuerySize", "t r i"},
	105: {"OpImageQueryLod", "t r i i"},
	106: {"OpImageQueryLevels", "t r i"},
	107: {"OpImageQuerySamples", "t r i"},
	109: {"OpConvertFToU", "t r i"},
	110: {"OpConvertFToS", "t r i"},
	111: {"OpConvertSToF", "t r i"},
	112: {"OpConvertUToF", "t r i"},
	113: {"OpUConvert", "t r i"},
	114: {"OpSConvert", "t r i"},
	115: {"OpFConvert", "t r i"},
	116: {"OpQuantizeToF16", "t r i"},
	124: {"OpBitcast", "t r i"},
	126: {"OpSNegate", "t r i"},
	127: {"OpFNegate", "t r i"},
	128: {"OpIAdd", "t r i i"},
	129: {"OpFAdd", "t r i i"},
	130: {"OpISub", "t r i i"},
	131: {"OpFSub", "t r i i"},
	132: {"OpIMul", "t r i i"},
	133: {"OpFMul", "t r i i"},
	134: {"OpUDiv", "t r i i"},
	135: {"OpSDiv", "t r i i"},
	136: {"OpFDiv", "t r i i"},
	137: {"OpUMod", "t r i i"},
	138: {"OpSRem", "t r i i"},
	139: {"OpSMod", "t r i i"},
	140: {"OpFRem", "t r i i"},
	141: {"OpFMod", "t r i i"},
	142: {"OpVectorTimesScalar", "t r i i"},
	143: {"OpMatrixTimesScalar", "t r i i"},
	144: {"OpVectorTimesMatrix", "t r i i"},
	145: {"OpMatrixTimesVector", "t r i i"},
	146: {"OpMatrixTimesMatrix", "t r i i"},
	147: {"OpOuterProduct", "t r i i"},
	148: {"OpDot", "t r i i"},
	149: {"OpIAddCarry", "t r i i"},
	150: {"OpISubBorrow", "t r i i"},
	151: {"OpUMulExtended", "t r i i"},
	152: {"OpSMulExtended", "t r i i"},
	154: {"OpAny", "t r i"},
	155: {"OpAll", "t r i"},
	156: {"OpIsNan", "t r i"},
	157: {"OpIsInf", "t r i"},
	164: {"OpLogicalEqual", "t r i i"},
	165: {"OpLogicalNotEqual", "t r i i"},
	166: {"OpLogicalOr", "t r i i"},
	167: {"OpLogicalAnd", "t r i i"},
	168: {"OpLogicalNot", "t r i"},
	169: {"OpSelect", "t r i i i"},
	170: {"OpIEqual", "t r i i"},
	171: {"OpINotEqual", "t r i i"},
	172: {"OpUGreaterThan", "t r i i"},
	173: {"OpSGreaterThan", "t r i i"},
	174: {"OpUGreaterThanEqual", "t r i i"},
	175: {"OpSGreaterThanEqual", "t r i i"},
	176: {"OpULessThan", "t r i i"},
	177: {"OpSLessThan", "t r i i"},
	178: {"OpULessThanEqual", "t r i i"},
	179: {"OpSLessThanEqual", "t r i i"},
	180: {"OpFOrdEqual", "t r i i"},
	181: {"OpFUnordEqual", "t r i i"},
	182: {"OpFOrdNotEqual", "t r i i"},
	183: {"OpFUnordNotEqual", "t r i i"},
	184: {"OpFOrdLessThan", "t r i i"},
	185: {"OpFUnordLessThan", "t r i i"},
	186: {"OpFOrdGreaterThan", "t r i i"},
	187: {"OpFUnordGreaterThan", "t r i i"},
	188: {"OpFOrdLessThanEqual", "t r i i"},
	189: {"OpFUnordLessThanEqual", "t r i i"},
	190: {"OpFOrdGreaterThanEqual", "t r i i"},
	191: {"OpFUnordGreaterThanEqual", "t r i i"},
	194: {"OpShiftRightLogical", "t r i i"},
	195: {"OpShiftRightArithmetic", "t r i i"},
	196: {"OpShiftLeftLogical", "t r i i"},
	197: {"OpBitwiseOr", "t r i i"},
	198: {"OpBitwiseXor", "t r i i"},
	199: {"OpBitwiseAnd", "t r i i"},
	200: {"OpNot", "t r i"},
	201: {"OpBitFieldInsert", "t r i i i i"},
	202: {"OpBitFieldSExtract", "t r i i i"},
	203: {"OpBitFieldUExtract", "t r i i i"},
	204: {"OpBitReverse", "t r i"},
	205: {"OpBitCount", "t r i"},
	207: {"OpDPdx", "t r i"},
	208: {"OpDPdy", "t r i"},
	209: {"OpFwidth", "t r i"},
	210: {"OpDPdxFine", "t r i"},
	211: {"OpDPdyFine", "t r i"},
	212: {"OpFwidthFine", "t r i"},
	213: {"OpDPdxCoarse", "t r i"},
	214: {"OpDPdyCoarse", "t r i"},
	215: {"OpFwidthCoarse", "t r i"},
	224: {"OpControlBarrier", "i i i"},
	225: {"OpMemoryBarrier", "i i"},
	227: {"OpAtomicLoad", "t r i i i"},
	228: {"OpAtomicStore", "i i i i"},
	229: {"OpAtomicExchange", "t r i i i i"},
	230: {"OpAtomicCompareExchange", "t r i i i i i i"},
	232: {"OpAtomicIIncrement", "t r i i i"},
	233: {"OpAtomicIDecrement", "t r i i i"},
	234: {"OpAtomicIAdd", "t r i i i i"},
	235: {"OpAtomicISub", "t r i i i i"},
	236: {"OpAtomicSMin", "t r i i i i"},
	237: {"OpAtomicUMin", "t r i i i i"},
	238: {"OpAtomicSMax", "t r i i i i"},
	239: {"OpAtomicUMax", "t r i i i i"},
	240: {"OpAtomicAnd", "t r i i i i"},
	241: {"OpAtomicOr", "t r i i i i"},
	242: {"OpAtomicXor", "t r i i i i"},
	245: {"OpPhi", "t r P"},
	246: {"OpLoopMerge", "f f l l*"},
	247: {"OpSelectionMerge", "f l"},
	248: {"OpLabel", "r"},
	249: {"OpBranch", "f"},
	250: {"OpBranchConditional", "i f f l*"},
	251: {"OpSwitch", "i f W"},
	252: {"OpKill", ""},
	253: {"OpReturn", ""},
	254: {"OpReturnValue", "i"},
	255: {"OpUnreachable", ""},
	317: {"OpNoLine", ""},
	330: {"OpModuleProcessed", "s"},
	331: {"OpExecutionModeId", "f l f*"},
	332: {"OpDecorateId", "f l f*"},
	333: {"OpGroupNonUniformElect", "t r i"},
	334: {"OpGroupNonUniformAll", "t r i i"},
	335: {"OpGroupNonUniformAny", "t r i i"},
	336: {"OpGroupNonUniformAllEqual", "t r i i"},
	337: {"OpGroupNonUniformBroadcast", "t r i i i"},
	338: {"OpGroupNonUniformBroadcastFirst", "t r i i"},
	339: {"OpGroupNonUniformBallot", "t r i i"},
	340: {"OpGroupNonUniformInverseBallot", "t r i i"},
	341: {"OpGroupNonUniformBallotBitExtract", "t r i i i"},
	342: {"OpGroupNonUniformBallotBitCount", "t r i l i"},
	343: {"OpGroupNonUniformBallotFindLSB", "t r i i"},
	344: {"OpGroupNonUniformBallotFindMSB", "t r i i"},
	345: {"OpGroupNonUniformShuffle", "t r i i i"},
	346: {"OpGroupNonUniformShuffleXor", "t r i i i"},
	347: {"OpGroupNonUniformShuffleUp", "t r i i i"},
	348: {"OpGroupNonUniformShuffleDown", "t r i i i"},
	349: {"OpGroupNonUniformIAdd", "t r i l i i?"},
	350: {"OpGroupNonUniformFAdd", "t r i l i i?"},
	351: {"OpGroupNonUniformIMul", "t r i l i i?"},
	352: {"OpGroupNonUniformFMul", "t r i l i i?"},
	353: {"OpGroupNonUniformSMin", "t r i l i i?"},
	354: {"OpGroupNonUniformUMin", "t r i l i i?"},
	355: {"OpGroupNonUniformFMin", "t r i l i i?"},
	356: {"OpGroupNonUniformSMax", "t r i l i i?"},
	357: {"OpGroupNonUniformUMax", "t r i l i i?"},
	358: {"OpGroupNonUniformFMax", "t r i l i i?"},
	359: {"OpGroupNonUniformBitwiseAnd", "t r i l i i?"},
	360: {"OpGroupNonUniformBitwiseOr", "t r i l i i?"},
	361: {"OpGroupNonUniformBitwiseXor", "t r i l i i?"},
	362: {"OpGroupNonUniformLogicalAnd", "t r i l i i?"},
	363: {"OpGroupNonUniformLogicalOr", "t r i l i i?"},
	364: {"OpGroupNonUniformLogicalXor", "t r i l i i?"},
	365: {"OpGroupNonUniformQuadBroadcast", "t r i i i"},
	366: {"OpGroupNonUniformQuadSwap", "t r i i i"},
	400: {"OpCopyLogical", "t r i"},

	4416: {"OpTerminateInvocation", ""},
	4421: {"OpSubgroupBallotKHR", "t r i"},
	4422: {"OpSubgroupFirstInvocationKHR", "t r i"},
	4428: {"OpSubgroupAllKHR", "t r i"},
	4429: {"OpSubgroupAnyKHR", "t r i"},
	4430: {"OpSubgroupAllEqualKHR", "t r i"},
	4432: {"OpSubgroupReadInvocationKHR", "t r i i"},
	4450: {"OpSDot", "t r i i l?"},
	4451: {"OpUDot", "t r i i l?"},
	4452: {"OpSUDot", "t r i i l?"},
	4453: {"OpSDotAccSat", "t r i i i l?"},
	4454: {"OpUDotAccSat", "t r i i i l?"},
	4455: {"OpSUDotAccSat", "t r i i i l?"},
	4472: {"OpTypeRayQueryKHR", "r"},
	4473: {"OpRayQueryInitializeKHR", "i i i i i i i i"},
	4474: {"OpRayQueryTerminateKHR", "i"},
	4475: {"OpRayQueryGenerateIntersectionKHR", "i i"},
	4476: {"OpRayQueryConfirmIntersectionKHR", "i"},
	4477: {"OpRayQueryProceedKHR", "t r i"},
	4479: {"OpRayQueryGetIntersectionTypeKHR", "t r i i"},
	5341: {"OpTypeAccelerationStructureKHR", "r"},
	5380: {"OpDemoteToHelperInvocation", ""},
	5381: {"OpIsHelperInvocationEXT", "t r"},
	5614: {"OpAtomicFMinEXT", "t r i i i i"},
	5615: {"OpAtomicFMaxEXT", "t r i i i i"},
	5632: {"OpDecorateString", "f l s"},
	6016: {"OpRayQueryGetRayTMinKHR", "t r i"},
	6017: {"OpRayQueryGetRayFlagsKHR", "t r i"},
	6018: {"OpRayQueryGetIntersectionTKHR", "t r i i"},
	6019: {"OpRayQueryGetIntersectionInstanceCustomIndexKHR", "t r i i"},
	6020: {"OpRayQueryGetIntersectionInstanceIdKHR", "t r i i"},
	6021: {"OpRayQueryGetIntersectionInstanceShaderBindingTableRecordOffsetKHR", "t r i i"},
	6022: {"OpRayQueryGetIntersectionGeometryIndexKHR", "t r i i"},
	6023: {"OpRayQueryGetIntersectionPrimitiveIndexKHR", "t r i i"},
	6024: {"OpRayQueryGetIntersectionBarycentricsKHR", "t r i i"},
	6025: {"OpRayQueryGetIntersectionFrontFaceKHR", "t r i i"},
	6026: {"OpRayQueryGetIntersectionCandidateAABBOpaqueKHR", "t r i"},
	6027: {"OpRayQueryGetIntersectionObjectRayDirectionKHR", "t r i i"},
	6028: {"OpRayQueryGetIntersectionObjectRayOriginKHR", "t r i i"},
	6029: {"OpRayQueryGetWorldRayDirectionKHR", "t r i"},
	6030: {"OpRayQueryGetWorldRayOriginKHR", "t r i"},
	6031: {"OpRayQueryGetIntersectionObjectToWorldKHR", "t r i i"},
	6032: {"OpRayQueryGetIntersectionWorldToObjectKHR", "t r i i"},
	6035: {"OpAtomicFAddEXT", "t r i i i i"},
}

// OpName returns the mnemonic of an opcode known to the validator, or "Op#<n>".
func OpName(op uint16) string {
	if i, ok := opTable[op]; ok {
		return i.name
	}
	return fmt.Sprintf("Op#%d", op)
}

// stream is the decoded binary.
type stream struct {
	version  uint32 // (major<<8)|minor
	verWord  uint32
	gen      uint32
	bound    uint32
	schema   uint32
	insts    []*inst
	magicOK  bool
	trailing string // non-empty: stream-level problem description
	unknown  map[uint16]int
}

func readWords(b []byte) ([]uint32, bool, string) {
	if len(b)%4 != 0 {
		return nil, false, fmt.Sprintf("length %d is not a multiple of 4", len(b))
	}
	if len(b) < 20 {
		return nil, false, fmt.Sprintf("length %d shorter than the 5-word header", len(b))
	}
	n := len(b) / 4
	ws := make([]uint32, n)
	le := func(i int) uint32 {
		return uint32(b[4*i]) | uint32(b[4*i+1])<<8 | uint32(b[4*i+2])<<16 | uint32(b[4*i+3])<<24
	}
	be := func(i int) uint32 {
		return uint32(b[4*i+3]) | uint32(b[4*i+2])<<8 | uint32(b[4*i+1])<<16 | uint32(b[4*i])<<24
	}
	get := le
	ok := true
	switch {
	case le(0) == magic:
	case be(0) == magic:
		get = be
	default:
		ok = false
	}
	for i := range ws {
		ws[i] = get(i)
	}
	return ws, ok, ""
}

// decode splits the word stream into instructions and parses operand layouts.
func decode(b []byte) (*stream, string) {
	ws, magicOK, msg := readWords(b)
	if msg != "" {
		return nil, msg
	}
	s := &stream{magicOK: magicOK, unknown: map[uint16]int{}}
	s.verWord = ws[1]
	s.version = (ws[1] >> 16 & 0xff << 8) | (ws[1] >> 8 & 0xff)
	s.gen = ws[2]
	s.bound = ws[3]
	s.schema = ws[4]
	pos := 5
	for pos < len(ws) {
		wc := int(ws[pos] >> 16)
		op := uint16(ws[pos] & 0xffff)
		if wc == 0 {
			s.trailing = fmt.Sprintf("instruction %d at word %d has word count 0", len(s.insts), pos)
			break
		}
		if pos+wc > len(ws) {
			s.trailing = fmt.Sprintf("instruction %d (%s) at word %d: word count %d runs past the end of the stream (%d words)", len(s.insts), OpName(op), pos, wc, len(ws))
			break
		}
		in := &inst{op: op, words: ws[pos : pos+wc], idx: len(s.insts)}
		if info, ok := opTable[op]; ok {
			parseOperands(in, info.fmt)
		} else {
			s.unknown[op]++
		}
		s.insts = append(s.insts, in)
		pos += wc
	}
	return s, ""
}

// strWords returns the number of words occupied by the nul-terminated string starting at p, or
// -1 when no terminator is found.
func strWords(ws []uint32, p int) int {
	for i := p; i < len(ws); i++ {
		w := ws[i]
		if w&0xff == 0 || w>>8&0xff == 0 || w>>16&0xff == 0 || w>>24 == 0 {
			return i - p + 1
		}
	}
	return -1
}

func decodeString(ws []uint32, p int) string {
	var out []byte
	for i := p; i < len(ws); i++ {
		w := ws[i]
		for k := 0; k < 4; k++ {
			c := byte(w >> (8 * k))
			if c == 0 {
				return string(out)
			}
			out = append(out, c)
		}
	}
	return string(out)
}

// specConstOpLiteralTail tells, for an opcode embedded in OpSpecConstantOp, from which operand
// (0-based after the embedded opcode) the operands are literals.
func specConstOpLiteralTail(op uint32) int {
	switch op {
	case 79: // VectorShuffle
		return 2
	case 81: // CompositeExtract
		return 1
	case 82: // CompositeInsert
		return 2
	}
	return 1 << 30
}

func parseOperands(in *inst, f string) {
	ws := in.words
	p := 1
	use := func(fwd bool) bool {
		if p >= len(ws) {
			return false
		}
		in.uses = append(in.uses, idUse{pos: p, id: ws[p], fwd: fwd})
		p++
		return true
	}
	i := 0
	in.opnd = 1
	for i < len(f) {
		if f[i] == ' ' {
			i++
			continue
		}
		c := f[i]
		i++
		mod := byte(0)
		if i < len(f) && (f[i] == '*' || f[i] == '?') {
			mod = f[i]
			i++
		}
		switch c {
		case 't':
			if p >= len(ws) {
				in.bad = true
				return
			}
			in.typ = ws[p]
			in.uses = append(in.uses, idUse{pos: p, id: ws[p]})
			p++
			in.opnd = p
		case 'r':
			if p >= len(ws) {
				in.bad = true
				return
			}
			in.res = ws[p]
			p++
			in.opnd = p
		case 'i', 'f':
			switch mod {
			case '*':
				for p < len(ws) {
					use(c == 'f')
				}
			case '?':
				if p < len(ws) {
					use(c == 'f')
				}
			default:
				if !use(c == 'f') {
					in.bad = true
					return
				}
			}
		case 'l':
			switch mod {
			case '*':
				p = len(ws)
			case '?':
				if p < len(ws) {
					p++
				}
			default:
				if p >= len(ws) {
					in.bad = true
					return
				}
				p++
			}
		case 's':
			if mod == '?' && p >= len(ws) {
				continue
			}
			n := strWords(ws, p)
			if n < 0 {
				in.bad = true
				return
			}
			p += n
		case 'a':
			if p >= len(ws) {
				continue
			}
			mask := ws[p]
			p++
			if mask&0x2 != 0 { // Aligned
				if p >= len(ws) {
					in.bad = true
					return
				}
				p++
			}
			if mask&0x8 != 0 { // MakePointerAvailable
				if !use(false) {
					in.bad = true
					return
				}
			}
			if mask&0x10 != 0 { // MakePointerVisible
				if !use(false) {
					in.bad = true
					return
				}
			}
		case 'm':
			if p >= len(ws) {
				continue
			}
			p++ // mask
			for p < len(ws) {
				use(false)
			}
		case 'P':
			for p < len(ws) {
				if p+1 >= len(ws) {
					in.bad = true
					return
				}
				use(true)
				use(true)
			}
		case 'W':
			// resolved by the module builder once the selector width is known; assume 1 word here
			// and record nothing. The uses are filled in by fixSwitch.
			p = len(ws)
		case 'X':
			if p >= len(ws) {
				in.bad = true
				return
			}
			lit := specConstOpLiteralTail(ws[p])
			p++
			k := 0
			for p < len(ws) {
				if k >= lit {
					p++
				} else {
					use(false)
				}
				k++
			}
		case 'D':
			p = len(ws)
		}
	}
	if p != len(ws) {
		in.bad = true
	}
}
