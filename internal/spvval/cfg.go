package spvval

// Structured control flow (SPIR-V spec §2.11 "Structured Control Flow"). Only rules whose
// statement in the specification is unambiguous are implemented; see the package tests for the
// shapes each one rejects.

type header struct {
	b      *block
	loop   bool
	merge  int // block index, -1 unknown
	cont   int // loops only
	isSwch bool
}

func (c *ctx) checkStructuredCFG() {
	m := c.m
	if !m.caps[1] { // structured control flow is required with the Shader capability only
		return
	}
	for _, f := range m.fns {
		c.cfgFunction(f)
	}
}

func (c *ctx) cfgFunction(f *function) {
	m := c.m
	var hdrs []*header
	mergeOwner := map[int]*header{}
	for _, b := range f.blocks {
		// (a) merge instruction immediately precedes the terminator
		for i, in := range b.insts {
			if in.op != 246 && in.op != 247 {
				continue
			}
			okPos := b.term != nil && i == len(b.insts)-2
			if !c.check(RMergePlacement, okPos, in, "merge instruction is not the second-to-last instruction of block %%%d", b.label) {
				continue
			}
			if in.op == 246 {
				c.check(RMergePlacement, b.term.op == 249 || b.term.op == 250, in, "OpLoopMerge must be followed by OpBranch or OpBranchConditional, found %s", OpName(b.term.op))
			} else {
				c.check(RMergePlacement, b.term.op == 250 || b.term.op == 251, in, "OpSelectionMerge must be followed by OpBranchConditional or OpSwitch, found %s", OpName(b.term.op))
			}
		}
		if b.merge == nil || b.term == nil || b.merge != b.insts[len(b.insts)-2] {
			continue
		}
		h := &header{b: b, loop: b.merge.op == 246, merge: -1, cont: -1, isSwch: b.term.op == 251}
		if mi, ok := f.byLabel[b.merge.w(1)]; ok {
			h.merge = mi
		}
		if h.loop {
			if ci, ok := f.byLabel[b.merge.w(2)]; ok {
				h.cont = ci
			}
		}
		hdrs = append(hdrs, h)
		if h.merge >= 0 {
			// (c) a merge block belongs to one header only
			prev := mergeOwner[h.merge]
			if c.check(RMergeUnique, prev == nil, b.merge, "block %%%d is already the merge block of header %%%d", f.blocks[h.merge].label, lbl(prev)) {
				mergeOwner[h.merge] = h
			}
			c.check(RMergeUnique, h.merge != b.idx, b.merge, "a block cannot be its own merge block")
			if h.loop && h.cont >= 0 {
				c.check(RMergeUnique, h.merge != h.cont, b.merge, "merge block and continue target are the same block")
			}
		}
	}
	hdrOf := map[int]*header{}
	for _, h := range hdrs {
		hdrOf[h.b.idx] = h
	}
	for _, h := range hdrs {
		if !h.b.reach {
			continue
		}
		// (f) header strictly dominates its merge block unless the merge block is unreachable
		if h.merge >= 0 && f.blocks[h.merge].reach {
			c.check(RHeaderDomMerge, h.merge != h.b.idx && f.dominates(h.b.idx, h.merge), h.b.merge, "header %%%d does not dominate its merge block %%%d", h.b.label, f.blocks[h.merge].label)
		}
		// (b) loop header dominates the continue target unless unreachable
		if h.loop && h.cont >= 0 && f.blocks[h.cont].reach {
			c.check(RLoopDominates, f.dominates(h.b.idx, h.cont), h.b.merge, "loop header %%%d does not dominate its continue target %%%d", h.b.label, f.blocks[h.cont].label)
		}
	}
	// (d) back edges
	backCount := map[int]int{}
	for _, b := range f.blocks {
		if !b.reach {
			continue
		}
		for _, s := range b.succs {
			if !f.dominates(s, b.idx) {
				continue
			}
			h := hdrOf[s]
			if !c.check(RBackEdge, h != nil && h.loop, b.term, "back edge from block %%%d to %%%d, which is not a loop header (no OpLoopMerge)", b.label, f.blocks[s].label) {
				continue
			}
			backCount[s]++
			if h.cont >= 0 && f.blocks[h.cont].reach {
				c.check(RBackEdge, f.dominates(h.cont, b.idx), b.term, "back edge to loop header %%%d comes from block %%%d, which the loop's continue target %%%d does not dominate", h.b.label, b.label, f.blocks[h.cont].label)
			}
		}
	}
	for s, n := range backCount {
		c.check(RBackEdge, n == 1, f.blocks[s].merge, "loop header %%%d is the target of %d back edges, exactly one is required", f.blocks[s].label, n)
	}
	// (e) switches
	for _, b := range f.blocks {
		if b.term == nil || b.term.op != 251 || b.term.bad {
			continue
		}
		c.checkSwitch(f, b, hdrOf[b.idx])
	}
	// (g) nesting: every block reached from a header without passing through the header's merge
	// block or an exit target (merge / continue target) of a header that dominates it must be
	// dominated by the header; otherwise some block inside the construct branches to a block
	// outside of it that is not a permitted exit.
	for _, h := range hdrs {
		if !h.b.reach || h.merge < 0 {
			continue
		}
		stop := map[int]bool{h.merge: true}
		for _, o := range hdrs {
			if o == h || !o.b.reach || !f.dominates(o.b.idx, h.b.idx) {
				continue
			}
			if o.merge >= 0 {
				stop[o.merge] = true
			}
			if o.cont >= 0 {
				stop[o.cont] = true
			}
			stop[o.b.idx] = true // back edge of an enclosing loop (from its continue construct)
		}
		if h.loop {
			// the loop header's own back edge
			delete(stop, h.b.idx)
		}
		seen := map[int]bool{h.b.idx: true}
		work := []int{h.b.idx}
		for len(work) > 0 {
			x := work[len(work)-1]
			work = work[:len(work)-1]
			for _, s := range f.blocks[x].succs {
				if seen[s] || stop[s] {
					continue
				}
				seen[s] = true
				if !c.check(RNesting, f.dominates(h.b.idx, s), f.blocks[x].term, "block %%%d inside the construct headed by %%%d (merge %%%d) branches to %%%d, which is outside the construct and is not a merge block or continue target of an enclosing construct", f.blocks[x].label, h.b.label, f.blocks[h.merge].label, f.blocks[s].label) {
					continue
				}
				work = append(work, s)
			}
		}
	}
	_ = m
}

func lbl(h *header) uint32 {
	if h == nil {
		return 0
	}
	return h.b.label
}

func (c *ctx) checkSwitch(f *function, b *block, h *header) {
	m := c.m
	in := b.term
	if t, ok := c.val(RSwitch, in, in.arg(0), "Selector"); ok {
		c.check(RSwitch, m.types[t].kind == tkInt, in, "selector has type %s, must be an integer scalar", m.describe(t))
	}
	lits, targets := m.switchCases(in)
	seen := map[uint64]bool{}
	for _, l := range lits {
		v := uint64(l[0])
		if len(l) > 1 {
			v |= uint64(l[1]) << 32
		}
		c.check(RSwitch, !seen[v], in, "case literal %d appears more than once", v)
		seen[v] = true
	}
	if h == nil || h.loop || h.merge < 0 || !b.reach {
		return
	}
	// Case fall-through: a case construct may branch into at most one other case construct, and
	// each case construct may be entered from at most one other.
	all := append([]uint32{in.arg(1)}, targets...)
	tset := map[int]bool{}
	var order []int
	for _, t := range all {
		ti, ok := f.byLabel[t]
		if !ok || ti == h.merge || tset[ti] {
			continue
		}
		tset[ti] = true
		order = append(order, ti)
	}
	// exits that terminate a case construct
	stop := map[int]bool{h.merge: true}
	for _, ob := range f.blocks {
		if ob.merge == nil || !ob.reach || ob == b || !f.dominates(ob.idx, b.idx) {
			continue
		}
		if mi, ok := f.byLabel[ob.merge.w(1)]; ok {
			stop[mi] = true
		}
		if ob.merge.op == 246 {
			if ci, ok := f.byLabel[ob.merge.w(2)]; ok {
				stop[ci] = true
			}
		}
		stop[ob.idx] = true
	}
	fallsInto := map[int][]int{}
	for _, t := range order {
		if !f.blocks[t].reach {
			continue
		}
		seenB := map[int]bool{t: true}
		work := []int{t}
		outs := map[int]bool{}
		for len(work) > 0 {
			x := work[len(work)-1]
			work = work[:len(work)-1]
			for _, s := range f.blocks[x].succs {
				if seenB[s] || stop[s] {
					continue
				}
				if tset[s] {
					outs[s] = true
					continue
				}
				if !f.dominates(t, s) {
					continue
				}
				seenB[s] = true
				work = append(work, s)
			}
		}
		c.check(RSwitch, len(outs) <= 1, in, "case construct %%%d branches into %d other case constructs", f.blocks[t].label, len(outs))
		for o := range outs {
			fallsInto[o] = append(fallsInto[o], t)
		}
	}
	for o, from := range fallsInto {
		c.check(RSwitch, len(from) <= 1, in, "case construct %%%d is entered from %d other case constructs", f.blocks[o].label, len(from))
	}
}
