package spvval

import (
	"testing"

	"github.com/gogpu/naga"
	"github.com/gogpu/naga/spirv"
)

func compileSrc(t *testing.T, src string, o spirv.Options) []byte {
	t.Helper()
	ast, err := naga.Parse(src)
	if err != nil {
		t.Fatal(err)
	}
	m, err := naga.LowerWithSource(ast, src)
	if err != nil {
		t.Fatal(err)
	}
	b, err := naga.GenerateSPIRV(m, o)
	if err != nil {
		t.Fatal(err)
	}
	return b
}

// Minimal reproducers of the corpus findings triaged as genuine. They document the current
// behaviour of the compiler under test; they are logged, not asserted, so that a fixed compiler
// does not break this package's tests.
func TestReproducers(t *testing.T) {
	o := spirv.DefaultOptions()
	o.BoundsCheckPolicies.ImageLoad = spirv.BoundsCheckRestrict
	r := Validate(compileSrc(t, `@group(0) @binding(0) var t: texture_storage_2d<r32float, read>;
@compute @workgroup_size(1) fn main() { _ = textureLoad(t, vec2u(0)); }`, o))
	t.Logf("image-load Restrict: %v", r.Findings)

	r = Validate(compileSrc(t, `@group(0) @binding(0) var t: binding_array<texture_2d<f32>>;
@fragment fn main() -> @location(0) vec4f { return textureLoad(t[0], vec2i(0), 0); }`, spirv.DefaultOptions()))
	t.Logf("unsized binding_array: %v", r.Findings)

	r = Validate(compileSrc(t, `struct U { m: mat2x2<f32> }
@group(0) @binding(0) var<uniform> u: U;
@group(0) @binding(1) var<storage, read_write> o: vec2f;
@compute @workgroup_size(1) fn main() { o = u.m[1]; }`, spirv.DefaultOptions()))
	t.Logf("mat2x2 in uniform: %v", r.Findings)

	r = Validate(compileSrc(t, `@group(0) @binding(0) var<storage, read_write> o: vec3<f32>;
@group(0) @binding(1) var<storage, read> m: mat3x4<f32>;
@compute @workgroup_size(1) fn main() { o = transpose(m) * vec4<f32>(1.0); }`, spirv.DefaultOptions()))
	t.Logf("transpose(mat3x4) * vec4: %v", r.Findings)

	r = Validate(compileSrc(t, `@group(0) @binding(0) var<storage, read_write> m: mat3x3<f32>;
@compute @workgroup_size(1) fn main() { m = m * determinant(m); }`, spirv.DefaultOptions()))
	t.Logf("mat * determinant(mat): %v", r.Findings)

	r = Validate(compileSrc(t, `var<private> g: array<i32, 4>;
@group(0) @binding(0) var<storage, read_write> o: i32;
fn f(p: ptr<private, array<i32, 4>>, i: i32) -> i32 { return (*p)[i]; }
@compute @workgroup_size(1) fn main() { o = f(&g, o); }`, spirv.DefaultOptions()))
	t.Logf("index through ptr<private> parameter: %v", r.Findings)

	r = Validate(compileSrc(t, `fn f(a: i32) -> i32 { var i = 0; loop { i++; if (i > a) { return i; } } }
@group(0) @binding(0) var<storage, read_write> o: i32;
@compute @workgroup_size(1) fn main() { o = f(o); }`, spirv.DefaultOptions()))
	t.Logf("value-returning function ending in an infinite loop: %v", r.Findings)
}
