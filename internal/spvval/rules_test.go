package spvval

import "testing"

const v13 = 0x00010300
const v14 = 0x00010400
const v10 = 0x00010000

func TestStreamAndHeader(t *testing.T) {
	b := newBase(v13).bytes()
	expectRule(t, b[:len(b)-3], RStream)                                        // not a multiple of 4
	expectRule(t, b[:12], RStream)                                              // shorter than a header
	expectRule(t, toBytes(append(newBase(v13).words(), 3<<16|128, 1)), RStream) // last instruction truncated
	expectRule(t, []byte{}, RStream)
	bad := append([]byte{}, b...)
	bad[0] = 0x04
	expectRule(t, bad, RHeader)
	m := newBase(v13)
	m.version = 0x00010700
	expectRule(t, m.bytes(), RHeader)
	m = newBase(v13)
	m.version = 0x01010300
	expectRule(t, m.bytes(), RHeader)
	ws := newBase(v13).words()
	ws[4] = 1
	expectRule(t, toBytes(ws), RHeader)
	// zero word count
	ws = append(newBase(v13).words(), 0)
	expectRule(t, toBytes(ws), RStream)
	// id bound off by one
	m = newBase(v13)
	m.boundOverride = m.next
	expectRule(t, m.bytes(), RIDBound)
	// big-endian stream is accepted
	le := newBase(v13).bytes()
	be := make([]byte, len(le))
	for i := 0; i < len(le); i += 4 {
		be[i], be[i+1], be[i+2], be[i+3] = le[i+3], le[i+2], le[i+1], le[i]
	}
	expectClean(t, be)
	// operand layout: OpTypeInt with a missing word
	m = newBase(v13)
	m.types = append(m.types, enc(21, m.id(), 32))
	expectRule(t, m.bytes(), ROperandLayout)
	// garbage never panics
	for i := 0; i < len(le); i += 7 {
		g := append([]byte{}, le...)
		g[i] ^= 0xff
		Validate(g)
	}
}

func TestLayoutOrder(t *testing.T) {
	m := newBase(v13)
	m.mem = append(m.mem, enc(17, 0)) // capability after memory model
	expectRule(t, m.bytes(), RLayoutOrder)
	m = newBase(v13)
	m.types = append(m.types, enc(71, m.S, decBufferBlock)) // decoration in the types section
	expectRule(t, m.bytes(), RLayoutOrder)
	m = newBase(v13)
	m.mem = nil
	expectRule(t, m.bytes(), RMemoryModel)
	m = newBase(v13)
	m.types = append(m.types, enc(253)) // OpReturn at module scope
	expectRule(t, m.bytes(), RLayoutOrder)
	// type declared inside a function
	m = newBase(v13)
	m.insertBody(enc(21, m.id(), 16, 0))
	expectRule(t, m.bytes(), RFunctionLayout)
	// missing OpFunctionEnd
	m = newBase(v13)
	m.fn = m.fn[:len(m.fn)-1]
	expectRule(t, m.bytes(), RFunctionLayout)
	// instruction after the terminator, outside any block
	m = newBase(v13)
	m.replaceTail(enc(253), enc(61, m.v3u, m.id(), m.gid), enc(56))
	expectRule(t, m.bytes(), RBlockLabel)
	// no entry point
	m = newBase(v13)
	m.eps, m.modes = nil, nil
	expectRule(t, m.bytes(), REntryPresent)
}

func TestIDs(t *testing.T) {
	m := newBase(v13)
	m.types = append(m.types, enc(21, m.u32, 32, 0)) // same result id again
	expectRule(t, m.bytes(), RDefinedOnce)
	m = newBase(v13)
	ghost := m.id()
	m.insertBody(enc(62, ghost, m.c0))
	expectRule(t, m.bytes(), RDefined)
	// module scope: constant uses a type declared later
	m = newBase(v13)
	t64, k := m.id(), m.id()
	m.caps = append(m.caps, enc(17, capInt64))
	m.types = append(m.types, enc(43, t64, k, 1, 0), enc(21, t64, 64, 0))
	expectRule(t, m.bytes(), RGlobalOrder)
}

func TestTypeUnique(t *testing.T) {
	m := newBase(v13)
	m.types = append(m.types, enc(21, m.id(), 32, 0)) // second u32
	expectOnly(t, m.bytes(), RTypeUnique)
	m = newBase(v13)
	m.types = append(m.types, enc(23, m.id(), m.f32, 4))
	expectOnly(t, m.bytes(), RTypeUnique)
	m = newBase(v13)
	m.types = append(m.types, enc(33, m.id(), m.void))
	expectOnly(t, m.bytes(), RTypeUnique)
	m = newBase(v13)
	m.types = append(m.types, enc(32, m.id(), scStorageBuffer, m.u32))
	expectOnly(t, m.bytes(), RTypeUniquePtr)
	// duplicate struct / array types are fine
	m = newBase(v13)
	m.types = append(m.types, enc(30, m.id(), m.u32, m.u32), enc(30, m.id(), m.u32, m.u32), enc(28, m.id(), m.u32, m.c2), enc(28, m.id(), m.u32, m.c2))
	expectClean(t, m.bytes())
}

// diamond builds: entry: selmerge M; brcond c A B;  A: <a...>; br M;  B: br M;  M: <m...> return
func diamond(m *base, aIns, mIns [][]uint32) (lA, lB, lM uint32) {
	lA, lB, lM = m.id(), m.id(), m.id()
	cnd := m.id()
	tail := [][]uint32{
		enc(170, m.boolT, cnd, m.c0, m.c1),
		enc(247, lM, 0),
		enc(250, cnd, lA, lB),
		enc(248, lA),
	}
	tail = append(tail, aIns...)
	tail = append(tail, enc(249, lM), enc(248, lB), enc(249, lM), enc(248, lM))
	tail = append(tail, mIns...)
	tail = append(tail, enc(253), enc(56))
	m.replaceTail(tail...)
	return
}

func TestDominance(t *testing.T) {
	// use before def in the same block
	m := newBase(v13)
	x, y := m.id(), m.id()
	m.insertBody(enc(128, m.u32, y, x, m.c1), enc(128, m.u32, x, m.c0, m.c1))
	expectOnly(t, m.bytes(), RDomUse)
	// def in one arm, use in the merge block
	m = newBase(v13)
	x, y = m.id(), m.id()
	diamond(m, [][]uint32{enc(128, m.u32, x, m.c0, m.c1)}, [][]uint32{enc(128, m.u32, y, x, m.c1)})
	expectOnly(t, m.bytes(), RDomUse)
	// the same through OpPhi is fine when the parent is the defining arm
	m = newBase(v13)
	x, y = m.id(), m.id()
	// ids of the diamond labels are allocated inside diamond(): predict them
	pA, pB := m.next+1, m.next+2
	lA, lB, lM := diamond(m, [][]uint32{enc(128, m.u32, x, m.c0, m.c1)}, [][]uint32{enc(245, m.u32, y, x, pA, m.c1, pB)})
	if lA != pA || lB != pB {
		t.Fatal("label prediction")
	}
	_ = lM
	expectClean(t, m.bytes())
	// phi value that does not dominate its parent
	m = newBase(v13)
	x, y = m.id(), m.id()
	pA, pB = m.next+1, m.next+2
	diamond(m, [][]uint32{enc(128, m.u32, x, m.c0, m.c1)}, [][]uint32{enc(245, m.u32, y, m.c1, pA, x, pB)})
	expectOnly(t, m.bytes(), RDomUse)
	// phi parent that is not a predecessor
	m = newBase(v13)
	y = m.id()
	pA, pB = m.next+1, m.next+2
	diamond(m, nil, [][]uint32{enc(245, m.u32, y, m.c0, pA, m.c1, m.entryLabel)})
	expectRule(t, m.bytes(), RPhiParents)
	// phi with the wrong value type
	m = newBase(v13)
	y = m.id()
	pA, pB = m.next+1, m.next+2
	diamond(m, nil, [][]uint32{enc(245, m.i32, y, m.c0, pA, m.c1, pB)})
	expectOnly(t, m.bytes(), RPhi)
	// phi after a non-phi instruction
	m = newBase(v13)
	x, y = m.id(), m.id()
	pA, pB = m.next+1, m.next+2
	diamond(m, nil, [][]uint32{enc(128, m.u32, x, m.c0, m.c1), enc(245, m.u32, y, m.c0, pA, m.c1, pB)})
	expectOnly(t, m.bytes(), RPhiPlacement)
	// a value defined in another function
	m = newBase(v13)
	f2, l2, z := m.id(), m.id(), m.id()
	fnBody := m.fn
	m.fn = append([][]uint32{enc(54, m.void, f2, 0, m.fnVoid), enc(248, l2), enc(128, m.u32, z, m.c0, m.c1), enc(253), enc(56)}, fnBody...)
	m.insertBody()
	m.fn = append(m.fn[:7], append([][]uint32{enc(128, m.u32, m.id(), z, m.c1)}, m.fn[7:]...)...)
	expectOnly(t, m.bytes(), RDomUse)
}

func TestBlocks(t *testing.T) {
	// block without terminator
	m := newBase(v13)
	l2 := m.id()
	m.replaceTail(enc(248, l2), enc(253), enc(56))
	expectRule(t, m.bytes(), RBlockTerm)
	// branch to the entry block
	m = newBase(v13)
	m.replaceTail(enc(249, m.entryLabel), enc(56))
	expectRule(t, m.bytes(), REntryBlock)
	// branch to something that is not a label
	m = newBase(v13)
	m.replaceTail(enc(249, m.c0), enc(56))
	expectRule(t, m.bytes(), RBranchTarget)
	// OpVariable in the second block
	m = newBase(v13)
	l2 = m.id()
	m.replaceTail(enc(249, l2), enc(248, l2), enc(59, m.ptrFnU, m.id(), scFunction), enc(253), enc(56))
	expectOnly(t, m.bytes(), RVarPlacement)
	// OpVariable after another instruction in the first block
	m = newBase(v13)
	m.replaceTail(enc(59, m.ptrFnU, m.id(), scFunction), enc(253), enc(56))
	expectOnly(t, m.bytes(), RVarPlacement)
	// first in the entry block is fine
	m = newBase(v13)
	m.insertBody(enc(59, m.ptrFnU, m.id(), scFunction))
	expectClean(t, m.bytes())
	// Function-class variable at module scope
	m = newBase(v13)
	m.types = append(m.types, enc(59, m.ptrFnU, m.id(), scFunction))
	expectRule(t, m.bytes(), RVarPlacement)
	// block order: a block placed before its dominator
	m = newBase(v13)
	l2, l3 := m.id(), m.id()
	m.replaceTail(enc(249, l3), enc(248, l2), enc(253), enc(248, l3), enc(249, l2), enc(56))
	expectOnly(t, m.bytes(), RBlockOrder)
}

func TestStructuredCFG(t *testing.T) {
	// loop: entry -> H; H: loopmerge M C; br B; B: brcond c M C; C: br H; M: return
	loop := func(m *base, hIns func(h, b, c, mm uint32) [][]uint32) {
		h, b, c, mm, cnd := m.id(), m.id(), m.id(), m.id(), m.id()
		tail := [][]uint32{enc(249, h), enc(248, h)}
		tail = append(tail, hIns(h, b, c, mm)...)
		tail = append(tail,
			enc(248, b), enc(170, m.boolT, cnd, m.c0, m.c1), enc(250, cnd, mm, c),
			enc(248, c), enc(249, h),
			enc(248, mm), enc(253), enc(56))
		m.replaceTail(tail...)
	}
	m := newBase(v13)
	loop(m, func(h, b, c, mm uint32) [][]uint32 { return [][]uint32{enc(246, mm, c, 0), enc(249, b)} })
	expectClean(t, m.bytes())
	// OpLoopMerge not immediately before the terminator
	m = newBase(v13)
	loop(m, func(h, b, c, mm uint32) [][]uint32 {
		return [][]uint32{enc(246, mm, c, 0), enc(128, m.u32, m.id(), m.c0, m.c1), enc(249, b)}
	})
	expectRule(t, m.bytes(), RMergePlacement)
	// back edge to a block without OpLoopMerge
	m = newBase(v13)
	loop(m, func(h, b, c, mm uint32) [][]uint32 { return [][]uint32{enc(249, b)} })
	expectRule(t, m.bytes(), RBackEdge)
	// OpSelectionMerge followed by OpBranch
	m = newBase(v13)
	l2 := m.id()
	m.replaceTail(enc(247, l2, 0), enc(249, l2), enc(248, l2), enc(253), enc(56))
	expectOnly(t, m.bytes(), RMergePlacement)

	// two headers sharing a merge block
	m = newBase(v13)
	a, b, c, d, mm, c1, c2 := m.id(), m.id(), m.id(), m.id(), m.id(), m.id(), m.id()
	m.replaceTail(
		enc(170, m.boolT, c1, m.c0, m.c1), enc(247, mm, 0), enc(250, c1, a, b),
		enc(248, a), enc(170, m.boolT, c2, m.c0, m.c1), enc(247, mm, 0), enc(250, c2, c, d),
		enc(248, c), enc(249, mm),
		enc(248, d), enc(249, mm),
		enc(248, b), enc(249, mm),
		enc(248, mm), enc(253), enc(56))
	expectRule(t, m.bytes(), RMergeUnique)

	// header does not dominate its merge block: E: brcond(no merge) A M ; A: selmerge M; brcond X Y; X,Y -> M
	m = newBase(v13)
	var x, y uint32
	a, x, y, mm, c1, c2 = m.id(), m.id(), m.id(), m.id(), m.id(), m.id()
	outer := m.id()
	m.replaceTail(
		enc(170, m.boolT, c1, m.c0, m.c1), enc(247, outer, 0), enc(250, c1, a, mm),
		enc(248, a), enc(170, m.boolT, c2, m.c0, m.c1), enc(247, mm, 0), enc(250, c2, x, y),
		enc(248, x), enc(249, mm),
		enc(248, y), enc(249, mm),
		enc(248, mm), enc(249, outer),
		enc(248, outer), enc(253), enc(56))
	expectRule(t, m.bytes(), RHeaderDomMerge)

	// nesting: inner selection arm jumps to an unrelated block of the outer construct
	// E: selmerge OM; brcond A B;  A: selmerge IM; brcond X Y; X: br B (illegal); Y: br IM; IM: br OM; B: br OM; OM: ret
	m = newBase(v13)
	a, b, x, y = m.id(), m.id(), m.id(), m.id()
	im, om := m.id(), m.id()
	c1, c2 = m.id(), m.id()
	m.replaceTail(
		enc(170, m.boolT, c1, m.c0, m.c1), enc(247, om, 0), enc(250, c1, a, b),
		enc(248, a), enc(170, m.boolT, c2, m.c0, m.c1), enc(247, im, 0), enc(250, c2, x, y),
		enc(248, x), enc(249, b),
		enc(248, y), enc(249, im),
		enc(248, im), enc(249, om),
		enc(248, b), enc(249, om),
		enc(248, om), enc(253), enc(56))
	expectOnly(t, m.bytes(), RNesting)

	// switch: duplicate literal, non-integer selector
	m = newBase(v13)
	a, b, mm = m.id(), m.id(), m.id()
	m.replaceTail(
		enc(247, mm, 0), enc(251, m.c0, mm, 1, a, 1, b),
		enc(248, a), enc(249, mm), enc(248, b), enc(249, mm), enc(248, mm), enc(253), enc(56))
	expectOnly(t, m.bytes(), RSwitch)
	m = newBase(v13)
	a, mm = m.id(), m.id()
	fc := m.id()
	m.types = append(m.types, enc(43, m.f32, fc, 0))
	m.replaceTail(
		enc(247, mm, 0), enc(251, fc, mm, 1, a),
		enc(248, a), enc(249, mm), enc(248, mm), enc(253), enc(56))
	expectOnly(t, m.bytes(), RSwitch)
	// legal switch with break inside a nested if
	m = newBase(v13)
	a, b, x, im, mm, c1 = m.id(), m.id(), m.id(), m.id(), m.id(), m.id()
	m.replaceTail(
		enc(247, mm, 0), enc(251, m.c0, mm, 1, a, 2, b),
		enc(248, a), enc(170, m.boolT, c1, m.c0, m.c1), enc(247, im, 0), enc(250, c1, x, im),
		enc(248, x), enc(249, mm),
		enc(248, im), enc(249, mm),
		enc(248, b), enc(249, mm), enc(248, mm), enc(253), enc(56))
	expectClean(t, m.bytes())
	// continue target not dominating the back-edge block
	m = newBase(v13)
	h, bb, cc, mm2, cnd := m.id(), m.id(), m.id(), m.id(), m.id()
	m.replaceTail(enc(249, h),
		enc(248, h), enc(246, mm2, cc, 0), enc(249, bb),
		enc(248, bb), enc(170, m.boolT, cnd, m.c0, m.c1), enc(250, cnd, h, cc), // body branches straight back to the header
		enc(248, cc), enc(249, mm2),
		enc(248, mm2), enc(253), enc(56))
	expectRule(t, m.bytes(), RBackEdge)
}

func TestTyping(t *testing.T) {
	type tc struct {
		name string
		rule string
		mk   func(m *base)
	}
	cases := []tc{
		{"store wrong type", RStore, func(m *base) {
			ac := m.id()
			m.insertBody(enc(65, m.ptrU, ac, m.buf, m.c0), enc(62, ac, m.gid))
		}},
		{"store float into u32", RStore, func(m *base) {
			ac, fc := m.id(), m.id()
			m.types = append(m.types, enc(43, m.f32, fc, 0))
			m.insertBody(enc(65, m.ptrU, ac, m.buf, m.c0), enc(62, ac, fc))
		}},
		{"store to Input", RStore, func(m *base) {
			g := m.id()
			m.insertBody(enc(61, m.v3u, g, m.gid), enc(62, m.gid, g))
		}},
		{"load wrong type", RLoad, func(m *base) { m.insertBody(enc(61, m.u32, m.id(), m.gid)) }},
		{"access chain struct index out of range", RAccessChain, func(m *base) { m.insertBody(enc(65, m.ptrU, m.id(), m.buf, m.c2)) }},
		{"access chain wrong result pointee", RAccessChain, func(m *base) { m.insertBody(enc(65, m.ptrU, m.id(), m.buf, m.c1)) }},
		{"access chain storage class", RAccessChain, func(m *base) { m.insertBody(enc(65, m.ptrFnU, m.id(), m.buf, m.c0)) }},
		{"access chain dynamic struct index", RAccessChain, func(m *base) {
			g, e := m.id(), m.id()
			m.insertBody(enc(61, m.v3u, g, m.gid), enc(81, m.u32, e, g, 0), enc(65, m.ptrU, m.id(), m.buf, e))
		}},
		{"iadd float operand", RArith, func(m *base) {
			fc := m.id()
			m.types = append(m.types, enc(43, m.f32, fc, 0))
			m.insertBody(enc(128, m.u32, m.id(), m.c0, fc))
		}},
		{"fadd int result", RArith, func(m *base) { m.insertBody(enc(129, m.u32, m.id(), m.c0, m.c1)) }},
		{"udiv signed result", RArith, func(m *base) { m.insertBody(enc(134, m.i32, m.id(), m.c0, m.c1)) }},
		{"iadd vector/scalar mix", RArith, func(m *base) {
			g := m.id()
			m.insertBody(enc(61, m.v3u, g, m.gid), enc(128, m.v3u, m.id(), g, m.c1))
		}},
		{"compare non-bool result", RCompare, func(m *base) { m.insertBody(enc(170, m.u32, m.id(), m.c0, m.c1)) }},
		{"compare count mismatch", RCompare, func(m *base) {
			g := m.id()
			m.insertBody(enc(61, m.v3u, g, m.gid), enc(170, m.boolT, m.id(), g, g))
		}},
		{"logical on ints", RLogical, func(m *base) { m.insertBody(enc(167, m.boolT, m.id(), m.c0, m.c1)) }},
		{"convert wrong kind", RConvert, func(m *base) {
			fc := m.id()
			m.types = append(m.types, enc(43, m.f32, fc, 0))
			m.insertBody(enc(111, m.f32, m.id(), fc))
		}},
		{"convertFtoS of int", RConvert, func(m *base) { m.insertBody(enc(110, m.i32, m.id(), m.c0)) }},
		{"uconvert same width", RConvert, func(m *base) { m.insertBody(enc(113, m.u32, m.id(), m.c0)) }},
		{"bitcast width", RBitcast, func(m *base) {
			g := m.id()
			m.insertBody(enc(61, m.v3u, g, m.gid), enc(124, m.v2f, m.id(), g))
		}},
		{"select vector result scalar cond pre-1.4", RSelect, func(m *base) {
			g, c := m.id(), m.id()
			m.insertBody(enc(61, m.v3u, g, m.gid), enc(170, m.boolT, c, m.c0, m.c1), enc(169, m.v3u, m.id(), c, g, g))
		}},
		{"select object type", RSelect, func(m *base) {
			c := m.id()
			m.insertBody(enc(170, m.boolT, c, m.c0, m.c1), enc(169, m.i32, m.id(), c, m.c0, m.c1))
		}},
		{"construct count", RConstruct, func(m *base) { m.insertBody(enc(80, m.v3u, m.id(), m.c0, m.c1)) }},
		{"construct component type", RConstruct, func(m *base) {
			fc := m.id()
			m.types = append(m.types, enc(43, m.f32, fc, 0))
			m.insertBody(enc(80, m.v3u, m.id(), m.c0, m.c1, fc))
		}},
		{"extract out of range", RExtract, func(m *base) {
			g := m.id()
			m.insertBody(enc(61, m.v3u, g, m.gid), enc(81, m.u32, m.id(), g, 3))
		}},
		{"extract result type", RExtract, func(m *base) {
			g := m.id()
			m.insertBody(enc(61, m.v3u, g, m.gid), enc(81, m.i32, m.id(), g, 0))
		}},
		{"insert object type", RInsert, func(m *base) {
			g, fc := m.id(), m.id()
			m.types = append(m.types, enc(43, m.f32, fc, 0))
			m.insertBody(enc(61, m.v3u, g, m.gid), enc(82, m.v3u, m.id(), fc, g, 0))
		}},
		{"shuffle literal out of range", RShuffle, func(m *base) {
			g := m.id()
			m.insertBody(enc(61, m.v3u, g, m.gid), enc(79, m.v3u, m.id(), g, g, 0, 1, 6))
		}},
		{"extract dynamic index float", RVecDynamic, func(m *base) {
			g, fc := m.id(), m.id()
			m.types = append(m.types, enc(43, m.f32, fc, 0))
			m.insertBody(enc(61, m.v3u, g, m.gid), enc(77, m.u32, m.id(), g, fc))
		}},
		{"return value in void fn", RReturn, func(m *base) { m.replaceTail(enc(254, m.c0), enc(56)) }},
		{"extinst operand count", RExtInst, func(m *base) {
			fc := m.id()
			m.types = append(m.types, enc(43, m.f32, fc, 0))
			m.insertBody(enc(12, m.f32, m.id(), m.glsl, 26, fc))
		}},
		{"extinst float op on int", RExtInst, func(m *base) { m.insertBody(enc(12, m.u32, m.id(), m.glsl, 13, m.c0)) }},
		{"extinst int op on float", RExtInst, func(m *base) {
			fc := m.id()
			m.types = append(m.types, enc(43, m.f32, fc, 0))
			m.insertBody(enc(12, m.f32, m.id(), m.glsl, 39, fc, fc))
		}},
		{"extinst unknown set", RExtInst, func(m *base) { m.insertBody(enc(12, m.u32, m.id(), m.c0, 13, m.c0)) }},
		{"dot result", RDot, func(m *base) {
			g := m.id()
			m.insertBody(enc(61, m.v3u, g, m.gid), enc(148, m.u32, m.id(), g, g))
		}},
		{"atomic scope not constant", RAtomic, func(m *base) {
			ac, g, e := m.id(), m.id(), m.id()
			m.insertBody(enc(61, m.v3u, g, m.gid), enc(81, m.u32, e, g, 0), enc(65, m.ptrU, ac, m.buf, m.c0), enc(234, m.u32, m.id(), ac, e, m.c0, m.c1))
		}},
		{"atomic value type", RAtomic, func(m *base) {
			ac, ic := m.id(), m.id()
			m.types = append(m.types, enc(43, m.i32, ic, 0))
			m.insertBody(enc(65, m.ptrU, ac, m.buf, m.c0), enc(234, m.u32, m.id(), ac, m.c1, m.c0, ic))
		}},
		{"atomic on Function storage", RAtomic, func(m *base) {
			v := m.id()
			m.insertBody(enc(59, m.ptrFnU, v, scFunction), enc(234, m.u32, m.id(), v, m.c1, m.c0, m.c1))
		}},
		{"barrier operand not constant", RBarrier, func(m *base) {
			g, e := m.id(), m.id()
			m.insertBody(enc(61, m.v3u, g, m.gid), enc(81, m.u32, e, g, 0), enc(224, e, m.c2, m.c0))
		}},
		{"array length member", RArrayLength, func(m *base) { m.insertBody(enc(68, m.u32, m.id(), m.buf, 0)) }},
		{"constant composite count", RConstant, func(m *base) { m.types = append(m.types, enc(44, m.v3u, m.id(), m.c0, m.c1)) }},
		{"constant composite type", RConstant, func(m *base) { m.types = append(m.types, enc(44, m.v2f, m.id(), m.c0, m.c1)) }},
		{"constant bool type", RConstant, func(m *base) { m.types = append(m.types, enc(41, m.u32, m.id())) }},
		{"constant null of void", RConstant, func(m *base) { m.types = append(m.types, enc(46, m.void, m.id())) }},
		{"variable storage class mismatch", RVariable, func(m *base) { m.insertBody(enc(59, m.ptrU, m.id(), scFunction)) }},
		{"variable initializer type", RVariable, func(m *base) {
			fc := m.id()
			m.types = append(m.types, enc(43, m.f32, fc, 0))
			m.insertBody(enc(59, m.ptrFnU, m.id(), scFunction, fc))
		}},
		{"result type not a type", RResultType, func(m *base) { m.insertBody(enc(128, m.c0, m.id(), m.c0, m.c1)) }},
		{"branch condition not bool", RBranchCond, func(m *base) {
			a, mm := m.id(), m.id()
			m.replaceTail(enc(247, mm, 0), enc(250, m.c0, a, mm), enc(248, a), enc(249, mm), enc(248, mm), enc(253), enc(56))
		}},
		{"matrix times vector shape", RMatrix, func(m *base) {
			mat, mv, vv, pm, pv := m.id(), m.id(), m.id(), m.id(), m.id()
			m.types = append(m.types, enc(24, mat, m.v4f, 2), enc(32, pm, scPrivate, mat), enc(59, pm, mv, scPrivate), enc(32, pv, scPrivate, m.v4f), enc(59, pv, vv, scPrivate))
			lm, lv := m.id(), m.id()
			m.insertBody(enc(61, mat, lm, mv), enc(61, m.v4f, lv, vv), enc(145, m.v4f, m.id(), lm, lv))
			if m.version >= v14 {
				m.eps[0] = append(m.eps[0], mv, vv)
				m.eps[0][0] += 2 << 16
			}
		}},
		{"vector component count 5", RTypeDecl, func(m *base) { m.types = append(m.types, enc(23, m.id(), m.f32, 5)) }},
		{"matrix of ints", RTypeDecl, func(m *base) { m.types = append(m.types, enc(24, m.id(), m.v3u, 2)) }},
		{"array length zero", RTypeDecl, func(m *base) { m.types = append(m.types, enc(28, m.id(), m.u32, m.c0)) }},
	}
	for _, c := range cases {
		m := newBase(v13)
		c.mk(m)
		r := Validate(m.bytes())
		if rulesOf(r)[c.rule] == 0 {
			t.Errorf("%s: rule %q did not fire; findings: %v", c.name, c.rule, r.Findings)
		}
	}
	// positive: select with scalar condition and vector result is fine at 1.4
	m := newBase(v14)
	g, c := m.id(), m.id()
	m.insertBody(enc(61, m.v3u, g, m.gid), enc(170, m.boolT, c, m.c0, m.c1), enc(169, m.v3u, m.id(), c, g, g))
	expectClean(t, m.bytes())
}

func TestFunctionCalls(t *testing.T) {
	mk := func(argT func(m *base) uint32, retT func(m *base) uint32, callRet func(m *base) uint32) *base {
		m := newBase(v13)
		ft, f2, p, l2, r := m.id(), m.id(), m.id(), m.id(), m.id()
		m.types = append(m.types, enc(33, ft, m.u32, m.u32))
		helper := [][]uint32{enc(54, m.u32, f2, 0, ft), enc(55, m.u32, p), enc(248, l2), enc(128, m.u32, r, p, m.c1), enc(254, retT(m)), enc(56)}
		_ = r
		m.fn = append(helper, m.fn...)
		m.bodyStart += len(helper)
		m.insertBody(enc(57, callRet(m), m.id(), f2, argT(m)))
		return m
	}
	ok := mk(func(m *base) uint32 { return m.c0 }, func(m *base) uint32 { return m.c1 }, func(m *base) uint32 { return m.u32 })
	expectClean(t, ok.bytes())
	bad := mk(func(m *base) uint32 { return m.gid }, func(m *base) uint32 { return m.c1 }, func(m *base) uint32 { return m.u32 })
	expectRule(t, bad.bytes(), RCall)
	bad = mk(func(m *base) uint32 { return m.c0 }, func(m *base) uint32 { return m.c1 }, func(m *base) uint32 { return m.i32 })
	expectOnly(t, bad.bytes(), RCall)
	// returning a value of the wrong type
	m := newBase(v13)
	ft, f2, l2, fc := m.id(), m.id(), m.id(), m.id()
	m.types = append(m.types, enc(33, ft, m.u32), enc(43, m.f32, fc, 0))
	m.fn = append([][]uint32{enc(54, m.u32, f2, 0, ft), enc(248, l2), enc(254, fc), enc(56)}, m.fn...)
	expectOnly(t, m.bytes(), RReturn)
	// OpReturn in a non-void function
	m = newBase(v13)
	ft, f2, l2 = m.id(), m.id(), m.id()
	m.types = append(m.types, enc(33, ft, m.u32))
	m.fn = append([][]uint32{enc(54, m.u32, f2, 0, ft), enc(248, l2), enc(253), enc(56)}, m.fn...)
	expectOnly(t, m.bytes(), RReturn)
	// parameter count differs from the function type
	m = newBase(v13)
	ft, f2, l2 = m.id(), m.id(), m.id()
	m.types = append(m.types, enc(33, ft, m.void, m.u32))
	m.fn = append([][]uint32{enc(54, m.void, f2, 0, ft), enc(248, l2), enc(253), enc(56)}, m.fn...)
	expectOnly(t, m.bytes(), RFunctionType)
	// calling the entry point
	m = newBase(v13)
	f2, l2 = m.id(), m.id()
	m.fn = append(m.fn, enc(54, m.void, f2, 0, m.fnVoid), enc(248, l2), enc(57, m.void, m.id(), m.main), enc(253), enc(56))
	expectRule(t, m.bytes(), REntryFn)
}

func TestEntryPoints(t *testing.T) {
	// missing LocalSize
	m := newBase(v13)
	m.modes = nil
	expectOnly(t, m.bytes(), RExecMode)
	// interface list at 1.4 lacks the storage buffer
	m = newBase(v14)
	m.eps[0] = enc(15, cat([]uint32{5, m.main}, str("main"), []uint32{m.gid})...)
	expectOnly(t, m.bytes(), RIfaceComplete)
	// interface list lacks the Input builtin at 1.3
	m = newBase(v13)
	m.eps[0] = enc(15, cat([]uint32{5, m.main}, str("main"))...)
	expectOnly(t, m.bytes(), RIfaceComplete)
	// storage buffer listed before 1.4
	m = newBase(v13)
	m.eps[0] = enc(15, cat([]uint32{5, m.main}, str("main"), []uint32{m.gid, m.buf})...)
	expectOnly(t, m.bytes(), RIfaceClass)
	// duplicates at 1.4
	m = newBase(v14)
	m.eps[0] = enc(15, cat([]uint32{5, m.main}, str("main"), []uint32{m.gid, m.buf, m.gid})...)
	expectOnly(t, m.bytes(), RIfaceUnique)
	// entry point function with a parameter / non-void
	m = newBase(v13)
	m.eps[0] = enc(15, cat([]uint32{5, m.c0}, str("main"), []uint32{m.gid})...)
	expectRule(t, m.bytes(), REntryFn)
	// two entry points with the same name and model
	m = newBase(v13)
	m.eps = append(m.eps, m.eps[0])
	expectRule(t, m.bytes(), REntryUnique)
	// Fragment without an origin mode; LocalSize on a fragment shader
	m = newBase(v13)
	m.eps[0] = enc(15, cat([]uint32{4, m.main}, str("main"), []uint32{m.gid})...)
	expectRule(t, m.bytes(), RExecMode)
	// variable referenced only through a called function
	m = newBase(v14)
	f2, l2 := m.id(), m.id()
	pv, v := m.id(), m.id()
	m.types = append(m.types, enc(32, pv, scPrivate, m.u32), enc(59, pv, v, scPrivate))
	m.fn = append([][]uint32{enc(54, m.void, f2, 0, m.fnVoid), enc(248, l2), enc(62, v, m.c0), enc(253), enc(56)}, m.fn...)
	m.bodyStart += 5
	m.insertBody(enc(57, m.void, m.id(), f2))
	expectOnly(t, m.bytes(), RIfaceComplete)
}

func TestDecorations(t *testing.T) {
	drop := func(m *base, match func(in []uint32) bool) {
		var out [][]uint32
		for _, a := range m.annos {
			if !match(a) {
				out = append(out, a)
			}
		}
		m.annos = out
	}
	isDeco := func(target, dec uint32) func([]uint32) bool {
		return func(in []uint32) bool { return in[0]&0xffff == 71 && in[1] == target && in[2] == dec }
	}
	isMemberDeco := func(target, member, dec uint32) func([]uint32) bool {
		return func(in []uint32) bool {
			return in[0]&0xffff == 72 && in[1] == target && in[2] == member && in[3] == dec
		}
	}
	m := newBase(v13)
	drop(m, isDeco(m.rtarr, decArrayStride))
	expectOnly(t, m.bytes(), RArrayStride)
	m = newBase(v13)
	drop(m, isMemberDeco(m.S, 1, decOffset))
	expectOnly(t, m.bytes(), RMemberOffset)
	m = newBase(v13)
	drop(m, isDeco(m.S, decBlock))
	expectRule(t, m.bytes(), RBlockDeco)
	m = newBase(v13)
	drop(m, isDeco(m.buf, decBinding))
	expectOnly(t, m.bytes(), RDescriptor)
	m = newBase(v13)
	m.annos = append(m.annos, enc(71, m.buf, decBinding, 3))
	expectOnly(t, m.bytes(), RDecoUnique)
	// overlap: member 1 at offset 2
	m = newBase(v13)
	drop(m, isMemberDeco(m.S, 1, decOffset))
	m.annos = append(m.annos, enc(72, m.S, 1, decOffset, 2))
	expectRule(t, m.bytes(), RLayoutOverlap)
	// misaligned: member 1 at offset 6
	m = newBase(v13)
	drop(m, isMemberDeco(m.S, 1, decOffset))
	m.annos = append(m.annos, enc(72, m.S, 1, decOffset, 6))
	expectOnly(t, m.bytes(), RLayoutAlign)
	// array stride smaller than the element
	m = newBase(v13)
	drop(m, isDeco(m.rtarr, decArrayStride))
	m.annos = append(m.annos, enc(71, m.rtarr, decArrayStride, 2))
	expectRule(t, m.bytes(), RLayoutOverlap)
	// run-time array not last
	m = newBase(v13)
	s2 := m.id()
	m.annos = append(m.annos, enc(71, s2, decBlock))
	m.types = append(m.types, enc(30, s2, m.rtarr, m.u32))
	expectRule(t, m.bytes(), RRuntimeArray)
	// matrix member without MatrixStride / majorness; nested array without stride in a uniform block
	m = newBase(v13)
	mat, arr, s3, ps3, v3 := m.id(), m.id(), m.id(), m.id(), m.id()
	m.annos = append(m.annos, enc(71, s3, decBlock), enc(72, s3, 0, decOffset, 0), enc(72, s3, 1, decOffset, 64),
		enc(71, v3, decDescriptorSet, 0), enc(71, v3, decBinding, 1))
	m.types = append(m.types, enc(24, mat, m.v4f, 4), enc(28, arr, m.v4f, m.c2), enc(30, s3, mat, arr), enc(32, ps3, scUniform, s3), enc(59, ps3, v3, scUniform))
	r := rulesOf(Validate(m.bytes()))
	if r[RMatrixStride] != 2 || r[RArrayStride] != 1 {
		t.Fatalf("matrix/array stride: %v", Validate(m.bytes()).Findings)
	}
	// the same, properly decorated, is clean; then break std140 with ArrayStride 8 on array<vec2<f32>>
	m.annos = append(m.annos, enc(72, s3, 0, decMatrixStride, 16), enc(72, s3, 0, decColMajor), enc(71, arr, decArrayStride, 16))
	expectClean(t, m.bytes())
	m = newBase(v13)
	arr, s3, ps3, v3 = m.id(), m.id(), m.id(), m.id()
	m.annos = append(m.annos, enc(71, s3, decBlock), enc(72, s3, 0, decOffset, 0), enc(71, arr, decArrayStride, 8),
		enc(71, v3, decDescriptorSet, 0), enc(71, v3, decBinding, 1))
	m.types = append(m.types, enc(28, arr, m.v2f, m.c2), enc(30, s3, arr), enc(32, ps3, scUniform, s3), enc(59, ps3, v3, scUniform))
	expectOnly(t, m.bytes(), RLayoutAlign140)
	// BuiltIn with the wrong type / storage class
	m = newBase(v13)
	drop(m, isDeco(m.gid, decBuiltIn))
	m.annos = append(m.annos, enc(71, m.gid, decBuiltIn, 29)) // LocalInvocationIndex on a uvec3
	expectOnly(t, m.bytes(), RBuiltinType)
	// Input variable without Location / BuiltIn
	m = newBase(v13)
	drop(m, isDeco(m.gid, decBuiltIn))
	expectOnly(t, m.bytes(), RIOLocation)
	// decoration target: Block on a non-struct, member index out of range, Offset via OpDecorate
	m = newBase(v13)
	m.annos = append(m.annos, enc(71, m.u32, decBlock))
	expectRule(t, m.bytes(), RDecoTarget)
	m = newBase(v13)
	m.annos = append(m.annos, enc(72, m.S, 7, decOffset, 64))
	expectRule(t, m.bytes(), RDecoTarget)
	// integer fragment input without Flat
	m = newBase(v13)
	inV, pIn := m.id(), m.id()
	m.eps[0] = enc(15, cat([]uint32{4, m.main}, str("main"), []uint32{inV})...)
	m.modes = [][]uint32{enc(16, m.main, 7)}
	m.annos = append(m.annos, enc(71, inV, decLocation, 0))
	m.types = append(m.types, enc(32, pIn, scInput, m.u32), enc(59, pIn, inV, scInput))
	m.fn = [][]uint32{enc(54, m.void, m.main, 0, m.fnVoid), enc(248, m.entryLabel), enc(61, m.u32, m.id(), inV), enc(253), enc(56)}
	expectOnly(t, m.bytes(), RFlat)
	m.annos = append(m.annos, enc(71, inV, decFlat))
	expectClean(t, m.bytes())
}

func TestCapabilities(t *testing.T) {
	m := newBase(v13)
	m.types = append(m.types, enc(22, m.id(), 16)) // f16 without Float16
	expectOnly(t, m.bytes(), RCapability)
	m = newBase(v13)
	m.types = append(m.types, enc(21, m.id(), 64, 1))
	expectOnly(t, m.bytes(), RCapability)
	m = newBase(v13)
	m.caps = nil
	expectRule(t, m.bytes(), RCapability) // no Shader
	// ImageQuery
	m = newBase(v13)
	img, pimg, vimg, v2u := m.id(), m.id(), m.id(), m.id()
	m.annos = append(m.annos, enc(71, vimg, decDescriptorSet, 0), enc(71, vimg, decBinding, 5))
	m.types = append(m.types, enc(25, img, m.f32, 1, 0, 0, 0, 1, 0), enc(32, pimg, scUniformConstant, img), enc(59, pimg, vimg, scUniformConstant), enc(23, v2u, m.u32, 2))
	li := m.id()
	m.insertBody(enc(61, img, li, vimg), enc(103, v2u, m.id(), li, m.c0))
	expectOnly(t, m.bytes(), RCapability)
	m.caps = append(m.caps, enc(17, capImageQuery))
	expectClean(t, m.bytes())
	// StorageBuffer storage class at 1.0 without the extension
	m = newBase(v10)
	m.exts = nil
	expectOnly(t, m.bytes(), RStorageBufferSC)
	// MultiView capability at 1.1 without SPV_KHR_multiview
	m = newBase(0x00010100)
	m.caps = append(m.caps, enc(17, capMultiView))
	expectOnly(t, m.bytes(), RExtension)
	m.exts = append(m.exts, enc(10, str("SPV_KHR_multiview")...))
	expectClean(t, m.bytes())
	// group non-uniform capability before 1.3; OpCopyLogical before 1.4
	m = newBase(0x00010100)
	m.caps = append(m.caps, enc(17, capGroupNonUniform))
	expectOnly(t, m.bytes(), RMinVersion)
	// 16-bit value in a storage buffer needs the storage capability even with Float16
	m = newBase(v13)
	h, s4, ps4, v4 := m.id(), m.id(), m.id(), m.id()
	m.caps = append(m.caps, enc(17, capFloat16))
	m.annos = append(m.annos, enc(71, s4, decBlock), enc(72, s4, 0, decOffset, 0), enc(71, v4, decDescriptorSet, 0), enc(71, v4, decBinding, 2))
	m.types = append(m.types, enc(22, h, 16), enc(30, s4, h), enc(32, ps4, scStorageBuffer, s4), enc(59, ps4, v4, scStorageBuffer))
	expectOnly(t, m.bytes(), RCapability)
	// unknown opcode is reported as unsupported, not as a finding
	m = newBase(v13)
	m.insertBody(enc(5000))
	r := Validate(m.bytes())
	if len(r.Unsupported) == 0 {
		t.Fatal("unknown opcode not reported as unsupported")
	}
}

func TestExtraRules(t *testing.T) {
	// helper taking ptr<function,u32>
	withPtrFn := func(m *base) (f2 uint32) {
		ft, p, l2 := m.id(), m.id(), m.id()
		f2 = m.id()
		m.types = append(m.types, enc(33, ft, m.void, m.ptrFnU))
		helper := [][]uint32{enc(54, m.void, f2, 0, ft), enc(55, m.ptrFnU, p), enc(248, l2), enc(62, p, m.c1), enc(253), enc(56)}
		m.fn = append(helper, m.fn...)
		m.bodyStart += len(helper)
		return f2
	}
	// passing a variable is fine; passing an access chain is not
	m := newBase(v13)
	f2 := withPtrFn(m)
	v := m.id()
	m.insertBody(enc(59, m.ptrFnU, v, scFunction), enc(57, m.void, m.id(), f2, v))
	expectClean(t, m.bytes())
	m = newBase(v13)
	f2 = withPtrFn(m)
	arr, parr, av, ac := m.id(), m.id(), m.id(), m.id()
	m.types = append(m.types, enc(28, arr, m.u32, m.c2), enc(32, parr, scFunction, arr))
	m.insertBody(enc(59, parr, av, scFunction), enc(65, m.ptrFnU, ac, av, m.c1), enc(57, m.void, m.id(), f2, ac))
	expectOnly(t, m.bytes(), RCallPtr)
	// OpSelect producing a pointer
	m = newBase(v14)
	v1, v2, cnd := m.id(), m.id(), m.id()
	m.insertBody(enc(59, m.ptrFnU, v1, scFunction), enc(59, m.ptrFnU, v2, scFunction), enc(170, m.boolT, cnd, m.c0, m.c1), enc(169, m.ptrFnU, m.id(), cnd, v1, v2))
	expectOnly(t, m.bytes(), RLogicalPtr)
	// OpLine whose file is not an OpString
	m = newBase(v13)
	m.insertBody(enc(8, m.c0, 1, 1))
	expectOnly(t, m.bytes(), RDebugString)
	// OpKill in a compute shader
	m = newBase(v13)
	m.replaceTail(enc(252), enc(56))
	expectOnly(t, m.bytes(), RExecModelLimit)
	// control barrier with Device execution scope; atomic load with Release semantics
	m = newBase(v13)
	c4, c264 := m.id(), m.id()
	m.types = append(m.types, enc(43, m.u32, c4, 4), enc(43, m.u32, c264, 264))
	m.insertBody(enc(224, m.c1, m.c2, c264))
	expectOnly(t, m.bytes(), RScope)
	m = newBase(v13)
	ac = m.id()
	c4 = m.id()
	m.types = append(m.types, enc(43, m.u32, c4, 4))
	m.insertBody(enc(65, m.ptrU, ac, m.buf, m.c0), enc(227, m.u32, m.id(), ac, m.c1, c4))
	expectOnly(t, m.bytes(), RScope)
	// self-recursive helper
	m = newBase(v13)
	fr, lr := m.id(), m.id()
	m.fn = append(m.fn, enc(54, m.void, fr, 0, m.fnVoid), enc(248, lr), enc(57, m.void, m.id(), fr), enc(253), enc(56))
	expectOnly(t, m.bytes(), RCallGraph)
	// diamond without OpSelectionMerge
	m = newBase(v13)
	a, b, mm, cnd2 := m.id(), m.id(), m.id(), m.id()
	m.replaceTail(enc(170, m.boolT, cnd2, m.c0, m.c1), enc(250, cnd2, a, b),
		enc(248, a), enc(249, mm), enc(248, b), enc(249, mm), enc(248, mm), enc(253), enc(56))
	expectOnly(t, m.bytes(), RSelStructured)
	// conditional break out of a loop without a merge is fine (covered by the loop in TestStructuredCFG)
	// two fragment outputs at the same location
	m = newBase(v13)
	o1, o2, pOut := m.id(), m.id(), m.id()
	m.eps[0] = enc(15, cat([]uint32{4, m.main}, str("main"), []uint32{o1, o2})...)
	m.modes = [][]uint32{enc(16, m.main, 7)}
	m.annos = append(m.annos, enc(71, o1, decLocation, 0), enc(71, o2, decLocation, 0))
	m.types = append(m.types, enc(32, pOut, scOutput, m.v4f), enc(59, pOut, o1, scOutput), enc(59, pOut, o2, scOutput))
	m.fn = [][]uint32{enc(54, m.void, m.main, 0, m.fnVoid), enc(248, m.entryLabel), enc(253), enc(56)}
	expectOnly(t, m.bytes(), RIOUnique)
	// Block nested in Block
	m = newBase(v13)
	s2, ps2, v2b := m.id(), m.id(), m.id()
	inner := m.id()
	m.annos = append(m.annos, enc(71, s2, decBlock), enc(71, inner, decBlock), enc(72, s2, 0, decOffset, 0), enc(72, inner, 0, decOffset, 0),
		enc(71, v2b, decDescriptorSet, 0), enc(71, v2b, decBinding, 4))
	m.types = append(m.types, enc(30, inner, m.u32), enc(30, s2, inner), enc(32, ps2, scStorageBuffer, s2), enc(59, ps2, v2b, scStorageBuffer))
	expectOnly(t, m.bytes(), RBlockDeco)
	// OpCopyMemory between different pointee types
	m = newBase(v13)
	pi, vi, vu := m.id(), m.id(), m.id()
	m.types = append(m.types, enc(32, pi, scFunction, m.i32))
	m.insertBody(enc(59, pi, vi, scFunction), enc(59, m.ptrFnU, vu, scFunction), enc(63, vi, vu))
	expectOnly(t, m.bytes(), RCopyMemory)
	// ConvertFToU with a signed result
	m = newBase(v13)
	fc := m.id()
	m.types = append(m.types, enc(43, m.f32, fc, 0))
	m.insertBody(enc(109, m.i32, m.id(), fc))
	expectOnly(t, m.bytes(), RConvert)
	// initialised StorageBuffer variable
	m = newBase(v13)
	s5, ps5, v5, k5 := m.id(), m.id(), m.id(), m.id()
	m.annos = append(m.annos, enc(71, s5, decBlock), enc(72, s5, 0, decOffset, 0), enc(71, v5, decDescriptorSet, 0), enc(71, v5, decBinding, 6))
	m.types = append(m.types, enc(30, s5, m.u32), enc(46, s5, k5), enc(32, ps5, scStorageBuffer, s5), enc(59, ps5, v5, scStorageBuffer, k5))
	expectOnly(t, m.bytes(), RVariable)
}
