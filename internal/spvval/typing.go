package spvval

// Per-opcode operand typing. Every rule is taken from the instruction's description in the
// SPIR-V specification (section 3.x "Instructions") or the GLSL.std.450 extended instruction
// set specification.

func (c *ctx) checkTyping() {
	m := c.m
	// module-scope constants and variables
	for _, in := range m.insts {
		if in.bad || in.fn != nil {
			continue
		}
		if hasResultType(in.op) && in.op != 54 {
			if !c.check(RResultType, m.types[in.typ] != nil, in, "result type operand %%%d is not a type", in.typ) {
				continue
			}
		}
		switch {
		case isConstOp(in.op):
			c.typeConstant(in)
		case in.op == 59:
			c.typeVariable(in, nil)
		case in.op == 1:
			t := m.types[in.typ]
			c.check(RConstant, t != nil && t.kind != tkVoid, in, "OpUndef of void / non-type")
		}
	}
	for _, f := range m.fns {
		c.typeFunction(f)
		for _, b := range f.blocks {
			for _, in := range b.insts {
				if in.bad {
					continue
				}
				if _, known := opTable[in.op]; !known {
					continue
				}
				if hasResultType(in.op) {
					if !c.check(RResultType, m.types[in.typ] != nil, in, "result type operand %%%d is not a type", in.typ) {
						continue
					}
				}
				c.typeInst(f, b, in)
			}
		}
	}
}

// val returns the type id of a value operand, reporting non-values under the given rule.
func (c *ctx) val(rule string, in *inst, id uint32, what string) (uint32, bool) {
	t, ok := c.m.valType[id]
	if ok {
		if d := c.m.defs[id]; d != nil && (d.op == 54 || isTypeOp(d.op)) {
			ok = false
		}
	}
	if !ok || c.m.types[t] == nil {
		if c.m.defs[id] != nil {
			c.check(rule, false, in, "%s %%%d is not a value (it is defined by %s)", what, id, OpName(c.m.defs[id].op))
		}
		return 0, false
	}
	return t, true
}

func (c *ctx) typeFunction(f *function) {
	m := c.m
	in := f.def
	if in.bad {
		return
	}
	ft := m.types[in.arg(1)]
	if !c.check(RFunctionType, ft != nil && ft.kind == tkFunction, in, "function type operand %%%d is not an OpTypeFunction", in.arg(1)) {
		return
	}
	c.check(RFunctionType, ft.ret == in.typ, in, "result type %s differs from the function type's return type %s", m.describe(in.typ), m.describe(ft.ret))
	if c.check(RFunctionType, len(f.params) == len(ft.params), in, "%d OpFunctionParameter instructions, function type has %d parameters", len(f.params), len(ft.params)) {
		for i, p := range f.params {
			c.check(RFunctionType, p.typ == ft.params[i], p, "parameter %d has type %s, function type says %s", i, m.describe(p.typ), m.describe(ft.params[i]))
		}
	}
	c.check(RFunctionType, in.arg(0)&^0xf == 0 || in.arg(0)&^0x1000f == 0, in, "unknown function control bits 0x%x", in.arg(0))
}

func (c *ctx) typeConstant(in *inst) {
	m := c.m
	t := m.types[in.typ]
	if t == nil {
		return
	}
	switch in.op {
	case 41, 42, 48, 49:
		c.check(RConstant, t.kind == tkBool, in, "result type %s is not bool", m.describe(in.typ))
	case 43, 50:
		if c.check(RConstant, t.kind == tkInt || t.kind == tkFloat, in, "result type %s is not a scalar integer or floating-point type", m.describe(in.typ)) {
			want := int((t.width + 31) / 32)
			c.check(RConstant, len(in.words)-3 == want, in, "%d literal words for a %d-bit type", len(in.words)-3, t.width)
			if t.width < 32 && len(in.words) == 4 {
				v := in.words[3]
				hi := v >> t.width
				okv := hi == 0
				if t.kind == tkInt && t.signed {
					// signed narrow values are sign-extended
					okv = hi == 0 && v>>(t.width-1) == 0 || hi == (1<<(32-t.width))-1 && v>>(t.width-1)&1 == 1
				}
				c.check(RConstant, okv, in, "high-order bits of a %d-bit literal are not a zero/sign extension (0x%08x)", t.width, v)
			}
		}
		c.combo(in, in.typ)
	case 44, 51:
		n := in.nargs()
		ids := in.words[in.opnd:]
		for _, id := range ids {
			d := m.defs[id]
			if d == nil {
				return
			}
			if !c.check(RConstant, isConstOp(d.op) || d.op == 1, in, "constituent %%%d is not a constant instruction or OpUndef", id) {
				return
			}
			if in.op == 44 {
				c.check(RConstant, d.op < 48 || d.op == 1, in, "constituent %%%d of OpConstantComposite is a specialization constant", id)
			}
		}
		c.combo(in, in.typ)
		switch t.kind {
		case tkVector:
			if c.check(RConstant, uint32(n) == t.count, in, "%d constituents for a %d-component vector", n, t.count) {
				for i, id := range ids {
					c.check(RConstant, m.valType[id] == t.elem, in, "constituent %d has type %s, component type is %s", i, m.describe(m.valType[id]), m.describe(t.elem))
				}
			}
		case tkMatrix:
			if c.check(RConstant, uint32(n) == t.count, in, "%d constituents for a %d-column matrix", n, t.count) {
				for i, id := range ids {
					c.check(RConstant, m.valType[id] == t.elem, in, "constituent %d has type %s, column type is %s", i, m.describe(m.valType[id]), m.describe(t.elem))
				}
			}
		case tkArray:
			if l, ok := m.arrayLen(t); ok {
				if !c.check(RConstant, uint64(n) == l, in, "%d constituents for an array of length %d", n, l) {
					return
				}
			}
			for i, id := range ids {
				c.check(RConstant, m.valType[id] == t.elem, in, "constituent %d has type %s, element type is %s", i, m.describe(m.valType[id]), m.describe(t.elem))
			}
		case tkStruct:
			if c.check(RConstant, n == len(t.members), in, "%d constituents for a struct of %d members", n, len(t.members)) {
				for i, id := range ids {
					c.check(RConstant, m.valType[id] == t.members[i], in, "constituent %d has type %s, member type is %s", i, m.describe(m.valType[id]), m.describe(t.members[i]))
				}
			}
		default:
			c.check(RConstant, false, in, "result type %s is not a composite type", m.describe(in.typ))
		}
	case 46:
		c.check(RConstant, c.nullable(in.typ, 0), in, "result type %s cannot have a null constant", m.describe(in.typ))
		c.combo(in, in.typ)
	}
}

func (c *ctx) nullable(tid uint32, depth int) bool {
	t := c.m.types[tid]
	if t == nil || depth > 64 {
		return false
	}
	switch t.kind {
	case tkBool, tkInt, tkFloat, tkPointer:
		return true
	case tkVector, tkMatrix, tkArray:
		return c.nullable(t.elem, depth+1)
	case tkStruct:
		for _, mem := range t.members {
			if !c.nullable(mem, depth+1) {
				return false
			}
		}
		return true
	}
	return false
}

func (c *ctx) typeVariable(in *inst, f *function) {
	m := c.m
	t := m.types[in.typ]
	if !c.check(RVariable, t != nil && t.kind == tkPointer, in, "result type %s is not a pointer type", m.describe(in.typ)) {
		return
	}
	c.check(RVariable, t.sc == in.arg(0), in, "storage class operand %d differs from the result pointer type's storage class %d", in.arg(0), t.sc)
	c.combo(in, in.typ)
	if in.nargs() >= 2 {
		// VUID-StandaloneSpirv-OpVariable-04651
		c.check(RVariable, t.sc == scOutput || t.sc == scPrivate || t.sc == scFunction || t.sc == scWorkgroup, in, "variable with an Initializer has storage class %d; only Output, Private, Function and Workgroup may be initialised", t.sc)
		init := in.arg(1)
		d := m.defs[init]
		if d == nil {
			return
		}
		isGlobalVar := d.op == 59 && m.defFn[init] == nil
		if c.check(RVariable, isConstOp(d.op) || isGlobalVar || d.op == 1, in, "initializer %%%d is not a constant instruction or a module-scope variable", init) {
			c.check(RVariable, m.valType[init] == t.elem, in, "initializer type %s differs from the pointee type %s", m.describe(m.valType[init]), m.describe(t.elem))
		}
	}
}

// walk follows literal or constant indices through a composite type. get returns the index value
// for position i and whether it is statically known.
func (c *ctx) walk(rule string, in *inst, tid uint32, n int, get func(i int) (uint64, bool), allowRuntime bool) (uint32, bool) {
	m := c.m
	for i := 0; i < n; i++ {
		t := m.types[tid]
		if t == nil {
			return 0, false
		}
		v, known := get(i)
		switch t.kind {
		case tkVector:
			if known && !c.check(rule, v < uint64(t.count), in, "index %d (position %d) out of range for %s", v, i, m.describe(tid)) {
				return 0, false
			}
			tid = t.elem
		case tkMatrix:
			if known && !c.check(rule, v < uint64(t.count), in, "index %d (position %d) out of range for %s", v, i, m.describe(tid)) {
				return 0, false
			}
			tid = t.elem
		case tkArray:
			if l, ok := m.arrayLen(t); ok && known && !allowRuntime {
				if !c.check(rule, v < l, in, "index %d (position %d) out of range for array of length %d", v, i, l) {
					return 0, false
				}
			}
			tid = t.elem
		case tkRuntimeArray:
			if !c.check(rule, allowRuntime, in, "run-time array indexed by a composite instruction") {
				return 0, false
			}
			tid = t.elem
		case tkStruct:
			if !c.check(rule, known, in, "struct index (position %d) is not an integer OpConstant", i) {
				return 0, false
			}
			if !c.check(rule, v < uint64(len(t.members)), in, "struct member index %d (position %d) out of range for %s with %d members", v, i, m.describe(tid), len(t.members)) {
				return 0, false
			}
			tid = t.members[v]
		default:
			c.check(rule, false, in, "index position %d reaches non-composite type %s", i, m.describe(tid))
			return 0, false
		}
	}
	return tid, true
}

func (c *ctx) typeInst(f *function, b *block, in *inst) {
	m := c.m
	rt := in.typ
	R := m.shapeOf(rt)
	argT := func(rule string, i int) (uint32, bool) {
		return c.val(rule, in, in.arg(i), "operand")
	}
	switch in.op {
	case 1: // OpUndef
		t := m.types[rt]
		c.check(RConstant, t != nil && t.kind != tkVoid, in, "OpUndef of void")

	case 59:
		c.typeVariable(in, f)

	case 127, 129, 131, 133, 136, 140, 141: // float arithmetic
		if !c.check(RArith, R.isFloat(), in, "result type %s is not a floating-point scalar or vector", m.describe(rt)) {
			return
		}
		for i := 0; i < in.nargs(); i++ {
			if t, ok := argT(RArith, i); ok {
				c.check(RArith, t == rt, in, "operand %d has type %s, must equal result type %s", i+1, m.describe(t), m.describe(rt))
				c.combo(in, t)
			}
		}

	case 126, 128, 130, 132, 135, 138, 139, 197, 198, 199, 200: // integer arithmetic / bitwise, signedness-agnostic
		if !c.check(RArith, R.isInt(), in, "result type %s is not an integer scalar or vector", m.describe(rt)) {
			return
		}
		for i := 0; i < in.nargs(); i++ {
			if t, ok := argT(RArith, i); ok {
				s := m.shapeOf(t)
				c.check(RArith, s.isInt() && s.n == R.n && s.width == R.width, in, "operand %d has type %s; must be an integer type with the component count and width of result type %s", i+1, m.describe(t), m.describe(rt))
				c.combo(in, rt, t)
			}
		}

	case 134, 137: // OpUDiv, OpUMod
		if !c.check(RArith, R.isInt() && !R.sign, in, "result type %s is not an unsigned integer scalar or vector", m.describe(rt)) {
			return
		}
		for i := 0; i < 2; i++ {
			if t, ok := argT(RArith, i); ok {
				c.check(RArith, t == rt, in, "operand %d has type %s, must equal result type %s", i+1, m.describe(t), m.describe(rt))
				c.combo(in, t)
			}
		}

	case 194, 195, 196: // shifts
		if !c.check(RArith, R.isInt(), in, "result type %s is not an integer scalar or vector", m.describe(rt)) {
			return
		}
		if t, ok := argT(RArith, 0); ok {
			s := m.shapeOf(t)
			c.check(RArith, s.isInt() && s.n == R.n && s.width == R.width, in, "Base has type %s; must be an integer type with the component count and width of result type %s", m.describe(t), m.describe(rt))
		}
		if t, ok := argT(RArith, 1); ok {
			s := m.shapeOf(t)
			c.check(RArith, s.isInt() && s.n == R.n, in, "Shift has type %s; must be an integer type with the component count of result type %s", m.describe(t), m.describe(rt))
			c.combo(in, rt, t)
		}

	case 201: // OpBitFieldInsert
		if !c.check(RBitOps, R.isInt(), in, "result type %s is not an integer scalar or vector", m.describe(rt)) {
			return
		}
		for i := 0; i < 2; i++ {
			if t, ok := argT(RBitOps, i); ok {
				c.check(RBitOps, t == rt, in, "operand %d has type %s, must equal result type %s", i+1, m.describe(t), m.describe(rt))
			}
		}
		for i := 2; i < 4; i++ {
			if t, ok := argT(RBitOps, i); ok {
				c.check(RBitOps, m.types[t].k() == tkInt, in, "Offset/Count operand %d has type %s, must be an integer scalar", i+1, m.describe(t))
			}
		}
		c.combo(in, rt)
	case 202, 203:
		if !c.check(RBitOps, R.isInt(), in, "result type %s is not an integer scalar or vector", m.describe(rt)) {
			return
		}
		if t, ok := argT(RBitOps, 0); ok {
			c.check(RBitOps, t == rt, in, "Base has type %s, must equal result type %s", m.describe(t), m.describe(rt))
		}
		for i := 1; i < 3; i++ {
			if t, ok := argT(RBitOps, i); ok {
				c.check(RBitOps, m.types[t].k() == tkInt, in, "Offset/Count operand %d has type %s, must be an integer scalar", i+1, m.describe(t))
			}
		}
		c.combo(in, rt)
	case 204: // OpBitReverse
		if !c.check(RBitOps, R.isInt(), in, "result type %s is not an integer scalar or vector", m.describe(rt)) {
			return
		}
		if t, ok := argT(RBitOps, 0); ok {
			c.check(RBitOps, t == rt, in, "Base has type %s, must equal result type %s", m.describe(t), m.describe(rt))
		}
		c.combo(in, rt)
	case 205: // OpBitCount
		if !c.check(RBitOps, R.isInt(), in, "result type %s is not an integer scalar or vector", m.describe(rt)) {
			return
		}
		if t, ok := argT(RBitOps, 0); ok {
			s := m.shapeOf(t)
			c.check(RBitOps, s.isInt() && s.n == R.n, in, "Base has type %s; must be an integer type with the component count of result type %s", m.describe(t), m.describe(rt))
			c.combo(in, rt, t)
		}

	case 170, 171, 172, 173, 174, 175, 176, 177, 178, 179: // integer comparison
		if !c.check(RCompare, R.isBool(), in, "result type %s is not a bool scalar or vector", m.describe(rt)) {
			return
		}
		t1, ok1 := argT(RCompare, 0)
		t2, ok2 := argT(RCompare, 1)
		if ok1 && ok2 {
			a, b2 := m.shapeOf(t1), m.shapeOf(t2)
			c.check(RCompare, a.isInt() && b2.isInt(), in, "operands have types %s and %s, must be integer scalars or vectors", m.describe(t1), m.describe(t2))
			c.check(RCompare, a.n == R.n && b2.n == R.n, in, "operand component counts (%d,%d) differ from result type %s", a.n, b2.n, m.describe(rt))
			c.check(RCompare, a.width == b2.width, in, "operand component widths differ (%s vs %s)", m.describe(t1), m.describe(t2))
			c.combo(in, t1, t2)
		}
	case 180, 181, 182, 183, 184, 185, 186, 187, 188, 189, 190, 191: // float comparison
		if !c.check(RCompare, R.isBool(), in, "result type %s is not a bool scalar or vector", m.describe(rt)) {
			return
		}
		t1, ok1 := argT(RCompare, 0)
		t2, ok2 := argT(RCompare, 1)
		if ok1 && ok2 {
			a := m.shapeOf(t1)
			c.check(RCompare, a.isFloat(), in, "operand 1 has type %s, must be a floating-point scalar or vector", m.describe(t1))
			c.check(RCompare, t1 == t2, in, "operand types differ (%s vs %s)", m.describe(t1), m.describe(t2))
			c.check(RCompare, a.n == R.n, in, "operand component count %d differs from result type %s", a.n, m.describe(rt))
			c.combo(in, t1)
		}
	case 156, 157: // OpIsNan, OpIsInf
		if !c.check(RCompare, R.isBool(), in, "result type %s is not a bool scalar or vector", m.describe(rt)) {
			return
		}
		if t, ok := argT(RCompare, 0); ok {
			a := m.shapeOf(t)
			c.check(RCompare, a.isFloat() && a.n == R.n, in, "operand has type %s; must be floating-point with the component count of %s", m.describe(t), m.describe(rt))
			c.combo(in, t)
		}

	case 164, 165, 166, 167, 168: // logical
		if !c.check(RLogical, R.isBool(), in, "result type %s is not a bool scalar or vector", m.describe(rt)) {
			return
		}
		for i := 0; i < in.nargs(); i++ {
			if t, ok := argT(RLogical, i); ok {
				c.check(RLogical, t == rt, in, "operand %d has type %s, must equal result type %s", i+1, m.describe(t), m.describe(rt))
			}
		}
		c.combo(in, rt)
	case 154, 155: // OpAny, OpAll
		c.check(RLogical, R.isBool() && R.n == 1, in, "result type %s is not a bool scalar", m.describe(rt))
		if t, ok := argT(RLogical, 0); ok {
			a := m.shapeOf(t)
			c.check(RLogical, a.isBool() && a.n > 1, in, "operand has type %s, must be a vector of bool", m.describe(t))
			c.combo(in, t)
		}

	case 169: // OpSelect
		tc, okc := argT(RSelect, 0)
		t1, ok1 := argT(RSelect, 1)
		t2, ok2 := argT(RSelect, 2)
		if !(okc && ok1 && ok2) {
			return
		}
		c.check(RSelect, t1 == rt && t2 == rt, in, "object types %s, %s must equal result type %s", m.describe(t1), m.describe(t2), m.describe(rt))
		cs := m.shapeOf(tc)
		if !c.check(RSelect, cs.isBool(), in, "condition has type %s, must be a bool scalar or vector", m.describe(tc)) {
			return
		}
		c.combo(in, rt, tc)
		rtt := m.types[rt]
		if c.ver < 0x0104 {
			okr := R.ok || rtt.kind == tkPointer
			c.check(RSelect, okr, in, "before version 1.4 the result type must be a scalar, vector or pointer; got %s", m.describe(rt))
			if R.ok {
				c.check(RSelect, cs.n == R.n, in, "before version 1.4 the condition must have the same number of components as the result type (%s vs %s)", m.describe(tc), m.describe(rt))
			} else {
				c.check(RSelect, cs.n == 1, in, "condition for a non-vector result must be a scalar bool")
			}
		} else {
			if cs.n > 1 {
				c.check(RSelect, R.ok && R.n == cs.n, in, "vector condition %s needs a vector result with the same number of components, got %s", m.describe(tc), m.describe(rt))
			}
		}

	case 109, 110: // OpConvertFToU / OpConvertFToS
		if !c.check(RConvert, R.isInt(), in, "result type %s is not an integer scalar or vector", m.describe(rt)) {
			return
		}
		if in.op == 109 {
			c.check(RConvert, !R.sign, in, "OpConvertFToU result type %s must have Signedness 0", m.describe(rt))
		}
		if t, ok := argT(RConvert, 0); ok {
			a := m.shapeOf(t)
			c.check(RConvert, a.isFloat() && a.n == R.n, in, "operand has type %s; must be floating-point with the component count of %s", m.describe(t), m.describe(rt))
			c.combo(in, rt, t)
		}
	case 111, 112: // OpConvertSToF / OpConvertUToF
		if !c.check(RConvert, R.isFloat(), in, "result type %s is not a floating-point scalar or vector", m.describe(rt)) {
			return
		}
		if t, ok := argT(RConvert, 0); ok {
			a := m.shapeOf(t)
			c.check(RConvert, a.isInt() && a.n == R.n, in, "operand has type %s; must be integer with the component count of %s", m.describe(t), m.describe(rt))
			c.combo(in, rt, t)
		}
	case 113, 114: // OpUConvert / OpSConvert
		if !c.check(RConvert, R.isInt(), in, "result type %s is not an integer scalar or vector", m.describe(rt)) {
			return
		}
		if t, ok := argT(RConvert, 0); ok {
			a := m.shapeOf(t)
			c.check(RConvert, a.isInt() && a.n == R.n, in, "operand has type %s; must be integer with the component count of %s", m.describe(t), m.describe(rt))
			c.check(RConvert, a.width != R.width, in, "operand width %d equals result width (the component width must differ)", a.width)
			c.combo(in, rt, t)
		}
	case 115: // OpFConvert
		if !c.check(RConvert, R.isFloat(), in, "result type %s is not a floating-point scalar or vector", m.describe(rt)) {
			return
		}
		if t, ok := argT(RConvert, 0); ok {
			a := m.shapeOf(t)
			c.check(RConvert, a.isFloat() && a.n == R.n, in, "operand has type %s; must be floating-point with the component count of %s", m.describe(t), m.describe(rt))
			c.check(RConvert, a.width != R.width, in, "operand width %d equals result width (the component width must differ)", a.width)
			c.combo(in, rt, t)
		}
	case 116: // OpQuantizeToF16
		c.check(RConvert, R.isFloat() && R.width == 32, in, "result type %s is not a 32-bit floating-point scalar or vector", m.describe(rt))
		if t, ok := argT(RConvert, 0); ok {
			c.check(RConvert, t == rt, in, "operand type %s must equal result type %s", m.describe(t), m.describe(rt))
		}
		c.combo(in, rt)
	case 124: // OpBitcast
		t, ok := argT(RBitcast, 0)
		if !ok {
			return
		}
		a := m.shapeOf(t)
		rp := m.types[rt].k() == tkPointer
		ap := m.types[t].k() == tkPointer
		numR := R.isInt() || R.isFloat()
		numA := a.isInt() || a.isFloat()
		c.check(RBitcast, rp || numR, in, "result type %s is not a pointer or numerical scalar/vector", m.describe(rt))
		c.check(RBitcast, ap || numA, in, "operand type %s is not a pointer or numerical scalar/vector", m.describe(t))
		if numR && numA {
			c.check(RBitcast, R.width*R.n == a.width*a.n, in, "total bit width differs: %s (%d bits) from %s (%d bits)", m.describe(rt), R.width*R.n, m.describe(t), a.width*a.n)
		}
		c.combo(in, rt, t)

	case 80: // OpCompositeConstruct
		c.typeConstruct(in)
	case 81: // OpCompositeExtract
		t, ok := argT(RExtract, 0)
		if !ok {
			return
		}
		n := in.nargs() - 1
		if !c.check(RExtract, n >= 1, in, "no indexes") {
			return
		}
		got, ok := c.walk(RExtract, in, t, n, func(i int) (uint64, bool) { return uint64(in.arg(1 + i)), true }, false)
		if ok {
			c.check(RExtract, got == rt, in, "indexes reach type %s, result type is %s", m.describe(got), m.describe(rt))
		}
		c.combo(in, t)
	case 82: // OpCompositeInsert
		to, ok1 := argT(RInsert, 0)
		tc, ok2 := argT(RInsert, 1)
		if !ok1 || !ok2 {
			return
		}
		c.check(RInsert, tc == rt, in, "composite type %s must equal result type %s", m.describe(tc), m.describe(rt))
		n := in.nargs() - 2
		if !c.check(RInsert, n >= 1, in, "no indexes") {
			return
		}
		got, ok := c.walk(RInsert, in, tc, n, func(i int) (uint64, bool) { return uint64(in.arg(2 + i)), true }, false)
		if ok {
			c.check(RInsert, got == to, in, "indexes reach type %s, object type is %s", m.describe(got), m.describe(to))
		}
		c.combo(in, tc)
	case 83: // OpCopyObject
		if t, ok := argT(RCopyObject, 0); ok {
			c.check(RCopyObject, t == rt, in, "operand type %s must equal result type %s", m.describe(t), m.describe(rt))
		}
	case 400: // OpCopyLogical
		if t, ok := argT(RCopyObject, 0); ok {
			c.check(RCopyObject, t != rt, in, "operand type must differ from the result type")
			c.check(RCopyObject, c.logicallyMatch(t, rt, 0), in, "operand type %s does not logically match result type %s", m.describe(t), m.describe(rt))
			c.combo(in, rt, t)
		}
	case 79: // OpVectorShuffle
		rtt := m.types[rt]
		if !c.check(RShuffle, rtt.kind == tkVector, in, "result type %s is not a vector", m.describe(rt)) {
			return
		}
		t1, ok1 := argT(RShuffle, 0)
		t2, ok2 := argT(RShuffle, 1)
		if !ok1 || !ok2 {
			return
		}
		v1, v2 := m.types[t1], m.types[t2]
		if !c.check(RShuffle, v1.kind == tkVector && v2.kind == tkVector, in, "operands have types %s, %s; both must be vectors", m.describe(t1), m.describe(t2)) {
			return
		}
		c.check(RShuffle, v1.elem == rtt.elem && v2.elem == rtt.elem, in, "component types of %s, %s differ from the result's %s", m.describe(t1), m.describe(t2), m.describe(rt))
		nlit := in.nargs() - 2
		c.check(RShuffle, uint32(nlit) == rtt.count, in, "%d component literals for result type %s", nlit, m.describe(rt))
		for i := 0; i < nlit; i++ {
			l := in.arg(2 + i)
			c.check(RShuffle, l == 0xFFFFFFFF || l < v1.count+v2.count, in, "component literal %d out of range (vectors have %d+%d components)", l, v1.count, v2.count)
		}
		c.combo(in, rt, t1, t2)
	case 77: // OpVectorExtractDynamic
		tv, ok1 := argT(RVecDynamic, 0)
		ti, ok2 := argT(RVecDynamic, 1)
		if !ok1 || !ok2 {
			return
		}
		v := m.types[tv]
		if c.check(RVecDynamic, v.kind == tkVector, in, "Vector operand has type %s", m.describe(tv)) {
			c.check(RVecDynamic, v.elem == rt, in, "result type %s is not the component type of %s", m.describe(rt), m.describe(tv))
		}
		c.check(RVecDynamic, m.types[ti].k() == tkInt, in, "Index has type %s, must be an integer scalar", m.describe(ti))
		c.combo(in, tv, ti)
	case 78: // OpVectorInsertDynamic
		tv, ok1 := argT(RVecDynamic, 0)
		tc, ok2 := argT(RVecDynamic, 1)
		ti, ok3 := argT(RVecDynamic, 2)
		if !ok1 || !ok2 || !ok3 {
			return
		}
		v := m.types[tv]
		if c.check(RVecDynamic, v.kind == tkVector && tv == rt, in, "Vector operand type %s must be a vector equal to result type %s", m.describe(tv), m.describe(rt)) {
			c.check(RVecDynamic, v.elem == tc, in, "Component has type %s, vector component type is %s", m.describe(tc), m.describe(v.elem))
		}
		c.check(RVecDynamic, m.types[ti].k() == tkInt, in, "Index has type %s, must be an integer scalar", m.describe(ti))
		c.combo(in, tv, ti)

	case 65, 66: // OpAccessChain / OpInBoundsAccessChain
		c.typeAccessChain(in)
	case 61: // OpLoad
		tp, ok := argT(RLoad, 0)
		if !ok {
			return
		}
		p := m.types[tp]
		if c.check(RLoad, p.kind == tkPointer, in, "Pointer operand has type %s", m.describe(tp)) {
			c.check(RLoad, p.elem == rt, in, "result type %s differs from the pointee type %s", m.describe(rt), m.describe(p.elem))
			c.check(RLoad, m.types[rt].k() != tkVoid, in, "load of void")
			c.combo(in, tp, rt)
		}
		c.checkMemAccess(RLoad, in, 1)
	case 62: // OpStore
		tp, ok1 := argT(RStore, 0)
		to, ok2 := argT(RStore, 1)
		if !ok1 || !ok2 {
			return
		}
		p := m.types[tp]
		if c.check(RStore, p.kind == tkPointer, in, "Pointer operand has type %s", m.describe(tp)) {
			c.check(RStore, p.elem == to, in, "object type %s differs from the pointee type %s", m.describe(to), m.describe(p.elem))
			// SPIR-V spec, universal validation rules: stores are not allowed to read-only
			// storage classes.
			c.check(RStore, p.sc != scInput && p.sc != scUniformConstant && p.sc != scPushConstant, in, "store through a pointer of read-only storage class %d", p.sc)
			c.combo(in, tp, to)
		}
		c.checkMemAccess(RStore, in, 2)
	case 63: // OpCopyMemory
		t1, ok1 := argT(RCopyMemory, 0)
		t2, ok2 := argT(RCopyMemory, 1)
		if !ok1 || !ok2 {
			return
		}
		p1, p2 := m.types[t1], m.types[t2]
		if c.check(RCopyMemory, p1.kind == tkPointer && p2.kind == tkPointer, in, "operands have types %s, %s; both must be pointers", m.describe(t1), m.describe(t2)) {
			c.check(RCopyMemory, p1.elem == p2.elem, in, "pointee types differ: %s vs %s", m.describe(p1.elem), m.describe(p2.elem))
			c.check(RCopyMemory, p1.sc != scInput && p1.sc != scUniformConstant && p1.sc != scPushConstant, in, "copy target in read-only storage class %d", p1.sc)
			c.combo(in, t1, t2)
		}
	case 68: // OpArrayLength
		c.check(RArrayLength, R.isInt() && R.n == 1 && R.width == 32 && !R.sign, in, "result type %s is not a 32-bit unsigned integer scalar", m.describe(rt))
		tp, ok := argT(RArrayLength, 0)
		if !ok {
			return
		}
		p := m.types[tp]
		if !c.check(RArrayLength, p.kind == tkPointer && m.types[p.elem] != nil && m.types[p.elem].k() == tkStruct, in, "Structure operand has type %s, must be a pointer to a struct", m.describe(tp)) {
			return
		}
		st := m.types[p.elem]
		idx := in.arg(1)
		if c.check(RArrayLength, len(st.members) > 0 && int(idx) == len(st.members)-1, in, "member literal %d is not the last member (%d) of %s", idx, len(st.members)-1, m.describe(p.elem)) {
			lt := m.types[st.members[idx]]
			c.check(RArrayLength, lt != nil && lt.kind == tkRuntimeArray, in, "last member of %s is not a run-time array", m.describe(p.elem))
		}
		c.combo(in, tp)

	case 57: // OpFunctionCall
		callee := m.fnByID[in.arg(0)]
		if !c.check(RCall, callee != nil, in, "callee %%%d is not an OpFunction", in.arg(0)) {
			return
		}
		ft := m.types[callee.def.arg(1)]
		if ft == nil || ft.kind != tkFunction {
			return
		}
		c.check(RCall, ft.ret == rt, in, "result type %s differs from the callee's return type %s", m.describe(rt), m.describe(ft.ret))
		n := in.nargs() - 1
		if c.check(RCall, n == len(ft.params), in, "%d arguments, callee takes %d parameters", n, len(ft.params)) {
			for i := 0; i < n; i++ {
				if t, ok := argT(RCall, 1+i); ok {
					c.check(RCall, t == ft.params[i], in, "argument %d has type %s, parameter type is %s", i, m.describe(t), m.describe(ft.params[i]))
				}
			}
		}
	case 253: // OpReturn
		c.check(RReturn, m.types[f.def.typ] != nil && m.types[f.def.typ].k() == tkVoid, in, "OpReturn in a function returning %s", m.describe(f.def.typ))
	case 254: // OpReturnValue
		if t, ok := argT(RReturn, 0); ok {
			c.check(RReturn, t == f.def.typ, in, "value type %s differs from the function's return type %s", m.describe(t), m.describe(f.def.typ))
		}
	case 245: // OpPhi
		c.typePhi(f, b, in)
	case 250: // OpBranchConditional
		if t, ok := argT(RBranchCond, 0); ok {
			c.check(RBranchCond, m.types[t].k() == tkBool, in, "condition has type %s, must be a bool scalar", m.describe(t))
		}
		n := in.nargs()
		c.check(RBranchCond, n == 3 || n == 5, in, "branch weights must be absent or exactly two (got %d operands)", n)

	case 12: // OpExtInst
		c.typeExtInst(in)

	case 142: // OpVectorTimesScalar
		rtt := m.types[rt]
		if !c.check(RMatrix, R.isFloat() && rtt.kind == tkVector, in, "result type %s is not a floating-point vector", m.describe(rt)) {
			return
		}
		tv, ok1 := argT(RMatrix, 0)
		ts, ok2 := argT(RMatrix, 1)
		if ok1 && ok2 {
			c.check(RMatrix, tv == rt, in, "Vector type %s must equal result type %s", m.describe(tv), m.describe(rt))
			c.check(RMatrix, ts == rtt.elem, in, "Scalar type %s must equal the component type of %s", m.describe(ts), m.describe(rt))
			c.combo(in, tv)
		}
	case 143: // OpMatrixTimesScalar
		rtt := m.types[rt]
		if !c.check(RMatrix, rtt.kind == tkMatrix, in, "result type %s is not a matrix", m.describe(rt)) {
			return
		}
		tm, ok1 := argT(RMatrix, 0)
		ts, ok2 := argT(RMatrix, 1)
		if ok1 && ok2 {
			c.check(RMatrix, tm == rt, in, "Matrix type %s must equal result type %s", m.describe(tm), m.describe(rt))
			col := m.types[rtt.elem]
			c.check(RMatrix, col != nil && ts == col.elem, in, "Scalar type %s must equal the component type of %s", m.describe(ts), m.describe(rt))
			c.combo(in, tm)
		}
	case 144: // OpVectorTimesMatrix: vector (rows) x matrix -> vector (cols)
		tv, ok1 := argT(RMatrix, 0)
		tm, ok2 := argT(RMatrix, 1)
		if !ok1 || !ok2 {
			return
		}
		rtt, v, mt := m.types[rt], m.types[tv], m.types[tm]
		if !c.check(RMatrix, rtt.kind == tkVector && v.kind == tkVector && mt.kind == tkMatrix, in, "needs vector = vector x matrix, got %s = %s x %s", m.describe(rt), m.describe(tv), m.describe(tm)) {
			return
		}
		col := m.types[mt.elem]
		c.check(RMatrix, col != nil && rtt.elem == col.elem && v.elem == col.elem, in, "component types differ among %s = %s x %s", m.describe(rt), m.describe(tv), m.describe(tm))
		if col != nil {
			c.check(RMatrix, v.count == col.count, in, "vector has %d components, matrix columns have %d", v.count, col.count)
		}
		c.check(RMatrix, rtt.count == mt.count, in, "result has %d components, matrix has %d columns", rtt.count, mt.count)
		c.combo(in, tv, tm)
	case 145: // OpMatrixTimesVector: matrix x vector (cols) -> vector (rows)
		tm, ok1 := argT(RMatrix, 0)
		tv, ok2 := argT(RMatrix, 1)
		if !ok1 || !ok2 {
			return
		}
		rtt, v, mt := m.types[rt], m.types[tv], m.types[tm]
		if !c.check(RMatrix, rtt.kind == tkVector && v.kind == tkVector && mt.kind == tkMatrix, in, "needs vector = matrix x vector, got %s = %s x %s", m.describe(rt), m.describe(tm), m.describe(tv)) {
			return
		}
		c.check(RMatrix, mt.elem == rt, in, "result type %s must equal the matrix column type %s", m.describe(rt), m.describe(mt.elem))
		c.check(RMatrix, v.count == mt.count && v.elem == rtt.elem, in, "vector %s does not match the %d columns of %s", m.describe(tv), mt.count, m.describe(tm))
		c.combo(in, tm, tv)
	case 146: // OpMatrixTimesMatrix
		tl, ok1 := argT(RMatrix, 0)
		tr, ok2 := argT(RMatrix, 1)
		if !ok1 || !ok2 {
			return
		}
		rtt, l, r := m.types[rt], m.types[tl], m.types[tr]
		if !c.check(RMatrix, rtt.kind == tkMatrix && l.kind == tkMatrix && r.kind == tkMatrix, in, "needs matrix = matrix x matrix, got %s = %s x %s", m.describe(rt), m.describe(tl), m.describe(tr)) {
			return
		}
		rc, lc, rcol := m.types[rtt.elem], m.types[l.elem], m.types[r.elem]
		if rc == nil || lc == nil || rcol == nil {
			return
		}
		c.check(RMatrix, rtt.elem == l.elem, in, "result column type %s must equal the left matrix's column type %s", m.describe(rtt.elem), m.describe(l.elem))
		c.check(RMatrix, rtt.count == r.count, in, "result has %d columns, right matrix has %d", rtt.count, r.count)
		c.check(RMatrix, rcol.count == l.count && rcol.elem == lc.elem, in, "right matrix columns (%s) do not match the left matrix's %d columns", m.describe(r.elem), l.count)
		c.combo(in, tl, tr)
	case 84: // OpTranspose
		tm, ok := argT(RMatrix, 0)
		if !ok {
			return
		}
		rtt, mt := m.types[rt], m.types[tm]
		if !c.check(RMatrix, rtt.kind == tkMatrix && mt.kind == tkMatrix, in, "needs matrix = transpose(matrix), got %s, %s", m.describe(rt), m.describe(tm)) {
			return
		}
		rc, mc := m.types[rtt.elem], m.types[mt.elem]
		if rc != nil && mc != nil {
			c.check(RMatrix, rc.elem == mc.elem && rtt.count == mc.count && rc.count == mt.count, in, "%s is not the transpose shape of %s", m.describe(rt), m.describe(tm))
		}
		c.combo(in, tm)
	case 148: // OpDot
		c.check(RDot, R.isFloat() && R.n == 1, in, "result type %s is not a floating-point scalar", m.describe(rt))
		t1, ok1 := argT(RDot, 0)
		t2, ok2 := argT(RDot, 1)
		if ok1 && ok2 {
			v := m.types[t1]
			c.check(RDot, v.kind == tkVector && v.elem == rt, in, "Vector 1 type %s is not a vector of the result type %s", m.describe(t1), m.describe(rt))
			c.check(RDot, t1 == t2, in, "vector types differ: %s vs %s", m.describe(t1), m.describe(t2))
			c.combo(in, t1)
		}
	case 4450, 4451, 4452: // OpSDot / OpUDot / OpSUDot
		c.check(RDot, R.isInt() && R.n == 1, in, "result type %s is not an integer scalar", m.describe(rt))
		t1, ok1 := argT(RDot, 0)
		t2, ok2 := argT(RDot, 1)
		if ok1 && ok2 {
			a, b2 := m.shapeOf(t1), m.shapeOf(t2)
			packed := in.nargs() == 3
			if packed {
				c.check(RDot, a.isInt() && b2.isInt() && a.n == 1 && b2.n == 1 && a.width == 32 && b2.width == 32, in, "with a Packed Vector Format both vectors must be 32-bit integer scalars, got %s, %s", m.describe(t1), m.describe(t2))
				c.check(RDot, in.arg(2) == 0, in, "unknown Packed Vector Format %d", in.arg(2))
				c.check(RDot, R.width >= 8, in, "result too narrow")
			} else {
				c.check(RDot, a.isInt() && b2.isInt() && a.n > 1 && a.n == b2.n && a.width == b2.width, in, "vectors must be integer vectors of the same shape, got %s, %s", m.describe(t1), m.describe(t2))
				c.check(RDot, R.width >= a.width, in, "result width %d narrower than the vector component width %d", R.width, a.width)
			}
			if in.op == 4451 {
				c.check(RDot, !R.sign, in, "OpUDot result type must be unsigned")
				if !packed {
					c.check(RDot, !a.sign && !b2.sign, in, "OpUDot vector operands must be unsigned")
				}
			}
			c.combo(in, rt, t1, t2)
		}

	case 207, 208, 209, 210, 211, 212, 213, 214, 215:
		c.check(RDerivative, R.isFloat(), in, "result type %s is not a floating-point scalar or vector", m.describe(rt))
		if t, ok := argT(RDerivative, 0); ok {
			c.check(RDerivative, t == rt, in, "operand type %s must equal result type %s", m.describe(t), m.describe(rt))
			c.combo(in, t)
		}

	case 227, 228, 229, 230, 232, 233, 234, 235, 236, 237, 238, 239, 240, 241, 242, 6035, 5614, 5615:
		c.typeAtomic(in)
	case 224: // OpControlBarrier
		for i := 0; i < 3; i++ {
			c.scopeOrSemantics(RBarrier, in, in.arg(i))
		}
		c.combo(in)
	case 225:
		for i := 0; i < 2; i++ {
			c.scopeOrSemantics(RBarrier, in, in.arg(i))
		}
		c.combo(in)

	case 86, 87, 88, 89, 90, 91, 92, 93, 94, 95, 96, 97, 98, 99, 100, 103, 104, 105, 106, 107, 60:
		c.typeImage(in)
	}
}

func (c *ctx) logicallyMatch(a, b uint32, depth int) bool {
	m := c.m
	if a == b {
		return true
	}
	ta, tb := m.types[a], m.types[b]
	if ta == nil || tb == nil || depth > 64 || ta.kind != tb.kind {
		return false
	}
	switch ta.kind {
	case tkArray:
		la, oka := m.arrayLen(ta)
		lb, okb := m.arrayLen(tb)
		if oka && okb && la != lb {
			return false
		}
		if (!oka || !okb) && ta.lenID != tb.lenID {
			return false
		}
		return c.logicallyMatch(ta.elem, tb.elem, depth+1)
	case tkStruct:
		if len(ta.members) != len(tb.members) {
			return false
		}
		for i := range ta.members {
			if !c.logicallyMatch(ta.members[i], tb.members[i], depth+1) {
				return false
			}
		}
		return true
	}
	return false
}

// checkMemAccess validates the optional memory-access operands starting at operand k.
func (c *ctx) checkMemAccess(rule string, in *inst, k int) {
	if in.nargs() <= k {
		return
	}
	mask := in.arg(k)
	if mask&0x2 != 0 {
		a := in.arg(k + 1)
		c.check(rule, a != 0 && a&(a-1) == 0, in, "Aligned operand %d is not a power of two", a)
	}
}

func (c *ctx) typeConstruct(in *inst) {
	m := c.m
	rt := in.typ
	t := m.types[rt]
	n := in.nargs()
	var ts []uint32
	for i := 0; i < n; i++ {
		tt, ok := c.val(RConstruct, in, in.arg(i), "constituent")
		if !ok {
			return
		}
		ts = append(ts, tt)
	}
	c.combo(in, append([]uint32{rt}, ts...)...)
	switch t.kind {
	case tkVector:
		c.check(RConstruct, n >= 2, in, "a vector must be constructed from at least 2 constituents (got %d)", n)
		total := uint32(0)
		for i, tt := range ts {
			x := m.types[tt]
			switch {
			case tt == t.elem:
				total++
			case x.kind == tkVector && x.elem == t.elem:
				total += x.count
			default:
				c.check(RConstruct, false, in, "constituent %d has type %s, not the component type of %s or a vector of it", i, m.describe(tt), m.describe(rt))
				return
			}
		}
		c.check(RConstruct, total == t.count, in, "constituents supply %d components for %s", total, m.describe(rt))
	case tkMatrix:
		if c.check(RConstruct, uint32(n) == t.count, in, "%d constituents for a matrix of %d columns", n, t.count) {
			for i, tt := range ts {
				c.check(RConstruct, tt == t.elem, in, "constituent %d has type %s, column type is %s", i, m.describe(tt), m.describe(t.elem))
			}
		}
	case tkArray:
		if l, ok := m.arrayLen(t); ok {
			if !c.check(RConstruct, uint64(n) == l, in, "%d constituents for an array of length %d", n, l) {
				return
			}
		}
		for i, tt := range ts {
			c.check(RConstruct, tt == t.elem, in, "constituent %d has type %s, element type is %s", i, m.describe(tt), m.describe(t.elem))
		}
	case tkStruct:
		if c.check(RConstruct, n == len(t.members), in, "%d constituents for a struct of %d members", n, len(t.members)) {
			for i, tt := range ts {
				c.check(RConstruct, tt == t.members[i], in, "constituent %d has type %s, member type is %s", i, m.describe(tt), m.describe(t.members[i]))
			}
		}
	default:
		c.check(RConstruct, false, in, "result type %s is not a composite type", m.describe(rt))
	}
}

func (c *ctx) typeAccessChain(in *inst) {
	m := c.m
	rt := m.types[in.typ]
	tb, ok := c.val(RAccessChain, in, in.arg(0), "Base")
	if !ok {
		return
	}
	bp := m.types[tb]
	if !c.check(RAccessChain, bp.kind == tkPointer, in, "Base has type %s, must be a pointer", m.describe(tb)) {
		return
	}
	if !c.check(RAccessChain, rt.kind == tkPointer, in, "result type %s is not a pointer", m.describe(in.typ)) {
		return
	}
	c.check(RAccessChain, rt.sc == bp.sc, in, "result storage class %d differs from the base pointer's %d", rt.sc, bp.sc)
	n := in.nargs() - 1
	bad := false
	get := func(i int) (uint64, bool) {
		id := in.arg(1 + i)
		ti, ok := c.val(RAccessChain, in, id, "index")
		if !ok {
			bad = true
			return 0, false
		}
		if !c.check(RAccessChain, m.types[ti].k() == tkInt, in, "index %d has type %s, must be an integer scalar", i, m.describe(ti)) {
			bad = true
			return 0, false
		}
		k := m.consts[id]
		if k == nil || k.in.op != 43 {
			return 0, false
		}
		v, ok := m.constIntAny(id)
		if !ok {
			return 0, false
		}
		t := m.types[k.typ]
		if t.signed && t.width <= 32 {
			v = uint64(int64(int32(uint32(v)))) // negative -> huge
		}
		return v, true
	}
	// Only struct indices are range-checked here: vector/matrix/array indices given as constants
	// out of range are undefined behaviour at run time, not a static validity error in the spec
	// for arrays; for vectors and matrices the walk checks them.
	got, ok := c.walkAC(in, bp.elem, n, get)
	if bad || !ok {
		return
	}
	c.check(RAccessChain, got == rt.elem, in, "indexes reach type %s, result pointee type is %s", m.describe(got), m.describe(rt.elem))
	c.combo(in, tb)
}

func (c *ctx) walkAC(in *inst, tid uint32, n int, get func(i int) (uint64, bool)) (uint32, bool) {
	m := c.m
	for i := 0; i < n; i++ {
		t := m.types[tid]
		if t == nil {
			return 0, false
		}
		v, known := get(i)
		switch t.kind {
		case tkVector, tkMatrix, tkArray, tkRuntimeArray:
			tid = t.elem
		case tkStruct:
			if !c.check(RAccessChain, known, in, "index %d into %s is not an integer OpConstant", i, m.describe(tid)) {
				return 0, false
			}
			if !c.check(RAccessChain, v < uint64(len(t.members)), in, "struct member index %d (index %d) out of range for %s with %d members", int64(v), i, m.describe(tid), len(t.members)) {
				return 0, false
			}
			tid = t.members[v]
		default:
			c.check(RAccessChain, false, in, "index %d reaches non-composite type %s", i, m.describe(tid))
			return 0, false
		}
	}
	return tid, true
}

func (c *ctx) typePhi(f *function, b *block, in *inst) {
	m := c.m
	n := in.nargs()
	seen := map[uint32]bool{}
	for k := 0; k+1 < n; k += 2 {
		v, p := in.arg(k), in.arg(k+1)
		if d := m.defs[v]; d != nil {
			t, ok := m.valType[v]
			c.check(RPhi, ok && t == in.typ && d.op != 54, in, "incoming value %%%d has type %s, result type is %s", v, m.describe(t), m.describe(in.typ))
		}
		pi, ok := f.byLabel[p]
		if !c.check(RPhiParents, ok, in, "parent %%%d is not a block of this function", p) {
			continue
		}
		isPred := false
		for _, q := range b.preds {
			if q == pi {
				isPred = true
			}
		}
		c.check(RPhiParents, isPred, in, "parent %%%d is not a predecessor of block %%%d", p, b.label)
		c.check(RPhiParents, !seen[p], in, "parent %%%d listed more than once", p)
		seen[p] = true
	}
	for _, q := range b.preds {
		lbl := f.blocks[q].label
		c.check(RPhiParents, seen[lbl], in, "predecessor %%%d of block %%%d has no (value, parent) pair", lbl, b.label)
	}
	c.combo(in, in.typ)
}

func (c *ctx) scopeOrSemantics(rule string, in *inst, id uint32) {
	m := c.m
	k := m.consts[id]
	// With the Shader capability, Scope and Memory Semantics <id>s must be constant
	// instructions (spec §3.27 Scope <id>, §3.25 Memory Semantics <id>) of 32-bit integer type.
	if !c.check(rule, k != nil, in, "scope/semantics operand %%%d is not a constant instruction", id) {
		return
	}
	t := m.types[k.typ]
	c.check(rule, t != nil && t.kind == tkInt && t.width == 32, in, "scope/semantics operand %%%d has type %s, must be a 32-bit integer scalar", id, m.describe(k.typ))
}

func (c *ctx) typeAtomic(in *inst) {
	m := c.m
	hasRes := in.op != 228
	tp, ok := c.val(RAtomic, in, in.arg(0), "Pointer")
	if !ok {
		return
	}
	p := m.types[tp]
	if !c.check(RAtomic, p.kind == tkPointer, in, "Pointer operand has type %s", m.describe(tp)) {
		return
	}
	pe := m.types[p.elem]
	float := in.op == 6035 || in.op == 5614 || in.op == 5615
	loadStoreXchg := in.op == 227 || in.op == 228 || in.op == 229
	switch {
	case float:
		c.check(RAtomic, pe != nil && pe.kind == tkFloat, in, "pointee type %s is not a floating-point scalar", m.describe(p.elem))
	case loadStoreXchg:
		c.check(RAtomic, pe != nil && (pe.kind == tkInt || pe.kind == tkFloat), in, "pointee type %s is not an integer or floating-point scalar", m.describe(p.elem))
	default:
		c.check(RAtomic, pe != nil && pe.kind == tkInt, in, "pointee type %s is not an integer scalar", m.describe(p.elem))
	}
	if pe != nil && pe.kind == tkInt {
		c.check(RAtomic, pe.width == 32 || pe.width == 64, in, "atomic on a %d-bit integer", pe.width)
	}
	// Vulkan: VUID-StandaloneSpirv-None-04686
	switch p.sc {
	case scUniform, scWorkgroup, scImage, scStorageBuffer, scPhysicalStorage, scTaskPayloadEXT:
		c.fire(RAtomic)
	default:
		c.check(RAtomic, false, in, "pointer storage class %d is not one of Uniform, Workgroup, Image, StorageBuffer, PhysicalStorageBuffer, TaskPayloadWorkgroupEXT", p.sc)
	}
	if hasRes {
		c.check(RAtomic, in.typ == p.elem, in, "result type %s differs from the pointee type %s", m.describe(in.typ), m.describe(p.elem))
	}
	c.scopeOrSemantics(RAtomic, in, in.arg(1))
	c.scopeOrSemantics(RAtomic, in, in.arg(2))
	valAt := -1
	switch in.op {
	case 228, 229, 234, 235, 236, 237, 238, 239, 240, 241, 242, 6035, 5614, 5615:
		valAt = 3
	case 230:
		c.scopeOrSemantics(RAtomic, in, in.arg(3))
		for _, k := range []int{4, 5} {
			if t, ok := c.val(RAtomic, in, in.arg(k), "Value/Comparator"); ok {
				c.check(RAtomic, t == p.elem, in, "operand %d has type %s, pointee type is %s", k+1, m.describe(t), m.describe(p.elem))
			}
		}
	}
	if valAt >= 0 {
		if t, ok := c.val(RAtomic, in, in.arg(valAt), "Value"); ok {
			c.check(RAtomic, t == p.elem, in, "Value has type %s, pointee type is %s", m.describe(t), m.describe(p.elem))
		}
	}
	c.combo(in, tp)
}

// typeImage holds the few image rules that are unambiguous in the specification.
func (c *ctx) typeImage(in *inst) {
	m := c.m
	rt := m.types[in.typ]
	switch in.op {
	case 86: // OpSampledImage
		ti, ok1 := c.val(RImage, in, in.arg(0), "Image")
		ts, ok2 := c.val(RImage, in, in.arg(1), "Sampler")
		if !ok1 || !ok2 {
			return
		}
		if c.check(RImage, rt.kind == tkSampledImage, in, "result type %s is not an OpTypeSampledImage", m.describe(in.typ)) {
			c.check(RImage, rt.elem == ti, in, "Image has type %s, the result type wraps %s", m.describe(ti), m.describe(rt.elem))
		}
		c.check(RImage, m.types[ts].k() == tkSampler, in, "Sampler operand has type %s", m.describe(ts))
	case 87, 88, 89, 90, 91, 92, 93, 94, 96, 97:
		ts, ok := c.val(RImage, in, in.arg(0), "Sampled Image")
		if !ok {
			return
		}
		if !c.check(RImage, m.types[ts].k() == tkSampledImage, in, "Sampled Image operand has type %s", m.describe(ts)) {
			return
		}
		img := m.types[m.types[ts].elem]
		dref := in.op == 89 || in.op == 90 || in.op == 93 || in.op == 94 || in.op == 97
		R := m.shapeOf(in.typ)
		if dref && in.op != 97 {
			c.check(RImage, R.ok && R.n == 1 && (R.isFloat() || R.isInt()), in, "depth-comparison sample result type %s is not a scalar", m.describe(in.typ))
		} else {
			c.check(RImage, R.ok && R.n == 4 && (R.isFloat() || R.isInt()), in, "result type %s is not a 4-component numeric vector", m.describe(in.typ))
		}
		if img != nil && img.kind == tkImage && R.ok {
			st := m.types[img.elem]
			if st != nil && st.kind != tkVoid {
				e, _ := m.scalarOf(m.types[in.typ])
				c.check(RImage, e != nil && e.id == img.elem, in, "result component type differs from the image's Sampled Type %s", m.describe(img.elem))
			}
		}
		// explicit-lod forms require image operands with Lod or Grad
		if in.op == 88 || in.op == 90 || in.op == 92 || in.op == 94 {
			k := 2
			if dref {
				k = 3
			}
			c.check(RImage, in.nargs() > k && in.arg(k)&0x6 != 0, in, "explicit-lod sampling without Lod or Grad image operand")
		}
		c.checkImageOperands(in)
	case 95, 98: // OpImageFetch / OpImageRead
		ti, ok := c.val(RImage, in, in.arg(0), "Image")
		if !ok {
			return
		}
		img := m.types[ti]
		if !c.check(RImage, img.kind == tkImage, in, "Image operand has type %s", m.describe(ti)) {
			return
		}
		R := m.shapeOf(in.typ)
		if in.op == 95 {
			c.check(RImage, R.ok && R.n == 4, in, "result type %s is not a 4-component vector", m.describe(in.typ))
			c.check(RImage, img.sampled == 1, in, "OpImageFetch needs an image with Sampled=1 (got %d)", img.sampled)
			c.check(RImage, img.dim != 3, in, "OpImageFetch on a Cube image")
		}
		if st := m.types[img.elem]; st != nil && st.kind != tkVoid && R.ok {
			e, _ := m.scalarOf(m.types[in.typ])
			c.check(RImage, e != nil && e.id == img.elem, in, "result component type differs from the image's Sampled Type %s", m.describe(img.elem))
		}
		if tc, ok := c.val(RImage, in, in.arg(1), "Coordinate"); ok {
			s := m.shapeOf(tc)
			c.check(RImage, s.isInt(), in, "Coordinate has type %s, must be integer scalar or vector", m.describe(tc))
		}
		c.checkImageOperands(in)
	case 99: // OpImageWrite
		ti, ok := c.val(RImage, in, in.arg(0), "Image")
		if !ok {
			return
		}
		img := m.types[ti]
		if !c.check(RImage, img.kind == tkImage, in, "Image operand has type %s", m.describe(ti)) {
			return
		}
		c.check(RImage, img.sampled != 1, in, "OpImageWrite to an image with Sampled=1")
		if tc, ok := c.val(RImage, in, in.arg(1), "Coordinate"); ok {
			s := m.shapeOf(tc)
			c.check(RImage, s.isInt(), in, "Coordinate has type %s, must be integer scalar or vector", m.describe(tc))
		}
		if tt, ok := c.val(RImage, in, in.arg(2), "Texel"); ok {
			if st := m.types[img.elem]; st != nil && st.kind != tkVoid {
				e, _ := m.scalarOf(m.types[tt])
				c.check(RImage, e != nil && e.id == img.elem, in, "Texel component type differs from the image's Sampled Type %s", m.describe(img.elem))
			}
		}
		c.checkImageOperands(in)
	case 100: // OpImage
		ts, ok := c.val(RImage, in, in.arg(0), "Sampled Image")
		if !ok {
			return
		}
		if c.check(RImage, m.types[ts].k() == tkSampledImage, in, "operand has type %s", m.describe(ts)) {
			c.check(RImage, m.types[ts].elem == in.typ, in, "result type %s is not the image type of %s", m.describe(in.typ), m.describe(ts))
		}
	case 103, 104, 106, 107:
		ti, ok := c.val(RImage, in, in.arg(0), "Image")
		if !ok {
			return
		}
		img := m.types[ti]
		if !c.check(RImage, img.kind == tkImage, in, "Image operand has type %s", m.describe(ti)) {
			return
		}
		R := m.shapeOf(in.typ)
		c.check(RImage, R.isInt(), in, "result type %s is not an integer scalar or vector", m.describe(in.typ))
		if in.op == 103 || in.op == 104 {
			want := uint32(0)
			switch img.dim {
			case 0, 5:
				want = 1
			case 1, 3, 4:
				want = 2
			case 2:
				want = 3
			}
			if want != 0 {
				want += img.arrayed
				c.check(RImage, R.n == want, in, "result has %d components, the image dimensionality needs %d", R.n, want)
			}
			if in.op == 103 {
				c.check(RImage, img.ms == 0, in, "OpImageQuerySizeLod on a multisampled image")
			}
		} else {
			c.check(RImage, R.n == 1, in, "result type %s is not a scalar", m.describe(in.typ))
		}
	case 60: // OpImageTexelPointer
		tp, ok := c.val(RImage, in, in.arg(0), "Image")
		if !ok {
			return
		}
		p := m.types[tp]
		if !c.check(RImage, p.kind == tkPointer && m.types[p.elem] != nil && m.types[p.elem].k() == tkImage, in, "Image operand has type %s, must be a pointer to an image", m.describe(tp)) {
			return
		}
		if c.check(RImage, rt.kind == tkPointer && rt.sc == scImage, in, "result type %s is not a pointer with storage class Image", m.describe(in.typ)) {
			c.check(RImage, rt.elem == m.types[p.elem].elem, in, "result pointee %s differs from the image's Sampled Type %s", m.describe(rt.elem), m.describe(m.types[p.elem].elem))
		}
	}
	c.combo(in)
}

// checkImageOperands checks that the number of ids after the image-operands mask matches the
// bits set (Bias 1, Lod 1, Grad 2, ConstOffset 1, Offset 1, ConstOffsets 1, Sample 1, MinLod 1,
// MakeTexelAvailable 1, MakeTexelVisible 1).
func (c *ctx) checkImageOperands(in *inst) {
	k := -1
	switch in.op {
	case 87, 88, 91, 92, 95, 98:
		k = 2
	case 89, 90, 93, 94, 96, 97, 99:
		k = 3
	}
	if k < 0 || in.nargs() <= k {
		return
	}
	mask := in.arg(k)
	want := 0
	for bit := uint32(0); bit < 16; bit++ {
		if mask&(1<<bit) == 0 {
			continue
		}
		switch 1 << bit {
		case 0x1, 0x2, 0x8, 0x10, 0x20, 0x40, 0x80, 0x100, 0x200:
			want++
		case 0x4:
			want += 2
		}
	}
	c.check(RImage, in.nargs()-k-1 == want, in, "image operands mask 0x%x needs %d ids, %d present", mask, want, in.nargs()-k-1)
	c.check(RImage, mask&0x1 == 0 || mask&0x6 == 0, in, "Bias together with Lod/Grad")
	c.check(RImage, mask&0x6 != 0x6, in, "Lod together with Grad")
}

// k is the nil-safe kind of a type.
func (t *typ) k() typeKind {
	if t == nil {
		return 0
	}
	return t.kind
}
