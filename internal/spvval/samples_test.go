package spvval

import (
	"fmt"
	"testing"

	"github.com/gogpu/naga"
	"github.com/gogpu/naga/spirv"
)

// Hand-written programs in the shape of the generated program space (AGENT_BRIEF.md): every one
// must validate cleanly at every version; a finding here is either a validator bug or a compiler
// defect and must be triaged.
var samplePrograms = map[string]string{
	"loops": `
struct Out { v: array<i32, 16> }
@group(0) @binding(0) var<storage, read_write> o: Out;
@group(0) @binding(1) var<storage, read> inp: array<i32>;
fn helper(p: ptr<function, i32>, n: i32) -> i32 {
  var acc = 0;
  for (var i = 0; i < n; i++) {
    if (i == 3) { continue; }
    if (i > 7) { break; }
    switch (i % 4) {
      case 0: { acc += 1; }
      case 1, 2: { if (acc > 5) { break; } acc += 2; }
      default: { if (acc > 100) { return acc; } acc -= 1; }
    }
    *p = *p + acc;
  }
  return acc;
}
@compute @workgroup_size(1)
fn main() {
  var x = 0;
  var k = 0;
  loop {
    if (k >= 4) { break; }
    var j = 0;
    while (j < 3) {
      j++;
      if (j == 2) { continue; }
      x += helper(&x, j + k);
    }
    continuing {
      k++;
      break if (x > 1000);
    }
  }
  let n = i32(arrayLength(&inp));
  for (var i = 0; i < 16; i++) {
    if (i < n) { o.v[i] = inp[i] + x; } else if (i == 9) { o.v[i] = -1; } else { o.v[i] = x; }
  }
}`,
	"early-returns": `
@group(0) @binding(0) var<storage, read_write> o: array<u32, 8>;
var<private> g: u32 = 3u;
fn f(a: u32) -> u32 {
  if (a == 0u) { return 1u; }
  loop {
    if (g > 10u) { return g; }
    g += a;
    switch (g) {
      case 4u: { return 4u; }
      case 5u: { continue; }
      default: { }
    }
    if (g == 7u) { break; }
  }
  return g + 1u;
}
fn v() { if (g == 1u) { return; } g = 2u; }
@compute @workgroup_size(1)
fn main() {
  v();
  for (var i = 0u; i < 8u; i++) { o[i] = f(i); }
  { let s = o[0]; { let s = s + 1u; o[1] = s; } }
}`,
	"types": `
struct Inner { a: vec3<f32>, b: f32, m: mat2x3<f32> }
struct S { @align(16) x: i32, @size(32) y: vec2<u32>, arr: array<Inner, 2>, z: mat4x4<f32>, w: mat3x3<f32>, q: mat2x2<f32>, rt: array<Inner> }
struct U { a: vec4<f32>, m: mat3x4<f32>, arr: array<vec4<i32>, 3>, n: Inner }
@group(0) @binding(0) var<storage, read_write> s: S;
@group(0) @binding(1) var<uniform> u: U;
var<workgroup> wg: array<Inner, 2>;
var<private> pv: Inner;
@compute @workgroup_size(1)
fn main(@builtin(global_invocation_id) gid: vec3<u32>, @builtin(local_invocation_index) li: u32, @builtin(num_workgroups) nw: vec3<u32>, @builtin(workgroup_id) wid: vec3<u32>, @builtin(local_invocation_id) lid: vec3<u32>) {
  var loc: Inner = s.arr[1];
  wg[0] = loc;
  pv = wg[0];
  loc.m = u.n.m;
  loc.m[1] = u.a.xyz;
  loc.m[1][2] = 2.0;
  let i = gid.x + li + nw.y + wid.z + lid.x;
  s.rt[i] = loc;
  s.rt[i].a[i % 3u] = f32(i);
  let p = &s.arr[i % 2u].b;
  *p = u.m[1][i % 4u] + pv.b;
  s.z = s.z * s.z;
  let t = u.a * u.m + u.n.m * u.a.xy;
  s.w = s.w * u.a.x + mat3x3<f32>(t, t, t) + transpose(s.w) * s.w;
  s.z[1] = s.z * u.a + u.a * s.z;
  s.q = s.q * 2.0;
  s.y = vec2<u32>(u.arr[i % 3u].xy) + bitcast<vec2<u32>>(u.a.zw);
  s.x = select(1, 2, i > 3u) + i32(arrayLength(&s.rt));
  var arr = array<i32, 4>(1, 2, 3, 4);
  arr[i % 4u] = s.x;
  s.x = arr[(i + 1u) % 4u];
  var z = Inner();
  s.arr[0] = z;
}`,
	"ops": `
@group(0) @binding(0) var<storage, read_write> o: array<vec4<f32>>;
@group(0) @binding(1) var<storage, read_write> oi: array<vec4<i32>>;
@group(0) @binding(2) var<storage, read_write> ou: array<vec4<u32>>;
@compute @workgroup_size(1)
fn main() {
  let a = o[0]; let b = o[1];
  let i = oi[0]; let j = oi[1];
  let u = ou[0]; let w = ou[1];
  o[2] = a + b * a / b - (a % b) + 2.0 * a + a * 2.0;
  oi[2] = (i + j * i / j - (i % j)) & j | i ^ (~j) + (i << w) + (j >> w) + 3 * i;
  ou[2] = (u + w * u / w - (u % w)) & w | u ^ (~w) + (u << w) + (w >> u);
  let c = a < b; let d = i >= j; let e = u != w;
  o[3] = select(a, b, (c & vec4<bool>(d.x, d.y, e.z, !e.w)) | !e);
  var sel = false; if (c.x) { sel = true; } if (d.y) { sel = !sel; }
  o[4] = select(a, b, sel);
  o[5] = vec4<f32>(i) + vec4<f32>(u) + vec4<f32>(vec4<bool>(c));
  oi[3] = vec4<i32>(a) + vec4<i32>(u) + bitcast<vec4<i32>>(b) + -i;
  ou[3] = vec4<u32>(a) + vec4<u32>(i) + bitcast<vec4<u32>>(a);
  o[6] = vec4<f32>(a.xy, b.w, a.z).wzyx + vec4<f32>(a.x) + vec4<f32>(a.xyz, 1.0);
  o[7] = abs(a) + min(a, b) + max(a, b) + clamp(a, b, a) + saturate(a) + sign(a) + floor(a) + ceil(a) + round(a) + trunc(a) + fract(a)
    + sqrt(a) + inverseSqrt(a) + sin(a) + cos(a) + tan(a) + asin(a) + acos(a) + atan(a) + atan2(a, b) + sinh(a) + cosh(a) + tanh(a)
    + asinh(a) + acosh(a) + atanh(a) + exp(a) + exp2(a) + log(a) + log2(a) + pow(a, b) + fma(a, b, a) + mix(a, b, a) + mix(a, b, 0.5)
    + step(a, b) + smoothstep(a, b, a) + normalize(a) + faceForward(a, b, a) + reflect(a, b) + refract(a, b, 0.5) + degrees(a) + radians(a)
    + vec4<f32>(dot(a, b), length(a), distance(a, b), cross(a.xyz, b.xyz).x) + quantizeToF16(a) + ldexp(a, i);
  oi[4] = abs(i) + min(i, j) + max(i, j) + clamp(i, j, i) + sign(i) + countOneBits(i) + countLeadingZeros(i) + countTrailingZeros(i)
    + reverseBits(i) + firstLeadingBit(i) + firstTrailingBit(i) + extractBits(i, 1u, 2u) + insertBits(i, j, 1u, 2u) + vec4<i32>(dot(i, j));
  ou[4] = abs(u) + min(u, w) + max(u, w) + clamp(u, w, u) + countOneBits(u) + countLeadingZeros(u) + countTrailingZeros(u)
    + reverseBits(u) + firstLeadingBit(u) + firstTrailingBit(u) + extractBits(u, 1u, 2u) + insertBits(u, w, 1u, 2u) + vec4<u32>(dot(u, w))
    + vec4<u32>(pack4x8snorm(a), pack4x8unorm(a), pack2x16snorm(a.xy), pack2x16unorm(a.xy)) + vec4<u32>(pack2x16float(a.xy), pack4xI8(i), pack4xU8(u), pack4xI8Clamp(i))
    + vec4<u32>(pack4xU8Clamp(u), dot4U8Packed(u.x, u.y), u32(dot4I8Packed(u.x, u.y)), 0u) + unpack4xU8(u.x) + vec4<u32>(unpack4xI8(u.x));
  o[8] = unpack4x8snorm(u.x) + unpack4x8unorm(u.x) + vec4<f32>(unpack2x16snorm(u.x), unpack2x16unorm(u.x)) + vec4<f32>(unpack2x16float(u.x), 0.0, 0.0);
  let mf = modf(a); let fr = frexp(a);
  o[9] = mf.fract + mf.whole + fr.fract + vec4<f32>(fr.exp);
  let ms = modf(a.x); let fs = frexp(a.x);
  o[10] = vec4<f32>(ms.fract, ms.whole, fs.fract, f32(fs.exp));
}`,
	"atomics-barriers": `
struct A { c: atomic<u32>, d: atomic<i32>, arr: array<atomic<u32>, 4> }
@group(0) @binding(0) var<storage, read_write> a: A;
@group(0) @binding(1) var<storage, read_write> o: array<u32, 16>;
var<workgroup> wa: atomic<i32>;
var<workgroup> wv: array<u32, 8>;
@compute @workgroup_size(4, 2, 1)
fn main(@builtin(local_invocation_index) li: u32) {
  wv[li] = li;
  workgroupBarrier();
  storageBarrier();
  let x = atomicAdd(&a.c, 1u) + atomicSub(&a.c, 1u) + atomicMin(&a.c, 2u) + atomicMax(&a.c, 3u) + atomicAnd(&a.c, 7u) + atomicOr(&a.c, 8u) + atomicXor(&a.c, 1u) + atomicExchange(&a.c, 5u) + atomicLoad(&a.arr[li % 4u]);
  atomicStore(&a.d, i32(x));
  let r = atomicCompareExchangeWeak(&a.d, 1, 2);
  if (r.exchanged) { atomicAdd(&wa, r.old_value); }
  let y = atomicMin(&wa, -1) + atomicMax(&a.d, 4) + atomicLoad(&wa);
  workgroupBarrier();
  o[li] = wv[(li + 1u) % 8u] + x + u32(y) + workgroupUniformLoad(&wv[0]);
}`,
	"matrices": `
struct M { a: mat2x2<f32>, b: mat2x3<f32>, c: mat2x4<f32>, d: mat3x2<f32>, e: mat3x3<f32>, f: mat3x4<f32>, g: mat4x2<f32>, h: mat4x3<f32>, i: mat4x4<f32> }
@group(0) @binding(0) var<storage, read_write> m: M;
@group(0) @binding(1) var<storage, read_write> o: array<vec4<f32>, 8>;
var<private> pm: M;
@compute @workgroup_size(1)
fn main() {
  pm = m;
  var l = pm;
  let v2 = o[0].xy; let v3 = o[0].xyz; let v4 = o[0];
  l.a = l.a * l.a + l.a - l.a * 2.0 + 2.0 * l.a;
  l.b = l.b * l.a + l.h * l.c - l.b;
  l.c = l.c * l.a + l.i * l.c;
  l.d = l.a * l.d + l.g * l.f;
  l.e = l.b * l.d + l.e * l.e + l.h * l.f;
  l.f = l.c * l.d + l.i * l.f;
  l.g = l.a * l.g + l.d * l.h;
  l.h = l.b * l.g + l.e * l.h;
  l.i = l.c * l.g + l.f * l.h + l.i * l.i;
  o[1] = vec4<f32>(l.a * v2, v2 * l.a);
  o[2] = vec4<f32>(l.b * v2, 0.0) + vec4<f32>(v3 * l.b, 0.0, 0.0) + l.c * v2 + vec4<f32>(v4 * l.c, 1.0, 1.0);
  o[3] = vec4<f32>(l.d * v3, 0.0, 0.0) + vec4<f32>(v2 * l.d, 0.0) + vec4<f32>(l.e * v3, 0.0) + vec4<f32>(v3 * l.e, 0.0) + l.f * v3 + vec4<f32>(v4 * l.f, 0.0);
  o[4] = vec4<f32>(l.g * v4, 0.0, 0.0) + v2 * l.g + vec4<f32>(l.h * v4, 0.0) + v3 * l.h + l.i * v4 + v4 * l.i;
  l.e[1] = v3; l.e[2].y = 1.0; l.i[3][3] = l.e[0][1];
  let k = i32(v4.x);
  l.f[k] = v4; l.f[k][k] = 2.0; let col = l.h[k]; o[5] = vec4<f32>(col, col[k]);
  l.b = mat2x3<f32>(v3, v3); l.c = mat2x4<f32>(1.0, 2.0, 3.0, 4.0, 5.0, 6.0, 7.0, 8.0); l.a = mat2x2<f32>();
  m = l;
  m.e = l.e; m.d[1] = v2; m.g[k][1] = 3.0;
}`,
	"control": `
@group(0) @binding(0) var<storage, read_write> o: array<i32, 32>;
fn g(a: i32) -> i32 {
  var r = 0;
  loop {
    loop {
      if (a > r) { r += 2; continue; }
      switch (r) {
        case 0: { r = 1; }
        case 1: { loop { r += 1; if (r > 5) { break; } } }
        case 2, 3: { return r; }
        default: { break; }
      }
      if (r > 20) { break; }
      continuing { r += 1; break if (r > 30); }
    }
    if (r > 10) { break; }
  }
  if (r == 11) { return 0; } else if (r == 12) { return 1; } else { if (a == 0) { return 2; } }
  return r;
}
fn sw(a: i32) -> i32 {
  switch (a) { default: { return 1; } }
}
fn sw2(a: i32) -> i32 {
  var x = 0;
  switch (a) { case 1: { x = 1; } case 2: { x = 2; } default: { x = 3; } }
  switch (a) { case 5: { switch (x) { case 1: { x = 9; } default: { } } } default: { } }
  for (var i = 0; i < 3; i++) { switch (i) { case 0: { continue; } case 1: { break; } default: { return x; } } x += i; }
  return x;
}
fn inf() -> i32 { var i = 0; loop { i++; if (i > 3) { return i; } } return 0; }
fn infv() { var i = 0; loop { i++; if (i > 3) { return; } } }
fn dead(a: i32) -> i32 { if (a > 0) { return 1; } else { return 2; } }
fn whiles(n: i32) -> i32 { var i = 0; var s = 0; while (i < n) { i++; if (i % 2 == 0) { continue; } while (true) { s++; if (s % 3 == 0) { break; } } } return s; }
@compute @workgroup_size(1)
fn main() {
  for (var i = 0; i < 8; i++) { o[i] = g(i) + sw(i) + sw2(i) + inf() + dead(i) + whiles(i); }
  var i = 0;
  loop { if (i >= 4) { break; } o[8 + i] = i; continuing { i = i + 1; } }
  loop { i--; if (i < 0) { break; } }
  for (;;) { break; }
  infv();
  for (var j = 0; ; j++) { if (j > 2) { break; } }
  if (o[0] > 0) { } else { o[31] = 1; }
  if (o[1] > 0) { return; }
  o[30] = 2;
}`,
	"memory": `
struct In { a: i32, v: vec3<u32>, arr: array<vec2<f32>, 3> }
struct Big { x: array<In, 2>, @align(32) y: f32, z: array<array<i32, 2>, 3> }
@group(0) @binding(0) var<storage, read_write> s: Big;
struct UIn { a: i32, v: vec3<u32>, arr: array<vec4<f32>, 3> }
struct UBig { x: array<UIn, 2>, @align(32) y: f32, z: array<array<vec4<i32>, 2>, 3> }
@group(0) @binding(1) var<uniform> u: UBig;
@group(0) @binding(2) var<storage, read> r: array<In>;
@group(1) @binding(0) var<storage, read_write> w: array<u32>;
var<workgroup> wg: Big;
var<private> pv: Big;
const K = array<i32, 3>(10, 20, 30);
@compute @workgroup_size(2)
fn main(@builtin(local_invocation_index) li: u32) {
  if (li == 0u) { wg.y = u.y; wg.x[0].a = u.x[1].a; wg.x[1].v = u.x[0].v; wg.z[2][1] = u.z[2][1].w; }
  workgroupBarrier();
  var f: Big = wg;
  pv = f; f = s; s = pv; f.x[1] = r[li]; f.x[li].arr[li + 1u] = u.x[1].arr[2].zw; let ux = u.x; let uz = u.z[li]; f.y = ux[li].arr[li].x + f32(uz[1].y);
  f.z[li][1] = K[li] + f.z[2][li]; s.z = f.z; s.x[0].arr = f.x[1].arr;
  wg.x[li].a = f.x[li].a;
  let p = &s.x[li]; (*p).v.y = 3u; let q = &(*p).arr[2]; *q = vec2<f32>(1.0, 2.0);
  w[li] = arrayLength(&w) + arrayLength(&r);
  w[arrayLength(&w) - 1u] = u32(K[2]);
}`,
	"ptr-params": `
struct P { a: array<i32, 4>, v: vec3<i32> }
var<private> gp: P;
var<private> gq: i32;
@group(0) @binding(0) var<storage, read_write> o: array<i32, 8>;
fn inc(p: ptr<function, i32>) { *p = *p + 1; }
fn incp(p: ptr<private, i32>, i: i32) -> i32 { *p = *p + i; return *p; }
fn cp(p: ptr<private, P>) { let c = *p; *p = c; }
fn whole(p: ptr<function, P>) -> P { let c = *p; (*p).v = vec3<i32>(1); return c; }
@compute @workgroup_size(1)
fn main() {
  var l = 1; inc(&l);
  var q: P; q.a[2] = l; let c = whole(&q);
  let r = &q.a; (*r)[1] = 3; let e = &(*r)[1]; *e = *e + c.a[2];
  cp(&gp);
  o[0] = incp(&gq, l) + q.v.x + q.a[1] + gp.a[l];
  var i = 0;
  loop { if (i > 3) { break; } let pp = &q.a[i]; *pp = i; continuing { i++; } }
  o[1] = q.a[3];
}`,
}

func TestProgramSpaceSamples(t *testing.T) {
	for name, src := range samplePrograms {
		ast, err := naga.Parse(src)
		if err != nil {
			t.Errorf("%s: parse: %v", name, err)
			continue
		}
		for _, ver := range []spirv.Version{{Major: 1, Minor: 0}, {Major: 1, Minor: 1}, {Major: 1, Minor: 2}, {Major: 1, Minor: 3}, {Major: 1, Minor: 4}, {Major: 1, Minor: 5}, {Major: 1, Minor: 6}} {
			for _, dbg := range []bool{false, true} {
				for _, lb := range []bool{false, true} {
					m, err := naga.LowerWithSource(ast, src)
					if err != nil {
						t.Errorf("%s: lower: %v", name, err)
						break
					}
					o := spirv.DefaultOptions()
					o.Version, o.Debug, o.ForceLoopBounding = ver, dbg, lb
					b, err := naga.GenerateSPIRV(m, o)
					if err != nil {
						t.Errorf("%s: generate: %v", name, err)
						break
					}
					r := Validate(b)
					label := fmt.Sprintf("%s v%d.%d debug=%v loopbound=%v", name, ver.Major, ver.Minor, dbg, lb)
					for _, f := range r.Findings {
						t.Errorf("%s: %v", label, f)
					}
					if len(r.Unsupported) > 0 {
						t.Errorf("%s: unsupported %v", label, r.Unsupported)
					}
				}
			}
		}
	}
}

// TestNoInternalErrors mutates valid blobs word by word; the validator must neither panic nor
// take the recover path.
func TestNoInternalErrors(t *testing.T) {
	var blobs [][]byte
	blobs = append(blobs, newBase(0x00010300).bytes())
	for _, name := range []string{"loops", "types", "atomics-barriers", "control"} {
		src := samplePrograms[name]
		ast, err := naga.Parse(src)
		if err != nil {
			t.Fatal(err)
		}
		m, err := naga.LowerWithSource(ast, src)
		if err != nil {
			t.Fatal(err)
		}
		o := spirv.DefaultOptions()
		o.Debug = true
		b, err := naga.GenerateSPIRV(m, o)
		if err != nil {
			t.Fatal(err)
		}
		blobs = append(blobs, b)
	}
	seed := uint32(12345)
	rnd := func() uint32 { seed = seed*1664525 + 1013904223; return seed >> 8 }
	n := 0
	for _, b := range blobs {
		words := len(b) / 4
		step := 1
		if words > 120 {
			step = words / 120
		}
		for w := 0; w < words; w += step {
			for _, mode := range []int{0, 1, 2, 3} {
				g := append([]byte{}, b...)
				switch mode {
				case 0:
					g[4*w] ^= byte(1 + rnd()%255)
				case 1:
					g[4*w+2] ^= byte(1 + rnd()%7) // word count
				case 2:
					v := rnd() % 64
					g[4*w], g[4*w+1], g[4*w+2], g[4*w+3] = byte(v), 0, 0, 0
				case 3:
					g = g[:4*w]
				}
				r := Validate(g)
				n++
				for _, f := range r.Findings {
					if len(f.Detail) > 24 && f.Detail[:24] == "validator internal error" {
						t.Fatalf("internal error at word %d mode %d: %s", w, mode, f.Detail)
					}
				}
			}
		}
	}
	t.Logf("%d mutated blobs validated", n)
}
