package spvval

import "fmt"

// SPIR-V enumerants used by the rules (values from the SPIR-V specification).
const (
	scUniformConstant = 0
	scInput           = 1
	scUniform         = 2
	scOutput          = 3
	scWorkgroup       = 4
	scCrossWorkgroup  = 5
	scPrivate         = 6
	scFunction        = 7
	scGeneric         = 8
	scPushConstant    = 9
	scAtomicCounter   = 10
	scImage           = 11
	scStorageBuffer   = 12
	scPhysicalStorage = 5349
	scTaskPayloadEXT  = 5402
)

const (
	decSpecId            = 1
	decBlock             = 2
	decBufferBlock       = 3
	decRowMajor          = 4
	decColMajor          = 5
	decArrayStride       = 6
	decMatrixStride      = 7
	decBuiltIn           = 11
	decNoPerspective     = 13
	decFlat              = 14
	decPatch             = 15
	decCentroid          = 16
	decSample            = 17
	decInvariant         = 18
	decNonWritable       = 24
	decNonReadable       = 25
	decLocation          = 30
	decComponent         = 31
	decIndex             = 32
	decBinding           = 33
	decDescriptorSet     = 34
	decOffset            = 35
	decNoContraction     = 42
	decNonUniform        = 5300
	decPerPrimitiveEXT   = 5271
	decPerVertexKHR      = 5285
	decCounterBuffer     = 5634
	decUserSemantic      = 5635
	decUserTypeGOOGLE    = 5636
	decRelaxedPrecision  = 0
	decFPRoundingMode    = 39
	decFPFastMathMode    = 40
	decLinkageAttributes = 41
	decAliased           = 20
	decRestrict          = 19
	decAlignment         = 44
	decFuncParamAttr     = 38
	decExplicitInterpAMD = 4999
)

type typeKind int

const (
	tkVoid typeKind = iota + 1
	tkBool
	tkInt
	tkFloat
	tkVector
	tkMatrix
	tkImage
	tkSampler
	tkSampledImage
	tkArray
	tkRuntimeArray
	tkStruct
	tkPointer
	tkFunction
	tkAccel
	tkRayQuery
	tkOther
)

type typ struct {
	id      uint32
	kind    typeKind
	in      *inst
	width   uint32 // int/float
	signed  bool   // int
	elem    uint32 // vector/matrix/array/runtime array element, pointer pointee, sampled image's image, image sampled type
	count   uint32 // vector components, matrix columns
	lenID   uint32 // array length constant id
	members []uint32
	sc      uint32 // pointer storage class
	ret     uint32 // function return
	params  []uint32
	// image
	dim, depth, arrayed, ms, sampled, format uint32
}

type konst struct {
	id    uint32
	in    *inst
	typ   uint32
	spec  bool
	words []uint32 // OpConstant / OpSpecConstant literal words
}

type deco struct {
	dec    uint32
	member int // -1 = whole id
	args   []uint32
	in     *inst
}

type block struct {
	label    uint32
	idx      int // index inside function
	first    int // instruction index of OpLabel
	insts    []*inst
	term     *inst // last instruction if it is a terminator
	merge    *inst // OpSelectionMerge / OpLoopMerge if present anywhere in block
	succs    []int
	preds    []int
	reach    bool
	idom     int // immediate dominator (block index), -1 for entry/unreachable
	domDepth int
	rpo      int
}

type function struct {
	def     *inst
	id      uint32
	end     *inst
	params  []*inst
	blocks  []*block
	byLabel map[uint32]int
	// instructions between OpFunction and OpFunctionEnd that are in no block (besides params)
	stray []*inst
}

type entryPoint struct {
	in    *inst
	model uint32
	fn    uint32
	name  string
	iface []uint32
}

type module struct {
	s      *stream
	insts  []*inst
	defs   map[uint32]*inst
	types  map[uint32]*typ
	consts map[uint32]*konst
	gvars  map[uint32]*inst
	decos  map[uint32][]deco
	fns    []*function
	fnByID map[uint32]*function
	extImp map[uint32]string
	caps   map[uint32]bool
	exts   map[uint32]bool
	extStr map[string]bool
	eps    []*entryPoint
	modes  map[uint32][]*inst // function id -> OpExecutionMode(Id)
	fwdPtr map[uint32]bool
	// valType gives the type id of every value-producing result id.
	valType map[uint32]uint32
	// defFn / defBlk locate results defined inside functions.
	defFn               map[uint32]*function
	defBlk              map[uint32]*block
	addrModel, memModel uint32
	hasMemModel         bool
}

func isTypeOp(op uint16) bool {
	switch op {
	case 19, 20, 21, 22, 23, 24, 25, 26, 27, 28, 29, 30, 32, 33, 4472, 5341:
		return true
	}
	return false
}

func isConstOp(op uint16) bool {
	switch op {
	case 41, 42, 43, 44, 46, 48, 49, 50, 51, 52:
		return true
	}
	return false
}

func isTerminator(op uint16) bool {
	switch op {
	case 249, 250, 251, 252, 253, 254, 255, 4416:
		return true
	}
	return false
}

func isBranch(op uint16) bool { return op == 249 || op == 250 || op == 251 }

func buildModule(s *stream) *module {
	m := &module{
		s: s, insts: s.insts,
		defs: map[uint32]*inst{}, types: map[uint32]*typ{}, consts: map[uint32]*konst{},
		gvars: map[uint32]*inst{}, decos: map[uint32][]deco{}, fnByID: map[uint32]*function{},
		extImp: map[uint32]string{}, caps: map[uint32]bool{}, exts: map[uint32]bool{}, extStr: map[string]bool{},
		modes: map[uint32][]*inst{}, fwdPtr: map[uint32]bool{}, valType: map[uint32]uint32{},
		defFn: map[uint32]*function{}, defBlk: map[uint32]*block{},
	}
	var cur *function
	var blk *block
	for _, in := range s.insts {
		if in.res != 0 {
			if _, dup := m.defs[in.res]; !dup {
				m.defs[in.res] = in
				if in.typ != 0 {
					m.valType[in.res] = in.typ
				}
			}
		}
		if in.bad {
			// keep going: layout rules report it; do not interpret operands.
			if in.op == 54 || in.op == 56 || in.op == 248 {
				// still track structure below
			} else if cur == nil {
				continue
			}
		}
		switch in.op {
		case 17:
			m.caps[in.w(1)] = true
		case 10:
			m.extStr[decodeString(in.words, 1)] = true
		case 11:
			m.extImp[in.res] = decodeString(in.words, 2)
		case 14:
			m.addrModel, m.memModel, m.hasMemModel = in.w(1), in.w(2), true
		case 15:
			ep := &entryPoint{in: in, model: in.w(1), fn: in.w(2)}
			ep.name = decodeString(in.words, 3)
			n := strWords(in.words, 3)
			if n > 0 {
				ep.iface = append(ep.iface, in.words[3+n:]...)
			}
			m.eps = append(m.eps, ep)
		case 16, 331:
			m.modes[in.w(1)] = append(m.modes[in.w(1)], in)
		case 39:
			m.fwdPtr[in.w(1)] = true
		case 71, 332:
			if len(in.words) >= 3 {
				m.decos[in.w(1)] = append(m.decos[in.w(1)], deco{dec: in.w(2), member: -1, args: in.words[3:], in: in})
			}
		case 72:
			if len(in.words) >= 4 {
				m.decos[in.w(1)] = append(m.decos[in.w(1)], deco{dec: in.w(3), member: int(in.w(2)), args: in.words[4:], in: in})
			}
		case 54:
			if cur == nil {
				cur = &function{def: in, id: in.res, byLabel: map[uint32]int{}}
				m.fns = append(m.fns, cur)
				if _, dup := m.fnByID[in.res]; !dup {
					m.fnByID[in.res] = cur
				}
				blk = nil
				continue
			}
		case 56:
			if cur != nil {
				cur.end = in
				cur = nil
				blk = nil
				continue
			}
		}
		if cur == nil {
			m.buildGlobal(in)
			continue
		}
		// inside a function
		in.fn = cur
		if in.res != 0 {
			if _, ok := m.defFn[in.res]; !ok {
				m.defFn[in.res] = cur
			}
		}
		if in.op == 248 {
			blk = &block{label: in.res, idx: len(cur.blocks), first: in.idx, idom: -1}
			blk.insts = append(blk.insts, in)
			if _, dup := cur.byLabel[in.res]; !dup {
				cur.byLabel[in.res] = blk.idx
			}
			cur.blocks = append(cur.blocks, blk)
			if _, ok := m.defBlk[in.res]; !ok {
				m.defBlk[in.res] = blk
			}
			continue
		}
		if blk == nil {
			if in.op == 55 && len(cur.blocks) == 0 {
				cur.params = append(cur.params, in)
			} else {
				cur.stray = append(cur.stray, in)
			}
			continue
		}
		blk.insts = append(blk.insts, in)
		if in.res != 0 {
			if _, ok := m.defBlk[in.res]; !ok {
				m.defBlk[in.res] = blk
			}
		}
		if in.op == 246 || in.op == 247 {
			if blk.merge == nil {
				blk.merge = in
			}
		}
		if isTerminator(in.op) {
			blk.term = in
			blk = nil
		}
	}
	for _, f := range m.fns {
		m.fixSwitches(f)
		m.finishCFG(f)
	}
	return m
}

func (m *module) buildGlobal(in *inst) {
	if in.bad {
		return
	}
	switch {
	case isTypeOp(in.op):
		if _, dup := m.types[in.res]; dup {
			return
		}
		t := &typ{id: in.res, in: in}
		switch in.op {
		case 19:
			t.kind = tkVoid
		case 20:
			t.kind = tkBool
		case 21:
			t.kind, t.width, t.signed = tkInt, in.w(2), in.w(3) != 0
		case 22:
			t.kind, t.width = tkFloat, in.w(2)
		case 23:
			t.kind, t.elem, t.count = tkVector, in.w(2), in.w(3)
		case 24:
			t.kind, t.elem, t.count = tkMatrix, in.w(2), in.w(3)
		case 25:
			t.kind, t.elem = tkImage, in.w(2)
			t.dim, t.depth, t.arrayed, t.ms, t.sampled, t.format = in.w(3), in.w(4), in.w(5), in.w(6), in.w(7), in.w(8)
		case 26:
			t.kind = tkSampler
		case 27:
			t.kind, t.elem = tkSampledImage, in.w(2)
		case 28:
			t.kind, t.elem, t.lenID = tkArray, in.w(2), in.w(3)
		case 29:
			t.kind, t.elem = tkRuntimeArray, in.w(2)
		case 30:
			t.kind = tkStruct
			t.members = append([]uint32(nil), in.words[2:]...)
		case 32:
			t.kind, t.sc, t.elem = tkPointer, in.w(2), in.w(3)
		case 33:
			t.kind, t.ret = tkFunction, in.w(2)
			t.params = append([]uint32(nil), in.words[3:]...)
		case 4472:
			t.kind = tkRayQuery
		case 5341:
			t.kind = tkAccel
		}
		m.types[in.res] = t
	case isConstOp(in.op):
		if _, dup := m.consts[in.res]; dup {
			return
		}
		k := &konst{id: in.res, in: in, typ: in.typ, spec: in.op >= 48}
		if in.op == 43 || in.op == 50 {
			k.words = in.words[3:]
		}
		m.consts[in.res] = k
	case in.op == 59:
		if _, dup := m.gvars[in.res]; !dup {
			m.gvars[in.res] = in
		}
	}
}

// fixSwitches fills in the id uses of OpSwitch now that selector types are known.
func (m *module) fixSwitches(f *function) {
	for _, b := range f.blocks {
		for _, in := range b.insts {
			if in.op != 251 || len(in.words) < 3 {
				continue
			}
			in.uses = in.uses[:0]
			in.uses = append(in.uses, idUse{pos: 1, id: in.words[1]}, idUse{pos: 2, id: in.words[2], fwd: true})
			lw := m.switchLitWords(in)
			rest := len(in.words) - 3
			if rest%(lw+1) != 0 {
				in.bad = true
				continue
			}
			for p := 3; p < len(in.words); p += lw + 1 {
				in.uses = append(in.uses, idUse{pos: p + lw, id: in.words[p+lw], fwd: true})
			}
		}
	}
}

func (m *module) switchLitWords(in *inst) int {
	if t := m.types[m.valType[in.w(1)]]; t != nil && t.kind == tkInt && t.width > 32 {
		return int((t.width + 31) / 32)
	}
	return 1
}

// switchCases returns (literal words, target) for every case of an OpSwitch.
func (m *module) switchCases(in *inst) (lits [][]uint32, targets []uint32) {
	lw := m.switchLitWords(in)
	for p := 3; p+lw < len(in.words); p += lw + 1 {
		lits = append(lits, in.words[p:p+lw])
		targets = append(targets, in.words[p+lw])
	}
	return
}

func branchTargets(m *module, in *inst) []uint32 {
	switch in.op {
	case 249:
		return []uint32{in.w(1)}
	case 250:
		return []uint32{in.w(2), in.w(3)}
	case 251:
		_, t := m.switchCases(in)
		return append([]uint32{in.w(2)}, t...)
	}
	return nil
}

func (m *module) finishCFG(f *function) {
	for _, b := range f.blocks {
		b.succs, b.preds = nil, nil
	}
	for _, b := range f.blocks {
		if b.term == nil || b.term.bad {
			continue
		}
		seen := map[int]bool{}
		for _, t := range branchTargets(m, b.term) {
			ti, ok := f.byLabel[t]
			if !ok || seen[ti] {
				continue
			}
			seen[ti] = true
			b.succs = append(b.succs, ti)
			f.blocks[ti].preds = append(f.blocks[ti].preds, b.idx)
		}
	}
	if len(f.blocks) == 0 {
		return
	}
	// reverse post-order from the entry block (iterative DFS)
	n := len(f.blocks)
	order := make([]int, 0, n)
	state := make([]int, n)
	type frame struct{ b, i int }
	stack := []frame{{0, 0}}
	state[0] = 1
	for len(stack) > 0 {
		fr := &stack[len(stack)-1]
		b := f.blocks[fr.b]
		if fr.i < len(b.succs) {
			s := b.succs[fr.i]
			fr.i++
			if state[s] == 0 {
				state[s] = 1
				stack = append(stack, frame{s, 0})
			}
			continue
		}
		order = append(order, fr.b)
		stack = stack[:len(stack)-1]
	}
	for i, j := 0, len(order)-1; i < j; i, j = i+1, j-1 {
		order[i], order[j] = order[j], order[i]
	}
	for i, bi := range order {
		f.blocks[bi].reach = true
		f.blocks[bi].rpo = i
	}
	// Cooper-Harvey-Kennedy iterative dominators
	idom := make([]int, n)
	for i := range idom {
		idom[i] = -1
	}
	idom[0] = 0
	intersect := func(a, b int) int {
		for a != b {
			for f.blocks[a].rpo > f.blocks[b].rpo {
				a = idom[a]
			}
			for f.blocks[b].rpo > f.blocks[a].rpo {
				b = idom[b]
			}
		}
		return a
	}
	for changed := true; changed; {
		changed = false
		for _, bi := range order[1:] {
			nd := -1
			for _, p := range f.blocks[bi].preds {
				if !f.blocks[p].reach || idom[p] < 0 {
					continue
				}
				if nd < 0 {
					nd = p
				} else {
					nd = intersect(p, nd)
				}
			}
			if nd >= 0 && idom[bi] != nd {
				idom[bi] = nd
				changed = true
			}
		}
	}
	for _, bi := range order {
		b := f.blocks[bi]
		if bi == 0 {
			b.idom = -1
			b.domDepth = 0
		} else {
			b.idom = idom[bi]
			b.domDepth = f.blocks[idom[bi]].domDepth + 1
		}
	}
}

// dominates reports whether block a dominates block b (reflexive). Both must be reachable.
func (f *function) dominates(a, b int) bool {
	if a < 0 || b < 0 || a >= len(f.blocks) || b >= len(f.blocks) {
		return false
	}
	ba, bb := f.blocks[a], f.blocks[b]
	if !ba.reach || !bb.reach {
		return false
	}
	for bb.domDepth > ba.domDepth && bb.idom >= 0 {
		bb = f.blocks[bb.idom]
	}
	return bb == ba
}

// ---- type helpers ----

func (m *module) T(id uint32) *typ { return m.types[id] }

// typeOf returns the type of a value id (nil when unknown / not a value).
func (m *module) typeOf(id uint32) *typ { return m.types[m.valType[id]] }

func (t *typ) isScalarInt() bool   { return t != nil && t.kind == tkInt }
func (t *typ) isScalarFloat() bool { return t != nil && t.kind == tkFloat }
func (t *typ) isScalarBool() bool  { return t != nil && t.kind == tkBool }

// scalarOf returns the component type of a scalar or vector (nil otherwise), and its component
// count (1 for scalars).
func (m *module) scalarOf(t *typ) (*typ, uint32) {
	if t == nil {
		return nil, 0
	}
	switch t.kind {
	case tkBool, tkInt, tkFloat:
		return t, 1
	case tkVector:
		e := m.types[t.elem]
		if e == nil || (e.kind != tkBool && e.kind != tkInt && e.kind != tkFloat) {
			return nil, 0
		}
		return e, t.count
	}
	return nil, 0
}

func (m *module) describe(id uint32) string { return m.describeD(id, 0) }

func (m *module) describeD(id uint32, depth int) string {
	if depth > 8 {
		return "..."
	}
	depth++
	t := m.types[id]
	if t == nil {
		return fmt.Sprintf("%%%d(not a type)", id)
	}
	switch t.kind {
	case tkVoid:
		return "void"
	case tkBool:
		return "bool"
	case tkInt:
		if t.signed {
			return fmt.Sprintf("i%d", t.width)
		}
		return fmt.Sprintf("u%d", t.width)
	case tkFloat:
		return fmt.Sprintf("f%d", t.width)
	case tkVector:
		return fmt.Sprintf("vec%d<%s>", t.count, m.describeD(t.elem, depth))
	case tkMatrix:
		return fmt.Sprintf("mat%d<%s>", t.count, m.describeD(t.elem, depth))
	case tkArray:
		return fmt.Sprintf("array<%s,%%%d>#%d", m.describeD(t.elem, depth), t.lenID, id)
	case tkRuntimeArray:
		return fmt.Sprintf("rtarray<%s>#%d", m.describeD(t.elem, depth), id)
	case tkStruct:
		return fmt.Sprintf("struct#%d", id)
	case tkPointer:
		return fmt.Sprintf("ptr<%d,%s>", t.sc, m.describeD(t.elem, depth))
	case tkImage:
		return fmt.Sprintf("image#%d", id)
	case tkSampler:
		return "sampler"
	case tkSampledImage:
		return fmt.Sprintf("sampledimage#%d", id)
	case tkFunction:
		return fmt.Sprintf("fn#%d", id)
	}
	return fmt.Sprintf("type#%d", id)
}

// constU32 returns the value of a non-spec 32-bit-or-narrower integer OpConstant.
func (m *module) constU32(id uint32) (uint32, bool) {
	k := m.consts[id]
	if k == nil || k.in.op != 43 || len(k.words) != 1 {
		return 0, false
	}
	t := m.types[k.typ]
	if t == nil || t.kind != tkInt || t.width > 32 {
		return 0, false
	}
	return k.words[0], true
}

// constIntAny returns the value of an integer OpConstant or OpSpecConstant (default value).
func (m *module) constIntAny(id uint32) (uint64, bool) {
	k := m.consts[id]
	if k == nil || (k.in.op != 43 && k.in.op != 50) || len(k.words) == 0 {
		return 0, false
	}
	t := m.types[k.typ]
	if t == nil || t.kind != tkInt {
		return 0, false
	}
	v := uint64(k.words[0])
	if len(k.words) > 1 {
		v |= uint64(k.words[1]) << 32
	}
	return v, true
}

func (m *module) hasDeco(id uint32, dec uint32) bool {
	for _, d := range m.decos[id] {
		if d.member < 0 && d.dec == dec {
			return true
		}
	}
	return false
}

func (m *module) getDeco(id uint32, dec uint32) (uint32, bool) {
	for _, d := range m.decos[id] {
		if d.member < 0 && d.dec == dec {
			if len(d.args) > 0 {
				return d.args[0], true
			}
			return 0, true
		}
	}
	return 0, false
}

func (m *module) memberDeco(id uint32, member int, dec uint32) (uint32, bool) {
	for _, d := range m.decos[id] {
		if d.member == member && d.dec == dec {
			if len(d.args) > 0 {
				return d.args[0], true
			}
			return 0, true
		}
	}
	return 0, false
}
