package spvval

// Further image and fragment-output rules (written from the SPIR-V specification, sections 3.14 "Image
// Operands", 3.52.10 "Image Instructions", the OpTypeImage description, and the Vulkan specification's
// "Validation Rules within a Module" / "Image Format and Type Matching").

const (
	RImageCoord    = "image-coordinate-size"
	RImageSample   = "image-sample-operand"
	RImageQuery    = "image-query-class"
	RImageFormat   = "image-format-type"
	RFragDepthMode = "frag-depth-mode"
)

func init() {
	allRules = append(allRules, RImageCoord, RImageSample, RImageQuery, RImageFormat, RFragDepthMode)
}

// imageOf returns the image type behind an Image or Sampled Image operand.
func (c *ctx) imageOf(id uint32) *typ {
	t := c.m.typeOf(id)
	if t == nil {
		return nil
	}
	if t.kind == tkSampledImage {
		t = c.m.types[t.elem]
	}
	if t == nil || t.kind != tkImage {
		return nil
	}
	return t
}

func dimCoords(dim uint32) uint32 {
	switch dim {
	case 0, 5: // 1D, Buffer
		return 1
	case 1, 4, 6: // 2D, Rect, SubpassData
		return 2
	case 2, 3: // 3D, Cube
		return 3
	}
	return 0
}

func (c *ctx) checkImageExtra() {
	m := c.m
	for _, in := range m.insts {
		if in.bad {
			continue
		}
		switch in.op {
		case 25: // OpTypeImage: Vulkan "Image Format and Type Matching"
			t := m.types[in.res]
			if t == nil || t.format == 0 {
				break
			}
			st := m.types[t.elem]
			if st == nil {
				break
			}
			switch {
			case t.format >= 1 && t.format <= 20:
				c.check(RImageFormat, st.kind == tkFloat && st.width == 32, in, "image format %d has a floating-point / normalized numeric type, the Sampled Type is %s", t.format, m.describe(t.elem))
			case t.format >= 21 && t.format <= 29:
				c.check(RImageFormat, st.kind == tkInt && st.width == 32 && st.signed, in, "image format %d is a signed-integer format, the Sampled Type is %s", t.format, m.describe(t.elem))
			case t.format >= 30 && t.format <= 39:
				c.check(RImageFormat, st.kind == tkInt && st.width == 32 && !st.signed, in, "image format %d is an unsigned-integer format, the Sampled Type is %s", t.format, m.describe(t.elem))
			}
		case 87, 88, 89, 90, 95, 96, 97, 98, 99:
			// non-projective accesses: Coordinate holds one component per image dimension plus the array layer
			img := c.imageOf(in.arg(0))
			if img == nil {
				break
			}
			if ct := m.typeOf(in.arg(1)); ct != nil {
				_, n := m.scalarOf(ct)
				want := dimCoords(img.dim) + img.arrayed
				if want > 0 && n > 0 {
					c.check(RImageCoord, n >= want, in, "Coordinate has %d components, the image (dim %d, arrayed %d) needs %d", n, img.dim, img.arrayed, want)
				}
			}
			// image operands
			k := 2
			switch in.op {
			case 89, 90, 96, 97, 99:
				k = 3
			}
			mask := uint32(0)
			if in.nargs() > k {
				mask = in.arg(k)
			}
			if mask&0x40 != 0 {
				c.check(RImageSample, in.op == 95 || in.op == 98 || in.op == 99, in, "image operand Sample is only valid with OpImageFetch, OpImageRead and OpImageWrite")
				c.check(RImageSample, img.ms == 1, in, "image operand Sample on an image with MS = 0")
			} else if in.op == 95 || in.op == 98 || in.op == 99 {
				c.check(RImageSample, img.ms == 0, in, "access to a multisampled image without the Sample image operand")
			}
			if in.op != 95 && in.op != 98 && in.op != 99 {
				c.check(RImageSample, img.ms == 0, in, "sampling instruction on a multisampled image")
			}
			if mask&0x2 != 0 && in.op == 95 {
				c.check(RImageSample, img.ms == 0, in, "image operand Lod on a multisampled image")
			}
		case 104: // OpImageQuerySize
			img := c.imageOf(in.arg(0))
			if img == nil {
				break
			}
			switch img.dim {
			case 0, 1, 2, 3:
				c.check(RImageQuery, img.ms == 1 || img.sampled == 0 || img.sampled == 2, in, "OpImageQuerySize on a 1D/2D/3D/Cube image needs MS = 1 or Sampled = 0 or 2 (this image: MS %d, Sampled %d)", img.ms, img.sampled)
			}
		case 103, 106: // OpImageQuerySizeLod, OpImageQueryLevels
			img := c.imageOf(in.arg(0))
			if img == nil {
				break
			}
			c.check(RImageQuery, img.dim <= 3, in, "%s on an image whose Dim is not 1D, 2D, 3D or Cube", OpName(in.op))
			if in.op == 103 {
				c.check(RImageQuery, img.ms == 0, in, "OpImageQuerySizeLod on a multisampled image")
			}
		case 107: // OpImageQuerySamples
			img := c.imageOf(in.arg(0))
			if img == nil {
				break
			}
			c.check(RImageQuery, img.dim == 1 && img.ms == 1, in, "OpImageQuerySamples needs a 2D image with MS = 1 (this image: dim %d, MS %d)", img.dim, img.ms)
		}
	}
	// FragDepth: a Fragment entry point whose call tree references the FragDepth output must declare DepthReplacing
	for _, ep := range m.eps {
		if ep.model != emFragment {
			continue
		}
		f := m.fnByID[ep.fn]
		if f == nil {
			continue
		}
		_, vars := m.callTree(f)
		modes := map[uint32]bool{}
		for _, mi := range m.modes[ep.fn] {
			modes[mi.w(2)] = true
		}
		for id := range vars {
			g := m.gvars[id]
			if g == nil || g.arg(0) != scOutput {
				continue
			}
			if b, ok := m.getDeco(id, decBuiltIn); ok && b == 22 {
				c.check(RFragDepthMode, modes[12], ep.in, "entry point %q writes BuiltIn FragDepth (%%%d) without the DepthReplacing execution mode", ep.name, id)
			}
		}
	}
}
