package spvval

// GLSL.std.450 extended instructions ("SPIR-V Extended Instructions for GLSL", version 1.00).

type glslKind int

const (
	gkFloatSame   glslKind = iota + 1 // all operands and result: same float scalar/vector type
	gkFloatSame32                     // same, 16/32-bit components only
	gkIntLoose                        // ints, same component count and width as the result
	gkDeterminant
	gkMatrixInverse
	gkModf
	gkModfStruct
	gkFrexp
	gkFrexpStruct
	gkLdexp
	gkPack4   // vec4<f32> -> 32-bit int scalar
	gkPack2   // vec2<f32> -> 32-bit int scalar
	gkUnpack2 // 32-bit int scalar -> vec2<f32>
	gkUnpack4 // 32-bit int scalar -> vec4<f32>
	gkLength
	gkDistance
	gkCross
	gkRefract
	gkInterp // operand counts only
	gkPackDouble
	gkUnpackDouble
)

type glslInfo struct {
	name string
	n    int
	kind glslKind
}

var glslTable = map[uint32]glslInfo{
	1: {"Round", 1, gkFloatSame}, 2: {"RoundEven", 1, gkFloatSame}, 3: {"Trunc", 1, gkFloatSame},
	4: {"FAbs", 1, gkFloatSame}, 5: {"SAbs", 1, gkIntLoose}, 6: {"FSign", 1, gkFloatSame}, 7: {"SSign", 1, gkIntLoose},
	8: {"Floor", 1, gkFloatSame}, 9: {"Ceil", 1, gkFloatSame}, 10: {"Fract", 1, gkFloatSame},
	11: {"Radians", 1, gkFloatSame32}, 12: {"Degrees", 1, gkFloatSame32}, 13: {"Sin", 1, gkFloatSame32},
	14: {"Cos", 1, gkFloatSame32}, 15: {"Tan", 1, gkFloatSame32}, 16: {"Asin", 1, gkFloatSame32},
	17: {"Acos", 1, gkFloatSame32}, 18: {"Atan", 1, gkFloatSame32}, 19: {"Sinh", 1, gkFloatSame32},
	20: {"Cosh", 1, gkFloatSame32}, 21: {"Tanh", 1, gkFloatSame32}, 22: {"Asinh", 1, gkFloatSame32},
	23: {"Acosh", 1, gkFloatSame32}, 24: {"Atanh", 1, gkFloatSame32}, 25: {"Atan2", 2, gkFloatSame32},
	26: {"Pow", 2, gkFloatSame32}, 27: {"Exp", 1, gkFloatSame32}, 28: {"Log", 1, gkFloatSame32},
	29: {"Exp2", 1, gkFloatSame32}, 30: {"Log2", 1, gkFloatSame32}, 31: {"Sqrt", 1, gkFloatSame},
	32: {"InverseSqrt", 1, gkFloatSame}, 33: {"Determinant", 1, gkDeterminant}, 34: {"MatrixInverse", 1, gkMatrixInverse},
	35: {"Modf", 2, gkModf}, 36: {"ModfStruct", 1, gkModfStruct}, 37: {"FMin", 2, gkFloatSame}, 38: {"UMin", 2, gkIntLoose},
	39: {"SMin", 2, gkIntLoose}, 40: {"FMax", 2, gkFloatSame}, 41: {"UMax", 2, gkIntLoose}, 42: {"SMax", 2, gkIntLoose},
	43: {"FClamp", 3, gkFloatSame}, 44: {"UClamp", 3, gkIntLoose}, 45: {"SClamp", 3, gkIntLoose},
	46: {"FMix", 3, gkFloatSame}, 48: {"Step", 2, gkFloatSame}, 49: {"SmoothStep", 3, gkFloatSame},
	50: {"Fma", 3, gkFloatSame}, 51: {"Frexp", 2, gkFrexp}, 52: {"FrexpStruct", 1, gkFrexpStruct}, 53: {"Ldexp", 2, gkLdexp},
	54: {"PackSnorm4x8", 1, gkPack4}, 55: {"PackUnorm4x8", 1, gkPack4}, 56: {"PackSnorm2x16", 1, gkPack2},
	57: {"PackUnorm2x16", 1, gkPack2}, 58: {"PackHalf2x16", 1, gkPack2}, 59: {"PackDouble2x32", 1, gkPackDouble},
	60: {"UnpackSnorm2x16", 1, gkUnpack2}, 61: {"UnpackUnorm2x16", 1, gkUnpack2}, 62: {"UnpackHalf2x16", 1, gkUnpack2},
	63: {"UnpackSnorm4x8", 1, gkUnpack4}, 64: {"UnpackUnorm4x8", 1, gkUnpack4}, 65: {"UnpackDouble2x32", 1, gkUnpackDouble},
	66: {"Length", 1, gkLength}, 67: {"Distance", 2, gkDistance}, 68: {"Cross", 2, gkCross}, 69: {"Normalize", 1, gkFloatSame},
	70: {"FaceForward", 3, gkFloatSame}, 71: {"Reflect", 2, gkFloatSame}, 72: {"Refract", 3, gkRefract},
	73: {"FindILsb", 1, gkIntLoose}, 74: {"FindSMsb", 1, gkIntLoose}, 75: {"FindUMsb", 1, gkIntLoose},
	76: {"InterpolateAtCentroid", 1, gkInterp}, 77: {"InterpolateAtSample", 2, gkInterp}, 78: {"InterpolateAtOffset", 2, gkInterp},
	79: {"NMin", 2, gkFloatSame}, 80: {"NMax", 2, gkFloatSame}, 81: {"NClamp", 3, gkFloatSame},
}

func (c *ctx) typeExtInst(in *inst) {
	m := c.m
	set := in.arg(0)
	name, ok := m.extImp[set]
	if !c.check(RExtInst, ok, in, "Set operand %%%d is not the result of an OpExtInstImport", set) {
		return
	}
	if name != "GLSL.std.450" {
		c.unsupported("extended instruction set " + name)
		return
	}
	num := in.arg(1)
	info, ok := glslTable[num]
	if !c.check(RExtInst, ok, in, "GLSL.std.450 has no instruction number %d", num) {
		return
	}
	n := in.nargs() - 2
	if !c.check(RExtInst, n == info.n, in, "%s takes %d operand(s), %d given", info.name, info.n, n) {
		return
	}
	rt := in.typ
	R := m.shapeOf(rt)
	var ts []uint32
	for i := 0; i < n; i++ {
		t, ok := c.val(RExtInst, in, in.arg(2+i), "operand")
		if !ok {
			return
		}
		ts = append(ts, t)
	}
	c.rep.Combos["OpExtInst "+info.name+" "+m.describeShort(rt)]++
	f32vec := func(t uint32, n uint32) bool {
		s := m.shapeOf(t)
		return s.isFloat() && s.width == 32 && s.n == n
	}
	int32scalar := func(t uint32) bool {
		s := m.shapeOf(t)
		return s.isInt() && s.width == 32 && s.n == 1
	}
	switch info.kind {
	case gkFloatSame, gkFloatSame32:
		if !c.check(RExtInst, R.isFloat(), in, "%s: result type %s is not a floating-point scalar or vector", info.name, m.describe(rt)) {
			return
		}
		if info.kind == gkFloatSame32 {
			c.check(RExtInst, R.width == 16 || R.width == 32, in, "%s: component width %d, only 16 and 32 are allowed", info.name, R.width)
		}
		for i, t := range ts {
			c.check(RExtInst, t == rt, in, "%s: operand %d has type %s, must equal result type %s", info.name, i, m.describe(t), m.describe(rt))
		}
	case gkIntLoose:
		if !c.check(RExtInst, R.isInt(), in, "%s: result type %s is not an integer scalar or vector", info.name, m.describe(rt)) {
			return
		}
		for i, t := range ts {
			s := m.shapeOf(t)
			c.check(RExtInst, s.isInt() && s.n == R.n && s.width == R.width, in, "%s: operand %d has type %s; must be an integer type with the component count and width of %s", info.name, i, m.describe(t), m.describe(rt))
		}
	case gkDeterminant:
		mt := m.types[ts[0]]
		if !c.check(RExtInst, mt.kind == tkMatrix, in, "Determinant: operand has type %s", m.describe(ts[0])) {
			return
		}
		col := m.types[mt.elem]
		c.check(RExtInst, col != nil && col.count == mt.count, in, "Determinant: matrix %s is not square", m.describe(ts[0]))
		c.check(RExtInst, col != nil && col.elem == rt, in, "Determinant: result type %s is not the matrix component type", m.describe(rt))
	case gkMatrixInverse:
		mt := m.types[ts[0]]
		if !c.check(RExtInst, mt.kind == tkMatrix && ts[0] == rt, in, "MatrixInverse: operand type %s must be a matrix equal to result type %s", m.describe(ts[0]), m.describe(rt)) {
			return
		}
		col := m.types[mt.elem]
		c.check(RExtInst, col != nil && col.count == mt.count, in, "MatrixInverse: matrix %s is not square", m.describe(ts[0]))
	case gkModf:
		c.check(RExtInst, R.isFloat() && ts[0] == rt, in, "Modf: x has type %s, result type %s", m.describe(ts[0]), m.describe(rt))
		p := m.types[ts[1]]
		c.check(RExtInst, p.kind == tkPointer && p.elem == rt, in, "Modf: i has type %s, must be a pointer to %s", m.describe(ts[1]), m.describe(rt))
	case gkModfStruct:
		st := m.types[rt]
		c.check(RExtInst, st.kind == tkStruct && len(st.members) == 2 && st.members[0] == ts[0] && st.members[1] == ts[0] && m.shapeOf(ts[0]).isFloat(), in, "ModfStruct: result type must be a struct of two members of the operand type %s", m.describe(ts[0]))
	case gkFrexp:
		c.check(RExtInst, R.isFloat() && ts[0] == rt, in, "Frexp: x has type %s, result type %s", m.describe(ts[0]), m.describe(rt))
		p := m.types[ts[1]]
		if c.check(RExtInst, p.kind == tkPointer, in, "Frexp: exp has type %s, must be a pointer", m.describe(ts[1])) {
			s := m.shapeOf(p.elem)
			c.check(RExtInst, s.isInt() && s.n == R.n, in, "Frexp: exp points to %s; needs integer components, same count as %s", m.describe(p.elem), m.describe(rt))
		}
	case gkFrexpStruct:
		st := m.types[rt]
		if c.check(RExtInst, st.kind == tkStruct && len(st.members) == 2 && st.members[0] == ts[0] && m.shapeOf(ts[0]).isFloat(), in, "FrexpStruct: result type must be a struct whose first member is the operand type %s", m.describe(ts[0])) {
			s, x := m.shapeOf(st.members[1]), m.shapeOf(ts[0])
			c.check(RExtInst, s.isInt() && s.n == x.n, in, "FrexpStruct: second member %s must be an integer type with the component count of %s", m.describe(st.members[1]), m.describe(ts[0]))
		}
	case gkLdexp:
		c.check(RExtInst, R.isFloat() && ts[0] == rt, in, "Ldexp: x has type %s, result type %s", m.describe(ts[0]), m.describe(rt))
		s := m.shapeOf(ts[1])
		c.check(RExtInst, s.isInt() && s.n == R.n, in, "Ldexp: exp has type %s; needs integer components, same count as %s", m.describe(ts[1]), m.describe(rt))
	case gkPack4:
		c.check(RExtInst, int32scalar(rt), in, "%s: result type %s is not a 32-bit integer scalar", info.name, m.describe(rt))
		c.check(RExtInst, f32vec(ts[0], 4), in, "%s: operand type %s is not vec4<f32>", info.name, m.describe(ts[0]))
	case gkPack2:
		c.check(RExtInst, int32scalar(rt), in, "%s: result type %s is not a 32-bit integer scalar", info.name, m.describe(rt))
		c.check(RExtInst, f32vec(ts[0], 2), in, "%s: operand type %s is not vec2<f32>", info.name, m.describe(ts[0]))
	case gkUnpack2:
		c.check(RExtInst, f32vec(rt, 2), in, "%s: result type %s is not vec2<f32>", info.name, m.describe(rt))
		c.check(RExtInst, int32scalar(ts[0]), in, "%s: operand type %s is not a 32-bit integer scalar", info.name, m.describe(ts[0]))
	case gkUnpack4:
		c.check(RExtInst, f32vec(rt, 4), in, "%s: result type %s is not vec4<f32>", info.name, m.describe(rt))
		c.check(RExtInst, int32scalar(ts[0]), in, "%s: operand type %s is not a 32-bit integer scalar", info.name, m.describe(ts[0]))
	case gkLength:
		s := m.shapeOf(ts[0])
		e, _ := m.scalarOf(m.types[ts[0]])
		c.check(RExtInst, s.isFloat() && R.isFloat() && R.n == 1 && e != nil && e.id == rt, in, "Length: result %s must be the floating-point component type of operand %s", m.describe(rt), m.describe(ts[0]))
	case gkDistance:
		s := m.shapeOf(ts[0])
		e, _ := m.scalarOf(m.types[ts[0]])
		c.check(RExtInst, s.isFloat() && R.n == 1 && e != nil && e.id == rt, in, "Distance: result %s must be the floating-point component type of operand %s", m.describe(rt), m.describe(ts[0]))
		c.check(RExtInst, ts[0] == ts[1], in, "Distance: operand types differ (%s vs %s)", m.describe(ts[0]), m.describe(ts[1]))
	case gkCross:
		c.check(RExtInst, R.isFloat() && R.n == 3, in, "Cross: result type %s is not a 3-component floating-point vector", m.describe(rt))
		c.check(RExtInst, ts[0] == rt && ts[1] == rt, in, "Cross: operand types %s, %s must equal result type %s", m.describe(ts[0]), m.describe(ts[1]), m.describe(rt))
	case gkRefract:
		c.check(RExtInst, R.isFloat(), in, "Refract: result type %s is not floating-point", m.describe(rt))
		c.check(RExtInst, ts[0] == rt && ts[1] == rt, in, "Refract: I/N types %s, %s must equal result type %s", m.describe(ts[0]), m.describe(ts[1]), m.describe(rt))
		s := m.shapeOf(ts[2])
		c.check(RExtInst, s.isFloat() && s.n == 1, in, "Refract: eta has type %s, must be a floating-point scalar", m.describe(ts[2]))
	case gkPackDouble, gkUnpackDouble, gkInterp:
		c.fire(RExtInst)
	}
}
