package spvval

import (
	"fmt"
	"os"
	"path/filepath"
	"sort"
	"strconv"
	"strings"
	"testing"

	"github.com/gogpu/naga"
	"github.com/gogpu/naga/ir"
	"github.com/gogpu/naga/spirv"
)

const corpusDir = "/repo/snapshot/testdata/in"

var capByName = map[string]spirv.Capability{
	"Matrix": spirv.CapabilityMatrix, "Shader": spirv.CapabilityShader, "Float16": spirv.CapabilityFloat16,
	"Float64": spirv.CapabilityFloat64, "Int64": spirv.CapabilityInt64, "Int16": spirv.CapabilityInt16,
	"Int8": spirv.CapabilityInt8, "Linkage": spirv.CapabilityLinkage, "ClipDistance": spirv.CapabilityClipDistance,
	"ImageCubeArray": spirv.CapabilityImageCubeArray, "SampleRateShading": spirv.CapabilitySampleRateShading,
	"Sampled1D": spirv.CapabilitySampled1D, "Image1D": spirv.CapabilityImage1D,
	"SampledCubeArray":            spirv.CapabilitySampledCubeArray,
	"StorageImageExtendedFormats": spirv.CapabilityStorageImageExtendedFormats, "ImageQuery": spirv.CapabilityImageQuery,
	"DerivativeControl": spirv.CapabilityDerivativeControl, "StorageBuffer16BitAccess": spirv.CapabilityStorageBuffer16BitAccess,
	"UniformAndStorageBuffer16BitAccess": spirv.CapabilityUniformAndStorageBuffer16BitAccess,
	"StorageInputOutput16":               spirv.CapabilityStorageInputOutput16, "MultiView": spirv.CapabilityMultiView,
	"FragmentBarycentricKHR": spirv.CapabilityFragmentBarycentricKHR, "ShaderNonUniform": spirv.CapabilityShaderNonUniform,
	"AtomicFloat32AddEXT":         spirv.CapabilityAtomicFloat32AddEXT,
	"DotProductInput4x8BitPacked": spirv.CapabilityDotProductInput4x8BitPacked, "DotProduct": spirv.CapabilityDotProduct,
	"GroupNonUniform": spirv.CapabilityGroupNonUniform, "GroupNonUniformVote": spirv.CapabilityGroupNonUniformVote,
	"GroupNonUniformArithmetic": spirv.CapabilityGroupNonUniformArithmetic,
	"GroupNonUniformBallot":     spirv.CapabilityGroupNonUniformBallot, "GroupNonUniformShuffle": spirv.CapabilityGroupNonUniformShuffle,
	"GroupNonUniformShuffleRelative": spirv.CapabilityGroupNonUniformShuffleRel,
	"GroupNonUniformQuad":            spirv.CapabilityGroupNonUniformQuad, "Geometry": spirv.CapabilityGeometry,
	"SubgroupBallotKHR": spirv.CapabilitySubgroupBallotKHR,
}

type shaderCfg struct {
	opts      spirv.Options
	consts    ir.PipelineConstants
	spvTarget bool // toml "targets" absent or contains SPIRV
}

func readCfg(name string) shaderCfg {
	cfg := shaderCfg{opts: spirv.DefaultOptions(), spvTarget: true}
	data, err := os.ReadFile(filepath.Join(corpusDir, name+".toml"))
	if err != nil {
		return cfg
	}
	sec := ""
	for _, line := range strings.Split(string(data), "\n") {
		t := strings.TrimSpace(line)
		if strings.HasPrefix(t, "[") && strings.HasSuffix(t, "]") {
			sec = t
			continue
		}
		kv := strings.SplitN(t, "=", 2)
		if len(kv) != 2 {
			continue
		}
		k, v := strings.TrimSpace(kv[0]), strings.TrimSpace(kv[1])
		switch {
		case sec == "" && k == "targets":
			cfg.spvTarget = strings.Contains(v, "SPIRV")
		case k == "pipeline_constants":
			a, b := strings.Index(v, "{"), strings.LastIndex(v, "}")
			if a >= 0 && b > a {
				cfg.consts = ir.PipelineConstants{}
				for _, p := range strings.Split(v[a+1:b], ",") {
					q := strings.SplitN(p, "=", 2)
					if len(q) == 2 {
						if f, err := strconv.ParseFloat(strings.TrimSpace(q[1]), 64); err == nil {
							cfg.consts[strings.TrimSpace(q[0])] = f
						}
					}
				}
			}
		case sec == "[spv]":
			switch k {
			case "debug":
				cfg.opts.Debug = v == "true"
			case "use_storage_input_output_16":
				cfg.opts.UseStorageInputOutput16 = v == "true"
			case "force_point_size":
				cfg.opts.ForcePointSize = v == "true"
			case "adjust_coordinate_space":
				cfg.opts.AdjustCoordinateSpace = v == "true"
			case "ray_query_initialization_tracking":
				cfg.opts.RayQueryInitTracking = v == "true"
			case "version":
				v = strings.Trim(v, "[] ")
				p := strings.Split(v, ",")
				if len(p) == 2 {
					a, _ := strconv.Atoi(strings.TrimSpace(p[0]))
					b, _ := strconv.Atoi(strings.TrimSpace(p[1]))
					cfg.opts.Version = spirv.Version{Major: uint8(a), Minor: uint8(b)}
				}
			case "capabilities":
				v = strings.Trim(v, "[] ")
				caps := map[spirv.Capability]struct{}{}
				for _, it := range strings.Split(v, ",") {
					if c, ok := capByName[strings.Trim(strings.TrimSpace(it), "\"")]; ok {
						caps[c] = struct{}{}
					}
				}
				if len(caps) > 0 {
					cfg.opts.CapabilitiesAvailable = caps
				}
			}
		case sec == "[bounds_check_policies]":
			pol := spirv.BoundsCheckUnchecked
			switch strings.Trim(v, "\"") {
			case "ReadZeroSkipWrite":
				pol = spirv.BoundsCheckReadZeroSkipWrite
			case "Restrict":
				pol = spirv.BoundsCheckRestrict
			}
			switch k {
			case "image_load":
				cfg.opts.BoundsCheckPolicies.ImageLoad = pol
			case "image_store":
				cfg.opts.BoundsCheckPolicies.ImageStore = pol
			case "index":
				cfg.opts.BoundsCheckPolicies.Index = pol
			}
		}
	}
	return cfg
}

func lowerShader(name string, cfg shaderCfg) (*ir.Module, error) {
	src, err := os.ReadFile(filepath.Join(corpusDir, name+".wgsl"))
	if err != nil {
		return nil, err
	}
	ast, err := naga.Parse(string(src))
	if err != nil {
		return nil, err
	}
	m, err := naga.LowerWithSource(ast, string(src))
	if err != nil {
		return nil, err
	}
	if len(cfg.consts) > 0 {
		m = ir.CloneModuleForOverrides(m)
		if err := ir.ProcessOverrides(m, cfg.consts); err != nil {
			return nil, err
		}
	}
	return m, nil
}

func safeGenerate(m *ir.Module, o spirv.Options) (b []byte, err error) {
	defer func() {
		if r := recover(); r != nil {
			err = fmt.Errorf("panic: %v", r)
		}
	}()
	return naga.GenerateSPIRV(m, o)
}

type variant struct {
	label string
	opts  spirv.Options
}

func variants(cfg shaderCfg) []variant {
	vs := []variant{{"toml", cfg.opts}, {"default", spirv.DefaultOptions()}}
	for _, ver := range []spirv.Version{{Major: 1, Minor: 0}, {Major: 1, Minor: 1}, {Major: 1, Minor: 3}, {Major: 1, Minor: 4}, {Major: 1, Minor: 6}} {
		for _, dbg := range []bool{false, true} {
			o := cfg.opts
			o.Version = ver
			o.Debug = dbg
			vs = append(vs, variant{fmt.Sprintf("v%d.%d/debug=%v", ver.Major, ver.Minor, dbg), o})
		}
	}
	if os.Getenv("SPVVAL_CORPUS_FULL") == "" {
		return vs
	}
	for _, ver := range []spirv.Version{{Major: 1, Minor: 1}, {Major: 1, Minor: 4}} {
		mk := func(label string, f func(o *spirv.Options)) {
			o := cfg.opts
			o.Version = ver
			f(&o)
			vs = append(vs, variant{fmt.Sprintf("v%d.%d/%s", ver.Major, ver.Minor, label), o})
		}
		mk("noloopbound", func(o *spirv.Options) { o.ForceLoopBounding = false })
		mk("pointsize+flipY", func(o *spirv.Options) { o.ForcePointSize = true; o.AdjustCoordinateSpace = true })
		mk("restrict", func(o *spirv.Options) {
			o.BoundsCheckPolicies = spirv.BoundsCheckPolicies{Index: spirv.BoundsCheckRestrict, ImageLoad: spirv.BoundsCheckRestrict, ImageStore: spirv.BoundsCheckRestrict}
		})
		mk("rzsw", func(o *spirv.Options) {
			o.BoundsCheckPolicies = spirv.BoundsCheckPolicies{Index: spirv.BoundsCheckReadZeroSkipWrite, ImageLoad: spirv.BoundsCheckReadZeroSkipWrite, ImageStore: spirv.BoundsCheckReadZeroSkipWrite}
		})
		mk("noio16+noraytrack", func(o *spirv.Options) { o.UseStorageInputOutput16 = false; o.RayQueryInitTracking = false })
	}
	return vs
}

// knownFindings lists the corpus findings that were triaged as genuine specification violations
// of the compiler under test (rule -> shader set). Anything else fails the test.
// Key: rule + " " + shader; value: variants ("*" = any).
var knownFindings = func() map[string]string {
	k := map[string]string{}
	add := func(rule, why string, shaders ...string) {
		for _, s := range shaders {
			k[rule+" "+s] = why
		}
	}
	// Vulkan requires extended (std140) alignment in Uniform blocks unless uniformBufferStandardLayout is
	// enabled: matCx2<f32> / f16 matrices get MatrixStride 8 or 4 (upstream validates with
	// --uniform-buffer-standard-layout).
	add(RLayoutAlign140, "matrix stride < 16 in a Uniform block", "access", "f16", "globals", "hlsl_mat_cx2", "ptr-deref-test")
	// binding_array<T> without a size becomes a variable of OpTypeRuntimeArray type, which needs the
	// RuntimeDescriptorArray capability (SPV_EXT_descriptor_indexing); only ShaderNonUniform is declared.
	add(RCapability, "RuntimeDescriptorArray not declared", "binding-arrays")
	// ImageLoad = Restrict: the clamp constant vec<u32> is built from i32 OpConstants.
	add(RConstant, "u32 vector constant with i32 constituents (ImageLoad=Restrict)", "image", "storage-textures", "texture-external")
	// ImageLoad = ReadZeroSkipWrite on images without mip levels: conditional branch without OpSelectionMerge.
	add(RSelStructured, "bounds-check branch without OpSelectionMerge (ImageLoad=ReadZeroSkipWrite)",
		"bounds-check-image-restrict", "bounds-check-image-restrict-depth", "bounds-check-image-rzsw", "bounds-check-image-rzsw-depth",
		"image", "storage-textures", "texture-external")
	return k
}()

// TestCorpusCalibration runs the validator over the SPIR-V produced for every corpus shader at
// several versions / debug settings (12 option sets per shader; SPVVAL_CORPUS_FULL=1 adds 10 more:
// loop bounding off, ForcePointSize+AdjustCoordinateSpace, image/index bounds policies, ...).
// Set SPVVAL_CORPUS_DUMP=1 to print every finding.
func TestCorpusCalibration(t *testing.T) {
	files, _ := filepath.Glob(filepath.Join(corpusDir, "*.wgsl"))
	if len(files) == 0 {
		t.Skip("corpus not available")
	}
	sort.Strings(files)
	dump := os.Getenv("SPVVAL_CORPUS_DUMP") != ""
	only := os.Getenv("SPVVAL_CORPUS_ONLY")
	blobs, lowerFail, genFail := 0, 0, 0
	fired := map[string]int{}
	opcodes := map[uint16]int{}
	combos := map[string]int{}
	unsup := map[string]int{}
	type agg struct {
		n       int
		shaders map[string]map[string]bool
		example string
	}
	byRule := map[string]*agg{}
	unexpected := 0
	for _, f := range files {
		name := strings.TrimSuffix(filepath.Base(f), ".wgsl")
		if only != "" && !strings.Contains(name, only) {
			continue
		}
		cfg := readCfg(name)
		m, err := lowerShader(name, cfg)
		if err != nil {
			lowerFail++
			continue
		}
		for _, v := range variants(cfg) {
			// a fresh module per variant: the backend is not guaranteed to leave it untouched
			mm, err := lowerShader(name, cfg)
			if err != nil {
				mm = m
			}
			b, err := safeGenerate(mm, v.opts)
			if err != nil {
				genFail++
				if dump {
					t.Logf("GENFAIL %s %s: %v", name, v.label, err)
				}
				continue
			}
			blobs++
			rep := Validate(b)
			for k, n := range rep.Fired {
				fired[k] += n
			}
			for k, n := range rep.Opcodes {
				opcodes[k] += n
			}
			for k, n := range rep.Combos {
				combos[k] += n
			}
			for _, u := range rep.Unsupported {
				unsup[u]++
			}
			for _, fd := range rep.Findings {
				a := byRule[fd.Rule]
				if a == nil {
					a = &agg{shaders: map[string]map[string]bool{}}
					byRule[fd.Rule] = a
				}
				a.n++
				if a.shaders[name] == nil {
					a.shaders[name] = map[string]bool{}
				}
				a.shaders[name][v.label] = true
				if a.example == "" {
					a.example = fmt.Sprintf("%s %s: %s", name, v.label, fd.Detail)
				}
				if dump {
					t.Logf("FINDING %s [%s] spvTarget=%v %s", name, v.label, cfg.spvTarget, fd)
				}
				if _, ok := knownFindings[fd.Rule+" "+name]; !ok {
					unexpected++
				}
			}
		}
	}
	t.Logf("blobs=%d lowerFail=%d genFail=%d distinct opcodes=%d combos=%d rules fired=%d/%d", blobs, lowerFail, genFail, len(opcodes), len(combos), len(fired), len(Rules()))
	var neverFired []string
	for _, r := range Rules() {
		if fired[r] == 0 {
			neverFired = append(neverFired, r)
		}
	}
	t.Logf("rules that never examined anything: %v", neverFired)
	if dump {
		for _, r := range Rules() {
			t.Logf("FIRED %-28s %d", r, fired[r])
		}
	}
	for u, n := range unsup {
		t.Logf("UNSUPPORTED %s in %d blobs", u, n)
	}
	rules := make([]string, 0, len(byRule))
	for r := range byRule {
		rules = append(rules, r)
	}
	sort.Strings(rules)
	for _, r := range rules {
		a := byRule[r]
		names := make([]string, 0, len(a.shaders))
		for s := range a.shaders {
			names = append(names, fmt.Sprintf("%s(%d)", s, len(a.shaders[s])))
		}
		sort.Strings(names)
		t.Logf("RULE %s: %d findings in %d shaders: %v\n    e.g. %s", r, a.n, len(a.shaders), names, a.example)
	}
	if unexpected > 0 {
		t.Errorf("%d findings not in knownFindings", unexpected)
	}
}
