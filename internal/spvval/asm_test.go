package spvval

import (
	"encoding/binary"
	"strings"
	"testing"
)

// A tiny assembler for hand-built modules. Sections are kept apart so that tests can insert
// instructions anywhere and still get a well-ordered module.
type tmod struct {
	version                                                    uint32
	next                                                       uint32
	caps, exts, imps, mem, eps, modes, debug, annos, types, fn [][]uint32
	boundOverride                                              uint32
}

func enc(op uint16, operands ...uint32) []uint32 {
	w := make([]uint32, 0, 1+len(operands))
	w = append(w, uint32(len(operands)+1)<<16|uint32(op))
	return append(w, operands...)
}

func str(s string) []uint32 {
	b := append([]byte(s), 0)
	for len(b)%4 != 0 {
		b = append(b, 0)
	}
	out := make([]uint32, len(b)/4)
	for i := range out {
		out[i] = binary.LittleEndian.Uint32(b[4*i:])
	}
	return out
}

func cat(parts ...[]uint32) []uint32 {
	var out []uint32
	for _, p := range parts {
		out = append(out, p...)
	}
	return out
}

func (m *tmod) id() uint32 { m.next++; return m.next }

func (m *tmod) words() []uint32 {
	bound := m.next + 1
	if m.boundOverride != 0 {
		bound = m.boundOverride
	}
	ws := []uint32{magic, m.version, 0, bound, 0}
	for _, sec := range [][][]uint32{m.caps, m.exts, m.imps, m.mem, m.eps, m.modes, m.debug, m.annos, m.types, m.fn} {
		for _, in := range sec {
			ws = append(ws, in...)
		}
	}
	return ws
}

func toBytes(ws []uint32) []byte {
	b := make([]byte, 4*len(ws))
	for i, w := range ws {
		binary.LittleEndian.PutUint32(b[4*i:], w)
	}
	return b
}

func (m *tmod) bytes() []byte { return toBytes(m.words()) }

// base is a valid compute module:
//
//	struct S { a: u32, arr: array<u32> }  @group(0) @binding(0) var<storage> buf: S;
//	fn main() { buf.a = buf.arr[0]; }
type base struct {
	*tmod
	glsl, main, void, fnVoid, u32, i32, f32, boolT, v3u, v4f, v2f uint32
	c0, c1, c2, rtarr, S, ptrS, buf, ptrU, ptrFnU, gid, ptrInV3   uint32
	entryLabel                                                    uint32
	epIndex                                                       int
	bodyStart                                                     int // index in fn of first body instruction after OpLabel
}

func newBase(version uint32) *base {
	m := &tmod{version: version}
	b := &base{tmod: m}
	for _, p := range []*uint32{&b.glsl, &b.main, &b.void, &b.fnVoid, &b.u32, &b.i32, &b.f32, &b.boolT, &b.v3u, &b.v4f, &b.v2f,
		&b.c0, &b.c1, &b.c2, &b.rtarr, &b.S, &b.ptrS, &b.buf, &b.ptrU, &b.ptrFnU, &b.gid, &b.ptrInV3, &b.entryLabel} {
		*p = m.id()
	}
	m.caps = append(m.caps, enc(17, 1))
	if version < 0x00010300 {
		m.exts = append(m.exts, enc(10, str("SPV_KHR_storage_buffer_storage_class")...))
	}
	m.imps = append(m.imps, enc(11, cat([]uint32{b.glsl}, str("GLSL.std.450"))...))
	m.mem = append(m.mem, enc(14, 0, 1))
	iface := []uint32{b.gid}
	if version >= 0x00010400 {
		iface = append(iface, b.buf)
	}
	m.eps = append(m.eps, enc(15, cat([]uint32{5, b.main}, str("main"), iface)...))
	m.modes = append(m.modes, enc(16, b.main, 17, 1, 1, 1))
	m.annos = append(m.annos,
		enc(71, b.S, decBlock),
		enc(72, b.S, 0, decOffset, 0),
		enc(72, b.S, 1, decOffset, 4),
		enc(71, b.rtarr, decArrayStride, 4),
		enc(71, b.buf, decDescriptorSet, 0),
		enc(71, b.buf, decBinding, 0),
		enc(71, b.gid, decBuiltIn, 28),
	)
	m.types = append(m.types,
		enc(19, b.void),
		enc(33, b.fnVoid, b.void),
		enc(21, b.u32, 32, 0),
		enc(21, b.i32, 32, 1),
		enc(22, b.f32, 32),
		enc(20, b.boolT),
		enc(23, b.v3u, b.u32, 3),
		enc(23, b.v4f, b.f32, 4),
		enc(23, b.v2f, b.f32, 2),
		enc(43, b.u32, b.c0, 0),
		enc(43, b.u32, b.c1, 1),
		enc(43, b.u32, b.c2, 2),
		enc(29, b.rtarr, b.u32),
		enc(30, b.S, b.u32, b.rtarr),
		enc(32, b.ptrS, scStorageBuffer, b.S),
		enc(59, b.ptrS, b.buf, scStorageBuffer),
		enc(32, b.ptrU, scStorageBuffer, b.u32),
		enc(32, b.ptrFnU, scFunction, b.u32),
		enc(32, b.ptrInV3, scInput, b.v3u),
		enc(59, b.ptrInV3, b.gid, scInput),
	)
	ac1, ld, ac2, g := m.id(), m.id(), m.id(), m.id()
	m.fn = append(m.fn,
		enc(54, b.void, b.main, 0, b.fnVoid),
		enc(248, b.entryLabel),
		enc(61, b.v3u, g, b.gid),
		enc(65, b.ptrU, ac1, b.buf, b.c1, b.c0),
		enc(61, b.u32, ld, ac1),
		enc(65, b.ptrU, ac2, b.buf, b.c0),
		enc(62, ac2, ld),
		enc(253),
		enc(56),
	)
	b.bodyStart = 2
	return b
}

// insertBody inserts instructions right after the entry label of main.
func (b *base) insertBody(ins ...[]uint32) {
	rest := append([][]uint32{}, b.fn[b.bodyStart:]...)
	b.fn = append(append(b.fn[:b.bodyStart:b.bodyStart], ins...), rest...)
}

// replaceTail drops the final "OpReturn; OpFunctionEnd" and appends the given instructions.
func (b *base) replaceTail(ins ...[]uint32) {
	b.fn = append(b.fn[:len(b.fn)-2], ins...)
}

func rulesOf(r *Report) map[string]int {
	out := map[string]int{}
	for _, f := range r.Findings {
		out[f.Rule]++
	}
	return out
}

func expectClean(t *testing.T, b []byte) {
	t.Helper()
	r := Validate(b)
	if len(r.Findings) != 0 || len(r.Unsupported) != 0 {
		t.Fatalf("expected a clean module, got %v unsupported=%v", r.Findings, r.Unsupported)
	}
}

func expectRule(t *testing.T, b []byte, rule string) {
	t.Helper()
	r := Validate(b)
	got := rulesOf(r)
	if got[rule] == 0 {
		t.Fatalf("rule %q did not fire; findings: %v", rule, r.Findings)
	}
	if r.Fired[rule] == 0 {
		t.Fatalf("rule %q has a finding but Fired is 0", rule)
	}
	known := map[string]bool{}
	for _, x := range Rules() {
		known[x] = true
	}
	for k := range got {
		if !known[k] {
			t.Fatalf("finding with unregistered rule id %q", k)
		}
	}
}

func expectOnly(t *testing.T, b []byte, rule string) {
	t.Helper()
	expectRule(t, b, rule)
	r := Validate(b)
	for _, f := range r.Findings {
		if f.Rule != rule {
			t.Fatalf("unexpected extra finding %v (wanted only %q); all: %v", f, rule, r.Findings)
		}
	}
}

func TestBaseModulesClean(t *testing.T) {
	for _, v := range []uint32{0x00010000, 0x00010100, 0x00010300, 0x00010400, 0x00010600} {
		expectClean(t, newBase(v).bytes())
	}
}

func TestRulesListed(t *testing.T) {
	seen := map[string]bool{}
	for _, r := range Rules() {
		if seen[r] || strings.TrimSpace(r) == "" {
			t.Fatalf("duplicate/empty rule id %q", r)
		}
		seen[r] = true
	}
	if len(seen) < 60 {
		t.Fatalf("only %d rules", len(seen))
	}
}
