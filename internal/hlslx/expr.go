package hlslx

import (
	"strings"
)

var tOpaque = &Type{k: kOpaque, name: "<unsupported>", slots: 1}

func (p *parser) opaque(line int32, t *Type, reason string) *expr {
	if t == nil {
		t = tOpaque
	}
	return &expr{op: eOpaque, t: t, name: reason, line: line, side: true}
}

func isOpaqueExpr(e *expr) bool { return e.op == eOpaque || e.t.k == kOpaque }

func opaqueReason(es ...*expr) string {
	for _, e := range es {
		if e == nil {
			continue
		}
		if e.op == eOpaque {
			return e.name
		}
		if e.t.k == kOpaque {
			return "value of type " + e.t.name
		}
	}
	return "unsupported"
}

// ---------------------------------------------------------------- precedence climbing

func (p *parser) parseExpr() *expr {
	e := p.parseAssign()
	for p.isP(",") {
		// comma operator: evaluate left, yield right
		c := p.next()
		r := p.parseAssign()
		e = &expr{op: eComma, t: r.t, a: e, b: r, line: c.line, side: e.side || r.side || isOpaqueExpr(e) || isOpaqueExpr(r)}
		if isOpaqueExpr(r) {
			e = p.opaque(c.line, nil, opaqueReason(r))
		}
	}
	return e
}

var assignOps = map[string]bop{"=": opNone, "+=": opAdd, "-=": opSub, "*=": opMul, "/=": opDiv, "%=": opMod, "&=": opAnd, "|=": opOr, "^=": opXor, "<<=": opShl, ">>=": opShr}

func (p *parser) parseAssign() *expr {
	lhs := p.parseTernary()
	t := p.peek()
	if t.k == tkPunct {
		if op, ok := assignOps[t.s]; ok {
			p.p++
			rhs := p.parseAssign()
			return p.mkAssign(lhs, rhs, op, t.line)
		}
	}
	return lhs
}

func (p *parser) parseTernary() *expr {
	c := p.parseBin(0)
	if !p.isP("?") {
		return c
	}
	q := p.next()
	a := p.parseAssign()
	p.expect(":")
	b := p.parseAssign()
	return p.mkTernary(c, a, b, q.line)
}

type binInfo struct {
	prec int
	op   bop
}

var binOps = map[string]binInfo{
	"||": {1, opLOr}, "&&": {2, opLAnd}, "|": {3, opOr}, "^": {4, opXor}, "&": {5, opAnd},
	"==": {6, opEq}, "!=": {6, opNe}, "<": {7, opLt}, ">": {7, opGt}, "<=": {7, opLe}, ">=": {7, opGe},
	"<<": {8, opShl}, ">>": {8, opShr}, "+": {9, opAdd}, "-": {9, opSub}, "*": {10, opMul}, "/": {10, opDiv}, "%": {10, opMod},
}

func (p *parser) parseBin(minPrec int) *expr {
	lhs := p.parseUnary()
	for {
		t := p.peek()
		if t.k != tkPunct {
			return lhs
		}
		bi, ok := binOps[t.s]
		if !ok || bi.prec <= minPrec {
			return lhs
		}
		p.p++
		rhs := p.parseBin(bi.prec)
		lhs = p.mkBinary(bi.op, lhs, rhs, t.line)
	}
}

func (p *parser) parseUnary() *expr {
	t := p.peek()
	if t.k == tkPunct {
		switch t.s {
		case "-", "+", "!", "~":
			p.p++
			a := p.parseUnary()
			return p.mkUnary(map[string]bop{"-": opNeg, "+": opPlus, "!": opNot, "~": opBitNot}[t.s], a, t.line)
		case "++", "--":
			p.p++
			a := p.parseUnary()
			op := opPreInc
			if t.s == "--" {
				op = opPreDec
			}
			return p.mkIncDec(op, a, t.line)
		case "(":
			// C-style cast: "(" type dims? ")" unary
			if n := p.peekN(1); p.isTypeName(n) || (n.k == tkIdent && (n.s == "const" || n.s == "row_major" || n.s == "column_major")) {
				save := p.p
				p.p++
				p.parseQuals()
				if p.isTypeName(p.peek()) {
					ty := p.parseType()
					ty, _ = p.parseDims(ty, false)
					if p.accept(")") {
						a := p.parseUnary()
						return p.mkCast(ty, a, t.line)
					}
				}
				p.p = save
			}
		}
	}
	return p.parsePostfix(p.parsePrimary())
}

func (p *parser) parsePrimary() *expr {
	t := p.next()
	switch t.k {
	case tkInt:
		switch t.lk {
		case litInt:
			return &expr{op: eLit, t: tInt, val: []slot{slot(t.bits)}, line: t.line, konst: true}
		case litUint:
			return &expr{op: eLit, t: tUint, val: []slot{slot(t.bits)}, line: t.line, konst: true}
		}
		return p.opaque(t.line, nil, "64-bit integer literal "+t.s)
	case tkFloat:
		if t.lk == litWide {
			return p.opaque(t.line, nil, "half/double literal "+t.s)
		}
		return &expr{op: eLit, t: tFloat, val: []slot{slot(t.bits)}, line: t.line, konst: true}
	case tkString:
		return p.opaque(t.line, nil, "string literal")
	case tkPunct:
		if t.s == "(" {
			e := p.parseExpr()
			p.expect(")")
			return e
		}
		if t.s == "{" {
			p.fail(t.line, "initialiser list outside a declaration")
		}
		p.fail(t.line, "unexpected %q in expression", t.s)
	case tkIdent:
		switch t.s {
		case "true":
			return &expr{op: eLit, t: tBool, val: []slot{1}, line: t.line, konst: true}
		case "false":
			return &expr{op: eLit, t: tBool, val: []slot{0}, line: t.line, konst: true}
		}
		sym := p.lookup(t.s)
		if sym == nil || sym.kind == symType {
			p.p--
			if p.isTypeName(t) {
				// constructor / functional cast
				ty := p.parseType()
				if !p.isP("(") {
					p.fail(t.line, "type name %q used as a value", t.s)
				}
				p.p++
				args := p.parseArgs()
				return p.mkConstruct(ty, args, t.line)
			}
			p.p++
		}
		if p.isP("(") {
			p.p++
			args := p.parseArgs()
			return p.mkCall(t, sym, args)
		}
		if sym == nil && predeclaredConstants[t.s] {
			return p.opaque(t.line, nil, "predeclared constant "+t.s)
		}
		if sym == nil {
			if _, isIntr := intrinsics[t.s]; isIntr || unsupportedIntrinsics[t.s] {
				p.fail(t.line, "intrinsic %q used without a call", t.s)
			}
			p.fail(t.line, "undeclared identifier %q", t.s)
		}
		switch sym.kind {
		case symFunc:
			p.fail(t.line, "function %q used as a value", t.s)
		}
		return p.mkVarRef(sym, t.line)
	}
	p.fail(t.line, "unexpected end of input in expression")
	return nil
}

func (p *parser) mkVarRef(sym *symbol, line int32) *expr {
	switch sym.store {
	case stCBuffer:
		if hasOpaque(sym.t) {
			return p.opaque(line, nil, "constant-buffer member of type "+sym.t.name)
		}
		return &expr{op: eCBVar, t: sym.t, sym: sym, line: line, cb: true}
	case stResource:
		return &expr{op: eResVar, t: sym.t, sym: sym, line: line, val: []slot{slot(sym.res.index + 1)}}
	case stNone:
		return p.opaque(line, nil, "variable "+sym.name+" of type "+sym.t.name)
	}
	if sym.t.k == kOpaque {
		return p.opaque(line, nil, "variable "+sym.name+" of type "+sym.t.name)
	}
	return &expr{op: eVar, t: sym.t, sym: sym, line: line, lv: !sym.isConst}
}

func (p *parser) parseArgs() []*expr {
	var args []*expr
	for !p.isP(")") {
		args = append(args, p.parseAssign())
		if !p.accept(",") {
			break
		}
	}
	p.expect(")")
	return args
}

func (p *parser) parsePostfix(e *expr) *expr {
	for {
		t := p.peek()
		if t.k != tkPunct {
			return e
		}
		switch t.s {
		case "[":
			p.p++
			idx := p.parseExpr()
			p.expect("]")
			e = p.mkIndex(e, idx, t.line)
		case ".":
			p.p++
			nm := p.expectIdent()
			if p.isP("<") && (e.t.k == kResource || isOpaqueExpr(e)) && p.isTypeName(p.peekN(1)) {
				// templated method: buf.Load<T>(offset)
				targ := p.skipAngles()
				p.expect("(")
				p.parseArgs()
				e = p.opaque(nm.line, nil, "method "+nm.s+targ)
			} else if p.isP("(") {
				p.p++
				args := p.parseArgs()
				e = p.mkMethod(e, nm, args)
			} else {
				e = p.mkMember(e, nm)
			}
		case "++", "--":
			p.p++
			op := opPostInc
			if t.s == "--" {
				op = opPostDec
			}
			e = p.mkIncDec(op, e, t.line)
		case "::", "->":
			p.unsup(t.line, "operator %s", t.s)
		default:
			return e
		}
	}
}

// ---------------------------------------------------------------- conversions

type convClass uint8

const (
	convNo     convClass = iota // not convertible: the program is ill-formed
	convSame                    // identical type
	convOK                      // value-preserving shape (same shape or scalar splat), any kind change
	convTrunc                   // drops components: explicit only (implicit = warning, treated as Malformed)
	convExotic                  // legal HLSL outside the subset (vector<->matrix reshapes ...)
)

func classifyConv(from, to *Type) convClass {
	if from == to {
		return convSame
	}
	if from.k != kNum || to.k != kNum {
		return convNo
	}
	switch {
	case from.isScalar():
		return convOK
	case from.rows == to.rows && from.cols == to.cols:
		return convOK
	case from.isVector() && to.isScalar():
		return convTrunc
	case from.isVector() && to.isVector():
		if to.cols < from.cols {
			return convTrunc
		}
		return convNo
	case from.isMatrix() && to.isMatrix():
		if to.rows <= from.rows && to.cols <= from.cols {
			return convTrunc
		}
		return convNo
	case from.isMatrix() && to.isScalar():
		return convExotic
	case from.isVector() && to.isMatrix(), from.isMatrix() && to.isVector():
		if from.slots == to.slots {
			return convExotic
		}
		return convNo
	}
	return convNo
}

func (p *parser) mkConvert(e *expr, to *Type) *expr {
	if e.t == to {
		return e
	}
	return &expr{op: eConvert, t: to, a: e, line: e.line, side: e.side, konst: e.konst}
}

// convImplicit converts e to type to as assignment, argument passing and return do.
func (p *parser) convImplicit(e *expr, to *Type, what string) *expr {
	if e.t == to && e.op != eOpaque {
		return e
	}
	if isOpaqueExpr(e) || to.k == kOpaque {
		return p.opaque(e.line, to, opaqueReason(e))
	}
	switch classifyConv(e.t, to) {
	case convSame:
		return e
	case convOK:
		return p.mkConvert(e, to)
	case convTrunc:
		p.fail(e.line, "%s: implicit truncation of %s to %s", what, e.t.name, to.name)
	case convExotic:
		return p.opaque(e.line, to, "conversion of "+e.t.name+" to "+to.name)
	}
	p.fail(e.line, "%s: cannot convert %s to %s", what, e.t.name, to.name)
	return nil
}

// leafKinds lists the scalar kind of every slot of t in flattened order; ok=false when t contains
// a resource or an opaque type.
func leafKinds(t *Type, out []skind) ([]skind, bool) {
	switch t.k {
	case kNum:
		for i := 0; i < t.slots; i++ {
			out = append(out, t.sk)
		}
		return out, true
	case kArray:
		ok := true
		for i := 0; i < t.n && ok; i++ {
			out, ok = leafKinds(t.elem, out)
		}
		return out, ok
	case kStruct:
		ok := true
		for i := range t.st.fields {
			out, ok = leafKinds(t.st.fields[i].t, out)
			if !ok {
				break
			}
		}
		return out, ok
	}
	return out, false
}

func kindPairs(from, to []skind) []uint8 {
	same := true
	lk := make([]uint8, len(to))
	for i := range to {
		lk[i] = uint8(from[i])<<4 | uint8(to[i])
		if from[i] != to[i] {
			same = false
		}
	}
	if same {
		return nil
	}
	return lk
}

// mkCast builds the explicit C-style cast (T)a.
func (p *parser) mkCast(to *Type, a *expr, line int32) *expr {
	if to.k == kVoid {
		p.fail(line, "cast to void")
	}
	if isOpaqueExpr(a) || to.k == kOpaque || to.k == kResource {
		return p.opaque(line, to, opaqueReason(a, &expr{t: to, op: eLit}))
	}
	if a.t == to {
		return a
	}
	if to.k == kNum && a.t.k == kNum {
		switch classifyConv(a.t, to) {
		case convOK, convTrunc:
			return &expr{op: eConvert, t: to, a: a, line: line, side: a.side, konst: a.konst}
		case convExotic:
			return p.opaque(line, to, "cast of "+a.t.name+" to "+to.name)
		}
		p.fail(line, "cannot cast %s to %s", a.t.name, to.name)
	}
	if a.t.k == kVoid || a.t.k == kResource {
		p.fail(line, "cannot cast %s to %s", a.t.name, to.name)
	}
	tk, ok := leafKinds(to, nil)
	if !ok {
		return p.opaque(line, to, "cast to "+to.name)
	}
	if a.t.isScalar() {
		// (S)0, (float2[4])0: every component is the converted scalar
		if a.konst {
			v := p.constEval(a)
			out := make([]slot, len(tk))
			for i, k := range tk {
				out[i] = convScalar(v[0], a.t.sk, k)
			}
			return &expr{op: eLit, t: to, val: out, line: line, konst: true}
		}
		lk := make([]uint8, len(tk))
		for i, k := range tk {
			lk[i] = uint8(a.t.sk)<<4 | uint8(k)
		}
		return &expr{op: eZeroInit, t: to, a: a, lk: lk, line: line, side: a.side}
	}
	fk, ok := leafKinds(a.t, nil)
	if !ok {
		return p.opaque(line, to, "cast of "+a.t.name)
	}
	if len(fk) != len(tk) {
		if len(fk) > len(tk) {
			return p.opaque(line, to, "truncating aggregate cast of "+a.t.name+" to "+to.name)
		}
		p.fail(line, "cannot cast %s (%d components) to %s (%d components)", a.t.name, len(fk), to.name, len(tk))
	}
	return &expr{op: eFlatCast, t: to, a: a, lk: kindPairs(fk, tk), line: line, side: a.side}
}

// mkConstruct builds T(args): a functional cast for one argument, a component-wise constructor
// for several.
func (p *parser) mkConstruct(to *Type, args []*expr, line int32) *expr {
	for _, a := range args {
		if isOpaqueExpr(a) {
			return p.opaque(line, to, opaqueReason(a))
		}
	}
	if to.k == kOpaque {
		return p.opaque(line, to, "constructor of "+to.name)
	}
	if to.k != kNum {
		p.fail(line, "constructor syntax on non-numeric type %s", to.name)
	}
	if len(args) == 0 {
		p.fail(line, "%s() without arguments", to.name)
	}
	if len(args) == 1 {
		if args[0].t.k != kNum {
			p.fail(line, "cannot convert %s to %s", args[0].t.name, to.name)
		}
		return p.mkCast(to, args[0], line)
	}
	total := 0
	konst, side := true, false
	conv := make([]*expr, len(args))
	for i, a := range args {
		if a.t.k != kNum {
			p.fail(line, "%s constructor argument %d of type %s", to.name, i, a.t.name)
		}
		total += a.t.slots
		conv[i] = p.mkConvert(a, a.t.withKind(to.sk))
		konst = konst && a.konst
		side = side || a.side
	}
	if total != to.slots {
		p.fail(line, "%s constructor given %d components", to.name, total)
	}
	return &expr{op: eConstruct, t: to, args: conv, line: line, konst: konst, side: side}
}

func (p *parser) mkInitList(t *Type, args []*expr, line int32) *expr {
	for _, a := range args {
		if isOpaqueExpr(a) {
			return p.opaque(line, t, opaqueReason(a))
		}
	}
	tk, ok := leafKinds(t, nil)
	if !ok {
		return p.opaque(line, t, "initialiser list for "+t.name)
	}
	var fk []skind
	side := false
	for _, a := range args {
		fk, ok = leafKinds(a.t, fk)
		if !ok {
			p.fail(line, "initialiser element of type %s", a.t.name)
		}
		side = side || a.side
	}
	if len(fk) != len(tk) {
		p.fail(line, "initialiser list has %d components, %s needs %d", len(fk), t.name, len(tk))
	}
	return &expr{op: eInitList, t: t, args: args, lk: kindPairs(fk, tk), line: line, side: side}
}

// ---------------------------------------------------------------- operators

func rank(sk skind) int { return int(sk) }

// commonShape returns the shape two numeric operands are brought to, per HLSL: scalars splat;
// equal shapes stay; anything else would need a truncation.
func (p *parser) commonShape(a, b *Type, line int32, what string) (rows, cols uint8, ok bool) {
	switch {
	case a.isScalar():
		return b.rows, b.cols, true
	case b.isScalar():
		return a.rows, a.cols, true
	case a.rows == b.rows && a.cols == b.cols:
		return a.rows, a.cols, true
	case a.isVector() && b.isVector(), a.isMatrix() && b.isMatrix():
		p.fail(line, "%s: operands %s and %s need an implicit truncation", what, a.name, b.name)
	}
	return 0, 0, false
}

func (p *parser) mkBinary(op bop, a, b *expr, line int32) *expr {
	if isOpaqueExpr(a) || isOpaqueExpr(b) {
		return p.opaque(line, nil, opaqueReason(a, b))
	}
	if a.t.k != kNum || b.t.k != kNum {
		p.fail(line, "binary operator on %s and %s", a.t.name, b.t.name)
	}
	rows, cols, ok := p.commonShape(a.t, b.t, line, "binary operator")
	if !ok {
		return p.opaque(line, nil, "binary operator on "+a.t.name+" and "+b.t.name)
	}
	side := a.side || b.side
	konst := a.konst && b.konst
	switch op {
	case opShl, opShr:
		if a.t.sk == skFloat || b.t.sk == skFloat {
			p.fail(line, "shift of/by a floating-point value")
		}
		lk := a.t.sk
		if lk == skBool {
			lk = skInt
		}
		rk := b.t.sk
		if rk == skBool {
			rk = skInt
		}
		a = p.mkConvert(a, numType(lk, int(rows), int(cols)))
		b = p.mkConvert(b, numType(rk, int(rows), int(cols)))
		return &expr{op: eShift, bop: op, t: a.t, a: a, b: b, line: line, side: side, konst: konst}
	case opLAnd, opLOr:
		bt := numType(skBool, int(rows), int(cols))
		a = p.mkConvert(a, bt)
		b = p.mkConvert(b, bt)
		return &expr{op: eLogical, bop: op, t: bt, a: a, b: b, line: line, side: side, konst: konst}
	}
	// usual arithmetic conversions: float > uint > int > bool
	k := a.t.sk
	if rank(b.t.sk) > rank(k) {
		k = b.t.sk
	}
	bothBool := a.t.sk == skBool && b.t.sk == skBool
	switch op {
	case opAnd, opOr, opXor:
		if k == skFloat {
			p.fail(line, "bitwise operator on a floating-point value")
		}
		// bool & bool stays bool (closed on {0,1}); otherwise integer arithmetic
		if !bothBool && k == skBool {
			k = skInt
		}
	case opAdd, opSub, opMul, opDiv, opMod:
		if k == skBool {
			k = skInt
		}
	}
	ot := numType(k, int(rows), int(cols))
	a = p.mkConvert(a, ot)
	b = p.mkConvert(b, ot)
	rt := ot
	switch op {
	case opEq, opNe, opLt, opLe, opGt, opGe:
		rt = numType(skBool, int(rows), int(cols))
	}
	return &expr{op: eBinary, bop: op, t: rt, a: a, b: b, line: line, side: side, konst: konst}
}

func (p *parser) mkUnary(op bop, a *expr, line int32) *expr {
	if isOpaqueExpr(a) {
		return p.opaque(line, nil, opaqueReason(a))
	}
	if a.t.k != kNum {
		p.fail(line, "unary operator on %s", a.t.name)
	}
	switch op {
	case opNot:
		a = p.mkConvert(a, a.t.withKind(skBool))
	case opBitNot:
		if a.t.sk == skFloat {
			p.fail(line, "~ on a floating-point value")
		}
		if a.t.sk == skBool {
			a = p.mkConvert(a, a.t.withKind(skInt))
		}
	case opNeg, opPlus:
		if a.t.sk == skBool {
			a = p.mkConvert(a, a.t.withKind(skInt))
		}
		if op == opPlus {
			return a
		}
	}
	return &expr{op: eUnary, bop: op, t: a.t, a: a, line: line, side: a.side, konst: a.konst}
}

func (p *parser) mkTernary(c, a, b *expr, line int32) *expr {
	if isOpaqueExpr(c) || isOpaqueExpr(a) || isOpaqueExpr(b) {
		return p.opaque(line, nil, opaqueReason(c, a, b))
	}
	if c.t.k != kNum || c.t.isMatrix() {
		p.fail(line, "ternary condition of type %s", c.t.name)
	}
	side := c.side || a.side || b.side
	if a.t.k != kNum || b.t.k != kNum {
		if a.t != b.t || a.t.k == kVoid {
			p.fail(line, "ternary arms of types %s and %s", a.t.name, b.t.name)
		}
		if !c.t.isScalar() {
			p.fail(line, "vector condition selecting between %s values", a.t.name)
		}
		c = p.mkConvert(c, tBool)
		return &expr{op: eTernary, t: a.t, a: c, b: a, c: b, line: line, side: side}
	}
	rows, cols, ok := p.commonShape(a.t, b.t, line, "ternary operator")
	if !ok {
		return p.opaque(line, nil, "ternary on "+a.t.name+" and "+b.t.name)
	}
	k := a.t.sk
	if rank(b.t.sk) > rank(k) {
		k = b.t.sk
	}
	if c.t.isVector() {
		switch {
		case rows == 0 && cols == 1:
			cols = c.t.cols
		case rows == 0 && cols == c.t.cols:
		default:
			p.fail(line, "ternary condition %s does not match arms %s / %s", c.t.name, a.t.name, b.t.name)
		}
	}
	rt := numType(k, int(rows), int(cols))
	a = p.mkConvert(a, rt)
	b = p.mkConvert(b, rt)
	c = p.mkConvert(c, c.t.withKind(skBool))
	return &expr{op: eTernary, t: rt, a: c, b: a, c: b, line: line, side: side, konst: c.konst && a.konst && b.konst}
}

func (p *parser) requireLV(e *expr, line int32, what string) {
	if !e.lv {
		p.fail(line, "%s: expression is not a modifiable l-value", what)
	}
}

func (p *parser) mkAssign(lhs, rhs *expr, op bop, line int32) *expr {
	if isOpaqueExpr(lhs) || isOpaqueExpr(rhs) {
		return p.opaque(line, nil, opaqueReason(lhs, rhs))
	}
	p.requireLV(lhs, line, "assignment")
	if op == opNone {
		rhs = p.convImplicit(rhs, lhs.t, "assignment")
		return &expr{op: eAssign, t: lhs.t, a: lhs, b: rhs, line: line, side: true}
	}
	if lhs.t.k != kNum {
		p.fail(line, "compound assignment to %s", lhs.t.name)
	}
	cur := &expr{op: eVar, t: lhs.t, line: line, name: "$cur"} // sym == nil: reads the current value of the assigned object
	v := p.mkBinary(op, cur, rhs, line)
	if isOpaqueExpr(v) {
		return p.opaque(line, nil, opaqueReason(v))
	}
	switch classifyConv(v.t, lhs.t) {
	case convSame:
	case convOK, convTrunc:
		if c := classifyConv(v.t, lhs.t); c == convTrunc {
			p.fail(line, "compound assignment: implicit truncation of %s to %s", v.t.name, lhs.t.name)
		}
		v = p.mkConvert(v, lhs.t)
	default:
		p.fail(line, "compound assignment: cannot convert %s to %s", v.t.name, lhs.t.name)
	}
	return &expr{op: eAssign, bop: op, t: lhs.t, a: lhs, b: v, line: line, side: true}
}

func (p *parser) mkIncDec(op bop, a *expr, line int32) *expr {
	if isOpaqueExpr(a) {
		return p.opaque(line, nil, opaqueReason(a))
	}
	p.requireLV(a, line, "++/--")
	if a.t.k != kNum || a.t.sk == skBool {
		p.fail(line, "++/-- on %s", a.t.name)
	}
	return &expr{op: eIncDec, bop: op, t: a.t, a: a, line: line, side: true}
}

// ---------------------------------------------------------------- postfix

func (p *parser) mkIndex(a, idx *expr, line int32) *expr {
	if isOpaqueExpr(a) || isOpaqueExpr(idx) {
		return p.opaque(line, nil, opaqueReason(a, idx))
	}
	if a.t.k == kResource {
		return p.opaque(line, nil, "indexing of "+a.t.name)
	}
	if !idx.t.isScalar() {
		p.fail(line, "index of type %s", idx.t.name)
	}
	switch idx.t.sk {
	case skFloat:
		idx = p.mkConvert(idx, tInt)
	case skBool:
		idx = p.mkConvert(idx, tUint)
	}
	var et *Type
	switch {
	case a.t.k == kArray:
		et = a.t.elem
	case a.t.isVector():
		et = numType(a.t.sk, 0, 1)
	case a.t.isMatrix():
		et = numType(a.t.sk, 0, int(a.t.cols))
	default:
		p.fail(line, "indexing a value of type %s", a.t.name)
	}
	e := &expr{op: eIndex, t: et, a: a, b: idx, n: et.slots, line: line, side: a.side || idx.side, cb: a.cb, lv: a.lv}
	if a.op == eSwizzle {
		// indexing a swizzle is legal for reads; as an l-value it is outside the subset
		e.lv = false
	}
	return e
}

func (p *parser) mkMember(a *expr, nm *token) *expr {
	if isOpaqueExpr(a) {
		return p.opaque(nm.line, nil, opaqueReason(a))
	}
	switch {
	case a.t.k == kStruct:
		for i := range a.t.st.fields {
			f := &a.t.st.fields[i]
			if f.name == nm.s {
				if hasOpaque(f.t) {
					return p.opaque(nm.line, nil, "member "+nm.s+" of type "+f.t.name)
				}
				return &expr{op: eMember, t: f.t, a: a, n: f.off, fld: i, line: nm.line, side: a.side, cb: a.cb, lv: a.lv}
			}
		}
		p.fail(nm.line, "struct %s has no member %q", a.t.name, nm.s)
	case a.t.isScalar() || a.t.isVector():
		sw, n, ok := parseSwizzle(nm.s, int(a.t.cols))
		if !ok {
			p.fail(nm.line, "bad swizzle %q on %s", nm.s, a.t.name)
		}
		e := &expr{op: eSwizzle, t: numType(a.t.sk, 0, n), a: a, sw: sw, nsw: uint8(n), line: nm.line, side: a.side, cb: a.cb, konst: a.konst}
		if a.lv {
			uniq := true
			for i := 0; i < n; i++ {
				for j := 0; j < i; j++ {
					if sw[i] == sw[j] {
						uniq = false
					}
				}
			}
			e.lv = uniq
		}
		return e
	case a.t.isMatrix():
		if strings.HasPrefix(nm.s, "_") {
			return p.opaque(nm.line, nil, "matrix swizzle "+nm.s)
		}
		p.fail(nm.line, "bad member %q on %s", nm.s, a.t.name)
	case a.t.k == kResource:
		return p.opaque(nm.line, nil, "member "+nm.s+" of "+a.t.name)
	}
	p.fail(nm.line, "member access %q on %s", nm.s, a.t.name)
	return nil
}

func parseSwizzle(s string, n int) (sw [4]uint8, cnt int, ok bool) {
	if len(s) == 0 || len(s) > 4 {
		return sw, 0, false
	}
	set := -1
	for i := 0; i < len(s); i++ {
		a := strings.IndexByte("xyzw", s[i])
		b := strings.IndexByte("rgba", s[i])
		var idx, st int
		switch {
		case a >= 0:
			idx, st = a, 0
		case b >= 0:
			idx, st = b, 1
		default:
			return sw, 0, false
		}
		if set >= 0 && set != st {
			return sw, 0, false
		}
		set = st
		if idx >= n {
			return sw, 0, false
		}
		sw[i] = uint8(idx)
	}
	return sw, len(s), true
}

// ---------------------------------------------------------------- calls

func (p *parser) mkCall(nm *token, sym *symbol, args []*expr) *expr {
	line := nm.line
	if sym != nil && sym.kind != symFunc {
		p.fail(line, "%q is not a function", nm.s)
	}
	if sym != nil {
		if e := p.resolveUser(nm, sym, args); e != nil {
			return e
		}
		if intrinsics[nm.s] == nil {
			p.fail(line, "no overload of %q matches the arguments %s", nm.s, argTypes(args))
		}
	}
	if in := intrinsics[nm.s]; in != nil {
		for _, a := range args {
			if isOpaqueExpr(a) {
				return p.opaque(line, nil, opaqueReason(a))
			}
			if a.t.k == kVoid {
				p.fail(line, "void argument to %s", nm.s)
			}
		}
		if in.barrier {
			p.prog.hasBarrier = true
		}
		e := in.check(p, in, args, line)
		if e == nil {
			p.fail(line, "intrinsic %s does not accept arguments %s", nm.s, argTypes(args))
		}
		return e
	}
	if unsupportedIntrinsics[nm.s] || strings.HasPrefix(nm.s, "Wave") || strings.HasPrefix(nm.s, "Quad") {
		return p.opaque(line, nil, "intrinsic "+nm.s)
	}
	p.fail(line, "call of undeclared function %q", nm.s)
	return nil
}

func argTypes(args []*expr) string {
	s := "("
	for i, a := range args {
		if i > 0 {
			s += ", "
		}
		s += a.t.name
	}
	return s + ")"
}

// resolveUser performs overload resolution among the user functions of one name.
func (p *parser) resolveUser(nm *token, sym *symbol, args []*expr) *expr {
	var best *funcDecl
	bestScore, ties := 1<<30, 0
	anyOpaque := false
	for _, a := range args {
		if isOpaqueExpr(a) {
			anyOpaque = true
		}
	}
	for _, f := range sym.funcs {
		if len(f.params) != len(args) {
			continue
		}
		score, ok := 0, true
		for i, pr := range f.params {
			a := args[i]
			if isOpaqueExpr(a) || pr.sym.t.k == kOpaque {
				continue
			}
			c := classifyConv(a.t, pr.sym.t)
			if pr.dir != dirIn {
				if !a.lv {
					ok = false
					break
				}
				back := classifyConv(pr.sym.t, a.t)
				if c == convSame {
					continue
				}
				if (c == convOK) && (back == convOK) && a.t.slots == pr.sym.t.slots {
					score += 2
					continue
				}
				ok = false
				break
			}
			switch c {
			case convSame:
			case convOK:
				score += 1
				if a.t.sk != pr.sym.t.sk {
					score += 1
				}
			default:
				ok = false
			}
			if !ok {
				break
			}
		}
		if !ok {
			continue
		}
		if score < bestScore {
			best, bestScore, ties = f, score, 1
		} else if score == bestScore {
			ties++
		}
	}
	if best == nil {
		if anyOpaque {
			return p.opaque(nm.line, nil, opaqueReason(args...))
		}
		// report the most specific reason for the single-candidate case
		if len(sym.funcs) == 1 {
			f := sym.funcs[0]
			if len(f.params) != len(args) {
				p.fail(nm.line, "%s expects %d arguments, got %d", nm.s, len(f.params), len(args))
			}
			for i, pr := range f.params {
				if pr.dir != dirIn && !args[i].lv {
					p.fail(nm.line, "argument %d of %s must be a modifiable l-value (out/inout parameter)", i, nm.s)
				}
				if c := classifyConv(args[i].t, pr.sym.t); c == convTrunc {
					p.fail(nm.line, "argument %d of %s: implicit truncation of %s to %s", i, nm.s, args[i].t.name, pr.sym.t.name)
				}
			}
		}
		return nil
	}
	if ties > 1 {
		return p.opaque(nm.line, best.ret, "ambiguous overload of "+nm.s)
	}
	conv := make([]*expr, len(args))
	for i, pr := range best.params {
		a := args[i]
		if isOpaqueExpr(a) || pr.sym.t.k == kOpaque {
			return p.opaque(nm.line, best.ret, opaqueReason(a, &expr{op: eLit, t: pr.sym.t}))
		}
		if pr.dir == dirIn {
			conv[i] = p.convImplicit(a, pr.sym.t, "argument")
		} else {
			conv[i] = a // converted at copy-in/copy-out time
		}
	}
	rt := best.ret
	if hasOpaque(rt) {
		return p.opaque(nm.line, nil, "call returning "+rt.name)
	}
	return &expr{op: eCall, t: rt, fn: best, args: conv, line: nm.line, side: true}
}

func intrinsicAccepts(in *intrinsic, fd *funcDecl) (ok bool) {
	defer func() {
		if r := recover(); r != nil {
			ok = false
		}
	}()
	if in.check == nil {
		return true
	}
	args := make([]*expr, len(fd.params))
	for i, pr := range fd.params {
		if pr.sym.t.k == kOpaque || pr.sym.t.k == kResource {
			return false
		}
		args[i] = &expr{op: eVar, t: pr.sym.t, sym: pr.sym, lv: true}
	}
	q := &parser{prog: &Program{arrays: map[arrKey]*Type{}}}
	e := in.check(q, in, args, 0)
	return e != nil
}

// constEval evaluates a constant expression at parse time with the interpreter itself.
func (p *parser) constEval(e *expr) []slot {
	if p.civ == nil {
		p.civ = &inv{x: &execState{prog: p.prog}, buf: make([]slot, 64)}
	}
	iv := p.civ
	iv.top = 0
	iv.x.steps = 1 << 20
	v := iv.eval(e, nil)
	out := make([]slot, len(v))
	copy(out, v)
	return out
}
