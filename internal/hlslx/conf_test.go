package hlslx

import (
	"fmt"
	"math"
	"strings"
	"testing"

	"github.com/gogpu/naga/hlsl"

	"verif/internal/xrt"
)

type approx struct {
	v   float64
	tol float64
}
type anyWord struct{}

// confCase is one hand-derived conformance program. Bindings: group 0; binding 0 = `inp`
// (storage, read), 1 = `outp` (storage, read_write), 2 = `u` (uniform) unless the WGSL says otherwise.
type confCase struct {
	name   string
	wgsl   string
	in     map[uint32][]byte // binding -> initial bytes (group 0)
	want   map[uint32][]any  // binding -> expected 32-bit words: uint32, int (as i32), float32 (bit-exact), approx, anyWord
	groups [3]uint32
	entry  string
	defect string // non-empty: t.Skip("naga defect: ...") after confirming the mismatch
}

type confCfg struct {
	name string
	mod  func(o *hlsl.Options)
	regs func(b xrt.Binding) (idx, space uint32)
}

func confConfigs() []confCfg {
	var out []confCfg
	for _, sm := range []hlsl.ShaderModel{hlsl.ShaderModel5_1, hlsl.ShaderModel6_0, hlsl.ShaderModel6_6} {
		for mask := 0; mask < 8; mask++ {
			sm, mask := sm, mask
			if sm != hlsl.ShaderModel5_1 && mask != 0 && mask != 7 {
				continue // the full option cube for SM 5.1; all-off and all-on for the others
			}
			out = append(out, confCfg{
				name: fmt.Sprintf("sm%s_ri%d_lb%d_zi%d", sm.ProfileSuffix(), mask&1, mask>>1&1, mask>>2&1),
				mod: func(o *hlsl.Options) {
					o.ShaderModel = sm
					o.RestrictIndexing = mask&1 != 0
					o.ForceLoopBounding = mask&2 != 0
					o.ZeroInitializeWorkgroupMemory = mask&4 != 0
				},
			})
		}
	}
	// explicit binding map: register = binding + 3, space = group + 1; no faking
	out = append(out, confCfg{
		name: "bindingmap",
		regs: func(b xrt.Binding) (uint32, uint32) { return b.Binding + 3, b.Group + 1 },
	})
	return out
}

func checkWords(what string, got []byte, want []any) (errs []string) {
	if len(got) < 4*len(want) {
		return []string{fmt.Sprintf("%s: buffer has %d bytes, %d words expected", what, len(got), len(want))}
	}
	bad := func(f string, a ...any) { errs = append(errs, what+" "+fmt.Sprintf(f, a...)) }
	for i, w := range want {
		g := getU32(got, i)
		switch v := w.(type) {
		case uint32:
			if g != v {
				bad("word %d: got %#x (%d), want %#x (%d)", i, g, g, v, v)
			}
		case int:
			if int32(g) != int32(v) {
				bad("word %d: got %d, want %d", i, int32(g), v)
			}
		case float32:
			if g != math.Float32bits(v) {
				bad("word %d: got %v (%#x), want %v", i, math.Float32frombits(g), g, v)
			}
		case float64:
			if g != math.Float32bits(float32(v)) {
				bad("word %d: got %v (%#x), want %v", i, math.Float32frombits(g), g, v)
			}
		case approx:
			f := float64(math.Float32frombits(g))
			if !(math.Abs(f-v.v) <= v.tol) {
				bad("word %d: got %v, want %v ± %v", i, f, v.v, v.tol)
			}
		case anyWord:
		default:
			panic(fmt.Sprintf("bad expectation type %T", w))
		}
	}
	return errs
}

func runConf(t *testing.T, cases []confCase) {
	cfgs := confConfigs()
	for _, c := range cases {
		c := c
		t.Run(c.name, func(t *testing.T) {
			for _, cfg := range cfgs {
				mod := cfg.mod
				var regs map[Reg]xrt.Binding
				if cfg.regs != nil {
					regs = map[Reg]xrt.Binding{}
					bm := map[hlsl.ResourceBinding]hlsl.BindTarget{}
					for b := uint32(0); b < 8; b++ {
						wb := xrt.Binding{Group: 0, Binding: b}
						idx, sp := cfg.regs(wb)
						bm[hlsl.ResourceBinding{Group: 0, Binding: b}] = hlsl.BindTarget{Space: uint8(sp), Register: idx}
						for _, cl := range []byte("tub") {
							regs[Reg{Class: cl, Index: idx, Space: sp}] = wb
						}
					}
					mod = func(o *hlsl.Options) { o.BindingMap = bm; o.FakeMissingBindings = false }
				}
				h, info := compileWGSL(t, c.wgsl, mod)
				p, err := Parse(h)
				if err != nil {
					if c.defect != "" {
						t.Skipf("naga defect: %s (%v)", c.defect, err)
					}
					t.Fatalf("[%s] parse: %v\n%s", cfg.name, err, h)
				}
				if pr := p.Problems(); len(pr) != 0 {
					t.Errorf("[%s] problems: %v", cfg.name, pr)
				}
				bufs := xrt.Buffers{}
				for b, d := range c.in {
					bufs[bind(0, b)] = append([]byte(nil), d...)
				}
				entry := c.entry
				if entry != "" {
					entry = info.EntryPointNames[entry]
				}
				o := Opts{Opts: xrt.Opts{EntryPoint: entry, NumWorkgroups: c.groups, PoisonLocals: true}, Registers: regs}
				if err := p.Exec(bufs, o); err != nil {
					if c.defect != "" {
						t.Skipf("naga defect: %s (%v)", c.defect, err)
					}
					t.Fatalf("[%s] exec: %v\n%s", cfg.name, err, h)
				}
				var errs []string
				for b, w := range c.want {
					errs = append(errs, checkWords(fmt.Sprintf("[%s] binding %d", cfg.name, b), bufs[bind(0, b)], w)...)
				}
				if len(errs) != 0 {
					if c.defect != "" {
						t.Skipf("naga defect: %s\n%s", c.defect, strings.Join(errs, "\n"))
					}
					t.Fatalf("%s\nHLSL:\n%s", strings.Join(errs, "\n"), h)
				}
			}
			if c.defect != "" {
				t.Errorf("the recorded naga defect did not show: %s", c.defect)
			}
		})
	}
}

func pad(s string) string { return strings.TrimSpace(s) }
