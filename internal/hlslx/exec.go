package hlslx

import (
	"encoding/binary"
	"fmt"
	"iter"
	"math"
	"strconv"
	"sync"

	"verif/internal/xrt"
)

// slot is one 32-bit scalar component; bit 32 marks poison (an uninitialised value).
type slot uint64

const poisonBit slot = 1 << 32

func itoa(i int) string { return strconv.Itoa(i) }

// Opts configures one execution.
type Opts struct {
	xrt.Opts
	// Registers maps register(xN, spaceM) to the WGSL binding backing it. Nil = identity
	// convention: register index = @binding, space = @group.
	Registers map[Reg]xrt.Binding
}

type resBinding struct {
	resolved bool
	b        xrt.Binding
	data     []byte
	err      error
}

type execState struct {
	prog    *Program
	bufs    xrt.Buffers
	opts    *Opts
	res     []resBinding
	cbs     []resBinding
	shared  []slot
	steps   int64
	limit   int64
	trace   *[]xrt.Access
	poison  bool
	statics []slot // template: initial values of static globals
	entry   *funcDecl
	groups  [3]uint32
}

type inv struct {
	x       *execState
	buf     []slot
	top     int
	statics []slot
	cur     []slot
	ret     []slot
	depth   int
	dtid    [3]uint32
	gtid    [3]uint32
	gid     [3]uint32
	gidx    uint32
	yield   func()
}

const maxArena = 1 << 24
const maxDepth = 128

func (iv *inv) alloc(n int) []slot {
	if iv.top+n > len(iv.buf) {
		sz := 2 * len(iv.buf)
		if sz < iv.top+n {
			sz = iv.top + n
		}
		if sz < 1024 {
			sz = 1024
		}
		if sz > maxArena {
			panic(unsupported("interpreter memory limit exceeded"))
		}
		// earlier slices keep pointing into the old array; nothing is addressed by index
		iv.buf = make([]slot, sz)
	}
	s := iv.buf[iv.top : iv.top+n : iv.top+n]
	iv.top += n
	return s
}

func (iv *inv) step() {
	iv.x.steps--
	if iv.x.steps < 0 {
		panic(&xrt.StepLimit{Steps: iv.x.limit})
	}
}

func trap(kind string, line int32, f string, a ...any) *xrt.Trap {
	return &xrt.Trap{Kind: kind, Detail: fmt.Sprintf("line %d: ", line) + fmt.Sprintf(f, a...)}
}

// use traps when any slot of s is poison: the value is about to be observed.
func (iv *inv) use(s []slot) {
	for _, v := range s {
		if v&poisonBit != 0 {
			panic(&xrt.Trap{Kind: "poison", Detail: "use of an uninitialised value"})
		}
	}
}

// convScalar converts one component between scalar kinds by HLSL's rules.
func convScalar(v slot, from, to skind) slot {
	if from == to {
		return v
	}
	if v&poisonBit != 0 {
		panic(&xrt.Trap{Kind: "poison", Detail: "conversion of an uninitialised value"})
	}
	u := uint32(v)
	switch to {
	case skBool:
		if from == skFloat {
			f := math.Float32frombits(u)
			if f != 0 { // NaN != 0 is true
				return 1
			}
			return 0
		}
		if u != 0 {
			return 1
		}
		return 0
	case skInt, skUint:
		if from != skFloat {
			return slot(u) // bool 0/1, int<->uint reinterpretation
		}
		f := float64(math.Float32frombits(u))
		if f != f || math.IsInf(f, 0) {
			panic(&xrt.Trap{Kind: "f2i-range", Detail: fmt.Sprintf("conversion of %v to %s", f, skNames[to])})
		}
		t := math.Trunc(f)
		if to == skInt {
			if t < -2147483648 || t > 2147483647 {
				panic(&xrt.Trap{Kind: "f2i-range", Detail: fmt.Sprintf("conversion of %v to int", f)})
			}
			return slot(uint32(int32(t)))
		}
		if t < 0 || t > 4294967295 {
			panic(&xrt.Trap{Kind: "f2i-range", Detail: fmt.Sprintf("conversion of %v to uint", f)})
		}
		return slot(uint32(t))
	case skFloat:
		switch from {
		case skBool:
			if u != 0 {
				return fs(1)
			}
			return fs(0)
		case skInt:
			return fs(float32(int32(u)))
		default:
			return fs(float32(u))
		}
	}
	return v
}

// ---------------------------------------------------------------- l-values

type lref struct {
	s   []slot
	sw  [4]uint8
	nsw uint8
}

func (l *lref) store(v []slot) {
	if l.nsw == 0 {
		copy(l.s, v)
		return
	}
	var tmp [4]slot
	copy(tmp[:], v)
	for i := 0; i < int(l.nsw); i++ {
		l.s[l.sw[i]] = tmp[i]
	}
}

func (iv *inv) loadLV(l *lref) []slot {
	if l.nsw == 0 {
		return l.s
	}
	r := iv.alloc(int(l.nsw))
	for i := range r {
		r[i] = l.s[l.sw[i]]
	}
	return r
}

func (iv *inv) varSlots(sym *symbol, fr []slot) []slot {
	n := sym.t.slots
	switch sym.store {
	case stLocal:
		return fr[sym.off : sym.off+n : sym.off+n]
	case stStatic:
		return iv.statics[sym.off : sym.off+n : sym.off+n]
	case stShared:
		return iv.x.shared[sym.off : sym.off+n : sym.off+n]
	}
	panic(unsupported("variable %s", sym.name))
}

func (iv *inv) index(e *expr, fr []slot, kind string) int {
	iv2 := iv.eval(e.b, fr)
	v := iv2[0]
	if v&poisonBit != 0 {
		panic(&xrt.Trap{Kind: "poison", Detail: "index is an uninitialised value (line " + itoa(int(e.line)) + ")"})
	}
	var cnt int
	switch {
	case e.a.t.k == kArray:
		cnt = e.a.t.n
	case e.a.t.isMatrix():
		cnt = int(e.a.t.rows)
	default:
		cnt = int(e.a.t.cols)
	}
	i := int64(uint32(v))
	if e.b.t.sk == skInt {
		i = int64(int32(v))
	}
	if i < 0 || i >= int64(cnt) {
		panic(trap(kind, e.line, "index %d outside %s of length %d", i, e.a.t.name, cnt))
	}
	return int(i)
}

func (iv *inv) evalLV(e *expr, fr []slot) lref {
	switch e.op {
	case eVar:
		if e.sym == nil {
			break
		}
		return lref{s: iv.varSlots(e.sym, fr)}
	case eMember:
		b := iv.evalLV(e.a, fr)
		if b.nsw != 0 {
			break
		}
		return lref{s: b.s[e.n : e.n+e.t.slots : e.n+e.t.slots]}
	case eIndex:
		b := iv.evalLV(e.a, fr)
		i := iv.index(e, fr, "oob-write")
		if b.nsw != 0 {
			// component of a swizzled vector
			return lref{s: b.s[b.sw[i] : int(b.sw[i])+1]}
		}
		return lref{s: b.s[i*e.n : (i+1)*e.n : (i+1)*e.n]}
	case eSwizzle:
		b := iv.evalLV(e.a, fr)
		var sw [4]uint8
		for i := 0; i < int(e.nsw); i++ {
			if b.nsw != 0 {
				sw[i] = b.sw[e.sw[i]]
			} else {
				sw[i] = e.sw[i]
			}
		}
		contig := true
		for i := 1; i < int(e.nsw); i++ {
			if sw[i] != sw[0]+uint8(i) {
				contig = false
			}
		}
		if contig {
			return lref{s: b.s[sw[0] : int(sw[0])+int(e.nsw)]}
		}
		return lref{s: b.s, sw: sw, nsw: e.nsw}
	}
	panic(unsupported("line %d: l-value form", e.line))
}

// ---------------------------------------------------------------- expressions

func (iv *inv) eval(e *expr, fr []slot) []slot {
	if e.cb {
		return iv.cbRead(e, fr)
	}
	switch e.op {
	case eLit:
		return e.val
	case eVar:
		if e.sym == nil {
			return iv.cur
		}
		return iv.varSlots(e.sym, fr)
	case eResVar:
		return e.val
	case eMember:
		b := iv.eval(e.a, fr)
		return b[e.n : e.n+e.t.slots : e.n+e.t.slots]
	case eIndex:
		b := iv.eval(e.a, fr)
		if e.b.side {
			c := iv.alloc(len(b))
			copy(c, b)
			b = c
		}
		i := iv.index(e, fr, "oob-read")
		return b[i*e.n : (i+1)*e.n : (i+1)*e.n]
	case eSwizzle:
		b := iv.eval(e.a, fr)
		n := int(e.nsw)
		contig := true
		for i := 1; i < n; i++ {
			if e.sw[i] != e.sw[0]+uint8(i) {
				contig = false
				break
			}
		}
		if contig {
			return b[e.sw[0] : int(e.sw[0])+n : int(e.sw[0])+n]
		}
		r := iv.alloc(n)
		for i := range r {
			r[i] = b[e.sw[i]]
		}
		return r
	case eUnary:
		a := iv.eval(e.a, fr)
		iv.use(a)
		r := iv.alloc(len(a))
		for i, v := range a {
			switch e.bop {
			case opNeg:
				if e.t.sk == skFloat {
					r[i] = slot(uint32(v) ^ 0x80000000)
				} else {
					r[i] = slot(-uint32(v))
				}
			case opNot:
				r[i] = slot(uint32(v) ^ 1)
			case opBitNot:
				r[i] = slot(^uint32(v))
			}
		}
		return r
	case eBinary:
		a := iv.eval(e.a, fr)
		if e.b.side {
			c := iv.alloc(len(a))
			copy(c, a)
			a = c
		}
		b := iv.eval(e.b, fr)
		return iv.binary(e, a, b)
	case eShift:
		a := iv.eval(e.a, fr)
		if e.b.side {
			c := iv.alloc(len(a))
			copy(c, a)
			a = c
		}
		b := iv.eval(e.b, fr)
		iv.use(a)
		iv.use(b)
		r := iv.alloc(len(a))
		for i := range r {
			cnt := uint32(b[i]) & 31
			switch {
			case e.bop == opShl:
				r[i] = slot(uint32(a[i]) << cnt)
			case e.t.sk == skInt:
				r[i] = slot(uint32(int32(a[i]) >> cnt))
			default:
				r[i] = slot(uint32(a[i]) >> cnt)
			}
		}
		return r
	case eLogical:
		a := iv.eval(e.a, fr)
		if e.b.side {
			c := iv.alloc(len(a))
			copy(c, a)
			a = c
		}
		b := iv.eval(e.b, fr) // HLSL evaluates both operands; no short circuit
		iv.use(a)
		iv.use(b)
		r := iv.alloc(len(a))
		for i := range r {
			if e.bop == opLAnd {
				r[i] = a[i] & b[i] & 1
			} else {
				r[i] = (a[i] | b[i]) & 1
			}
		}
		return r
	case eTernary:
		c := iv.eval(e.a, fr)
		iv.use(c)
		if e.b.side || e.c.side {
			cc := iv.alloc(len(c))
			copy(cc, c)
			c = cc
		}
		// both arms are evaluated (HLSL never short-circuits ?:)
		a := iv.eval(e.b, fr)
		if e.c.side {
			ac := iv.alloc(len(a))
			copy(ac, a)
			a = ac
		}
		b := iv.eval(e.c, fr)
		if len(c) == 1 {
			if uint32(c[0]) != 0 {
				return a
			}
			return b
		}
		r := iv.alloc(len(a))
		for i := range r {
			if uint32(c[i]) != 0 {
				r[i] = a[i]
			} else {
				r[i] = b[i]
			}
		}
		return r
	case eAssign:
		if e.bop == opNone {
			v := iv.eval(e.b, fr)
			lv := iv.evalLV(e.a, fr)
			lv.store(v)
			return v
		}
		lv := iv.evalLV(e.a, fr)
		saved := iv.cur
		iv.cur = iv.loadLV(&lv)
		v := iv.eval(e.b, fr)
		iv.cur = saved
		lv.store(v)
		return v
	case eIncDec:
		lv := iv.evalLV(e.a, fr)
		cur := iv.loadLV(&lv)
		iv.use(cur)
		old := iv.alloc(len(cur))
		copy(old, cur)
		nw := iv.alloc(len(cur))
		for i, v := range old {
			inc := e.bop == opPreInc || e.bop == opPostInc
			if e.t.sk == skFloat {
				d := float32(1)
				if !inc {
					d = -1
				}
				nw[i] = fs(float32(fv(v) + d))
			} else if inc {
				nw[i] = slot(uint32(v) + 1)
			} else {
				nw[i] = slot(uint32(v) - 1)
			}
		}
		lv.store(nw)
		if e.bop == opPreInc || e.bop == opPreDec {
			return nw
		}
		return old
	case eConvert:
		return iv.convert(e, fr)
	case eFlatCast:
		a := iv.eval(e.a, fr)
		if e.lk == nil {
			return a
		}
		r := iv.alloc(len(a))
		for i, v := range a {
			r[i] = convScalar(v, skind(e.lk[i]>>4), skind(e.lk[i]&15))
		}
		return r
	case eZeroInit:
		a := iv.eval(e.a, fr)
		r := iv.alloc(len(e.lk))
		for i := range r {
			r[i] = convScalar(a[0], skind(e.lk[i]>>4), skind(e.lk[i]&15))
		}
		return r
	case eConstruct, eInitList:
		r := iv.alloc(e.t.slots)
		k := 0
		for _, a := range e.args {
			v := iv.eval(a, fr)
			k += copy(r[k:], v)
		}
		if e.lk != nil {
			for i, v := range r {
				r[i] = convScalar(v, skind(e.lk[i]>>4), skind(e.lk[i]&15))
			}
		}
		return r
	case eComma:
		iv.eval(e.a, fr)
		return iv.eval(e.b, fr)
	case eCall:
		return iv.call(e, fr)
	case eIntrinsic:
		return iv.evalIntrinsic(e, fr)
	case eMethod:
		return iv.evalMethod(e, fr)
	case eOpaque:
		panic(unsupported("line %d: %s", e.line, e.name))
	}
	panic(unsupported("line %d: expression kind %d", e.line, e.op))
}

func (iv *inv) convert(e *expr, fr []slot) []slot {
	a := iv.eval(e.a, fr)
	from, to := e.a.t, e.t
	n := to.slots
	if from.sk == to.sk {
		switch {
		case from.slots == n && from.rows == to.rows:
			return a
		case from.isVector() && !to.isMatrix():
			return a[:n:n] // truncation keeps the leading components
		}
	}
	r := iv.alloc(n)
	switch {
	case from.isScalar():
		v := convScalar(a[0], from.sk, to.sk)
		for i := range r {
			r[i] = v
		}
	case from.isMatrix() && to.isMatrix() && (from.rows != to.rows || from.cols != to.cols):
		for i := 0; i < int(to.rows); i++ {
			for j := 0; j < int(to.cols); j++ {
				r[i*int(to.cols)+j] = convScalar(a[i*int(from.cols)+j], from.sk, to.sk)
			}
		}
	default:
		for i := range r {
			r[i] = convScalar(a[i], from.sk, to.sk)
		}
	}
	return r
}

func (iv *inv) binary(e *expr, a, b []slot) []slot {
	iv.use(a)
	iv.use(b)
	sk := e.a.t.sk
	r := iv.alloc(len(a))
	switch sk {
	case skFloat:
		for i := range r {
			x, y := fv(a[i]), fv(b[i])
			switch e.bop {
			case opAdd:
				r[i] = fs(float32(x + y))
			case opSub:
				r[i] = fs(float32(x - y))
			case opMul:
				r[i] = fs(float32(x * y))
			case opDiv:
				r[i] = fs(float32(x / y))
			case opMod:
				r[i] = fs(binaryF(iFmod, x, y))
			case opEq:
				r[i] = b2s(x == y)
			case opNe:
				r[i] = b2s(x != y)
			case opLt:
				r[i] = b2s(x < y)
			case opLe:
				r[i] = b2s(x <= y)
			case opGt:
				r[i] = b2s(x > y)
			case opGe:
				r[i] = b2s(x >= y)
			}
		}
	case skInt:
		for i := range r {
			x, y := int32(a[i]), int32(b[i])
			switch e.bop {
			case opAdd:
				r[i] = slot(uint32(x) + uint32(y))
			case opSub:
				r[i] = slot(uint32(x) - uint32(y))
			case opMul:
				r[i] = slot(uint32(x) * uint32(y))
			case opDiv, opMod:
				if y == 0 {
					panic(trap("div0", e.line, "signed integer division by zero"))
				}
				if x == math.MinInt32 && y == -1 {
					panic(trap("sdiv-overflow", e.line, "INT_MIN / -1"))
				}
				if e.bop == opDiv {
					r[i] = slot(uint32(x / y))
				} else {
					// HLSL reference, "Operators": integer % "is defined only in cases where either both
					// sides are positive or both sides are negative".
					if (x < 0 && y > 0) || (x > 0 && y < 0) {
						panic(trap("smod-mixed-sign", e.line, "%d %% %d: integer %% with operands of different sign", x, y))
					}
					r[i] = slot(uint32(x % y))
				}
			case opAnd:
				r[i] = slot(uint32(x & y))
			case opOr:
				r[i] = slot(uint32(x | y))
			case opXor:
				r[i] = slot(uint32(x ^ y))
			case opEq:
				r[i] = b2s(x == y)
			case opNe:
				r[i] = b2s(x != y)
			case opLt:
				r[i] = b2s(x < y)
			case opLe:
				r[i] = b2s(x <= y)
			case opGt:
				r[i] = b2s(x > y)
			case opGe:
				r[i] = b2s(x >= y)
			}
		}
	default: // uint, bool
		for i := range r {
			x, y := uint32(a[i]), uint32(b[i])
			switch e.bop {
			case opAdd:
				r[i] = slot(x + y)
			case opSub:
				r[i] = slot(x - y)
			case opMul:
				r[i] = slot(x * y)
			case opDiv, opMod:
				if y == 0 {
					panic(trap("div0", e.line, "unsigned integer division by zero"))
				}
				if e.bop == opDiv {
					r[i] = slot(x / y)
				} else {
					r[i] = slot(x % y)
				}
			case opAnd:
				r[i] = slot(x & y)
			case opOr:
				r[i] = slot(x | y)
			case opXor:
				r[i] = slot(x ^ y)
			case opEq:
				r[i] = b2s(x == y)
			case opNe:
				r[i] = b2s(x != y)
			case opLt:
				r[i] = b2s(x < y)
			case opLe:
				r[i] = b2s(x <= y)
			case opGt:
				r[i] = b2s(x > y)
			case opGe:
				r[i] = b2s(x >= y)
			}
		}
	}
	return r
}

func b2s(b bool) slot {
	if b {
		return 1
	}
	return 0
}

// ---------------------------------------------------------------- calls

func (iv *inv) fillLocal(s []slot) {
	v := slot(0)
	if iv.x.poison {
		v = poisonBit
	}
	for i := range s {
		s[i] = v
	}
}

func (iv *inv) call(e *expr, fr []slot) []slot {
	f := e.fn
	iv.step()
	if iv.depth >= maxDepth {
		panic(&xrt.Malformed{What: fmt.Sprintf("line %d: recursion through %s (HLSL forbids recursive functions)", e.line, f.name)})
	}
	mark := iv.top
	nf := iv.alloc(f.frame)
	iv.fillLocal(nf)
	var outs []lref
	if f.hasOut {
		outs = make([]lref, len(f.params))
	}
	for i := range f.params {
		pr := &f.params[i]
		dst := nf[pr.sym.off : pr.sym.off+pr.sym.t.slots]
		a := e.args[i]
		if pr.dir == dirIn {
			copy(dst, iv.eval(a, fr))
			continue
		}
		lv := iv.evalLV(a, fr)
		outs[i] = lv
		if pr.dir == dirInOut {
			v := iv.loadLV(&lv)
			if a.t != pr.sym.t {
				for j := range dst {
					dst[j] = convScalar(v[j], a.t.sk, pr.sym.t.sk)
				}
			} else {
				copy(dst, v)
			}
		}
	}
	iv.depth++
	iv.ret = nil
	iv.execBlock(f.body, nf)
	iv.depth--
	ret := iv.ret
	if f.ret.k != kVoid && ret == nil {
		panic(&xrt.Malformed{What: fmt.Sprintf("function %s ends without returning a value", f.name)})
	}
	if ret != nil {
		// unwinding statements lowered top below the returned slots: move them to safety first
		r2 := iv.alloc(len(ret))
		copy(r2, ret)
		ret = r2
	}
	if f.hasOut {
		for i := range f.params {
			pr := &f.params[i]
			if pr.dir == dirIn {
				continue
			}
			src := nf[pr.sym.off : pr.sym.off+pr.sym.t.slots]
			a := e.args[i]
			if a.t != pr.sym.t {
				c := iv.alloc(len(src))
				for j := range src {
					c[j] = convScalar(src[j], pr.sym.t.sk, a.t.sk)
				}
				src = c
			}
			outs[i].store(src)
		}
	}
	iv.top = mark
	if f.ret.k == kVoid {
		return nil
	}
	out := iv.alloc(len(ret))
	copy(out, ret)
	return out
}

// ---------------------------------------------------------------- statements

type ctl uint8

const (
	ctlNone ctl = iota
	ctlBreak
	ctlContinue
	ctlReturn
)

func (iv *inv) execBlock(ss []*stmt, fr []slot) ctl {
	for _, s := range ss {
		if c := iv.exec(s, fr); c != ctlNone {
			return c
		}
	}
	return ctlNone
}

func (iv *inv) cond(e *expr, fr []slot) bool {
	v := iv.eval(e, fr)
	if v[0]&poisonBit != 0 {
		panic(&xrt.Trap{Kind: "poison", Detail: "condition is an uninitialised value (line " + itoa(int(e.line)) + ")"})
	}
	return uint32(v[0]) != 0
}

func (iv *inv) exec(s *stmt, fr []slot) ctl {
	iv.step()
	mark := iv.top
	c := ctlNone
	switch s.op {
	case sExpr:
		iv.eval(s.e, fr)
	case sDecl:
		dst := fr[s.sym.off : s.sym.off+s.sym.t.slots]
		if s.e != nil {
			copy(dst, iv.eval(s.e, fr))
		} else {
			iv.fillLocal(dst)
		}
	case sBlock:
		c = iv.execBlock(s.body, fr)
	case sIf:
		if iv.cond(s.e, fr) {
			c = iv.execBlock(s.body, fr)
		} else if s.els != nil {
			c = iv.execBlock(s.els, fr)
		}
	case sWhile:
		for {
			iv.top = mark
			iv.step()
			if !iv.cond(s.e, fr) {
				break
			}
			bc := iv.execBlock(s.body, fr)
			if bc == ctlBreak {
				break
			}
			if bc == ctlReturn {
				c = ctlReturn
				break
			}
		}
	case sDoWhile:
		for {
			iv.top = mark
			iv.step()
			bc := iv.execBlock(s.body, fr)
			if bc == ctlBreak {
				break
			}
			if bc == ctlReturn {
				c = ctlReturn
				break
			}
			if !iv.cond(s.e, fr) {
				break
			}
		}
	case sFor:
		iv.execBlock(s.init, fr)
		m2 := iv.top
		for {
			iv.top = m2
			iv.step()
			if s.e != nil && !iv.cond(s.e, fr) {
				break
			}
			bc := iv.execBlock(s.body, fr)
			if bc == ctlBreak {
				break
			}
			if bc == ctlReturn {
				c = ctlReturn
				break
			}
			if s.post != nil {
				iv.eval(s.post, fr)
			}
		}
	case sSwitch:
		c = iv.execSwitch(s, fr)
	case sBreak:
		c = ctlBreak
	case sContinue:
		c = ctlContinue
	case sReturn:
		if s.e != nil {
			iv.ret = iv.eval(s.e, fr)
		}
		// the returned slots stay valid: nothing allocates between here and the copy in call()
		return ctlReturn
	case sDiscard:
		panic(unsupported("line %d: discard", s.line))
	}
	iv.top = mark
	return c
}

func (iv *inv) execSwitch(s *stmt, fr []slot) ctl {
	v := iv.eval(s.e, fr)
	if v[0]&poisonBit != 0 {
		panic(&xrt.Trap{Kind: "poison", Detail: "switch selector is an uninitialised value"})
	}
	sel := uint32(v[0])
	idx := -1
	for i := range s.cases {
		cs := &s.cases[i]
		for _, cv := range cs.vals {
			if cv == sel {
				idx = i
			}
		}
	}
	if idx < 0 {
		for i := range s.cases {
			if s.cases[i].deflt {
				idx = i
			}
		}
	}
	if idx < 0 {
		return ctlNone
	}
	for i := idx; i < len(s.cases); i++ {
		body := s.cases[i].body
		c := iv.execBlock(body, fr)
		switch c {
		case ctlBreak:
			return ctlNone
		case ctlContinue, ctlReturn:
			return c
		}
		if len(body) != 0 && i+1 < len(s.cases) {
			panic(&xrt.Malformed{What: fmt.Sprintf("line %d: control falls through from a non-empty case into the next (not allowed in HLSL)", s.line)})
		}
	}
	return ctlNone
}

// ---------------------------------------------------------------- resources

func (x *execState) bindingOf(r Reg, hasReg bool, what string) (xrt.Binding, error) {
	if !hasReg {
		return xrt.Binding{}, unsupported("%s has no register annotation", what)
	}
	if x.opts.Registers == nil {
		return xrt.Binding{Group: r.Space, Binding: r.Index}, nil
	}
	b, ok := x.opts.Registers[r]
	if !ok {
		return xrt.Binding{}, &xrt.Malformed{What: fmt.Sprintf("%s uses register(%c%d, space%d), which the binding map does not explain", what, r.Class, r.Index, r.Space)}
	}
	return b, nil
}

func (x *execState) resolve(rb *resBinding, r Reg, hasReg bool, what string) *resBinding {
	if !rb.resolved {
		rb.resolved = true
		rb.b, rb.err = x.bindingOf(r, hasReg, what)
		if rb.err == nil {
			d, ok := x.bufs[rb.b]
			if !ok {
				rb.err = &xrt.Malformed{What: fmt.Sprintf("%s: no buffer supplied for binding %s", what, rb.b)}
			}
			rb.data = d
		}
	}
	if rb.err != nil {
		panic(rb.err)
	}
	return rb
}

func (x *execState) record(b xrt.Binding, off, n int, write bool) {
	if x.trace != nil {
		*x.trace = append(*x.trace, xrt.Access{B: b, Off: off, Len: n, Write: write})
	}
}

func (iv *inv) evalMethod(e *expr, fr []slot) []slot {
	h := iv.eval(e.a, fr)
	iv.use(h)
	ri := int(uint32(h[0])) - 1
	x := iv.x
	if ri < 0 || ri >= len(x.res) {
		panic(unsupported("line %d: invalid resource handle", e.line))
	}
	rd := x.prog.resources[ri]
	rb := x.resolve(&x.res[ri], rd.reg, rd.hasReg, arrayBase(rd.t).res+" "+rd.name)
	data := rb.data
	switch e.n {
	case mGetDimensions:
		o := iv.alloc(1)
		o[0] = slot(uint32(len(data)))
		iv.storeConv(e.args[0], fr, o, skUint)
		return nil
	}
	offv := iv.eval(e.args[0], fr)
	iv.use(offv)
	off := uint32(offv[0])
	if off%4 != 0 {
		panic(&xrt.Malformed{What: fmt.Sprintf("line %d: %s.%s at unaligned byte offset %d", e.line, rd.name, e.name, off)})
	}
	inRange := func(o uint64) bool { return o+4 <= uint64(len(data)) }
	switch e.n {
	case mLoad:
		n := e.t.slots
		r := iv.alloc(n)
		x.record(rb.b, int(off), 4*n, false)
		for i := 0; i < n; i++ {
			o := uint64(off) + uint64(4*i)
			if inRange(o) {
				r[i] = slot(binary.LittleEndian.Uint32(data[o:]))
			} else {
				r[i] = 0 // D3D: out-of-bounds raw-buffer reads return 0
			}
		}
		return r
	case mStore:
		v := iv.eval(e.args[1], fr)
		iv.use(v)
		x.record(rb.b, int(off), 4*len(v), true)
		for i := range v {
			o := uint64(off) + uint64(4*i)
			if inRange(o) {
				binary.LittleEndian.PutUint32(data[o:], uint32(v[i]))
			} // else: D3D drops out-of-bounds writes
		}
		return nil
	case mInterlocked:
		id := intrID(e.fld)
		nval := 1
		if id == iInterlockedCompareExchange || id == iInterlockedCompareStore {
			nval = 2
		}
		var v, cmp uint32
		if nval == 2 {
			c := iv.eval(e.args[1], fr)
			iv.use(c)
			cmp = uint32(c[0])
			w := iv.eval(e.args[2], fr)
			iv.use(w)
			v = uint32(w[0])
		} else {
			w := iv.eval(e.args[1], fr)
			iv.use(w)
			v = uint32(w[0])
		}
		x.record(rb.b, int(off), 4, false)
		var old uint32
		if inRange(uint64(off)) {
			old = binary.LittleEndian.Uint32(data[off:])
			x.record(rb.b, int(off), 4, true)
			binary.LittleEndian.PutUint32(data[off:], atomicOp(id, e.args[1].t.sk == skInt, old, v, cmp))
		} else {
			x.record(rb.b, int(off), 4, true)
		}
		if len(e.args) > 1+nval {
			o := iv.alloc(1)
			o[0] = slot(old)
			iv.storeConv(e.args[len(e.args)-1], fr, o, e.args[1].t.sk)
		}
		return nil
	}
	panic(unsupported("line %d: method %s", e.line, e.name))
}

// ---------------------------------------------------------------- constant buffers

type cbRef struct {
	n    *cbNode
	off  int
	row  int
	comp int
}

func (iv *inv) cbAddr(e *expr, fr []slot) cbRef {
	switch e.op {
	case eCBVar:
		return cbRef{n: e.sym.cbn, off: e.sym.cbn.off, row: -1, comp: -1}
	case eMember:
		r := iv.cbAddr(e.a, fr)
		f := r.n.fields[e.fld]
		return cbRef{n: f, off: r.off + f.off, row: -1, comp: -1}
	case eIndex:
		r := iv.cbAddr(e.a, fr)
		i := iv.index(e, fr, "oob-read")
		switch {
		case r.n.t.k == kArray:
			return cbRef{n: r.n.elem, off: r.off + i*r.n.stride, row: -1, comp: -1}
		case r.n.t.isMatrix() && r.row < 0:
			r.row = i
			return r
		case r.comp < 0:
			r.comp = i
			return r
		}
	case eSwizzle:
		r := iv.cbAddr(e.a, fr)
		if e.nsw == 1 && r.comp < 0 {
			r.comp = int(e.sw[0])
			return r
		}
	}
	panic(unsupported("line %d: constant-buffer access form", e.line))
}

func (iv *inv) cbRead(e *expr, fr []slot) []slot {
	if e.op == eSwizzle && e.nsw != 1 {
		// read the whole vector, then select
		b := iv.cbRead(e.a, fr)
		r := iv.alloc(int(e.nsw))
		for i := range r {
			r[i] = b[e.sw[i]]
		}
		return r
	}
	var root *expr
	for root = e; root.op != eCBVar; root = root.a {
	}
	cb := root.sym.cb
	x := iv.x
	rb := x.resolve(&x.cbs[cb.index], cb.reg, cb.hasReg, "cbuffer "+cb.name)
	ref := iv.cbAddr(e, fr)
	out := iv.alloc(e.t.slots)
	iv.cbLoad(rb, ref, out)
	return out
}

func (iv *inv) cbWords(rb *resBinding, off, n int, sk skind, out []slot) {
	iv.x.record(rb.b, off, 4*n, false)
	for i := 0; i < n; i++ {
		o := off + 4*i
		var w uint32
		if o >= 0 && o+4 <= len(rb.data) {
			w = binary.LittleEndian.Uint32(rb.data[o:])
		}
		if sk == skBool && w != 0 {
			w = 1
		}
		out[i] = slot(w)
	}
}

func (iv *inv) cbLoad(rb *resBinding, r cbRef, out []slot) {
	n := r.n
	t := n.t
	switch t.k {
	case kNum:
		switch {
		case !t.isMatrix():
			if r.comp >= 0 {
				iv.cbWords(rb, r.off+4*r.comp, 1, t.sk, out)
			} else {
				iv.cbWords(rb, r.off, int(t.cols), t.sk, out)
			}
		case n.rowMajor:
			R, C := int(t.rows), int(t.cols)
			switch {
			case r.row < 0:
				for i := 0; i < R; i++ {
					iv.cbWords(rb, r.off+16*i, C, t.sk, out[i*C:])
				}
			case r.comp < 0:
				iv.cbWords(rb, r.off+16*r.row, C, t.sk, out)
			default:
				iv.cbWords(rb, r.off+16*r.row+4*r.comp, 1, t.sk, out)
			}
		default: // column_major: C registers of R components
			R, C := int(t.rows), int(t.cols)
			switch {
			case r.row < 0:
				col := make([]slot, R)
				for j := 0; j < C; j++ {
					iv.cbWords(rb, r.off+16*j, R, t.sk, col)
					for i := 0; i < R; i++ {
						out[i*C+j] = col[i]
					}
				}
			case r.comp < 0:
				for j := 0; j < C; j++ {
					iv.cbWords(rb, r.off+16*j+4*r.row, 1, t.sk, out[j:])
				}
			default:
				iv.cbWords(rb, r.off+16*r.comp+4*r.row, 1, t.sk, out)
			}
		}
	case kArray:
		es := t.elem.slots
		for i := 0; i < t.n; i++ {
			iv.cbLoad(rb, cbRef{n: n.elem, off: r.off + i*n.stride, row: -1, comp: -1}, out[i*es:])
		}
	case kStruct:
		for i, f := range n.fields {
			fo := t.st.fields[i].off
			iv.cbLoad(rb, cbRef{n: f, off: r.off + f.off, row: -1, comp: -1}, out[fo:])
		}
	default:
		panic(unsupported("constant-buffer member of type %s", t.name))
	}
}

// ---------------------------------------------------------------- running

var invPool = sync.Pool{New: func() any { return &inv{buf: make([]slot, 4096)} }}

func getInv(x *execState) *inv {
	iv := invPool.Get().(*inv)
	buf := iv.buf
	*iv = inv{x: x, buf: buf}
	return iv
}

func putInv(iv *inv) {
	if len(iv.buf) <= 1<<16 {
		iv.x = nil
		invPool.Put(iv)
	}
}

func (iv *inv) barrier() {
	if iv.yield != nil {
		iv.yield()
	}
}

type stopCoroutine struct{}

func errFromPanic(r any) error {
	switch v := r.(type) {
	case *xrt.Trap:
		return v
	case *xrt.Unsupported:
		return v
	case *xrt.Malformed:
		return v
	case *xrt.StepLimit:
		return v
	case parseErr:
		return v.err
	case error:
		return unsupported("internal interpreter failure: %v", v)
	default:
		return unsupported("internal interpreter failure: %v", v)
	}
}

// Exec runs the selected [numthreads] entry point over bufs.
func (p *Program) Exec(bufs xrt.Buffers, o Opts) (err error) {
	defer func() {
		if r := recover(); r != nil {
			err = errFromPanic(r)
		}
	}()
	var entry *funcDecl
	for _, f := range p.entries {
		if o.EntryPoint == "" || f.name == o.EntryPoint {
			entry = f
			break
		}
	}
	if entry == nil {
		if o.EntryPoint != "" {
			for _, f := range p.funcs {
				if f.name == o.EntryPoint {
					return unsupported("function %s is not a compute entry point", f.name)
				}
			}
			return &xrt.Malformed{What: "entry point " + o.EntryPoint + " not found in the HLSL text"}
		}
		return unsupported("no [numthreads] entry point")
	}
	x := &execState{prog: p, bufs: bufs, opts: &o, steps: o.Steps(), limit: o.Steps(), trace: o.Trace, poison: o.PoisonLocals, entry: entry, groups: o.Groups()}
	x.res = make([]resBinding, len(p.resources))
	x.cbs = make([]resBinding, len(p.cbuffers))
	x.shared = make([]slot, p.sharedSize)

	// static globals: evaluated once, copied into every invocation
	x.statics = make([]slot, p.staticSize)
	{
		iv := getInv(x)
		iv.statics = x.statics
		for _, g := range p.globals {
			if g.store != stStatic {
				continue
			}
			dst := x.statics[g.off : g.off+g.t.slots]
			if g.init != nil {
				m := iv.top
				copy(dst, iv.eval(g.init, nil))
				iv.top = m
			}
		}
		putInv(iv)
	}

	nt := entry.numthreads
	total := int(nt[0] * nt[1] * nt[2])
	for gz := uint32(0); gz < x.groups[2]; gz++ {
		for gy := uint32(0); gy < x.groups[1]; gy++ {
			for gx := uint32(0); gx < x.groups[0]; gx++ {
				x.runGroup([3]uint32{gx, gy, gz}, total)
			}
		}
	}
	return nil
}

func (x *execState) newInv(gid [3]uint32, li int) *inv {
	nt := x.entry.numthreads
	iv := getInv(x)
	iv.statics = iv.alloc(len(x.statics))
	copy(iv.statics, x.statics)
	iv.gid = gid
	iv.gidx = uint32(li)
	iv.gtid = [3]uint32{uint32(li) % nt[0], uint32(li) / nt[0] % nt[1], uint32(li) / (nt[0] * nt[1])}
	for i := 0; i < 3; i++ {
		iv.dtid[i] = gid[i]*nt[i] + iv.gtid[i]
	}
	return iv
}

func (x *execState) runGroup(gid [3]uint32, total int) {
	fill := slot(0)
	if x.poison {
		fill = poisonBit
	}
	for i := range x.shared {
		x.shared[i] = fill
	}
	if total == 1 || !x.prog.hasBarrier {
		for li := 0; li < total; li++ {
			iv := x.newInv(gid, li)
			iv.runEntry()
			putInv(iv)
		}
		return
	}
	// Barriers with several invocations: every invocation is a coroutine that runs to its next
	// barrier; rounds visit the invocations in local-index order.
	type co struct {
		next func() (struct{}, bool)
		stop func()
		done bool
	}
	cos := make([]*co, total)
	defer func() {
		for _, c := range cos {
			if c != nil && !c.done {
				func() {
					defer func() { recover() }()
					c.stop()
				}()
			}
		}
	}()
	for li := 0; li < total; li++ {
		iv := x.newInv(gid, li)
		seq := func(yield func(struct{}) bool) {
			iv.yield = func() {
				if !yield(struct{}{}) {
					panic(stopCoroutine{})
				}
			}
			iv.runEntry()
		}
		n, s := iter.Pull(iter.Seq[struct{}](seq))
		cos[li] = &co{next: n, stop: s}
	}
	for {
		waiting, finished := 0, 0
		for _, c := range cos {
			if c.done {
				finished++
				continue
			}
			if _, ok := c.next(); ok {
				waiting++
			} else {
				c.done = true
				finished++
			}
		}
		if waiting == 0 {
			return
		}
		if finished != 0 {
			panic(&xrt.Trap{Kind: "barrier-divergence", Detail: fmt.Sprintf("%d invocations wait at a barrier that %d invocations never reach", waiting, finished)})
		}
	}
}

func semanticValue(iv *inv, sem string) ([]uint32, bool) {
	switch upper(sem) {
	case "SV_DISPATCHTHREADID":
		return iv.dtid[:], true
	case "SV_GROUPTHREADID":
		return iv.gtid[:], true
	case "SV_GROUPID":
		return iv.gid[:], true
	case "SV_GROUPINDEX":
		return []uint32{iv.gidx}, true
	}
	return nil, false
}

func upper(s string) string {
	b := []byte(s)
	for i, c := range b {
		if c >= 'a' && c <= 'z' {
			b[i] = c - 32
		}
	}
	return string(b)
}

func (iv *inv) bindSemantic(dst []slot, t *Type, sem, what string) {
	if sem == "" {
		panic(unsupported("entry parameter %s has no semantic", what))
	}
	v, ok := semanticValue(iv, sem)
	if !ok {
		panic(unsupported("entry parameter %s: semantic %s", what, sem))
	}
	if t.k != kNum || t.isMatrix() || (t.sk != skUint && t.sk != skInt) || int(t.cols) > len(v) {
		panic(unsupported("entry parameter %s of type %s for semantic %s", what, t.name, sem))
	}
	for i := 0; i < int(t.cols); i++ {
		dst[i] = slot(v[i])
	}
}

func (iv *inv) runEntry() {
	f := iv.x.entry
	fr := iv.alloc(f.frame)
	iv.fillLocal(fr)
	for i := range f.params {
		pr := &f.params[i]
		if pr.dir != dirIn {
			panic(unsupported("out parameter on the entry point"))
		}
		t := pr.sym.t
		dst := fr[pr.sym.off : pr.sym.off+t.slots]
		if t.k == kStruct {
			for j := range t.st.fields {
				fl := &t.st.fields[j]
				iv.bindSemantic(dst[fl.off:fl.off+fl.t.slots], fl.t, fl.semantic, pr.sym.name+"."+fl.name)
			}
			continue
		}
		iv.bindSemantic(dst, t, pr.semantic, pr.sym.name)
	}
	iv.execBlock(f.body, fr)
}
