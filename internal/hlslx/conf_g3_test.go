package hlslx

import (
	"testing"

	"verif/internal/xrt"
)

func fill(n int, w uint32) []byte {
	v := make([]uint32, n)
	for i := range v {
		v[i] = w
	}
	return u32s(v...)
}

func cat(bs ...[]byte) []byte {
	var out []byte
	for _, b := range bs {
		out = append(out, b...)
	}
	return out
}

const sent = uint32(0x55555555)

// Group 3: memory. Offsets are the WGSL layout (align/size rules, vec3 padding, matrix column
// stride, @align/@size), derived by hand.
func TestConfGroup3(t *testing.T) {
	cases := []confCase{
		{
			name: "vec3_array_load_store",
			wgsl: `
@group(0) @binding(0) var<storage, read> inp: array<vec3<f32>, 2>;
@group(0) @binding(1) var<storage, read_write> outp: array<vec3<f32>, 3>;
@compute @workgroup_size(1) fn main() {
  outp[0] = inp[1];
  outp[1] = inp[0] + inp[1];
  outp[2].y = inp[0].z;
}`,
			in:   map[uint32][]byte{0: f32s(1, 2, 3, -1, 4, 5, 6, -1), 1: fill(12, sent)},
			want: map[uint32][]any{1: {4.0, 5.0, 6.0, anyWord{}, 5.0, 7.0, 9.0, anyWord{}, sent, 3.0, sent, sent}},
		},
		{
			name: "struct_vec3_then_scalar_packing",
			wgsl: `
struct T { v: vec3<f32>, f: f32, w: vec2<f32>, i: i32 }
@group(0) @binding(0) var<storage, read> inp: T;
@group(0) @binding(1) var<storage, read_write> outp: T;
@compute @workgroup_size(1) fn main() {
  outp = T(inp.v * 2.0, inp.f + 1.0, inp.w, inp.i - 1);
}`,
			// v @0, f @12, w @16, i @24, size 32
			in:   map[uint32][]byte{0: cat(f32s(1, 2, 3, 4, 5, 6), i32s(7, 0)), 1: fill(8, sent)},
			want: map[uint32][]any{1: {2.0, 4.0, 6.0, 5.0, 5.0, 6.0, 6, anyWord{}}},
		},
		{
			name: "array_of_structs_with_vec3_dynamic",
			wgsl: `
struct E { p: vec3<f32>, k: u32 }
struct I { idx: u32, arr: array<E, 3> }
@group(0) @binding(0) var<storage, read> inp: I;
@group(0) @binding(1) var<storage, read_write> outp: array<E, 3>;
@compute @workgroup_size(1) fn main() {
  let i = inp.idx;
  outp[i] = E(inp.arr[i].p + 1.0, inp.arr[i].k * 2u);
  outp[0].p.y = 99.0;
  outp[2].k = inp.arr[i + 1u].k;
  outp[2].p = inp.arr[0].p.zyx;
}`,
			// I: idx @0, arr @16, element stride 16 (p @0, k @12)
			in: map[uint32][]byte{0: cat(u32s(1, 0, 0, 0), f32s(1, 2, 3), u32s(10), f32s(4, 5, 6), u32s(20), f32s(7, 8, 9), u32s(30)),
				1: fill(12, sent)},
			want: map[uint32][]any{1: {sent, 99.0, sent, sent, 5.0, 6.0, 7.0, uint32(40), 3.0, 2.0, 1.0, uint32(30)}},
		},
		{
			name: "nested_arrays_static_dynamic",
			wgsl: `
@group(0) @binding(0) var<storage, read> inp: array<array<i32, 3>, 2>;
@group(0) @binding(1) var<storage, read_write> outp: array<array<i32, 3>, 2>;
@group(0) @binding(2) var<storage, read> ij: array<u32, 2>;
@compute @workgroup_size(1) fn main() {
  outp[0] = inp[1];
  outp[1][2] = inp[0][1] + inp[ij[0]][ij[1]];
  outp[ij[0]][ij[1]] = -1;
  var loc = inp;
  loc[ij[0]][1] = 50;
  outp[1][1] = loc[1][1] + loc[0][2];
}`,
			in:   map[uint32][]byte{0: i32s(1, 2, 3, 4, 5, 6), 1: make([]byte, 24), 2: u32s(1, 0)},
			want: map[uint32][]any{1: {4, 5, 6, -1, 53, 6}},
		},
		{
			name: "runtime_arrays_arraylength",
			wgsl: `
struct O { n: u32, data: array<vec2<u32>> }
@group(0) @binding(0) var<storage, read> inp: array<u32>;
@group(0) @binding(1) var<storage, read_write> outp: O;
@compute @workgroup_size(1) fn main() {
  let n = arrayLength(&inp);
  outp.n = n * 10u + arrayLength(&outp.data);
  outp.data[2] = vec2<u32>(inp[n - 1u], inp[0]);
  outp.data[0].y = 7u;
}`,
			// inp: 20 bytes = 5 elements; O: n @0, data @8 stride 8; 32 bytes = 3 elements
			in:   map[uint32][]byte{0: u32s(11, 12, 13, 14, 15), 1: make([]byte, 32)},
			want: map[uint32][]any{1: {uint32(53), uint32(0), uint32(0), uint32(7), uint32(0), uint32(0), uint32(15), uint32(11)}},
		},
		{
			name: "struct_copy_storage_function_storage",
			wgsl: `
struct T { v: vec3<f32>, f: f32, w: vec2<f32>, i: i32 }
struct W { t: T, arr: array<i32, 3> }
@group(0) @binding(0) var<storage, read> inp: W;
@group(0) @binding(1) var<storage, read_write> outp: W;
fn tweak(w: W) -> W { var r = w; r.t.v.z = r.t.f; return r; }
@compute @workgroup_size(1) fn main() {
  var w = inp;
  w.t.i += 1;
  w.arr[inp.arr[0]] = 42;
  outp = tweak(w);
}`,
			// T size 32; arr @32; W size 48
			in:   map[uint32][]byte{0: cat(f32s(1, 2, 3, 4, 5, 6), i32s(7, 0, 2, 20, 30, 0)), 1: fill(12, sent)},
			want: map[uint32][]any{1: {1.0, 2.0, 4.0, 4.0, 5.0, 6.0, 8, anyWord{}, 2, 20, 42, anyWord{}}},
		},
		{
			name: "storage_matrix_column_and_element_stores",
			wgsl: `
struct S { a: array<mat3x3<f32>, 2>, m2: mat2x2<f32> }
@group(0) @binding(0) var<storage, read_write> m: mat3x3<f32>;
@group(0) @binding(1) var<storage, read_write> s: S;
@group(0) @binding(2) var<storage, read_write> am: array<mat4x3<f32>>;
@group(0) @binding(3) var<storage, read> idx: array<u32, 2>;
@compute @workgroup_size(1) fn main() {
  m[1][2] = 5.0;
  m[2] = vec3<f32>(1.0, 2.0, 3.0);
  m[idx[0]][idx[1]] = 6.0;
  s.a[1][2][0] = 8.0;
  s.a[idx[0]][idx[1]] = vec3<f32>(9.0);
  s.m2[1][1] = 10.0;
  s.m2[idx[0]] = vec2<f32>(11.0);
  am[idx[1]][3].y = 12.0;
  let p = &s.a[1];
  (*p)[0][1] = 13.0;
  let q = &m[1];
  (*q).x = 14.0;
  (*q)[idx[1]] = 15.0;
}`,
			// idx = (0, 1). m: column stride 16. S: a[0] @0, a[1] @48, m2 @96 (stride 8), size 112. am element 64 bytes.
			in: map[uint32][]byte{0: fill(12, sent), 1: fill(28, sent), 2: fill(32, sent), 3: u32s(0, 1)},
			want: map[uint32][]any{
				// m: [0][1]=6 ; [1] = (14,15,5) ; [2]=(1,2,3)
				0: {sent, 6.0, sent, sent, 14.0, 15.0, 5.0, sent, 1.0, 2.0, 3.0, anyWord{}},
				// s.a[0][1] = (9,9,9) @16 ; s.a[1][0][1]=13 @52 ; s.a[1][2][0]=8 @48+32=80 ; m2[0]=(11,11) @96 ; m2[1][1]=10 @108
				1: {sent, sent, sent, sent, 9.0, 9.0, 9.0, anyWord{}, sent, sent, sent, sent,
					sent, 13.0, sent, sent, sent, sent, sent, sent, 8.0, sent, sent, sent,
					11.0, 11.0, sent, 10.0},
				// am[1][3].y @ 64 + 48 + 4 = 116 -> word 29
				2: {sent, sent, sent, sent, sent, sent, sent, sent, sent, sent, sent, sent, sent, sent, sent, sent,
					sent, sent, sent, sent, sent, sent, sent, sent, sent, sent, sent, sent, sent, 12.0, sent, sent},
			},
		},
		{
			name: "uniform_arrays_of_matCx2_and_vec4",
			wgsl: `
struct U { ms: array<mat4x2<f32>, 2>, v: vec4<f32>, arr: array<vec4<f32>, 3> }
@group(0) @binding(2) var<uniform> u: U;
@group(0) @binding(0) var<storage, read> idx: array<u32, 2>;
@group(0) @binding(1) var<storage, read_write> outp: array<vec4<f32>, 4>;
@compute @workgroup_size(1) fn main() {
  let i = idx[0]; let j = idx[1];
  outp[0] = vec4<f32>(u.ms[1][j], u.ms[1][3].y, u.ms[0][j].x);
  outp[1] = u.arr[j] + u.v;
  let m = u.ms[1];
  outp[2] = vec4<f32>(m[0], m[3]);
  outp[3] = vec4<f32>(m * vec4<f32>(1.0, 0.0, 0.0, 1.0), u.arr[2].w, u.arr[i].z);
}`,
			// U: ms @0 (element 32 bytes, columns stride 8), v @64, arr @80, size 128. idx = (1, 2)
			in: map[uint32][]byte{2: f32s(1, 2, 3, 4, 5, 6, 7, 8, 11, 12, 13, 14, 15, 16, 17, 18,
				100, 200, 300, 400, 21, 22, 23, 24, 31, 32, 33, 34, 41, 42, 43, 44),
				0: u32s(1, 2), 1: make([]byte, 64)},
			want: map[uint32][]any{1: {15.0, 16.0, 18.0, 5.0,
				141.0, 242.0, 343.0, 444.0,
				11.0, 12.0, 17.0, 18.0,
				28.0, 30.0, 44.0, 33.0}},
		},
		{
			name:   "uniform_array_of_matCx2_dynamic_element",
			defect: "dynamic index into a uniform array<matCx2> is emitted as __get_col_of_matCx2(u.ms, i): the whole array is passed where one __matCx2 is expected (type error)",
			wgsl: `
struct U { ms: array<mat4x2<f32>, 2> }
@group(0) @binding(2) var<uniform> u: U;
@group(0) @binding(0) var<storage, read> idx: array<u32, 2>;
@group(0) @binding(1) var<storage, read_write> outp: array<vec2<f32>, 1>;
@compute @workgroup_size(1) fn main() {
  outp[0] = u.ms[idx[0]][idx[1]];
}`,
			in:   map[uint32][]byte{2: f32s(1, 2, 3, 4, 5, 6, 7, 8, 11, 12, 13, 14, 15, 16, 17, 18), 0: u32s(1, 2), 1: make([]byte, 8)},
			want: map[uint32][]any{1: {15.0, 16.0}},
		},
		{
			name: "uniform_struct_align_size_attributes",
			wgsl: `
struct In { @size(16) a: u32, @align(32) b: vec2<f32>, c: f32 }
struct U { x: In, y: array<In, 2> }
@group(0) @binding(2) var<uniform> u: U;
@group(0) @binding(0) var<storage, read> idx: array<u32, 1>;
@group(0) @binding(1) var<storage, read_write> outp: array<f32, 6>;
@compute @workgroup_size(1) fn main() {
  outp[0] = u.y[1].b.y;
  outp[1] = u.x.c;
  outp[2] = f32(u.y[idx[0]].a);
  let whole = u.y[idx[0]];
  outp[3] = whole.b.x + whole.c;
  outp[4] = f32(u.x.a);
  let all_ = u;
  outp[5] = all_.y[0].c;
}`,
			// In: a @0 (size 16), b @32, c @40, align 32, size 64. U: x @0, y @64 stride 64, size 192. idx = 1
			in: map[uint32][]byte{2: func() []byte {
				w := make([]byte, 192)
				put := func(off int, b []byte) { copy(w[off:], b) }
				for e := 0; e < 3; e++ {
					base := 64 * e
					put(base, u32s(uint32(7+e)))
					put(base+32, f32s(float32(10*e)+1, float32(10*e)+2))
					put(base+40, f32s(float32(10*e)+3))
				}
				return w
			}(), 0: u32s(1), 1: make([]byte, 24)},
			// e=0: x (a=7,b=(1,2),c=3); e=1: y[0] (a=8,b=(11,12),c=13); e=2: y[1] (a=9,b=(21,22),c=23)
			want: map[uint32][]any{1: {22.0, 3.0, 9.0, 44.0, 7.0, 13.0}},
		},
		{
			name: "storage_struct_align_size_attributes",
			wgsl: `
struct A { @size(32) x: u32, @align(16) y: u32, z: vec2<u32> }
@group(0) @binding(0) var<storage, read> inp: array<A, 2>;
@group(0) @binding(1) var<storage, read_write> outp: array<A, 2>;
@compute @workgroup_size(1) fn main() {
  outp[1] = A(inp[0].x + 1u, inp[1].y, inp[1].z.yx);
  outp[0].z = inp[0].z;
}`,
			// A: x @0 (size 32), y @32, z @40, size 48
			in: map[uint32][]byte{0: cat(u32s(1), fill(7, 0), u32s(2, 0, 3, 4), u32s(5), fill(7, 0), u32s(6, 0, 7, 8)), 1: fill(24, sent)},
			want: map[uint32][]any{1: {sent, sent, sent, sent, sent, sent, sent, sent, sent, sent, uint32(3), uint32(4),
				uint32(2), anyWord{}, anyWord{}, anyWord{}, anyWord{}, anyWord{}, anyWord{}, anyWord{}, uint32(6), anyWord{}, uint32(8), uint32(7)}},
		},
		{
			name: "pointer_lets_into_storage_and_function",
			wgsl: `
struct S { a: array<i32, 4>, v: vec3<i32> }
@group(0) @binding(0) var<storage, read> idx: array<u32, 1>;
@group(0) @binding(1) var<storage, read_write> outp: S;
@compute @workgroup_size(1) fn main() {
  let i = idx[0];
  let p = &outp.a[i];
  *p = 5;
  *p += 2;
  var loc = S(array<i32, 4>(1, 2, 3, 4), vec3<i32>(7, 8, 9));
  let q = &loc.a[1];
  *q += 20;
  let r = &loc.v;
  (*r).y = *q;
  outp.a[0] = loc.a[1] + (*r).y;
  outp.v = *r;
  let pv = &outp.v;
  (*pv).z = 33;
}`,
			// S: a @0 (16), v @16, size 32. i = 2
			in:   map[uint32][]byte{0: u32s(2), 1: make([]byte, 32)},
			want: map[uint32][]any{1: {44, 0, 7, 0, 7, 22, 33, anyWord{}}},
		},
		{
			name: "workgroup_array_barrier_4_threads",
			wgsl: `
@group(0) @binding(0) var<storage, read> inp: array<u32, 4>;
@group(0) @binding(1) var<storage, read_write> outp: array<u32, 4>;
var<workgroup> wg: array<u32, 4>;
@compute @workgroup_size(4, 1, 1) fn main(@builtin(local_invocation_index) li: u32) {
  wg[li] = inp[li] * 2u;
  workgroupBarrier();
  outp[li] = wg[(li + 1u) % 4u] + li;
}`,
			in:   map[uint32][]byte{0: u32s(1, 2, 3, 4), 1: make([]byte, 16)},
			want: map[uint32][]any{1: {uint32(4), uint32(7), uint32(10), uint32(5)}},
		},
		{
			name: "storage_atomics_all_ops",
			wgsl: `
struct A { u: atomic<u32>, i: atomic<i32>, arr: array<atomic<u32>, 2> }
@group(0) @binding(1) var<storage, read_write> a: A;
@group(0) @binding(2) var<storage, read_write> r: array<u32, 16>;
@group(0) @binding(0) var<storage, read> idx: array<u32, 1>;
@compute @workgroup_size(1) fn main() {
  r[0] = atomicAdd(&a.u, 5u);
  r[1] = atomicSub(&a.u, 3u);
  r[2] = atomicMax(&a.u, 100u);
  r[3] = atomicMin(&a.u, 7u);
  r[4] = atomicAnd(&a.u, 5u);
  r[5] = atomicOr(&a.u, 8u);
  r[6] = atomicXor(&a.u, 1u);
  r[7] = atomicExchange(&a.u, 77u);
  r[8] = atomicLoad(&a.u);
  atomicStore(&a.arr[idx[0]], 9u);
  r[9] = u32(atomicMin(&a.i, -9));
  r[10] = u32(atomicMax(&a.i, 3));
  r[11] = u32(atomicAdd(&a.i, -4));
  let c = atomicCompareExchangeWeak(&a.arr[0], 1u, 50u);
  r[12] = c.old_value; r[13] = u32(c.exchanged);
  let d = atomicCompareExchangeWeak(&a.arr[0], 1u, 60u);
  r[14] = d.old_value; r[15] = u32(d.exchanged);
}`,
			in: map[uint32][]byte{0: u32s(1), 1: cat(u32s(10), i32s(-5), u32s(1, 0)), 2: make([]byte, 64)},
			want: map[uint32][]any{
				1: {uint32(77), -1, uint32(50), uint32(9)},
				2: {uint32(10), uint32(15), uint32(12), uint32(100), uint32(7), uint32(5), uint32(13), uint32(12), uint32(77),
					uint32(0xFFFFFFFB), uint32(0xFFFFFFF7), uint32(3), uint32(1), uint32(1), uint32(50), uint32(0)},
			},
		},
		{
			name: "workgroup_atomics_4_threads",
			wgsl: `
@group(0) @binding(1) var<storage, read_write> outp: array<u32, 3>;
var<workgroup> cnt: atomic<u32>;
var<workgroup> mx: atomic<i32>;
@compute @workgroup_size(4) fn main(@builtin(local_invocation_index) li: u32) {
  if li == 0u { atomicStore(&cnt, 0u); atomicStore(&mx, -100); }
  workgroupBarrier();
  atomicAdd(&cnt, li + 1u);
  atomicMax(&mx, i32(li) * 3 - 5);
  workgroupBarrier();
  if li == 0u {
    outp[0] = atomicLoad(&cnt);
    outp[1] = u32(atomicLoad(&mx));
    outp[2] = atomicExchange(&cnt, 1u);
  }
}`,
			in:   map[uint32][]byte{1: make([]byte, 12)},
			want: map[uint32][]any{1: {uint32(10), uint32(4), uint32(10)}},
		},
		{
			name: "invocation_id_builtins",
			wgsl: `
@group(0) @binding(1) var<storage, read_write> outp: array<u32, 8>;
@compute @workgroup_size(2, 2, 1)
fn main(@builtin(global_invocation_id) gid: vec3<u32>, @builtin(local_invocation_id) lid: vec3<u32>,
        @builtin(local_invocation_index) li: u32, @builtin(workgroup_id) wid: vec3<u32>) {
  outp[gid.x + gid.y * 4u] = lid.x | (lid.y << 4u) | (li << 8u) | (wid.x << 12u) | (gid.z << 16u) | (wid.y << 20u);
}`,
			groups: [3]uint32{2, 1, 1},
			in:     map[uint32][]byte{1: fill(8, sent)},
			// (x,y): wid.x = x/2, lid.x = x%2, lid.y = y, li = lid.x + 2*lid.y
			want: map[uint32][]any{1: {uint32(0x0000), uint32(0x0101), uint32(0x1000), uint32(0x1101),
				uint32(0x0210), uint32(0x0311), uint32(0x1210), uint32(0x1311)}},
		},
		{
			name:   "num_workgroups_builtin",
			defect: "@builtin(num_workgroups) is emitted as a parameter with semantic SV_GroupID (the workgroup id), not the dispatch size",
			wgsl: `
@group(0) @binding(1) var<storage, read_write> outp: array<u32, 2>;
@compute @workgroup_size(1)
fn main(@builtin(num_workgroups) nw: vec3<u32>, @builtin(workgroup_id) wid: vec3<u32>) {
  outp[wid.x] = nw.x * 10u + nw.y;
}`,
			groups: [3]uint32{2, 1, 1},
			in:     map[uint32][]byte{1: make([]byte, 8)},
			want:   map[uint32][]any{1: {uint32(21), uint32(21)}},
		},
		{
			name: "array_vec2_stride8",
			wgsl: `
@group(0) @binding(0) var<storage, read> inp: array<vec2<f32>, 3>;
@group(0) @binding(1) var<storage, read_write> outp: array<vec2<f32>, 3>;
@compute @workgroup_size(1) fn main() {
  for (var i = 0u; i < 3u; i++) { outp[2u - i] = inp[i].yx; }
}`,
			in:   map[uint32][]byte{0: f32s(1, 2, 3, 4, 5, 6), 1: make([]byte, 24)},
			want: map[uint32][]any{1: {6.0, 5.0, 4.0, 3.0, 2.0, 1.0}},
		},
		{
			name:   "private_array_global",
			defect: "var<private> of array type is written as `static T[N] name = ...` (array brackets after the type), which is not HLSL",
			wgsl: `
@group(0) @binding(0) var<storage, read> inp: array<u32, 2>;
@group(0) @binding(1) var<storage, read_write> outp: array<u32, 2>;
var<private> pa: array<u32, 4>;
@compute @workgroup_size(1) fn main() {
  pa[inp[0]] = 5u;
  outp[0] = pa[1] + pa[2];
  outp[1] = pa[0];
}`,
			in:   map[uint32][]byte{0: u32s(2, 0), 1: make([]byte, 8)},
			want: map[uint32][]any{1: {uint32(5), uint32(0)}},
		},
		{
			name: "private_struct_and_scalars",
			wgsl: `
struct P { a: i32, v: vec2<f32> }
@group(0) @binding(0) var<storage, read> inp: array<i32, 1>;
@group(0) @binding(1) var<storage, read_write> outp: array<i32, 4>;
var<private> ps: P = P(3, vec2<f32>(1.5, 2.5));
var<private> pz: P;
var<private> pf: f32 = 0.5;
fn touch() { ps.a += inp[0]; pz.v.y = pf * 4.0; }
@compute @workgroup_size(1) fn main() {
  touch(); touch();
  outp[0] = ps.a;
  outp[1] = i32(ps.v.x + ps.v.y);
  outp[2] = pz.a;
  outp[3] = i32(pz.v.y);
}`,
			in:   map[uint32][]byte{0: i32s(10), 1: make([]byte, 16)},
			want: map[uint32][]any{1: {23, 4, 0, 2}},
		},
		{
			name: "workgroup_struct_whole_copy",
			wgsl: `
struct W { a: u32, v: vec3<f32>, arr: array<i32, 2> }
@group(0) @binding(0) var<storage, read> inp: array<u32, 1>;
@group(0) @binding(1) var<storage, read_write> outp: W;
var<workgroup> w: W;
@compute @workgroup_size(1) fn main() {
  w.a = inp[0];
  w.v = vec3<f32>(1.0, 2.0, 3.0) * f32(inp[0]);
  w.arr[0] = 3; w.arr[1] = -4;
  outp = w;
  var loc = w;
  loc.arr[1] += 1;
  w = loc;
  outp.arr = w.arr;
}`,
			// W: a @0, v @16, arr @28, size 48
			in:   map[uint32][]byte{0: u32s(2), 1: fill(12, sent)},
			want: map[uint32][]any{1: {uint32(2), anyWord{}, anyWord{}, anyWord{}, 2.0, 4.0, 6.0, 3, -3}},
		},
		{
			name: "workgroup_matrix_and_storage_matrix_array",
			wgsl: `
@group(0) @binding(0) var<storage, read> inp: array<mat2x2<f32>, 2>;
@group(0) @binding(1) var<storage, read_write> outp: array<vec3<f32>, 2>;
@group(0) @binding(2) var<storage, read> idx: array<u32, 2>;
var<workgroup> wm: mat2x3<f32>;
@compute @workgroup_size(1) fn main() {
  wm = mat2x3<f32>(vec3<f32>(1.0, 2.0, 3.0), vec3<f32>(4.0, 5.0, 6.0));
  wm[1].y = 50.0;
  wm[idx[0]][2] = 60.0;
  outp[0] = wm * inp[idx[1]][1];
  outp[1] = wm[1];
}`,
			// idx = (0, 1); inp[1][1] = (7, 8); wm = cols (1,2,60), (4,50,6)
			in:   map[uint32][]byte{0: f32s(1, 2, 3, 4, 5, 6, 7, 8), 1: make([]byte, 32), 2: u32s(0, 1)},
			want: map[uint32][]any{1: {39.0, 414.0, 468.0, anyWord{}, 4.0, 50.0, 6.0}},
		},
		{
			name: "array_copy_through_function_var",
			wgsl: `
@group(0) @binding(0) var<storage, read> inp: array<i32, 5>;
@group(0) @binding(1) var<storage, read_write> outp: array<i32, 5>;
fn sum(a: array<i32, 5>) -> i32 { var s = 0; for (var i = 0; i < 5; i++) { s += a[i]; } return s; }
@compute @workgroup_size(1) fn main() {
  var a = inp;
  a[inp[0]] = 100;
  a[4] += a[1];
  outp = a;
  outp[3] = sum(a);
}`,
			in:   map[uint32][]byte{0: i32s(2, 10, 20, 30, 40), 1: make([]byte, 20)},
			want: map[uint32][]any{1: {2, 10, 100, 192, 50}},
		},
		{
			name:   "local_matCx2_dynamic_column_store",
			defect: "SetMatVec<m>On<S>(S obj, ...) / SetMatScalar... take the struct by value (no inout): stores through them to a function-space struct with a matCx2 member are lost",
			wgsl: `
struct B { m: mat3x2<f32> }
@group(0) @binding(2) var<uniform> u: B;
@group(0) @binding(0) var<storage, read> idx: array<u32, 2>;
@group(0) @binding(1) var<storage, read_write> outp: array<vec2<f32>, 3>;
@compute @workgroup_size(1) fn main() {
  var t = u;
  t.m[idx[0]] = vec2<f32>(9.0, 8.0);
  t.m[idx[1]][1] = 7.0;
  outp[0] = t.m[0]; outp[1] = t.m[1]; outp[2] = t.m[2];
}`,
			in:   map[uint32][]byte{2: f32s(1, 2, 3, 4, 5, 6, 0, 0), 0: u32s(1, 2), 1: make([]byte, 24)},
			want: map[uint32][]any{1: {1.0, 2.0, 9.0, 8.0, 5.0, 7.0}},
		},
		{
			name:   "local_matCx2_whole_assign",
			defect: "SetMat<m>On<S>(S obj, floatCx2 mat) takes the struct by value: assigning a whole matCx2 member of a function-space struct is lost",
			wgsl: `
struct B { m: mat2x2<f32> }
@group(0) @binding(2) var<uniform> u: B;
@group(0) @binding(1) var<storage, read_write> outp: array<vec2<f32>, 2>;
@compute @workgroup_size(1) fn main() {
  var t = u;
  t.m = mat2x2<f32>(vec2<f32>(9.0, 8.0), vec2<f32>(7.0, 6.0));
  outp[0] = t.m[0]; outp[1] = t.m[1];
}`,
			in:   map[uint32][]byte{2: f32s(1, 2, 3, 4), 1: make([]byte, 16)},
			want: map[uint32][]any{1: {9.0, 8.0, 7.0, 6.0}},
		},
		{
			name: "local_matCx2_static_column_store",
			wgsl: `
struct B { m: mat3x2<f32> }
@group(0) @binding(2) var<uniform> u: B;
@group(0) @binding(1) var<storage, read_write> outp: array<vec2<f32>, 3>;
@compute @workgroup_size(1) fn main() {
  var t = u;
  t.m[1] = vec2<f32>(9.0, 8.0);
  t.m[2][1] = 7.0;
  outp[0] = t.m[0]; outp[1] = t.m[1]; outp[2] = t.m[2];
}`,
			in:   map[uint32][]byte{2: f32s(1, 2, 3, 4, 5, 6, 0, 0), 1: make([]byte, 24)},
			want: map[uint32][]any{1: {1.0, 2.0, 9.0, 8.0, 5.0, 7.0}},
		},
		{
			name: "struct_entry_param_and_barriers_4x2",
			wgsl: `
struct In { @builtin(local_invocation_index) li: u32, @builtin(local_invocation_id) lid: vec3<u32> }
@group(0) @binding(1) var<storage, read_write> outp: array<u32, 8>;
var<workgroup> wg: array<u32, 8>;
@compute @workgroup_size(4, 2, 1) fn main(i: In, @builtin(global_invocation_id) gid: vec3<u32>) {
  wg[i.li] = i.lid.x + 10u * i.lid.y;
  workgroupBarrier();
  let other = wg[7u - i.li];
  workgroupBarrier();
  wg[i.li] = other + 100u;
  workgroupBarrier();
  outp[gid.x + 4u * gid.y] = wg[(i.li + 4u) % 8u];
}`,
			in: map[uint32][]byte{1: make([]byte, 32)},
			want: map[uint32][]any{1: {uint32(103), uint32(102), uint32(101), uint32(100), uint32(113), uint32(112), uint32(111),
				uint32(110)}},
		},
		{
			name: "toplevel_uniform_matrices",
			wgsl: `
@group(0) @binding(2) var<uniform> um: mat3x2<f32>;
@group(0) @binding(3) var<uniform> un: mat2x4<f32>;
@group(0) @binding(0) var<storage, read> idx: array<u32, 1>;
@group(0) @binding(1) var<storage, read_write> outp: array<vec4<f32>, 3>;
@compute @workgroup_size(1) fn main() {
  let i = idx[0];
  outp[0] = vec4<f32>(um[i], um[2].y, um[0][i]);
  outp[1] = un[i];
  outp[2] = vec4<f32>(um * vec3<f32>(1.0, 1.0, 1.0), (un * vec2<f32>(1.0, 2.0)).zw);
}`,
			in: map[uint32][]byte{2: f32s(1, 2, 3, 4, 5, 6, 0, 0), 3: f32s(10, 11, 12, 13, 20, 21, 22, 23), 0: u32s(1),
				1: make([]byte, 48)},
			want: map[uint32][]any{1: {3.0, 4.0, 6.0, 2.0, 20.0, 21.0, 22.0, 23.0, 9.0, 12.0, 56.0, 59.0}},
		},
		{
			name: "vec_u32_div_mod_by_zero",
			wgsl: `
@group(0) @binding(0) var<storage, read> inp: array<vec2<u32>, 2>;
@group(0) @binding(1) var<storage, read_write> outp: array<vec2<u32>, 4>;
@compute @workgroup_size(1) fn main() {
  outp[0] = inp[0] / inp[1];
  outp[1] = inp[0] % inp[1];
  outp[2] = inp[0] / 3u;
  outp[3] = 100u % inp[0];
}`,
			in:   map[uint32][]byte{0: u32s(17, 9, 5, 0), 1: make([]byte, 32)},
			want: map[uint32][]any{1: {uint32(3), uint32(9), uint32(2), uint32(0), uint32(5), uint32(3), uint32(15), uint32(1)}},
		},
		{
			name: "struct_with_matrix_whole_copy_and_function_arg",
			wgsl: `
struct M { s: f32, m: mat3x2<f32>, n: mat2x4<f32> }
@group(0) @binding(0) var<storage, read> inp: M;
@group(0) @binding(1) var<storage, read_write> outp: M;
fn f(x: M) -> M { var r = x; r.m[2] = x.m[0] + x.m[1]; r.n[1][3] = x.s; return r; }
@compute @workgroup_size(1) fn main() {
  outp = f(inp);
}`,
			// M: s @0, m @8 (3 columns stride 8 -> 24), n @32 (2 columns stride 16), size 64
			in:   map[uint32][]byte{0: f32s(0.5, -1, 1, 2, 3, 4, 5, 6, 10, 11, 12, 13, 14, 15, 16, 17), 1: fill(16, sent)},
			want: map[uint32][]any{1: {0.5, anyWord{}, 1.0, 2.0, 3.0, 4.0, 4.0, 6.0, 10.0, 11.0, 12.0, 13.0, 14.0, 15.0, 16.0, 0.5}},
		},
	}
	runConf(t, cases)
}

// TestArrayLengthSizes: arrayLength must be (bufferSize - offset) / stride for several sizes.
func TestArrayLengthSizes(t *testing.T) {
	src := `
struct S { head: vec2<u32>, tail: array<vec3<f32>> }
@group(0) @binding(0) var<storage, read> a: array<u32>;
@group(0) @binding(1) var<storage, read_write> s: S;
@group(0) @binding(2) var<storage, read_write> outp: array<u32, 2>;
@compute @workgroup_size(1) fn main() { outp[0] = arrayLength(&a); outp[1] = arrayLength(&s.tail); }`
	h, _ := compileWGSL(t, src, nil)
	p, err := Parse(h)
	if err != nil {
		t.Fatal(err)
	}
	for _, c := range []struct{ asz, ssz, wa, ws int }{{4, 32, 1, 1}, {40, 16 + 16*5, 10, 5}, {12, 16 + 16*2 + 12, 3, 2}} {
		bufs := xrt.Buffers{bind(0, 0): make([]byte, c.asz), bind(0, 1): make([]byte, c.ssz), bind(0, 2): make([]byte, 8)}
		if err := p.Exec(bufs, Opts{}); err != nil {
			t.Fatal(err)
		}
		if g := getU32(bufs[bind(0, 2)], 0); int(g) != c.wa {
			t.Errorf("arrayLength(a) with %d bytes = %d, want %d", c.asz, g, c.wa)
		}
		if g := getU32(bufs[bind(0, 2)], 1); int(g) != c.ws {
			t.Errorf("arrayLength(s.tail) with %d bytes = %d, want %d\n%s", c.ssz, g, c.ws, h)
		}
	}
}
