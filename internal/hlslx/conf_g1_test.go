package hlslx

import (
	"fmt"
	"testing"
)

const (
	intMin = -2147483648
)

// Group 1: scalars, vectors, matrices, operators, conversions. Expectations are derived by hand
// from the WGSL specification (wrapping integers, x/0 = x, x%0 = 0, shift counts mod 32, ...).
func TestConfGroup1(t *testing.T) {
	cases := []confCase{
		{
			name: "i32_arith_wrap",
			wgsl: `
@group(0) @binding(0) var<storage, read> inp: array<i32, 4>;
@group(0) @binding(1) var<storage, read_write> outp: array<i32, 8>;
@compute @workgroup_size(1) fn main() {
  let a = inp[0]; let b = inp[1];
  outp[0] = a + b;
  outp[1] = a - inp[2];
  outp[2] = a * 2;
  outp[3] = -inp[3];
  outp[4] = b - a;
  outp[5] = inp[2] * inp[2];
}`,
			in:   map[uint32][]byte{0: i32s(0x7fffffff, 1, -1, intMin), 1: make([]byte, 32)},
			want: map[uint32][]any{1: {intMin, intMin, -2, intMin, -2147483646, 1, 0, 0}},
		},
		{
			name: "i32_div_mod",
			wgsl: `
@group(0) @binding(0) var<storage, read> inp: array<i32, 6>;
@group(0) @binding(1) var<storage, read_write> outp: array<i32, 8>;
@compute @workgroup_size(1) fn main() {
  outp[0] = inp[0] / inp[1];
  outp[1] = inp[2] / inp[1];
  outp[2] = inp[2] % inp[1];
  outp[3] = inp[0] % (-inp[1]);
  outp[4] = inp[0] / inp[3];
  outp[5] = inp[0] % inp[3];
  outp[6] = inp[4] / inp[5];
  outp[7] = inp[4] % inp[5];
}`,
			in:   map[uint32][]byte{0: i32s(7, 2, -7, 0, intMin, -1), 1: make([]byte, 32)},
			want: map[uint32][]any{1: {3, -3, -1, 1, 7, 0, intMin, 0}},
		},
		{
			name: "u32_div_mod",
			wgsl: `
@group(0) @binding(0) var<storage, read> inp: array<u32, 4>;
@group(0) @binding(1) var<storage, read_write> outp: array<u32, 6>;
@compute @workgroup_size(1) fn main() {
  outp[0] = inp[0] / inp[1];
  outp[1] = inp[0] % inp[1];
  outp[2] = inp[0] / inp[2];
  outp[3] = inp[0] % inp[2];
  outp[4] = inp[3] / inp[1];
  outp[5] = inp[3] % inp[0];
}`,
			in:   map[uint32][]byte{0: u32s(7, 2, 0, 0xFFFFFFFF), 1: make([]byte, 24)},
			want: map[uint32][]any{1: {uint32(3), uint32(1), uint32(7), uint32(0), uint32(0x7FFFFFFF), uint32(3)}},
		},
		{
			name: "bit_ops",
			wgsl: `
@group(0) @binding(0) var<storage, read> inp: array<u32, 4>;
@group(0) @binding(1) var<storage, read_write> outp: array<u32, 8>;
@compute @workgroup_size(1) fn main() {
  let a = inp[0]; let b = inp[1];
  outp[0] = a & b;
  outp[1] = a | b;
  outp[2] = a ^ b;
  outp[3] = ~a;
  let x = i32(inp[2]); let y = i32(inp[3]);
  outp[4] = u32(x & y);
  outp[5] = u32(x | y);
  outp[6] = u32(x ^ y);
  outp[7] = u32(~x);
}`,
			in: map[uint32][]byte{0: u32s(0xF0F0F0F0, 0x0FF00FF0, 0xFFFFFFF8, 5), 1: make([]byte, 32)},
			want: map[uint32][]any{1: {uint32(0x00F000F0), uint32(0xFFF0FFF0), uint32(0xFF00FF00), uint32(0x0F0F0F0F),
				uint32(0), uint32(0xFFFFFFFD), uint32(0xFFFFFFFD), uint32(7)}},
		},
		{
			name: "shifts_mod32",
			wgsl: `
@group(0) @binding(0) var<storage, read> inp: array<u32, 4>;
@group(0) @binding(1) var<storage, read_write> outp: array<u32, 6>;
@compute @workgroup_size(1) fn main() {
  let m = i32(inp[3]);
  let hi = inp[3] | 0x80000000u;
  outp[0] = 1u << inp[0];
  outp[1] = hi >> inp[1];
  outp[2] = u32(m >> inp[2]);
  outp[3] = u32(m << inp[2]);
  outp[4] = inp[3] >> inp[2];
  outp[5] = u32(i32(inp[2]) << inp[1]);
}`,
			in: map[uint32][]byte{0: u32s(33, 31, 1, 0xFFFFFFF8), 1: make([]byte, 24)},
			want: map[uint32][]any{1: {uint32(2), uint32(1), uint32(0xFFFFFFFC), uint32(0xFFFFFFF0), uint32(0x7FFFFFFC),
				uint32(0x80000000)}},
		},
		{
			name: "bools_logic_select",
			wgsl: `
@group(0) @binding(0) var<storage, read> inp: array<u32, 2>;
@group(0) @binding(1) var<storage, read_write> outp: array<u32, 9>;
@compute @workgroup_size(1) fn main() {
  let a = inp[0]; let b = inp[1];
  outp[0] = u32(a < b);
  outp[1] = u32(a >= b);
  outp[2] = u32(a == 3u && b != 5u);
  outp[3] = u32(a == 3u || b == 0u);
  outp[4] = u32(!(a < b));
  outp[5] = select(10u, 20u, a < b);
  outp[6] = u32((a < b) & (b < a));
  outp[7] = u32((a < b) | (b < a));
  outp[8] = u32((a < b) != (b < a));
}`,
			in: map[uint32][]byte{0: u32s(3, 5), 1: make([]byte, 36)},
			want: map[uint32][]any{1: {uint32(1), uint32(0), uint32(0), uint32(1), uint32(0), uint32(20), uint32(0),
				uint32(1), uint32(1)}},
		},
		{
			name: "conversions",
			wgsl: `
@group(0) @binding(0) var<storage, read> inp: array<f32, 4>;
@group(0) @binding(1) var<storage, read_write> outp: array<u32, 10>;
@compute @workgroup_size(1) fn main() {
  outp[0] = u32(i32(inp[0]));
  outp[1] = bitcast<u32>(i32(inp[1]));
  outp[2] = u32(inp[0]);
  outp[3] = bitcast<u32>(f32(i32(inp[1])));
  outp[4] = bitcast<u32>(f32(u32(inp[0]) + 4u));
  outp[5] = u32(bool(inp[2]));
  outp[6] = u32(bool(inp[3]));
  outp[7] = bitcast<u32>(f32(inp[3] > 0.5));
  outp[8] = u32(i32(inp[1]));
  outp[9] = u32(inp[1]);
}`,
			in: map[uint32][]byte{0: f32s(3.9, -3.9, 0, 1), 1: make([]byte, 40)},
			want: map[uint32][]any{1: {uint32(3), uint32(0xFFFFFFFD), uint32(3), uint32(0xC0400000), uint32(0x40E00000),
				uint32(0), uint32(1), uint32(0x3F800000), uint32(0xFFFFFFFD), uint32(0)}},
		},
		{
			name: "vec3_i32_ops_swizzle",
			wgsl: `
@group(0) @binding(0) var<storage, read> inp: array<i32, 6>;
@group(0) @binding(1) var<storage, read_write> outp: array<i32, 20>;
fn st(i: u32, v: vec3<i32>) { outp[i*3u] = v.x; outp[i*3u+1u] = v.y; outp[i*3u+2u] = v.z; }
@compute @workgroup_size(1) fn main() {
  let a = vec3<i32>(inp[0], inp[1], inp[2]);
  let b = vec3<i32>(inp[3], inp[4], inp[5]);
  st(0u, a + b);
  st(1u, a * b);
  st(2u, -a);
  st(3u, a + 10);
  st(4u, b.zyx);
  var v = a;
  v.y = 42;
  st(5u, v);
  let h = b.xx;
  outp[18] = h.x + h.y;
  outp[19] = (2 * a).z;
}`,
			in:   map[uint32][]byte{0: i32s(1, 2, 3, 4, 5, 6), 1: make([]byte, 80)},
			want: map[uint32][]any{1: {5, 7, 9, 4, 10, 18, -1, -2, -3, 11, 12, 13, 6, 5, 4, 1, 42, 3, 8, 6}},
		},
		{
			name: "vec_compare_select_all_any",
			wgsl: `
@group(0) @binding(0) var<storage, read> inp: array<f32, 6>;
struct O { sel: vec3<f32>, all_: u32, eqsel: vec3<u32>, any_: u32, ne: vec3<u32> }
@group(0) @binding(1) var<storage, read_write> outp: O;
@compute @workgroup_size(1) fn main() {
  let a = vec3<f32>(inp[0], inp[1], inp[2]);
  let b = vec3<f32>(inp[3], inp[4], inp[5]);
  let lt = a < b;
  outp.sel = select(a, b, lt);
  outp.all_ = u32(all(lt));
  outp.any_ = u32(any(lt));
  outp.eqsel = select(vec3<u32>(0u), vec3<u32>(1u), a == b);
  outp.ne = vec3<u32>(a != b);
}`,
			in: map[uint32][]byte{0: f32s(1, 5, 3, 2, 5, 1), 1: make([]byte, 48)},
			// O: sel @0 (12), all_ @12, eqsel @16, any_ @28, ne @32, size 48
			want: map[uint32][]any{1: {float32(2), float32(5), float32(3), uint32(0), uint32(0), uint32(1), uint32(0), uint32(1),
				uint32(1), uint32(0), uint32(1), anyWord{}}},
		},
		{
			name: "f32_arith_exact",
			wgsl: `
@group(0) @binding(0) var<storage, read> inp: array<f32, 5>;
@group(0) @binding(1) var<storage, read_write> outp: array<f32, 8>;
@compute @workgroup_size(1) fn main() {
  outp[0] = inp[0] + inp[1];
  outp[1] = inp[0] * inp[1];
  outp[2] = inp[2] / inp[3];
  outp[3] = inp[2] % inp[3];
  outp[4] = inp[4] % inp[3];
  outp[5] = inp[0] - inp[1];
  outp[6] = -inp[0];
  outp[7] = inp[2] * 2.0 - 1.0;
}`,
			in:   map[uint32][]byte{0: f32s(1.5, 2.25, 7.5, 2, -7.5), 1: make([]byte, 32)},
			want: map[uint32][]any{1: {3.75, 3.375, 3.75, 1.5, -1.5, -0.75, -1.5, 14.0}},
		},
		{
			name: "mat2x3_times_vec",
			wgsl: `
struct I { m: mat2x3<f32>, v: vec2<f32>, w: vec3<f32> }
struct O { a: vec3<f32>, b: vec2<f32> }
@group(0) @binding(0) var<storage, read> inp: I;
@group(0) @binding(1) var<storage, read_write> outp: O;
@compute @workgroup_size(1) fn main() {
  outp.a = inp.m * inp.v;
  outp.b = inp.w * inp.m;
}`,
			// I: m @0 (2 columns, stride 16), v @32, w @48
			in: map[uint32][]byte{0: f32s(1, 2, 3, 0, 4, 5, 6, 0, 10, 100, 0, 0, 1, 10, 100, 0), 1: make([]byte, 32)},
			// O: a @0, b @16
			want: map[uint32][]any{1: {410.0, 520.0, 630.0, anyWord{}, 321.0, 654.0}},
		},
		{
			name: "mat_times_mat_scalar_add",
			wgsl: `
struct I { a: mat3x2<f32>, b: mat2x3<f32> }
struct O { p: mat2x2<f32>, q: mat3x3<f32>, r: mat3x2<f32>, s: mat3x2<f32> }
@group(0) @binding(0) var<storage, read> inp: I;
@group(0) @binding(1) var<storage, read_write> outp: O;
@compute @workgroup_size(1) fn main() {
  let a = inp.a; let b = inp.b;
  outp.p = a * b;
  outp.q = b * a;
  outp.r = a * 2.0;
  outp.s = a + a - (0.5 * a);
}`,
			// I: a @0 (3 columns of vec2, stride 8 = 24 bytes), b @32 (2 columns of vec3, stride 16)
			in: map[uint32][]byte{0: f32s(1, 2, 3, 4, 5, 6, 0, 0, 1, 0, 2, 0, 0, 1, 3, 0), 1: make([]byte, 128)},
			// O: p @0 (16), q @16 (48), r @64 (24), s @88 (24), size 112
			want: map[uint32][]any{1: {11.0, 14.0, 18.0, 22.0,
				1.0, 2.0, 8.0, anyWord{}, 3.0, 4.0, 18.0, anyWord{}, 5.0, 6.0, 28.0, anyWord{},
				2.0, 4.0, 6.0, 8.0, 10.0, 12.0,
				1.5, 3.0, 4.5, 6.0, 7.5, 9.0}},
		},
		{
			name: "compound_assign_incdec",
			wgsl: `
@group(0) @binding(0) var<storage, read> inp: array<i32, 2>;
@group(0) @binding(1) var<storage, read_write> outp: array<i32, 8>;
@compute @workgroup_size(1) fn main() {
  var i = inp[0];
  i += 3; outp[0] = i;
  i *= 2; outp[1] = i;
  i++;    outp[2] = i;
  i--; i--; outp[3] = i;
  i <<= 2u; outp[4] = i;
  i /= inp[1]; outp[5] = i;
  i %= 5; outp[6] = i;
  var v = vec2<i32>(1, 2);
  v.y += 5; v *= 3;
  outp[7] = v.x + v.y;
  outp[1] -= 1;
}`,
			in: map[uint32][]byte{0: i32s(4, 3), 1: make([]byte, 32)},
			// i: 7, 14, 15, 13, 52, 17, 2 ; v = (3, 21) -> 24 ; outp[1] = 13
			want: map[uint32][]any{1: {7, 13, 15, 13, 52, 17, 2, 24}},
		},
		{
			name: "let_var_const_shadowing",
			wgsl: `
const K = 5;
const KV = vec2<u32>(2u, 3u);
@group(0) @binding(0) var<storage, read> inp: array<u32, 2>;
@group(0) @binding(1) var<storage, read_write> outp: array<u32, 6>;
@compute @workgroup_size(1) fn main() {
  let x = inp[0];
  var y = x + u32(K);
  outp[0] = y;
  {
    let x = y * 2u;
    var y = x + 1u;
    outp[1] = x; outp[2] = y;
    { let y = 100u; outp[3] = y + x; }
  }
  outp[4] = x + y;
  const L = K * 2 + 1;
  outp[5] = u32(L) + KV.y;
}`,
			in:   map[uint32][]byte{0: u32s(7, 0), 1: make([]byte, 24)},
			want: map[uint32][]any{1: {uint32(12), uint32(24), uint32(25), uint32(124), uint32(19), uint32(14)}},
		},
		{
			name: "zero_values_and_constructors",
			wgsl: `
struct S { a: i32, v: vec3<f32>, arr: array<u32, 2> }
@group(0) @binding(0) var<storage, read> inp: array<u32, 2>;
@group(0) @binding(1) var<storage, read_write> outp: array<u32, 12>;
@compute @workgroup_size(1) fn main() {
  var s = S();
  let z = vec3<f32>();
  var arr = array<i32, 3>();
  let m = mat2x2<f32>();
  outp[0] = u32(s.a) + s.arr[1] + u32(z.y) + u32(arr[2]) + u32(m[1][1]) + 1u;
  let w = vec4<u32>(vec2<u32>(inp[0], 2u), 3u, 4u);
  outp[1] = w.x; outp[2] = w.y; outp[3] = w.z; outp[4] = w.w;
  let q = vec3<u32>(inp[0]);
  outp[5] = q.x + q.y + q.z;
  let a2 = array<u32, 3>(inp[0], 8u, 9u);
  outp[6] = a2[0] + a2[2];
  let s2 = S(-2, vec3<f32>(1.0, 2.0, 3.0), array<u32, 2>(5u, 6u));
  outp[7] = u32(s2.a + 10) + u32(s2.v.z) + s2.arr[1];
  let m2 = mat2x2<f32>(1.0, 2.0, 3.0, 4.0);
  outp[8] = u32(m2[1][0]);
  let m3 = mat2x2<f32>(vec2<f32>(5.0, 6.0), vec2<f32>(7.0, 8.0));
  outp[9] = u32(m3[0].y + m3[1].x);
  let v4 = vec4<f32>(vec3<f32>(1.0), 9.0);
  outp[10] = u32(v4.z + v4.w);
  outp[11] = u32(vec2<i32>(vec2<f32>(3.7, -1.2)).x);
}`,
			in: map[uint32][]byte{0: u32s(7, 0), 1: make([]byte, 48)},
			want: map[uint32][]any{1: {uint32(1), uint32(7), uint32(2), uint32(3), uint32(4), uint32(21), uint32(16),
				uint32(17), uint32(3), uint32(13), uint32(10), uint32(3)}},
		},
		{
			name: "bitcast_forms",
			wgsl: `
@group(0) @binding(0) var<storage, read> inp: array<u32, 4>;
@group(0) @binding(1) var<storage, read_write> outp: array<u32, 8>;
@compute @workgroup_size(1) fn main() {
  let f = bitcast<f32>(inp[0]);
  outp[0] = bitcast<u32>(f * 2.0);
  let vi = bitcast<vec2<i32>>(vec2<u32>(inp[1], inp[2]));
  outp[1] = u32(vi.x + vi.y);
  outp[2] = bitcast<u32>(bitcast<f32>(i32(inp[3])) + 1.0);
  let vf = bitcast<vec2<f32>>(vec2<u32>(inp[0], inp[0]));
  outp[3] = bitcast<u32>(vf.x + vf.y);
  outp[4] = bitcast<u32>(bitcast<i32>(inp[1]) >> 4u);
}`,
			// 0x3FC00000 = 1.5 ; 0xFFFFFFFF = -1 ; 5 ; 0x40000000 = 2.0
			in: map[uint32][]byte{0: u32s(0x3FC00000, 0xFFFFFFFF, 5, 0x40000000), 1: make([]byte, 32)},
			want: map[uint32][]any{1: {uint32(0x40400000), uint32(4), uint32(0x40400000), uint32(0x40400000),
				uint32(0xFFFFFFFF)}},
		},
		{
			name: "unary_ops",
			wgsl: `
@group(0) @binding(0) var<storage, read> inp: array<i32, 3>;
@group(0) @binding(1) var<storage, read_write> outp: array<i32, 6>;
@compute @workgroup_size(1) fn main() {
  outp[0] = -inp[0];
  outp[1] = -(-inp[1]);
  outp[2] = ~inp[1];
  outp[3] = i32(!(inp[2] == 0));
  outp[4] = i32(-f32(inp[1]));
  let v = -vec2<i32>(inp[0], inp[1]);
  outp[5] = v.x ^ v.y;
}`,
			in: map[uint32][]byte{0: i32s(intMin, 9, 0), 1: make([]byte, 24)},
			// -INT_MIN = INT_MIN; ~9 = -10; !(0==0) = false; -9.0 -> -9; (INT_MIN, -9): INT_MIN ^ -9 = 0x7FFFFFF7
			want: map[uint32][]any{1: {intMin, 9, -10, 0, -9, 0x7FFFFFF7}},
		},
		{
			name: "scalar_vector_mixes",
			wgsl: `
@group(0) @binding(0) var<storage, read> inp: array<i32, 3>;
@group(0) @binding(1) var<storage, read_write> outp: array<i32, 12>;
fn st(i: u32, v: vec3<i32>) { outp[i*3u] = v.x; outp[i*3u+1u] = v.y; outp[i*3u+2u] = v.z; }
@compute @workgroup_size(1) fn main() {
  let a = vec3<i32>(inp[0], inp[1], inp[2]);
  st(0u, 100 - a);
  st(1u, a / 2);
  st(2u, 7 % a);
  st(3u, a % vec3<i32>(3, 0, -1));
}`,
			in: map[uint32][]byte{0: i32s(-7, 0, 5), 1: make([]byte, 48)},
			// 100-a = (107,100,95); a/2 = (-3,0,2); 7%a = (7%-7=0, 7%0=0, 7%5=2); a%(3,0,-1) = (-1, 0, 0)
			want: map[uint32][]any{1: {107, 100, 95, -3, 0, 2, 0, 0, 2, -1, 0, 0}},
		},
		{
			name: "f32_vec_scalar_and_matrix_vector_ops",
			wgsl: `
@group(0) @binding(0) var<storage, read> inp: array<f32, 4>;
@group(0) @binding(1) var<storage, read_write> outp: array<vec4<f32>, 4>;
@compute @workgroup_size(1) fn main() {
  let v = vec4<f32>(inp[0], inp[1], inp[2], inp[3]);
  outp[0] = v / 2.0;
  outp[1] = 1.0 - v;
  outp[2] = v * v.wzyx;
  let m = mat4x4<f32>(v, v * 2.0, v * 3.0, v * 4.0);
  outp[3] = m * vec4<f32>(1.0, 0.0, 0.0, 1.0);
}`,
			in: map[uint32][]byte{0: f32s(1, 2, 4, 8), 1: make([]byte, 64)},
			// m*(1,0,0,1) = col0 + col3 = v + 4v = 5v
			want: map[uint32][]any{1: {0.5, 1.0, 2.0, 4.0, 0.0, -1.0, -3.0, -7.0, 8.0, 8.0, 8.0, 8.0, 5.0, 10.0, 20.0, 40.0}},
		},
		{
			name: "matrix_ops_square",
			wgsl: `
@group(0) @binding(0) var<storage, read> inp: mat3x3<f32>;
struct O { t: mat3x3<f32>, d: f32, n: mat3x3<f32>, c: vec3<f32> }
@group(0) @binding(1) var<storage, read_write> outp: O;
@compute @workgroup_size(1) fn main() {
  let m = inp;
  outp.t = transpose(m);
  outp.d = determinant(m);
  outp.n = m - m * 0.5;
  outp.c = m[2];
}`,
			// columns (2,0,0) (1,3,0) (4,5,6): upper-triangular as a math matrix, det = 2*3*6 = 36
			in: map[uint32][]byte{0: f32s(2, 0, 0, 0, 1, 3, 0, 0, 4, 5, 6, 0), 1: make([]byte, 128)},
			// O: t @0 (48), d @48, n @64 (48), c @112, size 128.  transpose columns: (2,1,4) (0,3,5) (0,0,6)
			want: map[uint32][]any{1: {2.0, 1.0, 4.0, anyWord{}, 0.0, 3.0, 5.0, anyWord{}, 0.0, 0.0, 6.0, anyWord{},
				approx{36, 1e-4}, anyWord{}, anyWord{}, anyWord{},
				1.0, 0.0, 0.0, anyWord{}, 0.5, 1.5, 0.0, anyWord{}, 2.0, 2.5, 3.0, anyWord{},
				4.0, 5.0, 6.0}},
		},
	}
	runConf(t, cases)
}

// wgslMatLayout returns column stride and size of matCxR<f32> by the WGSL layout rules.
func wgslMatLayout(c, r int) (stride, size int) {
	stride = map[int]int{2: 8, 3: 16, 4: 16}[r]
	return stride, stride * c
}

// TestConfMatrixShapes: all nine matCxR shapes; whole load/store, single column store, single
// element store, in storage and in uniform space.
func TestConfMatrixShapes(t *testing.T) {
	var cases []confCase
	for _, space := range []string{"storage", "uniform"} {
		for c := 2; c <= 4; c++ {
			for r := 2; r <= 4; r++ {
				stride, size := wgslMatLayout(c, r)
				// S { pre: f32, m: matCxR, post: f32 }: m at roundUp(align, 4), post after
				align := stride
				if r == 3 {
					align = 16
				}
				mOff := align
				postOff := mOff + size
				total := (postOff + 4 + align - 1) / align * align
				in := make([]float32, total/4)
				for i := range in {
					in[i] = -1000 - float32(i) // padding sentinels
				}
				in[0] = 0.5
				in[postOff/4] = 0.25
				val := func(col, row int) float32 { return float32(10*(col+1) + row + 1) }
				for col := 0; col < c; col++ {
					for row := 0; row < r; row++ {
						in[(mOff+col*stride)/4+row] = val(col, row)
					}
				}
				decl := "@group(0) @binding(0) var<storage, read> inp: S;"
				if space == "uniform" {
					decl = "@group(0) @binding(0) var<uniform> inp: S;"
				}
				src := fmt.Sprintf(`
struct S { pre: f32, m: mat%dx%d<f32>, post: f32 }
%s
@group(0) @binding(1) var<storage, read_write> outp: S;
@group(0) @binding(2) var<storage, read_write> o2: array<f32, 4>;
@group(0) @binding(3) var<storage, read> idx: array<u32, 2>;
@compute @workgroup_size(1) fn main() {
  outp = inp;
  outp.m[1] = inp.m[0] * 2.0;
  outp.m[0][1] = 9.0;
  outp.m[idx[0]][idx[1]] = 7.0;
  o2[0] = inp.m[1][0] + inp.pre + inp.post;
  o2[1] = inp.m[idx[0]][idx[1]];
  let mm = inp.m;
  o2[2] = mm[%d][%d];
  o2[3] = (mm * 2.0)[0][0];
}`, c, r, decl, c-1, r-1)
				want := make([]any, total/4)
				for i := range want {
					want[i] = anyWord{}
				}
				want[0] = float32(0.5)
				want[postOff/4] = float32(0.25)
				for col := 0; col < c; col++ {
					for row := 0; row < r; row++ {
						v := val(col, row)
						if col == 1 {
							v = val(0, row) * 2
						}
						if col == 0 && row == 1 {
							v = 9
						}
						if col == c-1 && row == r-1 {
							v = 7
						}
						want[(mOff+col*stride)/4+row] = v
					}
				}
				inb := f32s(in...)
				cases = append(cases, confCase{
					name: fmt.Sprintf("%s_mat%dx%d", space, c, r),
					wgsl: src,
					in: map[uint32][]byte{0: inb, 1: make([]byte, total), 2: make([]byte, 16),
						3: u32s(uint32(c-1), uint32(r-1))},
					want: map[uint32][]any{1: want, 2: {val(1, 0) + 0.75, val(c-1, r-1), val(c-1, r-1), val(0, 0) * 2}},
				})
			}
		}
	}
	runConf(t, cases)
}
