package hlslx

import (
	"sort"
	"strconv"
	"strings"
)

const (
	mLoad = iota + 1
	mStore
	mGetDimensions
	mInterlocked
)

// mkMethod types a method call on an object.
func (p *parser) mkMethod(obj *expr, nm *token, args []*expr) *expr {
	line := nm.line
	if isOpaqueExpr(obj) {
		return p.opaque(line, nil, opaqueReason(obj))
	}
	if obj.t.k != kResource {
		if obj.t.k == kStruct {
			p.fail(line, "struct %s has no method %q", obj.t.name, nm.s)
		}
		p.fail(line, "method call %q on a value of type %s", nm.s, obj.t.name)
	}
	res := obj.t.res
	if res != "ByteAddressBuffer" && res != "RWByteAddressBuffer" {
		return p.opaque(line, nil, res+"."+nm.s)
	}
	for _, a := range args {
		if isOpaqueExpr(a) {
			return p.opaque(line, nil, opaqueReason(a))
		}
	}
	rw := res == "RWByteAddressBuffer"
	scalarArg := func(i int, what string) {
		if i >= len(args) || !args[i].t.isScalar() {
			p.fail(line, "%s.%s: %s must be a scalar", res, nm.s, what)
		}
	}
	side := sideOf(args)
	switch {
	case nm.s == "Load" || nm.s == "Load2" || nm.s == "Load3" || nm.s == "Load4":
		n := 1
		if len(nm.s) == 5 {
			n = int(nm.s[4] - '0')
		}
		if len(args) == 2 {
			return p.opaque(line, nil, res+"."+nm.s+" with status")
		}
		if len(args) != 1 {
			p.fail(line, "%s.%s expects one argument", res, nm.s)
		}
		scalarArg(0, "offset")
		off := p.convImplicit(args[0], tUint, "offset")
		return &expr{op: eMethod, n: mLoad, name: nm.s, t: numType(skUint, 0, n), a: obj, args: []*expr{off}, line: line, side: side}
	case nm.s == "Store" || nm.s == "Store2" || nm.s == "Store3" || nm.s == "Store4":
		if !rw {
			p.fail(line, "%s has no method %s", res, nm.s)
		}
		n := 1
		if len(nm.s) == 6 {
			n = int(nm.s[5] - '0')
		}
		if len(args) != 2 {
			p.fail(line, "%s.%s expects two arguments", res, nm.s)
		}
		scalarArg(0, "offset")
		off := p.convImplicit(args[0], tUint, "offset")
		v := p.convImplicit(args[1], numType(skUint, 0, n), nm.s+" value")
		return &expr{op: eMethod, n: mStore, name: nm.s, t: tVoid, a: obj, args: []*expr{off, v}, line: line, side: true}
	case nm.s == "GetDimensions":
		if len(args) != 1 {
			p.fail(line, "%s.GetDimensions expects one argument", res)
		}
		if args[0].t.k != kNum || !args[0].t.isScalar() {
			p.fail(line, "GetDimensions: out argument of type %s", args[0].t.name)
		}
		p.requireLV(args[0], line, "GetDimensions out argument")
		return &expr{op: eMethod, n: mGetDimensions, name: nm.s, t: tVoid, a: obj, args: args, line: line, side: true}
	case strings.HasPrefix(nm.s, "Interlocked"):
		in := intrinsics[nm.s]
		if in == nil {
			return p.opaque(line, nil, res+"."+nm.s)
		}
		if !rw {
			p.fail(line, "%s has no method %s", res, nm.s)
		}
		nval := 1
		if in.id == iInterlockedCompareExchange || in.id == iInterlockedCompareStore {
			nval = 2
		}
		wantOut := in.id == iInterlockedCompareExchange || in.id == iInterlockedExchange
		hasOut := len(args) == 2+nval
		if len(args) != 1+nval && !hasOut || (wantOut && !hasOut) || (in.id == iInterlockedCompareStore && hasOut) {
			p.fail(line, "%s.%s: wrong number of arguments", res, nm.s)
		}
		scalarArg(0, "offset")
		out := []*expr{p.convImplicit(args[0], tUint, "offset")}
		// operand kind: the kind of the value argument decides signed/unsigned min/max
		vt := tUint
		if args[nval].t.isScalar() && args[nval].t.sk == skInt {
			vt = tInt
		}
		for i := 1; i <= nval; i++ {
			scalarArg(i, "value")
			if args[i].t.sk == skFloat {
				return p.opaque(line, nil, res+"."+nm.s+" on float")
			}
			out = append(out, p.convImplicit(args[i], vt, "value"))
		}
		if hasOut {
			o := args[len(args)-1]
			if o.t.k != kNum || !o.t.isScalar() {
				p.fail(line, "%s: original-value argument of type %s", nm.s, o.t.name)
			}
			p.requireLV(o, line, nm.s+" original-value argument")
			out = append(out, o)
		}
		return &expr{op: eMethod, n: mInterlocked, fld: int(in.id), name: nm.s, t: tVoid, a: obj, args: out, line: line, side: true}
	}
	if strings.HasPrefix(nm.s, "Load") || strings.HasPrefix(nm.s, "Store") || strings.HasPrefix(nm.s, "Interlocked") {
		return p.opaque(line, nil, res+"."+nm.s)
	}
	p.fail(line, "%s has no method %q", res, nm.s)
	return nil
}

// ---------------------------------------------------------------- observations

func (p *Program) entryOf(f *funcDecl) Entry {
	e := Entry{Name: f.name, NumThreads: f.numthreads, ReturnType: f.ret.name, ReturnSemantic: f.retSemantic, Line: f.line}
	for _, pr := range f.params {
		ep := EntryParam{Name: pr.sym.name, Type: pr.sym.t.name, Semantic: pr.semantic, Dir: [...]string{"in", "out", "inout"}[pr.dir]}
		if pr.sym.t.k == kStruct {
			for _, fl := range pr.sym.t.st.fields {
				ep.Members = append(ep.Members, EntryParam{Name: fl.name, Type: fl.t.name, Semantic: fl.semantic, Dir: ep.Dir})
			}
		}
		e.Params = append(e.Params, ep)
	}
	return e
}

// EntryPoints lists the functions carrying [numthreads].
func (p *Program) EntryPoints() []Entry {
	var out []Entry
	for _, f := range p.entries {
		out = append(out, p.entryOf(f))
	}
	return out
}

// Functions lists every function of the text (entry points of other stages have no attribute
// that distinguishes them; callers identify them by name).
func (p *Program) Functions() []Entry {
	var out []Entry
	for _, f := range p.funcs {
		out = append(out, p.entryOf(f))
	}
	return out
}

// Resources lists global resource declarations and cbuffers in declaration order.
func (p *Program) Resources() []Resource {
	out := append([]Resource(nil), p.resList...)
	sort.SliceStable(out, func(i, j int) bool { return out[i].Line < out[j].Line })
	return out
}

// Decls lists every declared identifier.
func (p *Program) Decls() []Decl { return append([]Decl(nil), p.decls...) }

// Problems lists declaration clashes: two declarations of one spelling in one scope, declared
// identifiers that are reserved words or predeclared type names, and user functions that coincide
// with an intrinsic.
func (p *Program) Problems() []string { return append([]string(nil), p.problems...) }

// ---------------------------------------------------------------- reserved words

// hlslKeywords: the "Keywords" and "Reserved Words" appendices of the HLSL reference, plus the
// type names DXC predeclares. Case-sensitive.
var hlslKeywords = []string{
	// keywords
	"AppendStructuredBuffer", "asm", "asm_fragment", "BlendState", "bool", "break", "Buffer", "ByteAddressBuffer",
	"case", "cbuffer", "centroid", "class", "column_major", "compile", "compile_fragment", "CompileShader", "const",
	"continue", "ComputeShader", "ConsumeStructuredBuffer", "default", "DepthStencilState", "DepthStencilView", "discard",
	"do", "double", "DomainShader", "dword", "else", "export", "extern", "false", "float", "for", "fxgroup",
	"GeometryShader", "groupshared", "half", "Hullshader", "if", "in", "inline", "inout", "InputPatch", "int", "interface",
	"line", "lineadj", "linear", "LineStream", "matrix", "min16float", "min10float", "min16int", "min12int", "min16uint",
	"namespace", "nointerpolation", "noperspective", "NULL", "out", "OutputPatch", "packoffset", "pass", "pixelfragment",
	"PixelShader", "point", "PointStream", "precise", "RasterizerState", "RenderTargetView", "return", "register",
	"row_major", "RWBuffer", "RWByteAddressBuffer", "RWStructuredBuffer", "RWTexture1D", "RWTexture1DArray", "RWTexture2D",
	"RWTexture2DArray", "RWTexture3D", "sample", "sampler", "SamplerState", "SamplerComparisonState", "shared", "snorm",
	"stateblock", "stateblock_state", "static", "string", "struct", "switch", "StructuredBuffer", "tbuffer", "technique",
	"technique10", "technique11", "texture", "Texture1D", "Texture1DArray", "Texture2D", "Texture2DArray", "Texture2DMS",
	"Texture2DMSArray", "Texture3D", "TextureCube", "TextureCubeArray", "true", "typedef", "triangle", "triangleadj",
	"TriangleStream", "uint", "uniform", "unorm", "unsigned", "vector", "vertexfragment", "VertexShader", "void",
	"volatile", "while",
	// reserved words
	"auto", "catch", "char", "const_cast", "delete", "dynamic_cast", "enum", "explicit", "friend", "goto", "long",
	"mutable", "new", "operator", "private", "protected", "public", "reinterpret_cast", "short", "signed", "sizeof",
	"static_cast", "template", "this", "throw", "try", "typename", "union", "using", "virtual",
	// later additions that are keywords or predeclared object types
	"globallycoherent", "ConstantBuffer", "TextureBuffer", "RaytracingAccelerationStructure", "RayDesc", "RayQuery",
	"RasterizerOrderedBuffer", "RasterizerOrderedByteAddressBuffer", "RasterizerOrderedStructuredBuffer",
	"RasterizerOrderedTexture1D", "RasterizerOrderedTexture1DArray", "RasterizerOrderedTexture2D",
	"RasterizerOrderedTexture2DArray", "RasterizerOrderedTexture3D", "sampler1D", "sampler2D", "sampler3D", "samplerCUBE",
	"sampler_state", "SamplerComparisonState",
}

var keywordSet map[string]string
var keywordList []string

func init() {
	keywordSet = map[string]string{}
	add := func(w, why string) {
		if _, ok := keywordSet[w]; !ok {
			keywordSet[w] = why
			keywordList = append(keywordList, w)
		}
	}
	for _, w := range hlslKeywords {
		add(w, "an HLSL keyword or reserved word")
	}
	// scalar, vector and matrix type names
	bases := []string{"bool", "int", "uint", "dword", "half", "float", "double", "min16float", "min10float", "min16int", "min12int", "min16uint",
		"int64_t", "uint64_t", "float16_t", "int16_t", "uint16_t", "int32_t", "uint32_t", "float32_t", "float64_t"}
	for _, b := range bases {
		add(b, "a predeclared type name")
		for r := 1; r <= 4; r++ {
			add(b+strconv.Itoa(r), "a predeclared type name")
			for c := 1; c <= 4; c++ {
				add(b+strconv.Itoa(r)+"x"+strconv.Itoa(c), "a predeclared type name")
			}
		}
	}
	sort.Strings(keywordList)
}

// Keywords returns the interpreter's own list of HLSL reserved words and predeclared type names.
func Keywords() []string { return append([]string(nil), keywordList...) }

func reservedWord(name string) (string, bool) {
	why, ok := keywordSet[name]
	return why, ok
}
