package hlslx

// HLSL constant-buffer packing, written from the "Packing Rules for Constant Variables" of the
// HLSL reference:
//   * storage is an array of 16-byte registers (four 32-bit components);
//   * a scalar or vector is placed at the next 4-byte component, unless it would straddle a
//     register boundary, in which case it starts the next register;
//   * every array element starts a new register; the last element occupies only its own size;
//   * a struct starts a new register; its size is the end of its last member (no tail padding),
//     so a following scalar/vector may share the struct's last register;
//   * a matrix is an array of vectors: row_major floatRxC = R registers of C components,
//     column_major (the default) floatRxC = C registers of R components;
//   * packoffset(cN.x) places a member explicitly.

type cbNode struct {
	name     string
	t        *Type
	off      int // byte offset relative to the enclosing struct / cbuffer
	size     int
	rowMajor bool
	stride   int     // arrays: element stride; matrices: register stride (16)
	elem     *cbNode // arrays: layout of one element (off = 0)
	fields   []*cbNode
}

func roundUp16(n int) int { return (n + 15) &^ 15 }

// layoutType computes the layout of a value of type t placed at a register boundary or, for
// scalars/vectors, anywhere (their interior does not depend on the position).
func layoutType(t *Type, rowMajor bool) *cbNode {
	n := &cbNode{t: t, rowMajor: rowMajor}
	switch t.k {
	case kNum:
		switch {
		case t.isMatrix():
			n.stride = 16
			if rowMajor {
				n.size = 16*(int(t.rows)-1) + 4*int(t.cols)
			} else {
				n.size = 16*(int(t.cols)-1) + 4*int(t.rows)
			}
		default:
			n.size = 4 * int(t.cols)
		}
	case kArray:
		n.elem = layoutType(t.elem, rowMajor)
		n.stride = roundUp16(n.elem.size)
		n.size = n.stride*(t.n-1) + n.elem.size
	case kStruct:
		fs := make([]field, len(t.st.fields))
		copy(fs, t.st.fields)
		n.fields = layoutFields(fs, 0)
		if len(n.fields) > 0 {
			for _, f := range n.fields {
				if e := f.off + f.size; e > n.size {
					n.size = e
				}
			}
		}
	}
	return n
}

// layoutFields places members one after another starting at byte offset start.
func layoutFields(fields []field, start int) []*cbNode {
	out := make([]*cbNode, len(fields))
	cur := start
	for i := range fields {
		f := &fields[i]
		n := layoutType(f.t, f.rowMajor && !f.colMajor)
		n.name = f.name
		switch {
		case f.pack >= 0:
			n.off = f.pack
		case f.t.k == kNum && !f.t.isMatrix():
			off := (cur + 3) &^ 3
			if off/16 != (off+n.size-1)/16 {
				off = roundUp16(off)
			}
			n.off = off
		default:
			n.off = roundUp16(cur)
		}
		cur = n.off + n.size
		out[i] = n
	}
	return out
}

func (n *cbNode) memberLayout(base int) MemberLayout {
	m := MemberLayout{Name: n.name, Type: n.t.name, Offset: base + n.off, Size: n.size, RowMajor: n.rowMajor}
	switch n.t.k {
	case kNum:
		if n.t.isMatrix() {
			m.Stride = n.stride
		}
	case kArray:
		m.Stride = n.stride
		m.Count = n.t.n
		em := n.elem.memberLayout(base + n.off)
		m.Members = em.Members
		if n.elem.t.isMatrix() && m.Members == nil {
			// nothing further: Stride of the matrix rows is 16 by rule
		}
	case kStruct:
		for _, f := range n.fields {
			m.Members = append(m.Members, f.memberLayout(base+n.off))
		}
	}
	return m
}

// CBufferLayout returns the placement of the members of the named cbuffer by HLSL packing rules.
func (p *Program) CBufferLayout(name string) ([]MemberLayout, bool) {
	for _, cb := range p.cbuffers {
		if cb.name == name {
			out := make([]MemberLayout, len(cb.layout))
			for i, n := range cb.layout {
				out[i] = n.memberLayout(0)
			}
			return out, true
		}
	}
	return nil, false
}
