package hlslx

import (
	"math"
	"strconv"
)

type kind uint8

const (
	kVoid kind = iota
	kNum       // scalar, vector or matrix of bool/int/uint/float
	kArray
	kStruct
	kResource
	kOpaque // a type outside the implemented subset (half, double, 64-bit, ...)
)

type skind uint8

const (
	skBool skind = iota
	skInt
	skUint
	skFloat
)

var skNames = [...]string{"bool", "int", "uint", "float"}

// Type is an HLSL type. Numeric types are interned in numTypes, arrays per program, structs per
// declaration, so pointer equality is type identity.
type Type struct {
	k     kind
	sk    skind
	rows  uint8 // 0 for scalars and vectors; matrix: number of rows
	cols  uint8 // 1 scalar, 2..4 vector; matrix: number of columns
	elem  *Type // array element
	n     int   // array length
	st    *structInfo
	res   string // resource kind: "ByteAddressBuffer", "Texture2D", ...
	targ  string // template argument text of a resource type
	slots int    // number of 32-bit scalar slots of a value
	name  string
}

func (t *Type) String() string { return t.name }

func (t *Type) isNum() bool    { return t.k == kNum }
func (t *Type) isScalar() bool { return t.k == kNum && t.rows == 0 && t.cols == 1 }
func (t *Type) isVector() bool { return t.k == kNum && t.rows == 0 && t.cols > 1 }
func (t *Type) isMatrix() bool { return t.k == kNum && t.rows > 0 }
func (t *Type) isOpaque() bool { return t.k == kOpaque }
func (t *Type) isInt() bool    { return t.k == kNum && (t.sk == skInt || t.sk == skUint) }

type field struct {
	name     string
	t        *Type
	off      int // slot offset
	semantic string
	rowMajor bool
	colMajor bool
	pack     int // packoffset in bytes, -1 if none
	line     int
}

type structInfo struct {
	name   string
	fields []field
	scope  int
}

func (s *structInfo) field(name string) *field {
	for i := range s.fields {
		if s.fields[i].name == name {
			return &s.fields[i]
		}
	}
	return nil
}

var (
	tVoid    = &Type{k: kVoid, name: "void"}
	numTypes [4][5][5]*Type // [sk][rows][cols]
	tBool    *Type
	tInt     *Type
	tUint    *Type
	tFloat   *Type
)

// builtinTypeNames maps every predeclared scalar/vector/matrix type spelling to its type
// (opaque for families outside the subset).
var builtinTypeNames = map[string]*Type{}

func init() {
	for sk := skBool; sk <= skFloat; sk++ {
		base := skNames[sk]
		for c := 1; c <= 4; c++ {
			nm := base
			if c > 1 {
				nm += strconv.Itoa(c)
			}
			t := &Type{k: kNum, sk: sk, rows: 0, cols: uint8(c), slots: c, name: nm}
			numTypes[sk][0][c] = t
			builtinTypeNames[nm] = t
		}
		for r := 1; r <= 4; r++ {
			for c := 1; c <= 4; c++ {
				nm := base + strconv.Itoa(r) + "x" + strconv.Itoa(c)
				if r == 1 || c == 1 {
					builtinTypeNames[nm] = opaqueType(nm)
					continue
				}
				t := &Type{k: kNum, sk: sk, rows: uint8(r), cols: uint8(c), slots: r * c, name: nm}
				numTypes[sk][r][c] = t
				builtinTypeNames[nm] = t
			}
		}
		builtinTypeNames[base+"1"] = opaqueType(base + "1")
	}
	tBool, tInt, tUint, tFloat = numTypes[skBool][0][1], numTypes[skInt][0][1], numTypes[skUint][0][1], numTypes[skFloat][0][1]
	// dword is a synonym of uint.
	builtinTypeNames["dword"] = tUint
	for _, base := range opaqueScalarNames {
		builtinTypeNames[base] = opaqueType(base)
		for r := 1; r <= 4; r++ {
			builtinTypeNames[base+strconv.Itoa(r)] = opaqueType(base + strconv.Itoa(r))
			for c := 1; c <= 4; c++ {
				nm := base + strconv.Itoa(r) + "x" + strconv.Itoa(c)
				builtinTypeNames[nm] = opaqueType(nm)
			}
		}
	}
	for _, n := range []string{"CANDIDATE_TYPE", "COMMITTED_STATUS", "RAY_FLAG"} {
		builtinTypeNames[n] = opaqueType(n)
	}
	for r := 1; r <= 4; r++ {
		builtinTypeNames["dword"+strconv.Itoa(r)] = opaqueType("dword" + strconv.Itoa(r))
	}
}

var opaqueScalarNames = []string{
	"half", "double", "min16float", "min10float", "min16int", "min12int", "min16uint",
	"int64_t", "uint64_t", "float16_t", "int16_t", "uint16_t", "float32_t", "float64_t", "int32_t", "uint32_t",
}

// predeclaredConstants: enumerators DXC predeclares (ray tracing); values outside the subset.
var predeclaredConstants = map[string]bool{
	"COMMITTED_NOTHING": true, "COMMITTED_TRIANGLE_HIT": true, "COMMITTED_PROCEDURAL_PRIMITIVE_HIT": true,
	"CANDIDATE_NON_OPAQUE_TRIANGLE": true, "CANDIDATE_PROCEDURAL_PRIMITIVE": true,
	"RAY_FLAG_NONE": true, "RAY_FLAG_FORCE_OPAQUE": true, "RAY_FLAG_FORCE_NON_OPAQUE": true,
	"RAY_FLAG_ACCEPT_FIRST_HIT_AND_END_SEARCH": true, "RAY_FLAG_SKIP_CLOSEST_HIT_SHADER": true,
	"RAY_FLAG_CULL_BACK_FACING_TRIANGLES": true, "RAY_FLAG_CULL_FRONT_FACING_TRIANGLES": true,
	"RAY_FLAG_CULL_OPAQUE": true, "RAY_FLAG_CULL_NON_OPAQUE": true, "RAY_FLAG_SKIP_TRIANGLES": true,
	"RAY_FLAG_SKIP_PROCEDURAL_PRIMITIVES": true,
	"HIT_KIND_TRIANGLE_FRONT_FACE":        true, "HIT_KIND_TRIANGLE_BACK_FACE": true,
}

func opaqueType(name string) *Type { return &Type{k: kOpaque, name: name, slots: 1} }

func numType(sk skind, rows, cols int) *Type { return numTypes[sk][rows][cols] }

// withKind returns the numeric type of the same shape with another scalar kind.
func (t *Type) withKind(sk skind) *Type { return numTypes[sk][t.rows][t.cols] }

func (t *Type) ncomp() int { return t.slots }

// resource type names (object types). Value: true if it takes template arguments.
var resourceTypeNames = map[string]bool{
	"ByteAddressBuffer": false, "RWByteAddressBuffer": false,
	"StructuredBuffer": true, "RWStructuredBuffer": true, "AppendStructuredBuffer": true, "ConsumeStructuredBuffer": true,
	"Buffer": true, "RWBuffer": true, "ConstantBuffer": true, "TextureBuffer": true,
	"Texture1D": true, "Texture1DArray": true, "Texture2D": true, "Texture2DArray": true, "Texture2DMS": true,
	"Texture2DMSArray": true, "Texture3D": true, "TextureCube": true, "TextureCubeArray": true,
	"RWTexture1D": true, "RWTexture1DArray": true, "RWTexture2D": true, "RWTexture2DArray": true, "RWTexture3D": true,
	"SamplerState": false, "SamplerComparisonState": false, "sampler": false,
	"RaytracingAccelerationStructure": false, "RayQuery": true, "RayDesc": false,
	"InputPatch": true, "OutputPatch": true, "PointStream": true, "LineStream": true, "TriangleStream": true,
	"RasterizerOrderedTexture2D": true, "RasterizerOrderedBuffer": true, "RasterizerOrderedByteAddressBuffer": false,
	"FeedbackTexture2D": true, "FeedbackTexture2DArray": true,
}

func f32bits(f float32) uint32     { return math.Float32bits(f) }
func f32frombits(b uint32) float32 { return math.Float32frombits(b) }
