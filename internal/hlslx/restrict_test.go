package hlslx

import (
	"errors"
	"testing"

	"github.com/gogpu/naga/hlsl"

	"verif/internal/xrt"
)

// TestRestrictIndexingObservable: an out-of-range index into a function-space array traps in the
// interpreter when naga emits no guard, and is clamped when RestrictIndexing is on.
func TestRestrictIndexingObservable(t *testing.T) {
	src := `
@group(0) @binding(0) var<storage, read> idx: array<u32, 1>;
@group(0) @binding(1) var<storage, read_write> outp: array<i32, 2>;
var<workgroup> w: array<i32, 4>;
@compute @workgroup_size(1) fn main() {
  var a = array<i32, 4>(10, 20, 30, 40);
  let i = idx[0];
  outp[0] = a[i];
  w[i] = 7;
  outp[1] = w[3];
}`
	run := func(restrict bool, i uint32) (xrt.Buffers, error) {
		h, _ := compileWGSL(t, src, func(o *hlsl.Options) { o.RestrictIndexing = restrict })
		p, err := Parse(h)
		if err != nil {
			t.Fatal(err)
		}
		bufs := xrt.Buffers{bind(0, 0): u32s(i), bind(0, 1): make([]byte, 8)}
		return bufs, p.Exec(bufs, Opts{Opts: xrt.Opts{PoisonLocals: true}})
	}
	for _, i := range []uint32{4, 5, 0x7FFFFFFF, 0x80000000, 0xFFFFFFFF} {
		bufs, err := run(true, i)
		if err != nil {
			t.Errorf("restrict, index %#x: %v", i, err)
			continue
		}
		for _, e := range checkWords("outp", bufs[bind(0, 1)], []any{40, 7}) {
			t.Error(e)
		}
		_, err = run(false, i)
		var tr *xrt.Trap
		if !errors.As(err, &tr) || tr.Kind != "oob-read" {
			t.Errorf("no restrict, index %#x: %v, want oob-read trap", i, err)
		}
	}
	if bufs, err := run(false, 2); err != nil || getU32(bufs[bind(0, 1)], 0) != 30 {
		t.Errorf("in-range index: %v", err)
	}
}
