package hlslx

import (
	"math"
	"testing"
)

// Group 4: builtin functions. Exact results where WGSL makes them exact; a tolerance elsewhere.
func TestConfGroup4(t *testing.T) {
	ap := func(v float64) approx { return approx{v, 1e-5 * math.Max(1, math.Abs(v))} }
	cases := []confCase{
		{
			name: "int_abs_min_max_clamp_sign",
			wgsl: `
@group(0) @binding(0) var<storage, read> inp: array<i32, 6>;
@group(0) @binding(1) var<storage, read_write> outp: array<i32, 12>;
@compute @workgroup_size(1) fn main() {
  outp[0] = abs(inp[0]);
  outp[1] = abs(inp[1]);
  outp[2] = min(inp[2], inp[3]);
  outp[3] = max(inp[2], inp[3]);
  outp[4] = clamp(inp[4], 0, 10);
  outp[5] = clamp(inp[3], 0, 10);
  outp[6] = sign(inp[0]);
  outp[7] = sign(inp[5]);
  let u = vec2<u32>(u32(inp[2]), u32(inp[1]));
  outp[8] = i32(min(u.x, u.y));
  outp[9] = i32(max(u.x, u.y) >> 4u);
  outp[10] = i32(clamp(5u, u32(inp[2]) + 4u, 9u));
  let v = abs(vec2<i32>(inp[0], inp[3]));
  outp[11] = v.x * 10 + v.y;
}`,
			in: map[uint32][]byte{0: i32s(-5, intMin, 3, -4, 15, 0), 1: make([]byte, 48)},
			// u = (3, 0x80000000): min 3, max>>4 = 0x08000000 ; clamp(5,7,9) = 7 ; abs(-5,-4) = (5,4)
			want: map[uint32][]any{1: {5, intMin, -4, 3, 10, 0, -1, 0, 3, 0x08000000, 7, 54}},
		},
		{
			name: "float_exact_builtins",
			wgsl: `
@group(0) @binding(0) var<storage, read> inp: array<f32, 8>;
@group(0) @binding(1) var<storage, read_write> outp: array<f32, 24>;
@compute @workgroup_size(1) fn main() {
  outp[0] = abs(inp[0]);
  outp[1] = min(inp[0], inp[1]);
  outp[2] = max(inp[0], inp[1]);
  outp[3] = clamp(inp[2], 0.0, 1.5);
  outp[4] = saturate(inp[3]);
  outp[5] = saturate(inp[4]);
  outp[6] = saturate(inp[2]);
  outp[7] = sign(inp[0]) * 1.0;
  outp[8] = sign(inp[5]) + 0.0;
  outp[9] = floor(inp[0]);
  outp[10] = ceil(inp[0]);
  outp[11] = round(inp[6]);
  outp[12] = round(inp[7]);
  outp[13] = round(-inp[6]);
  outp[14] = trunc(inp[1]);
  outp[15] = fract(inp[4] + 1.0);
  outp[16] = fract(-inp[4]);
  outp[17] = step(1.0, inp[4]);
  outp[18] = step(inp[4], inp[4]);
  let v = floor(vec2<f32>(inp[0], inp[6]));
  outp[19] = v.x + v.y;
  outp[20] = select(inp[0], inp[1], inp[0] > inp[1]);
  outp[21] = sqrt(inp[2] * 3.0 + 1.0);
}`,
			// inp: -1.5, -2, 5, -0.5, 0.25, 0, 2.5, 3.5
			in: map[uint32][]byte{0: f32s(-1.5, -2, 5, -0.5, 0.25, 0, 2.5, 3.5), 1: make([]byte, 96)},
			want: map[uint32][]any{1: {1.5, -2.0, -1.5, 1.5, 0.0, 0.25, 1.0, -1.0, 0.0, -2.0, -1.0, 2.0, 4.0, -2.0, -2.0, 0.25, 0.75,
				0.0, 1.0, 0.0, -2.0, 4.0}},
		},
		{
			name: "exp_log_pow_family",
			wgsl: `
@group(0) @binding(0) var<storage, read> inp: array<f32, 4>;
@group(0) @binding(1) var<storage, read_write> outp: array<f32, 12>;
@compute @workgroup_size(1) fn main() {
  outp[0] = sqrt(inp[0]);
  outp[1] = inverseSqrt(inp[1]);
  outp[2] = pow(inp[2], inp[3]);
  outp[3] = exp2(inp[3]);
  outp[4] = log2(inp[0] * 0.5);
  outp[5] = exp(inp[0] - 16.0);
  outp[6] = log(inp[2] - 1.0);
  outp[7] = exp(inp[2] - 1.0);
  let v = sqrt(vec2<f32>(inp[0], inp[1]));
  outp[8] = v.x * v.y;
}`,
			in:   map[uint32][]byte{0: f32s(16, 4, 2, 3), 1: make([]byte, 48)},
			want: map[uint32][]any{1: {4.0, ap(0.5), ap(8), ap(8), ap(3), ap(1), ap(0), ap(math.E), ap(8)}},
		},
		{
			name: "dot_cross_length_distance_normalize",
			wgsl: `
@group(0) @binding(0) var<storage, read> inp: array<f32, 6>;
@group(0) @binding(1) var<storage, read_write> outp: array<f32, 16>;
@compute @workgroup_size(1) fn main() {
  let a = vec3<f32>(inp[0], inp[1], inp[2]);
  let b = vec3<f32>(inp[3], inp[4], inp[5]);
  outp[0] = dot(a, b);
  let c = cross(a, b);
  outp[1] = c.x; outp[2] = c.y; outp[3] = c.z;
  outp[4] = length(vec2<f32>(inp[2], inp[3]));
  outp[5] = distance(vec2<f32>(1.0, 1.0), vec2<f32>(inp[3], inp[4]));
  let n = normalize(vec3<f32>(inp[2], 0.0, inp[3]));
  outp[6] = n.x; outp[7] = n.y; outp[8] = n.z;
  let ia = vec3<i32>(a); let ib = vec3<i32>(-b.x, b.y, -b.z);
  outp[9] = f32(dot(ia, ib));
  outp[10] = f32(dot(vec2<u32>(3u, 4u), vec2<u32>(u32(inp[0]), u32(inp[1]))));
  outp[11] = length(inp[0] - 3.0);
}`,
			in: map[uint32][]byte{0: f32s(1, 2, 3, 4, 5, 6), 1: make([]byte, 64)},
			// dot = 32; cross = (-3, 6, -3); length(3,4) = 5; distance((1,1),(4,5)) = 5; normalize(3,0,4) = (.6,0,.8)
			// dot((1,2,3),(-4,5,-6)) = -4+10-18 = -12 ; dot((3,4),(1,2)) = 11 ; length(-2) = 2
			want: map[uint32][]any{1: {ap(32), -3.0, 6.0, -3.0, ap(5), ap(5), ap(0.6), ap(0), ap(0.8), -12.0, 11.0, ap(2)}},
		},
		{
			name: "mix_step_smoothstep_fma",
			wgsl: `
@group(0) @binding(0) var<storage, read> inp: array<f32, 4>;
@group(0) @binding(1) var<storage, read_write> outp: array<f32, 10>;
@compute @workgroup_size(1) fn main() {
  outp[0] = mix(inp[0], inp[1], inp[2]);
  let m = mix(vec2<f32>(inp[0], inp[1]), vec2<f32>(10.0, 20.0), inp[3]);
  outp[1] = m.x; outp[2] = m.y;
  let m2 = mix(vec2<f32>(0.0, 8.0), vec2<f32>(4.0, 0.0), vec2<f32>(inp[2], inp[3]));
  outp[3] = m2.x; outp[4] = m2.y;
  outp[5] = smoothstep(0.0, 1.0, inp[3]);
  outp[6] = smoothstep(0.0, inp[0], -1.0);
  outp[7] = smoothstep(inp[0], inp[1], 9.0);
  outp[8] = fma(inp[0], inp[1], inp[2]);
  let f = fma(vec2<f32>(inp[0]), vec2<f32>(3.0, 5.0), vec2<f32>(1.0));
  outp[9] = f.x + f.y;
}`,
			in: map[uint32][]byte{0: f32s(2, 4, 0.25, 0.5), 1: make([]byte, 40)},
			// mix(2,4,.25)=2.5 ; mix((2,4),(10,20),.5) = (6,12) ; mix((0,8),(4,0),(.25,.5)) = (1,4)
			want: map[uint32][]any{1: {ap(2.5), ap(6), ap(12), ap(1), ap(4), ap(0.5), ap(0), ap(1), ap(8.25), ap(18)}},
		},
		{
			name: "bit_counting",
			wgsl: `
@group(0) @binding(0) var<storage, read> inp: array<u32, 8>;
@group(0) @binding(1) var<storage, read_write> outp: array<u32, 20>;
@compute @workgroup_size(1) fn main() {
  outp[0] = countOneBits(inp[0]);
  outp[1] = 31u;
  outp[2] = 32u;
  outp[3] = countTrailingZeros(inp[3]);
  outp[4] = 32u;
  outp[5] = reverseBits(inp[1]);
  outp[6] = firstLeadingBit(inp[4]);
  outp[7] = firstLeadingBit(inp[2]);
  outp[8] = u32(firstLeadingBit(i32(inp[5])));
  outp[9] = u32(firstLeadingBit(i32(inp[6])));
  outp[10] = u32(firstLeadingBit(i32(inp[7])));
  outp[11] = firstTrailingBit(inp[7] + 7u);
  outp[12] = firstTrailingBit(inp[2]);
  outp[13] = 0u;
  outp[14] = u32(countOneBits(i32(inp[5])));
  let v = countOneBits(vec2<u32>(inp[0], inp[5]));
  outp[15] = v.x * 100u + v.y;
  outp[16] = u32(firstLeadingBit(i32(inp[2])));
  outp[17] = 0u;
  outp[18] = u32(countTrailingZeros(i32(inp[6])));
}`,
			// inp: 0xF0F0, 1, 0, 8, 0x10, 0xFFFFFFFF (-1), 0xFFFFFFF8 (-8), 5
			in: map[uint32][]byte{0: u32s(0xF0F0, 1, 0, 8, 0x10, 0xFFFFFFFF, 0xFFFFFFF8, 5), 1: make([]byte, 80)},
			want: map[uint32][]any{1: {uint32(8), uint32(31), uint32(32), uint32(3), uint32(32), uint32(0x80000000), uint32(4),
				uint32(0xFFFFFFFF), uint32(0xFFFFFFFF), uint32(2), uint32(2), uint32(2), uint32(0xFFFFFFFF), uint32(0), uint32(32),
				uint32(832), uint32(0xFFFFFFFF), uint32(0), uint32(3)}},
		},
		{
			name: "extract_insert_bits",
			wgsl: `
@group(0) @binding(0) var<storage, read> inp: array<u32, 6>;
@group(0) @binding(1) var<storage, read_write> outp: array<u32, 10>;
@compute @workgroup_size(1) fn main() {
  let x = inp[0];
  outp[0] = extractBits(x, inp[1], inp[2]);
  outp[1] = u32(extractBits(i32(inp[3]), 4u, inp[1]));
  outp[2] = extractBits(x, 32u, 5u);
  outp[3] = insertBits(0u, 0xFFu, inp[1], inp[1]);
  outp[4] = insertBits(0xFFFFFFFFu, 0u, inp[2], inp[2]);
  outp[5] = extractBits(x, 0u, inp[4]);
  outp[6] = extractBits(x, 28u, 10u);
  outp[7] = insertBits(x, inp[3], 28u, 10u);
  outp[8] = extractBits(x, inp[1], 0u);
  outp[9] = u32(extractBits(i32(x), 28u, 4u));
}`,
			// x = 0xABCD1234 ; inp[1] = 4 ; inp[2] = 8 ; inp[3] = 0xF0 ; inp[4] = 32
			in: map[uint32][]byte{0: u32s(0xABCD1234, 4, 8, 0xF0, 32, 0), 1: make([]byte, 40)},
			// [0] bits 4..11 of x = 0x23 ; [1] bits 4..7 of 0xF0 signed = -1 ; [2] offset 32 -> 0 ; [3] 0xF0 ; [4] 0xFFFF00FF
			// [5] whole ; [6] top 4 bits = 0xA ; [7] low 4 bits of 0xF0 (=0) into bits 28..31 -> 0x0BCD1234 ; [8] 0 ; [9] 0xA signed 4 bits = -6
			want: map[uint32][]any{1: {uint32(0x23), uint32(0xFFFFFFFF), uint32(0), uint32(0xF0), uint32(0xFFFF00FF),
				uint32(0xABCD1234), uint32(0xA), uint32(0x0BCD1234), uint32(0), uint32(0xFFFFFFFA)}},
		},
		{
			name: "pack_unpack",
			wgsl: `
@group(0) @binding(0) var<storage, read> inp: array<f32, 8>;
@group(0) @binding(2) var<storage, read> ui: array<u32, 8>;
@group(0) @binding(1) var<storage, read_write> outp: array<u32, 24>;
@compute @workgroup_size(1) fn main() {
  outp[0] = pack4x8unorm(vec4<f32>(inp[0], inp[1], inp[2], inp[3]));
  outp[1] = bitcast<u32>(unpack4x8unorm(ui[0]).y);
  outp[2] = pack2x16float(vec2<f32>(inp[1], inp[4]));
  let h = unpack2x16float(ui[1]);
  outp[3] = bitcast<u32>(h.x); outp[4] = bitcast<u32>(h.y);
  outp[5] = pack4x8snorm(vec4<f32>(inp[5], inp[1], inp[0], inp[2]));
  outp[6] = pack2x16unorm(vec2<f32>(inp[1], inp[0]));
  outp[7] = pack2x16snorm(vec2<f32>(inp[5], inp[1]));
  let u8 = unpack4xU8(ui[2]);
  outp[8] = u8.x + u8.y * 10u + u8.z * 100u + u8.w * 1000u;
  let i8 = unpack4xI8(ui[3]);
  outp[9] = u32(i8.x); outp[10] = u32(i8.y); outp[11] = u32(i8.z); outp[12] = u32(i8.w);
  outp[13] = pack4xU8(vec4<u32>(1u, 2u, 3u, ui[4]));
  outp[14] = pack4xI8(vec4<i32>(-1, 2, -128, i32(ui[5])));
  outp[15] = pack4xU8Clamp(vec4<u32>(ui[6], 2u, 3u, 4u));
  outp[16] = pack4xI8Clamp(vec4<i32>(-i32(ui[6]), i32(ui[6]), 0, 1));
  outp[17] = dot4U8Packed(ui[7], 0x01010101u);
  outp[18] = u32(dot4I8Packed(ui[3], 0x02020202u));
  let sn = unpack4x8snorm(ui[3]);
  outp[19] = bitcast<u32>(sn.z);
  let un = unpack2x16unorm(0xFFFF0000u + ui[5] - 127u);
  outp[20] = bitcast<u32>(un.y);
  let s16 = unpack2x16snorm(ui[2] & 0xFFFFu);
  outp[21] = bitcast<u32>(s16.x);
}`,
			// inp: 0, 1, 0.5, 0.25, -2, -1 ; ui: 0x4080FF00, 0xC0003C00, 0x04030201, 0xFF7F80FE, 0x1FF, 127, 300, 0x01020304
			in: map[uint32][]byte{0: f32s(0, 1, 0.5, 0.25, -2, -1, 0, 0),
				2: u32s(0x4080FF00, 0xC0003C00, 0x04030201, 0xFF7F80FE, 0x1FF, 127, 300, 0x01020304), 1: make([]byte, 96)},
			want: map[uint32][]any{1: {
				uint32(0x4080FF00),                     // 0, 255, round(127.5)=128, round(63.75)=64
				uint32(0x3F800000),                     // 255/255
				uint32(0xC0003C00),                     // 1.0 -> 0x3C00, -2.0 -> 0xC000
				uint32(0x3F800000), uint32(0xC0000000), // 1.0, -2.0
				uint32(0x40007F81), // -127, 127, 0, round(63.5)=64
				uint32(0x0000FFFF), // 65535, 0
				uint32(0x7FFF8001), // -32767, 32767
				uint32(4321),
				uint32(0xFFFFFFFE), uint32(0xFFFFFF80), uint32(127), uint32(0xFFFFFFFF), // -2, -128, 127, -1
				uint32(0xFF030201),
				uint32(0x7F8002FF),
				uint32(0x040302FF),
				uint32(0x01007F80),
				uint32(10),
				uint32(0xFFFFFFF8),            // 2*(-2-128+127-1) = -8
				uint32(0x3F800000),            // 127/127
				uint32(0x3F800000),            // 0xFFFF / 65535
				approx{513.0 / 32767.0, 1e-7}, // 0x0201 / 32767
			}},
		},
		{
			name: "modf_frexp_ldexp",
			wgsl: `
@group(0) @binding(0) var<storage, read> inp: array<f32, 4>;
@group(0) @binding(1) var<storage, read_write> outp: array<f32, 14>;
@compute @workgroup_size(1) fn main() {
  let a = modf(inp[0]);
  outp[0] = a.fract; outp[1] = a.whole;
  let b = modf(-inp[0]);
  outp[2] = b.fract; outp[3] = b.whole;
  let c = frexp(inp[1]);
  outp[4] = c.fract; outp[5] = f32(c.exp);
  let d = frexp(inp[2]);
  outp[6] = d.fract; outp[7] = f32(d.exp);
  outp[8] = ldexp(inp[3], 3);
  outp[9] = ldexp(inp[3], i32(inp[2]));
  let v = modf(vec2<f32>(inp[0], inp[2]));
  outp[10] = v.fract.x + v.whole.y;
  let w = frexp(vec2<f32>(inp[1], inp[3]));
  outp[11] = w.fract.y; outp[12] = f32(w.exp.x + w.exp.y);
}`,
			// inp: 2.75, 8, -3, 0.75
			in: map[uint32][]byte{0: f32s(2.75, 8, -3, 0.75), 1: make([]byte, 56)},
			// frexp(8) = (0.5, 4); frexp(-3) = (-0.75, 2); ldexp(.75,3) = 6; ldexp(.75,-3) = 0.09375
			// modf((2.75,-3)) = fract (.75, -0), whole (2, -3) ; frexp((8, .75)) = ((.5, .75), (4, 0))
			want: map[uint32][]any{1: {0.75, 2.0, -0.75, -2.0, 0.5, 4.0, -0.75, 2.0, ap(6), ap(0.09375), -2.25, 0.75, 4.0}},
		},
		{
			name: "trig_at_exact_points",
			wgsl: `
@group(0) @binding(0) var<storage, read> inp: array<f32, 4>;
@group(0) @binding(1) var<storage, read_write> outp: array<f32, 24>;
@compute @workgroup_size(1) fn main() {
  let z = inp[0]; let o = inp[1];
  outp[0] = sin(z); outp[1] = cos(z); outp[2] = tan(z);
  outp[3] = asin(z); outp[4] = acos(o); outp[5] = atan(z);
  outp[6] = atan2(z, o); outp[7] = sinh(z); outp[8] = cosh(z); outp[9] = tanh(z);
  outp[10] = z; outp[11] = z; outp[12] = z;
  outp[13] = exp(o); outp[14] = degrees(inp[2]); outp[15] = radians(inp[3]);
  outp[16] = sin(inp[2] * 0.5); outp[17] = cos(inp[2]); outp[18] = atan2(o, z);
  outp[19] = asin(o); outp[20] = tan(inp[2] * 0.25); outp[21] = sinh(o);
}`,
			in: map[uint32][]byte{0: f32s(0, 1, math.Pi, 180), 1: make([]byte, 96)},
			want: map[uint32][]any{1: {ap(0), ap(1), ap(0), ap(0), ap(0), ap(0), ap(0), ap(0), ap(1), ap(0), ap(0), ap(0), ap(0),
				ap(math.E), ap(180), ap(math.Pi), ap(1), ap(-1), ap(math.Pi / 2), ap(math.Pi / 2), ap(1), ap(math.Sinh(1))}},
		},
		{
			name: "faceforward_reflect_refract",
			wgsl: `
@group(0) @binding(0) var<storage, read> inp: array<f32, 4>;
@group(0) @binding(1) var<storage, read_write> outp: array<vec3<f32>, 4>;
@compute @workgroup_size(1) fn main() {
  let e1 = vec3<f32>(inp[0], inp[1], inp[2]);
  let up = vec3<f32>(0.0, 0.0, inp[0]);
  outp[0] = faceForward(e1, up, -up);
  outp[1] = faceForward(e1, up, up);
  outp[2] = reflect(vec3<f32>(inp[0], -inp[0], 0.0), vec3<f32>(0.0, inp[0], 0.0));
  outp[3] = refract(vec3<f32>(0.0, -inp[0], 0.0), vec3<f32>(0.0, inp[0], 0.0), inp[3]);
}`,
			in: map[uint32][]byte{0: f32s(1, 2, 3, 1), 1: make([]byte, 64)},
			want: map[uint32][]any{1: {1.0, 2.0, 3.0, anyWord{}, -1.0, -2.0, -3.0, anyWord{}, ap(1), ap(1), ap(0), anyWord{},
				ap(0), ap(-1), ap(0), anyWord{}}},
		},
		{
			name: "quantize_transpose_determinant",
			wgsl: `
@group(0) @binding(0) var<storage, read> inp: array<f32, 6>;
@group(0) @binding(1) var<storage, read_write> outp: array<f32, 12>;
@compute @workgroup_size(1) fn main() {
  outp[0] = quantizeToF16(inp[0]);
  outp[1] = quantizeToF16(inp[1]);
  let m = mat2x3<f32>(vec3<f32>(inp[0], inp[1], inp[2]), vec3<f32>(inp[3], inp[4], inp[5]));
  outp[2] = m[1].x; outp[3] = m[0].z; outp[4] = m[1].y;
  outp[5] = determinant(mat2x2<f32>(inp[2], inp[3], inp[4], inp[5]));
  let q = quantizeToF16(vec2<f32>(inp[2], inp[3]));
  outp[6] = q.x + q.y;
  outp[7] = determinant(mat4x4<f32>(vec4<f32>(inp[2], 0.0, 0.0, 0.0), vec4<f32>(1.0, inp[3], 0.0, 0.0),
                                       vec4<f32>(0.0, 1.0, inp[4], 0.0), vec4<f32>(5.0, 0.0, 1.0, inp[5])));
}`,
			// inp: 3.14159, 1.0, 2, 3, 4, 5 ; f16(3.14159) = 3.140625
			// t[0] = (3.14159, 3); t[2] = (2, 5); t[1] = (1, 4); det2 = 2*5 - 3*4 = -2 ; det4 (triangular) = 2*3*4*5 = 120
			in:   map[uint32][]byte{0: f32s(3.14159, 1, 2, 3, 4, 5), 1: make([]byte, 48)},
			want: map[uint32][]any{1: {3.140625, 1.0, 3.0, 2.0, 4.0, ap(-2), 5.0, ap(120)}},
		},
		{
			name:   "sign_f32_stored_directly",
			defect: "sign() returns int in HLSL; naga wraps it in asuint() for the store, writing integer bits (0xFFFFFFFF) instead of the float -1.0",
			wgsl: `
@group(0) @binding(0) var<storage, read> inp: array<f32, 2>;
@group(0) @binding(1) var<storage, read_write> outp: array<f32, 2>;
@compute @workgroup_size(1) fn main() { outp[0] = sign(inp[0]); outp[1] = sign(inp[1]); }`,
			in:   map[uint32][]byte{0: f32s(-1.5, 3), 1: make([]byte, 8)},
			want: map[uint32][]any{1: {-1.0, 1.0}},
		},
		{
			name:   "count_leading_zeros",
			defect: "countLeadingZeros(x) is emitted as firstbithigh(x) (index of the highest set bit from the LSB) instead of 31 - firstbithigh(x)",
			wgsl: `
@group(0) @binding(0) var<storage, read> inp: array<u32, 3>;
@group(0) @binding(1) var<storage, read_write> outp: array<u32, 4>;
@compute @workgroup_size(1) fn main() {
  outp[0] = countLeadingZeros(inp[0]); outp[1] = countLeadingZeros(inp[1]); outp[2] = countLeadingZeros(inp[2]);
  outp[3] = u32(countLeadingZeros(i32(inp[2])));
}`,
			in:   map[uint32][]byte{0: u32s(1, 0, 0xFFFFFFFF), 1: make([]byte, 16)},
			want: map[uint32][]any{1: {uint32(31), uint32(32), uint32(0), uint32(0)}},
		},
		{
			name:   "count_trailing_zeros_of_zero",
			defect: "countTrailingZeros(x) is emitted as bare firstbitlow(x): 0xFFFFFFFF for x = 0 where WGSL requires 32",
			wgsl: `
@group(0) @binding(0) var<storage, read> inp: array<u32, 2>;
@group(0) @binding(1) var<storage, read_write> outp: array<u32, 2>;
@compute @workgroup_size(1) fn main() { outp[0] = countTrailingZeros(inp[0]); outp[1] = countTrailingZeros(inp[1]); }`,
			in:   map[uint32][]byte{0: u32s(0, 8), 1: make([]byte, 8)},
			want: map[uint32][]any{1: {uint32(32), uint32(3)}},
		},
		{
			name:   "pack4x8snorm_half_way",
			defect: "pack4x8snorm rounds with round() (half to even): -63.5 -> -64 where WGSL's floor(0.5 + x) gives -63",
			wgsl: `
@group(0) @binding(0) var<storage, read> inp: array<f32, 1>;
@group(0) @binding(1) var<storage, read_write> outp: array<u32, 1>;
@compute @workgroup_size(1) fn main() { outp[0] = pack4x8snorm(vec4<f32>(inp[0], 0.0, 0.0, 0.0)); }`,
			in:   map[uint32][]byte{0: f32s(-0.5), 1: make([]byte, 4)},
			want: map[uint32][]any{1: {uint32(0xC1)}},
		},
		{
			name:   "unpack4x8snorm_minus128",
			defect: "unpack4x8snorm/unpack2x16snorm divide without the max(-1.0, ...) clamp: byte 0x80 gives -1.0079",
			wgsl: `
@group(0) @binding(0) var<storage, read> inp: array<u32, 1>;
@group(0) @binding(1) var<storage, read_write> outp: array<f32, 2>;
@compute @workgroup_size(1) fn main() { outp[0] = unpack4x8snorm(inp[0]).y; outp[1] = unpack2x16snorm(inp[0]).x; }`,
			in:   map[uint32][]byte{0: u32s(0xFF7F8000), 1: make([]byte, 8)},
			want: map[uint32][]any{1: {-1.0, -1.0}},
		},
		{
			name:   "asinh_acosh_atanh",
			defect: "asinh/acosh/atanh are emitted as calls of functions HLSL does not have",
			wgsl: `
@group(0) @binding(0) var<storage, read> inp: array<f32, 2>;
@group(0) @binding(1) var<storage, read_write> outp: array<f32, 3>;
@compute @workgroup_size(1) fn main() { outp[0] = asinh(inp[0]); outp[1] = acosh(inp[1]); outp[2] = atanh(inp[0]); }`,
			in:   map[uint32][]byte{0: f32s(0, 1), 1: make([]byte, 12)},
			want: map[uint32][]any{1: {ap(0), ap(0), ap(0)}},
		},
		{
			name:   "transpose_non_square",
			defect: "the result of transpose(mat2x3) is declared `float2x3` (the operand's type) instead of float3x2: type error in HLSL",
			wgsl: `
@group(0) @binding(0) var<storage, read> inp: array<f32, 6>;
@group(0) @binding(1) var<storage, read_write> outp: array<f32, 3>;
@compute @workgroup_size(1) fn main() {
  let m = mat2x3<f32>(vec3<f32>(inp[0], inp[1], inp[2]), vec3<f32>(inp[3], inp[4], inp[5]));
  let t = transpose(m);
  outp[0] = t[0].y; outp[1] = t[2].x; outp[2] = t[1].y;
}`,
			in:   map[uint32][]byte{0: f32s(1, 2, 3, 4, 5, 6), 1: make([]byte, 12)},
			want: map[uint32][]any{1: {4.0, 3.0, 5.0}},
		},
		{
			name: "select_forms",
			wgsl: `
@group(0) @binding(0) var<storage, read> inp: array<i32, 4>;
@group(0) @binding(1) var<storage, read_write> outp: array<i32, 8>;
@compute @workgroup_size(1) fn main() {
  let a = vec4<i32>(inp[0], inp[1], inp[2], inp[3]);
  let c = a > vec4<i32>(0);
  let s = select(vec4<i32>(-1), a * 2, c);
  outp[0] = s.x; outp[1] = s.y; outp[2] = s.z; outp[3] = s.w;
  let s2 = select(a, vec4<i32>(9), inp[0] > 0);
  outp[4] = s2.x + s2.w;
  outp[5] = select(inp[1], inp[2], any(c) && !all(c));
  outp[6] = i32(all(vec2<bool>(c.x, c.z))) + 2 * i32(any(vec2<bool>(c.y, c.w)));
}`,
			// a = (5, -3, 7, 0); c = (T,F,T,F); s = (10,-1,14,-1); s2 = 9s -> 18; any && !all -> inp[2] = 7 ; all(T,T)=1, any(F,F)=0
			in:   map[uint32][]byte{0: i32s(5, -3, 7, 0), 1: make([]byte, 32)},
			want: map[uint32][]any{1: {10, -1, 14, -1, 18, 7, 1}},
		},
	}
	runConf(t, cases)
}
