package hlslx

import (
	"math"
	"math/bits"

	"verif/internal/xrt"
)

type intrID uint8

const (
	iNone intrID = iota
	// unary float, same shape
	iSin
	iCos
	iTan
	iAsin
	iAcos
	iAtan
	iSinh
	iCosh
	iTanh
	iExp
	iExp2
	iLog
	iLog2
	iLog10
	iSqrt
	iRsqrt
	iFloor
	iCeil
	iRound
	iTrunc
	iFrac
	iSaturate
	iDegrees
	iRadians
	iRcp
	// binary float
	iPow
	iAtan2
	iFmod
	iStep
	iLdexp
	// ternary float
	iLerp
	iSmoothstep
	// any numeric kind
	iAbs
	iSign
	iMin
	iMax
	iClamp
	iMad
	iDot
	// predicates / reductions
	iAll
	iAny
	iIsnan
	iIsinf
	iIsfinite
	// reinterpretation
	iAsint
	iAsuint
	iAsfloat
	// bits
	iCountbits
	iReversebits
	iFirstbithigh
	iFirstbitlow
	iF32tof16
	iF16tof32
	// geometry
	iLength
	iDistance
	iNormalize
	iCross
	iFaceforward
	iReflect
	iRefract
	iDeterminant
	iTranspose
	iMul
	// out-parameter forms
	iModf
	iFrexp
	iSincos
	// atomics on groupshared
	iInterlockedAdd
	iInterlockedAnd
	iInterlockedOr
	iInterlockedXor
	iInterlockedMin
	iInterlockedMax
	iInterlockedExchange
	iInterlockedCompareExchange
	iInterlockedCompareStore
	// barriers
	iBarrierSync
	iBarrierNoSync
	// packed dot products (SM 6.4)
	iDot4addU8
	iDot4addI8
)

type intrinsic struct {
	name    string
	id      intrID
	check   func(p *parser, in *intrinsic, args []*expr, line int32) *expr
	barrier bool
}

var intrinsics = map[string]*intrinsic{}

// unsupportedIntrinsics are HLSL intrinsic names the interpreter knows but does not implement.
var unsupportedIntrinsics = map[string]bool{}

func reg(name string, id intrID, check func(p *parser, in *intrinsic, args []*expr, line int32) *expr) *intrinsic {
	in := &intrinsic{name: name, id: id, check: check}
	intrinsics[name] = in
	return in
}

func init() {
	for n, id := range map[string]intrID{"sin": iSin, "cos": iCos, "tan": iTan, "asin": iAsin, "acos": iAcos, "atan": iAtan,
		"sinh": iSinh, "cosh": iCosh, "tanh": iTanh, "exp": iExp, "exp2": iExp2, "log": iLog, "log2": iLog2, "log10": iLog10,
		"sqrt": iSqrt, "rsqrt": iRsqrt, "floor": iFloor, "ceil": iCeil, "round": iRound, "trunc": iTrunc, "frac": iFrac,
		"saturate": iSaturate, "degrees": iDegrees, "radians": iRadians, "rcp": iRcp} {
		reg(n, id, checkFloatN(1))
	}
	for n, id := range map[string]intrID{"pow": iPow, "atan2": iAtan2, "fmod": iFmod, "step": iStep, "ldexp": iLdexp} {
		reg(n, id, checkFloatN(2))
	}
	reg("lerp", iLerp, checkFloatN(3))
	reg("smoothstep", iSmoothstep, checkFloatN(3))
	reg("abs", iAbs, checkSameKind(1, false))
	reg("sign", iSign, checkSign)
	reg("min", iMin, checkSameKind(2, false))
	reg("max", iMax, checkSameKind(2, false))
	reg("clamp", iClamp, checkSameKind(3, false))
	reg("mad", iMad, checkSameKind(3, false))
	reg("dot", iDot, checkDot)
	reg("all", iAll, checkAllAny)
	reg("any", iAny, checkAllAny)
	reg("isnan", iIsnan, checkFloatPred)
	reg("isinf", iIsinf, checkFloatPred)
	reg("isfinite", iIsfinite, checkFloatPred)
	reg("asint", iAsint, checkAs(skInt))
	reg("asuint", iAsuint, checkAs(skUint))
	reg("asfloat", iAsfloat, checkAs(skFloat))
	reg("countbits", iCountbits, checkBits(skUint, skUint))
	reg("reversebits", iReversebits, checkBits(skUint, skUint))
	reg("firstbithigh", iFirstbithigh, checkFirstbithigh)
	reg("firstbitlow", iFirstbitlow, checkBits(skUint, skUint))
	reg("f32tof16", iF32tof16, checkBits(skFloat, skUint))
	reg("f16tof32", iF16tof32, checkBits(skUint, skFloat))
	reg("length", iLength, checkLength)
	reg("distance", iDistance, checkDistance)
	reg("normalize", iNormalize, checkFloatVec(1))
	reg("cross", iCross, checkCross)
	reg("faceforward", iFaceforward, checkFloatVec(3))
	reg("reflect", iReflect, checkFloatVec(2))
	reg("refract", iRefract, checkRefract)
	reg("determinant", iDeterminant, checkDeterminant)
	reg("transpose", iTranspose, checkTranspose)
	reg("mul", iMul, checkMul)
	reg("modf", iModf, checkOutFloat(1))
	reg("frexp", iFrexp, checkOutFloat(1))
	reg("sincos", iSincos, checkOutFloat(2))
	for n, id := range map[string]intrID{"InterlockedAdd": iInterlockedAdd, "InterlockedAnd": iInterlockedAnd, "InterlockedOr": iInterlockedOr,
		"InterlockedXor": iInterlockedXor, "InterlockedMin": iInterlockedMin, "InterlockedMax": iInterlockedMax,
		"InterlockedExchange": iInterlockedExchange, "InterlockedCompareExchange": iInterlockedCompareExchange,
		"InterlockedCompareStore": iInterlockedCompareStore} {
		reg(n, id, checkInterlocked)
	}
	for _, n := range []string{"GroupMemoryBarrierWithGroupSync", "DeviceMemoryBarrierWithGroupSync", "AllMemoryBarrierWithGroupSync"} {
		reg(n, iBarrierSync, checkNoArgs).barrier = true
	}
	for _, n := range []string{"GroupMemoryBarrier", "DeviceMemoryBarrier", "AllMemoryBarrier"} {
		reg(n, iBarrierNoSync, checkNoArgs)
	}
	reg("dot4add_u8packed", iDot4addU8, checkDot4add(skUint))
	reg("dot4add_i8packed", iDot4addI8, checkDot4add(skInt))
	reg("fma", iNone, func(p *parser, in *intrinsic, args []*expr, line int32) *expr {
		if len(args) != 3 {
			return nil
		}
		p.fail(line, "fma is defined for double operands only (arguments %s)", argTypes(args))
		return nil
	})
	for _, n := range []string{"ddx", "ddy", "ddx_fine", "ddy_fine", "ddx_coarse", "ddy_coarse", "fwidth", "clip", "abort", "errorf", "printf",
		"NonUniformResourceIndex", "SetMeshOutputCounts", "DispatchMesh", "EvaluateAttributeAtSample", "EvaluateAttributeCentroid",
		"EvaluateAttributeSnapped", "GetRenderTargetSampleCount", "GetRenderTargetSamplePosition", "asdouble", "asfloat16", "asint16",
		"asuint16", "msad4", "D3DCOLORtoUBYTE4", "dst", "lit", "noise", "CheckAccessFullyMapped", "TraceRay", "ReportHit", "CallShader",
		"IgnoreHit", "AcceptHitAndEndSearch", "DispatchRaysIndex", "DispatchRaysDimensions", "WorldRayOrigin", "WorldRayDirection",
		"ObjectRayOrigin", "ObjectRayDirection", "RayTMin", "RayTCurrent", "PrimitiveIndex", "InstanceID", "InstanceIndex", "GeometryIndex",
		"HitKind", "RayFlags", "ObjectToWorld3x4", "WorldToObject3x4", "ObjectToWorld4x3", "WorldToObject4x3",
		"dot2add", "pack_u8", "pack_s8", "pack_clamp_u8", "pack_clamp_s8", "unpack_u8u32", "unpack_s8s32", "unpack_u8u16", "unpack_s8s16",
		"select", "and", "or", "tex1D", "tex2D", "tex3D", "texCUBE", "tex2Dlod", "tex2Dbias", "tex2Dgrad", "tex2Dproj",
		"f32tof16_rtz", "InterlockedAdd64", "ProcessIsolineTessFactors", "ProcessQuadTessFactorsAvg", "ProcessQuadTessFactorsMax",
		"ProcessQuadTessFactorsMin", "Process2DQuadTessFactorsAvg", "Process2DQuadTessFactorsMax", "Process2DQuadTessFactorsMin",
		"ProcessTriTessFactorsAvg", "ProcessTriTessFactorsMax", "ProcessTriTessFactorsMin", "asfloat16", "countbits64", "IsHelperLane", "Barrier", "GetRemainingRecursionLevels"} {
		unsupportedIntrinsics[n] = true
	}
}

// ---------------------------------------------------------------- type rules

func allNum(args []*expr) bool {
	for _, a := range args {
		if a.t.k != kNum {
			return false
		}
	}
	return true
}

func sideOf(args []*expr) bool {
	for _, a := range args {
		if a.side {
			return true
		}
	}
	return false
}

// unify brings numeric arguments to one shape (scalars splat) and one scalar kind; forceFloat
// converts to float, otherwise the usual arithmetic rank decides (bool counts as int).
func unify(p *parser, args []*expr, forceFloat bool, line int32, what string) ([]*expr, *Type) {
	var rows, cols uint8 = 0, 1
	k := skInt
	for _, a := range args {
		if !a.t.isScalar() {
			if rows == 0 && cols == 1 {
				rows, cols = a.t.rows, a.t.cols
			} else if rows != a.t.rows || cols != a.t.cols {
				p.fail(line, "%s: arguments %s have different dimensions", what, argTypes(args))
			}
		}
		if rank(a.t.sk) > rank(k) {
			k = a.t.sk
		}
	}
	if forceFloat {
		k = skFloat
	}
	t := numType(k, int(rows), int(cols))
	out := make([]*expr, len(args))
	for i, a := range args {
		out[i] = p.mkConvert(a, t)
	}
	return out, t
}

func checkFloatN(n int) func(p *parser, in *intrinsic, args []*expr, line int32) *expr {
	return func(p *parser, in *intrinsic, args []*expr, line int32) *expr {
		if len(args) != n || !allNum(args) {
			return nil
		}
		as, t := unify(p, args, true, line, in.name)
		return &expr{op: eIntrinsic, in: in, t: t, args: as, line: line, side: sideOf(args)}
	}
}

func checkSameKind(n int, _ bool) func(p *parser, in *intrinsic, args []*expr, line int32) *expr {
	return func(p *parser, in *intrinsic, args []*expr, line int32) *expr {
		if len(args) != n || !allNum(args) {
			return nil
		}
		as, t := unify(p, args, false, line, in.name)
		return &expr{op: eIntrinsic, in: in, t: t, args: as, line: line, side: sideOf(args)}
	}
}

func checkSign(p *parser, in *intrinsic, args []*expr, line int32) *expr {
	if len(args) != 1 || !allNum(args) {
		return nil
	}
	as, t := unify(p, args, false, line, in.name)
	if t.sk == skUint {
		// sign of an unsigned value: defined (0 or 1); operate on it as is
	}
	return &expr{op: eIntrinsic, in: in, t: t.withKind(skInt), args: as, line: line, side: sideOf(args)}
}

func checkDot(p *parser, in *intrinsic, args []*expr, line int32) *expr {
	if len(args) != 2 || !allNum(args) || args[0].t.isMatrix() || args[1].t.isMatrix() {
		return nil
	}
	as, t := unify(p, args, false, line, in.name)
	return &expr{op: eIntrinsic, in: in, t: numType(t.sk, 0, 1), args: as, line: line, side: sideOf(args)}
}

func checkAllAny(p *parser, in *intrinsic, args []*expr, line int32) *expr {
	if len(args) != 1 || !allNum(args) {
		return nil
	}
	a := p.mkConvert(args[0], args[0].t.withKind(skBool))
	return &expr{op: eIntrinsic, in: in, t: tBool, args: []*expr{a}, line: line, side: sideOf(args)}
}

func checkFloatPred(p *parser, in *intrinsic, args []*expr, line int32) *expr {
	if len(args) != 1 || !allNum(args) {
		return nil
	}
	a := p.mkConvert(args[0], args[0].t.withKind(skFloat))
	return &expr{op: eIntrinsic, in: in, t: a.t.withKind(skBool), args: []*expr{a}, line: line, side: sideOf(args)}
}

func checkAs(to skind) func(p *parser, in *intrinsic, args []*expr, line int32) *expr {
	return func(p *parser, in *intrinsic, args []*expr, line int32) *expr {
		if len(args) != 1 {
			if len(args) == 3 {
				return p.opaque(line, nil, in.name+" with double operands")
			}
			return nil
		}
		a := args[0]
		if a.t.k != kNum {
			return nil
		}
		if a.t.sk == skBool {
			return p.opaque(line, nil, in.name+" of a bool value")
		}
		return &expr{op: eIntrinsic, in: in, t: a.t.withKind(to), args: []*expr{a}, line: line, side: a.side}
	}
}

func checkBits(from, to skind) func(p *parser, in *intrinsic, args []*expr, line int32) *expr {
	return func(p *parser, in *intrinsic, args []*expr, line int32) *expr {
		if len(args) != 1 || !allNum(args) || args[0].t.isMatrix() {
			return nil
		}
		if from != skFloat && args[0].t.sk == skFloat {
			return p.opaque(line, nil, in.name+" of a floating-point value")
		}
		a := p.mkConvert(args[0], args[0].t.withKind(from))
		return &expr{op: eIntrinsic, in: in, t: a.t.withKind(to), args: []*expr{a}, line: line, side: a.side}
	}
}

func checkFirstbithigh(p *parser, in *intrinsic, args []*expr, line int32) *expr {
	if len(args) != 1 || !allNum(args) || args[0].t.isMatrix() {
		return nil
	}
	a := args[0]
	switch a.t.sk {
	case skFloat:
		return p.opaque(line, nil, "firstbithigh of a floating-point value")
	case skBool:
		a = p.mkConvert(a, a.t.withKind(skInt))
	}
	return &expr{op: eIntrinsic, in: in, t: a.t, args: []*expr{a}, line: line, side: a.side}
}

func checkLength(p *parser, in *intrinsic, args []*expr, line int32) *expr {
	if len(args) != 1 || !allNum(args) || args[0].t.isMatrix() {
		return nil
	}
	a := p.mkConvert(args[0], args[0].t.withKind(skFloat))
	return &expr{op: eIntrinsic, in: in, t: tFloat, args: []*expr{a}, line: line, side: a.side}
}

func checkDistance(p *parser, in *intrinsic, args []*expr, line int32) *expr {
	if len(args) != 2 || !allNum(args) || args[0].t.isMatrix() || args[1].t.isMatrix() {
		return nil
	}
	as, _ := unify(p, args, true, line, in.name)
	return &expr{op: eIntrinsic, in: in, t: tFloat, args: as, line: line, side: sideOf(args)}
}

func checkFloatVec(n int) func(p *parser, in *intrinsic, args []*expr, line int32) *expr {
	return func(p *parser, in *intrinsic, args []*expr, line int32) *expr {
		if len(args) != n || !allNum(args) {
			return nil
		}
		for _, a := range args {
			if a.t.isMatrix() {
				return nil
			}
		}
		as, t := unify(p, args, true, line, in.name)
		return &expr{op: eIntrinsic, in: in, t: t, args: as, line: line, side: sideOf(args)}
	}
}

func checkCross(p *parser, in *intrinsic, args []*expr, line int32) *expr {
	if len(args) != 2 || !allNum(args) {
		return nil
	}
	f3 := numType(skFloat, 0, 3)
	for _, a := range args {
		if !(a.t.isVector() && a.t.cols == 3) {
			p.fail(line, "cross needs two 3-component vectors, got %s", argTypes(args))
		}
	}
	return &expr{op: eIntrinsic, in: in, t: f3, args: []*expr{p.mkConvert(args[0], f3), p.mkConvert(args[1], f3)}, line: line, side: sideOf(args)}
}

func checkRefract(p *parser, in *intrinsic, args []*expr, line int32) *expr {
	if len(args) != 3 || !allNum(args) || args[0].t.isMatrix() || args[1].t.isMatrix() {
		return nil
	}
	if !args[2].t.isScalar() {
		p.fail(line, "refract: eta must be a scalar")
	}
	as, t := unify(p, args[:2], true, line, in.name)
	as = append(as, p.mkConvert(args[2], tFloat))
	return &expr{op: eIntrinsic, in: in, t: t, args: as, line: line, side: sideOf(args)}
}

func checkDeterminant(p *parser, in *intrinsic, args []*expr, line int32) *expr {
	if len(args) != 1 || !args[0].t.isMatrix() {
		return nil
	}
	if args[0].t.rows != args[0].t.cols {
		p.fail(line, "determinant of a non-square matrix %s", args[0].t.name)
	}
	a := p.mkConvert(args[0], args[0].t.withKind(skFloat))
	return &expr{op: eIntrinsic, in: in, t: tFloat, args: []*expr{a}, line: line, side: a.side}
}

func checkTranspose(p *parser, in *intrinsic, args []*expr, line int32) *expr {
	if len(args) != 1 || !args[0].t.isMatrix() {
		return nil
	}
	a := args[0]
	return &expr{op: eIntrinsic, in: in, t: numType(a.t.sk, int(a.t.cols), int(a.t.rows)), args: []*expr{a}, line: line, side: a.side}
}

func checkMul(p *parser, in *intrinsic, args []*expr, line int32) *expr {
	if len(args) != 2 || !allNum(args) {
		return nil
	}
	a, b := args[0], args[1]
	k := a.t.sk
	if rank(b.t.sk) > rank(k) {
		k = b.t.sk
	}
	if k == skBool {
		k = skInt
	}
	var rt *Type
	switch {
	case a.t.isScalar() || b.t.isScalar():
		as, t := unify(p, args, false, line, "mul")
		if t.sk == skBool {
			t = t.withKind(skInt)
			as[0], as[1] = p.mkConvert(as[0], t), p.mkConvert(as[1], t)
		}
		return &expr{op: eIntrinsic, in: in, t: t, args: as, line: line, side: sideOf(args), n: 0}
	case a.t.isVector() && b.t.isVector():
		if a.t.cols != b.t.cols {
			p.fail(line, "mul: vector lengths differ: %s", argTypes(args))
		}
		rt = numType(k, 0, 1)
	case a.t.isVector() && b.t.isMatrix():
		if a.t.cols != b.t.rows {
			p.fail(line, "mul: %s (row vector) by %s needs vector length = matrix rows", a.t.name, b.t.name)
		}
		rt = numType(k, 0, int(b.t.cols))
	case a.t.isMatrix() && b.t.isVector():
		if a.t.cols != b.t.cols {
			p.fail(line, "mul: %s by %s (column vector) needs matrix columns = vector length", a.t.name, b.t.name)
		}
		rt = numType(k, 0, int(a.t.rows))
	default:
		if a.t.cols != b.t.rows {
			p.fail(line, "mul: %s by %s: inner dimensions differ", a.t.name, b.t.name)
		}
		rt = numType(k, int(a.t.rows), int(b.t.cols))
	}
	a = p.mkConvert(a, a.t.withKind(k))
	b = p.mkConvert(b, b.t.withKind(k))
	return &expr{op: eIntrinsic, in: in, t: rt, args: []*expr{a, b}, line: line, side: sideOf(args), n: 1}
}

// checkOutFloat: f(x, out a[, out b]) with float x; out arguments are l-values written with conversion.
func checkOutFloat(nout int) func(p *parser, in *intrinsic, args []*expr, line int32) *expr {
	return func(p *parser, in *intrinsic, args []*expr, line int32) *expr {
		if len(args) != 1+nout || args[0].t.k != kNum {
			return nil
		}
		x := p.mkConvert(args[0], args[0].t.withKind(skFloat))
		out := []*expr{x}
		for _, o := range args[1:] {
			if o.t.k != kNum {
				return nil
			}
			p.requireLV(o, line, in.name+" out argument")
			if o.t.rows != x.t.rows || o.t.cols != x.t.cols {
				p.fail(line, "%s: out argument %s does not match %s", in.name, o.t.name, x.t.name)
			}
			out = append(out, o)
		}
		rt := x.t
		if in.id == iSincos {
			rt = tVoid
		}
		return &expr{op: eIntrinsic, in: in, t: rt, args: out, line: line, side: true}
	}
}

func checkInterlocked(p *parser, in *intrinsic, args []*expr, line int32) *expr {
	nval := 1
	if in.id == iInterlockedCompareExchange || in.id == iInterlockedCompareStore {
		nval = 2
	}
	hasOut := len(args) == 2+nval
	mustOut := in.id == iInterlockedCompareExchange || in.id == iInterlockedExchange
	if (len(args) != 1+nval && !hasOut) || (mustOut && !hasOut) || (in.id == iInterlockedCompareStore && hasOut) {
		return nil
	}
	d := args[0]
	if !d.t.isScalar() {
		return nil
	}
	if d.t.sk == skFloat && in.id == iInterlockedExchange {
		return p.opaque(line, nil, "float InterlockedExchange")
	}
	if !d.t.isInt() {
		p.fail(line, "%s on %s", in.name, d.t.name)
	}
	p.requireLV(d, line, in.name+" destination")
	root := d
	for root.op == eMember || root.op == eIndex {
		root = root.a
	}
	if root.op != eVar || root.sym == nil || root.sym.store != stShared {
		p.fail(line, "%s destination is not a groupshared variable", in.name)
	}
	out := []*expr{d}
	for _, v := range args[1 : 1+nval] {
		if !v.t.isScalar() {
			p.fail(line, "%s: value argument of type %s", in.name, v.t.name)
		}
		out = append(out, p.mkConvert(v, d.t))
	}
	if hasOut {
		o := args[len(args)-1]
		if !o.t.isScalar() || o.t.k != kNum {
			p.fail(line, "%s: original-value argument of type %s", in.name, o.t.name)
		}
		p.requireLV(o, line, in.name+" original-value argument")
		out = append(out, o)
	}
	return &expr{op: eIntrinsic, in: in, t: tVoid, args: out, line: line, side: true, n: nval}
}

func checkNoArgs(p *parser, in *intrinsic, args []*expr, line int32) *expr {
	if len(args) != 0 {
		return nil
	}
	return &expr{op: eIntrinsic, in: in, t: tVoid, line: line, side: true}
}

func checkDot4add(acc skind) func(p *parser, in *intrinsic, args []*expr, line int32) *expr {
	return func(p *parser, in *intrinsic, args []*expr, line int32) *expr {
		if len(args) != 3 {
			return nil
		}
		for _, a := range args {
			if !a.t.isScalar() || a.t.sk == skFloat {
				return nil
			}
		}
		at := numType(acc, 0, 1)
		as := []*expr{p.mkConvert(args[0], tUint), p.mkConvert(args[1], tUint), p.mkConvert(args[2], at)}
		return &expr{op: eIntrinsic, in: in, t: at, args: as, line: line, side: sideOf(args)}
	}
}

// ---------------------------------------------------------------- evaluation

func fv(s slot) float32 { return math.Float32frombits(uint32(s)) }
func fs(f float32) slot { return slot(math.Float32bits(f)) }
func f64(s slot) float64 {
	return float64(math.Float32frombits(uint32(s)))
}
func fs64(f float64) slot { return slot(math.Float32bits(float32(f))) }

func isNaN32(f float32) bool { return f != f }

func fmin32(a, b float32) float32 {
	switch {
	case isNaN32(a):
		return b
	case isNaN32(b):
		return a
	case a < b:
		return a
	case b < a:
		return b
	case a == 0 && math.Signbit(float64(a)):
		return a
	}
	return b
}

func fmax32(a, b float32) float32 {
	switch {
	case isNaN32(a):
		return b
	case isNaN32(b):
		return a
	case a > b:
		return a
	case b > a:
		return b
	case a == 0 && !math.Signbit(float64(a)):
		return a
	}
	return b
}

func unaryF(id intrID, x float32) float32 {
	d := float64(x)
	switch id {
	case iSin:
		return float32(math.Sin(d))
	case iCos:
		return float32(math.Cos(d))
	case iTan:
		return float32(math.Tan(d))
	case iAsin:
		return float32(math.Asin(d))
	case iAcos:
		return float32(math.Acos(d))
	case iAtan:
		return float32(math.Atan(d))
	case iSinh:
		return float32(math.Sinh(d))
	case iCosh:
		return float32(math.Cosh(d))
	case iTanh:
		return float32(math.Tanh(d))
	case iExp:
		return float32(math.Exp(d))
	case iExp2:
		return float32(math.Exp2(d))
	case iLog:
		return float32(math.Log(d))
	case iLog2:
		return float32(math.Log2(d))
	case iLog10:
		return float32(math.Log10(d))
	case iSqrt:
		return float32(math.Sqrt(d))
	case iRsqrt:
		return float32(1 / math.Sqrt(d))
	case iFloor:
		return float32(math.Floor(d))
	case iCeil:
		return float32(math.Ceil(d))
	case iRound:
		return float32(math.RoundToEven(d))
	case iTrunc:
		return float32(math.Trunc(d))
	case iFrac:
		return float32(x - float32(math.Floor(d)))
	case iSaturate:
		return fmin32(fmax32(x, 0), 1)
	case iDegrees:
		return float32(d * (180 / math.Pi))
	case iRadians:
		return float32(d * (math.Pi / 180))
	case iRcp:
		return float32(1 / d)
	}
	return 0
}

func binaryF(id intrID, x, y float32) float32 {
	a, b := float64(x), float64(y)
	switch id {
	case iPow:
		// D3D: pow(x, y) = exp2(y * log2(x)); negative x gives NaN
		if a < 0 {
			return float32(math.NaN())
		}
		return float32(math.Pow(a, b))
	case iAtan2:
		return float32(math.Atan2(a, b))
	case iFmod:
		return float32(a - b*math.Trunc(a/b))
	case iStep: // step(y, x): x >= y
		if y >= x {
			return 1
		}
		return 0
	case iLdexp:
		return float32(a * math.Exp2(b))
	}
	return 0
}

func firstbithigh(v uint32, signed bool) uint32 {
	if signed && int32(v) < 0 {
		v = ^v
	}
	if v == 0 {
		return 0xFFFFFFFF
	}
	return uint32(31 - bits.LeadingZeros32(v))
}

func f32tof16(f float32) uint32 {
	b := math.Float32bits(f)
	sign := (b >> 16) & 0x8000
	exp := int((b>>23)&0xFF) - 127
	man := b & 0x7FFFFF
	switch {
	case exp == 128: // inf / nan
		if man != 0 {
			return sign | 0x7E00
		}
		return sign | 0x7C00
	case exp > 15:
		return sign | 0x7C00
	case exp >= -14:
		// normal: round to nearest even on the 13 dropped bits
		h := uint32(exp+15)<<10 | man>>13
		rem := man & 0x1FFF
		if rem > 0x1000 || (rem == 0x1000 && h&1 == 1) {
			h++
		}
		return sign | h
	case exp >= -25:
		// subnormal half
		m := man | 0x800000
		shift := uint(-14-exp) + 13
		h := m >> shift
		rem := m & (1<<shift - 1)
		half := uint32(1) << (shift - 1)
		if rem > half || (rem == half && h&1 == 1) {
			h++
		}
		return sign | h
	}
	return sign
}

func f16tof32(h uint32) float32 {
	h &= 0xFFFF
	sign := (h & 0x8000) << 16
	exp := (h >> 10) & 0x1F
	man := h & 0x3FF
	switch {
	case exp == 0x1F:
		return math.Float32frombits(sign | 0x7F800000 | man<<13)
	case exp != 0:
		return math.Float32frombits(sign | (exp+112)<<23 | man<<13)
	case man == 0:
		return math.Float32frombits(sign)
	}
	f := float32(man) * float32(1.0/(1<<24))
	if sign != 0 {
		f = -f
	}
	return f
}

func det(m []float64, n int) float64 {
	switch n {
	case 2:
		return m[0]*m[3] - m[1]*m[2]
	case 3:
		return m[0]*(m[4]*m[8]-m[5]*m[7]) - m[1]*(m[3]*m[8]-m[5]*m[6]) + m[2]*(m[3]*m[7]-m[4]*m[6])
	case 4:
		var r float64
		sub := make([]float64, 9)
		for c := 0; c < 4; c++ {
			k := 0
			for i := 1; i < 4; i++ {
				for j := 0; j < 4; j++ {
					if j != c {
						sub[k] = m[i*4+j]
						k++
					}
				}
			}
			d := m[c] * det(sub, 3)
			if c%2 == 1 {
				d = -d
			}
			r += d
		}
		return r
	}
	return 0
}

func (iv *inv) evalIntrinsic(e *expr, fr []slot) []slot {
	id := e.in.id
	switch id {
	case iBarrierSync:
		iv.barrier()
		return nil
	case iBarrierNoSync:
		return nil
	case iModf, iFrexp, iSincos:
		return iv.evalOutFloat(e, fr)
	case iInterlockedAdd, iInterlockedAnd, iInterlockedOr, iInterlockedXor, iInterlockedMin, iInterlockedMax,
		iInterlockedExchange, iInterlockedCompareExchange, iInterlockedCompareStore:
		return iv.evalInterlocked(e, fr)
	}
	var a, b, c []slot
	a = iv.evalArg(e.args[0], e.args, 0, fr)
	if len(e.args) > 1 {
		b = iv.evalArg(e.args[1], e.args, 1, fr)
	}
	if len(e.args) > 2 {
		c = iv.evalArg(e.args[2], e.args, 2, fr)
	}
	iv.use(a)
	iv.use(b)
	iv.use(c)
	n := e.t.slots
	at := e.args[0].t
	switch {
	case id >= iSin && id <= iRcp:
		r := iv.alloc(n)
		for i := range r {
			r[i] = fs(unaryF(id, fv(a[i])))
		}
		return r
	case id >= iPow && id <= iLdexp:
		r := iv.alloc(n)
		for i := range r {
			r[i] = fs(binaryF(id, fv(a[i]), fv(b[i])))
		}
		return r
	}
	switch id {
	case iLerp:
		r := iv.alloc(n)
		for i := range r {
			r[i] = fs64(f64(a[i]) + f64(c[i])*(f64(b[i])-f64(a[i])))
		}
		return r
	case iSmoothstep:
		r := iv.alloc(n)
		for i := range r {
			lo, hi, x := f64(a[i]), f64(b[i]), f64(c[i])
			t := (x - lo) / (hi - lo)
			if !(t > 0) { // also NaN
				t = 0
			}
			if t > 1 {
				t = 1
			}
			r[i] = fs64(t * t * (3 - 2*t))
		}
		return r
	case iAbs:
		r := iv.alloc(n)
		for i := range r {
			switch at.sk {
			case skFloat:
				r[i] = a[i] &^ 0x80000000
			case skInt:
				v := int32(a[i])
				if v < 0 {
					v = -v
				}
				r[i] = slot(uint32(v))
			default:
				r[i] = a[i]
			}
		}
		return r
	case iSign:
		r := iv.alloc(n)
		for i := range r {
			var s int32
			switch at.sk {
			case skFloat:
				f := fv(a[i])
				if f > 0 {
					s = 1
				} else if f < 0 {
					s = -1
				}
			case skInt:
				v := int32(a[i])
				if v > 0 {
					s = 1
				} else if v < 0 {
					s = -1
				}
			default:
				if uint32(a[i]) != 0 {
					s = 1
				}
			}
			r[i] = slot(uint32(s))
		}
		return r
	case iMin, iMax, iClamp:
		r := iv.alloc(n)
		for i := range r {
			switch id {
			case iMin:
				r[i] = minmax(at.sk, a[i], b[i], false)
			case iMax:
				r[i] = minmax(at.sk, a[i], b[i], true)
			default:
				r[i] = minmax(at.sk, minmax(at.sk, a[i], b[i], true), c[i], false)
			}
		}
		return r
	case iMad:
		r := iv.alloc(n)
		for i := range r {
			if at.sk == skFloat {
				r[i] = fs64(f64(a[i])*f64(b[i]) + f64(c[i]))
			} else {
				r[i] = slot(uint32(a[i])*uint32(b[i]) + uint32(c[i]))
			}
		}
		return r
	case iDot:
		r := iv.alloc(1)
		r[0] = dotSlots(at.sk, a, b)
		return r
	case iAll, iAny:
		r := iv.alloc(1)
		all, any := true, false
		for _, v := range a {
			if uint32(v) != 0 {
				any = true
			} else {
				all = false
			}
		}
		if (id == iAll && all) || (id == iAny && any) {
			r[0] = 1
		} else {
			r[0] = 0
		}
		return r
	case iIsnan, iIsinf, iIsfinite:
		r := iv.alloc(n)
		for i := range r {
			f := float64(fv(a[i]))
			var ok bool
			switch id {
			case iIsnan:
				ok = math.IsNaN(f)
			case iIsinf:
				ok = math.IsInf(f, 0)
			default:
				ok = !math.IsNaN(f) && !math.IsInf(f, 0)
			}
			r[i] = 0
			if ok {
				r[i] = 1
			}
		}
		return r
	case iAsint, iAsuint, iAsfloat:
		return a
	case iCountbits:
		r := iv.alloc(n)
		for i := range r {
			r[i] = slot(bits.OnesCount32(uint32(a[i])))
		}
		return r
	case iReversebits:
		r := iv.alloc(n)
		for i := range r {
			r[i] = slot(bits.Reverse32(uint32(a[i])))
		}
		return r
	case iFirstbithigh:
		r := iv.alloc(n)
		for i := range r {
			r[i] = slot(firstbithigh(uint32(a[i]), at.sk == skInt))
		}
		return r
	case iFirstbitlow:
		r := iv.alloc(n)
		for i := range r {
			v := uint32(a[i])
			if v == 0 {
				r[i] = 0xFFFFFFFF
			} else {
				r[i] = slot(bits.TrailingZeros32(v))
			}
		}
		return r
	case iF32tof16:
		r := iv.alloc(n)
		for i := range r {
			r[i] = slot(f32tof16(fv(a[i])))
		}
		return r
	case iF16tof32:
		r := iv.alloc(n)
		for i := range r {
			r[i] = fs(f16tof32(uint32(a[i])))
		}
		return r
	case iLength, iDistance:
		r := iv.alloc(1)
		var s float64
		for i := range a {
			d := f64(a[i])
			if id == iDistance {
				d -= f64(b[i])
			}
			s += d * d
		}
		r[0] = fs64(math.Sqrt(s))
		return r
	case iNormalize:
		r := iv.alloc(n)
		var s float64
		for i := range a {
			s += f64(a[i]) * f64(a[i])
		}
		l := math.Sqrt(s)
		for i := range r {
			r[i] = fs64(f64(a[i]) / l)
		}
		return r
	case iCross:
		r := iv.alloc(3)
		ax, ay, az := fv(a[0]), fv(a[1]), fv(a[2])
		bx, by, bz := fv(b[0]), fv(b[1]), fv(b[2])
		r[0] = fs(float32(float32(ay*bz) - float32(az*by)))
		r[1] = fs(float32(float32(az*bx) - float32(ax*bz)))
		r[2] = fs(float32(float32(ax*by) - float32(ay*bx)))
		return r
	case iFaceforward: // -n * sign(dot(i, ng))
		r := iv.alloc(n)
		var d float64
		for i := range b {
			d += f64(b[i]) * f64(c[i])
		}
		for i := range r {
			switch {
			case d < 0:
				r[i] = a[i]
			case d > 0:
				r[i] = fs(-fv(a[i]))
			default:
				r[i] = fs(float32(-fv(a[i]) * 0))
			}
		}
		return r
	case iReflect: // i - 2 * dot(i, n) * n
		r := iv.alloc(n)
		var d float64
		for i := range a {
			d += f64(a[i]) * f64(b[i])
		}
		for i := range r {
			r[i] = fs64(f64(a[i]) - 2*d*f64(b[i]))
		}
		return r
	case iRefract:
		r := iv.alloc(n)
		var d float64
		for i := range a {
			d += f64(a[i]) * f64(b[i])
		}
		eta := f64(c[0])
		k := 1 - eta*eta*(1-d*d)
		for i := range r {
			if k < 0 {
				r[i] = 0
			} else {
				r[i] = fs64(eta*f64(a[i]) - (eta*d+math.Sqrt(k))*f64(b[i]))
			}
		}
		return r
	case iDeterminant:
		r := iv.alloc(1)
		m := make([]float64, len(a))
		for i := range a {
			m[i] = f64(a[i])
		}
		r[0] = fs64(det(m, int(at.rows)))
		return r
	case iTranspose:
		r := iv.alloc(n)
		R, C := int(at.rows), int(at.cols)
		for i := 0; i < R; i++ {
			for j := 0; j < C; j++ {
				r[j*R+i] = a[i*C+j]
			}
		}
		return r
	case iMul:
		return iv.evalMul(e, a, b)
	case iDot4addU8, iDot4addI8:
		r := iv.alloc(1)
		acc := uint32(c[0])
		x, y := uint32(a[0]), uint32(b[0])
		for i := 0; i < 4; i++ {
			if id == iDot4addU8 {
				acc += ((x >> (8 * i)) & 0xFF) * ((y >> (8 * i)) & 0xFF)
			} else {
				acc += uint32(int32(int8(x>>(8*i))) * int32(int8(y>>(8*i))))
			}
		}
		r[0] = slot(acc)
		return r
	}
	panic(unsupported("intrinsic %s", e.in.name))
}

// evalArg evaluates argument i; the result is copied when a later argument has side effects.
func (iv *inv) evalArg(a *expr, all []*expr, i int, fr []slot) []slot {
	v := iv.eval(a, fr)
	for _, l := range all[i+1:] {
		if l.side {
			c := iv.alloc(len(v))
			copy(c, v)
			return c
		}
	}
	return v
}

func minmax(sk skind, a, b slot, max bool) slot {
	switch sk {
	case skFloat:
		if max {
			return fs(fmax32(fv(a), fv(b)))
		}
		return fs(fmin32(fv(a), fv(b)))
	case skInt:
		if (int32(a) > int32(b)) == max {
			return a
		}
		return b
	default:
		if (uint32(a) > uint32(b)) == max {
			return a
		}
		return b
	}
}

func dotSlots(sk skind, a, b []slot) slot {
	if sk == skFloat {
		var s float32
		for i := range a {
			p := float32(fv(a[i]) * fv(b[i]))
			if i == 0 {
				s = p
			} else {
				s = float32(s + p)
			}
		}
		return fs(s)
	}
	var s uint32
	for i := range a {
		s += uint32(a[i]) * uint32(b[i])
	}
	return slot(s)
}

// evalMul implements mul(a, b) in HLSL's convention: vectors on the left are row vectors, on the
// right column vectors; matrices are stored row-major in slots.
func (iv *inv) evalMul(e *expr, a, b []slot) []slot {
	ta, tb := e.args[0].t, e.args[1].t
	sk := ta.sk
	r := iv.alloc(e.t.slots)
	if e.n == 0 { // a scalar operand: component-wise
		for i := range r {
			if sk == skFloat {
				r[i] = fs(float32(fv(a[i]) * fv(b[i])))
			} else {
				r[i] = slot(uint32(a[i]) * uint32(b[i]))
			}
		}
		return r
	}
	acc := func(n int, ai func(k int) slot, bi func(k int) slot) slot {
		if sk == skFloat {
			var s float32
			for k := 0; k < n; k++ {
				p := float32(fv(ai(k)) * fv(bi(k)))
				if k == 0 {
					s = p
				} else {
					s = float32(s + p)
				}
			}
			return fs(s)
		}
		var s uint32
		for k := 0; k < n; k++ {
			s += uint32(ai(k)) * uint32(bi(k))
		}
		return slot(s)
	}
	switch {
	case ta.isVector() && tb.isVector():
		r[0] = dotSlots(sk, a, b)
	case ta.isVector(): // row vector (1 x K) times K x C
		K, C := int(tb.rows), int(tb.cols)
		for j := 0; j < C; j++ {
			r[j] = acc(K, func(k int) slot { return a[k] }, func(k int) slot { return b[k*C+j] })
		}
	case tb.isVector(): // R x K times column vector
		R, K := int(ta.rows), int(ta.cols)
		for i := 0; i < R; i++ {
			r[i] = acc(K, func(k int) slot { return a[i*K+k] }, func(k int) slot { return b[k] })
		}
	default:
		R, K, C := int(ta.rows), int(ta.cols), int(tb.cols)
		for i := 0; i < R; i++ {
			for j := 0; j < C; j++ {
				r[i*C+j] = acc(K, func(k int) slot { return a[i*K+k] }, func(k int) slot { return b[k*C+j] })
			}
		}
	}
	return r
}

func (iv *inv) evalOutFloat(e *expr, fr []slot) []slot {
	x := iv.eval(e.args[0], fr)
	iv.use(x)
	n := len(x)
	xs := iv.alloc(n)
	copy(xs, x)
	o1 := iv.alloc(n)
	var r, o2 []slot
	switch e.in.id {
	case iModf:
		r = iv.alloc(n)
		for i := 0; i < n; i++ {
			f := float64(fv(xs[i]))
			ip := math.Trunc(f)
			o1[i] = fs64(ip)
			fr := f - ip
			if math.IsInf(f, 0) {
				fr = math.Copysign(0, f)
			}
			r[i] = fs64(fr)
		}
	case iFrexp:
		// HLSL frexp: mantissa in [0.5, 1) returned without the sign of x; exponent as a float.
		r = iv.alloc(n)
		for i := 0; i < n; i++ {
			f := float64(fv(xs[i]))
			if f == 0 || math.IsNaN(f) || math.IsInf(f, 0) {
				r[i], o1[i] = fs64(math.Abs(f)), fs(0)
				continue
			}
			m, ex := math.Frexp(math.Abs(f))
			r[i], o1[i] = fs64(m), fs(float32(ex))
		}
	case iSincos:
		o2 = iv.alloc(n)
		for i := 0; i < n; i++ {
			f := float64(fv(xs[i]))
			o1[i], o2[i] = fs64(math.Sin(f)), fs64(math.Cos(f))
		}
	}
	iv.storeConv(e.args[1], fr, o1, skFloat)
	if o2 != nil {
		iv.storeConv(e.args[2], fr, o2, skFloat)
	}
	return r
}

// storeConv writes v (of scalar kind from) into the l-value expression dst, converting per component.
func (iv *inv) storeConv(dst *expr, fr []slot, v []slot, from skind) {
	lv := iv.evalLV(dst, fr)
	if dst.t.sk != from {
		c := iv.alloc(len(v))
		for i := range v {
			c[i] = convScalar(v[i], from, dst.t.sk)
		}
		v = c
	}
	lv.store(v)
}

func atomicOp(id intrID, signed bool, old, v, cmp uint32) uint32 {
	switch id {
	case iInterlockedAdd:
		return old + v
	case iInterlockedAnd:
		return old & v
	case iInterlockedOr:
		return old | v
	case iInterlockedXor:
		return old ^ v
	case iInterlockedMin:
		if signed {
			if int32(v) < int32(old) {
				return v
			}
			return old
		}
		if v < old {
			return v
		}
		return old
	case iInterlockedMax:
		if signed {
			if int32(v) > int32(old) {
				return v
			}
			return old
		}
		if v > old {
			return v
		}
		return old
	case iInterlockedExchange:
		return v
	case iInterlockedCompareExchange, iInterlockedCompareStore:
		// (dest, compare, value): cmp holds the compare value, v the new value
		if old == cmp {
			return v
		}
		return old
	}
	return old
}

func (iv *inv) evalInterlocked(e *expr, fr []slot) []slot {
	id := e.in.id
	lv := iv.evalLV(e.args[0], fr)
	var v, cmp uint32
	if e.n == 2 {
		c := iv.eval(e.args[1], fr)
		iv.use(c)
		cmp = uint32(c[0])
		x := iv.eval(e.args[2], fr)
		iv.use(x)
		v = uint32(x[0])
	} else {
		x := iv.eval(e.args[1], fr)
		iv.use(x)
		v = uint32(x[0])
	}
	cur := lv.s[0]
	if cur&poisonBit != 0 {
		panic(&xrt.Trap{Kind: "poison", Detail: "atomic on uninitialised groupshared memory (line " + itoa(int(e.line)) + ")"})
	}
	old := uint32(cur)
	lv.s[0] = slot(atomicOp(id, e.args[0].t.sk == skInt, old, v, cmp))
	if len(e.args) > 1+e.n {
		o := iv.alloc(1)
		o[0] = slot(old)
		iv.storeConv(e.args[len(e.args)-1], fr, o, e.args[0].t.sk)
	}
	return nil
}
