package hlslx

import (
	"os"
	"path/filepath"
	"sort"
	"strings"
	"testing"

	"github.com/gogpu/naga"
	"github.com/gogpu/naga/hlsl"

	"verif/internal/xrt"
)

// corpusKnownMalformed: corpus shaders whose HLSL text the parser rejects because the text itself
// is not valid HLSL (triaged by hand; see the final report). Key = file name, value = substring
// of the expected message.
var corpusKnownMalformed = map[string]string{
	// naga writes "static float[2] x = ..." / "float[1] member;" — array brackets on the type are not HLSL
	"abstract-types-var.wgsl": "array dimension after type name",
	"policy-mix.wgsl":         "array dimension after type name",
	"clip-distances.wgsl":     "array dimension after type name",
	// with default options the external texture global is never declared, yet passed: test(tex)
	"texture-external.wgsl": `undeclared identifier "tex"`,
}

func TestCorpusParses(t *testing.T) {
	files, _ := filepath.Glob("/repo/snapshot/testdata/in/*.wgsl")
	if len(files) == 0 {
		t.Skip("corpus not found")
	}
	sort.Strings(files)
	var nOK, nUnsup, nMal, nSkip, execOK, execOther int
	for _, f := range files {
		name := filepath.Base(f)
		src, err := os.ReadFile(f)
		if err != nil {
			t.Fatal(err)
		}
		h, ok := func() (h string, ok bool) {
			defer func() {
				if r := recover(); r != nil {
					ok = false
				}
			}()
			ast, err := naga.Parse(string(src))
			if err != nil {
				return "", false
			}
			m, err := naga.LowerWithSource(ast, string(src))
			if err != nil {
				return "", false
			}
			h, _, err = hlsl.Compile(m, hlsl.DefaultOptions())
			return h, err == nil
		}()
		if !ok {
			nSkip++
			continue
		}
		p, err := func() (p *Program, err error) {
			defer func() {
				if r := recover(); r != nil {
					t.Errorf("%s: Parse panicked: %v", name, r)
				}
			}()
			return Parse(h)
		}()
		switch e := err.(type) {
		case nil:
			nOK++
			_ = p.Decls()
			_ = p.EntryPoints()
			// execute every compute entry point over zeroed 1 KiB buffers: must not panic, and must
			// classify its outcome with the xrt error types.
			for _, ep := range p.EntryPoints() {
				bufs := xrt.Buffers{}
				for _, r := range p.Resources() {
					if r.HasReg {
						bufs[xrt.Binding{Group: r.Reg.Space, Binding: r.Reg.Index}] = make([]byte, 1024)
					}
				}
				err := func() (err error) {
					defer func() {
						if r := recover(); r != nil {
							t.Errorf("%s/%s: Exec panicked: %v", name, ep.Name, r)
						}
					}()
					return p.Exec(bufs, Opts{Opts: xrt.Opts{EntryPoint: ep.Name, StepLimit: 200000}})
				}()
				switch e := err.(type) {
				case nil:
					execOK++
				case *xrt.Unsupported, *xrt.StepLimit:
					execOther++
					if testing.Verbose() {
						t.Logf("%s/%s: %v", name, ep.Name, e)
					}
				case *xrt.Trap:
					execOther++
					t.Logf("%s/%s: %v", name, ep.Name, e)
				case *xrt.Malformed:
					t.Errorf("%s/%s: Exec Malformed: %v", name, ep.Name, e)
				default:
					t.Errorf("%s/%s: unexpected error type %T: %v", name, ep.Name, err, err)
				}
			}
		case *xrt.Unsupported:
			nUnsup++
			t.Logf("%s: %v", name, e)
		case *xrt.Malformed:
			nMal++
			want, known := corpusKnownMalformed[name]
			if !known || !strings.Contains(e.What, want) {
				t.Errorf("%s: untriaged Malformed: %v", name, e)
			}
		default:
			t.Errorf("%s: unexpected error type %T: %v", name, err, err)
		}
	}
	t.Logf("corpus: %d parsed, %d unsupported, %d malformed (triaged), %d not compiled by naga; entry points executed cleanly %d, stopped (unsupported/trap/step limit) %d", nOK, nUnsup, nMal, nSkip, execOK, execOther)
}
