package hlslx

import (
	"encoding/binary"
	"math"
	"testing"

	"github.com/gogpu/naga"
	"github.com/gogpu/naga/hlsl"

	"verif/internal/xrt"
)

// compileWGSL compiles WGSL to HLSL with naga; mod adjusts the default options.
func compileWGSL(t testing.TB, src string, mod func(o *hlsl.Options)) (string, *hlsl.TranslationInfo) {
	t.Helper()
	ast, err := naga.Parse(src)
	if err != nil {
		t.Fatalf("wgsl parse: %v", err)
	}
	m, err := naga.LowerWithSource(ast, src)
	if err != nil {
		t.Fatalf("wgsl lower: %v", err)
	}
	o := hlsl.DefaultOptions()
	if mod != nil {
		mod(o)
	}
	h, info, err := hlsl.Compile(m, o)
	if err != nil {
		t.Fatalf("hlsl compile: %v", err)
	}
	return h, info
}

func u32s(v ...uint32) []byte {
	b := make([]byte, 4*len(v))
	for i, x := range v {
		binary.LittleEndian.PutUint32(b[4*i:], x)
	}
	return b
}

func i32s(v ...int32) []byte {
	b := make([]byte, 4*len(v))
	for i, x := range v {
		binary.LittleEndian.PutUint32(b[4*i:], uint32(x))
	}
	return b
}

func f32s(v ...float32) []byte {
	b := make([]byte, 4*len(v))
	for i, x := range v {
		binary.LittleEndian.PutUint32(b[4*i:], math.Float32bits(x))
	}
	return b
}

func getU32(b []byte, i int) uint32 { return binary.LittleEndian.Uint32(b[4*i:]) }
func getF32(b []byte, i int) float32 {
	return math.Float32frombits(binary.LittleEndian.Uint32(b[4*i:]))
}

func bind(g, b uint32) xrt.Binding { return xrt.Binding{Group: g, Binding: b} }
