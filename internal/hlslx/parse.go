package hlslx

import (
	"fmt"
	"strconv"
	"strings"

	"verif/internal/xrt"
)

type scope struct {
	id     int
	parent *scope
	names  map[string]*symbol
}

type parser struct {
	toks    []token
	p       int
	prog    *Program
	sc      *scope
	nscopes int
	fn      *funcDecl
	resT    map[string]*Type
	cbNames map[string]int
	loop    int // nesting depth of loops (for break/continue checks)
	sw      int // nesting depth of switches
	civ     *inv
}

type parseErr struct{ err error }

func (p *parser) fail(line int32, f string, a ...any) {
	panic(parseErr{malformed(int(line), f, a...)})
}

func (p *parser) unsup(line int32, f string, a ...any) {
	panic(parseErr{unsupported("line %d: %s", line, fmt.Sprintf(f, a...))})
}

// Parse parses, resolves and type-checks HLSL source text.
func Parse(src string) (prog *Program, err error) {
	defer func() {
		if r := recover(); r != nil {
			prog = nil
			switch v := r.(type) {
			case parseErr:
				err = v.err
			case *xrt.Trap:
				err = &xrt.Malformed{What: "constant expression: " + v.Error()}
			case *xrt.Malformed:
				err = v
			case *xrt.Unsupported:
				err = v
			default:
				err = unsupported("internal parser failure: %v", r)
			}
		}
	}()
	toks, lerr := lex(src)
	if lerr != nil {
		return nil, lerr
	}
	p := &parser{toks: toks, prog: &Program{arrays: map[arrKey]*Type{}}, resT: map[string]*Type{}, cbNames: map[string]int{}}
	p.sc = &scope{id: 0, names: map[string]*symbol{}}
	p.nscopes = 1
	p.parseTop()
	p.finish()
	return p.prog, nil
}

// ---------------------------------------------------------------- token helpers

func (p *parser) peek() *token { return &p.toks[p.p] }
func (p *parser) peekN(n int) *token {
	if p.p+n >= len(p.toks) {
		return &p.toks[len(p.toks)-1]
	}
	return &p.toks[p.p+n]
}
func (p *parser) next() *token {
	t := &p.toks[p.p]
	if t.k != tkEOF {
		p.p++
	}
	return t
}
func (p *parser) isP(s string) bool {
	t := &p.toks[p.p]
	return t.k == tkPunct && t.s == s
}
func (p *parser) isI(s string) bool {
	t := &p.toks[p.p]
	return t.k == tkIdent && t.s == s
}
func (p *parser) accept(s string) bool {
	if p.isP(s) {
		p.p++
		return true
	}
	return false
}
func (p *parser) expect(s string) *token {
	t := p.peek()
	if !(t.k == tkPunct && t.s == s) {
		p.fail(t.line, "expected %q, found %q", s, p.tokText(t))
	}
	p.p++
	return t
}
func (p *parser) tokText(t *token) string {
	if t.k == tkEOF {
		return "<eof>"
	}
	return t.s
}
func (p *parser) expectIdent() *token {
	t := p.peek()
	if t.k != tkIdent {
		p.fail(t.line, "expected identifier, found %q", p.tokText(t))
	}
	p.p++
	return t
}

// ---------------------------------------------------------------- scopes and declarations

func (p *parser) push() *scope {
	s := &scope{id: p.nscopes, parent: p.sc, names: map[string]*symbol{}}
	p.nscopes++
	p.sc = s
	return s
}
func (p *parser) pop() { p.sc = p.sc.parent }

func (p *parser) lookup(name string) *symbol {
	for s := p.sc; s != nil; s = s.parent {
		if sym, ok := s.names[name]; ok {
			return sym
		}
	}
	return nil
}

func (p *parser) parentID(s *scope) int {
	if s.parent == nil {
		return -1
	}
	return s.parent.id
}

func (p *parser) recordDecl(name, kind string, s *scope, line int, t string) {
	p.prog.decls = append(p.prog.decls, Decl{Name: name, Kind: kind, ScopeID: s.id, ParentScopeID: p.parentID(s), Line: line, Type: t})
	if reason, bad := reservedWord(name); bad {
		p.prog.problems = append(p.prog.problems, fmt.Sprintf("line %d: %s %q is %s", line, kind, name, reason))
	}
}

// declare enters sym into the current scope; a second declaration of one spelling in one scope is
// recorded as a problem (the later one wins for resolution, as nothing better can be done).
func (p *parser) declare(sym *symbol, kind string) {
	sym.scope = p.sc.id
	tn := ""
	if sym.t != nil {
		tn = sym.t.name
	}
	p.recordDecl(sym.name, kind, p.sc, sym.line, tn)
	if old, ok := p.sc.names[sym.name]; ok {
		p.prog.problems = append(p.prog.problems, fmt.Sprintf("line %d: %s %q redeclared in scope %d (previous declaration at line %d)", sym.line, kind, sym.name, p.sc.id, old.line))
	}
	p.sc.names[sym.name] = sym
}

func (p *parser) arrayOf(elem *Type, n int) *Type {
	k := arrKey{elem, n}
	if t, ok := p.prog.arrays[k]; ok {
		return t
	}
	t := &Type{k: kArray, elem: elem, n: n, slots: elem.slots * n}
	// spell as elem-base + dims in declaration order: float[5][10] is 5 arrays of 10.
	base, dims := elem, ""
	for base.k == kArray {
		dims += "[" + strconv.Itoa(base.n) + "]"
		base = base.elem
	}
	t.name = base.name + "[" + strconv.Itoa(n) + "]" + dims
	p.prog.arrays[k] = t
	return t
}

// ---------------------------------------------------------------- types

var qualifiers = map[string]bool{
	"static": true, "const": true, "groupshared": true, "extern": true, "uniform": true, "volatile": true,
	"precise": true, "row_major": true, "column_major": true, "inline": true, "nointerpolation": true,
	"linear": true, "centroid": true, "noperspective": true, "sample": true, "shared": true,
	"unorm": true, "snorm": true, "globallycoherent": true, "in": true, "out": true, "inout": true,
	"export": true,
}

type quals struct {
	static, konst, shared, rowMajor, colMajor, in, out, inout, uniform, extern bool
	any                                                                        bool
}

func (p *parser) parseQuals() quals {
	var q quals
	for {
		t := p.peek()
		if t.k != tkIdent || !qualifiers[t.s] {
			return q
		}
		// "sample", "linear", "point" etc. can only be qualifiers when followed by more declaration.
		switch t.s {
		case "static":
			q.static = true
		case "const":
			q.konst = true
		case "groupshared":
			q.shared = true
		case "row_major":
			q.rowMajor = true
		case "column_major":
			q.colMajor = true
		case "in":
			q.in = true
		case "out":
			q.out = true
		case "inout":
			q.inout = true
		case "uniform":
			q.uniform = true
		case "extern":
			q.extern = true
		}
		q.any = true
		p.p++
	}
}

// isTypeName reports whether the identifier token names a type in the current scope.
func (p *parser) isTypeName(t *token) bool {
	if t.k != tkIdent {
		return false
	}
	if sym := p.lookup(t.s); sym != nil {
		return sym.kind == symType
	}
	if _, ok := builtinTypeNames[t.s]; ok {
		return true
	}
	if _, ok := resourceTypeNames[t.s]; ok {
		return true
	}
	switch t.s {
	case "void", "vector", "matrix", "unsigned", "struct", "string":
		return true
	}
	return false
}

// parseType parses a type specifier (without declarator array dimensions).
func (p *parser) parseType() *Type {
	t := p.expectIdent()
	if sym := p.lookup(t.s); sym != nil {
		if sym.kind != symType {
			p.fail(t.line, "%q is not a type", t.s)
		}
		return sym.t
	}
	if bt, ok := builtinTypeNames[t.s]; ok {
		return bt
	}
	if tmpl, ok := resourceTypeNames[t.s]; ok {
		targ := ""
		if tmpl && p.isP("<") {
			targ = p.skipAngles()
		}
		key := t.s + targ
		if rt, ok := p.resT[key]; ok {
			return rt
		}
		rt := &Type{k: kResource, res: t.s, targ: targ, slots: 1, name: key}
		p.resT[key] = rt
		return rt
	}
	switch t.s {
	case "void":
		return tVoid
	case "unsigned":
		if p.isI("int") {
			p.p++
			return tUint
		}
		p.fail(t.line, "unsigned must be followed by int")
	case "vector", "matrix":
		nm := t.s
		if p.isP("<") {
			nm += p.skipAngles()
		}
		return opaqueType(nm)
	case "string":
		return opaqueType("string")
	case "struct":
		p.unsup(t.line, "inline struct type specifier")
	}
	p.fail(t.line, "unknown type %q", t.s)
	return nil
}

// skipAngles consumes a balanced <...> group and returns its text.
func (p *parser) skipAngles() string {
	var sb strings.Builder
	depth := 0
	for {
		t := p.next()
		if t.k == tkEOF {
			p.fail(t.line, "unterminated template argument list")
		}
		sb.WriteString(t.s)
		if t.k == tkPunct {
			switch t.s {
			case "<":
				depth++
			case ">":
				depth--
			case ">>":
				depth -= 2
			case ";", "{", "}":
				p.fail(t.line, "unterminated template argument list")
			}
		}
		if depth <= 0 {
			return sb.String()
		}
		if t.k == tkPunct && t.s == "," {
			sb.WriteByte(' ')
		}
	}
}

// parseDims parses declarator array dimensions and wraps t (first dimension outermost).
// allowUnsized permits a leading [] whose length is returned as -1 in unsized.
func (p *parser) parseDims(t *Type, allowUnsized bool) (rt *Type, unsized bool) {
	var dims []int
	for p.isP("[") {
		lb := p.next()
		if p.isP("]") {
			if !allowUnsized || len(dims) != 0 {
				p.unsup(lb.line, "unsized array")
			}
			p.p++
			dims = append(dims, -1)
			unsized = true
			continue
		}
		e := p.parseAssign()
		p.expect("]")
		if e.op == eOpaque {
			p.unsup(lb.line, "array size: %s", e.name)
		}
		if !e.konst || !e.t.isScalar() || !e.t.isInt() {
			p.fail(lb.line, "array size is not an integer constant")
		}
		v := p.constEval(e)
		n := int(int32(v[0]))
		if e.t.sk == skUint {
			n = int(uint32(v[0]))
		}
		if n <= 0 || n > 1<<24 {
			p.fail(lb.line, "array size %d out of range", n)
		}
		dims = append(dims, n)
	}
	if len(dims) == 0 {
		return t, false
	}
	if t.k == kVoid {
		p.fail(p.peek().line, "array of void")
	}
	for i := len(dims) - 1; i >= 0; i-- {
		if dims[i] < 0 {
			return t, true // caller completes with the initialiser length
		}
		t = p.arrayOf(t, dims[i])
	}
	return t, false
}

// ---------------------------------------------------------------- top level

func (p *parser) parseTop() {
	for {
		t := p.peek()
		if t.k == tkEOF {
			return
		}
		if p.accept(";") {
			continue
		}
		if t.k != tkIdent && !p.isP("[") {
			p.fail(t.line, "unexpected %q at top level", t.s)
		}
		switch {
		case p.isI("struct"):
			p.parseStruct(false)
			p.expect(";")
		case p.isI("typedef"):
			p.parseTypedef()
		case p.isI("cbuffer"), p.isI("tbuffer"):
			p.parseCBuffer()
		case p.isI("namespace"), p.isI("class"), p.isI("interface"), p.isI("template"), p.isI("using"), p.isI("enum"):
			p.unsup(t.line, "%s declaration", t.s)
		default:
			p.parseGlobalDecl()
		}
	}
}

type attr struct {
	name string
	args []*expr
	line int32
}

func (p *parser) parseAttrs() []attr {
	var as []attr
	for p.isP("[") {
		lb := p.next()
		name := p.expectIdent()
		a := attr{name: name.s, line: lb.line}
		if p.accept("(") {
			for !p.isP(")") {
				if p.peek().k == tkString {
					p.p++
					a.args = append(a.args, nil)
				} else {
					a.args = append(a.args, p.parseAssign())
				}
				if !p.accept(",") {
					break
				}
			}
			p.expect(")")
		}
		p.expect("]")
		as = append(as, a)
	}
	return as
}

func (p *parser) parseStruct(isTypedef bool) *Type {
	kw := p.next() // struct
	name := ""
	if p.peek().k == tkIdent {
		name = p.next().s
	}
	if !isTypedef && name == "" {
		p.fail(kw.line, "anonymous struct")
	}
	if p.isP(":") {
		p.unsup(kw.line, "struct inheritance")
	}
	si := &structInfo{name: name}
	st := &Type{k: kStruct, st: si, name: name}
	if name != "" {
		p.declare(&symbol{name: name, kind: symType, t: st, line: int(kw.line)}, "struct")
	}
	p.expect("{")
	sc := p.push()
	si.scope = sc.id
	seen := map[string]int{}
	off := 0
	for !p.isP("}") {
		if p.peek().k == tkEOF {
			p.fail(kw.line, "unterminated struct")
		}
		q := p.parseQuals()
		tt := p.peek()
		ft := p.parseType()
		p.noDimsAfterType(tt, ft)
		for {
			nm := p.expectIdent()
			if p.isP("(") {
				p.unsup(nm.line, "struct member function")
			}
			t, _ := p.parseDims(ft, false)
			if t.k == kVoid {
				p.fail(nm.line, "void member")
			}
			f := field{name: nm.s, t: t, off: off, rowMajor: q.rowMajor, colMajor: q.colMajor, pack: -1, line: int(nm.line)}
			for p.accept(":") {
				if p.isI("packoffset") {
					f.pack = p.parsePackOffset()
				} else {
					f.semantic = p.expectIdent().s
				}
			}
			if p.isP("=") {
				p.unsup(nm.line, "struct member default value")
			}
			p.recordDecl(f.name, "member", sc, f.line, t.name)
			if prev, dup := seen[f.name]; dup {
				p.prog.problems = append(p.prog.problems, fmt.Sprintf("line %d: member %q redeclared in struct %q (previous at line %d)", f.line, f.name, name, prev))
			}
			seen[f.name] = f.line
			off += t.slots
			si.fields = append(si.fields, f)
			if !p.accept(",") {
				break
			}
		}
		p.expect(";")
	}
	p.pop()
	p.expect("}")
	st.slots = off
	if len(si.fields) == 0 {
		p.unsup(kw.line, "empty struct")
	}
	return st
}

func (p *parser) parsePackOffset() int {
	kw := p.next()
	p.expect("(")
	c := p.expectIdent()
	if len(c.s) < 2 || c.s[0] != 'c' {
		p.fail(kw.line, "bad packoffset register %q", c.s)
	}
	n, err := strconv.Atoi(c.s[1:])
	if err != nil || n < 0 || n > 4095 {
		p.fail(kw.line, "bad packoffset register %q", c.s)
	}
	off := n * 16
	if p.accept(".") {
		comp := p.expectIdent()
		i := strings.Index("xyzw", comp.s)
		if len(comp.s) != 1 || i < 0 {
			p.fail(kw.line, "bad packoffset component %q", comp.s)
		}
		off += 4 * i
	}
	p.expect(")")
	return off
}

func (p *parser) parseTypedef() {
	kw := p.next()
	q := p.parseQuals()
	_ = q
	var base *Type
	if p.isI("struct") {
		base = p.parseStruct(true)
	} else {
		base = p.parseType()
	}
	for {
		nm := p.expectIdent()
		t, _ := p.parseDims(base, false)
		if base.k == kStruct && base.name == "" && t == base {
			base.name = nm.s
			base.st.name = nm.s
		}
		p.declare(&symbol{name: nm.s, kind: symType, t: t, line: int(nm.line)}, "typedef")
		if !p.accept(",") {
			break
		}
	}
	_ = kw
	p.expect(";")
}

func (p *parser) parseRegister() (Reg, bool) {
	kw := p.next() // register
	p.expect("(")
	var r Reg
	first := p.expectIdent()
	parseReg := func(t *token) {
		if len(t.s) < 2 || strings.IndexByte("tubs", t.s[0]) < 0 {
			p.fail(t.line, "bad register %q", t.s)
		}
		n, err := strconv.ParseUint(t.s[1:], 10, 32)
		if err != nil {
			p.fail(t.line, "bad register %q", t.s)
		}
		r.Class = t.s[0]
		r.Index = uint32(n)
	}
	// optional shader profile: register(ps_5_0, t0)
	if len(first.s) > 2 && strings.Contains(first.s, "_") {
		p.expect(",")
		first = p.expectIdent()
	}
	parseReg(first)
	if p.isP("[") {
		p.unsup(kw.line, "register subcomponent")
	}
	if p.accept(",") {
		sp := p.expectIdent()
		if !strings.HasPrefix(sp.s, "space") {
			p.fail(sp.line, "expected spaceN, found %q", sp.s)
		}
		n, err := strconv.ParseUint(sp.s[5:], 10, 32)
		if err != nil {
			p.fail(sp.line, "bad register space %q", sp.s)
		}
		r.Space = uint32(n)
	}
	p.expect(")")
	return r, true
}

func (p *parser) parseCBuffer() {
	kw := p.next()
	if kw.s == "tbuffer" {
		p.unsup(kw.line, "tbuffer")
	}
	nm := p.expectIdent()
	cb := &cbufferDecl{name: nm.s, line: int(nm.line), index: len(p.prog.cbuffers)}
	p.recordDecl(nm.s, "cbuffer", p.sc, int(nm.line), "")
	if prev, dup := p.cbNames[nm.s]; dup {
		p.prog.problems = append(p.prog.problems, fmt.Sprintf("line %d: cbuffer %q redeclared (previous at line %d)", nm.line, nm.s, prev))
	}
	p.cbNames[nm.s] = int(nm.line)
	for p.accept(":") {
		if !p.isI("register") {
			p.fail(p.peek().line, "expected register")
		}
		cb.reg, cb.hasReg = p.parseRegister()
		if cb.reg.Class != 'b' {
			p.fail(nm.line, "cbuffer %q bound to a non-b register", nm.s)
		}
	}
	p.expect("{")
	var fields []field
	for !p.isP("}") {
		if p.peek().k == tkEOF {
			p.fail(kw.line, "unterminated cbuffer")
		}
		q := p.parseQuals()
		if q.static || q.shared {
			p.unsup(nm.line, "static/groupshared declaration inside cbuffer")
		}
		ftt := p.peek()
		ft := p.parseType()
		p.noDimsAfterType(ftt, ft)
		for {
			mn := p.expectIdent()
			t, _ := p.parseDims(ft, false)
			f := field{name: mn.s, t: t, rowMajor: q.rowMajor, colMajor: q.colMajor, pack: -1, line: int(mn.line)}
			for p.accept(":") {
				if p.isI("packoffset") {
					f.pack = p.parsePackOffset()
				} else if p.isI("register") {
					p.unsup(mn.line, "register on cbuffer member")
				} else {
					f.semantic = p.expectIdent().s
				}
			}
			if p.isP("=") {
				p.unsup(mn.line, "cbuffer member default value")
			}
			if t.k == kResource || t.k == kVoid {
				p.fail(mn.line, "cbuffer member %q of type %s", mn.s, t.name)
			}
			fields = append(fields, f)
			sym := &symbol{name: mn.s, kind: symVar, t: t, store: stCBuffer, isConst: true, cb: cb, line: int(mn.line)}
			p.declare(sym, "global")
			cb.members = append(cb.members, sym)
			if !p.accept(",") {
				break
			}
		}
		p.expect(";")
	}
	p.expect("}")
	p.accept(";")
	cb.layout = layoutFields(fields, 0)
	for i, s := range cb.members {
		s.cbn = cb.layout[i]
	}
	p.prog.cbuffers = append(p.prog.cbuffers, cb)
	var sb strings.Builder
	for i, f := range fields {
		if i > 0 {
			sb.WriteString(" ")
		}
		if f.rowMajor {
			sb.WriteString("row_major ")
		}
		if f.colMajor {
			sb.WriteString("column_major ")
		}
		sb.WriteString(declSpelling(f.t, f.name) + ";")
	}
	p.prog.resList = append(p.prog.resList, Resource{Name: cb.name, Kind: "cbuffer", Reg: cb.reg, HasReg: cb.hasReg, Type: sb.String(), Line: cb.line})
}

// noDimsAfterType rejects "float[2] name": in HLSL array dimensions belong to the declarator
// ("float name[2]"); only casts and typedef'd names may carry them on the type.
func (p *parser) noDimsAfterType(tt *token, t *Type) {
	if p.isP("[") {
		p.fail(tt.line, "array dimension after type name %q (HLSL puts dimensions after the declared name)", t.name)
	}
}

// declSpelling spells "T name[dims]".
func declSpelling(t *Type, name string) string {
	dims := ""
	for t.k == kArray {
		dims += "[" + strconv.Itoa(t.n) + "]"
		t = t.elem
	}
	return t.name + " " + name + dims
}

func (p *parser) parseGlobalDecl() {
	attrs := p.parseAttrs()
	q := p.parseQuals()
	tt := p.peek()
	t := p.parseType()
	p.noDimsAfterType(tt, t)
	nm := p.expectIdent()
	if nm.s == "operator" {
		p.unsup(nm.line, "operator overload")
	}
	if p.isP("(") {
		p.parseFunction(attrs, q, t, nm)
		return
	}
	if len(attrs) > 0 {
		p.fail(nm.line, "attribute on a variable declaration")
	}
	for {
		p.parseGlobalVar(q, t, nm)
		if !p.accept(",") {
			break
		}
		nm = p.expectIdent()
	}
	p.expect(";")
}

func (p *parser) parseGlobalVar(q quals, base *Type, nm *token) {
	t, unsized := p.parseDims(base, base.k == kResource)
	line := int(nm.line)
	if t.k == kVoid {
		p.fail(nm.line, "void variable %q", nm.s)
	}
	var reg Reg
	hasReg := false
	semantic := ""
	for p.accept(":") {
		if p.isI("register") {
			reg, hasReg = p.parseRegister()
		} else if p.isI("packoffset") {
			p.unsup(nm.line, "packoffset on global")
		} else {
			semantic = p.expectIdent().s
		}
	}
	_ = semantic
	rb := t
	count := 0
	if rb.k == kArray && arrayBase(rb).k == kResource {
		count = rb.n
		rb = arrayBase(rb)
	}
	if rb.k == kResource {
		if unsized {
			count = -1
		}
		if q.static || q.shared || p.isP("=") {
			// e.g. "static const SamplerState s = heap[i];": legal, outside the subset
			if p.accept("=") {
				p.skipInitialiser()
			}
			p.declare(&symbol{name: nm.s, kind: symVar, t: opaqueType(t.name), store: stNone, isConst: true, line: line}, "global")
			return
		}
		rd := &resourceDecl{name: nm.s, t: t, reg: reg, hasReg: hasReg, index: len(p.prog.resources), line: line, count: count}
		if hasReg {
			want := resourceRegClass(rb.res)
			if want != 0 && want != reg.Class {
				p.fail(nm.line, "%s %q bound to register class %q", rb.res, nm.s, string(reg.Class))
			}
		}
		p.prog.resources = append(p.prog.resources, rd)
		st := t
		if unsized {
			st = opaqueType(rb.name + "[]")
		}
		p.declare(&symbol{name: nm.s, kind: symVar, t: st, store: stResource, isConst: true, res: rd, line: line}, "global")
		p.prog.resList = append(p.prog.resList, Resource{Name: nm.s, Kind: rb.res, Reg: reg, HasReg: hasReg, Type: rb.name, Count: count, Line: line})
		return
	}
	if unsized {
		p.unsup(nm.line, "unsized global array")
	}
	sym := &symbol{name: nm.s, kind: symVar, t: t, isConst: q.konst, line: line}
	switch {
	case q.shared:
		if q.static {
			// "static groupshared" is accepted by compilers; the static is redundant.
		}
		sym.store = stShared
		sym.off = p.prog.sharedSize
		p.prog.sharedSize += t.slots
		if p.isP("=") {
			p.fail(nm.line, "groupshared variable %q with initialiser", nm.s)
		}
	case q.static:
		sym.store = stStatic
		sym.off = p.prog.staticSize
		p.prog.staticSize += t.slots
	default:
		// A non-static global is a member of the implicit $Globals constant buffer.
		p.declare(&symbol{name: nm.s, kind: symVar, t: opaqueType("$Globals member " + nm.s), store: stNone, isConst: true, line: line}, "global")
		if p.accept("=") {
			p.skipInitialiser()
		}
		return
	}
	if t.k == kOpaque || hasOpaque(t) {
		sym.t = opaqueType(t.name)
		sym.store = stNone
	}
	if p.accept("=") {
		sym.init = p.parseInitialiser(t, nm.line)
	} else if q.konst && sym.store == stStatic {
		p.unsup(nm.line, "static const %q without initialiser", nm.s)
	}
	p.declare(sym, "global")
	if sym.store != stNone {
		p.prog.globals = append(p.prog.globals, sym)
	}
}

func arrayBase(t *Type) *Type {
	for t.k == kArray {
		t = t.elem
	}
	return t
}

func hasOpaque(t *Type) bool {
	switch t.k {
	case kOpaque, kResource:
		return true
	case kArray:
		return hasOpaque(t.elem)
	case kStruct:
		for i := range t.st.fields {
			if hasOpaque(t.st.fields[i].t) {
				return true
			}
		}
	}
	return false
}

func resourceRegClass(res string) byte {
	switch {
	case res == "ConstantBuffer":
		return 'b'
	case strings.HasPrefix(res, "RW"), strings.HasPrefix(res, "RasterizerOrdered"), res == "AppendStructuredBuffer", res == "ConsumeStructuredBuffer", strings.HasPrefix(res, "Feedback"):
		return 'u'
	case res == "SamplerState", res == "SamplerComparisonState", res == "sampler":
		return 's'
	case res == "ByteAddressBuffer", res == "StructuredBuffer", res == "Buffer", strings.HasPrefix(res, "Texture"), res == "RaytracingAccelerationStructure":
		return 't'
	}
	return 0
}

func (p *parser) skipInitialiser() {
	depth := 0
	for {
		t := p.peek()
		if t.k == tkEOF {
			p.fail(t.line, "unterminated initialiser")
		}
		if t.k == tkPunct {
			switch t.s {
			case "(", "{", "[":
				depth++
			case ")", "}", "]":
				depth--
			case ";", ",":
				if depth == 0 {
					return
				}
			}
		}
		p.p++
	}
}

// parseInitialiser parses "= expr" or "= { list }" for a variable of type t.
func (p *parser) parseInitialiser(t *Type, line int32) *expr {
	if p.isP("{") {
		var args []*expr
		p.parseInitList(&args)
		return p.mkInitList(t, args, line)
	}
	e := p.parseAssign()
	return p.convImplicit(e, t, "initialiser")
}

func (p *parser) parseInitList(out *[]*expr) {
	p.expect("{")
	for !p.isP("}") {
		if p.isP("{") {
			p.parseInitList(out)
		} else {
			*out = append(*out, p.parseAssign())
		}
		if !p.accept(",") {
			break
		}
	}
	p.expect("}")
}

// ---------------------------------------------------------------- functions

func (p *parser) parseFunction(attrs []attr, q quals, ret *Type, nm *token) {
	if q.shared || q.rowMajor && ret.k != kNum {
		p.fail(nm.line, "bad qualifier on function %q", nm.s)
	}
	fd := &funcDecl{name: nm.s, ret: ret, line: int(nm.line)}
	if ret.k == kArray {
		// legal only through a typedef name, which is how we got here.
	}
	for _, a := range attrs {
		if a.name == "numthreads" {
			if len(a.args) != 3 {
				p.fail(a.line, "numthreads needs three arguments")
			}
			for i, e := range a.args {
				if e == nil || e.op == eOpaque || !e.konst || !e.t.isScalar() || !e.t.isInt() {
					p.fail(a.line, "numthreads argument %d is not an integer constant", i)
				}
				v := p.constEval(e)
				if v[0] == 0 || v[0] > 1024 {
					p.fail(a.line, "numthreads argument %d out of range", i)
				}
				fd.numthreads[i] = uint32(v[0])
			}
			fd.isEntry = true
		}
	}
	p.expect("(")
	p.push()
	p.fn = fd
	savedLoop, savedSw := p.loop, p.sw
	p.loop, p.sw = 0, 0
	if !(p.isI("void") && p.peekN(1).k == tkPunct && p.peekN(1).s == ")") {
		for !p.isP(")") {
			pq := p.parseQuals()
			ptt := p.peek()
			pt := p.parseType()
			p.noDimsAfterType(ptt, pt)
			pn := p.expectIdent()
			t, _ := p.parseDims(pt, false)
			if t.k == kVoid {
				p.fail(pn.line, "void parameter")
			}
			pr := param{}
			switch {
			case pq.inout || (pq.in && pq.out):
				pr.dir = dirInOut
			case pq.out:
				pr.dir = dirOut
			}
			for p.accept(":") {
				pr.semantic = p.expectIdent().s
			}
			if p.isP("=") {
				p.unsup(pn.line, "default parameter value")
			}
			st := t
			if hasOpaque(t) && t.k != kResource {
				st = opaqueType(t.name)
			}
			if t.k == kResource && pr.dir != dirIn {
				p.unsup(pn.line, "out resource parameter")
			}
			pr.sym = &symbol{name: pn.s, kind: symVar, t: st, store: stLocal, off: fd.frame, isConst: pq.konst, line: int(pn.line)}
			fd.frame += st.slots
			if pr.dir != dirIn {
				fd.hasOut = true
			}
			p.declare(pr.sym, "param")
			fd.params = append(fd.params, pr)
			if !p.accept(",") {
				break
			}
		}
	} else {
		p.p++
	}
	p.expect(")")
	for p.accept(":") {
		fd.retSemantic = p.expectIdent().s
	}
	// The function is visible inside its own body (recursion is rejected at run time).
	p.declareFunc(fd)
	if p.isP(";") {
		p.unsup(nm.line, "function prototype without body")
	}
	p.expect("{")
	fd.body = p.parseStmtsUntilBrace()
	p.pop()
	p.fn = nil
	p.loop, p.sw = savedLoop, savedSw
	p.prog.funcs = append(p.prog.funcs, fd)
	if fd.isEntry {
		p.prog.entries = append(p.prog.entries, fd)
	}
}

func (p *parser) declareFunc(fd *funcDecl) {
	g := p.sc
	for g.parent != nil {
		g = g.parent
	}
	sig := fd.name + "("
	for i, pr := range fd.params {
		if i > 0 {
			sig += ","
		}
		sig += pr.sym.t.name
	}
	sig += ")"
	p.recordDecl(fd.name, "function", g, fd.line, sig)
	old, ok := g.names[fd.name]
	if ok && old.kind != symFunc {
		p.prog.problems = append(p.prog.problems, fmt.Sprintf("line %d: function %q redeclares %q of line %d", fd.line, fd.name, old.name, old.line))
		ok = false
	}
	if ok {
		for _, o := range old.funcs {
			if sameParams(o, fd) {
				p.prog.problems = append(p.prog.problems, fmt.Sprintf("line %d: function %s redefined (previous at line %d)", fd.line, sig, o.line))
			}
		}
		old.funcs = append(old.funcs, fd)
	} else {
		g.names[fd.name] = &symbol{name: fd.name, kind: symFunc, funcs: []*funcDecl{fd}, line: fd.line, scope: g.id}
	}
	if in := intrinsics[fd.name]; in != nil {
		if intrinsicAccepts(in, fd) {
			p.prog.problems = append(p.prog.problems, fmt.Sprintf("line %d: function %s coincides with the intrinsic %s", fd.line, sig, fd.name))
		}
	} else if unsupportedIntrinsics[fd.name] {
		p.prog.problems = append(p.prog.problems, fmt.Sprintf("line %d: function %s has the name of an intrinsic", fd.line, sig))
	}
}

func sameParams(a, b *funcDecl) bool {
	if len(a.params) != len(b.params) {
		return false
	}
	for i := range a.params {
		if a.params[i].sym.t != b.params[i].sym.t {
			return false
		}
	}
	return true
}

// ---------------------------------------------------------------- statements

func (p *parser) parseStmtsUntilBrace() []*stmt {
	var out []*stmt
	for !p.isP("}") {
		if p.peek().k == tkEOF {
			p.fail(p.peek().line, "unexpected end of file in block")
		}
		p.parseStmt(&out)
	}
	p.expect("}")
	return out
}

func (p *parser) parseBlockOrStmt() []*stmt {
	if p.accept("{") {
		p.push()
		b := p.parseStmtsUntilBrace()
		p.pop()
		return b
	}
	// a single statement still gets its own scope (a declaration there is legal but useless)
	p.push()
	var out []*stmt
	p.parseStmt(&out)
	p.pop()
	return out
}

func (p *parser) isDeclStart() bool {
	t := p.peek()
	if t.k != tkIdent {
		return false
	}
	if qualifiers[t.s] {
		// "sample", "linear", ... could in principle be identifiers; treat as qualifier only when
		// followed by an identifier.
		return p.peekN(1).k == tkIdent
	}
	if !p.isTypeName(t) {
		return false
	}
	n := p.peekN(1)
	if n.k == tkIdent {
		return true
	}
	if n.k == tkPunct && n.s == "<" {
		_, ok := resourceTypeNames[t.s]
		return ok || t.s == "vector" || t.s == "matrix"
	}
	return false
}

func (p *parser) condition(what string) *expr {
	p.expect("(")
	e := p.parseExpr()
	p.expect(")")
	if e.t.isOpaque() || e.op == eOpaque {
		return e
	}
	if !e.t.isScalar() {
		p.fail(e.line, "%s condition of type %s is not a scalar", what, e.t.name)
	}
	return p.convImplicit(e, tBool, what+" condition")
}

func (p *parser) parseStmt(out *[]*stmt) {
	t := p.peek()
	line := t.line
	if t.k == tkPunct {
		switch t.s {
		case "{":
			p.p++
			p.push()
			b := p.parseStmtsUntilBrace()
			p.pop()
			*out = append(*out, &stmt{op: sBlock, body: b, line: line})
			return
		case ";":
			p.p++
			return
		case "[":
			p.parseAttrs() // [unroll], [loop], [branch], [flatten], [forcecase], [call]...: no semantic effect
			if pt := p.peek(); !(pt.k == tkIdent && (pt.s == "if" || pt.s == "for" || pt.s == "while" || pt.s == "do" || pt.s == "switch")) {
				p.fail(pt.line, "attribute must precede if/for/while/do/switch")
			}
			p.parseStmt(out)
			return
		}
	}
	if t.k == tkIdent {
		switch t.s {
		case "if":
			p.p++
			s := &stmt{op: sIf, line: line}
			s.e = p.condition("if")
			s.body = p.parseBlockOrStmt()
			if p.isI("else") {
				p.p++
				s.els = p.parseBlockOrStmt()
			}
			*out = append(*out, s)
			return
		case "while":
			p.p++
			s := &stmt{op: sWhile, line: line}
			s.e = p.condition("while")
			p.loop++
			s.body = p.parseBlockOrStmt()
			p.loop--
			*out = append(*out, s)
			return
		case "do":
			p.p++
			s := &stmt{op: sDoWhile, line: line}
			p.loop++
			s.body = p.parseBlockOrStmt()
			p.loop--
			if !p.isI("while") {
				p.fail(p.peek().line, "expected while after do body")
			}
			p.p++
			s.e = p.condition("do-while")
			p.expect(";")
			*out = append(*out, s)
			return
		case "for":
			p.p++
			s := &stmt{op: sFor, line: line}
			p.expect("(")
			p.push()
			if !p.accept(";") {
				if p.isDeclStart() {
					p.parseLocalDecl(&s.init)
				} else {
					e := p.parseExpr()
					s.init = append(s.init, &stmt{op: sExpr, e: e, line: line})
					p.expect(";")
				}
			}
			if !p.isP(";") {
				e := p.parseExpr()
				if !(e.t.isOpaque() || e.op == eOpaque) {
					if !e.t.isScalar() {
						p.fail(e.line, "for condition is not a scalar")
					}
					e = p.convImplicit(e, tBool, "for condition")
				}
				s.e = e
			}
			p.expect(";")
			if !p.isP(")") {
				s.post = p.parseExpr()
			}
			p.expect(")")
			p.loop++
			s.body = p.parseBlockOrStmt()
			p.loop--
			p.pop()
			*out = append(*out, s)
			return
		case "switch":
			p.p++
			*out = append(*out, p.parseSwitch(line))
			return
		case "break":
			p.p++
			p.expect(";")
			if p.loop == 0 && p.sw == 0 {
				p.fail(line, "break outside loop or switch")
			}
			*out = append(*out, &stmt{op: sBreak, line: line})
			return
		case "continue":
			p.p++
			p.expect(";")
			if p.loop == 0 {
				p.fail(line, "continue outside loop")
			}
			*out = append(*out, &stmt{op: sContinue, line: line})
			return
		case "discard":
			p.p++
			p.expect(";")
			*out = append(*out, &stmt{op: sDiscard, line: line})
			return
		case "return":
			p.p++
			s := &stmt{op: sReturn, line: line}
			if !p.isP(";") {
				e := p.parseExpr()
				if p.fn.ret.k == kVoid {
					p.fail(line, "return with a value in void function %q", p.fn.name)
				}
				s.e = p.convImplicit(e, p.fn.ret, "return value")
			} else if p.fn.ret.k != kVoid {
				p.fail(line, "return without a value in function %q", p.fn.name)
			}
			p.expect(";")
			*out = append(*out, s)
			return
		case "else", "case", "default":
			p.fail(line, "unexpected %q", t.s)
		case "struct", "typedef", "cbuffer", "class", "namespace":
			p.unsup(line, "local %s declaration", t.s)
		}
		if p.isDeclStart() {
			p.parseLocalDecl(out)
			return
		}
	}
	e := p.parseExpr()
	p.expect(";")
	*out = append(*out, &stmt{op: sExpr, e: e, line: line})
}

func (p *parser) parseLocalDecl(out *[]*stmt) {
	q := p.parseQuals()
	tt := p.peek()
	base := p.parseType()
	if q.static || q.shared || q.extern || q.uniform {
		p.unsup(tt.line, "static/groupshared/extern local variable")
	}
	p.noDimsAfterType(tt, base)
	for {
		nm := p.expectIdent()
		t, unsized := p.parseDims(base, true)
		if t.k == kVoid {
			p.fail(nm.line, "void variable %q", nm.s)
		}
		for p.accept(":") {
			p.expectIdent() // semantics on locals are ignored by compilers
		}
		s := &stmt{op: sDecl, line: nm.line}
		st := t
		if unsized {
			if !p.isP("=") {
				p.fail(nm.line, "unsized array %q without initialiser", nm.s)
			}
			p.p++
			var args []*expr
			if !p.isP("{") {
				p.fail(nm.line, "unsized array %q needs an initialiser list", nm.s)
			}
			p.parseInitList(&args)
			total := 0
			for _, a := range args {
				if a.t.isOpaque() || a.op == eOpaque {
					p.unsup(nm.line, "unsized array initialiser: %s", a.name)
				}
				total += a.t.slots
			}
			if t.slots == 0 || total%t.slots != 0 || total == 0 {
				p.fail(nm.line, "initialiser of %q does not fill whole elements", nm.s)
			}
			t = p.arrayOf(t, total/t.slots)
			st = t
			s.e = p.mkInitList(t, args, nm.line)
		} else {
			if hasOpaque(t) && t.k != kResource {
				st = opaqueType(t.name)
			}
			if p.accept("=") {
				s.e = p.parseInitialiser(st, nm.line)
			} else if q.konst {
				p.unsup(nm.line, "const %q without initialiser", nm.s)
			}
		}
		sym := &symbol{name: nm.s, kind: symVar, t: st, store: stLocal, off: p.fn.frame, isConst: q.konst, line: int(nm.line)}
		p.fn.frame += st.slots
		p.declare(sym, "local")
		s.sym = sym
		*out = append(*out, s)
		if !p.accept(",") {
			break
		}
	}
	p.expect(";")
}

func (p *parser) parseSwitch(line int32) *stmt {
	s := &stmt{op: sSwitch, line: line}
	p.expect("(")
	sel := p.parseExpr()
	p.expect(")")
	opaque := sel.t.isOpaque() || sel.op == eOpaque
	if !opaque {
		if !sel.t.isScalar() || sel.t.sk == skFloat {
			p.fail(line, "switch selector of type %s", sel.t.name)
		}
		if sel.t.sk == skBool {
			sel = p.convImplicit(sel, tInt, "switch selector")
		}
	}
	s.e = sel
	p.expect("{")
	p.push()
	p.sw++
	seen := map[uint32]bool{}
	hasDefault := false
	for !p.isP("}") {
		var c swCase
		// one or more labels
		nlabels := 0
		for {
			if p.isI("case") {
				cl := p.next()
				e := p.parseTernary()
				p.expect(":")
				if opaque {
					nlabels++
					continue
				}
				if e.op == eOpaque || !e.konst || !e.t.isScalar() || e.t.sk == skFloat {
					p.fail(cl.line, "case label is not an integer constant")
				}
				e = p.convImplicit(e, sel.t, "case label")
				v := uint32(p.constEval(e)[0])
				if seen[v] {
					p.fail(cl.line, "duplicate case value %d", int32(v))
				}
				seen[v] = true
				c.vals = append(c.vals, v)
				nlabels++
			} else if p.isI("default") {
				dl := p.next()
				p.expect(":")
				if hasDefault {
					p.fail(dl.line, "duplicate default label")
				}
				hasDefault = true
				c.deflt = true
				nlabels++
			} else {
				break
			}
		}
		if nlabels == 0 {
			p.fail(p.peek().line, "expected case or default, found %q", p.tokText(p.peek()))
		}
		for !p.isI("case") && !p.isI("default") && !p.isP("}") {
			if p.peek().k == tkEOF {
				p.fail(line, "unterminated switch")
			}
			p.parseStmt(&c.body)
		}
		s.cases = append(s.cases, c)
	}
	p.sw--
	p.pop()
	p.expect("}")
	return s
}

// finish runs whole-program checks after parsing.
func (p *parser) finish() {
	for _, f := range p.prog.funcs {
		if f.isEntry && f.ret.k != kVoid {
			p.fail(int32(f.line), "compute entry point %q returns a value", f.name)
		}
	}
}
