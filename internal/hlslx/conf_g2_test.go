package hlslx

import "testing"

// Group 2: control flow, helper functions, pointer parameters, private globals, shadowing.
func TestConfGroup2(t *testing.T) {
	cases := []confCase{
		{
			name: "if_else_chain",
			wgsl: `
@group(0) @binding(0) var<storage, read> inp: array<i32, 4>;
@group(0) @binding(1) var<storage, read_write> outp: array<u32, 4>;
fn classify(x: i32) -> u32 {
  if x < 0 { return 1u; } else if x == 0 { return 2u; } else if x < 10 { return 3u; } else { return 4u; }
}
@compute @workgroup_size(1) fn main() {
  for (var i = 0u; i < 4u; i++) { outp[i] = classify(inp[i]); }
}`,
			in:   map[uint32][]byte{0: i32s(-5, 0, 7, 10), 1: make([]byte, 16)},
			want: map[uint32][]any{1: {uint32(1), uint32(2), uint32(3), uint32(4)}},
		},
		{
			name: "switch_grouped_default_middle",
			wgsl: `
@group(0) @binding(0) var<storage, read> inp: array<i32, 5>;
@group(0) @binding(1) var<storage, read_write> outp: array<u32, 5>;
fn sw(x: i32) -> u32 {
  var r = 0u;
  switch x {
    case 1, 2: { r = 10u; }
    default: { r = 99u; }
    case 3: { r = 30u; }
    case -1: { r = 5u; }
  }
  return r + 1u;
}
@compute @workgroup_size(1) fn main() {
  for (var i = 0u; i < 5u; i++) { outp[i] = sw(inp[i]); }
}`,
			in:   map[uint32][]byte{0: i32s(1, 2, 3, -1, 7), 1: make([]byte, 20)},
			want: map[uint32][]any{1: {uint32(11), uint32(11), uint32(31), uint32(6), uint32(100)}},
		},
		{
			name: "loop_continuing_break_if",
			wgsl: `
@group(0) @binding(0) var<storage, read> inp: array<u32, 1>;
@group(0) @binding(1) var<storage, read_write> outp: array<u32, 2>;
@compute @workgroup_size(1) fn main() {
  var i = 0u; var acc = 0u;
  loop {
    if i == 2u { continue; }
    acc += i;
    continuing { i++; break if i >= inp[0]; }
  }
  outp[0] = acc; outp[1] = i;
}`,
			in:   map[uint32][]byte{0: u32s(5), 1: make([]byte, 8)},
			want: map[uint32][]any{1: {uint32(8), uint32(5)}},
		},
		{
			name: "for_while_break_continue",
			wgsl: `
@group(0) @binding(0) var<storage, read> inp: array<i32, 1>;
@group(0) @binding(1) var<storage, read_write> outp: array<i32, 3>;
@compute @workgroup_size(1) fn main() {
  var s = 0;
  for (var i = 0; i < inp[0]; i++) {
    if i % 2 == 0 { continue; }
    if i > 7 { break; }
    s += i;
  }
  outp[0] = s;
  var j = inp[0]; var n = 0;
  while j > 0 { j -= 3; n++; }
  outp[1] = n; outp[2] = j;
}`,
			in:   map[uint32][]byte{0: i32s(10), 1: make([]byte, 12)},
			want: map[uint32][]any{1: {16, 4, -2}},
		},
		{
			name: "nested_loops_inner_break",
			wgsl: `
@group(0) @binding(0) var<storage, read> inp: array<u32, 2>;
@group(0) @binding(1) var<storage, read_write> outp: array<u32, 1>;
@compute @workgroup_size(1) fn main() {
  var c = 0u;
  for (var i = 0u; i < inp[0]; i++) {
    for (var j = 0u; j < inp[1]; j++) {
      if j > i { break; }
      c += 10u * i + j;
    }
  }
  outp[0] = c;
}`,
			in:   map[uint32][]byte{0: u32s(3, 5), 1: make([]byte, 4)},
			want: map[uint32][]any{1: {uint32(84)}},
		},
		{
			name: "pointer_params_function_private",
			wgsl: `
@group(0) @binding(0) var<storage, read> inp: array<i32, 1>;
@group(0) @binding(1) var<storage, read_write> outp: array<i32, 6>;
var<private> g: i32 = 100;
fn bump(p: ptr<function, i32>, d: i32) -> i32 { let old = *p; *p = old + d; return old; }
fn swap(a: ptr<function, vec2<i32>>) { let t = (*a).x; (*a).x = (*a).y; (*a).y = t; }
fn addg(p: ptr<private, i32>, d: i32) { *p += d; }
@compute @workgroup_size(1) fn main() {
  var k = inp[0];
  let o = bump(&k, 5);
  outp[0] = o; outp[1] = k;
  var v = vec2<i32>(1, 2);
  swap(&v);
  outp[2] = v.x; outp[3] = v.y;
  addg(&g, 7);
  outp[4] = g;
  let pk = &k;
  *pk = *pk * 2;
  outp[5] = k;
}`,
			in:   map[uint32][]byte{0: i32s(3), 1: make([]byte, 24)},
			want: map[uint32][]any{1: {3, 8, 2, 1, 107, 16}},
		},
		{
			name: "private_counter_eval_order",
			wgsl: `
@group(0) @binding(1) var<storage, read_write> outp: array<u32, 3>;
var<private> cnt: u32;
fn tick() -> u32 { cnt++; return cnt; }
@compute @workgroup_size(1) fn main() {
  let a = tick(); let b = tick();
  outp[0] = a * 10u + b;
  outp[1] = cnt;
  outp[2] = tick() + tick() * 10u;
}`,
			in:   map[uint32][]byte{1: make([]byte, 12)},
			want: map[uint32][]any{1: {uint32(12), uint32(2), uint32(43)}},
		},
		{
			name: "return_in_switch_in_loop",
			wgsl: `
@group(0) @binding(0) var<storage, read> inp: array<u32, 2>;
@group(0) @binding(1) var<storage, read_write> outp: array<u32, 2>;
fn find(limit: u32) -> u32 {
  var i = 0u;
  loop {
    switch i { case 3u: { return i * 100u; } default: { } }
    i++;
    if i > limit { break; }
  }
  return 7u;
}
@compute @workgroup_size(1) fn main() { outp[0] = find(inp[0]); outp[1] = find(inp[1]); }`,
			in:   map[uint32][]byte{0: u32s(10, 1), 1: make([]byte, 8)},
			want: map[uint32][]any{1: {uint32(300), uint32(7)}},
		},
		{
			name: "continue_and_break_inside_switch_in_loop",
			wgsl: `
@group(0) @binding(0) var<storage, read> inp: array<u32, 2>;
@group(0) @binding(1) var<storage, read_write> outp: array<u32, 2>;
@compute @workgroup_size(1) fn main() {
  var s = 0u;
  for (var i = 0u; i < inp[0]; i++) {
    switch i { case 1u, 4u: { continue; } case 2u: { s += 100u; } default: { s += 1u; } }
    s += 10u;
  }
  outp[0] = s;
  var t = 0u;
  for (var i = 0u; i < inp[1]; i++) {
    switch i { case 1u: { break; } default: { t += 1u; } }
    t += 10u;
  }
  outp[1] = t;
}`,
			in:   map[uint32][]byte{0: u32s(6, 3), 1: make([]byte, 8)},
			want: map[uint32][]any{1: {uint32(143), uint32(32)}},
		},
		{
			name: "helpers_returning_struct_array_vector",
			wgsl: `
struct P { a: i32, b: vec2<f32> }
@group(0) @binding(0) var<storage, read> inp: array<i32, 2>;
@group(0) @binding(1) var<storage, read_write> outp: array<i32, 3>;
fn mk(x: i32) -> P { return P(x, vec2<f32>(f32(x), f32(x) * 0.5)); }
fn arr(x: u32) -> array<u32, 3> { return array<u32, 3>(x, x + 1u, x + 2u); }
fn twice(v: vec3<i32>) -> vec3<i32> { return v * 2; }
@compute @workgroup_size(1) fn main() {
  let p = mk(inp[0]);
  let a = arr(u32(inp[1]));
  let v = twice(vec3<i32>(inp[0], inp[1], 1));
  outp[0] = p.a + i32(p.b.x + p.b.y);
  outp[1] = i32(a[0] + a[1] * a[2]);
  outp[2] = v.x + v.y + v.z;
}`,
			in:   map[uint32][]byte{0: i32s(4, 6), 1: make([]byte, 12)},
			want: map[uint32][]any{1: {10, 62, 22}},
		},
		{
			name: "early_return_void_nested_blocks",
			wgsl: `
@group(0) @binding(0) var<storage, read> inp: array<u32, 2>;
@group(0) @binding(1) var<storage, read_write> outp: array<u32, 4>;
fn f(x: u32, base: u32) {
  if x > 5u { outp[base] = 1u; return; }
  { { outp[base] = 2u; } }
  outp[base + 1u] = 3u;
}
@compute @workgroup_size(1) fn main() { f(inp[0], 0u); f(inp[1], 2u); }`,
			in:   map[uint32][]byte{0: u32s(9, 2), 1: make([]byte, 16)},
			want: map[uint32][]any{1: {uint32(1), uint32(0), uint32(2), uint32(3)}},
		},
		{
			name: "loop_with_nested_if_break_and_vector_accumulate",
			wgsl: `
@group(0) @binding(0) var<storage, read> inp: array<u32, 1>;
@group(0) @binding(1) var<storage, read_write> outp: array<vec2<u32>, 1>;
@compute @workgroup_size(1) fn main() {
  var acc = vec2<u32>(0u, 1u);
  var i = 0u;
  loop {
    if i >= inp[0] { if acc.x > 3u { break; } }
    acc = vec2<u32>(acc.x + i, acc.y * 2u);
    i++;
    if i > 20u { break; }
  }
  outp[0] = acc;
}`,
			// i=0..3: acc.x = 0,1,3,6 ; acc.y = 2,4,8,16 ; at i=4: i>=4 and acc.x=6>3 -> break
			in:   map[uint32][]byte{0: u32s(4), 1: make([]byte, 8)},
			want: map[uint32][]any{1: {uint32(6), uint32(16)}},
		},
		{
			name: "short_circuit_side_effects",
			wgsl: `
@group(0) @binding(0) var<storage, read> inp: array<u32, 2>;
@group(0) @binding(1) var<storage, read_write> outp: array<u32, 3>;
var<private> calls: u32;
fn t(v: bool) -> bool { calls += 1u; return v; }
@compute @workgroup_size(1) fn main() {
  let a = t(inp[0] == 1u) && t(true);
  let b = t(inp[1] == 1u) || t(false);
  outp[0] = u32(a); outp[1] = u32(b); outp[2] = calls;
}`,
			// inp = (0, 1): a: first false -> second not called; b: first true -> second not called: 2 calls
			in:   map[uint32][]byte{0: u32s(0, 1), 1: make([]byte, 12)},
			want: map[uint32][]any{1: {uint32(0), uint32(1), uint32(2)}},
		},
	}
	runConf(t, cases)
}
