// Package hlslx is an independent parser and interpreter for the HLSL compute-shader text emitted
// by gogpu/naga's HLSL backend. It is written from HLSL's own rules (language reference, D3D
// functional specification for raw buffers and constant-buffer packing) and knows nothing of naga.
package hlslx

import (
	"fmt"
	"strconv"
	"strings"

	"verif/internal/xrt"
)

type tokKind uint8

const (
	tkEOF tokKind = iota
	tkIdent
	tkInt
	tkFloat
	tkString
	tkPunct
)

type token struct {
	s    string
	line int32
	bits uint32 // value bits for int/float literals that fit 32 bits
	k    tokKind
	lk   litKind
}

type litKind uint8

const (
	litInt litKind = iota
	litUint
	litFloat
	litWide // 64-bit / half / double literal: outside the subset
)

func malformed(line int, f string, a ...any) *xrt.Malformed {
	return &xrt.Malformed{What: fmt.Sprintf("line %d: ", line) + fmt.Sprintf(f, a...)}
}

func unsupported(f string, a ...any) *xrt.Unsupported {
	return &xrt.Unsupported{What: fmt.Sprintf(f, a...)}
}

func isIdentStart(c byte) bool {
	return c == '_' || (c >= 'a' && c <= 'z') || (c >= 'A' && c <= 'Z')
}
func isDigit(c byte) bool { return c >= '0' && c <= '9' }
func isIdentChar(c byte) bool {
	return isIdentStart(c) || isDigit(c)
}

var puncts3 = []string{"<<=", ">>=", "..."}
var puncts2 = []string{"<<", ">>", "<=", ">=", "==", "!=", "&&", "||", "+=", "-=", "*=", "/=", "%=", "&=", "|=", "^=", "++", "--", "::", "->"}

func lex(src string) ([]token, error) {
	toks := make([]token, 0, len(src)/3+16)
	line := 1
	i := 0
	n := len(src)
	for i < n {
		c := src[i]
		switch {
		case c == '\n':
			line++
			i++
		case c == ' ' || c == '\t' || c == '\r' || c == '\f' || c == '\v':
			i++
		case c == '/' && i+1 < n && src[i+1] == '/':
			for i < n && src[i] != '\n' {
				i++
			}
		case c == '/' && i+1 < n && src[i+1] == '*':
			j := i + 2
			for j+1 < n && !(src[j] == '*' && src[j+1] == '/') {
				if src[j] == '\n' {
					line++
				}
				j++
			}
			if j+1 >= n {
				return nil, malformed(line, "unterminated comment")
			}
			i = j + 2
		case c == '#':
			return nil, unsupported("line %d: preprocessor directive", line)
		case isIdentStart(c):
			j := i + 1
			for j < n && isIdentChar(src[j]) {
				j++
			}
			toks = append(toks, token{k: tkIdent, s: src[i:j], line: int32(line)})
			i = j
		case isDigit(c) || (c == '.' && i+1 < n && isDigit(src[i+1])):
			t, j, err := lexNumber(src, i, line)
			if err != nil {
				return nil, err
			}
			toks = append(toks, t)
			i = j
		case c == '"':
			j := i + 1
			for j < n && src[j] != '"' && src[j] != '\n' {
				if src[j] == '\\' {
					j++
				}
				j++
			}
			if j >= n || src[j] != '"' {
				return nil, malformed(line, "unterminated string")
			}
			toks = append(toks, token{k: tkString, s: src[i+1 : j], line: int32(line)})
			i = j + 1
		default:
			if c >= 0x80 || c < 0x20 {
				return nil, malformed(line, "unexpected byte 0x%02x", c)
			}
			p := ""
			if i+3 <= n {
				for _, q := range puncts3 {
					if src[i:i+3] == q {
						p = q
					}
				}
			}
			if p == "" && i+2 <= n {
				for _, q := range puncts2 {
					if src[i:i+2] == q {
						p = q
					}
				}
			}
			if p == "" {
				if strings.IndexByte("+-*/%<>=!&|^~?:;,.()[]{}", c) < 0 {
					return nil, malformed(line, "unexpected character %q", c)
				}
				p = src[i : i+1]
			}
			toks = append(toks, token{k: tkPunct, s: p, line: int32(line)})
			i += len(p)
		}
	}
	toks = append(toks, token{k: tkEOF, line: int32(line)})
	return toks, nil
}

func lexNumber(src string, i, line int) (token, int, error) {
	n := len(src)
	j := i
	isFloat := false
	if src[j] == '0' && j+1 < n && (src[j+1] == 'x' || src[j+1] == 'X') {
		j += 2
		st := j
		for j < n && (isDigit(src[j]) || (src[j] >= 'a' && src[j] <= 'f') || (src[j] >= 'A' && src[j] <= 'F')) {
			j++
		}
		if j == st {
			return token{}, 0, malformed(line, "bad hex literal")
		}
		v, err := strconv.ParseUint(src[st:j], 16, 64)
		return finishInt(src, i, j, line, v, err != nil, true)
	}
	for j < n && isDigit(src[j]) {
		j++
	}
	if j < n && src[j] == '.' {
		// "1.xx" is not emitted by anything we read; a dot followed by an identifier start other than
		// an exponent/suffix would be a swizzle on an int literal, which HLSL does not lex that way.
		isFloat = true
		j++
		for j < n && isDigit(src[j]) {
			j++
		}
		if j < n && src[j] == '#' {
			return token{}, 0, unsupported("line %d: 1.#INF style literal", line)
		}
	}
	if j < n && (src[j] == 'e' || src[j] == 'E') {
		k := j + 1
		if k < n && (src[k] == '+' || src[k] == '-') {
			k++
		}
		if k < n && isDigit(src[k]) {
			isFloat = true
			for k < n && isDigit(src[k]) {
				k++
			}
			j = k
		}
	}
	if isFloat || (j < n && (src[j] == 'f' || src[j] == 'F' || src[j] == 'h' || src[j] == 'H')) {
		text := src[i:j]
		t := token{k: tkFloat, line: int32(line), lk: litFloat}
		if j < n && isIdentStart(src[j]) {
			switch src[j] {
			case 'f', 'F':
			case 'h', 'H', 'l', 'L':
				t.lk = litWide
			default:
				return token{}, 0, malformed(line, "bad literal suffix")
			}
			j++
			if j < n && isIdentChar(src[j]) {
				return token{}, 0, malformed(line, "bad literal suffix")
			}
		}
		f, err := strconv.ParseFloat(text, 32)
		if err != nil && !isRangeErr(err) {
			return token{}, 0, malformed(line, "bad float literal %q", text)
		}
		t.bits = f32bits(float32(f))
		t.s = src[i:j]
		return t, j, nil
	}
	v, err := strconv.ParseUint(src[i:j], 10, 64)
	return finishInt(src, i, j, line, v, err != nil, false)
}

func isRangeErr(err error) bool {
	ne, ok := err.(*strconv.NumError)
	return ok && ne.Err == strconv.ErrRange
}

func finishInt(src string, i, j, line int, v uint64, overflow, hex bool) (token, int, error) {
	n := len(src)
	t := token{k: tkInt, line: int32(line)}
	uns, wide := false, false
	for j < n && isIdentChar(src[j]) {
		switch src[j] {
		case 'u', 'U':
			if uns {
				return token{}, 0, malformed(line, "bad literal suffix")
			}
			uns = true
		case 'l', 'L':
			wide = true
		default:
			return token{}, 0, malformed(line, "bad literal suffix")
		}
		j++
	}
	switch {
	case wide || overflow || v > 0xFFFFFFFF:
		t.lk = litWide
	case uns:
		t.lk = litUint
	case v <= 0x7FFFFFFF:
		t.lk = litInt
	default:
		// decimal or hex literal that only fits 32 bits unsigned
		t.lk = litUint
	}
	_ = hex
	t.bits = uint32(v)
	t.s = src[i:j]
	return t, j, nil
}
