package hlslx

import (
	"errors"
	"strings"
	"testing"

	"verif/internal/xrt"
)

func mustParse(t *testing.T, src string) *Program {
	t.Helper()
	p, err := Parse(src)
	if err != nil {
		t.Fatalf("parse: %v\n%s", err, src)
	}
	return p
}

// runOut executes hand-written HLSL whose only resource is `RWByteAddressBuffer o : register(u0)`
// (plus whatever extra is passed) and returns the words of o.
func runOut(t *testing.T, src string, words int, extra xrt.Buffers, o Opts) ([]byte, error) {
	t.Helper()
	p := mustParse(t, src)
	bufs := xrt.Buffers{bind(0, 0): make([]byte, 4*words)}
	for k, v := range extra {
		bufs[k] = v
	}
	err := p.Exec(bufs, o)
	return bufs[bind(0, 0)], err
}

func wantWords(t *testing.T, got []byte, want ...any) {
	t.Helper()
	for _, e := range checkWords("o", got, want) {
		t.Error(e)
	}
}

func TestCBufferPackingCalculator(t *testing.T) {
	src := `
struct S { float a; float3 b; };
struct S2 { float3 a; };
struct E { float2 p; float q; };
cbuffer A : register(b0) { float4 A1; float2 A2; float2 A3; }
cbuffer B : register(b1) { float2 B1; float4 B2; float2 B3; }
cbuffer C : register(b2) { float C1; float3 C2; float C3; float C4[2]; float C5; }
cbuffer D : register(b3) { float D1; S Ds; float D2; }
cbuffer F : register(b4) { S2 Fs; float Fy; }
cbuffer G : register(b5) { row_major float2x3 Gm; float Gz; float3x2 Gc; float Gw; column_major float2x3 Gd; float Gv; }
cbuffer H : register(b6) { float2 Ha[3]; float2 Hb; float3 Hc; float2 Hd; }
cbuffer I : register(b7) { float4 Ia : packoffset(c2); float Ib : packoffset(c1.y); }
cbuffer J : register(b8) { bool Jb; int Ji; uint Ju; E Jes[2]; float Jt; row_major float4x4 Jm[2]; float Jl; }
`
	p := mustParse(t, src)
	type mo struct {
		name      string
		off, size int
	}
	check := func(cb string, want ...mo) {
		t.Helper()
		ms, ok := p.CBufferLayout(cb)
		if !ok || len(ms) != len(want) {
			t.Fatalf("cbuffer %s: ok=%v, %d members", cb, ok, len(ms))
		}
		for i, w := range want {
			if ms[i].Name != w.name || ms[i].Offset != w.off || ms[i].Size != w.size {
				t.Errorf("cbuffer %s member %s: offset %d size %d, want %s offset %d size %d", cb, ms[i].Name, ms[i].Offset, ms[i].Size, w.name, w.off, w.size)
			}
		}
	}
	check("A", mo{"A1", 0, 16}, mo{"A2", 16, 8}, mo{"A3", 24, 8})
	check("B", mo{"B1", 0, 8}, mo{"B2", 16, 16}, mo{"B3", 32, 8})
	check("C", mo{"C1", 0, 4}, mo{"C2", 4, 12}, mo{"C3", 16, 4}, mo{"C4", 32, 20}, mo{"C5", 52, 4})
	check("D", mo{"D1", 0, 4}, mo{"Ds", 16, 16}, mo{"D2", 32, 4})
	check("F", mo{"Fs", 0, 12}, mo{"Fy", 12, 4})
	check("G", mo{"Gm", 0, 28}, mo{"Gz", 28, 4}, mo{"Gc", 32, 28}, mo{"Gw", 60, 4}, mo{"Gd", 64, 40}, mo{"Gv", 104, 4})
	check("H", mo{"Ha", 0, 40}, mo{"Hb", 40, 8}, mo{"Hc", 48, 12}, mo{"Hd", 64, 8})
	check("I", mo{"Ia", 32, 16}, mo{"Ib", 20, 4})
	check("J", mo{"Jb", 0, 4}, mo{"Ji", 4, 4}, mo{"Ju", 8, 4}, mo{"Jes", 16, 28}, mo{"Jt", 44, 4}, mo{"Jm", 48, 128}, mo{"Jl", 176, 4})
	ms, _ := p.CBufferLayout("D")
	if len(ms[1].Members) != 2 || ms[1].Members[0].Offset != 16 || ms[1].Members[1].Offset != 20 {
		t.Errorf("nested struct members: %+v", ms[1].Members)
	}
	ms, _ = p.CBufferLayout("J")
	if ms[3].Stride != 16 || ms[3].Count != 2 || ms[3].Members[1].Offset != 24 || ms[5].Stride != 64 {
		t.Errorf("array layout: %+v / %+v", ms[3], ms[5])
	}
	if _, ok := p.CBufferLayout("nope"); ok {
		t.Error("unknown cbuffer reported present")
	}
}

func TestCBufferReads(t *testing.T) {
	src := `
struct E { float2 p; float q; };
cbuffer G : register(b1) { row_major float2x3 Gm; float Gz; float3x2 Gc; float Gw; E es[2]; }
RWByteAddressBuffer o : register(u0);
[numthreads(1,1,1)] void main() {
  o.Store3(0, asuint(Gm[1]));          // row 1 of the row_major matrix: bytes 16..27
  o.Store(12, asuint(Gz));
  o.Store2(16, asuint(Gc[2]));         // row 2 of a column_major float3x2: (col0[2], col1[2])
  o.Store(24, asuint(Gc[1][0] + Gw));
  o.Store(28, asuint(es[1].q + es[0].p.y));
  float3x2 whole = Gc;
  o.Store(32, asuint(whole[0][1]));
  o.Store(36, asuint(mul(float2(1.0, 10.0), Gm).z));  // row vector * 2x3 = Gm[0].z + 10*Gm[1].z
}`
	cb := make([]float32, 32)
	for i := range cb {
		cb[i] = float32(i)
	}
	// Gm rows at 0 and 16 (floats 0..2, 4..6); Gz @28 = 7; Gc @32: col0 = floats 8,9,10; col1 = 12,13,14; Gw @60 = 15
	// es @64: es[0].p = (16,17), q = 18 ; es[1] @80: p = (20,21), q = 22
	var tr []xrt.Access
	got, err := runOut(t, src, 10, xrt.Buffers{bind(0, 1): f32s(cb...)}, Opts{Opts: xrt.Opts{Trace: &tr}})
	if err != nil {
		t.Fatal(err)
	}
	wantWords(t, got, 4.0, 5.0, 6.0, 7.0, 10.0, 14.0, 9.0+15.0, 22.0+17.0, 12.0, 2.0+60.0)
	if len(tr) == 0 || tr[0].B != bind(0, 1) || tr[0].Off != 16 || tr[0].Len != 12 || tr[0].Write {
		t.Errorf("first trace entry: %+v", tr)
	}
}

func TestConversionRules(t *testing.T) {
	src := `
RWByteAddressBuffer o : register(u0);
static int calls = (int)0;
bool bump(bool v) { calls = calls + 1; return v; }
[numthreads(1,1,1)] void main() {
  int m1 = -1;
  uint one = 1u;
  o.Store(0, m1 + one);                    // int + uint -> uint: 0
  o.Store(4, (m1 < one) ? 1u : 0u);        // -1 converts to 0xFFFFFFFF: false
  int m6 = -6;
  o.Store(8, m6 / 2u);                     // uint division: 0xFFFFFFFA / 2
  o.Store(12, asuint(m1 + 0.5));           // int + float -> float: -0.5
  bool tr = true;
  o.Store(16, tr + tr);                    // bool arithmetic as int: 2
  int i = 2.9;                             // implicit float -> int truncates
  o.Store(20, asuint(i));
  uint u = m1;                             // int -> uint reinterpretation
  o.Store(24, u);
  float3 v = 2;                            // scalar splat with int -> float
  o.Store3(28, asuint(v));
  float2 w = (float2)float3(1.0, 2.0, 3.0);// explicit truncation
  o.Store2(40, asuint(w));
  bool a = bump(false) && bump(true);      // no short circuit in HLSL
  bool b = bump(true) || bump(true);
  int pick = bump(true) ? (calls = calls + 10) : (calls = calls + 100);  // both arms evaluated
  o.Store(48, asuint(calls));
  o.Store(52, asuint(pick));
  bool3 c = bool3(true, false, true);
  float3 sel = c ? float3(1.0, 2.0, 3.0) : (9.0).xxx;   // component-wise, scalar swizzle splat
  o.Store3(56, asuint(sel));
  o.Store(68, 1u << 33);                   // shift count uses the low 5 bits
  o.Store(72, asuint(int(-8) >> 1));       // arithmetic shift for int
  uint2 cmp = uint2(float2(1.0, 5.0) < float2(2.0, 2.0));  // bool vector -> uint vector
  o.Store2(76, cmp);
  float f = 7u;                            // uint -> float
  o.Store(84, asuint(f / 2));
  o.Store(88, asuint(-2147483647 - 1));
  o.Store(92, (3 > 2) + (2 > 3));          // bool + bool -> int
  o.Store(96, asuint((float)true));
  uint w32 = 32;
  o.Store(100, (w32 == 0 ? 0 : (5u << (w32 - 30)) >> 1));   // int/uint arms -> uint
}`
	got, err := runOut(t, src, 26, nil, Opts{})
	if err != nil {
		t.Fatal(err)
	}
	wantWords(t, got, uint32(0), uint32(0), uint32(0x7FFFFFFD), float32(-0.5), uint32(2), 2, uint32(0xFFFFFFFF),
		2.0, 2.0, 2.0, 1.0, 2.0,
		// calls: 2 (&&) + 2 (||) + 1 (cond) = 5, then +10 -> 15, then +100 -> 115; pick = first arm's value 15
		115, 15,
		1.0, 9.0, 3.0, uint32(2), -4, uint32(1), uint32(0), 3.5, intMin, 1, 1.0, uint32(10))
}

func TestMatrixConventions(t *testing.T) {
	src := `
RWByteAddressBuffer o : register(u0);
[numthreads(1,1,1)] void main() {
  float2x3 m = float2x3(float3(1.0, 2.0, 3.0), float3(4.0, 5.0, 6.0)); // constructor fills rows
  o.Store3(0, asuint(m[1]));                       // m[i] selects row i
  o.Store(12, asuint(m[0][2]));
  o.Store3(16, asuint(mul(float2(1.0, 10.0), m))); // row vector: (41, 52, 63)
  o.Store2(28, asuint(mul(m, float3(1.0, 10.0, 100.0)))); // column vector: (321, 654)
  float2x3 sq = m * m;                             // component-wise
  o.Store3(36, asuint(sq[1]));
  float3x2 tr = transpose(m);
  o.Store2(48, asuint(tr[2]));                     // (3, 6)
  float2x2 p = mul(m, tr);                         // 2x3 * 3x2: [[14, 32],[32, 77]]
  o.Store4(56, asuint(float4(p[0], p[1])));
  float2x3 sc = float2x3(1.0, 2.0, 3.0, 4.0, 5.0, 6.0); // scalars in row-major order
  o.Store(72, asuint(sc[1][0]));
  m[0].y = 20.0;
  m[1] = float3(7.0, 8.0, 9.0);
  o.Store(76, asuint(m[0][1] + m[1][2]));
  o.Store(80, asuint(determinant(float2x2(1.0, 2.0, 3.0, 4.0))));
  o.Store(84, asuint(mul(float3(1.0, 2.0, 3.0), float3(4.0, 5.0, 6.0)))); // vector * vector = dot
  float3x3 big = float3x3(1.0, 2.0, 3.0, 4.0, 5.0, 6.0, 7.0, 8.0, 9.0);
  float2x2 cut = (float2x2)big;                    // explicit truncation keeps the upper-left block
  o.Store4(88, asuint(float4(cut[0], cut[1])));
  int2x2 im = int2x2(1, 2, 3, 4);
  o.Store2(104, asuint(mul(im, int2(10, 1))));     // integer matrices: (12, 34)
}`
	got, err := runOut(t, src, 28, nil, Opts{})
	if err != nil {
		t.Fatal(err)
	}
	wantWords(t, got, 4.0, 5.0, 6.0, 3.0, 41.0, 52.0, 63.0, 321.0, 654.0, 16.0, 25.0, 36.0, 3.0, 6.0,
		14.0, 32.0, 32.0, 77.0, 4.0, 29.0, -2.0, 32.0, 1.0, 2.0, 4.0, 5.0, 12, 34)
}

func execErr(t *testing.T, src string, o Opts, extra xrt.Buffers) error {
	t.Helper()
	_, err := runOut(t, src, 16, extra, o)
	return err
}

func wantTrap(t *testing.T, err error, kind string) {
	t.Helper()
	var tr *xrt.Trap
	if !errors.As(err, &tr) || tr.Kind != kind {
		t.Errorf("got %v, want trap %s", err, kind)
	}
}

func TestTraps(t *testing.T) {
	pre := "RWByteAddressBuffer o : register(u0);\nByteAddressBuffer inp : register(t1);\n[numthreads(1,1,1)] void main() {\n"
	in := func(v ...uint32) xrt.Buffers { return xrt.Buffers{bind(0, 1): u32s(v...)} }
	wantTrap(t, execErr(t, pre+"int a = asint(inp.Load(0)); o.Store(0, asuint(5 / a)); }", Opts{}, in(0)), "div0")
	wantTrap(t, execErr(t, pre+"uint a = inp.Load(0); o.Store(0, 5u % a); }", Opts{}, in(0)), "div0")
	wantTrap(t, execErr(t, pre+"int a = asint(inp.Load(0)); int b = asint(inp.Load(4)); o.Store(0, asuint(a / b)); }", Opts{}, in(0x80000000, 0xFFFFFFFF)), "sdiv-overflow")
	wantTrap(t, execErr(t, pre+"int a = asint(inp.Load(0)); int b = asint(inp.Load(4)); o.Store(0, asuint(a % b)); }", Opts{}, in(0x80000000, 0xFFFFFFFF)), "sdiv-overflow")
	wantTrap(t, execErr(t, pre+"int a = asint(inp.Load(0)); o.Store(0, asuint(a % 3)); }", Opts{}, in(0xFFFFFFF9)), "smod-mixed-sign")
	wantTrap(t, execErr(t, pre+"float f = asfloat(inp.Load(0)); o.Store(0, asuint(int(f))); }", Opts{}, in(0x7FC00000)), "f2i-range")
	wantTrap(t, execErr(t, pre+"float f = asfloat(inp.Load(0)); o.Store(0, uint(f)); }", Opts{}, in(0xBF800000)), "f2i-range")
	wantTrap(t, execErr(t, pre+"float f = asfloat(inp.Load(0)); int i = f; o.Store(0, asuint(i)); }", Opts{}, in(0x4F000000)), "f2i-range") // 2^31
	wantTrap(t, execErr(t, pre+"int a[3] = {1, 2, 3}; o.Store(0, asuint(a[inp.Load(0)])); }", Opts{}, in(3)), "oob-read")
	wantTrap(t, execErr(t, pre+"int a[3] = {1, 2, 3}; a[asint(inp.Load(0))] = 4; o.Store(0, asuint(a[0])); }", Opts{}, in(0xFFFFFFFF)), "oob-write")
	wantTrap(t, execErr(t, pre+"float3 v = float3(1.0, 2.0, 3.0); o.Store(0, asuint(v[inp.Load(0)])); }", Opts{}, in(3)), "oob-read")
	wantTrap(t, execErr(t, pre+"float2x2 m = (float2x2)0; m[inp.Load(0)] = float2(1.0, 1.0); o.Store(0, asuint(m[0][0])); }", Opts{}, in(2)), "oob-write")
	wantTrap(t, execErr(t, pre+"int x; o.Store(0, asuint(x + 1)); }", Opts{Opts: xrt.Opts{PoisonLocals: true}}, in(0)), "poison")
	wantTrap(t, execErr(t, "groupshared uint g[2];\n"+pre+"o.Store(0, g[1]); }", Opts{Opts: xrt.Opts{PoisonLocals: true}}, in(0)), "poison")
	// defined behaviour, no trap
	for _, body := range []string{
		"int x; o.Store(0, asuint(x + 1)); }",                                                 // PoisonLocals off: zero
		"int x; x = 3; int y = x; o.Store(0, asuint(y)); }",                                   // written before read
		"int a = asint(inp.Load(0)); o.Store(0, asuint(a + a)); o.Store(4, asuint(a * 3)); }", // wrapping
		"uint s = inp.Load(0); o.Store(0, 1u << s); }",                                        // shift by >= 32
		"float f = asfloat(inp.Load(0)); o.Store(0, asuint(1.0 / f)); }",                      // float division by zero
	} {
		if err := execErr(t, pre+body, Opts{}, in(0x7FFFFFFF, 0)); err != nil {
			t.Errorf("%s: unexpected %v", body, err)
		}
	}
	// struct copies with unwritten members are not a use; reading the member is
	src := "struct S { int a; int b; };\n" + pre + "S s; s.a = 1; S c = s; o.Store(0, asuint(c.a)); }"
	if err := execErr(t, src, Opts{Opts: xrt.Opts{PoisonLocals: true}}, in(0)); err != nil {
		t.Errorf("copy of a partially initialised struct: %v", err)
	}
	src = "struct S { int a; int b; };\n" + pre + "S s; s.a = 1; S c = s; o.Store(0, asuint(c.b)); }"
	wantTrap(t, execErr(t, src, Opts{Opts: xrt.Opts{PoisonLocals: true}}, in(0)), "poison")
}

func TestByteAddressSemantics(t *testing.T) {
	src := `
RWByteAddressBuffer o : register(u0);
ByteAddressBuffer inp : register(t1);
[numthreads(1,1,1)] void main() {
  uint n; inp.GetDimensions(n);
  o.Store(0, n);
  o.Store4(4, inp.Load4(8));     // words 2,3 in range, 4,5 out of range -> 0
  o.Store(100, 7u);              // dropped
  o.Store2(28, uint2(5u, 6u));   // first word in range, second dropped
  uint orig;
  o.InterlockedAdd(20, 3u, orig);
  o.Store(24, orig);
  int iorig;
  o.InterlockedMin(20, -2, iorig);
}`
	var tr []xrt.Access
	got, err := runOut(t, src, 8, xrt.Buffers{bind(0, 1): u32s(1, 2, 3, 4)}, Opts{Opts: xrt.Opts{Trace: &tr}})
	if err != nil {
		t.Fatal(err)
	}
	wantWords(t, got, uint32(16), uint32(3), uint32(4), uint32(0), uint32(0), uint32(0xFFFFFFFE), uint32(0), uint32(5))
	var sawOOBLoad, sawOOBStore bool
	for _, a := range tr {
		if a.B == bind(0, 1) && a.Off == 8 && a.Len == 16 && !a.Write {
			sawOOBLoad = true
		}
		if a.B == bind(0, 0) && a.Off == 100 && a.Write {
			sawOOBStore = true
		}
	}
	if !sawOOBLoad || !sawOOBStore {
		t.Errorf("out-of-range accesses missing from trace: %+v", tr)
	}
	// unaligned offset
	un := "RWByteAddressBuffer o : register(u0);\n[numthreads(1,1,1)] void main() { o.Store(2, 1u); }"
	var m *xrt.Malformed
	if _, err := runOut(t, un, 4, nil, Opts{}); !errors.As(err, &m) {
		t.Errorf("unaligned store: %v", err)
	}
	// Store on a read-only buffer is a type error
	if _, err := Parse("ByteAddressBuffer b : register(t0);\n[numthreads(1,1,1)] void main() { b.Store(0, 1u); }"); !errors.As(err, &m) {
		t.Errorf("Store on ByteAddressBuffer: %v", err)
	}
}

func TestMalformedAndUnsupported(t *testing.T) {
	var m *xrt.Malformed
	var u *xrt.Unsupported
	pre := "RWByteAddressBuffer o : register(u0);\n"
	for name, src := range map[string]string{
		"syntax":              pre + "[numthreads(1,1,1)] void main() { o.Store(0, 1u; }",
		"undeclared":          pre + "[numthreads(1,1,1)] void main() { o.Store(0, x); }",
		"undeclared function": pre + "[numthreads(1,1,1)] void main() { o.Store(0, asinh(1.0)); }",
		"implicit truncation": pre + "[numthreads(1,1,1)] void main() { float2 v = float3(1.0, 2.0, 3.0); o.Store2(0, asuint(v)); }",
		"vector widening":     pre + "[numthreads(1,1,1)] void main() { float3 v = float2(1.0, 2.0); }",
		"struct mismatch":     pre + "struct A { int x; }; struct B { int x; };\n[numthreads(1,1,1)] void main() { A a = (A)0; B b = a; }",
		"assign to const":     pre + "[numthreads(1,1,1)] void main() { const int c = 1; c = 2; }",
		"call non-function":   pre + "[numthreads(1,1,1)] void main() { int min = 1; o.Store(0, min(1u, 2u)); }",
		"bad arity":           pre + "int f(int a) { return a; }\n[numthreads(1,1,1)] void main() { o.Store(0, asuint(f(1, 2))); }",
		"out needs lvalue":    pre + "void f(out int a) { a = 1; }\n[numthreads(1,1,1)] void main() { f(3); }",
		"fma on float":        pre + "[numthreads(1,1,1)] void main() { o.Store(0, asuint(fma(1.0, 2.0, 3.0))); }",
		"array after type":    pre + "static float[2] x = (float[2])0;\n[numthreads(1,1,1)] void main() { }",
		"break outside":       pre + "[numthreads(1,1,1)] void main() { break; }",
		"mul dims":            pre + "[numthreads(1,1,1)] void main() { float2x3 m = (float2x3)0; float3 v = mul(float3(1.0,1.0,1.0), m); }",
		"bad swizzle":         pre + "[numthreads(1,1,1)] void main() { float2 v = float2(1.0, 2.0); o.Store(0, asuint(v.z)); }",
		"ctor count":          pre + "[numthreads(1,1,1)] void main() { float3 v = float3(1.0, 2.0); }",
		"dup case":            pre + "[numthreads(1,1,1)] void main() { switch (1) { case 1: { break; } case 1: { break; } } }",
	} {
		if _, err := Parse(src); !errors.As(err, &m) {
			t.Errorf("%s: Parse = %v, want Malformed", name, err)
		}
	}
	// run-time Malformed
	if err := execErr(t, pre+"[numthreads(1,1,1)] void main() { switch (1) { case 1: { o.Store(0, 1u); } case 2: { o.Store(4, 2u); break; } } }", Opts{}, nil); !errors.As(err, &m) {
		t.Errorf("fallthrough: %v", err)
	}
	if err := execErr(t, pre+"int f(int n) { return n <= 0 ? 0 : f(n - 1) + 1; }\n[numthreads(1,1,1)] void main() { o.Store(0, asuint(f(3))); }", Opts{}, nil); !errors.As(err, &m) {
		t.Errorf("recursion: %v", err)
	}
	// Unsupported: parse succeeds (so declarations can be inspected), execution refuses
	for name, src := range map[string]string{
		"texture":    pre + "Texture2D<float4> tx : register(t1);\nSamplerState s : register(s0);\n[numthreads(1,1,1)] void main() { float4 c = tx.SampleLevel(s, float2(0.0, 0.0), 0.0); o.Store(0, asuint(c.x)); }",
		"min16float": pre + "[numthreads(1,1,1)] void main() { min16float h = (min16float)1.0; o.Store(0, asuint((float)h)); }",
		"half lit":   pre + "[numthreads(1,1,1)] void main() { float h = 1.0h; o.Store(0, asuint(h)); }",
		"wave":       pre + "[numthreads(1,1,1)] void main() { o.Store(0, WaveGetLaneIndex()); }",
		"int64":      pre + "[numthreads(1,1,1)] void main() { uint64_t v = 1uL; o.Store(0, uint(v)); }",
		"discard":    pre + "[numthreads(1,1,1)] void main() { discard; }",
		"semantic":   pre + "[numthreads(1,1,1)] void main(uint v : SV_VertexID) { o.Store(0, v); }",
		"templ load": pre + "[numthreads(1,1,1)] void main() { o.Store(0, o.Load<uint>(0)); }",
		"rayquery":   pre + "[numthreads(1,1,1)] void main() { RayQuery<RAY_FLAG_NONE> rq; o.Store(0, 1u); rq.Abort(); }",
	} {
		p, err := Parse(src)
		if err != nil {
			t.Errorf("%s: Parse = %v", name, err)
			continue
		}
		if err := p.Exec(xrt.Buffers{bind(0, 0): make([]byte, 16)}, Opts{}); !errors.As(err, &u) {
			t.Errorf("%s: Exec = %v, want Unsupported", name, err)
		}
	}
	// vertex / pixel functions parse; they are just not compute entry points
	p := mustParse(t, "float4 vs(uint vi : SV_VertexID) : SV_Position { return float4(0.0, 0.0, 0.0, 1.0); }\nfloat4 ps() : SV_Target0 { return (1.0).xxxx; }")
	if err := p.Exec(xrt.Buffers{}, Opts{Opts: xrt.Opts{EntryPoint: "vs"}}); !errors.As(err, &u) {
		t.Errorf("vertex entry: %v", err)
	}
	if err := p.Exec(xrt.Buffers{}, Opts{}); !errors.As(err, &u) {
		t.Errorf("no compute entry: %v", err)
	}
	// step limit
	var sl *xrt.StepLimit
	if err := execErr(t, pre+"[numthreads(1,1,1)] void main() { while (true) { } }", Opts{Opts: xrt.Opts{StepLimit: 1000}}, nil); !errors.As(err, &sl) {
		t.Errorf("step limit: %v", err)
	}
	// barrier reached by only some invocations
	div := pre + "[numthreads(2,1,1)] void main(uint li : SV_GroupIndex) { if (li == 0u) { GroupMemoryBarrierWithGroupSync(); } o.Store(0, 1u); }"
	wantTrap(t, execErr(t, div, Opts{}, nil), "barrier-divergence")
	// register not explained by the binding map
	if err := execErr(t, pre+"[numthreads(1,1,1)] void main() { o.Store(0, 1u); }", Opts{Registers: map[Reg]xrt.Binding{}}, nil); !errors.As(err, &m) {
		t.Errorf("unmapped register: %v", err)
	}
}

func TestProblemsAndDecls(t *testing.T) {
	src := `
struct S { int a; float a; int float3; };
typedef int arr3[3];
static int g = (int)0;
static float g = 1.0;
groupshared uint register_[2];
cbuffer cb : register(b0, space2) { float4 cb; }
ByteAddressBuffer Texture2D : register(t3);
int f(int x, int x) { int y = 1; { int y = 2; } return x + y; }
int f(int x, int y) { return 1; }
float f(float x) { return x; }
float abs(float v) { return v; }
float4 clamp(float4 a, float4 b, float4 c) { return a; }
int mine(int a) { int mine_local = a; int mine_local = 2; return mine_local; }
void matrix() { }
[numthreads(1,1,1)] void main(uint3 line : SV_DispatchThreadID) { }
`
	p := mustParse(t, src)
	probs := strings.Join(p.Problems(), "\n")
	for _, want := range []string{
		`member "a" redeclared`, `member "float3" is a predeclared type name`, `global "g" redeclared`,
		`global "Texture2D" is an HLSL keyword`, `param "x" redeclared`, `function f(int,int) redefined`,
		`function abs(float) coincides with the intrinsic abs`, `function clamp(float4,float4,float4) coincides with the intrinsic clamp`,
		`local "mine_local" redeclared`, `function "matrix" is an HLSL keyword`, `param "line" is an HLSL keyword`,
	} {
		if !strings.Contains(probs, want) {
			t.Errorf("missing problem %q in:\n%s", want, probs)
		}
	}
	for _, not := range []string{`"y" redeclared`, `f(float)`, `"cb"`, `register_`, `"mine"`} {
		if strings.Contains(probs, not) {
			t.Errorf("unexpected problem mentioning %s:\n%s", not, probs)
		}
	}
	kinds := map[string]int{}
	scopes := map[int]int{}
	for _, d := range p.Decls() {
		kinds[d.Kind]++
		scopes[d.ScopeID] = d.ParentScopeID
		if d.Name == "cb" && d.Kind == "global" && d.ScopeID != 0 {
			t.Errorf("cbuffer member not in global scope: %+v", d)
		}
	}
	for _, k := range []string{"struct", "member", "function", "param", "local", "global", "typedef", "cbuffer"} {
		if kinds[k] == 0 {
			t.Errorf("no declaration of kind %s", k)
		}
	}
	if scopes[0] != -1 {
		t.Errorf("global scope parent = %d", scopes[0])
	}
	// the inner y of f lives in a scope whose parent is f's scope, whose parent is global
	var yScopes []int
	for _, d := range p.Decls() {
		if d.Name == "y" && d.Kind == "local" {
			yScopes = append(yScopes, d.ScopeID)
		}
	}
	if len(yScopes) != 2 || scopes[yScopes[1]] != yScopes[0] || scopes[yScopes[0]] != 0 {
		t.Errorf("scope nesting of y: %v / %v", yScopes, scopes)
	}
	rs := p.Resources()
	if len(rs) != 2 || rs[0].Kind != "cbuffer" || rs[0].Reg != (Reg{'b', 0, 2}) || rs[1].Kind != "ByteAddressBuffer" || rs[1].Reg != (Reg{'t', 3, 0}) {
		t.Errorf("resources: %+v", rs)
	}
	es := p.EntryPoints()
	if len(es) != 1 || es[0].Name != "main" || es[0].NumThreads != [3]uint32{1, 1, 1} || es[0].Params[0].Semantic != "SV_DispatchThreadID" {
		t.Errorf("entry points: %+v", es)
	}
	kw := map[string]bool{}
	for _, w := range Keywords() {
		kw[w] = true
	}
	for _, w := range []string{"float3", "min16float", "Texture2D", "matrix", "vector", "row_major", "groupshared", "register", "int4x4", "while", "sample"} {
		if !kw[w] {
			t.Errorf("Keywords() lacks %s", w)
		}
	}
	if kw["main"] || kw["abs"] || kw["Float3"] {
		t.Error("Keywords() contains a non-reserved word")
	}
}

func TestEntrySelectionAndRegisters(t *testing.T) {
	src := `
RWByteAddressBuffer o : register(u4, space3);
cbuffer c : register(b1, space3) { uint k; }
struct In { uint gi : SV_GroupIndex; uint3 gid : SV_GroupID; };
[numthreads(2,1,1)] void first(In i, uint3 dt : SV_DispatchThreadID, uint3 gt : SV_GroupThreadID) { o.Store(dt.x * 4, k + i.gi + 10u * i.gid.x + 100u * gt.x); }
[numthreads(1,1,1)] void second() { o.Store(0, 99u); }
`
	p := mustParse(t, src)
	// identity convention: space = group, index = binding
	bufs := xrt.Buffers{bind(3, 4): make([]byte, 16), bind(3, 1): u32s(1000)}
	if err := p.Exec(bufs, Opts{Opts: xrt.Opts{EntryPoint: "first", NumWorkgroups: [3]uint32{2, 1, 1}}}); err != nil {
		t.Fatal(err)
	}
	wantWords(t, bufs[bind(3, 4)], uint32(1000), uint32(1101), uint32(1010), uint32(1111))
	// explicit map
	bufs = xrt.Buffers{bind(0, 0): make([]byte, 4), bind(0, 1): u32s(5)}
	regs := map[Reg]xrt.Binding{{'u', 4, 3}: bind(0, 0), {'b', 1, 3}: bind(0, 1)}
	if err := p.Exec(bufs, Opts{Opts: xrt.Opts{EntryPoint: "second"}, Registers: regs}); err != nil {
		t.Fatal(err)
	}
	wantWords(t, bufs[bind(0, 0)], uint32(99))
	var m *xrt.Malformed
	if err := p.Exec(bufs, Opts{Opts: xrt.Opts{EntryPoint: "third"}}); !errors.As(err, &m) {
		t.Errorf("missing entry: %v", err)
	}
}

func TestStatementsOnHandWrittenHLSL(t *testing.T) {
	src := `
RWByteAddressBuffer o : register(u0);
typedef int ret3[3];
ret3 mk(int a) { int r[3] = { a, a + 1, a + 2 }; return r; }
static const int K[3] = mk(5);
void both(inout int a, out uint b, in float c) { a = a + 1; b = 7.9; }
uint len(RWByteAddressBuffer b) { uint n; b.GetDimensions(n); return n; }
[numthreads(1,1,1)] void main() {
  int s = 0;
  [unroll] for (int i = 0; i < 3; i++) { s += K[i]; }
  o.Store(0, asuint(s));
  int d = 0;
  do { d++; if (d == 2) { continue; } if (d > 3) { break; } } while (d < 10);
  o.Store(4, asuint(d));
  float fa = 1.5; uint ub;
  int ia = 4;
  both(ia, ub, fa);
  o.Store(8, asuint(ia)); o.Store(12, ub);
  float4 v = float4(1.0, 2.0, 3.0, 4.0);
  v.zx = float2(9.0, 8.0);
  v.y += 1.0;
  v[3] = 5.0;
  o.Store4(16, asuint(v));
  float2 arr[4] = (float2[4])0;
  arr[2].y = 3.0;
  o.Store(32, asuint(arr[2].y + arr[1].x));
  o.Store(36, len(o));
  uint acc = 0u;
  [loop] while (true) { acc += 2u; if (acc >= 6u) break; }
  o.Store(40, acc);
  int sw = 0;
  switch (ia) { case 4: case 5: { sw = 1; break; } default: { sw = 2; break; } }
  o.Store(44, asuint(sw));
  uint2 lb = uint2(4294967295u, 4294967295u);
  lb -= uint2(lb.y == 0u, 1u);
  o.Store2(48, lb);
  int pre = ++ia; int post = ia--;
  o.Store(56, asuint(pre * 100 + post * 10 + ia));
}`
	got, err := runOut(t, src, 16, nil, Opts{Opts: xrt.Opts{PoisonLocals: true}})
	if err != nil {
		t.Fatal(err)
	}
	wantWords(t, got, 18, 4, 5, uint32(7), 8.0, 3.0, 9.0, 5.0, 3.0, uint32(64), uint32(6), 1, uint32(0xFFFFFFFF), uint32(0xFFFFFFFE), 665)
}
