package hlslx

type eop uint8

const (
	eLit       eop = iota // bits in val[0..n)
	eVar                  // sym: local/static/groupshared/param
	eCBVar                // sym: member of a cbuffer (root of a constant-buffer access chain)
	eResVar               // sym: resource global
	eMember               // a . field   (n = slot offset, fld = field index)
	eIndex                // a [ b ]
	eSwizzle              // a . sw
	eUnary                // bop applied to a
	eBinary               // a bop b (operands already converted to a common operand type)
	eShift                // a << b, a >> b
	eLogical              // a && b, a || b (both evaluated, component-wise)
	eTernary              // a ? b : c
	eAssign               // a = b ; a op= b (bop != 0)
	eIncDec               // ++a a++ --a a--
	eConvert              // numeric conversion of a to t (shape: same, splat or truncation)
	eFlatCast             // explicit cast between aggregates with equal flattened component counts
	eZeroInit             // (T)scalar for aggregate T: every leaf = converted scalar
	eConstruct            // floatN(...)/floatRxC(...) from args (already converted to the target kind)
	eCall                 // user function
	eIntrinsic            // intrinsic function
	eMethod               // resource method
	eInitList             // { a, b, c } in a declaration, flattened
	eComma                // a , b
	eOpaque               // outside the subset: evaluating it is *xrt.Unsupported
)

type bop uint8

const (
	opNone bop = iota
	opAdd
	opSub
	opMul
	opDiv
	opMod
	opAnd
	opOr
	opXor
	opShl
	opShr
	opEq
	opNe
	opLt
	opLe
	opGt
	opGe
	opLAnd
	opLOr
	opNeg
	opPlus
	opNot
	opBitNot
	opPreInc
	opPreDec
	opPostInc
	opPostDec
)

type expr struct {
	op   eop
	bop  bop
	t    *Type
	a    *expr
	b    *expr
	c    *expr
	args []*expr
	n    int // eMember: slot offset; eIndex: element slot count
	fld  int // eMember: field index
	sw   [4]uint8
	nsw  uint8
	val  []slot
	lk   []uint8 // per-slot scalar-kind conversion (from<<4|to); nil = all identical
	sym  *symbol
	fn   *funcDecl
	in   *intrinsic
	name string // method name / opaque reason
	line int32
	// side: evaluating the expression may write memory (assignment, call, ++, Interlocked...).
	side bool
	// cb: expression is a chain rooted at a constant-buffer member.
	cb bool
	// lv: expression designates a modifiable object.
	lv bool
	// konst: expression is a compile-time constant (literals and conversions of them).
	konst bool
}

type sop uint8

const (
	sExpr sop = iota
	sDecl
	sBlock
	sIf
	sWhile
	sDoWhile
	sFor
	sSwitch
	sBreak
	sContinue
	sReturn
	sDiscard
	sEmpty
)

type swCase struct {
	vals  []uint32
	deflt bool
	body  []*stmt
}

type stmt struct {
	op    sop
	e     *expr   // condition / expression / return value / decl initialiser
	sym   *symbol // sDecl
	init  []*stmt // sFor
	post  *expr   // sFor
	body  []*stmt
	els   []*stmt
	cases []swCase
	line  int32
}

type storage uint8

const (
	stNone storage = iota
	stLocal
	stStatic
	stShared
	stCBuffer
	stResource
)

type symKind uint8

const (
	symVar symKind = iota
	symFunc
	symType
)

type symbol struct {
	name    string
	kind    symKind
	t       *Type
	store   storage
	off     int // slot offset in frame / statics / shared
	isConst bool
	init    *expr
	cb      *cbufferDecl
	cbn     *cbNode
	res     *resourceDecl
	funcs   []*funcDecl
	line    int
	scope   int
}

type paramDir uint8

const (
	dirIn paramDir = iota
	dirOut
	dirInOut
)

type param struct {
	sym      *symbol
	dir      paramDir
	semantic string
}

type funcDecl struct {
	name        string
	ret         *Type
	retSemantic string
	params      []param
	body        []*stmt
	frame       int
	numthreads  [3]uint32
	isEntry     bool
	hasOut      bool
	line        int
	unsupported string // non-empty: the body uses something outside the subset in a way that prevents execution
}

type resourceDecl struct {
	name   string
	t      *Type
	reg    Reg
	hasReg bool
	index  int
	line   int
	count  int // array of resources; 0 = not an array
}

type cbufferDecl struct {
	name    string
	reg     Reg
	hasReg  bool
	members []*symbol
	layout  []*cbNode
	line    int
	index   int
}

// Reg is an HLSL register binding: register(<Class><Index>, space<Space>).
type Reg struct {
	Class        byte // 't', 'u', 'b', 's'
	Index, Space uint32
}

// Decl is one declared identifier of the program text.
type Decl struct {
	Name          string
	Kind          string // "struct","member","function","param","local","global","typedef","cbuffer"
	ScopeID       int
	ParentScopeID int // -1 for the global scope
	Line          int
	Type          string
}

// Resource is a global resource declaration.
type Resource struct {
	Name   string
	Kind   string // "ByteAddressBuffer","RWByteAddressBuffer","cbuffer","Texture2D",...
	Reg    Reg
	HasReg bool
	Type   string // full type spelling; for a cbuffer the member declarations
	Count  int    // array of resources: length; otherwise 0
	Line   int
}

// EntryParam is a parameter (or a member of a struct-typed parameter) of a function.
type EntryParam struct {
	Name     string
	Type     string
	Semantic string
	Dir      string // "in", "out", "inout"
	Members  []EntryParam
}

// Entry describes a function; EntryPoints returns those carrying [numthreads].
type Entry struct {
	Name           string
	NumThreads     [3]uint32
	Params         []EntryParam
	ReturnType     string
	ReturnSemantic string
	Line           int
}

// MemberLayout is the placement of one constant-buffer member by HLSL packing rules.
type MemberLayout struct {
	Name     string
	Type     string
	Offset   int // bytes from the start of the constant buffer
	Size     int // bytes occupied (last array element / struct tail not padded)
	Stride   int // arrays: bytes between elements; matrices: bytes between rows (row_major) or columns
	Count    int // arrays: number of elements
	RowMajor bool
	Members  []MemberLayout // struct members (for arrays: of element 0)
}

// Program is a parsed, resolved and type-checked HLSL translation unit. It is immutable after
// Parse and may be executed concurrently.
type Program struct {
	funcs      []*funcDecl
	entries    []*funcDecl
	resources  []*resourceDecl
	cbuffers   []*cbufferDecl
	globals    []*symbol // static and groupshared in declaration order
	staticSize int
	sharedSize int
	decls      []Decl
	problems   []string
	arrays     map[arrKey]*Type
	hasBarrier bool
	resList    []Resource
}

type arrKey struct {
	elem *Type
	n    int
}
