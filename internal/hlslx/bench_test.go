package hlslx

import (
	"os"
	"testing"

	"verif/internal/xrt"
)

const benchWGSL = `
struct S { a: i32, b: vec3<f32>, m: mat2x3<f32>, c: array<vec2<f32>, 2> }
@group(0) @binding(0) var<storage, read> inp: S;
@group(0) @binding(1) var<storage, read_write> outp: S;
var<private> cnt: i32;
var<workgroup> wg: array<u32, 8>;
fn f(p: ptr<function, i32>, x: i32) -> i32 { *p = *p + x; return x / 2; }
@compute @workgroup_size(1)
fn main(@builtin(global_invocation_id) gid: vec3<u32>) {
  var s = inp;
  var k = 3;
  let r = f(&k, s.a);
  s.a = r + k + cnt;
  s.m[1] = s.m * vec2<f32>(1.0, 2.0);
  s.m[1].y = 2.0;
  wg[gid.x] = 5u;
  outp = s;
  outp.m[1].x = f32(wg[1]);
  for (var i = 0; i < 2; i++) { outp.c[i] = s.c[i] * 2.0; }
}`

func BenchmarkParse(b *testing.B) {
	h, _ := compileWGSL(b, benchWGSL, nil)
	b.SetBytes(int64(len(h)))
	b.ResetTimer()
	for i := 0; i < b.N; i++ {
		if _, err := Parse(h); err != nil {
			b.Fatal(err)
		}
	}
}

func BenchmarkExec(b *testing.B) {
	h, _ := compileWGSL(b, benchWGSL, nil)
	p, err := Parse(h)
	if err != nil {
		b.Fatal(err)
	}
	bufs := xrt.Buffers{bind(0, 0): make([]byte, 80), bind(0, 1): make([]byte, 80)}
	b.ResetTimer()
	for i := 0; i < b.N; i++ {
		if err := p.Exec(bufs, Opts{}); err != nil {
			b.Fatal(err)
		}
	}
	_ = os.Stdout
}
